#!/usr/bin/env python3
"""Regenerate /verif/MANIFEST.json from lib/props.py (single source of truth)."""
import json, os, sys
here = os.path.dirname(os.path.abspath(__file__))
sys.path.insert(0, here)
from props import PROPS, COMMON_TRUSTED
verif = os.path.dirname(here)
ids = [json.loads(l)["id"] for l in open(os.path.join(verif, "properties.jsonl"))]
checks, na = [], []
for pid in ids:
    m = PROPS.get(pid)
    if not m or m.get("disabled"):
        na.append({"property_id": pid, "reason": (m or {}).get("disabled", "check not built yet (work in progress; see DESIGN.md section 9)")})
        continue
    checks.append({
        "property_id": pid,
        "quick_cmd": f"./check {pid} quick",
        "thorough_cmd": f"./check {pid} thorough",
        "evidence_file": f"/verif/evidence/{pid}.json",
        "replay_cmd_template": f"./check {pid} quick --replay {{path}}",
        "engine": "lean4-model+correspondence",
        "level_claimed": {
            "category": "proof",
            "text": m["level_text"],
            "design_ref": f"DESIGN.md section 5, {pid}",
        },
        "level_note": m["level_note"],
        "technique": m.get("technique", "machine-checked proof in Lean 4: theorems about an executable model (kernel-checked, axiom-audited on every run)"
                           + (", tied to the source by Go->Lean translations of the anchored functions regenerated on every run with equivalence theorems (Props/" + ", ".join(x for x in m.get("props", []) if x.startswith("Trans")) + ")" if any(x.startswith("Trans") for x in m.get("props", [])) else "")
                           + ", by regenerated source facts pinned by lemmas, and by a differential correspondence run of model and implementation (the search for a failing input when a tie breaks)"),
    })
manifest = {
    "version": 1,
    "setup_cmd": "./setup.sh",
    "hooks": {
        "guard": "verif",
        "enable": "no source hooks: harness _test.go files under /verif/harness are injected into /repo's packages at build time with `go test -tags verif -overlay <json>` (go1.26, GODEBUG=asynctimerchan=0 for testing/synctest)",
        "baseline_off_cmd": "cd /repo && go test -vet=off -count=1 -timeout 25m ./...",
        "source_commits": [],
        "add_only": True,
    },
    "engines": [{
        "name": "lean4-model+correspondence",
        "path": "/verif/lean (Lake project), /verif/tools/extract, /verif/harness, /verif/check",
        "serves_properties": [c["property_id"] for c in checks],
        "kind_free_text": "machine-checked proof in Lean 4 about a hand-written executable model; the model is tied to /repo on every run by a go/ast fact extractor (regenerated Lean constants) and a differential correspondence harness (real Go code vs compiled Lean model on generated inputs, virtual time via testing/synctest)",
    }],
    "checks": checks,
    "not_applicable": na,
    "notes": "Every check regenerates source facts, rebuilds the Lean proofs, audits axioms, rebuilds the harness from /repo's working tree and diffs model vs implementation. See DESIGN.md.",
}
json.dump(manifest, open(os.path.join(verif, "MANIFEST.json"), "w"), indent=1)
print(f"{len(checks)} checks, {len(na)} not yet claimed")
