"""Per-property metadata for /verif/check (which harness packages to build, the non-triviality
rule the driver applies, assumptions recorded in the evidence)."""

COMMON_TRUSTED = [
    "Lean 4.33.0 kernel (thorough tier: re-checked by leanchecker)",
    "axioms per theorem as listed under coverage.theorems (allowed: propext, Classical.choice, Quot.sound); no native_decide, no bv_decide, no sorry/admit, no axioms of our own",
    "hand-written Lean model (modelled, not verified); tied to /repo on every run by tools/extract (regenerated constants/structural facts) and by the correspondence harness (differential run of model and implementation on generated cases)",
    "correspondence harness: Go test files injected with `go test -overlay` (tag verif), generators, canonicalisation, vfdriver token parser",
    "Go runtime and standard library, third-party dependencies (ndp, schedgroup, errgroup, go-toml, metricslite/prometheus) behave as documented",
]

PROPS = {
    "C05": {
        "level_text": "Kernel-checked theorems for every (index, min, max, draw): whole-second waits, bounds by the rounded end points, the 16 s cap on the first 3 waits, positivity, divergence of the loop for any run length; tied to the source by regenerated RFC constants and by differential runs of the real multicastDelay and multicast loop. Proof is the right level because the quantifier (all interval pairs x all draws x all run lengths) cannot be enumerated.",
        "level_note": "Trusted: Lean kernel; model of time.Duration.Round; math/rand.Int63n range; synctest timers; the extractor and harness. The multicast loop's goroutine scheduling is not modelled (only its request times).",
        "packages": ["corerad"],
        "gen": ["Advertise"],
        "rule": "cases: (index i, min, max, forced PRNG draw) for accepted interval pairs (whole-second, boundary, fractional; draws 0, range-1, around .5 s and the 16 s cap, random) evaluated by the real multicastDelay with a scripted rand.Source, plus runs of the real (*Advertiser).multicast loop in a testing/synctest bubble with the PRNG replicated from the virtual clock; non-trivial iff min < max, or min = max with an index on either side of the initial-advertisement limit and a wait near the 16 s cap; distinct by canonical case line",
        "exhaustive": {"thorough": "every accepted whole-second (min,max) pair (max 4..1800 s, min 3 s..trunc(0.75 max)) x 6 (index, draw) combinations incl. draws 0 and range-1"},
        "assumptions": [
            "math/rand.Int63n returns a value in [0, n) (the draw is an input of the model)",
            "'to one-second granularity' is read as the Round()ed end points of [min,max] (DESIGN.md section 7)",
            "timer semantics of testing/synctest virtual time equal those of real time for time.After",
        ],
    },
    "C16": {
        "level_text": "Kernel-checked theorems for every epoch, lifetime and clock reading: advertised lifetime = max 0 (epoch+L-now), non-negative, zero from the deadline on, antitone along any non-decreasing clock sequence of any length, preferred <= valid at every instant, constants when not deprecated; tied to the source by differential runs of the real Prefix.Apply/Route.Apply with an injected clock at deadline-1ns/deadline/deadline+1ns.",
        "level_note": "Trusted: Lean kernel; time.Time Add/Sub/Equal/After on one non-saturating clock; the harness. time.Time saturation beyond 292 years is outside the model.",
        "packages": ["plugin"],
        "gen": [],
        "rule": "cases: (deprecated?, epoch, lifetimes, non-decreasing clock sequence of 2..8 readings placed before the epoch, around epoch, at deadline-1ns / deadline / deadline+1ns and beyond) evaluated by the real Prefix.Apply / Route.Apply with an injected TimeNow; non-trivial iff deprecated and the sequence has readings on both sides of a deadline; distinct by canonical case line",
        "assumptions": [
            "one non-decreasing clock; time.Time saturation (|t| > 292 years) and wall/monotonic mixing are outside the model",
            "the epoch is non-zero (config.Parse is called with the daemon start time)",
        ],
    },
}
