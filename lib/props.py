"""Per-property metadata for /verif/check (which harness packages to build, the non-triviality
rule the driver applies, assumptions recorded in the evidence)."""

COMMON_TRUSTED = [
    "Lean 4.33.0 kernel (thorough tier: re-checked by leanchecker)",
    "axioms per theorem as listed under coverage.theorems (allowed: propext, Classical.choice, Quot.sound); no native_decide, no bv_decide, no sorry/admit, no axioms of our own",
    "hand-written Lean model (modelled, not verified); tied to /repo on every run by tools/extract (regenerated constants/structural facts) and by the correspondence harness (differential run of model and implementation on generated cases)",
    "correspondence harness: Go test files injected with `go test -overlay` (tag verif), generators, canonicalisation, vfdriver token parser",
    "Go runtime and standard library, third-party dependencies (ndp, schedgroup, errgroup, go-toml, metricslite/prometheus) behave as documented",
]

PROPS = {
    "C05": {
        "level_text": "Kernel-checked theorems for every (index, min, max, draw): whole-second waits, bounds by the rounded end points, the 16 s cap on the first 3 waits, positivity, divergence of the loop for any run length; tied to the source by regenerated RFC constants and by differential runs of the real multicastDelay and multicast loop. Proof is the right level because the quantifier (all interval pairs x all draws x all run lengths) cannot be enumerated.",
        "level_note": "Trusted: Lean kernel; model of time.Duration.Round; math/rand.Int63n range; synctest timers; the extractor and harness. The multicast loop's goroutine scheduling is not modelled (only its request times).",
        "packages": ["corerad"],
        "gen": ["Advertise"],
        "rule": "cases: (index i, min, max, forced PRNG draw) for accepted interval pairs (whole-second, boundary, fractional; draws 0, range-1, around .5 s and the 16 s cap, random) evaluated by the real multicastDelay with a scripted rand.Source, plus runs of the real (*Advertiser).multicast loop in a testing/synctest bubble with the PRNG replicated from the virtual clock; non-trivial iff min < max, or min = max with an index on either side of the initial-advertisement limit and a wait near the 16 s cap; distinct by canonical case line",
        "exhaustive": {"thorough": "every accepted whole-second (min,max) pair (max 4..1800 s, min 3 s..trunc(0.75 max)) x 6 (index, draw) combinations incl. draws 0 and range-1"},
        "assumptions": [
            "math/rand.Int63n returns a value in [0, n) (the draw is an input of the model)",
            "'to one-second granularity' is read as the Round()ed end points of [min,max] (DESIGN.md section 7)",
            "timer semantics of testing/synctest virtual time equal those of real time for time.After",
        ],
    },
    "C16": {
        "level_text": "Kernel-checked theorems for every epoch, lifetime and clock reading: advertised lifetime = max 0 (epoch+L-now), non-negative, zero from the deadline on, antitone along any non-decreasing clock sequence of any length, preferred <= valid at every instant, constants when not deprecated; tied to the source by differential runs of the real Prefix.Apply/Route.Apply with an injected clock at deadline-1ns/deadline/deadline+1ns.",
        "level_note": "Trusted: Lean kernel; time.Time Add/Sub/Equal/After on one non-saturating clock; the harness. time.Time saturation beyond 292 years is outside the model.",
        "packages": ["plugin"],
        "gen": [],
        "rule": "cases: (deprecated?, epoch, lifetimes, non-decreasing clock sequence of 2..8 readings placed before the epoch, around epoch, at deadline-1ns / deadline / deadline+1ns and beyond) evaluated by the real Prefix.Apply / Route.Apply with an injected TimeNow; non-trivial iff deprecated and the sequence has readings on both sides of a deadline; distinct by canonical case line",
        "assumptions": [
            "one non-decreasing clock; time.Time saturation (|t| > 292 years) and wall/monotonic mixing are outside the model",
            "the epoch is non-zero (config.Parse is called with the daemon start time)",
        ],
    },
    "C13": {
        "level_text": "Kernel-checked theorems for every address list of any length: membership iff some eligible address masks to the prefix, strictly ascending (hence each once), invariance under permutation and multiplicity, uniform stanza flags/lifetimes, failure propagation; tied to the source by differential runs of the real Prefix.Apply with an injected address source (bounded-exhaustive tuples over a 14-address pool + random lists).",
        "level_note": "Trusted: Lean kernel; model of netip (Is4, IsLinkLocalUnicast, Masked, Compare) and of slices.SortStableFunc as a stable insertion sort; the harness. The rtnetlink address dump itself is outside the model.",
        "packages": ["plugin"],
        "gen": ["Plugin"],
        "rule": "cases: every tuple (with repetition, all orders) of length <= 3 (quick) / <= 4 (thorough) over a 14-address pool mixing ULA/GUA/link-local/IPv4, /48 /64 /128, flags, several hosts per /64, plus random lists of up to 64 addresses with duplicates; evaluated by the real Prefix.Apply with injected Addrs; non-trivial iff the list has at least one eligible and one excluded address; distinct by canonical case line",
        "exhaustive": {"quick": "all tuples of length <= 3 over the 14-address pool", "thorough": "all tuples of length <= 4 over the 14-address pool"},
        "assumptions": ["the operating system supplies valid netip.Prefix values (AddressesByIndex constructs them with PrefixFrom)"],
    },
    "C14": {
        "level_text": "Kernel-checked theorems for every address list of any length: betterRDNSS is the minimum of a total ranking key (stable first, then ULA < GUA < link-local < other, then lowest address); the fold returns the address of a rank-minimal eligible entry; invariant under permutation; no eligible address => error; static servers follow unchanged; tied to the source by the regenerated predicate order and differential runs of the real RDNSS.Apply.",
        "level_note": "Trusted: Lean kernel; model of netip predicates (IsPrivate, IsGlobalUnicast, IsLinkLocalUnicast, Less, As16); the harness.",
        "packages": ["plugin"],
        "gen": ["Plugin"],
        "rule": "cases: every tuple of length <= 3 (quick) / <= 4 (thorough) over an 18-address pool covering class x stability source x exclusion flag, rotated over 3 static server lists, plus random lists of up to 64 addresses; evaluated by the real RDNSS.Apply with injected Addrs; non-trivial iff at least two eligible addresses with different ranking keys; distinct by canonical case line",
        "exhaustive": {"quick": "all tuples of length <= 3 over the 18-address pool", "thorough": "all tuples of length <= 4 over the 18-address pool"},
        "assumptions": ["the operating system supplies valid netip.Prefix values"],
    },
    "C15": {
        "level_text": "Kernel-checked theorems for every route dump of any length (canonical prefixes): membership iff IPv6, not /128 and not covered by a strictly shorter route; strictly ascending, no duplicates, pairwise non-overlapping; invariant under permutation and multiplicity; uniform stanza preference/lifetime; tied to the source by differential runs of the real Route.Apply with an injected route source.",
        "level_note": "Trusted: Lean kernel; model of netip.Prefix (Contains, Overlaps, IsSingleIP) and of the stable sort; the harness. The rtnetlink route dump is outside the model; route prefixes are assumed canonical (the kernel masks destinations).",
        "packages": ["plugin"],
        "gen": ["Plugin"],
        "rule": "cases: every tuple of length <= 3 (quick) / <= 4 (thorough) over a 12-route pool with nested prefixes at equal and different base addresses, /128, ::/0, IPv4, plus random dumps of up to 64 routes with duplicates; evaluated by the real Route.Apply with injected Routes; non-trivial iff the dump has a covering pair or a duplicated eligible route; distinct by canonical case line",
        "exhaustive": {"quick": "all tuples of length <= 3 over the 12-route pool", "thorough": "all tuples of length <= 4 over the 12-route pool"},
        "assumptions": ["route prefixes in the dump are canonical (masked), as the kernel reports them"],
    },
    "C01": {
        "level_text": "Kernel-checked refinement: for every raw stanza, system state and forwarding value, parse-then-build equals the declarative per-stanza RA (header fields, options in the documented order, PREF64 lifetime formula, generation fails iff a wildcard source fails / no eligible RDNSS address); tied to the source by regenerated plugin order / purity facts and by differential runs of config.Parse + Interface.RouterAdvertisement on generated TOML documents with injected system state, each RA built 3 times and the configuration snapshotted.",
        "level_note": "Trusted: Lean kernel; TOML decoding and the standard parsers are external parameters of the model (their results are passed alongside each raw string); purity of Apply rests on the extractor fact + repeated builds; harness generators.",
        "packages": ["config"],
        "gen": ["Config", "Plugin"],
        "rule": "cases: generated advertising stanza (all stanza kinds, 0..3 of each, static and wildcard, deprecated, defaults/auto/infinite/explicit; 97 % valid stream) rendered to TOML, parsed by the real config.Parse, system state (addresses, loopback routes, MAC present/absent, clock around deadlines, failing sources) injected through the plugins' exported fields, RA built 3 times; non-trivial iff accepted, RA built and it carries at least 2 option kinds; distinct by canonical case line",
        "assumptions": ["interface names, DNS names and URIs are opaque ids in the model", "zone-qualified RDNSS server strings are not generated (the model's addresses are zone-free)"],
    },
    "C02": {
        "level_text": "Kernel-checked equivalence for every raw configuration: the procedural validator (early returns, Go control flow) accepts iff the declarative Documented predicate holds, and on acceptance returns exactly the documented resolution of defaults; float-derived min_interval default/bound proved over all whole-second values; tied to the source by regenerated bounds/defaults and differential runs of config.Parse on structured, boundary (limit-1ns/limit/limit+1ns) and malformed documents.",
        "level_note": "Trusted: Lean kernel; TOML strict decoding, time.ParseDuration, netip.ParsePrefix/ParseAddr, ndp.NewCaptivePortal, net.ResolveTCPAddr are external parameters; 'never panics' for the decoder and standard parsers is exploration only (fuzzing under recover).",
        "packages": ["config"],
        "gen": ["Config", "Plugin"],
        "rule": "cases: TOML documents rendered from generated raw configurations (60 % mostly-valid, 25 % boundary-heavy, 15 % invalid-heavy; 1..3 stanzas with name/names mixes and repeats), every single-key boundary triple on a minimal document, overlap pairs in both orders, plus a malformed stream (random bytes, mutated documents, grammar tokens) judged only for panics; evaluated by the real config.Parse; non-trivial iff the document has at least one interface stanza (reaches a validation decision other than 'no interfaces'); distinct by canonical case line",
        "exhaustive": {"thorough": "every whole-second (max_interval 3..1801 s, min_interval 2 s..bound+1 s) pair and every default min_interval"},
        "assumptions": ["readings of DESIGN.md section 7 (lifetime ranges, wildcard route exempt from overlap, monitor stanzas unvalidated)"],
    },
    "C03": {
        "level_text": "Kernel-checked: every RA built from an accepted stanza (any system state with a sane clock and an absent or 6-byte MAC) is WireSafe, and for WireSafe RAs the field-level codec round trip is exactly truncation to the field unit; tied to the source by differential runs of the real ndp.MarshalMessage/ParseMessage on RAs of generated accepted configurations (boundary-heavy duration strings, arbitrary pref64 CIDRs, URI lengths around the limit).",
        "level_note": "Trusted: Lean kernel; the byte-level codec (mdlayher/ndp) is a dependency: only its field ranges are modelled and validated differentially; float64 Duration.Seconds() is modelled as exact division.",
        "packages": ["config"],
        "gen": ["Config", "Plugin"],
        "rule": "cases: as C01 with a third of the stanzas drawn from a boundary-heavy stream (negative, sub-second, sub-millisecond, >= 2^32 s, infinite, max-int64 duration strings; arbitrary pref64 CIDRs; URI lengths 245..256), each accepted RA marshalled and parsed back by the real codec; non-trivial iff accepted, built and the RA has at least one duration-carrying option; distinct by canonical case line",
        "assumptions": ["clock not before the daemon's epoch (ClockSane)", "hardware address absent or 6 bytes (MacOK)", "DNS names well-formed, element counts within one option's 8-bit length"],
    },
    "C04": {
        "level_text": "Kernel-checked for every stanza/state: not forwarding => router lifetime 0 and all other content equal to the forwarding RA; misconfiguration reported iff not forwarding and the configured lifetime is non-zero; forwarding => configured lifetime, no misconfiguration; every RA-generating path reads the live forwarding state (regenerated call-site facts). Tied to the source by differential runs (single generations here; flip histories over all paths in virtual time are in the corerad harness).",
        "level_note": "Trusted: Lean kernel; call-site provenance facts from the go/ast extractor (three call sites of RouterAdvertisement, each fed by State.IPv6Forwarding in the same function); reading the real sysctl is outside the model.",
        "packages": ["config"],
        "gen": ["Advertise", "Metrics"],
        "rule": "cases: as C01, forwarding on/off; non-trivial iff the RA was built; distinct by canonical case line",
        "assumptions": ["misconfiguration is reported iff not forwarding and the configured lifetime is non-zero (DESIGN.md section 7)"],
    },
}
