// translate_verify.go — Go→Lean translation of the consistency checks of internal/corerad/verify.go
// (C12) that are straight-line code or nested `range` loops: checkRAs, checkMTUs, checkCaptivePortal,
// checkPrefixes, checkRoutes — each into the LIST OF PROBLEMS it returns (field label and details
// label; the message text is not modelled), in the order in which `ps.push` is called.
//
// Re-translated from the current source text on every extractor run into Corerad.Gen.Trans.checkRAs
// … checkRoutes; Props/TransC12.lean proves each equal to the hand-written function of the same
// name in Model/Verify.lean — the functions `verify_refl`, `verifyRAs_labels` and the other C12
// theorems are about.  (checkRDNSS / checkDNSSL — index loops with `break` — stay tied by the
// regenerated guards of Gen/Verify.lean and the differential runs.)
//
// # Subset (anything else is reported as unsupported)
//
// A function `func f(a, b *ndp.RouterAdvertisement) problems` or `func f(want, got []ndp.Option) problems`
// whose body is a sequence of
//
//	var ps problems                                     (the list starts empty)
//	x := pick[*ndp.T](opts)  /  var ( x = pick[*ndp.T](opts) … )
//	                                                    let x := pickPI opts | pickRI opts     (T = PrefixInformation | RouteInformation)
//	x, okX := pickFirst[*ndp.T](want); y, okY := pickFirst[*ndp.T](got); if !okX || !okY { return nil }
//	                                                    match firstMTU want, firstMTU got with | some x, some y => rest | _, _ => []
//	                                                    (T = MTU | CaptivePortal; exactly this sequence)
//	if c { return nil }                                 if c then [] else rest
//	if c { ps.push(…) … }                               (if c then [ … ] else []) ++ rest
//	ps.push("label", details, x, y)                     [ { field := F, details := D } ] ++ rest
//	for _, v := range xs { body }                       (xs.flatMap fun v => body) ++ rest, where in body
//	  if c { continue }                                     if c then [] else rest-of-body
//	return ps / return nil                              []
//
// Conditions: == != && || ! and parentheses over
//
//	a.F / b.F of the RA (CurrentHopLimit, ManagedConfiguration, OtherConfiguration, ReachableTime, RetransmitTimer)
//	v.F of a loop variable (PrefixInformation: Prefix, PrefixLength, ValidLifetime, PreferredLifetime;
//	                        RouteInformation: Prefix, PrefixLength, Preference, RouteLifetime)
//	x.MTU / x.URI of a pickFirst result, the literal 0, time.Millisecond, len(xs)
//	checkDurations(x, y, u), equalLifetimes(x, y)       the TRANSLATED functions of Gen.Trans
//
// Labels: the table `verifyFields` (string → Model.Field); details "" = none, prefixStr(v) / routeStr(v)
// = some (v.Prefix, v.PrefixLength) for the loop variable v.
//
// Trusted: the two tables; pick / pickFirst as Model.pickPI / pickRI / firstMTU / firstPortal (printed
// and pinned in Gen/Verify.lean); the message text of a problem is not part of the result.
package main

import (
	"fmt"
	"go/ast"
	"go/token"
	"strings"
)

var verifyFields = map[string]string{
	"hop_limit": ".hopLimit", "managed_configuration": ".managed", "other_configuration": ".other",
	"reachable_time": ".reachable", "retransmit_timer": ".retransmit", "mtu": ".mtu",
	"prefix_information_preferred_lifetime": ".piPreferred", "prefix_information_valid_lifetime": ".piValid",
	"route_information_lifetime": ".riLifetime", "captive_portal": ".captivePortal",
	"rdnss_count": ".rdnssCount", "rdnss_lifetime": ".rdnssLifetime", "rdnss_servers": ".rdnssServers",
	"dnssl_count": ".dnsslCount", "dnssl_lifetime": ".dnsslLifetime", "dnssl_domain_names": ".dnsslNames",
}

var vRAFields = map[string]string{"CurrentHopLimit": "hopLimit", "ManagedConfiguration": "managed", "OtherConfiguration": "other",
	"ReachableTime": "reachable", "RetransmitTimer": "retransmit"}
var vPIFields = map[string]string{"Prefix": "1", "PrefixLength": "2.1", "ValidLifetime": "2.2.1", "PreferredLifetime": "2.2.2"}
var vRIFields = map[string]string{"Prefix": "1", "PrefixLength": "2.1", "Preference": "2.2.1", "RouteLifetime": "2.2.2"}

type vTr struct {
	p    *pkg
	fd   *ast.FuncDecl
	fn   string
	kind map[string]string // variable → ra | opts | piList | riList | rdnssList | dnsslList | pi | ri | mtu | portal
	// index loop `for i := range A` over two DNS option lists of equal length: A[i] ↦ ab.1, B[i] ↦ ab.2
	idxVar, idxA, idxB string
	eqLen              map[string]string // A → B once `if len(A) != len(B) { …; return ps }` was passed
	subst              map[string]string // names bound by an if-init `a, b := X, Y`
	pushed             bool
}

func (t *vTr) fail(n ast.Node, what string) {
	at := ""
	if n != nil && n.Pos().IsValid() {
		at = fmt.Sprintf(" at %s:%d", t.p.fileOf[t.fd], fset.Position(n.Pos()).Line)
	}
	panic(trErr{"translate: " + t.fn + ": unsupported " + what + at})
}

func (t *vTr) val(e ast.Expr) string {
	switch x := e.(type) {
	case *ast.BasicLit:
		if x.Kind == token.INT {
			return x.Value
		}
	case *ast.ParenExpr:
		return "(" + t.val(x.X) + ")"
	case *ast.Ident:
		if v, ok := t.subst[x.Name]; ok {
			return v
		}
	case *ast.SelectorExpr:
		if v, ok := t.dnsField(x); ok {
			return v
		}
		if exprString(x) == "time.Millisecond" {
			return "ms"
		}
		if exprString(x) == "time.Second" {
			return "second"
		}
		if id, ok := x.X.(*ast.Ident); ok {
			switch t.kind[id.Name] {
			case "ra":
				if f, ok := vRAFields[x.Sel.Name]; ok {
					return id.Name + "." + f
				}
			case "pi":
				if f, ok := vPIFields[x.Sel.Name]; ok {
					return id.Name + "." + f
				}
			case "ri":
				if f, ok := vRIFields[x.Sel.Name]; ok {
					return id.Name + "." + f
				}
			case "mtu":
				if x.Sel.Name == "MTU" {
					return id.Name
				}
			case "portal":
				if x.Sel.Name == "URI" {
					return id.Name
				}
			}
		}
	case *ast.CallExpr:
		if exprString(x.Fun) == "len" && len(x.Args) == 1 {
			if id, ok := x.Args[0].(*ast.Ident); ok && strings.HasSuffix(t.kind[id.Name], "List") {
				return id.Name + ".length"
			}
			if v, ok := t.dnsField(x.Args[0]); ok && strings.HasSuffix(v, ".2") {
				return v + ".length"
			}
		}
	}
	t.fail(e, "value "+exprString(e))
	return ""
}

// dnsField: A[i].Lifetime / B[i].Lifetime / A[i].Servers / A[i].DomainNames inside the index loop
func (t *vTr) dnsField(e ast.Expr) (string, bool) {
	sel, ok := e.(*ast.SelectorExpr)
	if !ok || t.idxVar == "" {
		return "", false
	}
	ix, ok := sel.X.(*ast.IndexExpr)
	if !ok || exprString(ix.Index) != t.idxVar {
		return "", false
	}
	var side string
	switch exprString(ix.X) {
	case t.idxA:
		side = "ab.1"
	case t.idxB:
		side = "ab.2"
	default:
		return "", false
	}
	switch sel.Sel.Name {
	case "Lifetime":
		return side + ".1", true
	case "Servers":
		if t.kind[t.idxA] == "rdnssList" {
			return side + ".2", true
		}
	case "DomainNames":
		if t.kind[t.idxA] == "dnsslList" {
			return side + ".2", true
		}
	}
	return "", false
}

func (t *vTr) cond(e ast.Expr) string {
	switch x := e.(type) {
	case *ast.ParenExpr:
		return "(" + t.cond(x.X) + ")"
	case *ast.UnaryExpr:
		if x.Op == token.NOT {
			return "¬ " + t.cond(x.X)
		}
	case *ast.BinaryExpr:
		switch x.Op {
		case token.LAND:
			return "(" + t.cond(x.X) + " ∧ " + t.cond(x.Y) + ")"
		case token.LOR:
			return "(" + t.cond(x.X) + " ∨ " + t.cond(x.Y) + ")"
		case token.EQL:
			return "(" + t.val(x.X) + " = " + t.val(x.Y) + ")"
		case token.NEQ:
			return "(" + t.val(x.X) + " ≠ " + t.val(x.Y) + ")"
		}
	case *ast.CallExpr:
		switch exprString(x.Fun) {
		case "checkDurations":
			if len(x.Args) == 3 {
				return "(checkDurations " + t.val(x.Args[0]) + " " + t.val(x.Args[1]) + " " + t.val(x.Args[2]) + " = true)"
			}
		case "equalLifetimes":
			if len(x.Args) == 2 {
				return "(equalLifetimes " + t.val(x.Args[0]) + " " + t.val(x.Args[1]) + " = true)"
			}
		}
	}
	t.fail(e, "condition "+exprString(e))
	return ""
}

func (t *vTr) push(c *ast.CallExpr) string {
	if len(c.Args) != 4 {
		t.fail(c, "ps.push arity")
	}
	lbl, ok := c.Args[0].(*ast.BasicLit)
	if !ok || lbl.Kind != token.STRING {
		t.fail(c.Args[0], "field label (expected a string literal)")
	}
	f, ok := verifyFields[strings.Trim(lbl.Value, `"`)]
	if !ok {
		t.fail(lbl, "field label "+lbl.Value)
	}
	det := ""
	switch d := c.Args[1].(type) {
	case *ast.BasicLit:
		if d.Value != `""` {
			t.fail(d, "details label")
		}
	case *ast.CallExpr:
		fn := exprString(d.Fun)
		if len(d.Args) == 1 {
			if id, ok := d.Args[0].(*ast.Ident); ok && (fn == "prefixStr" && t.kind[id.Name] == "pi" || fn == "routeStr" && t.kind[id.Name] == "ri") {
				det = ", details := some (" + id.Name + ".1, " + id.Name + ".2.1)"
				break
			}
		}
		t.fail(d, "details label "+exprString(d))
	default:
		t.fail(c.Args[1], "details label")
	}
	// (the values reported do not enter the result: the message text is not modelled)
	t.pushed = true
	return "{ field := " + f + det + " }"
}

func isPush(s ast.Stmt) (*ast.CallExpr, bool) {
	es, ok := s.(*ast.ExprStmt)
	if !ok {
		return nil, false
	}
	c, ok := es.X.(*ast.CallExpr)
	if !ok || exprString(c.Fun) != "ps.push" {
		return nil, false
	}
	return c, true
}

func isReturnNil(s ast.Stmt) bool {
	r, ok := s.(*ast.ReturnStmt)
	return ok && len(r.Results) == 1 && exprString(r.Results[0]) == "nil"
}

var vPick = map[string][2]string{ // type argument → (list kind, Lean function)
	"*ndp.PrefixInformation": {"piList", "Corerad.Model.pickPI"},
	"*ndp.RouteInformation":  {"riList", "Corerad.Model.pickRI"},
	"*ndp.RecursiveDNSServer": {"rdnssList", "Corerad.Model.pickRDNSS"},
	"*ndp.DNSSearchList":      {"dnsslList", "Corerad.Model.pickDNSSL"},
}
var vPickFirst = map[string][2]string{
	"*ndp.MTU":           {"mtu", "Corerad.Model.firstMTU"},
	"*ndp.CaptivePortal": {"portal", "Corerad.Model.firstPortal"},
}

// pickCall: pick[*ndp.T](opts) / pickFirst[*ndp.T](opts)
func (t *vTr) pickCall(e ast.Expr, fn string) (typ, arg string, ok bool) {
	c, isCall := e.(*ast.CallExpr)
	if !isCall || len(c.Args) != 1 {
		return
	}
	ix, isIx := c.Fun.(*ast.IndexExpr)
	if !isIx || exprString(ix.X) != fn {
		return
	}
	id, isID := c.Args[0].(*ast.Ident)
	if !isID || t.kind[id.Name] != "opts" {
		return
	}
	return exprString(ix.Index), id.Name, true
}

// stmts: the Lean list for a statement list; inLoop: `continue` allowed, return not
func (t *vTr) stmts(list []ast.Stmt, ind string, inLoop bool) string {
	if len(list) == 0 {
		if inLoop {
			return "[]"
		}
		t.fail(t.fd, "function body that can end without a return")
	}
	s, rest := list[0], list[1:]
	if c, ok := isPush(s); ok {
		return "[" + t.push(c) + "] ++\n" + ind + t.stmts(rest, ind, inLoop)
	}
	switch x := s.(type) {
	case *ast.DeclStmt:
		gd := x.Decl.(*ast.GenDecl)
		if gd.Tok != token.VAR {
			t.fail(x, "declaration")
		}
		out := ""
		for _, sp := range gd.Specs {
			vs := sp.(*ast.ValueSpec)
			if len(vs.Names) == 1 && vs.Names[0].Name == "ps" && len(vs.Values) == 0 && exprString(vs.Type) == "problems" {
				continue
			}
			if len(vs.Names) != 1 || len(vs.Values) != 1 {
				t.fail(vs, "variable declaration")
			}
			typ, arg, ok := t.pickCall(vs.Values[0], "pick")
			pk, known := vPick[typ]
			if !ok || !known {
				t.fail(vs, "variable declaration "+vs.Names[0].Name)
			}
			t.kind[vs.Names[0].Name] = pk[0]
			out += "let " + vs.Names[0].Name + " := " + pk[1] + " " + arg + "\n" + ind
		}
		return out + t.stmts(rest, ind, inLoop)
	case *ast.AssignStmt:
		// x, okX := pickFirst[T](want); y, okY := pickFirst[T](got); if !okX || !okY { return nil }
		if x.Tok == token.DEFINE && len(x.Lhs) == 2 && len(x.Rhs) == 1 && len(rest) >= 2 {
			y, ok2 := rest[0].(*ast.AssignStmt)
			is, ok3 := rest[1].(*ast.IfStmt)
			typ1, arg1, ok1 := t.pickCall(x.Rhs[0], "pickFirst")
			if ok1 && ok2 && ok3 && y.Tok == token.DEFINE && len(y.Lhs) == 2 && len(y.Rhs) == 1 {
				typ2, arg2, ok4 := t.pickCall(y.Rhs[0], "pickFirst")
				pf, known := vPickFirst[typ1]
				wantCond := "!" + exprString(x.Lhs[1]) + " || !" + exprString(y.Lhs[1])
				if ok4 && known && typ1 == typ2 && is.Init == nil && is.Else == nil && exprString(is.Cond) == wantCond &&
					len(is.Body.List) == 1 && isReturnNil(is.Body.List[0]) && !inLoop {
					a, b := exprString(x.Lhs[0]), exprString(y.Lhs[0])
					t.kind[a], t.kind[b] = pf[0], pf[0]
					return "match " + pf[1] + " " + arg1 + ", " + pf[1] + " " + arg2 + " with\n" + ind + "| some " + a + ", some " + b + " =>\n" + ind + "  " +
						t.stmts(rest[2:], ind+"  ", false) + "\n" + ind + "| _, _ => []"
				}
			}
		}
		if x.Tok == token.DEFINE && len(x.Lhs) == 1 && len(x.Rhs) == 1 {
			if typ, arg, ok := t.pickCall(x.Rhs[0], "pick"); ok {
				if pk, known := vPick[typ]; known {
					name := exprString(x.Lhs[0])
					t.kind[name] = pk[0]
					return "let " + name + " := " + pk[1] + " " + arg + "\n" + ind + t.stmts(rest, ind, inLoop)
				}
			}
		}
		// join := func(…) … { … }: a closure used only to render values for the message text
		if x.Tok == token.DEFINE && len(x.Lhs) == 1 && len(x.Rhs) == 1 {
			if _, isFn := x.Rhs[0].(*ast.FuncLit); isFn {
				return t.stmts(rest, ind, inLoop)
			}
		}
		// equal := true; for j := range A[i].F { if a, b := A[i].F[j], B[i].F[j]; a != b { equal = false; break } }; if !equal { pushes }
		if x.Tok == token.DEFINE && len(x.Lhs) == 1 && len(x.Rhs) == 1 && exprString(x.Rhs[0]) == "true" && len(rest) >= 2 && t.idxVar != "" {
			flag := exprString(x.Lhs[0])
			loop, ok1 := rest[0].(*ast.RangeStmt)
			chk, ok2 := rest[1].(*ast.IfStmt)
			if ok1 && ok2 && loop.Tok == token.DEFINE && loop.Value == nil && loop.Key != nil && len(loop.Body.List) == 1 &&
				chk.Init == nil && chk.Else == nil && exprString(chk.Cond) == "!"+flag {
				j := exprString(loop.Key)
				xs, okx := t.dnsField(loop.X)
				inner, ok3 := loop.Body.List[0].(*ast.IfStmt)
				if okx && ok3 && inner.Else == nil && inner.Init != nil && len(inner.Body.List) == 2 {
					as, ok4 := inner.Init.(*ast.AssignStmt)
					setF, ok5 := inner.Body.List[0].(*ast.AssignStmt)
					brk, ok6 := inner.Body.List[1].(*ast.BranchStmt)
					if ok4 && ok5 && ok6 && as.Tok == token.DEFINE && len(as.Lhs) == 2 && len(as.Rhs) == 2 &&
						brk.Tok == token.BREAK && brk.Label == nil && stmtString(setF) == flag+" = false" &&
						exprString(inner.Cond) == exprString(as.Lhs[0])+" != "+exprString(as.Lhs[1]) {
						ea, okA := as.Rhs[0].(*ast.IndexExpr)
						eb, okB := as.Rhs[1].(*ast.IndexExpr)
						if okA && okB && exprString(ea.Index) == j && exprString(eb.Index) == j {
							va, oka := t.dnsField(ea.X)
							vb, okb := t.dnsField(eb.X)
							// the two slices must be known to have equal lengths here, and be the looped one and its partner
							if oka && okb && va == xs && strings.HasPrefix(va, "ab.1") && strings.HasPrefix(vb, "ab.2") &&
								t.eqLen["len("+exprString(ea.X)+")"] == "len("+exprString(eb.X)+")" {
								var ps []string
								for _, b := range chk.Body.List {
									pc, ok := isPush(b)
									if !ok {
										t.fail(b, "statement under `if !"+flag+"`")
									}
									ps = append(ps, t.push(pc))
								}
								return "(if ¬ (Corerad.Model.zipAllEq " + va + " " + vb + " = true) then [" + strings.Join(ps, ", ") + "] else []) ++\n" + ind + t.stmts(rest[2:], ind, inLoop)
							}
						}
					}
				}
			}
		}
		t.fail(x, "assignment "+stmtString(x))
	case *ast.IfStmt:
		if x.Else != nil {
			t.fail(x, "if with else")
		}
		// the pattern  equal := true; for j := range A[i].F { if a, b := A[i].F[j], B[i].F[j]; a != b { equal = false; break } }; if !equal { pushes }
		// is recognised at `equal := true` (below); a bare `if !equal` elsewhere is unsupported
		savedSubst := t.subst
		if x.Init != nil {
			as, ok := x.Init.(*ast.AssignStmt)
			if !ok || as.Tok != token.DEFINE || len(as.Lhs) != len(as.Rhs) {
				t.fail(x, "if init statement")
			}
			ns := map[string]string{}
			for k, v := range t.subst {
				ns[k] = v
			}
			for i := range as.Lhs {
				ns[exprString(as.Lhs[i])] = t.val(as.Rhs[i])
			}
			t.subst = ns
		}
		c := t.cond(x.Cond)
		t.subst = savedSubst
		// if len(A) != len(B) { ps.push(…); return ps }   with nothing pushed before
		if n := len(x.Body.List); n >= 2 && !inLoop {
			if r, ok := x.Body.List[n-1].(*ast.ReturnStmt); ok && len(r.Results) == 1 && exprString(r.Results[0]) == "ps" {
				if t.pushed {
					t.fail(r, "early `return ps` after earlier pushes")
				}
				var ps []string
				for _, b := range x.Body.List[:n-1] {
					pc, ok := isPush(b)
					if !ok {
						t.fail(b, "statement before `return ps`")
					}
					ps = append(ps, t.push(pc))
				}
				t.pushed = false
				if be, ok := x.Cond.(*ast.BinaryExpr); ok && be.Op == token.NEQ {
					la, lb := exprString(be.X), exprString(be.Y)
					if strings.HasPrefix(la, "len(") && strings.HasPrefix(lb, "len(") {
						t.eqLen[strings.TrimSuffix(strings.TrimPrefix(la, "len("), ")")] = strings.TrimSuffix(strings.TrimPrefix(lb, "len("), ")")
					}
				}
				return "if " + c + " then [" + strings.Join(ps, ", ") + "] else\n" + ind + t.stmts(rest, ind, inLoop)
			}
		}
		// if c { ps.push(…); continue }
		if n := len(x.Body.List); n >= 2 && inLoop {
			if br, ok := x.Body.List[n-1].(*ast.BranchStmt); ok && br.Tok == token.CONTINUE && br.Label == nil {
				var ps []string
				for _, b := range x.Body.List[:n-1] {
					pc, ok := isPush(b)
					if !ok {
						t.fail(b, "statement before continue")
					}
					ps = append(ps, t.push(pc))
				}
				if be, ok := x.Cond.(*ast.BinaryExpr); ok && be.Op == token.NEQ {
					t.eqLen[exprString(be.X)] = exprString(be.Y)
				}
				return "if " + c + " then [" + strings.Join(ps, ", ") + "] else\n" + ind + t.stmts(rest, ind, inLoop)
			}
		}
		// if c { return nil } / if c { continue }
		if len(x.Body.List) == 1 {
			switch b := x.Body.List[0].(type) {
			case *ast.ReturnStmt:
				if !inLoop && len(b.Results) == 1 && (exprString(b.Results[0]) == "nil" || exprString(b.Results[0]) == "ps") {
					if exprString(b.Results[0]) == "ps" {
						t.fail(b, "early `return ps` (what was pushed before it would be lost in this translation)")
					}
					return "if " + c + " then [] else\n" + ind + t.stmts(rest, ind, inLoop)
				}
				t.fail(b, "return inside a loop")
			case *ast.BranchStmt:
				if inLoop && b.Tok == token.CONTINUE && b.Label == nil {
					return "if " + c + " then [] else\n" + ind + t.stmts(rest, ind, inLoop)
				}
				t.fail(b, "branch statement")
			}
		}
		// if c { ps.push(…) … }
		var ps []string
		for _, b := range x.Body.List {
			pc, ok := isPush(b)
			if !ok {
				t.fail(b, "statement in a conditional (only ps.push, return nil or continue)")
			}
			ps = append(ps, t.push(pc))
		}
		return "(if " + c + " then [" + strings.Join(ps, ", ") + "] else []) ++\n" + ind + t.stmts(rest, ind, inLoop)
	case *ast.RangeStmt:
		id, ok := x.X.(*ast.Ident)
		// for i := range A  over DNS option lists A, B with len(A) == len(B) established: zip
		if ok && x.Tok == token.DEFINE && x.Value == nil && x.Key != nil && (t.kind[id.Name] == "rdnssList" || t.kind[id.Name] == "dnsslList") {
			b, have := t.eqLen[id.Name]
			if !have || t.kind[b] != t.kind[id.Name] || t.idxVar != "" || inLoop {
				t.fail(x, "index loop over "+id.Name+" (no `if len("+id.Name+") != len(…) { …; return ps }` before it)")
			}
			t.idxVar, t.idxA, t.idxB = exprString(x.Key), id.Name, b
			body := t.stmts(x.Body.List, ind+"    ", true)
			t.idxVar, t.idxA, t.idxB = "", "", ""
			return "((List.zip " + id.Name + " " + b + ").flatMap (fun ab =>\n" + ind + "    " + body + ")) ++\n" + ind + t.stmts(rest, ind, inLoop)
		}
		if !ok || x.Tok != token.DEFINE || exprString(x.Key) != "_" || x.Value == nil {
			t.fail(x, "range statement")
		}
		var ek string
		switch t.kind[id.Name] {
		case "piList":
			ek = "pi"
		case "riList":
			ek = "ri"
		default:
			t.fail(x, "range over "+id.Name)
		}
		v := exprString(x.Value)
		if _, dup := t.kind[v]; dup {
			t.fail(x, "loop variable "+v+" shadows another variable")
		}
		t.kind[v] = ek
		body := t.stmts(x.Body.List, ind+"    ", true)
		delete(t.kind, v)
		return "(" + id.Name + ".flatMap (fun " + v + " =>\n" + ind + "    " + body + ")) ++\n" + ind + t.stmts(rest, ind, inLoop)
	case *ast.ReturnStmt:
		if inLoop || len(rest) != 0 || len(x.Results) != 1 || (exprString(x.Results[0]) != "ps" && exprString(x.Results[0]) != "nil") {
			t.fail(x, "return")
		}
		return "[]"
	}
	t.fail(s, fmt.Sprintf("statement %T", s))
	return ""
}

func translateVerifyFunc(p *pkg, name string) (def leanDef, err error) {
	defer func() {
		if r := recover(); r != nil {
			if te, ok := r.(trErr); ok {
				err = fmt.Errorf("%s", te.msg)
				return
			}
			panic(r)
		}
	}()
	t := &vTr{p: p, fn: name, kind: map[string]string{}, eqLen: map[string]string{}, subst: map[string]string{}}
	fd, ok := p.funcs[name]
	if !ok {
		return def, fmt.Errorf("translate: %s: function not found in %s", name, p.dir)
	}
	t.fd = fd
	var names, types []string
	for _, f := range fd.Type.Params.List {
		for _, n := range f.Names {
			names = append(names, n.Name)
			types = append(types, exprString(f.Type))
		}
	}
	if fd.Recv != nil || len(names) != 2 || types[0] != types[1] || fd.Type.Results == nil || len(fd.Type.Results.List) != 1 || exprString(fd.Type.Results.List[0].Type) != "problems" {
		t.fail(fd, "signature")
	}
	var lt string
	switch types[0] {
	case "*ndp.RouterAdvertisement":
		t.kind[names[0]], t.kind[names[1]] = "ra", "ra"
		lt = "Corerad.Model.RA"
	case "[]ndp.Option":
		t.kind[names[0]], t.kind[names[1]] = "opts", "opts"
		lt = "List Corerad.Model.Opt"
	default:
		t.fail(fd, "parameter type "+types[0])
	}
	body := t.stmts(fd.Body.List, "  ", false)
	hdr := "/-- " + p.fileOf[fd] + ": the problems (field and details labels, in order) returned by func " + docSafe(funcSig(fd)) + " -/\n" +
		"def " + name + " (" + names[0] + " " + names[1] + " : " + lt + ") : List Corerad.Model.Problem :=\n  "
	return leanDef{name, hdr + body}, nil
}
