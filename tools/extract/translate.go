// translate.go — a small Go→Lean translator for a whitelist of pure arithmetic/decision
// functions of corerad.  On every extractor run the *current source text* of each whitelisted
// function is re-translated into a Lean definition in Corerad/Gen/Trans.lean (namespace
// Corerad.Gen.Trans); hand-written, kernel-checked theorems (Props/Trans*.lean) state that each
// translated definition equals the hand-written model definition for all inputs.  A source change
// that alters behaviour changes the definition and breaks the equivalence proof.
//
// go/ast + go/parser only (no type checker).  The translator never guesses: any construct outside
// the subset below makes it report
//
//	translate: <func>: unsupported <construct> at <file:line>
//
// through failf (the extractor exits non-zero) and the function's definitions are left out of
// Trans.lean, so the equivalence theorems for it no longer build either.
//
// # Supported Go subset and its Lean semantics
//
// Types
//
//	int, int64, int32, uint8.. (all integer kinds)   Int   (unbounded: OVERFLOW IS OUT OF SCOPE)
//	time.Duration                                    Dur   (= Int, nanoseconds)
//	time.Time                                        Time  (= Int, nanoseconds on ONE clock; no
//	                                                        saturation, no wall/monotonic split)
//	bool                                             Bool
//	string                                           String
//	*string                                          Option String (only `p == nil`, `*p` after the
//	                                                        nil guard below, and as an argument of a
//	                                                        pure external function)
//	*rand.Rand                                       dropped; only r.Int63n(e) may be called
//	error (last result)                              result type becomes Option _ ; error = none
//	system.IP, netip.Addr                            abstract types IPRec, Addr (translate_ext.go)
//
// Extensions (parallel assignment, shadowing in nested blocks, abstract system.IP / netip.Addr
// values with their fields and methods as uninterpreted functions, unrolled `for … range` over a
// literal slice of method values): see the header of translate_ext.go.
//
// Function shape
//
//	func f(params) T | (T, error) | error | (T1, T2) with optional named results;
//	methods with a pointer/value receiver `p`: every field `p.F` that is read becomes a
//	parameter `F` (type from the struct declaration, parameters in struct order);
//	assignments to receiver fields are unsupported.
//	Parameter order of the Lean definition: receiver fields, Go parameters, observations
//	(`X_IsZero`), pure external functions, then per-call-site values (`drawN`, `nowN`).
//
// Statements (translated in continuation-passing style to nested let / if-then-else)
//
//	x := e, var x T, var x = e, var ( … )     let x : T := e      (zero value 0 / false / "")
//	x = e, x += e, x -= e, x *= e, x++, x--   shadowing let
//	if c { A } else { B }                      (`if init; c {…}` = `{ init; if c {…} }`) when neither branch returns:
//	                                             let (vars assigned in A or B) := if c then … else …
//	                                           otherwise: if c then ⟦A; rest⟧ else ⟦B; rest⟧
//	switch { case c: … } / switch t { case v, w: … default: … }   (no init, no fallthrough,
//	                                           no break; default last)  = the if/else chain
//	{ … }                                      nested block
//	return e… / bare return with named results  the result (tuple); with an error result:
//	                                             `return e, nil` = some e, `return _, <error>` = none
//	                                             where <error> is fmt.Errorf(…), errors.New(…) or
//	                                             the err variable inside `if err != nil`
//	v, err := F(args); if err != nil { … return … }      match F args with | none => … | some v => …
//	                                           (F a pure external function, see below; the idiom
//	                                            must appear exactly like this; err is not
//	                                            available afterwards)
//	return F(args)                             the Option returned by F
//	if p == nil { …; return … }  (p *string)   match p with | none => … | some p_val => rest
//	                                           (`*p` is `p_val` in the rest, unsupported elsewhere)
//	panic(…)                                   none (the result type becomes Option _)
//	A declaration that shadows a variable or parameter of the SAME block is unsupported; one that
//	shadows a variable of an enclosing block makes that variable unusable in everything translated
//	after the nested block (translate_ext.go).
//	Go identifiers that are Lean keywords are emitted as «name»; identifiers that would capture a
//	name the generated text uses (second, some, decide, …) are unsupported.
//	Everything else (for, range, select, go, defer, goto, labels, calls as statements, …) is
//	unsupported.
//
// Expressions
//
//	integer literals, string literals (printable ASCII without escapes), true, false
//	+ - * (unary -)                            Int arithmetic
//	/ %                                        goDiv / goMod (truncation toward zero)
//	== != < <= > >=                            = ≠ < ≤ > ≥   (numbers; == != also on bool, string,
//	                                           *string vs nil; never on time.Time)
//	&& || !                                    ∧ ∨ ¬  (no side effects in the subset, so
//	                                           short-circuit evaluation is unobservable)
//	time.Nanosecond … time.Hour                ns us ms second minute hour   (Corerad.Basic)
//	ndp.Infinity                               infinity                      (Corerad.Basic)
//	package-level and function-local Go constants: evaluated from the source text to a literal
//	time.Duration(e), int(e), int64(e)         e   (e an integer expression)
//	min(a, b), max(a, b)  (builtins, 2 args)   Min.min a b, Max.max a b
//	d.Round(m), d.Truncate(m)  (d a Duration)  roundDur d m, truncateDur d m (Corerad.Basic)
//	d.Nanoseconds()                            d
//	t.Add(d), t.Sub(u), t.Equal(u), t.After(u), t.Before(u)  (t a Time)   t + d, t - u, t = u, t > u, t < u
//	F.IsZero() for a receiver field / parameter F of type time.Time     Bool parameter F_IsZero
//	time.Duration(0.33 * float64(e))           Corerad.Model.mul033 e   } the only float idioms;
//	time.Duration(0.75 * float64(e))           Corerad.Model.mul075 e   } the literal must match
//	                                           exactly, any other float expression is unsupported
//
// External / impure calls become parameters
//
//	p.TimeNow() (a `func() time.Time` field)   a fresh parameter now0, now1, … per CALL SITE, in
//	                                           source order (= evaluation order of straight-line
//	                                           code): reading the clock twice yields two parameters
//	r.Int63n(e)  (r *rand.Rand)                a fresh parameter draw0, … per call site; the
//	                                           argument is recorded as <f>_drawBound0 …
//	time.ParseDuration(s)                      parameter time_ParseDuration : String → Option Dur
//	parseDuration(s, d)  (package config)      parameter parseDuration : Option String → Dur → Option Dur
//	                                           (pure functions: one parameter, applied to the
//	                                            translated arguments)
//	Calls inside the arguments of fmt.Errorf / panic are not translated (the error value is not
//	modelled) but clock/PRNG call sites there are still counted.
//
// Fragments (retry loops: `(*listener).receiveRetry`, `(*Dialer).init`): the function must
// contain exactly one `for i := e; cond; [post]` loop and exactly one `time.After(arg)` inside
// it; translated are the loop's init/cond/post (no post statement = the identity on the loop
// variable), `arg`, the body of the select case receiving from time.After (as a function returning
// the variables it assigns) and the declared initial value of every local those fragments mention
// (`var x T`, `var x = e`, `x := e` before the loop), each as a function of the locals it mentions.
// Nothing else of these functions is translated (the control flow around the loop is the business
// of the existing structural facts and of the correspondence harness).
//
// # Trusted assumptions (DESIGN.md, trusted base)
//
//   - go/parser's AST is the program; no type checking: types are inferred from declarations in
//     the same package directory (parameters, struct fields, local declarations), an expression
//     whose type cannot be inferred is unsupported.
//   - Integers do not overflow; time.Time does not saturate; one clock.
//   - The tables above: Corerad.Basic's roundDur/truncateDur/goDiv/goMod transcribe the Go
//     library; mul033/mul075 model the two float64 idioms; ndp.Infinity = infinity.
//   - r.Int63n(n) panics for n ≤ 0; the translation leaves the draw unconstrained.
//   - A pure external function returns the same result for the same arguments and `none`
//     stands for "returned a non-nil error".
//   - Error message construction has no effect on the result, and the value returned next to a
//     non-nil error is not observed (`return x, err` = none whatever x is).
//   - Named arguments: the equivalence theorems bind the parameters of the generated definitions
//     by NAME; a parameter that appears, disappears or is renamed makes the statement ill-typed.
package main

import (
	"fmt"
	"go/ast"
	"go/parser"
	"go/token"
	"os"
	"path/filepath"
	"sort"
	"strconv"
	"strings"
)

// ---------------------------------------------------------------------------------------------
// whitelist

type transSpec struct {
	dir  string // package directory relative to the repository root
	fn   string // "name" or "Recv.name"
	lean string // name of the Lean definition (prefix for fragments)
	prop string // property whose Props/Trans<prop>.lean carries the equivalence theorems
	frag bool   // retry-loop fragments instead of the whole function
}

var whitelist = []transSpec{
	{dir: "internal/corerad", fn: "multicastDelay", lean: "multicastDelay", prop: "C05"},
	{dir: "internal/plugin", fn: "Prefix.lifetimes", lean: "Prefix_lifetimes", prop: "C16"},
	{dir: "internal/plugin", fn: "Route.lifetime", lean: "Route_lifetime", prop: "C16"},
	{dir: "internal/config", fn: "parseMinInterval", lean: "parseMinInterval", prop: "C02"},
	{dir: "internal/config", fn: "parseDefaultLifetime", lean: "parseDefaultLifetime", prop: "C02"},
	{dir: "internal/config", fn: "checkLifetime", lean: "checkLifetime", prop: "C02"},
	{dir: "internal/config", fn: "parseDuration", lean: "parseDuration", prop: "C02"},
	{dir: "internal/corerad", fn: "listener.receiveRetry", lean: "receiveRetry", prop: "C09", frag: true},
	{dir: "internal/system", fn: "Dialer.init", lean: "Dialer_init", prop: "C10", frag: true},
	{dir: "internal/corerad", fn: "checkDurations", lean: "checkDurations", prop: "C12"},
	{dir: "internal/corerad", fn: "equalLifetimes", lean: "equalLifetimes", prop: "C12"},
	{dir: "internal/plugin", fn: "isStable", lean: "isStable", prop: "C14"},
	{dir: "internal/plugin", fn: "betterRDNSS", lean: "betterRDNSS", prop: "C14"},
}

// ---------------------------------------------------------------------------------------------
// types

type ty int

const (
	tUnknown ty = iota
	tInt
	tDur
	tTime
	tBool
	tStr
	tOptStr
	tRand  // *rand.Rand
	tClock // func() time.Time
	tErr
	tIP       // system.IP: an opaque record (Lean type variable IPRec), translate_ext.go
	tAddr     // netip.Addr: an opaque value (Lean type variable Addr)
	tFn       // the variable of an unrolled `for … range []func(netip.Addr) bool{…}`
	tShadowed // a variable hidden by a declaration of the same name in a nested block that has ended
)

func (t ty) lean() string {
	switch t {
	case tInt:
		return "Int"
	case tDur:
		return "Dur"
	case tTime:
		return "Time"
	case tBool:
		return "Bool"
	case tStr:
		return "String"
	case tOptStr:
		return "Option String"
	case tIP:
		return "IPRec"
	case tAddr:
		return "Addr"
	}
	return "?"
}

func (t ty) zero() string {
	switch t {
	case tInt, tDur:
		return "0"
	case tBool:
		return "false"
	case tStr:
		return `""`
	}
	return ""
}

func (t ty) numeric() bool { return t == tInt || t == tDur }

// value: a type whose values the translation can bind with `let`
func (t ty) value() bool {
	return t == tInt || t == tDur || t == tTime || t == tBool || t == tStr || t == tIP || t == tAddr
}

var intKinds = map[string]bool{"int": true, "int8": true, "int16": true, "int32": true, "int64": true,
	"uint": true, "uint8": true, "uint16": true, "uint32": true, "uint64": true}

// goType maps a Go type expression to a translator type (tUnknown when unsupported).
func goType(e ast.Expr) ty {
	switch exprString(e) {
	case "time.Duration":
		return tDur
	case "time.Time":
		return tTime
	case "bool":
		return tBool
	case "string":
		return tStr
	case "*string":
		return tOptStr
	case "*rand.Rand":
		return tRand
	case "error":
		return tErr
	case "system.IP":
		return tIP
	case "netip.Addr":
		return tAddr
	}
	if id, ok := e.(*ast.Ident); ok && intKinds[id.Name] {
		return tInt
	}
	if ft, ok := e.(*ast.FuncType); ok {
		if (ft.Params == nil || len(ft.Params.List) == 0) && ft.Results != nil && len(ft.Results.List) == 1 &&
			len(ft.Results.List[0].Names) == 0 && exprString(ft.Results.List[0].Type) == "time.Time" {
			return tClock
		}
	}
	return tUnknown
}

// names the generated Lean text uses unqualified: not available as Go identifiers in a translated
// function (a local of that name would capture the reference)
var reservedNames = map[string]bool{}

// Lean keywords that are legal Go identifiers: emitted as «name»
var leanKeywords = map[string]bool{}

func init() {
	for _, n := range strings.Fields(`ns us ms second minute hour infinity goDiv goMod roundDur truncateDur
		some none decide true false True False Int Dur Time Bool String Option Nat Prop Type Sort Unit
		Min Max Corerad time_ParseDuration parseDuration IPRec Addr`) {
		reservedNames[n] = true
	}
	for _, n := range strings.Fields(`at end from fun let in do then open def theorem match with have show by where
		instance structure class namespace section variable import mut unless macro syntax notation infix
		infixl infixr prefix postfix deriving extends example abbrev inductive private protected partial
		unsafe noncomputable universe using calc obtain suffices nomatch nofun this export local scoped
		attribute mutual opaque axiom set_option termination_by decreasing_by forall exists try catch finally
		lemma omit include public meta`) {
		leanKeywords[n] = true
	}
}

// ln renders a Go identifier as a Lean identifier.
func ln(name string) string {
	if leanKeywords[name] {
		return "«" + name + "»"
	}
	return name
}

// ---------------------------------------------------------------------------------------------
// package loading (all non-test files of one directory)

type pkg struct {
	dir     string
	consts  map[string]constDecl
	dup     map[string]bool // constant declared more than once with different text
	structs map[string]*ast.StructType
	funcs   map[string]*ast.FuncDecl // "name" or "Recv.name"
	fileOf  map[*ast.FuncDecl]string
	repo    string
	imports map[string]map[string]string // file → local package name → import path
	nstruct map[string]int               // number of declarations of a struct type (build-tagged files)
}

var pkgCache = map[string]*pkg{}

func loadPkg(repo, dir string) (*pkg, error) {
	key := repo + "\x00" + dir
	if p, ok := pkgCache[key]; ok {
		return p, nil
	}
	ents, err := os.ReadDir(filepath.Join(repo, dir))
	if err != nil {
		return nil, err
	}
	p := &pkg{dir: dir, consts: map[string]constDecl{}, dup: map[string]bool{}, structs: map[string]*ast.StructType{},
		funcs: map[string]*ast.FuncDecl{}, fileOf: map[*ast.FuncDecl]string{},
		repo: repo, imports: map[string]map[string]string{}, nstruct: map[string]int{}}
	var names []string
	for _, e := range ents {
		n := e.Name()
		if !e.IsDir() && strings.HasSuffix(n, ".go") && !strings.HasSuffix(n, "_test.go") {
			names = append(names, n)
		}
	}
	sort.Strings(names)
	for _, n := range names {
		f, err := parser.ParseFile(fset, filepath.Join(repo, dir, n), nil, parser.SkipObjectResolution)
		if err != nil {
			return nil, err
		}
		p.imports[filepath.ToSlash(filepath.Join(dir, n))] = importsOf(f)
		for _, d := range f.Decls {
			switch d := d.(type) {
			case *ast.GenDecl:
				switch d.Tok {
				case token.CONST:
					m := map[string]constDecl{}
					collectConsts(d, m)
					for k, v := range m {
						if old, ok := p.consts[k]; ok && (exprString(old.expr) != exprString(v.expr) || old.iota != v.iota) {
							p.dup[k] = true
						}
						p.consts[k] = v
					}
				case token.TYPE:
					for _, s := range d.Specs {
						ts := s.(*ast.TypeSpec)
						if st, ok := ts.Type.(*ast.StructType); ok {
							p.structs[ts.Name.Name] = st
							p.nstruct[ts.Name.Name]++
						}
					}
				}
			case *ast.FuncDecl:
				name := d.Name.Name
				if d.Recv != nil && len(d.Recv.List) == 1 {
					t := d.Recv.List[0].Type
					if st, ok := t.(*ast.StarExpr); ok {
						t = st.X
					}
					if id, ok := t.(*ast.Ident); ok {
						name = id.Name + "." + name
					}
				}
				p.funcs[name] = d
				p.fileOf[d] = filepath.ToSlash(filepath.Join(dir, n))
			}
		}
	}
	pkgCache[key] = p
	return p, nil
}

// ---------------------------------------------------------------------------------------------
// Lean expression tree and printer

type lx interface{}

type lAtom string // a one-line term

type lLet struct {
	pat, typ  string
	val, body lx
}

type lIf struct {
	cond      string
	then, els lx
}

type lMatch struct { // match scrut with | none => onNone | some bind => onSome
	scrut, bind   string
	onNone, onSom lx
}

// mkLet builds `let pat : typ := val; body`, simplifying `let x := v; x` to `v`.
func mkLet(pat, typ string, val, body lx) lx {
	if a, ok := body.(lAtom); ok && string(a) == pat {
		return val
	}
	return lLet{pat, typ, val, body}
}

func emit(sb *strings.Builder, x lx, ind string) {
	switch x := x.(type) {
	case lAtom:
		sb.WriteString(ind + string(x) + "\n")
	case lLet:
		if a, ok := x.val.(lAtom); ok {
			sb.WriteString(fmt.Sprintf("%slet %s : %s := %s\n", ind, x.pat, x.typ, string(a)))
		} else {
			sb.WriteString(fmt.Sprintf("%slet %s : %s :=\n", ind, x.pat, x.typ))
			emit(sb, x.val, ind+"  ")
		}
		emit(sb, x.body, ind)
	case lIf:
		sb.WriteString(ind + "if " + x.cond + " then\n")
		emit(sb, x.then, ind+"  ")
		sb.WriteString(ind + "else\n")
		emit(sb, x.els, ind+"  ")
	case lFold:
		sb.WriteString(fmt.Sprintf("%sList.foldl (fun (%s : %s) (%s : %s) =>\n", ind, x.stName, x.stTyp, x.elem, x.elemTyp))
		emit(sb, x.body, ind+"    ")
		sb.WriteString(fmt.Sprintf("%s  ) %s %s\n", ind, x.init, x.xs))
	case lMatch:
		sb.WriteString(ind + "match " + x.scrut + " with\n")
		sb.WriteString(ind + "| none =>\n")
		emit(sb, x.onNone, ind+"  ")
		sb.WriteString(ind + "| some " + x.bind + " =>\n")
		emit(sb, x.onSom, ind+"  ")
	}
}

// strip removes one pair of parentheses enclosing the whole term.
func strip(s string) string {
	if len(s) < 2 || s[0] != '(' || s[len(s)-1] != ')' {
		return s
	}
	depth := 0
	for i, c := range s {
		switch c {
		case '(':
			depth++
		case ')':
			depth--
			if depth == 0 && i != len(s)-1 {
				return s
			}
		}
	}
	return s[1 : len(s)-1]
}

// ---------------------------------------------------------------------------------------------
// translation context

type trErr struct{ msg string }

type param struct {
	name, typ, doc string
}

type callSite struct {
	kind  string // "now" or "draw"
	index int
}

type scope struct {
	vars    map[string]ty     // visible variables and parameters
	errVars map[string]bool   // error variables known to be non-nil here
	deref   map[string]bool   // *string variables known to be non-nil here (`p_val` is bound to *p)
	level   int               // block nesting depth (0 = parameters and the function's top-level block)
	lvl     map[string]int    // depth at which each visible variable was declared (absent = 0)
	fns     map[string]string // tFn variables: the external method the variable is bound to
}

func (s scope) withDeref(name string) scope {
	n := s
	n.deref = map[string]bool{name: true}
	for k := range s.deref {
		n.deref[k] = true
	}
	return n
}

func (s scope) with(name string, t ty) scope {
	n := s
	n.vars = make(map[string]ty, len(s.vars)+1)
	for k, v := range s.vars {
		n.vars[k] = v
	}
	n.vars[name] = t
	n.lvl = make(map[string]int, len(s.lvl)+1)
	for k, v := range s.lvl {
		n.lvl[k] = v
	}
	n.lvl[name] = s.level
	return n
}

func (s scope) withErr(name string) scope {
	n := s
	n.errVars = map[string]bool{name: true}
	for k := range s.errVars {
		n.errVars[k] = true
	}
	return n
}

type tr struct {
	p        *pkg
	spec     transSpec
	fd       *ast.FuncDecl
	local    map[string]constDecl
	recv     string // receiver identifier ("" for functions)
	recvSt   *ast.StructType
	resTys   []ty     // result types (incl. tErr)
	resNames []string // named results (without the error), or nil
	optional bool     // the Lean result is an Option (error result or a panic in the body)

	fieldsUsed map[string]ty
	obs        []param // observation parameters (F_IsZero)
	pure       []param // pure external functions
	sites      map[*ast.CallExpr]callSite
	siteParams []param
	constsUsed map[string]int64

	declared              map[string]bool // every name declared by the body (translate_ext.go: clash with parameters)
	usesSystem, usesNetip bool
}

func (t *tr) fail(n ast.Node, what string) {
	at := ""
	if n != nil && n.Pos().IsValid() {
		pos := fset.Position(n.Pos())
		rel := t.p.fileOf[t.fd]
		if rel == "" {
			rel = filepath.Base(pos.Filename)
		}
		at = fmt.Sprintf(" at %s:%d", rel, pos.Line)
	}
	panic(trErr{fmt.Sprintf("translate: %s: unsupported %s%s", t.spec.fn, what, at)})
}

func (t *tr) checkName(n ast.Node, name string) {
	if reservedNames[name] || strings.HasPrefix(name, "now") && isDigits(name[3:]) || strings.HasPrefix(name, "draw") && isDigits(name[4:]) ||
		strings.HasSuffix(name, "_IsZero") || name == "_" {
		t.fail(n, fmt.Sprintf("identifier name %q (reserved by the translation)", name))
	}
	for _, c := range name {
		if c > 127 {
			t.fail(n, fmt.Sprintf("non-ASCII identifier %q", name))
		}
	}
}

func isDigits(s string) bool {
	if s == "" {
		return false
	}
	for _, c := range s {
		if c < '0' || c > '9' {
			return false
		}
	}
	return true
}

func (t *tr) addOnce(list *[]param, p param) {
	for _, q := range *list {
		if q.name == p.name {
			return
		}
	}
	*list = append(*list, p)
}

// constant evaluates a package-level or function-local Go constant from the source.
func (t *tr) constant(id *ast.Ident) (int64, bool) {
	_, isLocal := t.local[id.Name]
	_, isPkg := t.p.consts[id.Name]
	if !isLocal && !isPkg {
		return 0, false
	}
	if !isLocal && t.p.dup[id.Name] {
		t.fail(id, fmt.Sprintf("constant %s (declared more than once in the package)", id.Name))
	}
	v, err := env{consts: []map[string]constDecl{t.local, t.p.consts}}.eval(id)
	if err != nil {
		t.fail(id, fmt.Sprintf("constant %s (%v)", id.Name, err))
	}
	t.constsUsed[id.Name] = v
	return v, true
}

// ---------------------------------------------------------------------------------------------
// expressions

var timeConst = map[string]string{"Nanosecond": "ns", "Microsecond": "us", "Millisecond": "ms",
	"Second": "second", "Minute": "minute", "Hour": "hour"}

// float idioms: time.Duration(<literal> * float64(e))
var floatIdiom = map[string]string{"0.33": "Corerad.Model.mul033", "0.75": "Corerad.Model.mul075"}

type pureFn struct {
	param string
	args  []ty
	typ   string // Lean type of the parameter
	local bool   // a function of the package under translation (its signature is checked)
	sig   string // expected Go signature of a local function
}

var pureFns = map[string]pureFn{
	"time.ParseDuration": {param: "time_ParseDuration", args: []ty{tStr}, typ: "String → Option Dur"},
	"parseDuration": {param: "parseDuration", args: []ty{tOptStr, tDur}, typ: "Option String → Dur → Option Dur",
		local: true, sig: "(*string, time.Duration) (time.Duration, error)"},
}

func sigString(ft *ast.FuncType) string {
	list := func(fl *ast.FieldList) string {
		var out []string
		if fl != nil {
			for _, f := range fl.List {
				n := len(f.Names)
				if n == 0 {
					n = 1
				}
				for i := 0; i < n; i++ {
					out = append(out, exprString(f.Type))
				}
			}
		}
		return "(" + strings.Join(out, ", ") + ")"
	}
	return list(ft.Params) + " " + list(ft.Results)
}

// pureCall translates a call of a pure external function to `(param args…)` of type Option Dur.
func (t *tr) pureCall(c *ast.CallExpr, sc scope) (string, bool) {
	pf, ok := pureFns[exprString(c.Fun)]
	if !ok {
		return "", false
	}
	if pf.local {
		fd := t.p.funcs[exprString(c.Fun)]
		if fd == nil || sigString(fd.Type) != pf.sig {
			t.fail(c, fmt.Sprintf("call of %s (not the package function with signature %s)", exprString(c.Fun), pf.sig))
		}
	} else if _, shadow := sc.vars[exprString(c.Fun)]; shadow {
		return "", false
	}
	if len(c.Args) != len(pf.args) || c.Ellipsis.IsValid() {
		t.fail(c, "argument list of "+exprString(c.Fun))
	}
	parts := []string{pf.param}
	for i, a := range c.Args {
		s, at := t.expr(a, sc)
		if at != pf.args[i] && !(pf.args[i] == tDur && at == tInt) {
			t.fail(a, fmt.Sprintf("argument %d of %s (type)", i+1, exprString(c.Fun)))
		}
		parts = append(parts, s)
	}
	t.addOnce(&t.pure, param{pf.param, pf.typ, exprString(c.Fun)})
	return "(" + strings.Join(parts, " ") + ")", true
}

// expr translates a value expression; the result is atomic or parenthesised.
func (t *tr) expr(e ast.Expr, sc scope) (string, ty) {
	switch e := e.(type) {
	case *ast.ParenExpr:
		return t.expr(e.X, sc)
	case *ast.BasicLit:
		switch e.Kind {
		case token.INT:
			v, err := strconv.ParseInt(e.Value, 0, 64)
			if err != nil {
				t.fail(e, "integer literal "+e.Value)
			}
			return strconv.FormatInt(v, 10), tInt
		case token.STRING:
			s, err := strconv.Unquote(e.Value)
			if err != nil {
				t.fail(e, "string literal "+e.Value)
			}
			for _, c := range s {
				if c < 0x20 || c > 0x7e || c == '"' || c == '\\' {
					t.fail(e, "string literal "+e.Value+" (only printable ASCII without escapes)")
				}
			}
			return `"` + s + `"`, tStr
		}
		t.fail(e, "literal "+e.Value)
	case *ast.Ident:
		if ty, ok := sc.vars[e.Name]; ok {
			if ty == tShadowed {
				t.fail(e, "use of "+e.Name+" after a nested block declared a variable of the same name")
			}
			if ty == tRand || ty == tClock || ty == tErr || ty == tUnknown || ty == tFn {
				t.fail(e, "use of "+e.Name+" as a value")
			}
			return ln(e.Name), ty
		}
		switch e.Name {
		case "true", "false":
			return e.Name, tBool
		case "nil":
			t.fail(e, "nil outside a comparison with a *string")
		}
		if v, ok := t.constant(e); ok {
			if v < 0 {
				return "(" + strconv.FormatInt(v, 10) + ")", tInt
			}
			return strconv.FormatInt(v, 10), tInt
		}
		t.fail(e, "identifier "+e.Name)
	case *ast.UnaryExpr:
		switch e.Op {
		case token.SUB:
			s, ty := t.expr(e.X, sc)
			if !ty.numeric() {
				t.fail(e, "operand of unary -")
			}
			return "(-" + s + ")", ty
		case token.ADD:
			s, ty := t.expr(e.X, sc)
			if !ty.numeric() {
				t.fail(e, "operand of unary +")
			}
			return s, ty
		case token.NOT:
			return "(decide " + t.cond(e, sc) + ")", tBool
		}
		t.fail(e, "unary operator "+e.Op.String())
	case *ast.BinaryExpr:
		switch e.Op {
		case token.ADD, token.SUB, token.MUL, token.QUO, token.REM:
			a, at := t.expr(e.X, sc)
			b, bt := t.expr(e.Y, sc)
			if !at.numeric() || !bt.numeric() {
				t.fail(e, "operands of "+e.Op.String()+" (not integers/durations)")
			}
			rt := tInt
			if at == tDur || bt == tDur {
				rt = tDur
			}
			switch e.Op {
			case token.QUO:
				return "(goDiv " + a + " " + b + ")", rt
			case token.REM:
				return "(goMod " + a + " " + b + ")", rt
			}
			return "(" + a + " " + e.Op.String() + " " + b + ")", rt
		case token.LAND, token.LOR, token.EQL, token.NEQ, token.LSS, token.LEQ, token.GTR, token.GEQ:
			return "(decide " + t.cond(e, sc) + ")", tBool
		}
		t.fail(e, "binary operator "+e.Op.String())
	case *ast.SelectorExpr:
		if x, ok := e.X.(*ast.Ident); ok {
			if _, isVar := sc.vars[x.Name]; !isVar {
				if x.Name == "time" {
					if n, ok := timeConst[e.Sel.Name]; ok {
						return n, tDur
					}
				}
				if x.Name == "ndp" && e.Sel.Name == "Infinity" {
					return "infinity", tDur
				}
				if x.Name == t.recv && t.recv != "" {
					return t.field(e)
				}
			} else if _, opaque := opaqueStructs[sc.vars[x.Name]]; opaque {
				return t.ipField(e, x, sc)
			}
		}
		t.fail(e, "selector "+exprString(e))
	case *ast.StarExpr:
		if id, ok := e.X.(*ast.Ident); ok && sc.vars[id.Name] == tOptStr {
			if sc.deref[id.Name] {
				return ln(id.Name + "_val"), tStr
			}
			t.fail(e, "dereference of "+id.Name+" not preceded by `if "+id.Name+" == nil { …; return … }`")
		}
		t.fail(e, "dereference "+exprString(e))
	case *ast.CallExpr:
		return t.call(e, sc)
	}
	t.fail(e, fmt.Sprintf("expression %s", exprString(e)))
	return "", tUnknown
}

// field translates a read of receiver field p.F to the parameter F.
func (t *tr) field(e *ast.SelectorExpr) (string, ty) {
	for _, f := range t.recvSt.Fields.List {
		for _, n := range f.Names {
			if n.Name == e.Sel.Name {
				ft := goType(f.Type)
				if ft == tUnknown || ft == tRand || ft == tErr || ft == tClock {
					t.fail(e, fmt.Sprintf("receiver field %s of type %s as a value", n.Name, exprString(f.Type)))
				}
				t.checkName(e, n.Name)
				t.fieldsUsed[n.Name] = ft
				return ln(n.Name), ft
			}
		}
	}
	t.fail(e, "receiver field "+e.Sel.Name+" (not declared in the struct)")
	return "", tUnknown
}

// observable reports whether x is a receiver field or a Go parameter of type time.Time and returns
// the base name for an observation parameter.
func (t *tr) observable(x ast.Expr, sc scope) (string, bool) {
	switch x := x.(type) {
	case *ast.SelectorExpr:
		if id, ok := x.X.(*ast.Ident); ok && id.Name == t.recv && t.recv != "" {
			if _, isVar := sc.vars[id.Name]; !isVar {
				if _, ft := t.field(x); ft == tTime {
					return x.Sel.Name, true
				}
			}
		}
	case *ast.Ident:
		if t.isParam(x.Name) && sc.vars[x.Name] == tTime {
			return x.Name, true
		}
	}
	return "", false
}

func (t *tr) isParam(name string) bool {
	for _, f := range t.fd.Type.Params.List {
		for _, n := range f.Names {
			if n.Name == name {
				return true
			}
		}
	}
	return false
}

func (t *tr) call(c *ast.CallExpr, sc scope) (string, ty) {
	fun := exprString(c.Fun)
	// conversions
	if fun == "time.Duration" || intKinds[fun] {
		if _, shadow := sc.vars[fun]; !shadow && len(c.Args) == 1 {
			rt := tInt
			if fun == "time.Duration" {
				rt = tDur
				// float idioms first: time.Duration(<lit> * float64(e))
				if be, ok := c.Args[0].(*ast.BinaryExpr); ok && be.Op == token.MUL {
					if lit, ok := be.X.(*ast.BasicLit); ok && lit.Kind == token.FLOAT {
						fc, isCall := be.Y.(*ast.CallExpr)
						if fn, known := floatIdiom[lit.Value]; known && isCall && exprString(fc.Fun) == "float64" && len(fc.Args) == 1 {
							s, at := t.expr(fc.Args[0], sc)
							if !at.numeric() {
								t.fail(fc, "argument of float64 (not an integer/duration)")
							}
							return "(" + fn + " " + s + ")", tDur
						}
						t.fail(c, "float expression "+exprString(c.Args[0])+" (not a recognised idiom)")
					}
				}
			}
			s, at := t.expr(c.Args[0], sc)
			if !at.numeric() {
				t.fail(c, "conversion "+fun+"(…) of a non-integer")
			}
			return s, rt
		}
	}
	// builtins min, max (two numeric arguments)
	if fun == "min" || fun == "max" {
		if _, shadow := sc.vars[fun]; !shadow && t.p.funcs[fun] == nil && len(c.Args) == 2 && !c.Ellipsis.IsValid() {
			a, at := t.expr(c.Args[0], sc)
			b, bt := t.expr(c.Args[1], sc)
			if !at.numeric() || !bt.numeric() {
				t.fail(c, "arguments of "+fun+" (not integers/durations)")
			}
			rt := tInt
			if at == tDur || bt == tDur {
				rt = tDur
			}
			return "(" + map[string]string{"min": "Min.min", "max": "Max.max"}[fun] + " " + a + " " + b + ")", rt
		}
	}
	if s, ok := t.pureCall(c, sc); ok {
		_ = s
		t.fail(c, "call of "+fun+" outside `v, err := "+fun+"(…); if err != nil {…}` or `return "+fun+"(…)`")
	}
	if s, rt, ok := t.extCall(c, sc); ok {
		return s, rt
	}
	sel, ok := c.Fun.(*ast.SelectorExpr)
	if !ok {
		t.fail(c, "call of "+fun)
	}
	// per-call-site external values
	if site, ok := t.sites[c]; ok {
		return fmt.Sprintf("%s%d", site.kind, site.index), map[string]ty{"now": tTime, "draw": tInt}[site.kind]
	}
	// F.IsZero()
	if sel.Sel.Name == "IsZero" && len(c.Args) == 0 {
		if base, ok := t.observable(sel.X, sc); ok {
			name := base + "_IsZero"
			t.addOnce(&t.obs, param{name, "Bool", exprString(c)})
			return name, tBool
		}
		t.fail(c, "IsZero() on something other than a receiver field or parameter of type time.Time")
	}
	// methods of Duration / Time values
	x, xt := t.expr(sel.X, sc)
	arg := func(want ...ty) string {
		if len(c.Args) != 1 {
			t.fail(c, "argument list of "+sel.Sel.Name)
		}
		s, at := t.expr(c.Args[0], sc)
		for _, w := range want {
			if at == w {
				return s
			}
		}
		t.fail(c.Args[0], "argument type of "+sel.Sel.Name)
		return ""
	}
	switch {
	case xt == tDur && sel.Sel.Name == "Round":
		return "(roundDur " + x + " " + arg(tDur, tInt) + ")", tDur
	case xt == tDur && sel.Sel.Name == "Truncate":
		return "(truncateDur " + x + " " + arg(tDur, tInt) + ")", tDur
	case xt == tDur && sel.Sel.Name == "Nanoseconds" && len(c.Args) == 0:
		return x, tInt
	case xt == tTime && sel.Sel.Name == "Add":
		return "(" + x + " + " + arg(tDur, tInt) + ")", tTime
	case xt == tTime && sel.Sel.Name == "Sub":
		return "(" + x + " - " + arg(tTime) + ")", tDur
	case xt == tTime && (sel.Sel.Name == "Equal" || sel.Sel.Name == "After" || sel.Sel.Name == "Before"):
		return "(decide " + t.cond(c, sc) + ")", tBool
	case xt == tAddr:
		return t.addrMethod(c, sel, x, sc)
	}
	t.fail(c, "method call "+fun)
	return "", tUnknown
}

// cond translates a boolean expression to a (parenthesised or atomic) decidable Prop.
func (t *tr) cond(e ast.Expr, sc scope) string {
	switch e := e.(type) {
	case *ast.ParenExpr:
		return t.cond(e.X, sc)
	case *ast.UnaryExpr:
		if e.Op == token.NOT {
			return "(¬ " + t.cond(e.X, sc) + ")"
		}
	case *ast.BinaryExpr:
		switch e.Op {
		case token.LAND:
			return "(" + t.cond(e.X, sc) + " ∧ " + t.cond(e.Y, sc) + ")"
		case token.LOR:
			return "(" + t.cond(e.X, sc) + " ∨ " + t.cond(e.Y, sc) + ")"
		case token.EQL, token.NEQ, token.LSS, token.LEQ, token.GTR, token.GEQ:
			op := map[token.Token]string{token.EQL: "=", token.NEQ: "≠", token.LSS: "<", token.LEQ: "≤", token.GTR: ">", token.GEQ: "≥"}[e.Op]
			eq := e.Op == token.EQL || e.Op == token.NEQ
			// *string compared with nil
			if eq {
				for _, xy := range [][2]ast.Expr{{e.X, e.Y}, {e.Y, e.X}} {
					if id, ok := xy[1].(*ast.Ident); ok && id.Name == "nil" {
						if _, shadow := sc.vars["nil"]; shadow {
							break
						}
						s, st := t.expr(xy[0], sc)
						if st != tOptStr {
							t.fail(e, "comparison with nil (only *string values)")
						}
						return "(" + s + " " + op + " none)"
					}
				}
			}
			a, at := t.expr(e.X, sc)
			b, bt := t.expr(e.Y, sc)
			switch {
			case at.numeric() && bt.numeric():
			case eq && at == bt && (at == tBool || at == tStr):
			default:
				t.fail(e, "operands of "+e.Op.String()+" (types)")
			}
			return "(" + a + " " + op + " " + b + ")"
		}
	case *ast.CallExpr:
		if sel, ok := e.Fun.(*ast.SelectorExpr); ok && len(e.Args) == 1 {
			if op, ok := map[string]string{"Equal": "=", "After": ">", "Before": "<"}[sel.Sel.Name]; ok {
				x, xt := t.expr(sel.X, sc)
				y, yt := t.expr(e.Args[0], sc)
				if xt != tTime || yt != tTime {
					t.fail(e, "method call "+exprString(e.Fun)+" (not on time.Time values)")
				}
				return "(" + x + " " + op + " " + y + ")"
			}
		}
	}
	// a Bool-valued term used as a condition
	s, st := t.expr(e, sc)
	if st != tBool {
		t.fail(e, "condition "+exprString(e)+" (not boolean)")
	}
	switch s {
	case "true":
		return "True"
	case "false":
		return "False"
	}
	return "(" + s + " = true)"
}

// ---------------------------------------------------------------------------------------------
// statements

func isPanic(s ast.Stmt) bool {
	es, ok := s.(*ast.ExprStmt)
	if !ok {
		return false
	}
	c, ok := es.X.(*ast.CallExpr)
	if !ok {
		return false
	}
	id, ok := c.Fun.(*ast.Ident)
	return ok && id.Name == "panic"
}

// hasExit: does the node contain a return or a panic
func hasExit(n ast.Node) bool {
	found := false
	if n == nil {
		return false
	}
	ast.Inspect(n, func(n ast.Node) bool {
		switch n := n.(type) {
		case *ast.ReturnStmt:
			found = true
		case *ast.ExprStmt:
			if isPanic(n) {
				found = true
			}
		case *ast.FuncLit:
			return false
		}
		return !found
	})
	return found
}

// terminates: every path through the statement list ends in return/panic
func terminates(list []ast.Stmt) bool {
	if len(list) == 0 {
		return false
	}
	switch s := list[len(list)-1].(type) {
	case *ast.ReturnStmt:
		return true
	case *ast.ExprStmt:
		return isPanic(s)
	case *ast.BlockStmt:
		return terminates(s.List)
	case *ast.IfStmt:
		if s.Else == nil || !terminates(s.Body.List) {
			return false
		}
		switch el := s.Else.(type) {
		case *ast.BlockStmt:
			return terminates(el.List)
		case *ast.IfStmt:
			return terminates([]ast.Stmt{el})
		}
	}
	return false
}

// assigned lists, in order of first assignment, the variables visible in sc that are assigned
// (=, op=, ++, --) inside n.
func assigned(n ast.Node, sc scope) []string {
	var out []string
	seen := map[string]bool{}
	add := func(e ast.Expr) {
		if id, ok := e.(*ast.Ident); ok {
			if _, vis := sc.vars[id.Name]; vis && !seen[id.Name] {
				seen[id.Name] = true
				out = append(out, id.Name)
			}
		}
	}
	ast.Inspect(n, func(n ast.Node) bool {
		switch n := n.(type) {
		case *ast.AssignStmt:
			if n.Tok != token.DEFINE {
				for _, l := range n.Lhs {
					add(l)
				}
			}
		case *ast.IncDecStmt:
			add(n.X)
		}
		return true
	})
	return out
}

func (t *tr) tuple(names []string, sc scope) (pat, typ string) {
	var tys, lns []string
	for _, n := range names {
		tys = append(tys, sc.vars[n].lean())
		lns = append(lns, ln(n))
	}
	if len(names) == 1 {
		return lns[0], tys[0]
	}
	return "(" + strings.Join(lns, ", ") + ")", strings.Join(tys, " × ")
}

func (t *tr) declare(n ast.Node, name string, sc scope) {
	t.checkName(n, name)
	if _, vis := sc.vars[name]; vis && sc.lvl[name] >= sc.level {
		t.fail(n, fmt.Sprintf("declaration of %s shadowing a visible variable", name))
	}
	// (a variable of an ENCLOSING block may be shadowed: the callers poison it for what follows the
	// nested block, translate_ext.go)
	if t.declared == nil {
		t.declared = map[string]bool{}
	}
	t.declared[name] = true
	if name == t.recv {
		t.fail(n, fmt.Sprintf("declaration of %s shadowing the receiver", name))
	}
	if _, isConst := t.local[name]; isConst {
		t.fail(n, fmt.Sprintf("declaration of %s shadowing a constant", name))
	}
	if _, isConst := t.p.consts[name]; isConst {
		t.fail(n, fmt.Sprintf("declaration of %s shadowing a constant", name))
	}
}

// assignable checks the type of a value against the declared type of a variable.
func assignable(vt, want ty) bool {
	// a constant of the package is typed Int here whatever its Go type (no type checker): a variable
	// initialised from one may later hold a Duration; both are Int on the Lean side
	return vt == want || vt.numeric() && want.numeric()
}

// block translates a statement list; k produces the code for what follows the block.
func (t *tr) block(list []ast.Stmt, sc scope, k func(scope) lx) lx {
	if len(list) == 0 {
		return k(sc)
	}
	s, rest := list[0], list[1:]
	next := func(sc scope) lx { return t.block(rest, sc, k) }
	switch s := s.(type) {
	case *ast.EmptyStmt:
		return next(sc)
	case *ast.ReturnStmt:
		return t.ret(s, sc)
	case *ast.ExprStmt:
		if isPanic(s) {
			return lAtom("none")
		}
		t.fail(s, "expression statement "+exprString(s.X))
	case *ast.BlockStmt:
		return t.block(s.List, sc.nested(), func(scope) lx { return next(sc.poison(shadowedBy(sc, s))) })
	case *ast.RangeStmt:
		return t.unrollRange(s, sc, next)
	case *ast.DeclStmt:
		gd := s.Decl.(*ast.GenDecl)
		switch gd.Tok {
		case token.CONST:
			return next(sc) // resolved through localConsts
		case token.VAR:
			return t.varSpecs(gd.Specs, sc, next)
		}
		t.fail(s, "declaration")
	case *ast.IncDecStmt:
		id, ok := s.X.(*ast.Ident)
		if !ok {
			t.fail(s, "increment of "+exprString(s.X))
		}
		vt, vis := sc.vars[id.Name]
		if !vis || !vt.numeric() {
			t.fail(s, "increment of "+id.Name)
		}
		op := map[token.Token]string{token.INC: "+", token.DEC: "-"}[s.Tok]
		return mkLet(ln(id.Name), vt.lean(), lAtom(ln(id.Name)+" "+op+" 1"), next(sc))
	case *ast.AssignStmt:
		return t.assign(s, rest, sc, k)
	case *ast.IfStmt:
		// if p == nil { …; return … }  (p *string): match p with | none => … | some p_val => rest
		if be, ok := s.Cond.(*ast.BinaryExpr); ok && be.Op == token.EQL && s.Init == nil && s.Else == nil && terminates(s.Body.List) {
			id, ok1 := be.X.(*ast.Ident)
			nl, ok2 := be.Y.(*ast.Ident)
			_, nilShadowed := sc.vars["nil"]
			if ok1 && ok2 && nl.Name == "nil" && !nilShadowed && sc.vars[id.Name] == tOptStr && !sc.deref[id.Name] {
				t.declare(id, id.Name+"_val", sc)
				onNone := t.block(s.Body.List, sc.nested(), func(scope) lx { t.fail(s, "fallthrough"); return nil })
				return lMatch{scrut: ln(id.Name), bind: ln(id.Name + "_val"), onNone: onNone, onSom: next(sc.withDeref(id.Name).with(id.Name+"_val", tStr))}
			}
		}
		return t.ifStmt(s, sc, next)
	case *ast.SwitchStmt:
		return t.ifStmt(t.desugarSwitch(s), sc, next)
	}
	t.fail(s, fmt.Sprintf("statement %T", s))
	return nil
}

func (t *tr) varSpecs(specs []ast.Spec, sc scope, next func(scope) lx) lx {
	if len(specs) == 0 {
		return next(sc)
	}
	vs := specs[0].(*ast.ValueSpec)
	if len(vs.Values) != 0 && len(vs.Values) != len(vs.Names) {
		t.fail(vs, "var declaration with a multi-valued initialiser")
	}
	type bind struct {
		name, val string
		ty        ty
	}
	var binds []bind
	for i, n := range vs.Names {
		t.declare(n, n.Name, sc)
		var dt ty
		if vs.Type != nil {
			dt = goType(vs.Type)
			if dt.zero() == "" {
				t.fail(vs, "variable type "+exprString(vs.Type))
			}
		}
		val := dt.zero()
		if len(vs.Values) != 0 {
			v, vt := t.expr(vs.Values[i], sc)
			if vs.Type == nil {
				dt = vt
			} else if !assignable(vt, dt) {
				t.fail(vs, "initialiser type of "+n.Name)
			}
			val = strip(v)
		}
		binds = append(binds, bind{n.Name, val, dt})
	}
	for _, b := range binds {
		sc = sc.with(b.name, b.ty)
	}
	body := t.varSpecs(specs[1:], sc, next)
	for i := len(binds) - 1; i >= 0; i-- {
		body = mkLet(ln(binds[i].name), binds[i].ty.lean(), lAtom(binds[i].val), body)
	}
	return body
}

func (t *tr) assign(s *ast.AssignStmt, rest []ast.Stmt, sc scope, k func(scope) lx) lx {
	next := func(sc scope) lx { return t.block(rest, sc, k) }
	// v, err := F(args); if err != nil { … }
	if len(s.Lhs) == 2 && len(s.Rhs) == 1 {
		c, isCall := s.Rhs[0].(*ast.CallExpr)
		v, ok1 := s.Lhs[0].(*ast.Ident)
		ev, ok2 := s.Lhs[1].(*ast.Ident)
		if isCall && ok1 && ok2 && s.Tok == token.DEFINE {
			if call, ok := t.pureCall(c, sc); ok {
				t.declare(v, v.Name, sc)
				t.declare(ev, ev.Name, sc)
				if len(rest) == 0 {
					t.fail(s, "result of "+exprString(c.Fun)+" not followed by `if "+ev.Name+" != nil {…}`")
				}
				is, ok := rest[0].(*ast.IfStmt)
				if !ok || is.Init != nil || is.Else != nil || exprString(is.Cond) != ev.Name+" != nil" || !terminates(is.Body.List) {
					t.fail(rest[0], "statement after `"+v.Name+", "+ev.Name+" := "+exprString(c.Fun)+"(…)` (want `if "+ev.Name+" != nil { …; return … }`)")
				}
				onNone := t.block(is.Body.List, sc.withErr(ev.Name).nested(), func(scope) lx { t.fail(is, "fallthrough"); return nil })
				onSome := t.block(rest[1:], sc.with(v.Name, tDur), k)
				return lMatch{scrut: strip(call), bind: ln(v.Name), onNone: onNone, onSom: onSome}
			}
		}
	}
	if len(s.Lhs) == len(s.Rhs) && len(s.Lhs) >= 2 && (s.Tok == token.ASSIGN || s.Tok == token.DEFINE) {
		return t.parallel(s, sc, next)
	}
	if len(s.Lhs) != 1 || len(s.Rhs) != 1 {
		t.fail(s, "multiple assignment")
	}
	id, ok := s.Lhs[0].(*ast.Ident)
	if !ok {
		t.fail(s, "assignment to "+exprString(s.Lhs[0]))
	}
	v, vt := t.expr(s.Rhs[0], sc)
	switch s.Tok {
	case token.DEFINE:
		t.declare(id, id.Name, sc)
		if !vt.value() {
			t.fail(s, "declaration of "+id.Name+" (type)")
		}
		return mkLet(ln(id.Name), vt.lean(), lAtom(strip(v)), next(sc.with(id.Name, vt)))
	case token.ASSIGN, token.ADD_ASSIGN, token.SUB_ASSIGN, token.MUL_ASSIGN:
		dt, vis := sc.vars[id.Name]
		if !vis || !dt.value() {
			t.fail(s, "assignment to "+id.Name+" (not a local variable or parameter)")
		}
		if !assignable(vt, dt) {
			t.fail(s, "assignment to "+id.Name+" (type)")
		}
		val := strip(v)
		if s.Tok != token.ASSIGN {
			if !dt.numeric() {
				t.fail(s, "compound assignment to "+id.Name)
			}
			op := map[token.Token]string{token.ADD_ASSIGN: "+", token.SUB_ASSIGN: "-", token.MUL_ASSIGN: "*"}[s.Tok]
			val = ln(id.Name) + " " + op + " " + v
		}
		return mkLet(ln(id.Name), dt.lean(), lAtom(val), next(sc))
	}
	t.fail(s, "assignment operator "+s.Tok.String())
	return nil
}

func (t *tr) ifStmt(s *ast.IfStmt, sc scope, next func(scope) lx) lx {
	if s.Init != nil {
		// `if init; c { A } else { B }` is `{ init; if c { A } else { B } }` (Go spec: the init
		// statement's scope is the if statement, else branches included)
		if _, ok := s.Init.(*ast.AssignStmt); !ok {
			t.fail(s, "if statement with an init clause that is not an assignment / short declaration")
		}
		plain := *s
		plain.Init = nil
		return t.block([]ast.Stmt{&ast.BlockStmt{Lbrace: s.Pos(), List: []ast.Stmt{s.Init, &plain}, Rbrace: s.End()}}, sc, next)
	}
	cond := strip(t.cond(s.Cond, sc))
	var els []ast.Stmt
	switch e := s.Else.(type) {
	case nil:
	case *ast.BlockStmt:
		els = e.List
	default:
		els = []ast.Stmt{e}
	}
	in := sc.nested()
	hidden := shadowedBy(sc, s.Body, s.Else)
	if !hasExit(s.Body) && (s.Else == nil || !hasExit(s.Else)) {
		// join form
		if len(hidden) > 0 {
			t.fail(s, "declaration of "+hidden[0]+" shadowing a visible variable in a branch without return")
		}
		vars := assigned(s.Body, sc)
		if s.Else != nil {
			for _, v := range assigned(s.Else, sc) {
				if indexOf(vars, v) < 0 {
					vars = append(vars, v)
				}
			}
		}
		if len(vars) == 0 {
			// the statement has no effect; still translate it so that unsupported constructs
			// inside are reported
			t.block(s.Body.List, in, func(scope) lx { return lAtom("()") })
			t.block(els, in, func(scope) lx { return lAtom("()") })
			return next(sc)
		}
		pat, typ := t.tuple(vars, sc)
		out := func(scope) lx { return lAtom(pat) }
		val := lIf{cond, t.block(s.Body.List, in, out), t.block(els, in, out)}
		return mkLet(pat, typ, val, next(sc))
	}
	after := func(scope) lx { return next(sc.poison(hidden)) }
	return lIf{cond, t.block(s.Body.List, in, after), t.block(els, in, after)}
}

// desugarSwitch rewrites a switch without init/fallthrough/break into an if/else chain.
func (t *tr) desugarSwitch(s *ast.SwitchStmt) *ast.IfStmt {
	if s.Init != nil {
		t.fail(s, "switch with an init clause")
	}
	if s.Tag != nil {
		switch tag := s.Tag.(type) {
		case *ast.Ident, *ast.SelectorExpr:
		case *ast.StarExpr:
			if _, ok := tag.X.(*ast.Ident); !ok {
				t.fail(s, "switch tag "+exprString(s.Tag))
			}
		default:
			t.fail(s, "switch tag "+exprString(s.Tag)+" (only a variable, field or *variable)")
		}
	}
	ast.Inspect(s.Body, func(n ast.Node) bool {
		if b, ok := n.(*ast.BranchStmt); ok {
			t.fail(b, b.Tok.String()+" inside switch")
		}
		return true
	})
	var root, last *ast.IfStmt
	clauses := s.Body.List
	if len(clauses) == 0 {
		t.fail(s, "empty switch")
	}
	for i, c := range clauses {
		cc := c.(*ast.CaseClause)
		if cc.List == nil {
			if i != len(clauses)-1 || last == nil {
				t.fail(cc, "default clause that is not the last of several clauses")
			}
			last.Else = &ast.BlockStmt{Lbrace: cc.Pos(), List: cc.Body}
			break
		}
		var cond ast.Expr
		for _, v := range cc.List {
			var one ast.Expr = v
			if s.Tag != nil {
				one = &ast.BinaryExpr{X: s.Tag, OpPos: v.Pos(), Op: token.EQL, Y: v}
			}
			if cond == nil {
				cond = one
			} else {
				cond = &ast.BinaryExpr{X: cond, OpPos: v.Pos(), Op: token.LOR, Y: one}
			}
		}
		is := &ast.IfStmt{If: cc.Pos(), Cond: cond, Body: &ast.BlockStmt{Lbrace: cc.Pos(), List: cc.Body}}
		if last == nil {
			root = is
		} else {
			last.Else = is
		}
		last = is
	}
	return root
}

func (t *tr) ret(s *ast.ReturnStmt, sc scope) lx {
	nres := len(t.resTys)
	hasErr := nres > 0 && t.resTys[nres-1] == tErr
	nval := nres
	if hasErr {
		nval--
	}
	wrap := func(vals []string) lx {
		v := "()"
		switch len(vals) {
		case 0:
		case 1:
			v = vals[0]
		default:
			for i := range vals {
				vals[i] = strip(vals[i])
			}
			v = "(" + strings.Join(vals, ", ") + ")"
		}
		if t.optional {
			return lAtom("some " + v)
		}
		if len(vals) > 1 {
			return lAtom(v) // a tuple keeps its parentheses
		}
		return lAtom(strip(v))
	}
	if len(s.Results) == 0 {
		if t.resNames == nil || hasErr {
			t.fail(s, "bare return")
		}
		var cur []string
		for _, n := range t.resNames {
			cur = append(cur, ln(n))
		}
		return wrap(cur)
	}
	// return F(args)
	if len(s.Results) == 1 && nres == 2 && hasErr && t.resTys[0] == tDur {
		if c, ok := s.Results[0].(*ast.CallExpr); ok {
			if call, ok := t.pureCall(c, sc); ok {
				return lAtom(strip(call))
			}
		}
	}
	if len(s.Results) != nres {
		t.fail(s, "return with a multi-valued call")
	}
	if hasErr {
		switch e := s.Results[nres-1].(type) {
		case *ast.Ident:
			if e.Name == "nil" {
				if _, shadow := sc.vars["nil"]; shadow {
					t.fail(e, "error result nil (shadowed)")
				}
				break
			}
			if sc.errVars[e.Name] {
				return lAtom("none")
			}
			t.fail(e, "error result "+e.Name+" (not known to be nil or non-nil)")
		case *ast.CallExpr:
			if f := exprString(e.Fun); f == "fmt.Errorf" || f == "errors.New" {
				return lAtom("none")
			}
			t.fail(e, "error result "+exprString(e))
		default:
			t.fail(s.Results[nres-1], "error result "+exprString(s.Results[nres-1]))
		}
	}
	var vals []string
	for i := 0; i < nval; i++ {
		v, vt := t.expr(s.Results[i], sc)
		if !assignable(vt, t.resTys[i]) {
			t.fail(s.Results[i], fmt.Sprintf("result %d (type)", i+1))
		}
		vals = append(vals, v)
	}
	return wrap(vals)
}

// ---------------------------------------------------------------------------------------------
// one function

type leanDef struct {
	name string
	text string // complete `/-- … -/ def …` text
}

// setup resolves the function, its receiver, results and external call sites.
func newTr(p *pkg, spec transSpec) *tr {
	t := &tr{p: p, spec: spec, fieldsUsed: map[string]ty{}, sites: map[*ast.CallExpr]callSite{}, constsUsed: map[string]int64{}}
	t.fd = p.funcs[spec.fn]
	if t.fd == nil || t.fd.Body == nil {
		panic(trErr{fmt.Sprintf("translate: %s: function not found in %s", spec.fn, p.dir)})
	}
	t.local = localConsts(t.fd)
	if t.fd.Type.TypeParams != nil {
		t.fail(t.fd, "type parameters")
	}
	if t.fd.Recv != nil {
		r := t.fd.Recv.List[0]
		if len(r.Names) == 1 {
			t.recv = r.Names[0].Name
		}
		rt := r.Type
		if st, ok := rt.(*ast.StarExpr); ok {
			rt = st.X
		}
		if id, ok := rt.(*ast.Ident); ok {
			t.recvSt = p.structs[id.Name]
		}
		if t.recvSt == nil {
			t.fail(t.fd, "receiver type "+exprString(r.Type)+" (struct declaration not found)")
		}
	}
	return t
}

// paramScope: Go parameters as variables.
func (t *tr) paramScope(strict bool) (scope, []param) {
	sc := scope{vars: map[string]ty{}, errVars: map[string]bool{}}
	var ps []param
	for _, f := range t.fd.Type.Params.List {
		pt := goType(f.Type)
		if len(f.Names) == 0 {
			t.fail(f, "unnamed parameter")
		}
		for _, n := range f.Names {
			if n.Name == "_" {
				continue
			}
			if pt == tUnknown || pt == tErr || pt == tClock {
				if strict {
					t.fail(f, "parameter type "+exprString(f.Type))
				}
				sc.vars[n.Name] = tUnknown
				continue
			}
			t.checkName(n, n.Name)
			if n.Name == t.recv {
				t.fail(n, "parameter named like the receiver")
			}
			sc.vars[n.Name] = pt
			if pt != tRand {
				ps = append(ps, param{n.Name, pt.lean(), ""})
			}
		}
	}
	return sc, ps
}

// findSites numbers the clock and PRNG call sites of the body in source order.
func (t *tr) findSites(sc scope) {
	counts := map[string]int{}
	ast.Inspect(t.fd.Body, func(n ast.Node) bool {
		c, ok := n.(*ast.CallExpr)
		if !ok {
			return true
		}
		sel, ok := c.Fun.(*ast.SelectorExpr)
		if !ok {
			return true
		}
		x, ok := sel.X.(*ast.Ident)
		if !ok {
			return true
		}
		kind := ""
		if t.recv != "" && x.Name == t.recv && len(c.Args) == 0 {
			for _, f := range t.recvSt.Fields.List {
				for _, fn := range f.Names {
					if fn.Name == sel.Sel.Name && goType(f.Type) == tClock {
						kind = "now"
					}
				}
			}
		}
		if sc.vars[x.Name] == tRand {
			if sel.Sel.Name != "Int63n" || len(c.Args) != 1 {
				t.fail(c, "method "+sel.Sel.Name+" of *rand.Rand (only Int63n)")
			}
			kind = "draw"
		}
		if kind != "" {
			t.sites[c] = callSite{kind, counts[kind]}
			doc := exprString(c)
			t.siteParams = append(t.siteParams, param{fmt.Sprintf("%s%d", kind, counts[kind]), map[string]string{"now": "Time", "draw": "Int"}[kind], doc})
			counts[kind]++
		}
		return true
	})
}

func binders(ps []param) string {
	// group consecutive parameters of the same type: (min max : Dur)
	var sb strings.Builder
	for i := 0; i < len(ps); {
		j := i
		names := []string{}
		for j < len(ps) && ps[j].typ == ps[i].typ {
			names = append(names, ln(ps[j].name))
			j++
		}
		sb.WriteString(" (" + strings.Join(names, " ") + " : " + ps[i].typ + ")")
		i = j
	}
	return sb.String()
}

func (t *tr) fieldParams() []param {
	var ps []param
	if t.recvSt == nil {
		return ps
	}
	for _, f := range t.recvSt.Fields.List {
		for _, n := range f.Names {
			if ft, ok := t.fieldsUsed[n.Name]; ok {
				ps = append(ps, param{n.Name, ft.lean(), t.recv + "." + n.Name})
			}
		}
	}
	return ps
}

func checkDistinct(t *tr, ps []param) {
	seen := map[string]bool{}
	for _, p := range ps {
		if seen[p.name] {
			t.fail(t.fd, "parameter name clash on "+p.name)
		}
		seen[p.name] = true
	}
}

func (t *tr) header(what string, ps []param) string {
	var sb strings.Builder
	sb.WriteString("/-- " + t.p.fileOf[t.fd] + ": " + what)
	for _, p := range ps {
		if p.doc != "" && p.doc != p.name {
			sb.WriteString("\n    " + p.name + " = " + p.doc)
		}
	}
	if len(t.constsUsed) > 0 {
		var ks []string
		for k := range t.constsUsed {
			ks = append(ks, k)
		}
		sort.Strings(ks)
		sb.WriteString("\n    constants:")
		for _, k := range ks {
			sb.WriteString(fmt.Sprintf(" %s = %d;", k, t.constsUsed[k]))
		}
	}
	sb.WriteString(" -/\n")
	return sb.String()
}

func docSafe(s string) string {
	return strings.ReplaceAll(strings.ReplaceAll(s, "-/", "- /"), "/-", "/ -")
}

// translateFunc translates a whole function.
func translateFunc(p *pkg, spec transSpec) (defs []leanDef, err error) {
	defer func() {
		if r := recover(); r != nil {
			te, ok := r.(trErr)
			if !ok {
				panic(r)
			}
			defs, err = nil, fmt.Errorf("%s", te.msg)
		}
	}()
	t := newTr(p, spec)
	sc, goParams := t.paramScope(true)
	t.findSites(sc)

	// results
	if t.fd.Type.Results == nil {
		t.fail(t.fd, "function without results")
	}
	var inits []param
	for _, f := range t.fd.Type.Results.List {
		rt := goType(f.Type)
		if rt != tErr && rt.zero() == "" && !(len(f.Names) == 0 && (rt == tIP || rt == tAddr || rt == tTime)) {
			t.fail(f, "result type "+exprString(f.Type))
		}
		n := len(f.Names)
		if n == 0 {
			n = 1
		}
		for i := 0; i < n; i++ {
			t.resTys = append(t.resTys, rt)
			if len(f.Names) > 0 {
				if rt == tErr {
					t.fail(f, "named error result")
				}
				name := f.Names[i].Name
				t.declare(f.Names[i], name, sc)
				sc = sc.with(name, rt)
				t.resNames = append(t.resNames, name)
				inits = append(inits, param{name, rt.lean(), rt.zero()})
			}
		}
	}
	for i, rt := range t.resTys {
		if rt == tErr && i != len(t.resTys)-1 {
			t.fail(t.fd, "error result that is not the last result")
		}
	}
	hasErr := t.resTys[len(t.resTys)-1] == tErr
	t.optional = hasErr
	ast.Inspect(t.fd.Body, func(n ast.Node) bool {
		if s, ok := n.(ast.Stmt); ok && isPanic(s) {
			t.optional = true
		}
		return true
	})

	body := t.block(t.fd.Body.List, sc, func(scope) lx { t.fail(t.fd, "function body that can end without a return"); return nil })
	for i := len(inits) - 1; i >= 0; i-- {
		body = mkLet(ln(inits[i].name), inits[i].typ, lAtom(inits[i].doc), body)
	}

	// result type
	var vts []string
	for _, rt := range t.resTys {
		if rt != tErr {
			vts = append(vts, rt.lean())
		}
	}
	resT := "Unit"
	if len(vts) > 0 {
		resT = strings.Join(vts, " × ")
	}
	if t.optional {
		if len(vts) > 1 {
			resT = "(" + resT + ")"
		}
		resT = "Option " + resT
	}

	ps := append(append(append(append([]param{}, t.fieldParams()...), goParams...), t.obs...), t.pure...)
	ps = append(ps, t.siteParams...)
	checkDistinct(t, ps)
	for _, q := range t.pure {
		if t.declared[q.name] {
			t.fail(t.fd, "local variable named like the parameter "+q.name)
		}
	}
	tvs := typeVars(ps, resT)
	t.checkImports(t.usesSystem || strings.Contains(tvs, "IPRec"), t.usesNetip || strings.Contains(tvs, "Addr"))

	var sb strings.Builder
	sb.WriteString(t.header("func "+docSafe(funcSig(t.fd)), ps))
	sb.WriteString("def " + spec.lean + tvs + binders(ps) + " : " + resT + " :=\n")
	emit(&sb, body, "  ")
	defs = append(defs, leanDef{spec.lean, strings.TrimRight(sb.String(), "\n")})

	// PRNG bounds: the argument of each Int63n call as a function of the Go parameters
	var drawCalls []*ast.CallExpr
	for c, site := range t.sites {
		if site.kind == "draw" {
			drawCalls = append(drawCalls, c)
		}
	}
	sort.Slice(drawCalls, func(i, j int) bool { return t.sites[drawCalls[i]].index < t.sites[drawCalls[j]].index })
	for _, c := range drawCalls {
		site := t.sites[c]
		for _, id := range identsIn(c.Args[0]) {
			if _, vis := sc.vars[id.Name]; vis && !t.isParam(id.Name) {
				t.fail(c, "Int63n argument that mentions the local variable "+id.Name)
			}
		}
		v, vt := t.expr(c.Args[0], sc)
		if !vt.numeric() {
			t.fail(c, "Int63n argument (type)")
		}
		name := fmt.Sprintf("%s_drawBound%d", spec.lean, site.index)
		fps := append(append([]param{}, t.fieldParams()...), goParams...)
		text := fmt.Sprintf("/-- %s: the argument of the PRNG call draw%d = %s -/\ndef %s%s : Int :=\n  %s",
			t.p.fileOf[t.fd], site.index, docSafe(exprString(c)), name, binders(fps), strip(v))
		defs = append(defs, leanDef{name, text})
	}
	return defs, nil
}

func identsIn(n ast.Node) []*ast.Ident {
	var out []*ast.Ident
	ast.Inspect(n, func(n ast.Node) bool {
		switch n := n.(type) {
		case *ast.SelectorExpr:
			out = append(out, identsIn(n.X)...)
			return false
		case *ast.Ident:
			out = append(out, n)
		}
		return true
	})
	return out
}

func funcSig(fd *ast.FuncDecl) string {
	var sb strings.Builder
	if fd.Recv != nil && len(fd.Recv.List) == 1 {
		r := fd.Recv.List[0]
		sb.WriteString("(")
		if len(r.Names) == 1 {
			sb.WriteString(r.Names[0].Name + " ")
		}
		sb.WriteString(exprString(r.Type) + ") ")
	}
	sb.WriteString(fd.Name.Name)
	fields := func(fl *ast.FieldList) string {
		var out []string
		if fl != nil {
			for _, f := range fl.List {
				var ns []string
				for _, n := range f.Names {
					ns = append(ns, n.Name)
				}
				s := exprString(f.Type)
				if len(ns) > 0 {
					s = strings.Join(ns, ", ") + " " + s
				}
				out = append(out, s)
			}
		}
		return strings.Join(out, ", ")
	}
	sb.WriteString("(" + fields(fd.Type.Params) + ")")
	if fd.Type.Results != nil {
		if r := fd.Type.Results.List; len(r) == 1 && len(r[0].Names) == 0 {
			sb.WriteString(" " + fields(fd.Type.Results))
		} else {
			sb.WriteString(" (" + fields(fd.Type.Results) + ")")
		}
	}
	return sb.String()
}

// ---------------------------------------------------------------------------------------------
// retry-loop fragments

// localDecls collects the declared type and initialiser of the locals declared by top-level
// statements of the function body and by the for statement's init clause.
type localDecl struct {
	ty   ty
	init ast.Expr // nil = zero value
	node ast.Node
}

func translateFragments(p *pkg, spec transSpec) (defs []leanDef, err error) {
	defer func() {
		if r := recover(); r != nil {
			te, ok := r.(trErr)
			if !ok {
				panic(r)
			}
			defs, err = nil, fmt.Errorf("%s", te.msg)
		}
	}()
	t := newTr(p, spec)
	t.recv, t.recvSt = "", nil // receiver fields are not available to fragments
	psc, _ := t.paramScope(false)

	// the loop
	var loop *ast.ForStmt
	decls := map[string]localDecl{}
	for _, s := range t.fd.Body.List {
		switch s := s.(type) {
		case *ast.ForStmt:
			if loop != nil {
				t.fail(s, "second for loop (retry-loop fragments expect exactly one at the top level)")
			}
			loop = s
		case *ast.AssignStmt:
			if s.Tok == token.DEFINE && len(s.Lhs) == len(s.Rhs) && loop == nil {
				for i, l := range s.Lhs {
					if id, ok := l.(*ast.Ident); ok {
						decls[id.Name] = localDecl{init: s.Rhs[i], node: s}
					}
				}
			}
		case *ast.DeclStmt:
			if gd := s.Decl.(*ast.GenDecl); gd.Tok == token.VAR && loop == nil {
				for _, sp := range gd.Specs {
					vs := sp.(*ast.ValueSpec)
					for i, n := range vs.Names {
						d := localDecl{node: vs}
						if vs.Type != nil {
							d.ty = goType(vs.Type)
						}
						if len(vs.Values) == len(vs.Names) {
							d.init = vs.Values[i]
						}
						decls[n.Name] = d
					}
				}
			}
		}
	}
	if loop == nil {
		t.fail(t.fd, "function without a top-level for loop")
	}
	init, ok := loop.Init.(*ast.AssignStmt)
	if !ok || init.Tok != token.DEFINE || len(init.Lhs) != 1 || len(init.Rhs) != 1 || loop.Cond == nil {
		t.fail(loop, "loop header (want `for i := e; cond; [post]`)")
	}
	iv, ok := init.Lhs[0].(*ast.Ident)
	if !ok {
		t.fail(loop, "loop variable")
	}
	t.checkName(iv, iv.Name)
	base := scope{vars: map[string]ty{}, errVars: map[string]bool{}}
	initS, initT := t.expr(init.Rhs[0], base)
	if initT != tInt {
		t.fail(init, "loop variable initialiser (type)")
	}
	decls[iv.Name] = localDecl{ty: tInt, init: init.Rhs[0], node: init}

	// the time.After call
	var after *ast.CallExpr
	var afterBody []ast.Stmt
	ast.Inspect(loop.Body, func(n ast.Node) bool {
		switch n := n.(type) {
		case *ast.CallExpr:
			if exprString(n.Fun) == "time.After" && len(n.Args) == 1 {
				if after != nil {
					t.fail(n, "second time.After call in the loop")
				}
				after = n
			}
		case *ast.CommClause:
			if es, ok := n.Comm.(*ast.ExprStmt); ok {
				if ue, ok := es.X.(*ast.UnaryExpr); ok && ue.Op == token.ARROW {
					if c, ok := ue.X.(*ast.CallExpr); ok && exprString(c.Fun) == "time.After" {
						afterBody = n.Body
					}
				}
			}
		}
		return true
	})
	if after == nil {
		t.fail(loop, "loop without a time.After(…) call")
	}
	if _, shadow := psc.vars["time"]; shadow {
		t.fail(loop, "parameter named time")
	}

	// scope of a fragment: the locals it mentions, typed from their declarations
	fragScope := func(n ast.Node) (scope, []param) {
		sc := scope{vars: map[string]ty{}, errVars: map[string]bool{}}
		var ps []param
		for _, id := range identsIn(n) {
			d, isLocal := decls[id.Name]
			if !isLocal {
				if _, isParam := psc.vars[id.Name]; isParam {
					t.fail(id, "use of parameter "+id.Name+" in a retry-loop fragment")
				}
				continue
			}
			if _, seen := sc.vars[id.Name]; seen {
				continue
			}
			dt := d.ty
			if dt == tUnknown && d.init != nil {
				_, dt = t.expr(d.init, base)
			}
			if dt.zero() == "" {
				t.fail(d.node, "type of local "+id.Name)
			}
			t.checkName(id, id.Name)
			sc.vars[id.Name] = dt
			ps = append(ps, param{id.Name, dt.lean(), ""})
		}
		return sc, ps
	}
	file := t.p.fileOf[t.fd]
	add := func(name, doc, sig, body string) {
		hdr := "/-- " + file + ": " + spec.fn + ": " + docSafe(doc)
		if len(t.constsUsed) > 0 {
			var ks []string
			for k := range t.constsUsed {
				ks = append(ks, k)
			}
			sort.Strings(ks)
			hdr += "\n    constants:"
			for _, k := range ks {
				hdr += fmt.Sprintf(" %s = %d;", k, t.constsUsed[k])
			}
		}
		defs = append(defs, leanDef{spec.lean + "_" + name, hdr + " -/\ndef " + spec.lean + "_" + name + sig + " :=\n  " + body})
		t.constsUsed = map[string]int64{}
	}
	mentioned := map[string]bool{}
	note := func(ps []param) {
		for _, p := range ps {
			mentioned[p.name] = true
		}
	}

	add("loopInit", "for "+stmtString(init)+"; …", " : Int", strip(initS))
	{
		sc, ps := fragScope(loop.Cond)
		note(ps)
		add("loopCond", "for …; "+exprString(loop.Cond)+"; …", binders(ps)+" : Bool", "decide "+t.cond(loop.Cond, sc))
	}
	if loop.Post != nil {
		sc, ps := fragScope(loop.Post)
		note(ps)
		vars := assigned(loop.Post, sc)
		if len(vars) == 0 {
			t.fail(loop.Post, "loop post statement")
		}
		pat, typ := t.tuple(vars, sc)
		var sb strings.Builder
		emit(&sb, t.block([]ast.Stmt{loop.Post}, sc, func(scope) lx { return lAtom(pat) }), "  ")
		add("loopPost", "for …; …; "+stmtString(loop.Post), binders(ps)+" : "+typ, strings.TrimSpace(sb.String()))
	} else {
		// no post statement: the loop header leaves the loop variable unchanged
		add("loopPost", "for …; …; <no post statement>", binders([]param{{iv.Name, "Int", ""}})+" : Int", ln(iv.Name))
	}
	{
		sc, ps := fragScope(after.Args[0])
		note(ps)
		v, vt := t.expr(after.Args[0], sc)
		if !vt.numeric() {
			t.fail(after, "time.After argument (type)")
		}
		add("after", exprString(after), binders(ps)+" : Dur", strip(v))
	}
	if len(afterBody) > 0 {
		blk := &ast.BlockStmt{List: afterBody}
		sc, ps := fragScope(blk)
		note(ps)
		vars := assigned(blk, sc)
		if len(vars) == 0 || hasExit(blk) {
			t.fail(afterBody[0], "body of the time.After case (want assignments to locals, no return)")
		}
		pat, typ := t.tuple(vars, sc)
		var sb strings.Builder
		emit(&sb, t.block(afterBody, sc, func(scope) lx { return lAtom(pat) }), "  ")
		add("afterBody", "case <-"+exprString(after)+": the value of "+pat+" after the case body", binders(ps)+" : "+typ, strings.TrimSpace(sb.String()))
	}
	// a fragment local redeclared inside the loop body would make the fragment ambiguous
	ast.Inspect(loop.Body, func(n ast.Node) bool {
		if as, ok := n.(*ast.AssignStmt); ok && as.Tok == token.DEFINE {
			for _, l := range as.Lhs {
				if id, ok := l.(*ast.Ident); ok && mentioned[id.Name] {
					t.fail(as, "declaration of "+id.Name+" inside the loop shadowing a local used by the fragments")
				}
			}
		}
		return true
	})
	// declared initial values of the other locals the fragments mention
	var names []string
	for n := range mentioned {
		if n != iv.Name {
			names = append(names, n)
		}
	}
	sort.Strings(names)
	for _, n := range names {
		d := decls[n]
		dt := d.ty
		val := ""
		if d.init != nil {
			v, vt := t.expr(d.init, base)
			if dt == tUnknown {
				dt = vt
			}
			val = strip(v)
		} else {
			val = dt.zero()
		}
		if val == "" {
			t.fail(d.node, "initial value of "+n)
		}
		add(n+"Init", "var "+n+" (declared before the loop)", " : "+dt.lean(), val)
	}
	return defs, nil
}

func stmtString(s ast.Stmt) string {
	switch s := s.(type) {
	case *ast.IncDecStmt:
		return exprString(s.X) + s.Tok.String()
	case *ast.AssignStmt:
		var l, r []string
		for _, e := range s.Lhs {
			l = append(l, exprString(e))
		}
		for _, e := range s.Rhs {
			r = append(r, exprString(e))
		}
		return strings.Join(l, ", ") + " " + s.Tok.String() + " " + strings.Join(r, ", ")
	}
	return fmt.Sprintf("<%T>", s)
}

// ---------------------------------------------------------------------------------------------
// driver: Gen/Trans.lean

// genTrans translates every whitelisted function and writes Trans.lean.  It is written even
// when other parts of the extractor fail, and a function that cannot be translated is left out
// (with a comment) so that a stale definition never survives a source change.
func genTrans(repo, outDir string) error {
	var sb strings.Builder
	sb.WriteString("-- REGENERATED by /verif/tools/extract (translate.go) from /repo on every check run. Do not edit.\n")
	sb.WriteString("-- Go → Lean translation of the whitelisted functions; subset and semantics: tools/extract/translate.go.\n")
	sb.WriteString("import Corerad.Basic\nimport Corerad.Model.Config\nimport Corerad.Model.ListUtil\nimport Corerad.Model.RA\nimport Corerad.Model.Handle\nimport Corerad.Model.Monitor\nimport Corerad.Model.Verify\n\n")
	sb.WriteString("set_option linter.unusedVariables false\n\nnamespace Corerad.Gen.Trans\n\nopen Corerad\n\n")
	defer func() { curTag = "" }()
	for _, spec := range whitelist {
		curTag = "Trans" + spec.prop
		p, err := loadPkg(repo, spec.dir)
		var defs []leanDef
		if err == nil {
			if spec.frag {
				defs, err = translateFragments(p, spec)
			} else {
				defs, err = translateFunc(p, spec)
			}
		} else {
			err = fmt.Errorf("translate: %s: %v", spec.fn, err)
		}
		if err != nil {
			failf("%s", err)
			sb.WriteString("-- NOT TRANSLATED: " + docSafe(err.Error()) + "\n\n")
			facts["Trans"+spec.prop+"."+spec.lean] = "NOT TRANSLATED: " + err.Error()
			continue
		}
		var all []string
		for _, d := range defs {
			sb.WriteString(d.text + "\n\n")
			all = append(all, d.text)
		}
		facts["Trans"+spec.prop+"."+spec.lean] = strings.Join(all, "\n")
	}
	// list-processing functions (translate_loop.go)
	for _, spec := range loopWhitelist {
		curTag = "Trans" + spec.prop
		p, err := loadPkg(repo, spec.dir)
		var d leanDef
		if err == nil {
			d, err = translateLoopFunc(p, spec)
		} else {
			err = fmt.Errorf("translate: %s: %v", spec.fn, err)
		}
		if err != nil {
			failf("%s", err)
			sb.WriteString("-- NOT TRANSLATED: " + docSafe(err.Error()) + "\n\n")
			facts["Trans"+spec.prop+"."+spec.lean] = "NOT TRANSLATED: " + err.Error()
			continue
		}
		sb.WriteString(d.text + "\n\n")
		facts["Trans"+spec.prop+"."+spec.lean] = d.text
	}
	// config.Interface.RouterAdvertisement (translate_ra.go)
	curTag = "TransC04"
	if p, err := loadPkg(repo, "internal/config"); err != nil {
		failf("translate: Interface.RouterAdvertisement: %v", err)
	} else if d, err := translateRA(p); err != nil {
		failf("%s", err)
		sb.WriteString("-- NOT TRANSLATED: " + docSafe(err.Error()) + "\n\n")
		facts["TransC04.Interface_RouterAdvertisement"] = "NOT TRANSLATED: " + err.Error()
	} else {
		sb.WriteString(d.text + "\n\n")
		facts["TransC04.Interface_RouterAdvertisement"] = d.text
	}
	// config.parseInterface (translate_iface.go)
	curTag = "TransC02"
	if p, err := loadPkg(repo, "internal/config"); err != nil {
		failf("translate: parseInterface: %v", err)
	} else if d, err := translateParseInterface(p); err != nil {
		failf("%s", err)
		sb.WriteString("-- NOT TRANSLATED: " + docSafe(err.Error()) + "\n\n")
		facts["TransC02.parseInterface"] = "NOT TRANSLATED: " + err.Error()
	} else {
		sb.WriteString(d.text + "\n\n")
		facts["TransC02.parseInterface"] = d.text
	}
	// the error classification of (*Dialer).init (translate_switch.go)
	curTag = "TransC10"
	if p, err := loadPkg(repo, "internal/system"); err != nil {
		failf("translate: Dialer.init: %v", err)
	} else if d, err := translateInitSwitch(p); err != nil {
		failf("%s", err)
		sb.WriteString("-- NOT TRANSLATED: " + docSafe(err.Error()) + "\n\n")
		facts["TransC10.Dialer_init_switch"] = "NOT TRANSLATED: " + err.Error()
	} else {
		sb.WriteString(d.text + "\n\n")
		facts["TransC10.Dialer_init_switch"] = d.text
	}
	// the multicast rate limit of (*Advertiser).schedule (translate_synth.go)
	curTag = "TransC06"
	if p, err := loadPkg(repo, "internal/corerad"); err != nil {
		failf("translate: Advertiser.schedule: %v", err)
	} else if defs, src, err := translateScheduleMC(p); err != nil {
		failf("%s", err)
		sb.WriteString("-- NOT TRANSLATED: " + docSafe(err.Error()) + "\n\n")
		facts["TransC06.Advertiser_schedule_mc"] = "NOT TRANSLATED: " + err.Error()
	} else {
		var all []string
		for _, d := range defs {
			sb.WriteString(d.text + "\n\n")
			all = append(all, d.text)
		}
		facts["TransC06.Advertiser_schedule_mc"] = strings.Join(all, "\n")
		facts["TransC06.Advertiser_schedule_mc.go"] = src
	}
	// the decision of (*Advertiser).handle (translate_handle.go)
	curTag = "TransC07"
	if p, err := loadPkg(repo, "internal/corerad"); err != nil {
		failf("translate: Advertiser.handle: %v", err)
	} else if d, err := translateHandle(p); err != nil {
		failf("%s", err)
		sb.WriteString("-- NOT TRANSLATED: " + docSafe(err.Error()) + "\n\n")
		facts["TransC07.Advertiser_handle"] = "NOT TRANSLATED: " + err.Error()
	} else {
		sb.WriteString(d.text + "\n\n")
		facts["TransC07.Advertiser_handle"] = d.text
	}
	// the metric operations of (*Monitor).handle (translate_monitor.go)
	curTag = "TransC18"
	if p, err := loadPkg(repo, "internal/corerad"); err != nil {
		failf("translate: Monitor.handle: %v", err)
	} else if d, err := translateMonitorHandle(p); err != nil {
		failf("%s", err)
		sb.WriteString("-- NOT TRANSLATED: " + docSafe(err.Error()) + "\n\n")
		facts["TransC18.Monitor_handle"] = "NOT TRANSLATED: " + err.Error()
	} else {
		sb.WriteString(d.text + "\n\n")
		facts["TransC18.Monitor_handle"] = d.text
	}
	// the straight-line and nested-range checks of verify.go (translate_verify.go)
	curTag = "TransC12"
	if p, err := loadPkg(repo, "internal/corerad"); err != nil {
		failf("translate: verify.go: %v", err)
	} else {
		for _, name := range []string{"checkRAs", "checkMTUs", "checkCaptivePortal", "checkPrefixes", "checkRoutes", "checkRDNSS", "checkDNSSL"} {
			d, err := translateVerifyFunc(p, name)
			if err != nil {
				failf("%s", err)
				sb.WriteString("-- NOT TRANSLATED: " + docSafe(err.Error()) + "\n\n")
				facts["TransC12."+name] = "NOT TRANSLATED: " + err.Error()
				continue
			}
			sb.WriteString(d.text + "\n\n")
			facts["TransC12."+name] = d.text
		}
	}
	// the Apply / apply methods of the plugins with a wildcard form (translate_apply.go)
	curTag = "TransC01"
	if p, err := loadPkg(repo, "internal/plugin"); err != nil {
		failf("translate: plugin Apply: %v", err)
	} else {
		type job struct {
			name string
			run  func() (leanDef, error)
		}
		jobs := []job{
			{"Prefix_apply", func() (leanDef, error) { return translateApplyHelper(p, "Prefix", "Corerad.Prefix", "pair") }},
			{"Prefix_Apply", func() (leanDef, error) { return translateApplyMethod(p, "Prefix", "Corerad.Prefix", "Prefix", "Addrs") }},
			{"Route_apply", func() (leanDef, error) { return translateApplyHelper(p, "Route", "Corerad.Prefix", "one") }},
			{"Route_Apply", func() (leanDef, error) { return translateApplyMethod(p, "Route", "Corerad.Prefix", "Prefix", "Routes") }},
			{"RDNSS_apply", func() (leanDef, error) { return translateApplyHelper(p, "RDNSS", "Corerad.IP", "none") }},
			{"RDNSS_Apply", func() (leanDef, error) { return translateApplyMethod(p, "RDNSS", "Corerad.IP", "Servers", "Addrs") }},
		}
		for _, j := range jobs {
			d, err := j.run()
			if err != nil {
				failf("%s", err)
				sb.WriteString("-- NOT TRANSLATED: " + docSafe(err.Error()) + "\n\n")
				facts["TransC01."+j.name] = "NOT TRANSLATED: " + err.Error()
				continue
			}
			sb.WriteString(d.text + "\n\n")
			facts["TransC01."+j.name] = d.text
		}
	}
	// the lifetime computed by NewPREF64 (translate_synth.go)
	curTag = "TransC01"
	if p, err := loadPkg(repo, "internal/plugin"); err != nil {
		failf("translate: NewPREF64: %v", err)
	} else if defs, src, err := translatePREF64(p); err != nil {
		failf("%s", err)
		sb.WriteString("-- NOT TRANSLATED: " + docSafe(err.Error()) + "\n\n")
		facts["TransC01.NewPREF64_lifetime"] = "NOT TRANSLATED: " + err.Error()
	} else {
		var all []string
		for _, d := range defs {
			sb.WriteString(d.text + "\n\n")
			all = append(all, d.text)
		}
		facts["TransC01.NewPREF64_lifetime"] = strings.Join(all, "\n")
		facts["TransC01.NewPREF64_lifetime.go"] = src
	}
	sb.WriteString("end Corerad.Gen.Trans\n")
	p := filepath.Join(outDir, "Trans.lean")
	if old, err := os.ReadFile(p); err == nil && string(old) == sb.String() {
		return nil
	}
	tmp := p + ".tmp"
	if err := os.WriteFile(tmp, []byte(sb.String()), 0o644); err != nil {
		return err
	}
	return os.Rename(tmp, p)
}
