// translate_apply.go — Go→Lean translation of the Apply methods of the three plugins with a wildcard
// form — (*Prefix).Apply / apply, (*Route).Apply / apply, (*RDNSS).Apply / apply
// (internal/plugin/plugin.go) — the glue between a stanza, the wildcard expansion (`current`, already
// regenerated: translate_loop.go) and the options appended to the RA.  C01: "the RA built from an
// accepted stanza is exactly the one the stanza calls for", C13–C15: "the wildcard advertises exactly
// the expansion".
//
// Re-translated from the current source text on every extractor run into
// Corerad.Gen.Trans.{Prefix,Route,RDNSS}_{Apply,apply}; Props/TransC01.lean proves their composition
// equal to `Model.Plugin.apply` for a prepared plugin.
//
// # Subset (anything else is reported as unsupported)
//
// `func (x *T) apply(items []E, ra *ndp.RouterAdvertisement)`  — the options appended for a list of items:
//
//	var ( a, b = x.lifetimes() / lt = x.lifetime() ; opts = make([]ndp.Option, 0, len(items)) )
//	                                                    the lifetimes are the PARAMETER `lifetimes` / `lifetime`
//	                                                    (Prefix_lifetimes / Route_lifetime are translated separately)
//	for _, v := range items { L = append(L, &ndp.O{ field: value … }) }      L is `opts` or `ra.Options`
//	ra.Options = append(ra.Options, opts...)
//	ra.Options = append(ra.Options, &ndp.O{ … })        (RDNSS.apply: one option)
//
//	result: what was appended to ra.Options directly, followed by `opts` if (and only if) it is appended
//	at the end.  Option literals through the table `applyOpts` (every field must be present, with the
//	listed value: a receiver field, a lifetime variable, `uint8(v.Bits())`, `v.Addr()`, the items parameter).
//
// `func (x *T) Apply(ra *ndp.RouterAdvertisement) error`:
//
//	if <guard over x.Auto, x.Deprecated, x.Addrs == nil / x.Routes == nil, x.TimeNow == nil> { return errNotPrepared }
//	                                                    if guard then none    (`F == nil` is the Bool parameter F_nil)
//	if !x.Auto { x.apply(<items>, ra); return nil }     if ¬ Auto then some (apply <items>)
//	v, err := x.current(); if err != nil { return err } match current with | none => none | some v => …
//	x.apply(<items>, ra); return nil                    some (apply <items>)
//
//	<items>: []netip.Prefix{x.Prefix} = [Prefix];  x.Servers = Servers;  v;
//	         append([]netip.Addr{v}, x.Servers...) = v :: Servers
//	`current` is the parameter `current : Option _` (the result of the translated wildcard expansion),
//	`apply` the parameter `apply : List _ → List Opt`.
//
// Trusted: the table applyOpts (Go option type and fields → Model.Opt constructor); that apply/Apply touch
// the RA only by appending (checked: every statement is one of the forms above); go/parser's AST.
package main

import (
	"fmt"
	"go/ast"
	"go/token"
	"strings"
)

type applyOpt struct {
	ctor   string
	fields []string // in the order of the constructor's arguments
}

// Go option literal → Model.Opt constructor and the order of its arguments
var applyOpts = map[string]applyOpt{
	"ndp.PrefixInformation":  {".pi", []string{"Prefix", "PrefixLength", "OnLink", "AutonomousAddressConfiguration", "ValidLifetime", "PreferredLifetime"}},
	"ndp.RouteInformation":   {".ri", []string{"Prefix", "PrefixLength", "Preference", "RouteLifetime"}},
	"ndp.RecursiveDNSServer": {".rdnss", []string{"Lifetime", "Servers"}},
}

type aTr struct {
	p     *pkg
	fd    *ast.FuncDecl
	fn    string
	recv  string
	items string            // the items parameter of apply
	loopV string            // the loop variable
	life  map[string]string // lifetime variables → Lean term
	used  map[string]bool   // receiver fields used (become parameters)
	order []string
}

func (t *aTr) fail(n ast.Node, what string) {
	at := ""
	if n != nil && n.Pos().IsValid() {
		at = fmt.Sprintf(" at %s:%d", t.p.fileOf[t.fd], fset.Position(n.Pos()).Line)
	}
	panic(trErr{"translate: " + t.fn + ": unsupported " + what + at})
}

func (t *aTr) field(name string) string {
	if !t.used[name] {
		t.used[name] = true
		t.order = append(t.order, name)
	}
	return name
}

// value of an option field
func (t *aTr) optValue(e ast.Expr) string {
	s := exprString(e)
	switch {
	case t.loopV != "" && s == "uint8("+t.loopV+".Bits())":
		return t.loopV + ".bits"
	case t.loopV != "" && s == t.loopV+".Addr()":
		return t.loopV + ".addr"
	case s == t.items && t.loopV == "":
		return t.items
	}
	if v, ok := t.life[s]; ok {
		return v
	}
	if sel, ok := e.(*ast.SelectorExpr); ok && exprString(sel.X) == t.recv {
		return t.field(sel.Sel.Name)
	}
	t.fail(e, "option field value "+s)
	return ""
}

func (t *aTr) optLit(e ast.Expr) string {
	u, ok := e.(*ast.UnaryExpr)
	if !ok || u.Op != token.AND {
		t.fail(e, "appended value (expected &ndp.<Option>{…})")
	}
	cl, ok := u.X.(*ast.CompositeLit)
	if !ok {
		t.fail(e, "appended value (expected &ndp.<Option>{…})")
	}
	ao, ok := applyOpts[exprString(cl.Type)]
	if !ok {
		t.fail(cl, "option type "+exprString(cl.Type))
	}
	vals := map[string]string{}
	for _, el := range cl.Elts {
		kv, ok := el.(*ast.KeyValueExpr)
		if !ok {
			t.fail(el, "positional field")
		}
		vals[exprString(kv.Key)] = t.optValue(kv.Value)
	}
	if len(vals) != len(ao.fields) {
		t.fail(cl, fmt.Sprintf("fields of %s (expected exactly %s)", exprString(cl.Type), strings.Join(ao.fields, ", ")))
	}
	var args []string
	for _, f := range ao.fields {
		v, ok := vals[f]
		if !ok {
			t.fail(cl, "missing field "+f)
		}
		args = append(args, v)
	}
	return "(" + ao.ctor + " " + strings.Join(args, " ") + ")"
}

// appendTo: L = append(L, x) → (L, x, spread)
func appendCall(s ast.Stmt) (lhs string, arg ast.Expr, spread bool, ok bool) {
	as, isAs := s.(*ast.AssignStmt)
	if !isAs || as.Tok != token.ASSIGN || len(as.Lhs) != 1 || len(as.Rhs) != 1 {
		return
	}
	c, isCall := as.Rhs[0].(*ast.CallExpr)
	if !isCall || exprString(c.Fun) != "append" || len(c.Args) != 2 || exprString(c.Args[0]) != exprString(as.Lhs[0]) {
		return
	}
	return exprString(as.Lhs[0]), c.Args[1], c.Ellipsis.IsValid(), true
}

func translateApplyHelper(p *pkg, typ, itemT, lifeKind string) (def leanDef, err error) {
	defer func() {
		if r := recover(); r != nil {
			if te, ok := r.(trErr); ok {
				err = fmt.Errorf("%s", te.msg)
				return
			}
			panic(r)
		}
	}()
	t := &aTr{p: p, fn: typ + ".apply", life: map[string]string{}, used: map[string]bool{}}
	fd, ok := p.funcs[t.fn]
	if !ok {
		return def, fmt.Errorf("translate: %s: function not found in %s", t.fn, p.dir)
	}
	t.fd = fd
	t.recv = fd.Recv.List[0].Names[0].Name
	var names, types []string
	for _, f := range fd.Type.Params.List {
		for _, n := range f.Names {
			names = append(names, n.Name)
			types = append(types, exprString(f.Type))
		}
	}
	if len(names) != 2 || types[1] != "*ndp.RouterAdvertisement" || names[1] != "ra" || fd.Type.Results != nil {
		t.fail(fd, "signature")
	}
	t.items = names[0]
	var direct, opts []string // Lean list terms
	optsAppended := false
	for _, s := range fd.Body.List {
		switch x := s.(type) {
		case *ast.DeclStmt:
			gd := x.Decl.(*ast.GenDecl)
			if gd.Tok != token.VAR {
				t.fail(x, "declaration")
			}
			for _, sp := range gd.Specs {
				vs := sp.(*ast.ValueSpec)
				if len(vs.Values) != 1 {
					t.fail(vs, "variable declaration")
				}
				call := exprString(vs.Values[0])
				switch {
				case call == t.recv+".lifetimes()" && len(vs.Names) == 2 && lifeKind == "pair":
					t.life[vs.Names[0].Name] = "lifetimes.1"
					t.life[vs.Names[1].Name] = "lifetimes.2"
				case call == t.recv+".lifetime()" && len(vs.Names) == 1 && lifeKind == "one":
					t.life[vs.Names[0].Name] = "lifetime"
				case len(vs.Names) == 1 && vs.Names[0].Name == "opts" && strings.HasPrefix(call, "make([]ndp.Option, 0"):
				default:
					t.fail(vs, "variable declaration "+vs.Names[0].Name)
				}
			}
		case *ast.RangeStmt:
			if exprString(x.X) != t.items || x.Tok != token.DEFINE || exprString(x.Key) != "_" || x.Value == nil || len(x.Body.List) != 1 {
				t.fail(x, "range statement")
			}
			t.loopV = exprString(x.Value)
			lhs, arg, spread, ok := appendCall(x.Body.List[0])
			if !ok || spread {
				t.fail(x.Body.List[0], "loop body (expected L = append(L, &ndp.<Option>{…}))")
			}
			term := "(" + t.items + ".map fun " + t.loopV + " => " + t.optLit(arg) + ")"
			t.loopV = ""
			switch lhs {
			case "opts":
				opts = append(opts, term)
			case "ra.Options":
				direct = append(direct, term)
			default:
				t.fail(x, "append target "+lhs)
			}
		default:
			lhs, arg, spread, ok := appendCall(s)
			if !ok || lhs != "ra.Options" {
				t.fail(s, "statement "+stmtString(s))
			}
			if spread {
				if exprString(arg) != "opts" || optsAppended {
					t.fail(s, "statement "+stmtString(s))
				}
				optsAppended = true
				direct = append(direct, "__OPTS__")
			} else {
				direct = append(direct, "["+t.optLit(arg)+"]")
			}
		}
	}
	optsTerm := "[]"
	if len(opts) > 0 {
		optsTerm = strings.Join(opts, " ++ ")
	}
	var parts []string
	for _, d := range direct {
		if d == "__OPTS__" {
			parts = append(parts, "("+optsTerm+")")
		} else {
			parts = append(parts, d)
		}
	}
	body := "[]"
	if len(parts) > 0 {
		body = strings.Join(parts, " ++ ")
	}
	var hdr strings.Builder
	hdr.WriteString("/-- " + p.fileOf[fd] + ": the options appended by func " + docSafe(funcSig(fd)) + " -/\n")
	hdr.WriteString("def " + typ + "_apply")
	for _, f := range t.order {
		ft := map[string]string{"OnLink": "Bool", "Autonomous": "Bool", "Preference": "Nat", "Lifetime": "Dur"}[f]
		if ft == "" {
			t.fail(fd, "receiver field "+f+" in an option")
		}
		hdr.WriteString(" (" + f + " : " + ft + ")")
	}
	switch lifeKind {
	case "pair":
		hdr.WriteString(" (lifetimes : Dur × Dur)")
	case "one":
		hdr.WriteString(" (lifetime : Dur)")
	}
	hdr.WriteString(" (" + t.items + " : List " + itemT + ") : List Corerad.Model.Opt :=\n  " + body)
	return leanDef{typ + "_apply", hdr.String()}, nil
}

func translateApplyMethod(p *pkg, typ, itemT, staticItems, srcField string) (def leanDef, err error) {
	defer func() {
		if r := recover(); r != nil {
			if te, ok := r.(trErr); ok {
				err = fmt.Errorf("%s", te.msg)
				return
			}
			panic(r)
		}
	}()
	t := &aTr{p: p, fn: typ + ".Apply", used: map[string]bool{}}
	fd, ok := p.funcs[t.fn]
	if !ok {
		return def, fmt.Errorf("translate: %s: function not found in %s", t.fn, p.dir)
	}
	t.fd = fd
	t.recv = fd.Recv.List[0].Names[0].Name
	// conditions over receiver fields
	var cond func(e ast.Expr) string
	cond = func(e ast.Expr) string {
		switch x := e.(type) {
		case *ast.ParenExpr:
			return "(" + cond(x.X) + ")"
		case *ast.UnaryExpr:
			if x.Op == token.NOT {
				return "!" + cond(x.X)
			}
		case *ast.BinaryExpr:
			switch x.Op {
			case token.LAND:
				return "(" + cond(x.X) + " && " + cond(x.Y) + ")"
			case token.LOR:
				return "(" + cond(x.X) + " || " + cond(x.Y) + ")"
			case token.EQL:
				if sel, ok := x.X.(*ast.SelectorExpr); ok && exprString(sel.X) == t.recv && exprString(x.Y) == "nil" {
					return t.field(sel.Sel.Name + "_nil")
				}
			}
		case *ast.SelectorExpr:
			if exprString(x.X) == t.recv && (x.Sel.Name == "Auto" || x.Sel.Name == "Deprecated") {
				return t.field(x.Sel.Name)
			}
		}
		t.fail(e, "condition "+exprString(e))
		return ""
	}
	// one-element slice literal []T{x}
	single := func(e ast.Expr, elemT string) (ast.Expr, bool) {
		cl, ok := e.(*ast.CompositeLit)
		if !ok || len(cl.Elts) != 1 {
			return nil, false
		}
		at, ok := cl.Type.(*ast.ArrayType)
		if !ok || at.Len != nil || exprString(at.Elt) != elemT {
			return nil, false
		}
		return cl.Elts[0], true
	}
	items := func(e ast.Expr, cur string) string {
		s := exprString(e)
		switch {
		case cur == "" && staticItems == "Servers" && s == t.recv+".Servers":
			return t.field("Servers")
		case cur != "" && s == cur:
			return cur
		}
		if cur == "" && staticItems == "Prefix" {
			if el, ok := single(e, "netip.Prefix"); ok && exprString(el) == t.recv+".Prefix" {
				return "[" + t.field("Prefix") + "]"
			}
		}
		if c, ok := e.(*ast.CallExpr); ok && cur != "" && exprString(c.Fun) == "append" && len(c.Args) == 2 && c.Ellipsis.IsValid() {
			if el, ok := single(c.Args[0], "netip.Addr"); ok && exprString(el) == cur && exprString(c.Args[1]) == t.recv+".Servers" {
				return "(" + cur + " :: " + t.field("Servers") + ")"
			}
		}
		t.fail(e, "argument of apply "+s)
		return ""
	}
	// apply call followed by return nil
	applyRet := func(list []ast.Stmt, cur string) string {
		if len(list) != 2 {
			t.fail(fd, "apply / return sequence")
		}
		es, ok := list[0].(*ast.ExprStmt)
		if !ok {
			t.fail(list[0], "statement "+stmtString(list[0]))
		}
		c, ok := es.X.(*ast.CallExpr)
		if !ok || exprString(c.Fun) != t.recv+".apply" || len(c.Args) != 2 || exprString(c.Args[1]) != "ra" || !isReturnNil(list[1]) {
			t.fail(list[0], "statement "+stmtString(list[0]))
		}
		return "some (apply " + items(c.Args[0], cur) + ")"
	}
	var walk func(list []ast.Stmt, ind string) string
	walk = func(list []ast.Stmt, ind string) string {
		if len(list) == 0 {
			t.fail(fd, "body that ends without a return")
		}
		switch x := list[0].(type) {
		case *ast.IfStmt:
			if x.Init != nil || x.Else != nil {
				t.fail(x, "if with init / else")
			}
			// if !x.Auto { x.apply(…); return nil }
			if u, ok := x.Cond.(*ast.UnaryExpr); ok && u.Op == token.NOT && exprString(u.X) == t.recv+".Auto" {
				return ind + "if !" + t.field("Auto") + " then " + applyRet(x.Body.List, "") + "\n" + ind + "else\n" + walk(list[1:], ind+"  ")
			}
			// guard: return errNotPrepared
			if len(x.Body.List) == 1 {
				if r, ok := x.Body.List[0].(*ast.ReturnStmt); ok && len(r.Results) == 1 && exprString(r.Results[0]) == "errNotPrepared" {
					return ind + "if " + cond(x.Cond) + " then none\n" + ind + "else\n" + walk(list[1:], ind+"  ")
				}
			}
			t.fail(x, "if statement")
		case *ast.AssignStmt:
			// v, err := x.current(); if err != nil { return err }
			if x.Tok == token.DEFINE && len(x.Lhs) == 2 && len(x.Rhs) == 1 && exprString(x.Rhs[0]) == t.recv+".current()" && exprString(x.Lhs[1]) == "err" && len(list) >= 2 {
				is, ok := list[1].(*ast.IfStmt)
				if ok && is.Init == nil && is.Else == nil && exprString(is.Cond) == "err != nil" && len(is.Body.List) == 1 {
					if r, ok := is.Body.List[0].(*ast.ReturnStmt); ok && len(r.Results) == 1 && exprString(r.Results[0]) == "err" {
						v := exprString(x.Lhs[0])
						return ind + "match current with\n" + ind + "| none => none\n" + ind + "| some " + v + " => " + applyRet(list[2:], v)
					}
				}
			}
			t.fail(x, "assignment "+stmtString(x))
		}
		t.fail(list[0], fmt.Sprintf("statement %T", list[0]))
		return ""
	}
	body := walk(fd.Body.List, "  ")
	_ = srcField
	var hdr strings.Builder
	hdr.WriteString("/-- " + p.fileOf[fd] + ": func " + docSafe(funcSig(fd)) + " — the options appended, or none for an error\n")
	hdr.WriteString("    F_nil : the receiver's function field F is nil;  current : the result of " + t.recv + ".current();  apply : " + t.recv + ".apply -/\n")
	hdr.WriteString("def " + typ + "_Apply")
	curT := "List " + itemT
	if typ == "RDNSS" {
		curT = itemT
	}
	for _, f := range t.order {
		switch f {
		case "Prefix":
			hdr.WriteString(" (Prefix : " + itemT + ")")
		case "Servers":
			hdr.WriteString(" (Servers : List " + itemT + ")")
		default:
			hdr.WriteString(" (" + f + " : Bool)")
		}
	}
	hdr.WriteString(" (current : Option (" + curT + ")) (apply : List " + itemT + " → List Corerad.Model.Opt) : Option (List Corerad.Model.Opt) :=\n" + body)
	return leanDef{typ + "_Apply", hdr.String()}, nil
}
