// translate_synth.go — Go→Lean translation of a REGION of an effectful function: the region is
// first rewritten, by the fixed and documented rules below, into a pure Go function whose text is
// printed into the evidence (facts), and that function is then translated by the ordinary
// translator (translate.go) — same subset, same semantics tables.
//
// Region translated here: the multicast rate limit of (*Advertiser).schedule
// (internal/corerad/advertise.go), C06 — "router advertisements sent to the all-nodes multicast
// address are never transmitted less than MIN_DELAY_BETWEEN_RAS apart … and every trigger is still
// satisfied by some multicast RA transmitted no later than MIN_DELAY_BETWEEN_RAS after it".
// The region is the part of the scheduler's loop body that follows its `select`: what the loop does
// with ONE request taken off the channel.  Props/TransC06.lean proves the translated definition
// equal to `Model.schedStep`, the step function the C06 theorems are about.
//
// # Rewriting rules (anything else in the region is reported as unsupported)
//
// The function must have exactly one condition-less `for { … }` at the top level of its body, whose
// body contains exactly one `select` statement at its top level; the region is what follows it.
// The synthesised function is
//
//	func Advertiser_schedule_mc(nextMulticast time.Time, now time.Time,
//	        minDelayBetweenRAs time.Duration, unicastOnly bool, ipIsMulticast bool) (time.Time, bool)
//
// — the new value of the loop-carried variable `nextMulticast`, and whether a multicast
// transmission was handed to the timer group for that instant — obtained from the region by:
//
//	now := time.Now()                     dropped; `now` is the parameter (exactly one such statement,
//	                                      at the top level of the region; any other time.Now() is unsupported)
//	a.minDelayBetweenRAs                  minDelayBetweenRAs      (a the receiver)
//	a.cfg.UnicastOnly                     unicastOnly
//	ip.IsMulticast()                      ipIsMulticast           (ip the variable the select case receives into)
//	continue                              return nextMulticast, false
//	if !ip.IsMulticast() { S…; continue } if !ipIsMulticast { return nextMulticast, false }
//	                                      provided S… does not mention nextMulticast and calls
//	                                      sg.Schedule nowhere (the unicast branch: its own jitter and
//	                                      sg.Delay are C07's, pinned by Gen.Advertise facts)
//	sg.Schedule(nextMulticast, worker(ip))   as the LAST statement of the region:
//	                                      return nextMulticast, true
//	if c { A }   (no init, no else)       kept, A rewritten by the same rules
//	nextMulticast = e                     kept
//
// A call of sg.Schedule / sg.Delay anywhere else, a statement of any other kind, or a selector on
// a / ip / sg / prng that the table does not list is unsupported.
//
// Trusted: the rewriting rules above (they are the semantics given to `continue`, to the clock read
// and to the hand-over to the timer group); go/parser's AST is the program.
package main

import (
	"bytes"
	"fmt"
	"go/ast"
	"go/parser"
	"go/printer"
	"go/token"
	"strings"
)

type synTr struct {
	p    *pkg
	fd   *ast.FuncDecl
	fn   string
	recv string
	ipV  string
	nowN int
}

func (t *synTr) fail(n ast.Node, what string) {
	at := ""
	if n != nil && n.Pos().IsValid() {
		at = fmt.Sprintf(" at %s:%d", t.p.fileOf[t.fd], fset.Position(n.Pos()).Line)
	}
	panic(trErr{"translate: " + t.fn + ": unsupported " + what + at})
}

func mentions(n ast.Node, name string) bool {
	found := false
	ast.Inspect(n, func(x ast.Node) bool {
		if id, ok := x.(*ast.Ident); ok && id.Name == name {
			found = true
		}
		return !found
	})
	return found
}

func callsMethod(n ast.Node, recv, method string) bool {
	found := false
	ast.Inspect(n, func(x ast.Node) bool {
		if c, ok := x.(*ast.CallExpr); ok && exprString(c.Fun) == recv+"."+method {
			found = true
		}
		return !found
	})
	return found
}

// expr: the expression with the table's selectors replaced
func (t *synTr) expr(e ast.Expr) string {
	s := exprString(e)
	s = strings.ReplaceAll(s, t.recv+".minDelayBetweenRAs", "minDelayBetweenRAs")
	s = strings.ReplaceAll(s, t.recv+".cfg.UnicastOnly", "unicastOnly")
	s = strings.ReplaceAll(s, t.ipV+".IsMulticast()", "ipIsMulticast")
	// nothing of the receiver, the request, the timer group or the PRNG may remain
	bad := false
	ast.Inspect(e, func(x ast.Node) bool {
		if sel, ok := x.(*ast.SelectorExpr); ok {
			if id, ok := sel.X.(*ast.Ident); ok {
				full := exprString(sel)
				switch id.Name {
				case t.recv:
					if full != t.recv+".minDelayBetweenRAs" && full != t.recv+".cfg" {
						bad = true
					}
				case t.ipV:
					if full != t.ipV+".IsMulticast" {
						bad = true
					}
				case "sg", "prng":
					bad = true
				case "time":
					if full == "time.Now" {
						bad = true
					}
				}
			}
			if exprString(sel.X) == t.recv+".cfg" && sel.Sel.Name != "UnicastOnly" {
				bad = true
			}
		}
		return true
	})
	if bad {
		t.fail(e, "expression "+exprString(e)+" in the scheduling region")
	}
	return s
}

// stmts: the rewritten statements; last reports that these are the final statements of the region
func (t *synTr) stmts(list []ast.Stmt, ind string, top bool) string {
	var sb strings.Builder
	for i, s := range list {
		lastOfRegion := top && i == len(list)-1
		switch x := s.(type) {
		case *ast.AssignStmt:
			if top && x.Tok == token.DEFINE && len(x.Lhs) == 1 && len(x.Rhs) == 1 && exprString(x.Lhs[0]) == "now" && exprString(x.Rhs[0]) == "time.Now()" {
				t.nowN++
				continue
			}
			if x.Tok == token.ASSIGN && len(x.Lhs) == 1 && len(x.Rhs) == 1 && exprString(x.Lhs[0]) == "nextMulticast" {
				sb.WriteString(ind + "nextMulticast = " + t.expr(x.Rhs[0]) + "\n")
				continue
			}
			t.fail(x, "assignment "+exprString(x.Lhs[0])+" in the scheduling region")
		case *ast.BranchStmt:
			if x.Tok == token.CONTINUE && x.Label == nil {
				sb.WriteString(ind + "return nextMulticast, false\n")
				continue
			}
			t.fail(x, "branch statement")
		case *ast.IfStmt:
			if x.Init != nil || x.Else != nil {
				t.fail(x, "if with init / else in the scheduling region")
			}
			// the unicast branch
			if u, ok := x.Cond.(*ast.UnaryExpr); ok && u.Op == token.NOT && exprString(u.X) == t.ipV+".IsMulticast()" {
				n := len(x.Body.List)
				if n == 0 {
					t.fail(x, "empty unicast branch")
				}
				br, ok := x.Body.List[n-1].(*ast.BranchStmt)
				if !ok || br.Tok != token.CONTINUE || br.Label != nil {
					t.fail(x, "unicast branch that does not end in continue")
				}
				if mentions(x.Body, "nextMulticast") || callsMethod(x.Body, "sg", "Schedule") {
					t.fail(x, "unicast branch that touches the multicast schedule")
				}
				sb.WriteString(ind + "if !ipIsMulticast {\n" + ind + "\treturn nextMulticast, false\n" + ind + "}\n")
				continue
			}
			if callsMethod(x.Body, "sg", "Schedule") || callsMethod(x.Body, "sg", "Delay") {
				t.fail(x, "hand-over to the timer group inside a conditional")
			}
			sb.WriteString(ind + "if " + t.expr(x.Cond) + " {\n" + t.stmts(x.Body.List, ind+"\t", false) + ind + "}\n")
		case *ast.ExprStmt:
			c, ok := x.X.(*ast.CallExpr)
			if ok && lastOfRegion && exprString(c.Fun) == "sg.Schedule" && len(c.Args) == 2 && exprString(c.Args[0]) == "nextMulticast" {
				sb.WriteString(ind + "return nextMulticast, true\n")
				continue
			}
			t.fail(x, "statement "+exprString(x.X)+" in the scheduling region")
		default:
			t.fail(s, fmt.Sprintf("statement %T in the scheduling region", s))
		}
	}
	return sb.String()
}

func translateScheduleMC(p *pkg) (defs []leanDef, src string, err error) {
	defer func() {
		if r := recover(); r != nil {
			if te, ok := r.(trErr); ok {
				err = fmt.Errorf("%s", te.msg)
				return
			}
			panic(r)
		}
	}()
	t := &synTr{p: p, fn: "Advertiser.schedule"}
	fd, ok := p.funcs[t.fn]
	if !ok {
		return nil, "", fmt.Errorf("translate: %s: function not found in %s", t.fn, p.dir)
	}
	t.fd = fd
	if fd.Recv == nil || len(fd.Recv.List) != 1 || len(fd.Recv.List[0].Names) != 1 {
		t.fail(fd, "receiver")
	}
	t.recv = fd.Recv.List[0].Names[0].Name
	var loop *ast.ForStmt
	for _, s := range fd.Body.List {
		if f, ok := s.(*ast.ForStmt); ok {
			if f.Init != nil || f.Cond != nil || f.Post != nil || loop != nil {
				t.fail(f, "loop shape (exactly one condition-less for at the top level expected)")
			}
			loop = f
		}
	}
	if loop == nil {
		t.fail(fd, "body without a for loop")
	}
	// nextMulticast must be declared before the loop, from the clock
	declared := false
	ast.Inspect(fd.Body, func(n ast.Node) bool {
		if n == ast.Node(loop) {
			return false
		}
		if vs, ok := n.(*ast.ValueSpec); ok {
			for i, nm := range vs.Names {
				if nm.Name == "nextMulticast" && i < len(vs.Values) && exprString(vs.Values[i]) == "time.Now()" {
					declared = true
				}
			}
		}
		return true
	})
	if !declared {
		t.fail(fd, "declaration of nextMulticast (expected `nextMulticast = time.Now()` before the loop: the initial RA has just been sent)")
	}
	sel := -1
	for i, s := range loop.Body.List {
		if ss, ok := s.(*ast.SelectStmt); ok {
			if sel >= 0 {
				t.fail(ss, "second select in the loop body")
			}
			sel = i
			// the variable the request is received into
			for _, c := range ss.Body.List {
				cc := c.(*ast.CommClause)
				if as, ok := cc.Comm.(*ast.AssignStmt); ok && len(as.Lhs) == 1 && len(as.Rhs) == 1 {
					if u, ok := as.Rhs[0].(*ast.UnaryExpr); ok && u.Op == token.ARROW && exprString(u.X) == "ipC" {
						if as.Tok != token.ASSIGN || len(cc.Body) != 0 {
							t.fail(cc, "receive from ipC (expected `case ip = <-ipC:` with an empty body)")
						}
						t.ipV = exprString(as.Lhs[0])
					}
				}
			}
		}
	}
	if sel < 0 || t.ipV == "" {
		t.fail(loop, "loop body without a select receiving from ipC")
	}
	body := t.stmts(loop.Body.List[sel+1:], "\t", true)
	if t.nowN != 1 {
		t.fail(loop, fmt.Sprintf("%d clock reads `now := time.Now()` in the region (exactly one expected)", t.nowN))
	}
	const name = "Advertiser_schedule_mc"
	src = "package synth\n\nimport \"time\"\n\n// synthesised from the loop body of (*Advertiser).schedule by tools/extract/translate_synth.go\n" +
		"func " + name + "(nextMulticast time.Time, now time.Time, minDelayBetweenRAs time.Duration, unicastOnly bool, ipIsMulticast bool) (time.Time, bool) {\n" +
		body + "}\n"
	f, perr := parser.ParseFile(fset, "synthesised:"+p.fileOf[fd], src, 0)
	if perr != nil {
		return nil, src, fmt.Errorf("translate: %s: the synthesised function does not parse: %v", t.fn, perr)
	}
	sp := &pkg{dir: p.dir, consts: map[string]constDecl{}, dup: map[string]bool{}, structs: map[string]*ast.StructType{},
		funcs: map[string]*ast.FuncDecl{}, fileOf: map[*ast.FuncDecl]string{}, repo: p.repo,
		imports: map[string]map[string]string{}, nstruct: map[string]int{}}
	for _, d := range f.Decls {
		if sfd, ok := d.(*ast.FuncDecl); ok {
			sp.funcs[sfd.Name.Name] = sfd
			sp.fileOf[sfd] = "synthesised:" + p.fileOf[fd]
		}
	}
	sp.imports["synthesised:"+p.fileOf[fd]] = map[string]string{"time": "time"}
	defs, err = translateFunc(sp, transSpec{dir: p.dir, fn: name, lean: name, prop: "C06"})
	return defs, src, err
}

// ---------------------------------------------------------------------------------------------
// NewPREF64 (internal/plugin/plugin.go), C01: "PREF64 lifetime 3×MaxRtrAdvInterval rounded up to a
// multiple of 8 s and capped" — the constructor computes a lifetime and stores it, with the prefix,
// in the option it returns.  Synthesised:
//
//	func NewPREF64_lifetime(maxInterval time.Duration) time.Duration { <body up to the final return>; return <L> }
//
// where the function's last statement must be `return &PREF64{Inner: &ndp.PREF64{Prefix: <the
// prefix parameter>, Lifetime: <L>}}` (exactly these two fields, L an expression over the locals);
// every statement before it is kept as it is.  The translated definition is proved equal to
// `Model.pref64Lifetime` in Props/TransC01.lean.
func translatePREF64(p *pkg) (defs []leanDef, src string, err error) {
	defer func() {
		if r := recover(); r != nil {
			if te, ok := r.(trErr); ok {
				err = fmt.Errorf("%s", te.msg)
				return
			}
			panic(r)
		}
	}()
	t := &synTr{p: p, fn: "NewPREF64"}
	fd, ok := p.funcs[t.fn]
	if !ok {
		return nil, "", fmt.Errorf("translate: %s: function not found in %s", t.fn, p.dir)
	}
	t.fd = fd
	// parameters: (prefix netip.Prefix, maxInterval time.Duration)
	var names, types []string
	for _, f := range fd.Type.Params.List {
		for _, n := range f.Names {
			names = append(names, n.Name)
			types = append(types, exprString(f.Type))
		}
	}
	if len(names) != 2 || types[0] != "netip.Prefix" || types[1] != "time.Duration" {
		t.fail(fd, "signature (expected (prefix netip.Prefix, maxInterval time.Duration))")
	}
	n := len(fd.Body.List)
	if n == 0 {
		t.fail(fd, "empty body")
	}
	ret, ok := fd.Body.List[n-1].(*ast.ReturnStmt)
	if !ok || len(ret.Results) != 1 {
		t.fail(fd, "body that does not end in a single-value return")
	}
	// &PREF64{Inner: &ndp.PREF64{Prefix: prefix, Lifetime: L}}
	lit := func(e ast.Expr, typ string) *ast.CompositeLit {
		u, ok := e.(*ast.UnaryExpr)
		if !ok || u.Op != token.AND {
			t.fail(e, "returned value (expected &"+typ+"{…})")
		}
		cl, ok := u.X.(*ast.CompositeLit)
		if !ok || exprString(cl.Type) != typ {
			t.fail(e, "returned value (expected &"+typ+"{…})")
		}
		return cl
	}
	outer := lit(ret.Results[0], "PREF64")
	if len(outer.Elts) != 1 {
		t.fail(outer, "fields of the returned PREF64 (expected Inner only)")
	}
	kv, ok := outer.Elts[0].(*ast.KeyValueExpr)
	if !ok || exprString(kv.Key) != "Inner" {
		t.fail(outer, "fields of the returned PREF64 (expected Inner only)")
	}
	inner := lit(kv.Value, "ndp.PREF64")
	var lifetime ast.Expr
	for _, e := range inner.Elts {
		kv, ok := e.(*ast.KeyValueExpr)
		if !ok {
			t.fail(e, "positional field in ndp.PREF64{…}")
		}
		switch exprString(kv.Key) {
		case "Prefix":
			if exprString(kv.Value) != names[0] {
				t.fail(kv, "Prefix of the option (expected the prefix parameter unchanged)")
			}
		case "Lifetime":
			lifetime = kv.Value
		default:
			t.fail(kv, "field "+exprString(kv.Key)+" of ndp.PREF64")
		}
	}
	if lifetime == nil || len(inner.Elts) != 2 {
		t.fail(inner, "fields of ndp.PREF64 (expected Prefix and Lifetime)")
	}
	// the statements before the return must not mention the prefix
	var body strings.Builder
	for _, s := range fd.Body.List[:n-1] {
		if mentions(s, names[0]) {
			t.fail(s, "use of the prefix parameter before the return")
		}
		var buf bytes.Buffer
		if err := printer.Fprint(&buf, fset, s); err != nil {
			t.fail(s, "statement that cannot be printed")
		}
		body.WriteString("\t" + buf.String() + "\n")
	}
	const name = "NewPREF64_lifetime"
	src = "package synth\n\nimport \"time\"\n\n// synthesised from NewPREF64 by tools/extract/translate_synth.go\n" +
		"func " + name + "(" + names[1] + " time.Duration) time.Duration {\n" + body.String() + "\treturn " + exprString(lifetime) + "\n}\n"
	f, perr := parser.ParseFile(fset, "synthesised:"+p.fileOf[fd], src, 0)
	if perr != nil {
		return nil, src, fmt.Errorf("translate: %s: the synthesised function does not parse: %v", t.fn, perr)
	}
	// the package's constants (maxPref64Lifetime) stay visible to the translator
	sp := &pkg{dir: p.dir, consts: p.consts, dup: p.dup, structs: map[string]*ast.StructType{},
		funcs: map[string]*ast.FuncDecl{}, fileOf: map[*ast.FuncDecl]string{}, repo: p.repo,
		imports: map[string]map[string]string{}, nstruct: map[string]int{}}
	for _, d := range f.Decls {
		if sfd, ok := d.(*ast.FuncDecl); ok {
			sp.funcs[sfd.Name.Name] = sfd
			sp.fileOf[sfd] = "synthesised:" + p.fileOf[fd]
		}
	}
	sp.imports["synthesised:"+p.fileOf[fd]] = map[string]string{"time": "time"}
	defs, err = translateFunc(sp, transSpec{dir: p.dir, fn: name, lean: name, prop: "C01"})
	return defs, src, err
}
