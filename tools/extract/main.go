// Command extract re-reads /repo's Go sources (go/ast only, no type checking, no
// dependencies) and regenerates the Lean files under Corerad/Gen: every named constant and
// structural fact the hand-written model and the property theorems depend on.
//
// A declaration the extractor expects but cannot find is an error (the code was
// restructured): the tie is broken and the check reports it; it is never a silent pass.
//
// usage: extract -repo /repo -out /verif/lean/Corerad/Gen -facts facts.json
package main

import (
	"encoding/json"
	"flag"
	"fmt"
	"go/ast"
	"go/parser"
	"go/printer"
	"go/token"
	"os"
	"path/filepath"
	"sort"
	"strconv"
	"strings"
)

var (
	fset  = token.NewFileSet()
	errs  []string
	facts = map[string]any{}
)

// curTag names the generated file (or, for translated functions, the Props/Trans<prop> module)
// whose facts are being extracted; every error is reported as `[tag] message`, so that the check
// of a property can tell a broken tie of its own from one that concerns code it does not depend on.
var (
	curTag  string
	errTags = map[string]bool{}
)

func failf(format string, a ...any) {
	msg := fmt.Sprintf(format, a...)
	if curTag != "" {
		msg = "[" + curTag + "] " + msg
		errTags[curTag] = true
	} else {
		errTags[""] = true
	}
	errs = append(errs, msg)
}

func tagged(tag string, gen func(string) *leanFile, repo string) *leanFile {
	curTag = tag
	defer func() { curTag = "" }()
	return gen(repo)
}

// ---------------------------------------------------------------------------------------------
// parsing helpers

type file struct {
	path string
	f    *ast.File
	// package-level constants by name (expression + iota index)
	consts map[string]constDecl
}

type constDecl struct {
	expr ast.Expr
	iota int64
}

func load(repo, rel string) *file {
	p := filepath.Join(repo, rel)
	f, err := parser.ParseFile(fset, p, nil, parser.ParseComments)
	if err != nil {
		failf("parse %s: %v", rel, err)
		return nil
	}
	fl := &file{path: rel, f: f, consts: map[string]constDecl{}}
	for _, d := range f.Decls {
		gd, ok := d.(*ast.GenDecl)
		if !ok || gd.Tok != token.CONST {
			continue
		}
		collectConsts(gd, fl.consts)
	}
	return fl
}

func collectConsts(gd *ast.GenDecl, into map[string]constDecl) {
	var last []ast.Expr
	for i, s := range gd.Specs {
		vs := s.(*ast.ValueSpec)
		vals := vs.Values
		if len(vals) == 0 {
			vals = last
		} else {
			last = vals
		}
		for j, n := range vs.Names {
			if j < len(vals) {
				into[n.Name] = constDecl{expr: vals[j], iota: int64(i)}
			}
		}
	}
}

func (fl *file) fn(name string) *ast.FuncDecl {
	if fl == nil {
		return nil
	}
	recv := ""
	if i := strings.Index(name, "."); i >= 0 {
		recv, name = name[:i], name[i+1:]
	}
	for _, d := range fl.f.Decls {
		fd, ok := d.(*ast.FuncDecl)
		if !ok || fd.Name.Name != name {
			continue
		}
		if recv == "" && fd.Recv == nil {
			return fd
		}
		if recv != "" && fd.Recv != nil && len(fd.Recv.List) == 1 {
			t := fd.Recv.List[0].Type
			if st, ok := t.(*ast.StarExpr); ok {
				t = st.X
			}
			if id, ok := t.(*ast.Ident); ok && id.Name == recv {
				return fd
			}
		}
	}
	failf("%s: function %s not found", fl.path, name)
	return nil
}

// localConsts collects `const` declarations inside a function body.
func localConsts(fd *ast.FuncDecl) map[string]constDecl {
	m := map[string]constDecl{}
	if fd == nil {
		return m
	}
	ast.Inspect(fd.Body, func(n ast.Node) bool {
		if ds, ok := n.(*ast.DeclStmt); ok {
			if gd, ok := ds.Decl.(*ast.GenDecl); ok && gd.Tok == token.CONST {
				collectConsts(gd, m)
			}
		}
		return true
	})
	return m
}

var timeUnits = map[string]int64{
	"Nanosecond": 1, "Microsecond": 1e3, "Millisecond": 1e6, "Second": 1e9,
	"Minute": 60e9, "Hour": 3600e9,
}

type env struct {
	consts []map[string]constDecl
	vars   map[string]int64
	iota   int64
}

// eval evaluates an integer constant expression.
func (e env) eval(x ast.Expr) (int64, error) {
	switch x := x.(type) {
	case *ast.BasicLit:
		if x.Kind == token.INT {
			return strconv.ParseInt(x.Value, 0, 64)
		}
		if x.Kind == token.FLOAT {
			// only used for 0.33 / 0.75 style factors: return value * 100 is not meaningful here
			return 0, fmt.Errorf("float literal %s", x.Value)
		}
		return 0, fmt.Errorf("literal %s", x.Value)
	case *ast.ParenExpr:
		return e.eval(x.X)
	case *ast.UnaryExpr:
		v, err := e.eval(x.X)
		if err != nil {
			return 0, err
		}
		if x.Op == token.SUB {
			return -v, nil
		}
		return v, nil
	case *ast.BinaryExpr:
		a, err := e.eval(x.X)
		if err != nil {
			return 0, err
		}
		b, err := e.eval(x.Y)
		if err != nil {
			return 0, err
		}
		switch x.Op {
		case token.ADD:
			return a + b, nil
		case token.SUB:
			return a - b, nil
		case token.MUL:
			return a * b, nil
		case token.QUO:
			if b == 0 {
				return 0, fmt.Errorf("division by zero")
			}
			return a / b, nil
		case token.SHL:
			return a << uint(b), nil
		case token.OR:
			return a | b, nil
		}
		return 0, fmt.Errorf("operator %s", x.Op)
	case *ast.SelectorExpr:
		if id, ok := x.X.(*ast.Ident); ok && id.Name == "time" {
			if v, ok := timeUnits[x.Sel.Name]; ok {
				return v, nil
			}
		}
		return 0, fmt.Errorf("selector %s", render(x))
	case *ast.Ident:
		if x.Name == "iota" {
			return e.iota, nil
		}
		if v, ok := e.vars[x.Name]; ok {
			return v, nil
		}
		for _, m := range e.consts {
			if c, ok := m[x.Name]; ok {
				e2 := e
				e2.iota = c.iota
				return e2.eval(c.expr)
			}
		}
		return 0, fmt.Errorf("unknown identifier %s", x.Name)
	case *ast.CallExpr:
		// conversions: time.Duration(x), Change(x), int(x), uint(x)
		if len(x.Args) == 1 {
			return e.eval(x.Args[0])
		}
	}
	return 0, fmt.Errorf("unsupported expression %s", render(x))
}

func render(n ast.Node) string {
	var sb strings.Builder
	ast.Fprint(&sb, nil, nil, nil)
	return exprString(n)
}

// exprString renders a (small) expression in Go-like syntax; used for matching shapes.
func exprString(n ast.Node) string {
	switch x := n.(type) {
	case *ast.Ident:
		return x.Name
	case *ast.BasicLit:
		return x.Value
	case *ast.SelectorExpr:
		return exprString(x.X) + "." + x.Sel.Name
	case *ast.CallExpr:
		var as []string
		for _, a := range x.Args {
			as = append(as, exprString(a))
		}
		return exprString(x.Fun) + "(" + strings.Join(as, ", ") + ")"
	case *ast.BinaryExpr:
		return exprString(x.X) + " " + x.Op.String() + " " + exprString(x.Y)
	case *ast.UnaryExpr:
		return x.Op.String() + exprString(x.X)
	case *ast.ParenExpr:
		return "(" + exprString(x.X) + ")"
	case *ast.StarExpr:
		return "*" + exprString(x.X)
	case *ast.IndexExpr:
		return exprString(x.X) + "[" + exprString(x.Index) + "]"
	case *ast.CompositeLit:
		return exprString(x.Type) + "{…}"
	case *ast.FuncLit:
		return "func(){…}"
	case *ast.ArrayType:
		return "[]" + exprString(x.Elt)
	case nil:
		return ""
	}
	return fmt.Sprintf("<%T>", n)
}

// ---------------------------------------------------------------------------------------------
// Lean emission

type leanFile struct {
	name  string // e.g. "Advertise"
	lines []string
	defd  map[string]bool
}

// once reports whether name is defined for the first time; a second definition of the same fact
// (the source has two sites matching one pattern) is an extraction error, never an ill-formed file.
func (l *leanFile) once(name string) bool {
	if l.defd == nil {
		l.defd = map[string]bool{}
	}
	if l.defd[name] {
		failf("%s: fact %s found at more than one site of the source", l.name, name)
		return false
	}
	l.defd[name] = true
	return true
}

func (l *leanFile) Int(name string, v int64, src string) {
	if !l.once(name) {
		return
	}
	l.lines = append(l.lines, fmt.Sprintf("/-- %s -/\ndef %s : Int := %d", src, name, v))
	facts[l.name+"."+name] = v
}
func (l *leanFile) Nat(name string, v int64, src string) {
	if !l.once(name) {
		return
	}
	l.lines = append(l.lines, fmt.Sprintf("/-- %s -/\ndef %s : Nat := %d", src, name, v))
	facts[l.name+"."+name] = v
}
func (l *leanFile) Bool(name string, v bool, src string) {
	if !l.once(name) {
		return
	}
	l.lines = append(l.lines, fmt.Sprintf("/-- %s -/\ndef %s : Bool := %v", src, name, v))
	facts[l.name+"."+name] = v
}
func (l *leanFile) Strs(name string, v []string, src string) {
	if !l.once(name) {
		return
	}
	q := make([]string, len(v))
	for i, s := range v {
		q[i] = strconv.Quote(s)
	}
	l.lines = append(l.lines, fmt.Sprintf("/-- %s -/\ndef %s : List String := [%s]", src, name, strings.Join(q, ", ")))
	facts[l.name+"."+name] = v
}
func (l *leanFile) Str(name string, v string, src string) {
	if !l.once(name) {
		return
	}
	l.lines = append(l.lines, fmt.Sprintf("/-- %s -/\ndef %s : String := %s", src, name, strconv.Quote(v)))
	facts[l.name+"."+name] = v
}

func (l *leanFile) write(dir string) error {
	var sb strings.Builder
	sb.WriteString("-- REGENERATED by /verif/tools/extract from /repo on every check run. Do not edit.\n")
	sb.WriteString("namespace Corerad.Gen." + l.name + "\n\n")
	for _, ln := range l.lines {
		sb.WriteString(ln + "\n\n")
	}
	sb.WriteString("end Corerad.Gen." + l.name + "\n")
	p := filepath.Join(dir, l.name+".lean")
	old, err := os.ReadFile(p)
	if err == nil && string(old) == sb.String() {
		return nil
	}
	tmp := p + ".tmp"
	if err := os.WriteFile(tmp, []byte(sb.String()), 0o644); err != nil {
		return err
	}
	return os.Rename(tmp, p)
}

// ---------------------------------------------------------------------------------------------
// shape finders

// findBounds finds `if v < A || v > B` (v rendered as name) inside fd and returns A, B.
func findBounds(fl *file, fd *ast.FuncDecl, name string, e env) (lo, hi int64, ok bool) {
	if fd == nil {
		return
	}
	ast.Inspect(fd.Body, func(n ast.Node) bool {
		is, isIf := n.(*ast.IfStmt)
		if !isIf || ok {
			return true
		}
		be, isB := is.Cond.(*ast.BinaryExpr)
		if !isB || be.Op != token.LOR {
			return true
		}
		l, lok := be.X.(*ast.BinaryExpr)
		r, rok := be.Y.(*ast.BinaryExpr)
		if !lok || !rok || l.Op != token.LSS || r.Op != token.GTR {
			return true
		}
		if exprString(l.X) != name || exprString(r.X) != name {
			return true
		}
		a, err1 := e.eval(l.Y)
		b, err2 := e.eval(r.Y)
		if err1 != nil || err2 != nil {
			return true
		}
		lo, hi, ok = a, b, true
		return false
	})
	if !ok {
		failf("%s: bounds check `%s < A || %s > B` not found in %s", fl.path, name, name, fd.Name.Name)
	}
	return
}

// findAssignInit finds `name := expr` in fd and evaluates expr.
func findAssignInit(fl *file, fd *ast.FuncDecl, name string, e env) (int64, bool) {
	var out int64
	found := false
	if fd == nil {
		return 0, false
	}
	ast.Inspect(fd.Body, func(n ast.Node) bool {
		as, ok := n.(*ast.AssignStmt)
		if !ok || found || as.Tok != token.DEFINE || len(as.Lhs) != 1 || len(as.Rhs) != 1 {
			return true
		}
		if id, ok := as.Lhs[0].(*ast.Ident); ok && id.Name == name {
			if v, err := e.eval(as.Rhs[0]); err == nil {
				out, found = v, true
				return false
			}
		}
		return true
	})
	if !found {
		failf("%s: `%s := <const>` not found in %s", fl.path, name, fd.Name.Name)
	}
	return out, found
}

// callsIn lists rendered call expressions in source order inside a node.
func callsIn(n ast.Node) []string {
	var out []string
	if n == nil {
		return out
	}
	ast.Inspect(n, func(n ast.Node) bool {
		if c, ok := n.(*ast.CallExpr); ok {
			out = append(out, exprString(c.Fun))
		}
		return true
	})
	return out
}

func indexOf(xs []string, s string) int {
	for i, x := range xs {
		if x == s {
			return i
		}
	}
	return -1
}

// ---------------------------------------------------------------------------------------------

func main() {
	repo := flag.String("repo", "/repo", "repository root")
	out := flag.String("out", "", "output directory for Gen/*.lean")
	factsPath := flag.String("facts", "", "facts.json output")
	flag.Parse()
	if *out == "" {
		fmt.Fprintln(os.Stderr, "missing -out")
		os.Exit(2)
	}
	if err := os.MkdirAll(*out, 0o755); err != nil {
		fmt.Fprintln(os.Stderr, err)
		os.Exit(2)
	}

	var files []*leanFile
	files = append(files, tagged("Advertise", genAdvertise, *repo))
	files = append(files, tagged("Listener", genListener, *repo))
	files = append(files, tagged("Dialer", genDialer, *repo))
	files = append(files, tagged("Server", genServer, *repo))
	files = append(files, tagged("Config", genConfig, *repo))
	files = append(files, tagged("Plugin", genPlugin, *repo))
	files = append(files, tagged("Netstate", genNetstate, *repo))
	files = append(files, tagged("Metrics", genMetrics, *repo))
	files = append(files, tagged("Main", genMain, *repo))
	files = append(files, tagged("Verify", genVerify, *repo))

	// Go → Lean translation of the whitelisted functions (translate.go).  Written even when a
	// fact above could not be extracted: a stale Trans.lean must not survive a source change.
	if err := genTrans(*repo, *out); err != nil {
		fmt.Fprintln(os.Stderr, err)
		os.Exit(2)
	}

	// delete stale generated files, then write.  A file whose extraction reported an error is
	// NOT rewritten (its previous content, if any, stays: the driver of a property that does not
	// depend on it still builds; a property that does depend on it is told about the error).
	want := map[string]bool{"Trans.lean": true}
	for _, f := range files {
		want[f.name+".lean"] = true
	}
	ents, _ := os.ReadDir(*out)
	for _, e := range ents {
		if !want[e.Name()] {
			os.Remove(filepath.Join(*out, e.Name()))
		}
	}
	for _, f := range files {
		if errTags[f.name] || errTags[""] {
			continue
		}
		if err := f.write(*out); err != nil {
			fmt.Fprintln(os.Stderr, err)
			os.Exit(2)
		}
	}
	defer func() {
		if len(errs) > 0 {
			for _, e := range errs {
				fmt.Fprintln(os.Stderr, "extract: "+e)
			}
			os.Exit(1)
		}
	}()
	if *factsPath != "" {
		keys := make([]string, 0, len(facts))
		for k := range facts {
			keys = append(keys, k)
		}
		sort.Strings(keys)
		b, _ := json.MarshalIndent(facts, "", " ")
		_ = os.WriteFile(*factsPath, b, 0o644)
	}
}

// ---------------------------------------------------------------------------------------------
// internal/corerad/advertise.go

func genAdvertise(repo string) *leanFile {
	l := &leanFile{name: "Advertise"}
	fl := load(repo, "internal/corerad/advertise.go")
	if fl == nil {
		return l
	}
	e := env{consts: []map[string]constDecl{fl.consts}}
	for _, c := range []string{"maxInitialAdvInterval", "maxInitialAdv", "minDelayBetweenRAs", "maxRADelay"} {
		d, ok := fl.consts[c]
		if !ok {
			failf("advertise.go: constant %s not found", c)
			continue
		}
		v, err := e.eval(d.expr)
		if err != nil {
			failf("advertise.go: constant %s: %v", c, err)
			continue
		}
		l.Int(c, v, "advertise.go const "+c+" = "+exprString(d.expr))
	}

	// NewAdvertiser initialises the field minDelayBetweenRAs from the constant.
	if fd := fl.fn("NewAdvertiser"); fd != nil {
		ok := false
		ast.Inspect(fd.Body, func(n ast.Node) bool {
			if kv, isKV := n.(*ast.KeyValueExpr); isKV {
				if exprString(kv.Key) == "minDelayBetweenRAs" && exprString(kv.Value) == "minDelayBetweenRAs" {
					ok = true
				}
			}
			return true
		})
		l.Bool("fieldMinDelayIsConst", ok, "NewAdvertiser sets minDelayBetweenRAs: minDelayBetweenRAs")
	}

	// capacity of ipC
	if fd := fl.fn("Advertiser.advertise"); fd != nil {
		found := false
		ast.Inspect(fd.Body, func(n ast.Node) bool {
			c, ok := n.(*ast.CallExpr)
			if !ok || exprString(c.Fun) != "make" || len(c.Args) < 1 || len(c.Args) > 2 {
				return true
			}
			if ct, isChan := c.Args[0].(*ast.ChanType); isChan && exprString(ct.Value) == "netip.Addr" {
				if len(c.Args) == 1 {
					// unbuffered
					l.Nat("ipCCap", 0, "advertise(): make(chan netip.Addr)")
					found = true
				} else if v, err := e.eval(c.Args[1]); err == nil {
					l.Nat("ipCCap", v, "advertise(): make(chan netip.Addr, N)")
					found = true
				}
			}
			return true
		})
		if !found {
			failf("advertise.go: make(chan netip.Addr, N) not found in advertise")
		}
		// goroutines started: schedule, multicast (guarded by !UnicastOnly), Listen, linkStateWatcher
		calls := callsIn(fd.Body)
		l.Bool("advertiseStartsAll",
			indexOf(calls, "a.schedule") >= 0 && indexOf(calls, "a.multicast") >= 0 &&
				indexOf(calls, "l.Listen") >= 0 && indexOf(calls, "linkStateWatcher") >= 0,
			"advertise() starts schedule, multicast, Listen, linkStateWatcher")
	}

	// the multicast loop waits on a FRESH timer per wait: its select has the cases `<-ctx.Done()` and
	// `<-time.After(multicastDelay(…))` and no other (a timer kept across waits or incarnations can
	// deliver a stale tick; the virtual-time scenarios run with asynctimerchan=0 and cannot see that)
	if fd := fl.fn("Advertiser.multicast"); fd != nil {
		nSel, nWait, ok := 0, 0, true
		ast.Inspect(fd.Body, func(n ast.Node) bool {
			sel, isSel := n.(*ast.SelectStmt)
			if !isSel {
				return true
			}
			nSel++
			var kinds []string
			for _, c := range sel.Body.List {
				cc := c.(*ast.CommClause)
				kind := "other"
				switch x := cc.Comm.(type) {
				case nil:
					kind = "default"
				case *ast.ExprStmt:
					if u, isRecv := x.X.(*ast.UnaryExpr); isRecv && u.Op == token.ARROW {
						src := exprString(u.X)
						switch {
						case src == "ctx.Done()":
							kind = "done"
						case strings.HasPrefix(src, "time.After(multicastDelay(") && strings.HasSuffix(src, "))"):
							kind = "after"
						}
					}
				case *ast.SendStmt:
					if exprString(x.Chan) == "ipC" {
						kind = "send"
					}
				}
				kinds = append(kinds, kind)
			}
			sort.Strings(kinds)
			switch strings.Join(kinds, " ") {
			case "default done", "done send":
			case "after done":
				nWait++
			default:
				ok = false
			}
			return true
		})
		l.Bool("multicastWaitsOnFreshTimer", ok && nWait == 1,
			"multicast(): its selects are {<-ctx.Done(), default}, {ipC <- …, <-ctx.Done()} and exactly one {<-ctx.Done(), <-time.After(multicastDelay(…))}")
	} else {
		failf("advertise.go: Advertiser.multicast not found")
	}

	// sendGate protocol: the statements of enter() and close(), in order (printed source)
	for _, fnName := range []string{"sendGate.enter", "sendGate.close", "sendGate.leave"} {
		if fd := fl.fn(fnName); fd != nil {
			var sts []string
			for _, st := range fd.Body.List {
				var b strings.Builder
				printer.Fprint(&b, fset, st)
				sts = append(sts, strings.Join(strings.Fields(b.String()), " "))
			}
			l.Strs("gate"+strings.Title(strings.TrimPrefix(fnName, "sendGate."))+"Stmts", sts, fnName+": statements in order")
		} else {
			failf("advertise.go: %s not found", fnName)
		}
	}

	// every send on the request channel ipC (advertise's listener callback, multicast): is it a
	// case of a select that also has a `<-ctx.Done()` case?
	{
		sites, guarded := 0, 0
		isDone := func(cc *ast.CommClause) bool {
			es, ok := cc.Comm.(*ast.ExprStmt)
			if !ok {
				return false
			}
			u, ok := es.X.(*ast.UnaryExpr)
			return ok && u.Op == token.ARROW && exprString(u.X) == "ctx.Done()"
		}
		inSelect := map[*ast.SendStmt]bool{}
		ast.Inspect(fl.f, func(n ast.Node) bool {
			sel, ok := n.(*ast.SelectStmt)
			if !ok {
				return true
			}
			hasDone := false
			for _, c := range sel.Body.List {
				if cc, ok := c.(*ast.CommClause); ok && isDone(cc) {
					hasDone = true
				}
			}
			for _, c := range sel.Body.List {
				if cc, ok := c.(*ast.CommClause); ok {
					if snd, ok := cc.Comm.(*ast.SendStmt); ok && hasDone {
						inSelect[snd] = true
					}
				}
			}
			return true
		})
		ast.Inspect(fl.f, func(n ast.Node) bool {
			if snd, ok := n.(*ast.SendStmt); ok && exprString(snd.Chan) == "ipC" {
				sites++
				if inSelect[snd] {
					guarded++
				}
			}
			return true
		})
		if sites == 0 {
			failf("advertise.go: no send on ipC found")
		}
		l.Nat("ipcSendSites", int64(sites), "number of `ipC <- …` send statements in advertise.go")
		l.Bool("ipcSendsGuarded", sites > 0 && guarded == sites, "every send on ipC is a case of a select that also has `<-ctx.Done()`")
	}

	// buildRA: forwarding read from state and passed to RouterAdvertisement
	if fd := fl.fn("Advertiser.buildRA"); fd != nil {
		l.Bool("buildRAReadsForwarding", forwardingProvenance(fd), "buildRA passes the result of state.IPv6Forwarding to RouterAdvertisement")
	}
	// send, handle reach RA construction only through buildRA; sendWorker->send; shutdown->send
	for _, pair := range [][2]string{{"Advertiser.send", "a.buildRA"}, {"Advertiser.handle", "a.buildRA"}, {"Advertiser.sendWorker", "a.send"}, {"Advertiser.shutdown", "a.send"}} {
		if fd := fl.fn(pair[0]); fd != nil {
			calls := callsIn(fd.Body)
			name := strings.ReplaceAll(strings.TrimPrefix(pair[0], "Advertiser."), ".", "_") + "Calls_" + strings.TrimPrefix(pair[1], "a.")
			l.Bool(name, indexOf(calls, pair[1]) >= 0 && indexOf(calls, "ifi.RouterAdvertisement") < 0 && indexOf(calls, "cfg.RouterAdvertisement") < 0,
				pair[0]+" calls "+pair[1]+" and does not build an RA itself")
		}
	}

	// schedule(): on cancellation, does the scheduler wait for transmissions in flight?  True iff
	// some object X is used both inside a worker closure (X.enter / X.Add …) and in the
	// `case <-ctx.Done()` clause (X.close / X.Wait …), X other than the schedgroup and ctx.
	if fd := fl.fn("Advertiser.schedule"); fd != nil {
		recvOf := func(n ast.Node) map[string]bool {
			out := map[string]bool{}
			ast.Inspect(n, func(m ast.Node) bool {
				if c, ok := m.(*ast.CallExpr); ok {
					if sel, ok := c.Fun.(*ast.SelectorExpr); ok {
						if id, ok := sel.X.(*ast.Ident); ok {
							out[id.Name] = true
						}
					}
				}
				return true
			})
			return out
		}
		inWorkers := map[string]bool{}
		ast.Inspect(fd.Body, func(n ast.Node) bool {
			if fl, ok := n.(*ast.FuncLit); ok {
				for k := range recvOf(fl.Body) {
					inWorkers[k] = true
				}
			}
			return true
		})
		awaits := false
		ast.Inspect(fd.Body, func(n ast.Node) bool {
			cc, ok := n.(*ast.CommClause)
			if !ok || cc.Comm == nil {
				return true
			}
			es, isExpr := cc.Comm.(*ast.ExprStmt)
			if !isExpr || !strings.Contains(exprString(es.X), "ctx.Done") {
				return true
			}
			for _, st := range cc.Body {
				for k := range recvOf(st) {
					if inWorkers[k] && k != "sg" && k != "ctx" && k != "a" && k != "time" {
						awaits = true
					}
				}
			}
			return true
		})
		l.Bool("shutdownAwaitsInflight", awaits, "schedule(): the ctx.Done branch waits on an object the send workers enter/leave")

		// every way out of the scheduler's loop goes through that wait: each `return` inside the
		// `for` is preceded, in its own block, by a call <gate>.close() / <gate>.Wait() on an
		// object the workers use
		allExits := true
		nReturns := 0
		var visit func(list []ast.Stmt, waited bool)
		visit = func(list []ast.Stmt, waited bool) {
			for _, st := range list {
				switch x := st.(type) {
				case *ast.ExprStmt:
					for k := range recvOf(x) {
						if inWorkers[k] && k != "sg" && k != "ctx" && k != "a" && k != "time" {
							waited = true
						}
					}
				case *ast.ReturnStmt:
					nReturns++
					if !waited {
						allExits = false
					}
				case *ast.IfStmt:
					visit(x.Body.List, waited)
					if b, ok := x.Else.(*ast.BlockStmt); ok {
						visit(b.List, waited)
					}
				case *ast.SelectStmt:
					for _, cc := range x.Body.List {
						visit(cc.(*ast.CommClause).Body, waited)
					}
				case *ast.SwitchStmt:
					for _, cc := range x.Body.List {
						visit(cc.(*ast.CaseClause).Body, waited)
					}
				case *ast.BlockStmt:
					visit(x.List, waited)
				case *ast.ForStmt:
					visit(x.Body.List, waited)
				}
			}
		}
		for _, st := range fd.Body.List {
			if fs, ok := st.(*ast.ForStmt); ok {
				visit(fs.Body.List, false)
			}
		}
		l.Bool("scheduleAllExitsAwait", allExits && nReturns > 0, "schedule(): every return inside the loop is preceded by the wait for in-flight transmissions")
	}

	// shutdown: terminate() checked first; lifetime zeroed on a copy
	if fd := fl.fn("Advertiser.shutdown"); fd != nil {
		calls := callsIn(fd.Body)
		l.Bool("shutdownChecksTerminate", indexOf(calls, "a.terminate") >= 0 && indexOf(calls, "a.terminate") < indexOf(calls, "a.send"),
			"shutdown consults terminate() before sending")
	}
	return l
}

// forwardingProvenance: fd contains `x, err := <...>.IPv6Forwarding(...)` and a call
// `<...>.RouterAdvertisement(x)`.
func forwardingProvenance(fd *ast.FuncDecl) bool {
	vars := map[string]bool{}
	ok := false
	ast.Inspect(fd.Body, func(n ast.Node) bool {
		switch n := n.(type) {
		case *ast.AssignStmt:
			if len(n.Rhs) == 1 {
				if c, isCall := n.Rhs[0].(*ast.CallExpr); isCall && strings.HasSuffix(exprString(c.Fun), ".IPv6Forwarding") {
					if id, isID := n.Lhs[0].(*ast.Ident); isID {
						vars[id.Name] = true
					}
				}
			}
		case *ast.CallExpr:
			if strings.HasSuffix(exprString(n.Fun), ".RouterAdvertisement") && len(n.Args) == 1 {
				if id, isID := n.Args[0].(*ast.Ident); isID && vars[id.Name] {
					ok = true
				} else {
					ok = false
					return false
				}
			}
		}
		return true
	})
	return ok
}

// ---------------------------------------------------------------------------------------------
// internal/corerad/listener.go

func genListener(repo string) *leanFile {
	l := &leanFile{name: "Listener"}
	fl := load(repo, "internal/corerad/listener.go")
	if fl == nil {
		return l
	}
	fd := fl.fn("listener.receiveRetry")
	if fd != nil {
		lc := localConsts(fd)
		e := env{consts: []map[string]constDecl{lc, fl.consts}, vars: map[string]int64{"i": 1}}
		if c, ok := lc["retries"]; ok {
			v, err := e.eval(c.expr)
			if err != nil {
				failf("listener.go: retries: %v", err)
			}
			l.Nat("retries", v, "receiveRetry: const retries")
		} else {
			failf("listener.go: const retries not found in receiveRetry")
		}
		// back-off unit: argument of time.After with i = 1
		found := false
		ast.Inspect(fd.Body, func(n ast.Node) bool {
			c, ok := n.(*ast.CallExpr)
			if ok && exprString(c.Fun) == "time.After" && len(c.Args) == 1 {
				if v, err := e.eval(c.Args[0]); err == nil {
					l.Int("backoffUnit", v, "receiveRetry: time.After("+exprString(c.Args[0])+") at i = 1")
					found = true
				}
			}
			return true
		})
		if !found {
			failf("listener.go: time.After(<i * unit>) not found in receiveRetry")
		}
		// does the invalid-hop-limit branch consume a retry attempt?  It does iff the
		// `continue` after the hop-limit check is the plain loop `continue` of the counted
		// `for i := 0; i < retries; i++` loop (no decrement / separate loop).
		l.Bool("invalidConsumesAttempt", hopLimitContinueCounts(fd), "receiveRetry: the hop-limit `continue` advances the retry counter")
	}
	if fd := fl.fn("listener.Listen"); fd != nil {
		// order of defers as registered
		var defers []string
		for _, st := range fd.Body.List {
			if ds, ok := st.(*ast.DeferStmt); ok {
				s := exprString(ds.Call.Fun)
				if fl, ok := ds.Call.Fun.(*ast.FuncLit); ok {
					cs := callsIn(fl.Body)
					s = strings.Join(cs, ";")
				}
				defers = append(defers, s)
			}
		}
		l.Strs("listenDefers", defers, "Listen: deferred calls in registration order (they run in reverse)")
		// cancel-before-wait on the error path: either cancel() is deferred AFTER eg.Wait
		// (so it runs first), or cancel() is called explicitly before each return.
		ci, wi := indexOf(defers, "cancel"), indexOf(defers, "eg.Wait")
		// …or one deferred func literal that calls cancel() and then eg.Wait()
		inOne := false
		for _, d := range defers {
			cs := strings.Split(d, ";")
			c, w := indexOf(cs, "cancel"), indexOf(cs, "eg.Wait")
			if c >= 0 && w >= 0 && c < w {
				inOne = true
			}
		}
		l.Bool("cancelBeforeWait", ci >= 0 && wi >= 0 && ci > wi || inOne || listenCancelsInline(fd), "Listen: on return, cancel() runs before eg.Wait()")
	}
	return l
}

func hopLimitContinueCounts(fd *ast.FuncDecl) bool {
	// Find the for statement with Post `i++` whose body contains an if on HopLimit ending
	// in `continue`; check there is no `i--` in that if-body.
	counts := false
	ast.Inspect(fd.Body, func(n ast.Node) bool {
		fs, ok := n.(*ast.ForStmt)
		if !ok || fs.Post == nil {
			return true
		}
		ast.Inspect(fs.Body, func(n ast.Node) bool {
			is, ok := n.(*ast.IfStmt)
			if !ok || !strings.Contains(exprString(is.Cond), "HopLimit") {
				return true
			}
			hasContinue, hasDec := false, false
			ast.Inspect(is.Body, func(n ast.Node) bool {
				switch n := n.(type) {
				case *ast.BranchStmt:
					if n.Tok == token.CONTINUE {
						hasContinue = true
					}
				case *ast.IncDecStmt:
					if n.Tok == token.DEC {
						hasDec = true
					}
				}
				return true
			})
			if hasContinue && !hasDec {
				counts = true
			}
			return true
		})
		return true
	})
	return counts
}

func listenCancelsInline(fd *ast.FuncDecl) bool {
	// every `return` inside the for loop is preceded (in its block) by a call to cancel()
	ok := true
	sawReturn := false
	var visitBlock func(list []ast.Stmt)
	visitBlock = func(list []ast.Stmt) {
		cancelled := false
		for _, st := range list {
			switch s := st.(type) {
			case *ast.ExprStmt:
				if c, isCall := s.X.(*ast.CallExpr); isCall && exprString(c.Fun) == "cancel" {
					cancelled = true
				}
			case *ast.ReturnStmt:
				sawReturn = true
				if !cancelled {
					ok = false
				}
			case *ast.IfStmt:
				visitBlock(s.Body.List)
				if b, isB := s.Else.(*ast.BlockStmt); isB {
					visitBlock(b.List)
				}
			case *ast.ForStmt:
				visitBlock(s.Body.List)
			case *ast.BlockStmt:
				visitBlock(s.List)
			}
		}
	}
	for _, st := range fd.Body.List {
		if fs, isFor := st.(*ast.ForStmt); isFor {
			visitBlock(fs.Body.List)
		}
	}
	return ok && sawReturn
}

// ---------------------------------------------------------------------------------------------
// internal/system/dialer.go

func genDialer(repo string) *leanFile {
	l := &leanFile{name: "Dialer"}
	fl := load(repo, "internal/system/dialer.go")
	if fl == nil {
		return l
	}
	if fd := fl.fn("Dialer.init"); fd != nil {
		lc := localConsts(fd)
		e := env{consts: []map[string]constDecl{lc, fl.consts}, vars: map[string]int64{"i": 0}}
		for _, c := range []string{"attempts", "maxDelay"} {
			d, ok := lc[c]
			if !ok {
				failf("dialer.go: const %s not found in init", c)
				continue
			}
			v, err := e.eval(d.expr)
			if err != nil {
				failf("dialer.go: %s: %v", c, err)
				continue
			}
			l.Int(c, v, "Dialer.init: const "+c)
		}
		// step: `delay = time.Duration(i+1) * 250 * time.Millisecond` evaluated at i = 0
		found := false
		ast.Inspect(fd.Body, func(n ast.Node) bool {
			as, ok := n.(*ast.AssignStmt)
			if ok && as.Tok == token.ASSIGN && len(as.Lhs) == 1 && exprString(as.Lhs[0]) == "delay" {
				if _, isIdent := as.Rhs[0].(*ast.Ident); !isIdent {
					if v, err := e.eval(as.Rhs[0]); err == nil {
						l.Int("step", v, "Dialer.init: delay = "+exprString(as.Rhs[0])+" at i = 0")
						found = true
					}
				}
			}
			return true
		})
		if !found {
			failf("dialer.go: delay step assignment not found in init")
		}
	}
	// dial(): after dialNDP succeeds, is there a return on setAutoconf failure that does not close conn?
	if fd := fl.fn("Dialer.dial"); fd != nil {
		leak := false
		seenDialNDP := false
		ast.Inspect(fd.Body, func(n ast.Node) bool {
			switch n := n.(type) {
			case *ast.CallExpr:
				if exprString(n.Fun) == "dialNDP" {
					seenDialNDP = true
				}
			case *ast.IfStmt:
				if !seenDialNDP {
					return true
				}
				// if restore, err = d.setAutoconf(); err != nil { return nil, err }  or nested
				body := n.Body
				if strings.Contains(exprString(n.Cond), "err != nil") {
					calls := callsIn(body)
					hasRet := false
					for _, st := range body.List {
						if _, ok := st.(*ast.ReturnStmt); ok {
							hasRet = true
						}
					}
					prior := false
					// only consider error checks following a setAutoconf assignment
					ast.Inspect(fd.Body, func(m ast.Node) bool {
						if c, ok := m.(*ast.CallExpr); ok && exprString(c.Fun) == "d.setAutoconf" && c.Pos() < n.Pos() {
							prior = true
						}
						return true
					})
					if prior && hasRet && indexOf(calls, "conn.Close") < 0 {
						leak = true
					}
				}
			}
			return true
		})
		l.Bool("dialLeaksConnOnAutoconfError", leak, "dial(): the setAutoconf error path returns without conn.Close()")
		// done closure order: LeaveGroup, Close, restore
		var doneCalls []string
		ast.Inspect(fd.Body, func(n ast.Node) bool {
			as, ok := n.(*ast.AssignStmt)
			if ok && len(as.Lhs) == 1 && exprString(as.Lhs[0]) == "done" {
				if fl, ok := as.Rhs[0].(*ast.FuncLit); ok {
					for _, c := range callsIn(fl.Body) {
						if c == "conn.LeaveGroup" || c == "conn.Close" || c == "restore" {
							doneCalls = append(doneCalls, c)
						}
					}
				}
			}
			return true
		})
		l.Strs("doneCalls", doneCalls, "dial(): calls made by the done closure, in order")
	}
	// dialNDP: every call it makes, in source order (printed source): the socket set-up the
	// listener's validation relies on (ICMPv6 filter, hop-limit control message, all-routers group)
	if fd := fl.fn("dialNDP"); fd != nil {
		var calls []string
		ast.Inspect(fd.Body, func(n ast.Node) bool {
			if c, ok := n.(*ast.CallExpr); ok {
				name := exprString(c.Fun)
				if strings.HasPrefix(name, "fmt.") || strings.HasPrefix(name, "netip.") {
					return true
				}
				var b strings.Builder
				printer.Fprint(&b, fset, c)
				calls = append(calls, strings.Join(strings.Fields(b.String()), " "))
			}
			return true
		})
		l.Strs("dialNDPCalls", calls, "dialNDP: calls in source order")
	} else {
		failf("dialer.go: dialNDP not found")
	}
	// conn.go checkInterface: the conjuncts of the test that marks an address as the interface's
	// IPv6 link-local address (`foundLL = true`)
	if cf := load(repo, "internal/system/conn.go"); cf != nil {
		if fd := cf.fn("checkInterface"); fd != nil {
			var conj []string
			ast.Inspect(fd.Body, func(n ast.Node) bool {
				is, ok := n.(*ast.IfStmt)
				if !ok {
					return true
				}
				sets := false
				for _, st := range is.Body.List {
					if as, ok := st.(*ast.AssignStmt); ok && len(as.Lhs) == 1 && exprString(as.Lhs[0]) == "foundLL" && exprString(as.Rhs[0]) == "true" {
						sets = true
					}
				}
				if sets {
					var walk func(e ast.Expr)
					walk = func(e ast.Expr) {
						if b, ok := e.(*ast.BinaryExpr); ok && b.Op == token.LAND {
							walk(b.X)
							walk(b.Y)
							return
						}
						conj = append(conj, exprString(e))
					}
					walk(is.Cond)
				}
				return true
			})
			if conj == nil {
				failf("conn.go: the address test of checkInterface (if … { foundLL = true }) was not found")
			}
			l.Strs("checkAddrConjuncts", conj, "checkInterface: conjuncts of the link-local address test")
			l.Bool("checkExcludes4In6", indexOf(conj, "!ip.Is4In6()") >= 0, "checkInterface: the address test requires !ip.Is4In6()")
		} else {
			failf("conn.go: checkInterface not found")
		}
	}
	return l
}

// ---------------------------------------------------------------------------------------------
// internal/corerad/server.go, signals_unix.go

func genServer(repo string) *leanFile {
	l := &leanFile{name: "Server"}
	fl := load(repo, "internal/corerad/server.go")
	if fl == nil {
		return l
	}
	if fd := fl.fn("serve"); fd != nil {
		lc := localConsts(fd)
		e := env{consts: []map[string]constDecl{lc}}
		if c, ok := lc["attempts"]; ok {
			v, _ := e.eval(c.expr)
			l.Nat("serveAttempts", v, "serve: const attempts")
		} else {
			failf("server.go: const attempts not found in serve")
		}
	}
	if fd := fl.fn("signalTask.Run"); fd != nil {
		calls := callsIn(fd.Body)
		si, ni, ci := indexOf(calls, "t.t.set"), indexOf(calls, "t.n.Notify"), indexOf(calls, "t.cancel")
		l.Bool("signalSetBeforeCancel", si >= 0 && ci >= 0 && si < ci, "signalTask.Run: t.t.set(sig) precedes t.cancel()")
		l.Bool("signalNotifyBeforeCancel", ni >= 0 && ci >= 0 && ni < ci, "signalTask.Run: Notify(Stopping) precedes t.cancel()")
	}
	if fd := fl.fn("terminator.set"); fd != nil {
		ok := false
		ast.Inspect(fd.Body, func(n ast.Node) bool {
			if as, isAs := n.(*ast.AssignStmt); isAs && exprString(as.Lhs[0]) == "t.term" && exprString(as.Rhs[0]) == "isTerminal(s)" {
				ok = true
			}
			return true
		})
		l.Bool("termIsIsTerminal", ok, "terminator.set: t.term = isTerminal(s)")
	}
	if fd := fl.fn("Server.Serve"); fd != nil {
		calls := callsIn(fd.Body)
		l.Bool("serveWaitsAll", indexOf(calls, "eg.Wait") >= 0 && indexOf(calls, "wg.Wait") >= 0, "Serve: eg.Wait() for tasks, wg.Wait() before READY")
	}
	// BuildTasks: how every interface task is wired to the link watcher, the dialer and the
	// terminator (argument expressions of the four calls, in source order)
	if fd := fl.fn("Server.BuildTasks"); fd != nil {
		args := map[string][]string{}
		ast.Inspect(fd.Body, func(n ast.Node) bool {
			c, ok := n.(*ast.CallExpr)
			if !ok {
				return true
			}
			name := exprString(c.Fun)
			switch name {
			case "s.w.Subscribe", "NewAdvertiser", "NewMonitor", "system.NewDialer":
				var as []string
				for _, a := range c.Args {
					as = append(as, exprString(a))
				}
				if name == "system.NewDialer" {
					name += ":" + as[len(as)-2]
				}
				args[name] = as
			}
			return true
		})
		for _, k := range []struct{ call, fact string }{
			{"s.w.Subscribe", "subscribeArgs"}, {"NewAdvertiser", "newAdvertiserArgs"}, {"NewMonitor", "newMonitorArgs"},
			{"system.NewDialer:system.Advertise", "advDialerArgs"}, {"system.NewDialer:system.Monitor", "monDialerArgs"}} {
			if args[k.call] == nil {
				failf("server.go: BuildTasks: call %s not found", k.call)
			}
			l.Strs(k.fact, args[k.call], "BuildTasks: arguments of "+k.call)
		}
	}
	sf := load(repo, "internal/corerad/signals_unix.go")
	if sf != nil {
		if fd := sf.fn("isTerminal"); fd != nil {
			s := ""
			for _, st := range fd.Body.List {
				if r, ok := st.(*ast.ReturnStmt); ok && len(r.Results) == 1 {
					s = exprString(r.Results[0])
				}
			}
			l.Str("isTerminalExpr", s, "isTerminal: returned expression")
		}
	}
	return l
}

// ---------------------------------------------------------------------------------------------
// internal/config

func genConfig(repo string) *leanFile {
	l := &leanFile{name: "Config"}
	ifl := load(repo, "internal/config/interface.go")
	pfl := load(repo, "internal/config/plugin.go")
	if ifl == nil || pfl == nil {
		return l
	}
	e := env{}
	if fd := ifl.fn("parseInterface"); fd != nil {
		if v, ok := findAssignInit(ifl, fd, "maxInterval", e); ok {
			l.Int("defaultMaxInterval", v, "parseInterface: maxInterval := …")
		}
		if v, ok := findAssignInit(ifl, fd, "hopLimit", e); ok {
			l.Int("defaultHopLimit", v, "parseInterface: hopLimit := …")
		}
		for _, b := range [][2]string{{"maxInterval", "maxInterval"}, {"reachable", "reachable"}, {"retrans", "retrans"}, {"hopLimit", "hopLimit"}} {
			if lo, hi, ok := findBounds(ifl, fd, b[0], e); ok {
				l.Int(b[1]+"Lo", lo, "parseInterface: "+b[0]+" < lo rejected")
				l.Int(b[1]+"Hi", hi, "parseInterface: "+b[0]+" > hi rejected")
			}
		}
	}
	if fd := pfl.fn("parsePlugins"); fd != nil {
		if lo, hi, ok := findBounds(pfl, fd, "ifi.MTU", e); ok {
			l.Int("mtuLo", lo, "parsePlugins: MTU lower bound")
			l.Int("mtuHi", hi, "parsePlugins: MTU upper bound")
		}
		// order in which plugin kinds are appended to `plugins`
		var order []string
		ast.Inspect(fd.Body, func(n ast.Node) bool {
			as, ok := n.(*ast.AssignStmt)
			if !ok || len(as.Lhs) != 1 || exprString(as.Lhs[0]) != "plugins" {
				return true
			}
			c, ok := as.Rhs[0].(*ast.CallExpr)
			if !ok || exprString(c.Fun) != "append" || len(c.Args) != 2 {
				return true
			}
			order = append(order, exprString(c.Args[1]))
			return true
		})
		l.Strs("pluginAppendOrder", order, "parsePlugins: second argument of each plugins = append(plugins, …), in source order")
	}
	if c, ok := pfl.consts["defaultPREF64Prefix"]; ok {
		s, _ := strconv.Unquote(exprString(c.expr))
		l.Str("defaultPREF64Prefix", s, "plugin.go: const defaultPREF64Prefix")
	} else {
		failf("config/plugin.go: const defaultPREF64Prefix not found")
	}
	return l
}

// ---------------------------------------------------------------------------------------------
// internal/plugin/plugin.go

func genPlugin(repo string) *leanFile {
	l := &leanFile{name: "Plugin"}
	// plugin.go NewPREF64: is the scaled lifetime computed on the duration (3 * maxInterval) rather
	// than on its whole seconds (int(maxInterval.Seconds()) * 3)
	if pf := load(repo, "internal/plugin/plugin.go"); pf != nil {
		if fd := pf.fn("NewPREF64"); fd != nil {
			var b strings.Builder
			printer.Fprint(&b, fset, fd.Body)
			body := strings.ReplaceAll(b.String(), " ", "")
			l.Bool("pref64ScalesDuration", strings.Contains(body, "3*maxInterval") && !strings.Contains(body, "maxInterval.Seconds()"),
				"NewPREF64 scales the duration (3 * maxInterval), not its whole seconds")
		} else {
			failf("plugin.go: NewPREF64 not found")
		}
	}
	// plugin.go (*LLA).Apply: is the option only appended for a 48-bit hardware address
	if pf := load(repo, "internal/plugin/plugin.go"); pf != nil {
		if fd := pf.fn("LLA.Apply"); fd != nil {
			handled := false
			ast.Inspect(fd.Body, func(n ast.Node) bool {
				if is, ok := n.(*ast.IfStmt); ok {
					var b strings.Builder
					printer.Fprint(&b, fset, is.Cond)
					c := strings.ReplaceAll(b.String(), " ", "")
					returnsNil := false
					for _, st := range is.Body.List {
						if r, ok := st.(*ast.ReturnStmt); ok && len(r.Results) == 1 && exprString(r.Results[0]) == "nil" {
							returnsNil = true
						}
					}
					if returnsNil && strings.Contains(c, "len(l.Addr)!=6") {
						handled = true
					}
				}
				return true
			})
			l.Bool("llaRequiresEthernet", handled, "(*LLA).Apply returns without appending the option unless len(l.Addr) == 6")
		} else {
			failf("plugin.go: (*LLA).Apply not found")
		}
	}
	// addresser_linux.go routesByIndex: is a route message without destination attribute and with
	// destination length 0 (the kernel's rendering of a default route) given the destination ::
	// before the invariant check on the destination
	if af := load(repo, "internal/system/addresser_linux.go"); af != nil {
		if fd := af.fn("addresser.routesByIndex"); fd != nil {
			handled := false
			ast.Inspect(fd.Body, func(n ast.Node) bool {
				if is, ok := n.(*ast.IfStmt); ok {
					var b strings.Builder
					printer.Fprint(&b, fset, is.Cond)
					c := b.String()
					if strings.Contains(c, "DstLength == 0") && (strings.Contains(c, "len(") || strings.Contains(c, "== nil")) {
						handled = true
					}
				}
				return true
			})
			l.Bool("routeDefaultWithoutDst", handled, "routesByIndex: a message with no RTA_DST and DstLength 0 is given the destination ::")
		} else {
			failf("addresser_linux.go: routesByIndex not found")
		}
	}
	fl := load(repo, "internal/plugin/plugin.go")
	if fl == nil {
		return l
	}
	e := env{consts: []map[string]constDecl{fl.consts}}
	if c, ok := fl.consts["maxPref64Lifetime"]; ok {
		v, err := e.eval(c.expr)
		if err != nil {
			failf("plugin.go: maxPref64Lifetime: %v", err)
		}
		l.Int("maxPref64Lifetime", v, "plugin.go: const maxPref64Lifetime = "+exprString(c.expr))
	} else {
		failf("plugin.go: const maxPref64Lifetime not found")
	}
	// purity: every Apply/apply method assigns only to ra.Options or to locals
	pure := true
	var offenders []string
	for _, d := range fl.f.Decls {
		fd, ok := d.(*ast.FuncDecl)
		if !ok || fd.Recv == nil || (fd.Name.Name != "Apply" && fd.Name.Name != "apply" && fd.Name.Name != "lifetimes" && fd.Name.Name != "lifetime" && fd.Name.Name != "current") {
			continue
		}
		recvName := ""
		if len(fd.Recv.List[0].Names) > 0 {
			recvName = fd.Recv.List[0].Names[0].Name
		}
		ast.Inspect(fd.Body, func(n ast.Node) bool {
			check := func(lhs ast.Expr) {
				s := exprString(lhs)
				if s == "ra.Options" {
					return
				}
				if _, isID := lhs.(*ast.Ident); isID {
					return // local
				}
				if ix, isIx := lhs.(*ast.IndexExpr); isIx {
					if _, isID := ix.X.(*ast.Ident); isID {
						return // local map/slice element
					}
				}
				if recvName != "" && strings.HasPrefix(s, recvName+".") || strings.HasPrefix(s, "ra.") || strings.HasPrefix(s, "*") {
					pure = false
					offenders = append(offenders, fd.Name.Name+": "+s)
				}
			}
			switch n := n.(type) {
			case *ast.AssignStmt:
				for _, lhs := range n.Lhs {
					check(lhs)
				}
			case *ast.IncDecStmt:
				check(n.X)
			}
			return true
		})
	}
	l.Bool("applyWritesOnlyOptions", pure, "every Apply/apply/lifetimes/current method assigns only to ra.Options or locals; offenders: "+strings.Join(offenders, "; "))

	// betterRDNSS predicate order
	if fd := fl.fn("betterRDNSS"); fd != nil {
		var preds []string
		ast.Inspect(fd.Body, func(n ast.Node) bool {
			cl, ok := n.(*ast.CompositeLit)
			if !ok {
				return true
			}
			for _, el := range cl.Elts {
				s := exprString(el)
				if strings.HasPrefix(s, "(netip.Addr).") {
					preds = append(preds, strings.TrimPrefix(s, "(netip.Addr)."))
				}
			}
			return true
		})
		l.Strs("rdnssRanking", preds, "betterRDNSS: predicate order")
		codes := []string{}
		for _, p := range preds {
			switch p {
			case "IsPrivate":
				codes = append(codes, "0")
			case "IsGlobalUnicast":
				codes = append(codes, "1")
			case "IsLinkLocalUnicast":
				codes = append(codes, "2")
			default:
				codes = append(codes, "99")
			}
		}
		l.lines = append(l.lines, "/-- betterRDNSS: predicate order as codes (0 IsPrivate, 1 IsGlobalUnicast, 2 IsLinkLocalUnicast, 99 other) -/\ndef rdnssRankingCodes : List Nat := ["+strings.Join(codes, ", ")+"]")
	}
	// betterRDNSS / isStable / isEUI64 / (*RDNSS).current: printed decision structure (better.go)
	genBetterRDNSS(l, fl)
	// C17: sources that are nil until Prepare — is the nil func guarded before it is called?
	for _, g := range []struct{ typ, field, name string }{
		{"Prefix", "Addrs", "prefixGuardsNilAddrs"},
		{"Prefix", "TimeNow", "prefixGuardsNilTimeNow"},
		{"Route", "Routes", "routeGuardsNilRoutes"},
		{"Route", "TimeNow", "routeGuardsNilTimeNow"},
		{"RDNSS", "Addrs", "rdnssGuardsNilAddrs"},
	} {
		called, guarded := nilGuard(fl, g.typ, g.field)
		if !called {
			failf("plugin.go: no call of (*%s).%s() found in Apply/current/apply/lifetimes/lifetime", g.typ, g.field)
		}
		l.Bool(g.name, guarded, fmt.Sprintf("plugin.go: every call of (*%s).%s() is preceded (in the same method or in Apply) by an `if` on `%s == nil` that returns", g.typ, g.field, g.field))
	}
	return l
}

// nilGuard reports whether methods Apply/current/apply/lifetimes/lifetime of *typ call the
// func-valued field, and whether every such call is dominated by a nil check: an `if` whose
// condition contains `<recv>.<field> == nil` and whose body returns (and does not panic),
// located either earlier in the calling method or anywhere in (*typ).Apply at top level.
func nilGuard(fl *file, typ, field string) (called, guarded bool) {
	methods := map[string]*ast.FuncDecl{}
	for _, d := range fl.f.Decls {
		fd, ok := d.(*ast.FuncDecl)
		if !ok || fd.Recv == nil || len(fd.Recv.List) != 1 || fd.Body == nil {
			continue
		}
		t := fd.Recv.List[0].Type
		if st, ok := t.(*ast.StarExpr); ok {
			t = st.X
		}
		if id, ok := t.(*ast.Ident); !ok || id.Name != typ {
			continue
		}
		switch fd.Name.Name {
		case "Apply", "current", "apply", "lifetimes", "lifetime":
			methods[fd.Name.Name] = fd
		}
	}
	// positions of guards per method
	guardsIn := func(fd *ast.FuncDecl, topLevelOnly bool) []token.Pos {
		var out []token.Pos
		if fd == nil || len(fd.Recv.List[0].Names) == 0 {
			return out
		}
		want := fd.Recv.List[0].Names[0].Name + "." + field + " == nil"
		visit := func(is *ast.IfStmt) {
			hit := false
			ast.Inspect(is.Cond, func(n ast.Node) bool {
				if be, ok := n.(*ast.BinaryExpr); ok && exprString(be) == want {
					hit = true
				}
				return true
			})
			if !hit {
				return
			}
			returns, panics := false, false
			ast.Inspect(is.Body, func(n ast.Node) bool {
				switch n := n.(type) {
				case *ast.ReturnStmt:
					returns = true
				case *ast.CallExpr:
					if exprString(n.Fun) == "panic" || exprString(n.Fun) == "panicf" {
						panics = true
					}
				}
				return true
			})
			if returns && !panics {
				out = append(out, is.Pos())
			}
		}
		if topLevelOnly {
			for _, st := range fd.Body.List {
				if is, ok := st.(*ast.IfStmt); ok {
					visit(is)
				}
			}
			return out
		}
		ast.Inspect(fd.Body, func(n ast.Node) bool {
			if is, ok := n.(*ast.IfStmt); ok {
				visit(is)
			}
			return true
		})
		return out
	}
	applyGuards := guardsIn(methods["Apply"], true)
	guarded = true
	for name, fd := range methods {
		if len(fd.Recv.List[0].Names) == 0 {
			continue
		}
		callee := fd.Recv.List[0].Names[0].Name + "." + field
		local := guardsIn(fd, false)
		ast.Inspect(fd.Body, func(n ast.Node) bool {
			c, ok := n.(*ast.CallExpr)
			if !ok || exprString(c.Fun) != callee {
				return true
			}
			called = true
			ok2 := false
			for _, g := range local {
				if g < c.Pos() {
					ok2 = true
				}
			}
			if name != "Apply" && len(applyGuards) > 0 {
				ok2 = true
			}
			if !ok2 {
				guarded = false
			}
			return true
		})
	}
	if !called {
		guarded = false
	}
	return called, guarded
}

// ---------------------------------------------------------------------------------------------
// internal/netstate

func genNetstate(repo string) *leanFile {
	l := &leanFile{name: "Netstate"}
	wf := load(repo, "internal/netstate/watcher.go")
	cf := load(repo, "internal/netstate/change.go")
	if wf == nil || cf == nil {
		return l
	}
	e := env{consts: []map[string]constDecl{cf.consts}}
	for _, c := range []string{"LinkUp", "LinkDown", "LinkTesting", "LinkUnknown", "LinkDormant", "LinkNotPresent", "LinkLowerLayerDown", "LinkAny"} {
		d, ok := cf.consts[c]
		if !ok {
			failf("change.go: const %s not found", c)
			continue
		}
		e2 := e
		e2.iota = d.iota
		v, err := e2.eval(d.expr)
		if err != nil {
			failf("change.go: %s: %v", c, err)
			continue
		}
		l.Nat(strings.ToLower(c[:1])+c[1:], v, "change.go: "+c)
	}
	if fd := wf.fn("Watcher.Subscribe"); fd != nil {
		found := false
		ast.Inspect(fd.Body, func(n ast.Node) bool {
			c, ok := n.(*ast.CallExpr)
			if ok && exprString(c.Fun) == "make" && len(c.Args) == 2 {
				if _, isChan := c.Args[0].(*ast.ChanType); isChan {
					if v, err := e.eval(c.Args[1]); err == nil {
						l.Nat("subscriberBuf", v, "Subscribe: make(chan Change, N)")
						found = true
					}
				}
			}
			return true
		})
		if !found {
			failf("watcher.go: make(chan Change, N) not found in Subscribe")
		}
	}
	if fd := wf.fn("Watcher.notify"); fd != nil {
		// every send statement is a CommClause of a select that has a default clause
		allGuarded, sends := true, 0
		var walk func(n ast.Node, guarded bool)
		walk = func(n ast.Node, guarded bool) {
			ast.Inspect(n, func(m ast.Node) bool {
				switch m := m.(type) {
				case *ast.SelectStmt:
					hasDefault := false
					for _, cc := range m.Body.List {
						if cc.(*ast.CommClause).Comm == nil {
							hasDefault = true
						}
					}
					for _, cc := range m.Body.List {
						c := cc.(*ast.CommClause)
						if _, isSend := c.Comm.(*ast.SendStmt); isSend {
							sends++
							if !hasDefault {
								allGuarded = false
							}
						}
						for _, st := range c.Body {
							walk(st, false)
						}
					}
					return false
				case *ast.SendStmt:
					sends++
					allGuarded = false
				}
				return true
			})
		}
		walk(fd.Body, false)
		l.Bool("notifySendHasDefault", allGuarded && sends > 0, "notify: every channel send is a case of a select with a default clause")
		// mask test
		maskTest := ""
		ast.Inspect(fd.Body, func(n ast.Node) bool {
			if is, ok := n.(*ast.IfStmt); ok {
				s := exprString(is.Cond)
				if strings.Contains(s, "change") && strings.Contains(s, "k") {
					maskTest = s
				}
			}
			return true
		})
		l.Str("notifyMaskTest", maskTest, "notify: condition under which a subscription bucket is skipped")
	}
	// notify must not re-acquire w.mu (directly or through another method of the Watcher) while it
	// holds its read lock: a recursive RLock deadlocks as soon as a Subscribe (writer) is pending.
	{
		locking := map[string]bool{}
		for _, d := range wf.f.Decls {
			fd, ok := d.(*ast.FuncDecl)
			if !ok || fd.Recv == nil || fd.Body == nil {
				continue
			}
			for _, c := range callsIn(fd.Body) {
				if c == "w.mu.Lock" || c == "w.mu.RLock" {
					locking[fd.Name.Name] = true
				}
			}
		}
		nested := false
		if fd := wf.fn("Watcher.notify"); fd != nil {
			n := 0
			for _, c := range callsIn(fd.Body) {
				if c == "w.mu.Lock" || c == "w.mu.RLock" {
					n++
				}
				if strings.HasPrefix(c, "w.") && strings.Count(c, ".") == 1 && locking[strings.TrimPrefix(c, "w.")] {
					nested = true
				}
			}
			if n > 1 {
				nested = true
			}
		}
		l.Bool("notifyNestedLock", nested, "notify acquires w.mu more than once on a path (itself or through a locking Watcher method)")
	}
	if fd := wf.fn("Watcher.Watch"); fd != nil {
		// close(ch) inside a deferred func that takes w.mu.Lock
		ok := false
		for _, st := range fd.Body.List {
			if ds, isDefer := st.(*ast.DeferStmt); isDefer {
				if fl, isLit := ds.Call.Fun.(*ast.FuncLit); isLit {
					cs := callsIn(fl.Body)
					if indexOf(cs, "w.mu.Lock") >= 0 && indexOf(cs, "close") >= 0 {
						ok = true
					}
				}
			}
		}
		l.Bool("closeUnderLockInDefer", ok, "Watch: channels are closed in a deferred func holding w.mu")
	}
	return l
}

// ---------------------------------------------------------------------------------------------
// metrics.go, crhttp

func genMetrics(repo string) *leanFile {
	l := &leanFile{name: "Metrics"}
	mf := load(repo, "internal/corerad/metrics.go")
	hf := load(repo, "internal/crhttp/handler.go")
	rf := load(repo, "internal/crhttp/ra.go")
	if mf == nil || hf == nil || rf == nil {
		return l
	}
	if fd := mf.fn("Metrics.constScrape"); fd != nil {
		l.Bool("scrapeReadsForwarding", forwardingProvenance(fd), "constScrape passes the result of state.IPv6Forwarding to RouterAdvertisement")
	}
	if fd := hf.fn("Handler.interfaces"); fd != nil {
		l.Bool("apiReadsForwarding", forwardingProvenance(fd), "Handler.interfaces passes the result of state.IPv6Forwarding to RouterAdvertisement")
	}
	// option kinds covered by packOptions
	if fd := rf.fn("packOptions"); fd != nil {
		var kinds []string
		ast.Inspect(fd.Body, func(n ast.Node) bool {
			cc, ok := n.(*ast.CaseClause)
			if !ok {
				return true
			}
			for _, t := range cc.List {
				s := exprString(t)
				if strings.HasPrefix(s, "*ndp.") {
					kinds = append(kinds, strings.TrimPrefix(s, "*ndp."))
				}
			}
			return true
		})
		sort.Strings(kinds)
		l.Strs("packOptionKinds", kinds, "packOptions: option types handled by the type switch (sorted)")
	}
	// option kinds collectMetrics picks out of the advertisement (`pick[*ndp.X](…)`) and reports
	if fd := mf.fn("collectMetrics"); fd != nil {
		set := map[string]bool{}
		picked := map[string]string{} // local variable -> kind
		ast.Inspect(fd.Body, func(n ast.Node) bool {
			as, ok := n.(*ast.AssignStmt)
			if !ok || len(as.Lhs) != 1 || len(as.Rhs) != 1 {
				return true
			}
			c, ok := as.Rhs[0].(*ast.CallExpr)
			if !ok {
				return true
			}
			ix, ok := c.Fun.(*ast.IndexExpr)
			if !ok || exprString(ix.X) != "pick" {
				return true
			}
			picked[exprString(as.Lhs[0])] = strings.TrimPrefix(exprString(ix.Index), "*ndp.")
			return true
		})
		// a kind counts only if its picked slice is ranged over inside the metrics switch
		ast.Inspect(fd.Body, func(n ast.Node) bool {
			rs, ok := n.(*ast.RangeStmt)
			if !ok {
				return true
			}
			if k, ok := picked[exprString(rs.X)]; ok {
				set[k] = true
			}
			return true
		})
		var kinds []string
		for k := range set {
			kinds = append(kinds, k)
		}
		sort.Strings(kinds)
		l.Strs("collectPickKinds", kinds, "collectMetrics: option types picked out of the advertisement and ranged over (sorted)")
	}
	// all call sites of RouterAdvertisement( in non-test sources
	var sites []string
	_ = filepath.Walk(filepath.Join(repo), func(p string, info os.FileInfo, err error) error {
		if err != nil || info.IsDir() || !strings.HasSuffix(p, ".go") || strings.HasSuffix(p, "_test.go") {
			return nil
		}
		if strings.Contains(p, "/.git/") {
			return nil
		}
		f, perr := parser.ParseFile(fset, p, nil, 0)
		if perr != nil {
			return nil
		}
		for _, d := range f.Decls {
			fd, ok := d.(*ast.FuncDecl)
			if !ok || fd.Body == nil {
				continue
			}
			for _, c := range callsIn(fd.Body) {
				if strings.HasSuffix(c, ".RouterAdvertisement") {
					rel, _ := filepath.Rel(repo, p)
					sites = append(sites, rel+":"+fd.Name.Name)
				}
			}
		}
		return nil
	})
	sort.Strings(sites)
	l.Strs("raCallSites", sites, "every non-test function calling <x>.RouterAdvertisement(…)")
	// handler gating
	if fd := hf.fn("NewHandler"); fd != nil {
		gates := map[string]string{}
		ast.Inspect(fd.Body, func(n ast.Node) bool {
			is, ok := n.(*ast.IfStmt)
			if !ok {
				return true
			}
			cond := exprString(is.Cond)
			ast.Inspect(is.Body, func(m ast.Node) bool {
				if c, ok := m.(*ast.CallExpr); ok && (exprString(c.Fun) == "mux.Handle" || exprString(c.Fun) == "mux.HandleFunc") && len(c.Args) > 0 {
					p, _ := strconv.Unquote(exprString(c.Args[0]))
					gates[p] = cond
				}
				return true
			})
			return true
		})
		l.Bool("metricsGated", gates["/metrics"] == "cfg.Debug.Prometheus", "NewHandler: /metrics registered only under cfg.Debug.Prometheus")
		l.Bool("pprofGated", gates["/debug/pprof/"] == "cfg.Debug.PProf", "NewHandler: /debug/pprof/ registered only under cfg.Debug.PProf")
	}
	return l
}

// ---------------------------------------------------------------------------------------------
// cmd/corerad/main.go: how the pieces are wired together

func genMain(repo string) *leanFile {
	l := &leanFile{name: "Main"}
	mf := load(repo, "cmd/corerad/main.go")
	sf := load(repo, "internal/corerad/signals_unix.go")
	if mf == nil || sf == nil {
		return l
	}
	fd := mf.fn("main")
	if fd == nil {
		return l
	}
	var calls []*ast.CallExpr
	ast.Inspect(fd.Body, func(n ast.Node) bool {
		if c, ok := n.(*ast.CallExpr); ok {
			calls = append(calls, c)
		}
		return true
	})
	find := func(name string) *ast.CallExpr {
		for _, c := range calls {
			if exprString(c.Fun) == name {
				return c
			}
		}
		return nil
	}
	arg := func(c *ast.CallExpr, i int) string {
		if c == nil || i >= len(c.Args) {
			return ""
		}
		return exprString(c.Args[i])
	}
	// the epoch handed to the parser is the start-up instant (never the zero time)
	l.Bool("epochIsStartTime", arg(find("config.Parse"), 1) == "time.Now()", "main: config.Parse(f, time.Now())")
	// metrics go through a pedantic Prometheus registry, the one the HTTP handler serves
	regVar := ""
	ast.Inspect(fd.Body, func(n ast.Node) bool {
		if as, ok := n.(*ast.AssignStmt); ok && len(as.Lhs) == 1 && len(as.Rhs) == 1 {
			if c, ok := as.Rhs[0].(*ast.CallExpr); ok && exprString(c.Fun) == "prometheus.NewPedanticRegistry" {
				regVar = exprString(as.Lhs[0])
			}
		}
		return true
	})
	l.Bool("pedanticRegistry", regVar != "" && arg(find("metricslite.NewPrometheus"), 0) == regVar && arg(find("promhttp.HandlerFor"), 0) == regVar,
		"main: one prometheus.NewPedanticRegistry() feeds metricslite.NewPrometheus and promhttp.HandlerFor")
	// metrics and the debug handler read the same State and the same interfaces
	nm, nh := find("corerad.NewMetrics"), find("crhttp.NewHandler")
	l.Bool("sameStateAndConfig", nm != nil && nh != nil && arg(nm, 3) == arg(nh, 1) && arg(nm, 4) == "cfg.Interfaces" && arg(nh, 2) == "*cfg",
		"main: NewMetrics(…, state, cfg.Interfaces) and NewHandler(ll, state, *cfg, …) share state and configuration")
	// Serve runs exactly the tasks BuildTasks derives from the parsed configuration
	sv := find("s.Serve")
	l.Bool("serveRunsBuildTasks", sv != nil && strings.HasPrefix(arg(sv, 2), "s.BuildTasks(*cfg"), "main: s.Serve(sigC, n, s.BuildTasks(*cfg, h))")
	l.Bool("signalsFromSignals", arg(find("signal.Notify"), 1) == "corerad.Signals()", "main: signal.Notify(sigC, corerad.Signals()...)")
	// the signal channel handed to signal.Notify is buffered (package signal does not block
	// sending: an unbuffered channel loses a signal that arrives while nobody receives) and is
	// the one Serve reads
	{
		capacity, chVar := int64(-1), ""
		ast.Inspect(fd.Body, func(n ast.Node) bool {
			as, ok := n.(*ast.AssignStmt)
			if !ok || len(as.Lhs) != 1 || len(as.Rhs) != 1 {
				return true
			}
			c, ok := as.Rhs[0].(*ast.CallExpr)
			if !ok || exprString(c.Fun) != "make" || len(c.Args) == 0 {
				return true
			}
			if ct, ok := c.Args[0].(*ast.ChanType); ok && exprString(ct.Value) == "os.Signal" {
				chVar = exprString(as.Lhs[0])
				capacity = 0
				if len(c.Args) == 2 {
					if bl, ok := c.Args[1].(*ast.BasicLit); ok {
						if v, err := strconv.ParseInt(bl.Value, 0, 64); err == nil {
							capacity = v
						}
					}
				}
			}
			return true
		})
		l.Bool("signalChanBuffered", capacity >= 1 && chVar != "" && arg(find("signal.Notify"), 0) == chVar && arg(sv, 0) == chVar,
			"main: sigC := make(chan os.Signal, n ≥ 1) is passed to signal.Notify and to s.Serve")
	}
	if fd := sf.fn("Signals"); fd != nil {
		var sigs []string
		ast.Inspect(fd.Body, func(n ast.Node) bool {
			if cl, ok := n.(*ast.CompositeLit); ok {
				for _, e := range cl.Elts {
					sigs = append(sigs, exprString(e))
				}
			}
			return true
		})
		l.Strs("signals", sigs, "Signals(): the signals which stop the server")
	}
	return l
}
