// translate_handle.go — Go→Lean translation of the DECISION made by (*Advertiser).handle
// (internal/corerad/advertise.go) for one delivered NDP message: which counters it touches, whether
// it builds the own RA and compares, and what it answers.
//
//   C07: "a valid router solicitation is answered by one unicast RA to its source; a solicitation from
//         the unspecified address becomes a multicast request"
//   C09: "on an advertising interface every other NDP message type is counted invalid and ignored"
//   C12: "an inconsistent RA of another router is reported (log, counter per problem, hook)"
//
// Re-translated from the current source text on every extractor run into
// Corerad.Gen.Trans.Advertiser_handle; Props/TransC07.lean proves it equal to the model's
// classification (Model.classify / Model.requestOf for a message that passed the listener).
//
// # Subset (anything else is reported as unsupported)
//
// The method body must be, in this order:
//
//	a.cctx.mm.AdvMessagesReceivedTotal(…)                 received := true
//	switch m := m.(type) { … }                            one clause per kind, see below
//	return netip.Addr{}, nil                              respond := 0 (no response)
//
// The type switch has exactly the clauses `case *ndp.RouterSolicitation` (kind 0),
// `case *ndp.RouterAdvertisement` (kind 1) and `default` (every other kind); the generated
// definition dispatches on `kind` (0, 1, anything else).  Clause bodies are sequences of:
//
//	a.debugf(…) / a.logf(…)                               skipped (logging)
//	if host.IsUnspecified() { host = netip.IPv6LinkLocalAllNodes() }
//	                                                      dest := if host_IsUnspecified then 2 else dest   (dest starts as 1 = the sender)
//	return host, nil                                      respond := dest
//	want, err := a.buildRA(a.cfg)                         built := true, followed by exactly
//	if err != nil { return netip.Addr{}, fmt.Errorf(…) }      if buildRA_fails then fails := true (and nothing further)
//	problems := verifyRAs(want, m)                        verified := true
//	if len(problems) == 0 { break }                       if problems_empty then leave the switch
//	for … range problems { … }                            reports := true, provided the body calls
//	                                                      a.cctx.mm.AdvRouterAdvertisementInconsistenciesTotal exactly once
//	                                                      and otherwise only declares / assigns locals and logs
//	if a.OnInconsistentRA != nil { a.OnInconsistentRA(want, m) }    hook := true
//	a.cctx.mm.MessagesReceivedInvalidTotal(…)             invalid := true
//
// Result: the record `HandleOut` (Corerad.Model.HandleOut) with the fields above.
//
// Trusted: the metrics methods, buildRA and verifyRAs have no effect on the decision other than
// through the two Boolean parameters; go/parser's AST is the program.
package main

import (
	"fmt"
	"go/ast"
	"go/token"
	"strings"
)

type hTr struct {
	p    *pkg
	fd   *ast.FuncDecl
	fn   string
	recv string
	host string
	msg  string
}

func (t *hTr) fail(n ast.Node, what string) {
	at := ""
	if n != nil && n.Pos().IsValid() {
		at = fmt.Sprintf(" at %s:%d", t.p.fileOf[t.fd], fset.Position(n.Pos()).Line)
	}
	panic(trErr{"translate: " + t.fn + ": unsupported " + what + at})
}

type hState struct {
	dest      string // Lean term: 1, 2 or an if
	built     bool
	verified  bool
	reports   bool
	hook      bool
	invalid   bool
	afterFail bool
}

func (s hState) out(respond string, fails string) string {
	b := func(x bool) string {
		if x {
			return "true"
		}
		return "false"
	}
	return "{ received := true, respond := " + respond + ", fails := " + fails + ", built := " + b(s.built) + ", verified := " + b(s.verified) +
		", reports := " + b(s.reports) + ", hook := " + b(s.hook) + ", invalid := " + b(s.invalid) + " }"
}

func (t *hTr) isCall(s ast.Stmt, name string) bool {
	es, ok := s.(*ast.ExprStmt)
	if !ok {
		return false
	}
	c, ok := es.X.(*ast.CallExpr)
	return ok && exprString(c.Fun) == name
}

// clause: the Lean term for a clause body; tail is the term for "leave the switch"
func (t *hTr) clause(list []ast.Stmt, st hState, ind string, tail func(hState) string) string {
	if len(list) == 0 {
		return ind + tail(st)
	}
	s, rest := list[0], list[1:]
	switch {
	case t.isCall(s, t.recv+".debugf"), t.isCall(s, t.recv+".logf"):
		return t.clause(rest, st, ind, tail)
	case t.isCall(s, t.recv+".cctx.mm.MessagesReceivedInvalidTotal"):
		st.invalid = true
		return t.clause(rest, st, ind, tail)
	}
	switch x := s.(type) {
	case *ast.IfStmt:
		if x.Init != nil || x.Else != nil {
			t.fail(x, "if with init / else in handle")
		}
		cond := exprString(x.Cond)
		switch {
		case cond == t.host+".IsUnspecified()":
			if len(x.Body.List) != 1 || stmtString(x.Body.List[0]) != t.host+" = netip.IPv6LinkLocalAllNodes()" {
				t.fail(x, "body of the unspecified-source test (expected `"+t.host+" = netip.IPv6LinkLocalAllNodes()`)")
			}
			st.dest = "(if host_IsUnspecified = true then 2 else " + st.dest + ")"
			return t.clause(rest, st, ind, tail)
		case cond == "len(problems) == 0":
			if !st.verified || len(x.Body.List) != 1 {
				t.fail(x, "consistency test")
			}
			br, ok := x.Body.List[0].(*ast.BranchStmt)
			if !ok || br.Tok != token.BREAK || br.Label != nil {
				t.fail(x, "consistency test (expected `break`)")
			}
			return ind + "if problems_empty = true then\n" + ind + "  " + tail(st) + "\n" + ind + "else\n" + t.clause(rest, st, ind+"  ", tail)
		case cond == t.recv+".OnInconsistentRA != nil":
			if len(x.Body.List) != 1 || !t.isCall(x.Body.List[0], t.recv+".OnInconsistentRA") {
				t.fail(x, "hook invocation")
			}
			st.hook = true
			return t.clause(rest, st, ind, tail)
		}
		t.fail(x, "condition "+cond+" in handle")
	case *ast.ReturnStmt:
		if len(x.Results) == 2 && exprString(x.Results[0]) == t.host && exprString(x.Results[1]) == "nil" {
			if len(rest) != 0 {
				t.fail(x, "statements after return")
			}
			return ind + st.out(st.dest, "false")
		}
		t.fail(x, "return "+stmtString(x))
	case *ast.AssignStmt:
		src := stmtString(x)
		switch src {
		case "want, err := " + t.recv + ".buildRA(" + t.recv + ".cfg)":
			if len(rest) == 0 {
				t.fail(x, "buildRA without an error test")
			}
			is, ok := rest[0].(*ast.IfStmt)
			if !ok || is.Init != nil || is.Else != nil || exprString(is.Cond) != "err != nil" || len(is.Body.List) != 1 {
				t.fail(rest[0], "error test after buildRA")
			}
			r, ok := is.Body.List[0].(*ast.ReturnStmt)
			if !ok || len(r.Results) != 2 || !emptyLit(r.Results[0], "netip.Addr") || !isErrorExpr(r.Results[1]) {
				t.fail(is, "error return after buildRA (expected `return netip.Addr{}, fmt.Errorf(…)`)")
			}
			st.built = true
			return ind + "if buildRA_fails = true then\n" + ind + "  " + st.out("0", "true") + "\n" + ind + "else\n" + t.clause(rest[1:], st, ind+"  ", tail)
		case "problems := verifyRAs(want, " + t.msg + ")":
			if !st.built {
				t.fail(x, "verifyRAs before buildRA")
			}
			st.verified = true
			return t.clause(rest, st, ind, tail)
		}
		t.fail(x, "assignment "+src+" in handle")
	case *ast.RangeStmt:
		if exprString(x.X) != "problems" || !st.verified {
			t.fail(x, "range over "+exprString(x.X))
		}
		n := 0
		for _, b := range x.Body.List {
			switch {
			case t.isCall(b, t.recv+".cctx.mm.AdvRouterAdvertisementInconsistenciesTotal"):
				n++
			case t.isCall(b, t.recv+".logf"), t.isCall(b, t.recv+".debugf"):
			default:
				switch y := b.(type) {
				case *ast.DeclStmt:
				case *ast.IfStmt:
					// only local bookkeeping for the log line
					ast.Inspect(y, func(nn ast.Node) bool {
						if c, ok := nn.(*ast.CallExpr); ok && exprString(c.Fun) != "fmt.Sprintf" {
							t.fail(c, "call "+exprString(c.Fun)+" in the report loop")
						}
						return true
					})
				default:
					t.fail(b, fmt.Sprintf("statement %T in the report loop", b))
				}
			}
		}
		if n != 1 {
			t.fail(x, fmt.Sprintf("%d inconsistency counter calls in the report loop (exactly one expected)", n))
		}
		st.reports = true
		return t.clause(rest, st, ind, tail)
	}
	t.fail(s, fmt.Sprintf("statement %T (%s) in handle", s, stmtString(s)))
	return ""
}

// emptyLit: the composite literal T{} without elements
func emptyLit(e ast.Expr, typ string) bool {
	cl, ok := e.(*ast.CompositeLit)
	return ok && len(cl.Elts) == 0 && exprString(cl.Type) == typ
}

func translateHandle(p *pkg) (def leanDef, err error) {
	defer func() {
		if r := recover(); r != nil {
			if te, ok := r.(trErr); ok {
				err = fmt.Errorf("%s", te.msg)
				return
			}
			panic(r)
		}
	}()
	t := &hTr{p: p, fn: "Advertiser.handle"}
	fd, ok := p.funcs[t.fn]
	if !ok {
		return def, fmt.Errorf("translate: %s: function not found in %s", t.fn, p.dir)
	}
	t.fd = fd
	if fd.Recv == nil || len(fd.Recv.List) != 1 || len(fd.Recv.List[0].Names) != 1 {
		t.fail(fd, "receiver")
	}
	t.recv = fd.Recv.List[0].Names[0].Name
	var names, types []string
	for _, f := range fd.Type.Params.List {
		for _, n := range f.Names {
			names = append(names, n.Name)
			types = append(types, exprString(f.Type))
		}
	}
	if len(names) != 2 || types[0] != "ndp.Message" || types[1] != "netip.Addr" {
		t.fail(fd, "signature (expected (m ndp.Message, host netip.Addr))")
	}
	t.msg, t.host = names[0], names[1]
	if fd.Type.Results == nil || len(fd.Type.Results.List) != 2 || exprString(fd.Type.Results.List[0].Type) != "netip.Addr" || exprString(fd.Type.Results.List[1].Type) != "error" {
		t.fail(fd, "results (expected (netip.Addr, error))")
	}
	body := fd.Body.List
	if len(body) != 3 {
		t.fail(fd, fmt.Sprintf("body of %d statements (expected: received counter, type switch, final return)", len(body)))
	}
	if !t.isCall(body[0], t.recv+".cctx.mm.AdvMessagesReceivedTotal") {
		t.fail(body[0], "first statement (expected the received counter)")
	}
	ts, ok := body[1].(*ast.TypeSwitchStmt)
	if !ok || ts.Init != nil {
		t.fail(body[1], "second statement (expected the type switch)")
	}
	{
		as, ok := ts.Assign.(*ast.AssignStmt)
		if !ok || as.Tok != token.DEFINE || len(as.Lhs) != 1 || len(as.Rhs) != 1 || exprString(as.Lhs[0]) != t.msg {
			t.fail(ts, "type switch header (expected `"+t.msg+" := "+t.msg+".(type)`)")
		}
		ta, ok := as.Rhs[0].(*ast.TypeAssertExpr)
		if !ok || ta.Type != nil || exprString(ta.X) != t.msg {
			t.fail(ts, "type switch header (expected `"+t.msg+" := "+t.msg+".(type)`)")
		}
	}
	fin, ok := body[2].(*ast.ReturnStmt)
	if !ok || len(fin.Results) != 2 || !emptyLit(fin.Results[0], "netip.Addr") || exprString(fin.Results[1]) != "nil" {
		t.fail(body[2], "final statement (expected `return netip.Addr{}, nil`)")
	}
	tail := func(st hState) string { return st.out("0", "false") }
	clauses := map[string]string{}
	for _, c := range ts.Body.List {
		cc := c.(*ast.CaseClause)
		key := "default"
		if cc.List != nil {
			if len(cc.List) != 1 {
				t.fail(cc, "case with several types")
			}
			key = exprString(cc.List[0])
		}
		if _, dup := clauses[key]; dup {
			t.fail(cc, "duplicate clause "+key)
		}
		clauses[key] = t.clause(cc.Body, hState{dest: "1"}, "    ", tail)
	}
	for _, k := range []string{"*ndp.RouterSolicitation", "*ndp.RouterAdvertisement", "default"} {
		if _, ok := clauses[k]; !ok {
			t.fail(ts, "type switch without the clause "+k)
		}
	}
	if len(clauses) != 3 {
		t.fail(ts, fmt.Sprintf("type switch with %d clauses (expected RouterSolicitation, RouterAdvertisement, default)", len(clauses)))
	}
	var sb strings.Builder
	sb.WriteString("/-- " + p.fileOf[fd] + ": the decision of func " + docSafe(funcSig(fd)) + "\n")
	sb.WriteString("    kind : 0 = *ndp.RouterSolicitation, 1 = *ndp.RouterAdvertisement, anything else = the default clause\n")
	sb.WriteString("    host_IsUnspecified : host.IsUnspecified();  buildRA_fails : a.buildRA returned an error;  problems_empty : len(verifyRAs(want, m)) == 0\n")
	sb.WriteString("    respond : 0 = netip.Addr{} (no response), 1 = the sender, 2 = netip.IPv6LinkLocalAllNodes() -/\n")
	sb.WriteString("def Advertiser_handle (kind : Nat) (host_IsUnspecified buildRA_fails problems_empty : Bool) : Corerad.Model.HandleOut :=\n")
	sb.WriteString("  if kind = 0 then\n" + clauses["*ndp.RouterSolicitation"] + "\n  else if kind = 1 then\n" + clauses["*ndp.RouterAdvertisement"] + "\n  else\n" + clauses["default"])
	return leanDef{"Advertiser_handle", sb.String()}, nil
}
