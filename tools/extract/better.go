// better.go — regenerated facts about the decision structure of betterRDNSS / isStable / isEUI64 /
// (*RDNSS).current in internal/plugin/plugin.go (property C14), appended to Gen/Plugin.lean.
// The functions betterRDNSS and isStable are also TRANSLATED (translate.go, Gen/Trans.lean,
// Props/TransC14.lean); these facts pin, in printed form, what the translation abstracts
// (isEUI64, the fold in current()) and give a readable account of the order of the comparisons.
package main

import (
	"go/ast"
	"go/token"
)

// orTerms flattens a left-nested a || b || c.
func orTerms(e ast.Expr, out *[]string) {
	if be, ok := e.(*ast.BinaryExpr); ok && be.Op == token.LOR {
		orTerms(be.X, out)
		orTerms(be.Y, out)
		return
	}
	if p, ok := e.(*ast.ParenExpr); ok {
		orTerms(p.X, out)
		return
	}
	*out = append(*out, nodeText(e))
}

func genBetterRDNSS(l *leanFile, fl *file) {
	const rel = "internal/plugin/plugin.go"
	if fd := fl.fn("betterRDNSS"); fd != nil {
		var sig []string
		for _, f := range fd.Type.Params.List {
			for _, n := range f.Names {
				sig = append(sig, n.Name+" "+nodeText(f.Type))
			}
		}
		l.Strs("betterParams", sig, "betterRDNSS: parameters in order")
		// the statements before / inside / after the one `for … range` loop at the top level
		loopAt := -1
		for i, st := range fd.Body.List {
			if _, ok := st.(*ast.RangeStmt); ok {
				if loopAt >= 0 {
					failf("%s: betterRDNSS has more than one top-level range loop", rel)
				}
				loopAt = i
			}
		}
		if loopAt < 0 {
			failf("%s: betterRDNSS has no top-level `for … range` loop over the address-class predicates", rel)
		} else {
			rs := fd.Body.List[loopAt].(*ast.RangeStmt)
			var before, body, after []string
			skeleton(fd.Body.List[:loopAt], 0, &before)
			skeleton(rs.Body.List, 0, &body)
			skeleton(fd.Body.List[loopAt+1:], 0, &after)
			hdr := "for "
			if rs.Key != nil {
				hdr += nodeText(rs.Key)
				if rs.Value != nil {
					hdr += ", " + nodeText(rs.Value)
				}
				hdr += " " + rs.Tok.String() + " "
			}
			elem := ""
			var elems []string
			if cl, ok := rs.X.(*ast.CompositeLit); ok {
				elem = nodeText(cl.Type)
				for _, el := range cl.Elts {
					elems = append(elems, nodeText(el))
				}
			} else {
				failf("%s: betterRDNSS ranges over %s, not over a slice literal", rel, nodeText(rs.X))
			}
			l.Strs("betterBeforeLoop", before, "betterRDNSS: statements before the loop over the address classes (pre-order, depth = leading \". \")")
			l.Str("betterLoopHeader", hdr+"range "+elem, "betterRDNSS: the loop header without the elements of the slice literal")
			l.Strs("betterLoopElems", elems, "betterRDNSS: the elements of the ranged slice literal, in order")
			l.Strs("betterLoopBody", body, "betterRDNSS: body of the loop over the address classes")
			l.Strs("betterAfterLoop", after, "betterRDNSS: statements after the loop (no class matched)")
		}
	}
	if fd := fl.fn("isStable"); fd != nil {
		var terms []string
		if len(fd.Body.List) == 1 {
			if rs, ok := fd.Body.List[0].(*ast.ReturnStmt); ok && len(rs.Results) == 1 {
				orTerms(rs.Results[0], &terms)
			}
		}
		if terms == nil {
			failf("%s: isStable is not a single `return a || b || …`", rel)
		}
		l.Strs("isStableTerms", terms, "isStable: the operands of the returned disjunction, in order")
	}
	if fd := fl.fn("isEUI64"); fd != nil {
		var sk []string
		skeleton(fd.Body.List, 0, &sk)
		l.Strs("isEUI64Body", sk, "isEUI64: statements")
	}
	if fd := fl.fn("RDNSS.current"); fd != nil {
		var sk []string
		skeleton(fd.Body.List, 0, &sk)
		l.Strs("rdnssCurrentBody", sk, "(*RDNSS).current: statements (pre-order, depth = leading \". \")")
	}
}
