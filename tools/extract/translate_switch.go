// translate_switch.go — Go→Lean translation of the error CLASSIFICATION of (*Dialer).init
// (internal/system/dialer.go): the tagless `switch` that decides whether the cause of a failure is
// recoverable (re-dial with back-off), fatal (the task ends with the error) or no error at all.
// C10: "re-established … when the cause is recoverable (link not ready, link change, a
// non-permission system call error) and ends with a reported error otherwise".
//
// Re-translated from the current source text on every extractor run into
// Corerad.Gen.Trans.Dialer_init_switch; Props/TransC10.lean proves it equal, class by class, to the
// decisions `DialOut.next` / `TaskOut.next` of Model/Dialer.lean.
//
// # Subset (anything else is reported as unsupported)
//
// The function must contain exactly one tagless `switch { … }` statement at the top level of its
// body.  Its case clauses are translated in source order to an if / else-if chain:
//
//	case c1, c2, …:                           the disjunction of the conditions
//	errors.As(err, &v)                        Bool parameter As_<T>, T the declared type of v
//	                                           (`var v *pkg.T` in the function; `*os.SyscallError` → As_os_SyscallError)
//	errors.Is(err, X)                         Bool parameter Is_<X>   (os.ErrPermission → Is_os_ErrPermission)
//	err == nil                                Bool parameter err_nil
//	! && || ( )                               the Boolean connectives
//
// Clause bodies (calls whose name ends in logf / Printf are skipped — logging has no effect):
//
//	return dctx, nil                          0   ("no error: the established connection is handed over")
//	return nil, err                           1   ("fatal: Dial returns the error")
//	if c { return nil, err }                  if c then 1 else ⟦rest of the body⟧
//	(end of the body without a return)        2   ("recoverable: fall through to the retry loop")
//
// and `default:` likewise; a switch without default falls through (2).
//
// Trusted: errors.As / errors.Is / == nil are pure tests of the error value (uninterpreted Boolean
// parameters, bound by name in the theorems); go/parser's AST is the program.
package main

import (
	"fmt"
	"go/ast"
	"go/token"
	"strings"
)

type swTr struct {
	p      *pkg
	fd     *ast.FuncDecl
	fn     string
	errVar string
	vars   map[string]string // local pointer variables: name → type text
	params []string
	seen   map[string]bool
}

func (t *swTr) fail(n ast.Node, what string) {
	at := ""
	if n != nil && n.Pos().IsValid() {
		at = fmt.Sprintf(" at %s:%d", t.p.fileOf[t.fd], fset.Position(n.Pos()).Line)
	}
	panic(trErr{"translate: " + t.fn + ": unsupported " + what + at})
}

func (t *swTr) param(name string) string {
	if !t.seen[name] {
		t.seen[name] = true
		t.params = append(t.params, name)
	}
	return name
}

func identish(s string) string {
	s = strings.TrimPrefix(s, "*")
	return strings.NewReplacer(".", "_", "*", "").Replace(s)
}

func (t *swTr) cond(e ast.Expr) string {
	switch x := e.(type) {
	case *ast.ParenExpr:
		return "(" + t.cond(x.X) + ")"
	case *ast.UnaryExpr:
		if x.Op == token.NOT {
			return "(!" + t.cond(x.X) + ")"
		}
	case *ast.BinaryExpr:
		switch x.Op {
		case token.LAND:
			return "(" + t.cond(x.X) + " && " + t.cond(x.Y) + ")"
		case token.LOR:
			return "(" + t.cond(x.X) + " || " + t.cond(x.Y) + ")"
		case token.EQL, token.NEQ:
			if exprString(x.X) == t.errVar && exprString(x.Y) == "nil" {
				if x.Op == token.EQL {
					return t.param("err_nil")
				}
				return "(!" + t.param("err_nil") + ")"
			}
		}
	case *ast.CallExpr:
		switch exprString(x.Fun) {
		case "errors.As":
			if len(x.Args) == 2 && exprString(x.Args[0]) == t.errVar {
				if u, ok := x.Args[1].(*ast.UnaryExpr); ok && u.Op == token.AND {
					if typ, ok := t.vars[exprString(u.X)]; ok {
						return t.param("As_" + identish(typ))
					}
				}
			}
		case "errors.Is":
			if len(x.Args) == 2 && exprString(x.Args[0]) == t.errVar {
				switch x.Args[1].(type) {
				case *ast.Ident, *ast.SelectorExpr:
					return t.param("Is_" + identish(exprString(x.Args[1])))
				}
			}
		}
	}
	t.fail(e, "condition "+exprString(e))
	return ""
}

func isLogCall(s ast.Stmt) bool {
	es, ok := s.(*ast.ExprStmt)
	if !ok {
		return false
	}
	c, ok := es.X.(*ast.CallExpr)
	if !ok {
		return false
	}
	name := exprString(c.Fun)
	return strings.HasSuffix(name, "logf") || strings.HasSuffix(name, "Printf") || strings.HasSuffix(name, "debugf")
}

// body: the outcome code of a clause body
func (t *swTr) body(list []ast.Stmt, ind string) string {
	for len(list) > 0 && isLogCall(list[0]) {
		list = list[1:]
	}
	if len(list) == 0 {
		return ind + "2"
	}
	switch x := list[0].(type) {
	case *ast.ReturnStmt:
		if len(list) != 1 || len(x.Results) != 2 {
			t.fail(x, "return shape")
		}
		if exprString(x.Results[1]) == "nil" && exprString(x.Results[0]) != "nil" {
			return ind + "0"
		}
		if exprString(x.Results[0]) == "nil" && (exprString(x.Results[1]) == t.errVar || isErrorExpr(x.Results[1])) {
			return ind + "1"
		}
		t.fail(x, "return "+exprString(x.Results[0])+", "+exprString(x.Results[1]))
	case *ast.IfStmt:
		if x.Init != nil || x.Else != nil {
			t.fail(x, "if with init / else in a clause")
		}
		then := t.body(x.Body.List, ind+"  ")
		if strings.TrimSpace(then) == "2" {
			t.fail(x, "if whose branch does not return")
		}
		return ind + "if " + t.cond(x.Cond) + " = true then\n" + then + "\n" + ind + "else\n" + t.body(list[1:], ind+"  ")
	}
	t.fail(list[0], fmt.Sprintf("statement %T in a clause", list[0]))
	return ""
}

func translateInitSwitch(p *pkg) (def leanDef, err error) {
	defer func() {
		if r := recover(); r != nil {
			if te, ok := r.(trErr); ok {
				err = fmt.Errorf("%s", te.msg)
				return
			}
			panic(r)
		}
	}()
	t := &swTr{p: p, fn: "Dialer.init", vars: map[string]string{}, seen: map[string]bool{}}
	fd, ok := p.funcs[t.fn]
	if !ok {
		return def, fmt.Errorf("translate: %s: function not found in %s", t.fn, p.dir)
	}
	t.fd = fd
	// the error parameter
	for _, f := range fd.Type.Params.List {
		if exprString(f.Type) == "error" && len(f.Names) == 1 {
			t.errVar = f.Names[0].Name
		}
	}
	if t.errVar == "" {
		t.fail(fd, "signature (no error parameter)")
	}
	var sw *ast.SwitchStmt
	for _, s := range fd.Body.List {
		switch x := s.(type) {
		case *ast.DeclStmt:
			if gd, ok := x.Decl.(*ast.GenDecl); ok && gd.Tok == token.VAR {
				for _, sp := range gd.Specs {
					vs := sp.(*ast.ValueSpec)
					if _, isPtr := vs.Type.(*ast.StarExpr); isPtr && len(vs.Values) == 0 {
						for _, n := range vs.Names {
							t.vars[n.Name] = exprString(vs.Type)
						}
					}
				}
			}
		case *ast.SwitchStmt:
			if x.Tag == nil && x.Init == nil {
				if sw != nil {
					t.fail(x, "second tagless switch")
				}
				sw = x
			}
		}
	}
	if sw == nil {
		t.fail(fd, "body without a tagless switch")
	}
	// the error variable must not be reassigned between the function's start and the switch other
	// than by the first-initialisation `dctx, err = d.DialFunc()` inside `if err == nil { … }`
	var clauses []*ast.CaseClause
	var deflt *ast.CaseClause
	for _, s := range sw.Body.List {
		cc := s.(*ast.CaseClause)
		if cc.List == nil {
			deflt = cc
			continue
		}
		if deflt != nil {
			t.fail(cc, "case after default")
		}
		clauses = append(clauses, cc)
	}
	var sb strings.Builder
	ind := "  "
	for _, cc := range clauses {
		for _, s := range cc.Body {
			if _, ok := s.(*ast.BranchStmt); ok {
				t.fail(s, "break / fallthrough in a clause")
			}
		}
		var cs []string
		for _, e := range cc.List {
			cs = append(cs, t.cond(e))
		}
		c := cs[0]
		if len(cs) > 1 {
			c = "(" + strings.Join(cs, " || ") + ")"
		}
		sb.WriteString(ind + "if " + c + " = true then\n" + t.body(cc.Body, ind+"  ") + "\n" + ind + "else\n")
		ind += "  "
	}
	if deflt != nil {
		sb.WriteString(t.body(deflt.Body, ind))
	} else {
		sb.WriteString(ind + "2")
	}
	var hdr strings.Builder
	hdr.WriteString("/-- " + p.fileOf[fd] + ": the classification switch of func " + docSafe(funcSig(fd)) + "\n")
	hdr.WriteString("    result: 0 = no error (the connection is handed over), 1 = fatal (returned to Dial), 2 = recoverable (falls through to the retry loop)\n")
	for _, prm := range t.params {
		hdr.WriteString("    " + prm + " : the corresponding test of the error value\n")
	}
	hdr.WriteString("-/\ndef Dialer_init_switch")
	for _, prm := range t.params {
		hdr.WriteString(" (" + prm + " : Bool)")
	}
	hdr.WriteString(" : Nat :=\n")
	return leanDef{"Dialer_init_switch", hdr.String() + sb.String()}, nil
}
