// translate_iface.go — Go→Lean translation of config.parseInterface (internal/config/interface.go):
// the interface-level validation of C02 (monitor/advertise exclusion, the monitor short-circuit,
// max_interval / reachable_time / retransmit_timer / hop_limit bounds with their defaults, the
// order in which min_interval, default_lifetime, preference and the plugins are resolved) and
// the construction of the resulting Interface.
//
// Re-translated from the current source text on every extractor run into
// Corerad.Gen.Trans.parseInterface, a definition over the MODEL's record types
// (Model.RawInterface → Model.Interface); Props/TransC02.lean proves it equal to
// Model.parseInterface for every raw interface.
//
// # Subset: a sequence of the following statement groups (anything else is unsupported)
//
//	if c { return nil, <error> }                         if c then none else …
//	if c { return &Interface{K: e, …}, nil }             if c then some { k := e, … } else …
//	x := e | var x time.Duration                         match orDefault ifi.f e with | none => none | some x => …
//	if ifi.F != "" {                                       `orDefault` is the PARAMETER
//	    d, err := time.ParseDuration(ifi.F)                time_ParseDuration_orDefault : DurStr → Dur → Option Dur
//	    if err != nil { return nil, <error> }              ("the default for the empty string, else what
//	    x = d }                                            time.ParseDuration makes of it"); the group must
//	                                                       appear exactly like this
//	x := N                                               let x : Int := match ifi.f with | none => N | some v => v
//	if ifi.F != nil { x = *ifi.F }
//	y, err := f(a, …)                                    match f a … with | none => none | some y => …
//	if err != nil { return nil, err }                      f a function of the package (uninterpreted PARAMETER,
//	                                                       bound by name); arguments: ifi.F, locals, ifi itself;
//	                                                       a time.Time argument (the epoch) is dropped
//	return &Interface{K: e, …}, nil                      some { k := e, … }
//
// Conditions and values: locals, ifi.F, `name`, integer literals, N * time.Unit, && || ! < <= > >=
// == != (Bool-valued), uint8(x) (→ Int.toNat x, after the range check that precedes it).
// Both records are mapped field by field through the tables below (an unknown field is unsupported);
// record literals list their fields alphabetically.
//
// Trusted: the field tables; that the two idioms above mean what is said; go/parser's AST.
package main

import (
	"fmt"
	"go/ast"
	"go/token"
	"sort"
	"strings"
)

var rawIfiFieldMap = map[string]struct{ f, t string }{
	"Monitor": {"monitor", "Bool"}, "Advertise": {"advertise", "Bool"}, "Verbose": {"verbose", "Bool"},
	"MaxInterval": {"maxInterval", "DurStr"}, "MinInterval": {"minInterval", "DurStr"},
	"Managed": {"managed", "Bool"}, "OtherConfig": {"otherConfig", "Bool"},
	"ReachableTime": {"reachable", "DurStr"}, "RetransmitTimer": {"retransmit", "DurStr"},
	"HopLimit": {"hopLimit", "OptInt"}, "DefaultLifetime": {"defaultLifetime", "DurStr"},
	"UnicastOnly": {"unicastOnly", "Bool"}, "Preference": {"preference", "Nat"},
}

var ifaceLitFieldMap = map[string]struct{ f, t string }{
	"Name": {"name", "Nat"}, "Monitor": {"monitor", "Bool"}, "Advertise": {"advertise", "Bool"}, "Verbose": {"verbose", "Bool"},
	"MinInterval": {"minInterval", "Dur"}, "MaxInterval": {"maxInterval", "Dur"}, "Managed": {"managed", "Bool"},
	"OtherConfig": {"otherConfig", "Bool"}, "ReachableTime": {"reachable", "Dur"}, "RetransmitTimer": {"retransmit", "Dur"},
	"HopLimit": {"hopLimit", "Nat"}, "DefaultLifetime": {"defaultLifetime", "Dur"}, "UnicastOnly": {"unicastOnly", "Bool"},
	"Preference": {"preference", "Pref"}, "Plugins": {"plugins", "Plugins"},
}

var ifaceTimeUnits = map[string]string{"time.Nanosecond": "ns", "time.Microsecond": "us", "time.Millisecond": "ms",
	"time.Second": "second", "time.Minute": "minute", "time.Hour": "hour"}

// result types of the package functions that may be bound (by name; their Go signatures are checked)
var ifaceFuncs = map[string]struct{ sig, res, lean string }{
	"parseMinInterval":     {"(string, time.Duration) (time.Duration, error)", "Dur", "Corerad.Model.DurStr → Dur → Option Dur"},
	"parseDefaultLifetime": {"(*string, time.Duration) (time.Duration, error)", "Dur", "Corerad.Model.DurStr → Dur → Option Dur"},
	"parsePreference":      {"(string) (ndp.Preference, error)", "Pref", "Nat → Option Nat"},
	"parsePlugins":         {"(rawInterface, time.Duration, time.Time) ([]plugin.Plugin, error)", "Plugins", "Corerad.Model.RawInterface → Dur → Option (List Corerad.Model.Plugin)"},
}

type ifTr struct {
	p      *pkg
	fd     *ast.FuncDecl
	ifi    string // the rawInterface parameter
	name   string // the name parameter
	epoch  string
	locals map[string]string // name → type (Dur, Int, Pref, Plugins)
	params []string
	pseen  map[string]bool
}

func (t *ifTr) fail(n ast.Node, what string) {
	at := ""
	if n != nil && n.Pos().IsValid() {
		at = fmt.Sprintf(" at %s:%d", t.p.fileOf[t.fd], fset.Position(n.Pos()).Line)
	}
	panic(trErr{"translate: parseInterface: unsupported " + what + at})
}

func (t *ifTr) param(decl, name string) {
	if !t.pseen[name] {
		t.pseen[name] = true
		t.params = append(t.params, decl)
	}
}

// expr returns the Lean term and its type (Bool, Dur, Int, Nat, DurStr, OptInt, Pref, Plugins, Raw)
func (t *ifTr) expr(e ast.Expr) (string, string) {
	switch x := e.(type) {
	case *ast.ParenExpr:
		return t.expr(x.X)
	case *ast.Ident:
		if typ, ok := t.locals[x.Name]; ok {
			return ln(x.Name), typ
		}
		switch x.Name {
		case t.name:
			return "name", "Nat"
		case t.ifi:
			return "ifi", "Raw"
		case "true", "false":
			return x.Name, "Bool"
		}
		t.fail(x, "identifier "+x.Name)
	case *ast.BasicLit:
		if x.Kind == token.INT && isDigits(x.Value) {
			return x.Value, "Int"
		}
		t.fail(x, "literal "+x.Value)
	case *ast.SelectorExpr:
		if u, ok := ifaceTimeUnits[exprString(x)]; ok {
			return u, "Dur"
		}
		if exprString(x.X) == t.ifi {
			m, ok := rawIfiFieldMap[x.Sel.Name]
			if !ok {
				t.fail(x, "raw interface field "+x.Sel.Name)
			}
			return "ifi." + m.f, m.t
		}
		t.fail(x, "selector "+exprString(x))
	case *ast.CallExpr:
		if exprString(x.Fun) == "uint8" && len(x.Args) == 1 {
			s, typ := t.expr(x.Args[0])
			if typ != "Int" {
				t.fail(x, "uint8 of "+typ)
			}
			return "(Int.toNat " + s + ")", "Nat"
		}
		t.fail(x, "call "+exprString(x.Fun))
	case *ast.UnaryExpr:
		if x.Op == token.NOT {
			s, typ := t.expr(x.X)
			if typ != "Bool" {
				t.fail(x, "! on "+typ)
			}
			return "(!" + s + ")", "Bool"
		}
		t.fail(x, "unary "+x.Op.String())
	case *ast.BinaryExpr:
		a, ta := t.expr(x.X)
		b, tb := t.expr(x.Y)
		switch x.Op {
		case token.MUL:
			if ta == "Int" && tb == "Dur" || ta == "Dur" && tb == "Int" || ta == "Int" && tb == "Int" {
				typ := "Dur"
				if ta == "Int" && tb == "Int" {
					typ = "Int"
				}
				return "(" + a + " * " + b + ")", typ
			}
		case token.LAND, token.LOR:
			if ta == "Bool" && tb == "Bool" {
				op := map[token.Token]string{token.LAND: "&&", token.LOR: "||"}[x.Op]
				return "(" + a + " " + op + " " + b + ")", "Bool"
			}
		case token.LSS, token.LEQ, token.GTR, token.GEQ, token.EQL, token.NEQ:
			num := func(s string) bool { return s == "Int" || s == "Dur" }
			if num(ta) && num(tb) {
				op := map[token.Token]string{token.LSS: "<", token.LEQ: "≤", token.GTR: ">", token.GEQ: "≥", token.EQL: "=", token.NEQ: "≠"}[x.Op]
				return "(decide (" + a + " " + op + " " + b + "))", "Bool"
			}
		}
		t.fail(x, "operator "+x.Op.String()+" on "+ta+", "+tb)
	}
	t.fail(e, fmt.Sprintf("expression %T", e))
	return "", ""
}

// literal: &Interface{K: e, …}
func (t *ifTr) literal(e ast.Expr) string {
	un, ok := e.(*ast.UnaryExpr)
	var cl *ast.CompositeLit
	if ok && un.Op == token.AND {
		cl, ok = un.X.(*ast.CompositeLit)
	}
	if !ok || cl == nil || exprString(cl.Type) != "Interface" {
		t.fail(e, "returned value "+exprString(e)+" (expected &Interface{…})")
	}
	var inits []string
	seen := map[string]bool{}
	for _, el := range cl.Elts {
		kv, ok := el.(*ast.KeyValueExpr)
		if !ok {
			t.fail(el, "positional field")
		}
		m, ok := ifaceLitFieldMap[exprString(kv.Key)]
		if !ok || seen[m.f] {
			t.fail(kv, "Interface field "+exprString(kv.Key))
		}
		seen[m.f] = true
		v, vt := t.expr(kv.Value)
		if vt != m.t {
			t.fail(kv, "value of type "+vt+" for Interface field "+exprString(kv.Key)+" ("+m.t+")")
		}
		inits = append(inits, m.f+" := "+v)
	}
	sort.Strings(inits)
	return "some ({ " + strings.Join(inits, ", ") + " } : Corerad.Model.Interface)"
}

func isErrReturn(s ast.Stmt) bool {
	r, ok := s.(*ast.ReturnStmt)
	return ok && len(r.Results) == 2 && exprString(r.Results[0]) == "nil" && isErrorExpr(r.Results[1])
}

func (t *ifTr) stmts(list []ast.Stmt, ind string) string {
	if len(list) == 0 {
		t.fail(t.fd, "function body that falls off its end")
	}
	s := list[0]
	switch x := s.(type) {
	case *ast.ReturnStmt:
		if len(list) != 1 || len(x.Results) != 2 || exprString(x.Results[1]) != "nil" {
			t.fail(x, "return")
		}
		return ind + t.literal(x.Results[0])
	case *ast.IfStmt:
		if x.Init != nil || x.Else != nil || len(x.Body.List) != 1 {
			t.fail(x, "if statement (only guards)")
		}
		c, ct := t.expr(x.Cond)
		if ct != "Bool" {
			t.fail(x.Cond, "condition")
		}
		if isErrReturn(x.Body.List[0]) {
			return ind + "if " + c + " = true then none else\n" + t.stmts(list[1:], ind)
		}
		if r, ok := x.Body.List[0].(*ast.ReturnStmt); ok && len(r.Results) == 2 && exprString(r.Results[1]) == "nil" {
			return ind + "if " + c + " = true then " + t.literal(r.Results[0]) + " else\n" + t.stmts(list[1:], ind)
		}
		t.fail(x, "if body")
	case *ast.DeclStmt, *ast.AssignStmt:
		// the variable and its default
		var name, dflt, typ string
		var bind *ast.AssignStmt
		switch d := s.(type) {
		case *ast.DeclStmt:
			gd, ok := d.Decl.(*ast.GenDecl)
			if !ok || gd.Tok != token.VAR || len(gd.Specs) != 1 {
				t.fail(d, "declaration")
			}
			vs := gd.Specs[0].(*ast.ValueSpec)
			if len(vs.Names) != 1 || len(vs.Values) != 0 || exprString(vs.Type) != "time.Duration" {
				t.fail(d, "declaration (only `var x time.Duration`)")
			}
			name, dflt, typ = vs.Names[0].Name, "0", "Dur"
		case *ast.AssignStmt:
			if d.Tok != token.DEFINE {
				t.fail(d, "assignment")
			}
			if len(d.Lhs) == 2 && exprString(d.Lhs[1]) == "err" {
				bind = d
				break
			}
			if len(d.Lhs) != 1 || len(d.Rhs) != 1 {
				t.fail(d, "assignment shape")
			}
			name = exprString(d.Lhs[0])
			dflt, typ = t.expr(d.Rhs[0])
			if typ != "Dur" && typ != "Int" {
				t.fail(d, "default of type "+typ)
			}
		}
		if bind != nil {
			// y, err := f(args); if err != nil { return nil, err }
			c, ok := bind.Rhs[0].(*ast.CallExpr)
			if !ok || len(list) < 2 {
				t.fail(bind, "binding")
			}
			fn := exprString(c.Fun)
			spec, ok := ifaceFuncs[fn]
			fd := t.p.funcs[fn]
			if !ok || fd == nil || sigString(fd.Type) != spec.sig {
				got := ""
				if fd != nil {
					got = sigString(fd.Type)
				}
				t.fail(bind, "call of "+fn+" "+got)
			}
			chk, ok := list[1].(*ast.IfStmt)
			if !ok || chk.Init != nil || chk.Else != nil || exprString(chk.Cond) != "err != nil" || len(chk.Body.List) != 1 || !isErrReturn(chk.Body.List[0]) {
				t.fail(list[1], "error check after "+fn)
			}
			var args []string
			for _, a := range c.Args {
				if exprString(a) == t.epoch {
					continue
				}
				as, _ := t.expr(a)
				args = append(args, as)
			}
			y := exprString(bind.Lhs[0])
			if _, dup := t.locals[y]; dup {
				t.fail(bind, "redeclaration of "+y)
			}
			t.param("("+fn+" : "+spec.lean+")", fn)
			t.locals[y] = spec.res
			return ind + "match " + fn + " " + strings.Join(args, " ") + " with\n" + ind + "| none => none\n" + ind + "| some " + ln(y) + " =>\n" + t.stmts(list[2:], ind)
		}
		if _, dup := t.locals[name]; dup {
			t.fail(s, "redeclaration of "+name)
		}
		if len(list) < 2 {
			t.fail(s, "default without its override")
		}
		ov, ok := list[1].(*ast.IfStmt)
		if !ok || ov.Init != nil || ov.Else != nil {
			t.fail(list[1], "override of "+name)
		}
		cond, ok := ov.Cond.(*ast.BinaryExpr)
		if !ok || cond.Op != token.NEQ {
			t.fail(ov, "override condition")
		}
		sel, ok := cond.X.(*ast.SelectorExpr)
		if !ok || exprString(sel.X) != t.ifi {
			t.fail(ov, "override condition")
		}
		fld, ok := rawIfiFieldMap[sel.Sel.Name]
		if !ok {
			t.fail(ov, "raw interface field "+sel.Sel.Name)
		}
		switch {
		case typ == "Dur" && fld.t == "DurStr" && exprString(cond.Y) == `""`:
			// d, err := time.ParseDuration(ifi.F); if err != nil { return nil, … }; x = d
			b := ov.Body.List
			ok := len(b) == 3
			var dv string
			if ok {
				a0, isA := b[0].(*ast.AssignStmt)
				ok = isA && a0.Tok == token.DEFINE && len(a0.Lhs) == 2 && exprString(a0.Lhs[1]) == "err" &&
					exprString(a0.Rhs[0]) == "time.ParseDuration("+exprString(sel)+")"
				if ok {
					dv = exprString(a0.Lhs[0])
				}
			}
			if ok {
				c1, isI := b[1].(*ast.IfStmt)
				ok = isI && c1.Init == nil && c1.Else == nil && exprString(c1.Cond) == "err != nil" && len(c1.Body.List) == 1 && isErrReturn(c1.Body.List[0])
			}
			if ok {
				a2, isA := b[2].(*ast.AssignStmt)
				ok = isA && a2.Tok == token.ASSIGN && len(a2.Lhs) == 1 && exprString(a2.Lhs[0]) == name && exprString(a2.Rhs[0]) == dv
			}
			if !ok {
				t.fail(ov, "override of "+name+" (expected the time.ParseDuration group)")
			}
			t.param("(time_ParseDuration_orDefault : Corerad.Model.DurStr → Dur → Option Dur)", "time_ParseDuration_orDefault")
			t.locals[name] = "Dur"
			return ind + "match time_ParseDuration_orDefault ifi." + fld.f + " " + dflt + " with\n" + ind + "| none => none\n" + ind + "| some " + ln(name) + " =>\n" + t.stmts(list[2:], ind)
		case typ == "Int" && fld.t == "OptInt" && exprString(cond.Y) == "nil":
			b := ov.Body.List
			a0, isA := (ast.Stmt)(nil), false
			if len(b) == 1 {
				a0 = b[0]
				_, isA = a0.(*ast.AssignStmt)
			}
			if !isA || exprString(a0.(*ast.AssignStmt).Lhs[0]) != name || a0.(*ast.AssignStmt).Tok != token.ASSIGN ||
				exprString(a0.(*ast.AssignStmt).Rhs[0]) != "*"+exprString(sel) {
				t.fail(ov, "override of "+name+" (expected `x = *ifi.F`)")
			}
			t.locals[name] = "Int"
			return ind + "let " + ln(name) + " : Int := match ifi." + fld.f + " with | none => " + dflt + " | some v => v\n" + t.stmts(list[2:], ind)
		}
		t.fail(ov, "override of "+name)
	}
	t.fail(s, fmt.Sprintf("statement %T", s))
	return ""
}

func translateParseInterface(p *pkg) (def leanDef, err error) {
	defer func() {
		if r := recover(); r != nil {
			if te, ok := r.(trErr); ok {
				err = fmt.Errorf("%s", te.msg)
				return
			}
			panic(r)
		}
	}()
	fd, ok := p.funcs["parseInterface"]
	if !ok {
		return def, fmt.Errorf("translate: parseInterface: function not found in %s", p.dir)
	}
	t := &ifTr{p: p, fd: fd, locals: map[string]string{}, pseen: map[string]bool{}}
	if sig := sigString(fd.Type); sig != "(string, rawInterface, time.Time) (*Interface, error)" {
		t.fail(fd, "signature "+sig)
	}
	var names []string
	for _, f := range fd.Type.Params.List {
		for _, n := range f.Names {
			names = append(names, n.Name)
		}
	}
	if len(names) != 3 {
		t.fail(fd, "parameter names")
	}
	t.name, t.ifi, t.epoch = names[0], names[1], names[2]
	body := t.stmts(fd.Body.List, "  ")
	var sb strings.Builder
	sb.WriteString("/-- " + p.fileOf[fd] + ": func " + docSafe(funcSig(fd)) + "\n")
	sb.WriteString("    time_ParseDuration_orDefault = the idiom `x := dflt; if s != \"\" { d, err := time.ParseDuration(s); if err != nil { return }; x = d }`\n")
	sb.WriteString("    the other parameters are the package functions of the same names -/\n")
	sb.WriteString("def parseInterface (name : Nat) (ifi : Corerad.Model.RawInterface)")
	for _, prm := range t.params {
		sb.WriteString("\n    " + prm)
	}
	sb.WriteString(" : Option Corerad.Model.Interface :=\n")
	sb.WriteString(body)
	return leanDef{"parseInterface", sb.String()}, nil
}
