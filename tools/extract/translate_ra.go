// translate_ra.go — Go→Lean translation of config.Interface.RouterAdvertisement
// (internal/config/config.go), the function every RA-generating path of the daemon goes through
// (C01: header fields and the fold of the plugins' Apply; C04: router lifetime 0 and the
// interface_not_forwarding misconfiguration iff forwarding is off).
//
// The function is re-translated from its current source text on every extractor run into
// Corerad.Gen.Trans.Interface_RouterAdvertisement, a definition over the MODEL's record types
// (Model.Interface, Model.RA); Props/TransC04.lean proves it equal to Model.routerAdvertisement for
// every interface, system state and forwarding value.
//
// # Subset (this function's shape; anything else is reported as unsupported)
//
//	func (ifi Interface) RouterAdvertisement(forwarding bool) (*ndp.RouterAdvertisement, []Misconfiguration, error)
//
//	ra := &ndp.RouterAdvertisement{K: ifi.F, …}        let ra : Model.RA := { k := ifi.f, … }
//	                                                     every value a receiver field; the field names
//	                                                     of both records are mapped by the tables below
//	                                                     (an unknown field is unsupported); fields in
//	                                                     alphabetical order (the order in which a
//	                                                     composite literal lists them is immaterial)
//	for _, p := range ifi.Plugins {                     match List.foldlM (fun ra p => Plugin_Apply p ra) ra ifi.plugins
//	    if err := p.Apply(ra); err != nil {               | none => none | some ra => …
//	        return nil, nil, <error> } }                 Plugin_Apply : Plugin → RA → Option RA is a
//	                                                     PARAMETER: what a plugin does to the RA it is
//	                                                     handed (none = it returned an error); the
//	                                                     pointer `ra` is threaded as a value
//	var ms []Misconfiguration                           let ms : List Nat := []
//	if c { ra.K = e; ms = append(ms, C) }               if c then (let ra := { ra with k := e }; let ms := ms ++ [C]; …) else …
//	                                                     c, e over ra.K, forwarding, integer literals,
//	                                                     > >= < <= == != && || !; C a constant of type
//	                                                     Misconfiguration, evaluated from its iota
//	return ra, ms, nil                                  some (ra, ms)
//
// # Trusted
//
// The two field tables (a Go field is the model field of the same meaning); that Apply's only effect
// on the caller is through *ra and its error (the purity facts of Gen/Plugin.lean and the repeated
// builds of the correspondence harness cover the plugins themselves); go/parser's AST is the program.
package main

import (
	"fmt"
	"go/ast"
	"go/token"
	"sort"
	"strings"
)

var raFieldMap = map[string]string{
	"CurrentHopLimit": "hopLimit", "ManagedConfiguration": "managed", "OtherConfiguration": "other",
	"RouterSelectionPreference": "preference", "RouterLifetime": "routerLifetime",
	"ReachableTime": "reachable", "RetransmitTimer": "retransmit",
}

var ifiFieldMap = map[string]string{
	"HopLimit": "hopLimit", "Managed": "managed", "OtherConfig": "otherConfig", "Preference": "preference",
	"DefaultLifetime": "defaultLifetime", "ReachableTime": "reachable", "RetransmitTimer": "retransmit",
	"MinInterval": "minInterval", "MaxInterval": "maxInterval", "UnicastOnly": "unicastOnly",
}

// model type of each RA field (for conditions)
var raFieldNumeric = map[string]bool{"hopLimit": true, "preference": true, "routerLifetime": true, "reachable": true, "retransmit": true}

type raTr struct {
	p    *pkg
	fd   *ast.FuncDecl
	recv string
	ra   string // the name of the pointer variable
	ms   string
	fw   string
}

func (t *raTr) fail(n ast.Node, what string) {
	at := ""
	if n != nil && n.Pos().IsValid() {
		at = fmt.Sprintf(" at %s:%d", t.p.fileOf[t.fd], fset.Position(n.Pos()).Line)
	}
	panic(trErr{"translate: Interface.RouterAdvertisement: unsupported " + what + at})
}

// expr: conditions and right-hand sides over ra.K, forwarding, literals
func (t *raTr) expr(e ast.Expr) (s string, isBool bool) {
	switch x := e.(type) {
	case *ast.ParenExpr:
		return t.expr(x.X)
	case *ast.Ident:
		if x.Name == t.fw {
			return "forwarding", true
		}
		if x.Name == "true" || x.Name == "false" {
			return x.Name, true
		}
		t.fail(x, "identifier "+x.Name)
	case *ast.BasicLit:
		if x.Kind == token.INT && isDigits(x.Value) {
			return x.Value, false
		}
		t.fail(x, "literal")
	case *ast.SelectorExpr:
		id, ok := x.X.(*ast.Ident)
		if ok && id.Name == t.ra {
			f, ok := raFieldMap[x.Sel.Name]
			if !ok {
				t.fail(x, "RA field "+x.Sel.Name)
			}
			return "ra." + f, !raFieldNumeric[f]
		}
		if ok && id.Name == t.recv {
			f, ok := ifiFieldMap[x.Sel.Name]
			if !ok {
				t.fail(x, "interface field "+x.Sel.Name)
			}
			return "ifi." + f, f == "managed" || f == "otherConfig" || f == "unicastOnly"
		}
		t.fail(x, "selector "+exprString(x))
	case *ast.UnaryExpr:
		if x.Op == token.NOT {
			s, b := t.expr(x.X)
			if !b {
				t.fail(x, "! on a number")
			}
			return "(!" + s + ")", true
		}
		t.fail(x, "unary "+x.Op.String())
	case *ast.BinaryExpr:
		a, ab := t.expr(x.X)
		b, bb := t.expr(x.Y)
		switch x.Op {
		case token.LAND, token.LOR:
			if !ab || !bb {
				t.fail(x, "logical operator on numbers")
			}
			op := "&&"
			if x.Op == token.LOR {
				op = "||"
			}
			return "(" + a + " " + op + " " + b + ")", true
		case token.GTR, token.GEQ, token.LSS, token.LEQ, token.EQL, token.NEQ:
			if ab || bb {
				t.fail(x, "comparison of booleans")
			}
			op := map[token.Token]string{token.GTR: ">", token.GEQ: "≥", token.LSS: "<", token.LEQ: "≤", token.EQL: "=", token.NEQ: "≠"}[x.Op]
			return "(decide (" + a + " " + op + " " + b + "))", true
		}
		t.fail(x, "operator "+x.Op.String())
	}
	t.fail(e, fmt.Sprintf("expression %T", e))
	return "", false
}

func translateRA(p *pkg) (def leanDef, err error) {
	defer func() {
		if r := recover(); r != nil {
			if te, ok := r.(trErr); ok {
				err = fmt.Errorf("%s", te.msg)
				return
			}
			panic(r)
		}
	}()
	fd, ok := p.funcs["Interface.RouterAdvertisement"]
	if !ok {
		return def, fmt.Errorf("translate: Interface.RouterAdvertisement: function not found in %s", p.dir)
	}
	t := &raTr{p: p, fd: fd}
	if fd.Recv == nil || len(fd.Recv.List[0].Names) != 1 {
		t.fail(fd, "receiver")
	}
	t.recv = fd.Recv.List[0].Names[0].Name
	if sig := sigString(fd.Type); sig != "(bool) (*ndp.RouterAdvertisement, []Misconfiguration, error)" {
		t.fail(fd, "signature "+sig)
	}
	t.fw = fd.Type.Params.List[0].Names[0].Name
	body := fd.Body.List
	if len(body) != 5 {
		t.fail(fd, fmt.Sprintf("body of %d statements (expected: literal, plugin loop, var, lifetime rule, return)", len(body)))
	}

	// 1. ra := &ndp.RouterAdvertisement{…}
	as, ok := body[0].(*ast.AssignStmt)
	if !ok || as.Tok != token.DEFINE || len(as.Lhs) != 1 || len(as.Rhs) != 1 {
		t.fail(body[0], "first statement")
	}
	t.ra = as.Lhs[0].(*ast.Ident).Name
	un, ok := as.Rhs[0].(*ast.UnaryExpr)
	var cl *ast.CompositeLit
	if ok && un.Op == token.AND {
		cl, ok = un.X.(*ast.CompositeLit)
	}
	if !ok || cl == nil || exprString(cl.Type) != "ndp.RouterAdvertisement" {
		t.fail(body[0], "first statement (expected &ndp.RouterAdvertisement{…})")
	}
	var inits []string
	seen := map[string]bool{}
	for _, el := range cl.Elts {
		kv, ok := el.(*ast.KeyValueExpr)
		if !ok {
			t.fail(el, "positional field")
		}
		k := exprString(kv.Key)
		mk, ok := raFieldMap[k]
		if !ok || seen[mk] {
			t.fail(kv, "RA field "+k)
		}
		seen[mk] = true
		sel, ok := kv.Value.(*ast.SelectorExpr)
		if !ok || exprString(sel.X) != t.recv {
			t.fail(kv.Value, "field value "+exprString(kv.Value)+" (only receiver fields)")
		}
		mv, ok := ifiFieldMap[sel.Sel.Name]
		if !ok {
			t.fail(sel, "interface field "+sel.Sel.Name)
		}
		inits = append(inits, mk+" := ifi."+mv)
	}
	sort.Strings(inits)

	// 2. for _, p := range ifi.Plugins { if err := p.Apply(ra); err != nil { return nil, nil, <error> } }
	rs, ok := body[1].(*ast.RangeStmt)
	if !ok || rs.Tok != token.DEFINE || exprString(rs.Key) != "_" || rs.Value == nil || exprString(rs.X) != t.recv+".Plugins" || len(rs.Body.List) != 1 {
		t.fail(body[1], "plugin loop")
	}
	pv := exprString(rs.Value)
	ifs, ok := rs.Body.List[0].(*ast.IfStmt)
	if !ok || ifs.Init == nil || ifs.Else != nil || exprString(ifs.Cond) != "err != nil" || len(ifs.Body.List) != 1 {
		t.fail(body[1], "plugin loop body")
	}
	ia, ok := ifs.Init.(*ast.AssignStmt)
	if !ok || ia.Tok != token.DEFINE || exprString(ia.Lhs[0]) != "err" || exprString(ia.Rhs[0]) != pv+".Apply("+t.ra+")" {
		t.fail(ifs, "plugin loop body (expected `if err := p.Apply(ra); err != nil`)")
	}
	ret, ok := ifs.Body.List[0].(*ast.ReturnStmt)
	if !ok || len(ret.Results) != 3 || exprString(ret.Results[0]) != "nil" || exprString(ret.Results[1]) != "nil" || !isErrorExpr(ret.Results[2]) {
		t.fail(ifs, "error return of the plugin loop")
	}

	// 3. var ms []Misconfiguration
	ds, ok := body[2].(*ast.DeclStmt)
	if !ok {
		t.fail(body[2], "third statement")
	}
	vs, ok := ds.Decl.(*ast.GenDecl).Specs[0].(*ast.ValueSpec)
	if !ok || len(vs.Names) != 1 || len(vs.Values) != 0 || exprString(vs.Type) != "[]Misconfiguration" {
		t.fail(body[2], "third statement (expected `var ms []Misconfiguration`)")
	}
	t.ms = vs.Names[0].Name

	// 4. if c { ra.K = e; ms = append(ms, C) }
	rule, ok := body[3].(*ast.IfStmt)
	if !ok || rule.Init != nil || rule.Else != nil {
		t.fail(body[3], "lifetime rule")
	}
	cond, cb := t.expr(rule.Cond)
	if !cb {
		t.fail(rule.Cond, "condition")
	}
	var thenLets []string
	for _, s := range rule.Body.List {
		a, ok := s.(*ast.AssignStmt)
		if !ok || a.Tok != token.ASSIGN || len(a.Lhs) != 1 || len(a.Rhs) != 1 {
			t.fail(s, "statement in the lifetime rule")
		}
		switch l := a.Lhs[0].(type) {
		case *ast.SelectorExpr:
			if exprString(l.X) != t.ra {
				t.fail(l, "assignment target")
			}
			f, ok := raFieldMap[l.Sel.Name]
			if !ok {
				t.fail(l, "RA field "+l.Sel.Name)
			}
			v, vb := t.expr(a.Rhs[0])
			if vb == raFieldNumeric[f] {
				t.fail(a, "assigned value")
			}
			thenLets = append(thenLets, fmt.Sprintf("let ra : Corerad.Model.RA := { ra with %s := %s }", f, v))
		case *ast.Ident:
			c, ok := a.Rhs[0].(*ast.CallExpr)
			if l.Name != t.ms || !ok || exprString(c.Fun) != "append" || len(c.Args) != 2 || exprString(c.Args[0]) != t.ms {
				t.fail(a, "assignment in the lifetime rule")
			}
			cn, ok := c.Args[1].(*ast.Ident)
			if !ok {
				t.fail(a, "appended misconfiguration")
			}
			cd, ok := p.consts[cn.Name]
			if !ok || p.dup[cn.Name] || exprString(cd.expr) != "iota" {
				t.fail(a, "constant "+cn.Name+" (expected a member of an iota block)")
			}
			// constants of the Misconfiguration block are `_ Misconfiguration = iota` followed by names
			thenLets = append(thenLets, fmt.Sprintf("let ms : List Nat := ms ++ [%d]  -- %s", cd.iota, cn.Name))
		default:
			t.fail(a, "assignment target")
		}
	}

	// 5. return ra, ms, nil
	fin, ok := body[4].(*ast.ReturnStmt)
	if !ok || len(fin.Results) != 3 || exprString(fin.Results[0]) != t.ra || exprString(fin.Results[1]) != t.ms || exprString(fin.Results[2]) != "nil" {
		t.fail(body[4], "final return")
	}

	var sb strings.Builder
	sb.WriteString("/-- " + p.fileOf[fd] + ": func " + docSafe(funcSig(fd)) + "\n")
	sb.WriteString("    Plugin_Apply = what `p.Apply(ra)` does to the RA it is handed (none = it returned an error)\n")
	sb.WriteString("    the result's second component lists the Misconfiguration values (by their iota) -/\n")
	sb.WriteString("def Interface_RouterAdvertisement (ifi : Corerad.Model.Interface) (forwarding : Bool)\n")
	sb.WriteString("    (Plugin_Apply : Corerad.Model.Plugin → Corerad.Model.RA → Option Corerad.Model.RA) : Option (Corerad.Model.RA × List Nat) :=\n")
	sb.WriteString("  let ra : Corerad.Model.RA := { " + strings.Join(inits, ", ") + " }\n")
	sb.WriteString("  match List.foldlM (fun (ra : Corerad.Model.RA) (p : Corerad.Model.Plugin) => Plugin_Apply p ra) ra ifi.plugins with\n")
	sb.WriteString("  | none => none\n")
	sb.WriteString("  | some ra =>\n")
	sb.WriteString("    let ms : List Nat := []\n")
	sb.WriteString("    if " + cond + " = true then\n")
	for _, l := range thenLets {
		sb.WriteString("      " + l + "\n")
	}
	sb.WriteString("      some (ra, ms)\n")
	sb.WriteString("    else\n")
	sb.WriteString("      some (ra, ms)")
	return leanDef{"Interface_RouterAdvertisement", sb.String()}, nil
}
