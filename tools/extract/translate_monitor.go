// translate_monitor.go — Go→Lean translation of (*Monitor).handle (internal/corerad/monitor.go), C18:
// the list of metric operations the function performs for one received message, in program order.
//
// Re-translated from the current source text on every extractor run into
// Corerad.Gen.Trans.Monitor_handle; Props/TransC18.lean proves it equal to the hand-written
// `Model.Monitor.monitorHandle`, the function every C18 theorem is about.
//
// # Subset (anything else is reported as unsupported)
//
// Signature `func (m *Monitor) handle(msg ndp.Message, host string)`.  The body is a sequence of
//
//	m.debugf(…) / m.logf(…)                                skipped (logging)
//	m.cctx.mm.<Metric>(value, labels…)                     one operation, see the tables below
//	switch msg := msg.(type) { case *ndp.RouterAdvertisement: … }
//	                                                       exactly this one clause (no default): its
//	                                                       operations are performed iff the message is
//	                                                       an RA; inside it `msg` is the RA
//	now := m.now()                                         the clock, read at most once (parameter `now`)
//	if msg.RouterLifetime != 0 { ops }                     if ra.routerLifetime ≠ 0 then ops else []
//	for _, p := range pick[*ndp.PrefixInformation](msg.Options) { str := cidrStr(p.Prefix, p.PrefixLength); ops }
//	                                                       (pickPI ra.options).flatMap fun p => ops
//	                                                       with `str` = p.label
//
// Metrics (method of cctx.mm → series constructor of Model.Monitor, kind, label arguments after the value):
//
//	MonMessagesReceivedTotal                  inc received          (m.iface, host, msg.Type().String())
//	MonFlagManaged                            set flagManaged       (m.iface, host)
//	MonFlagOther                              set flagOther         (m.iface, host)
//	MonDefaultRouteExpirationTime             set defaultRoute      (m.iface, host)
//	MonPrefixAutonomous                       set prefixAutonomous  (m.iface, str, host)
//	MonPrefixOnLink                           set prefixOnLink      (m.iface, str, host)
//	MonPrefixPreferredLifetimeExpirationTime  set prefixPreferred   (m.iface, str, host)
//	MonPrefixValidLifetimeExpirationTime      set prefixValid       (m.iface, str, host)
//
// The label arguments must be exactly those (the constant interface label m.iface is not carried
// in the model).  Values:
//
//	1.0                                                    1
//	boolFloat(msg.ManagedConfiguration | msg.OtherConfiguration)        b2i ra.managed | ra.other
//	boolFloat(p.AutonomousAddressConfiguration | p.OnLink)              b2i p.autonomous | p.onLink
//	float64(now.Add(D).Unix())   D ∈ {msg.RouterLifetime, p.PreferredLifetime, p.ValidLifetime}
//	                                                       unixSec (now + ra.routerLifetime | p.preferred | p.valid)
//
// Trusted: the tables above (which Go method writes which series; boolFloat, Time.Unix and cidrStr
// as the model has them — cidrStr's rendering is Model.Monitor.PI.label); go/parser's AST is the
// program.
package main

import (
	"fmt"
	"go/ast"
	"go/token"
	"strings"
)

type monMetric struct {
	series string
	kind   string // inc | set
	prefix bool   // carries the prefix label
	typ    bool   // carries the message type label
}

var monMetrics = map[string]monMetric{
	"MonMessagesReceivedTotal":                 {"received", "inc", false, true},
	"MonFlagManaged":                           {"flagManaged", "set", false, false},
	"MonFlagOther":                             {"flagOther", "set", false, false},
	"MonDefaultRouteExpirationTime":            {"defaultRoute", "set", false, false},
	"MonPrefixAutonomous":                      {"prefixAutonomous", "set", true, false},
	"MonPrefixOnLink":                          {"prefixOnLink", "set", true, false},
	"MonPrefixPreferredLifetimeExpirationTime": {"prefixPreferred", "set", true, false},
	"MonPrefixValidLifetimeExpirationTime":     {"prefixValid", "set", true, false},
}

type mTr struct {
	p     *pkg
	fd    *ast.FuncDecl
	fn    string
	recv  string
	msg   string
	host  string
	nowN  int
	inRA  bool
	pVar  string // loop variable inside the prefix loop
	label string // the variable holding cidrStr(p.Prefix, p.PrefixLength)
}

func (t *mTr) fail(n ast.Node, what string) {
	at := ""
	if n != nil && n.Pos().IsValid() {
		at = fmt.Sprintf(" at %s:%d", t.p.fileOf[t.fd], fset.Position(n.Pos()).Line)
	}
	panic(trErr{"translate: " + t.fn + ": unsupported " + what + at})
}

var monRAFields = map[string]string{"ManagedConfiguration": "ra.managed", "OtherConfiguration": "ra.other", "RouterLifetime": "ra.routerLifetime"}
var monPIFields = map[string]string{"AutonomousAddressConfiguration": "p.autonomous", "OnLink": "p.onLink", "PreferredLifetime": "p.preferred", "ValidLifetime": "p.valid"}

// field: msg.F inside the RA clause, p.F inside the prefix loop
func (t *mTr) field(e ast.Expr) (string, bool) {
	sel, ok := e.(*ast.SelectorExpr)
	if !ok {
		return "", false
	}
	id, ok := sel.X.(*ast.Ident)
	if !ok {
		return "", false
	}
	if t.inRA && id.Name == t.msg {
		v, ok := monRAFields[sel.Sel.Name]
		return v, ok
	}
	if t.pVar != "" && id.Name == t.pVar {
		v, ok := monPIFields[sel.Sel.Name]
		return v, ok
	}
	return "", false
}

func (t *mTr) value(e ast.Expr) string {
	if bl, ok := e.(*ast.BasicLit); ok && bl.Value == "1.0" {
		return "1"
	}
	c, ok := e.(*ast.CallExpr)
	if !ok || len(c.Args) != 1 {
		t.fail(e, "metric value "+exprString(e))
	}
	switch exprString(c.Fun) {
	case "boolFloat":
		if f, ok := t.field(c.Args[0]); ok && (f == "ra.managed" || f == "ra.other" || f == "p.autonomous" || f == "p.onLink") {
			return "(b2i " + f + ")"
		}
	case "float64":
		// now.Add(D).Unix()
		if u, ok := c.Args[0].(*ast.CallExpr); ok && len(u.Args) == 0 {
			if us, ok := u.Fun.(*ast.SelectorExpr); ok && us.Sel.Name == "Unix" {
				if a, ok := us.X.(*ast.CallExpr); ok && len(a.Args) == 1 && exprString(a.Fun) == "now.Add" && t.nowN == 1 {
					if f, ok := t.field(a.Args[0]); ok && (f == "ra.routerLifetime" || f == "p.preferred" || f == "p.valid") {
						return "(unixSec (now + " + f + "))"
					}
				}
			}
		}
	}
	t.fail(e, "metric value "+exprString(e))
	return ""
}

func (t *mTr) metric(c *ast.CallExpr) (string, bool) {
	fun := exprString(c.Fun)
	pre := t.recv + ".cctx.mm."
	if !strings.HasPrefix(fun, pre) {
		return "", false
	}
	mm, ok := monMetrics[strings.TrimPrefix(fun, pre)]
	if !ok {
		t.fail(c, "metric "+fun)
	}
	want := []string{t.recv + ".iface"}
	if mm.prefix {
		if t.label == "" {
			t.fail(c, "prefix metric outside the prefix loop")
		}
		want = append(want, t.label)
	}
	want = append(want, t.host)
	if mm.typ {
		want = append(want, t.msg+".Type().String()")
		if t.inRA {
			t.fail(c, "received counter inside the type switch")
		}
	} else if !t.inRA {
		t.fail(c, "router advertisement metric outside the RouterAdvertisement clause")
	}
	if len(c.Args) != 1+len(want) {
		t.fail(c, "arguments of "+fun)
	}
	for i, w := range want {
		if exprString(c.Args[1+i]) != w {
			t.fail(c.Args[1+i], fmt.Sprintf("label argument %d of %s (expected %s)", i+1, fun, w))
		}
	}
	series := "." + mm.series
	if mm.prefix {
		series += " p.label"
	}
	series += " host"
	if mm.typ {
		series += " msgType"
	}
	return "." + mm.kind + " (" + series + ") " + t.value(c.Args[0]), true
}

// ops: the Lean list expression for a statement list
func (t *mTr) ops(list []ast.Stmt, ind string) string {
	var parts []string
	var cur []string
	flush := func() {
		if len(cur) > 0 {
			parts = append(parts, "[ "+strings.Join(cur, ",\n"+ind+"  ")+" ]")
			cur = nil
		}
	}
	for _, s := range list {
		switch x := s.(type) {
		case *ast.ExprStmt:
			c, ok := x.X.(*ast.CallExpr)
			if !ok {
				t.fail(x, "expression statement")
			}
			if f := exprString(c.Fun); f == t.recv+".debugf" || f == t.recv+".logf" {
				continue
			}
			op, ok := t.metric(c)
			if !ok {
				t.fail(x, "call "+exprString(c.Fun))
			}
			cur = append(cur, op)
		case *ast.AssignStmt:
			src := stmtString(x)
			switch {
			case t.inRA && t.pVar == "" && src == "now := "+t.recv+".now()":
				t.nowN++
				if t.nowN != 1 {
					t.fail(x, "second clock read")
				}
			case t.pVar != "" && x.Tok == token.DEFINE && len(x.Lhs) == 1 && len(x.Rhs) == 1 &&
				exprString(x.Rhs[0]) == "cidrStr("+t.pVar+".Prefix, "+t.pVar+".PrefixLength)" && t.label == "":
				t.label = exprString(x.Lhs[0])
			default:
				t.fail(x, "assignment "+src)
			}
		case *ast.IfStmt:
			if x.Init != nil || x.Else != nil || !t.inRA || t.pVar != "" || exprString(x.Cond) != t.msg+".RouterLifetime != 0" {
				t.fail(x, "if statement (expected `if "+t.msg+".RouterLifetime != 0 { … }` in the RouterAdvertisement clause)")
			}
			flush()
			parts = append(parts, "(if ra.routerLifetime ≠ 0 then\n"+ind+"    "+t.ops(x.Body.List, ind+"    ")+"\n"+ind+"  else [])")
		case *ast.RangeStmt:
			if !t.inRA || t.pVar != "" || x.Tok != token.DEFINE || exprString(x.Key) != "_" || x.Value == nil ||
				exprString(x.X) != "pick[*ndp.PrefixInformation]("+t.msg+".Options)" {
				t.fail(x, "range statement (expected `for _, p := range pick[*ndp.PrefixInformation]("+t.msg+".Options)`)")
			}
			flush()
			t.pVar = exprString(x.Value)
			body := t.ops(x.Body.List, ind+"    ")
			t.pVar, t.label = "", ""
			parts = append(parts, "(pickPI ra.options).flatMap (fun p =>\n"+ind+"    "+body+")")
		case *ast.TypeSwitchStmt:
			if t.inRA {
				t.fail(x, "nested type switch")
			}
			as, ok := x.Assign.(*ast.AssignStmt)
			if !ok || x.Init != nil || as.Tok != token.DEFINE || len(as.Lhs) != 1 || exprString(as.Lhs[0]) != t.msg {
				t.fail(x, "type switch header")
			}
			if ta, ok := as.Rhs[0].(*ast.TypeAssertExpr); !ok || ta.Type != nil || exprString(ta.X) != t.msg {
				t.fail(x, "type switch header")
			}
			if len(x.Body.List) != 1 {
				t.fail(x, fmt.Sprintf("type switch with %d clauses (expected the RouterAdvertisement clause only)", len(x.Body.List)))
			}
			cc := x.Body.List[0].(*ast.CaseClause)
			if len(cc.List) != 1 || exprString(cc.List[0]) != "*ndp.RouterAdvertisement" {
				t.fail(cc, "clause of the type switch")
			}
			flush()
			t.inRA = true
			body := t.ops(cc.Body, ind+"    ")
			t.inRA = false
			parts = append(parts, "(match msg with\n"+ind+"  | .ra ra =>\n"+ind+"    "+body+"\n"+ind+"  | .other _ => [])")
		default:
			t.fail(s, fmt.Sprintf("statement %T", s))
		}
	}
	flush()
	if len(parts) == 0 {
		return "[]"
	}
	return strings.Join(parts, " ++\n"+ind)
}

func translateMonitorHandle(p *pkg) (def leanDef, err error) {
	defer func() {
		if r := recover(); r != nil {
			if te, ok := r.(trErr); ok {
				err = fmt.Errorf("%s", te.msg)
				return
			}
			panic(r)
		}
	}()
	t := &mTr{p: p, fn: "Monitor.handle"}
	fd, ok := p.funcs[t.fn]
	if !ok {
		return def, fmt.Errorf("translate: %s: function not found in %s", t.fn, p.dir)
	}
	t.fd = fd
	if fd.Recv == nil || len(fd.Recv.List) != 1 || len(fd.Recv.List[0].Names) != 1 {
		t.fail(fd, "receiver")
	}
	t.recv = fd.Recv.List[0].Names[0].Name
	var names, types []string
	for _, f := range fd.Type.Params.List {
		for _, n := range f.Names {
			names = append(names, n.Name)
			types = append(types, exprString(f.Type))
		}
	}
	if len(names) != 2 || types[0] != "ndp.Message" || types[1] != "string" || fd.Type.Results != nil {
		t.fail(fd, "signature (expected (msg ndp.Message, host string) without results)")
	}
	t.msg, t.host = names[0], names[1]
	body := t.ops(fd.Body.List, "  ")
	var sb strings.Builder
	sb.WriteString("/-- " + p.fileOf[fd] + ": the metric operations of func " + docSafe(funcSig(fd)) + ", in program order\n")
	sb.WriteString("    msg : the message (an RA with the fields handle reads, or another type); msgType = msg.Type(); host : the sender; now : m.now() -/\n")
	sb.WriteString("def Monitor_handle (msg : Corerad.Model.Monitor.Msg) (msgType host : Nat) (now : Time) : List Corerad.Model.Monitor.MetricOp :=\n")
	sb.WriteString("  open Corerad.Model.Monitor in\n  " + body)
	return leanDef{"Monitor_handle", sb.String()}, nil
}
