// translate_loop.go — Go→Lean translation of the LIST-PROCESSING functions of corerad: the three
// wildcard expansions of internal/plugin/plugin.go
//
//	(*Prefix).current   `::/64`  (C13)
//	(*RDNSS).current    `::`     (C14)
//	(*Route).current    `::/0`   (C15)
//
// On every extractor run the current source text of each function is re-translated into a Lean
// definition in Corerad/Gen/Trans.lean (namespace Corerad.Gen.Trans).  Props/TransC13.lean,
// TransC14.lean, TransC15.lean prove each translated definition — a left fold over the operating
// system's list with the loop-carried variables as its state — equal to the declarative model
// (`sortBy ∘ dedupe ∘ map ∘ filter`, `foldl betterRDNSS ∘ filter`) for ALL lists, so the property
// theorems of C13–C15 hold of what the translator read.
//
// Separate from translate.go (whose subset has no loops); shares only its Lean expression tree
// (lx / emit), pkg loader and name tables.  go/ast only, no type checker; the translator never
// guesses: any construct outside the subset below is reported
//
//	translate: <func>: unsupported <construct> at <file:line>
//
// and the function is left out of Trans.lean (its equivalence theorems stop building).
//
// # Subset and semantics
//
// Types (by their printed names; `netip` / `system` must be the file's unaliased imports of net/netip
// and …/internal/system):
//
//	netip.Prefix → Pfx     netip.Addr → Addr     system.IP → IPRec     system.Route → RouteRec
//	    (Lean TYPE VARIABLES of the generated definition)
//	bool → Bool    int → Int    []T → List T    map[T]struct{} → List T  (a set: only membership
//	    test and insertion are supported, so the representation is unobservable)
//
// Function shape: a method `func (r *R) f() (T, error)`; result `Option T` (`none` = a non-nil error).
//
// Statements
//
//	xs, err := r.F()                      `match recv_F with | none => none | some xs => …`
//	if err != nil { return …, <error> }      (r.F a field of type func() ([]E, error): the operating
//	                                          system's answer becomes the parameter recv_F : Option (List E);
//	                                          the two statements must appear exactly like this)
//	var x T                               let x : T := zero    ([] for slices; `zero_IPRec` — a parameter —
//	                                          for system.IP)
//	x := make(map[T]struct{})             let x : List T := []
//	x := e,  x = e                        let x : T := e       (`:=` of a visible name is unsupported)
//	x = append(x, e)                      let x := x ++ [e]
//	m[k] = struct{}{}                     let m := k :: m
//	if _, ok := m[k]; ok { S }            if decide (k ∈ m) then S else rest      } S must end in continue /
//	if c { S }                            if c then S else rest                   } return (no else branch)
//	[L:] for _, a := range xs { B }       let st := List.foldl (fun st a => ⟦B⟧) (c₁, …, cₙ) xs; let cᵢ := st.i
//	                                          c₁…cₙ = the variables declared before the loop that B assigns
//	                                          (in declaration order); B's value is the tuple of their
//	                                          final values; `continue` / `continue L` = that tuple at
//	                                          that point.  return / break / goto inside B: unsupported.
//	for _, b := range ys {                if ys.any (fun b => c) then ⟦continue L⟧ else rest
//	    if c { continue L } }                (inside the loop labelled L; exactly this shape)
//	slices.SortStableFunc(v,              let v := sortStableFunc (fun a b => e) v
//	    func(a, b T) int { return e })       (Corerad.Model.sortStableFunc: a stable sort by `cmp a b ≤ 0`;
//	                                          every stable sort computes the same list for a comparator
//	                                          that is a total preorder — trusted for the Go library)
//	return e, nil                         some e
//	return e, <error>                     none      (<error> = fmt.Errorf(…), errors.New(…), err)
//
// Expressions
//
//	x (local), r.F (receiver field → parameter recv_F), v.F (field of system.IP / system.Route →
//	uninterpreted IP_F / Route_F applied to v), x.M(args) (method of netip.Addr / netip.Prefix from the
//	table below → uninterpreted Addr_M / Prefix_M), f(args) for a package function over the opaque
//	types (→ uninterpreted parameter f; its signature is read from the declaration),
//	|| && ! == != < <= > >= (Bool-valued), integer literals, true, false.
//
// Every uninterpreted function is a PARAMETER of the generated definition, in order of first use;
// the equivalence theorems bind them by name and instantiate them with the model's functions.
//
// # Trusted
//
// go/parser's AST is the program; the methods in the table and the record fields are pure
// functions of their operands; `range` visits the slice in order; a map used only through
// `_, ok := m[k]` and `m[k] = struct{}{}` is a set; slices.SortStableFunc is a stable sort.
package main

import (
	"fmt"
	"go/ast"
	"go/token"
	"sort"
	"strings"
)

type loopSpec struct {
	dir, fn, lean, prop string
}

var loopWhitelist = []loopSpec{
	{"internal/plugin", "Prefix.current", "Prefix_current", "C13"},
	{"internal/plugin", "RDNSS.current", "RDNSS_current", "C14"},
	{"internal/plugin", "Route.current", "Route_current", "C15"},
}

// ---------------------------------------------------------------------------------------------
// types

type lt struct {
	k string // Pfx Addr IPRec RouteRec Bool Int List Set
	e *lt
}

func (t lt) lean() string {
	switch t.k {
	case "List", "Set":
		return "List " + t.e.atom()
	}
	return t.k
}

func (t lt) atom() string {
	s := t.lean()
	if strings.Contains(s, " ") {
		return "(" + s + ")"
	}
	return s
}

func (t lt) eq(u lt) bool {
	if t.k != u.k {
		return false
	}
	if t.e == nil || u.e == nil {
		return t.e == nil && u.e == nil
	}
	return t.e.eq(*u.e)
}

var opaqueKinds = map[string]bool{"Pfx": true, "Addr": true, "IPRec": true, "RouteRec": true}

// records: Lean type variable → (package dir, struct name, parameter prefix)
var loopRecords = map[string]struct{ dir, name, pfx string }{
	"IPRec":    {"internal/system", "IP", "IP"},
	"RouteRec": {"internal/system", "Route", "Route"},
}

type lmethod struct {
	args []lt
	res  lt
}

var (
	tPfx  = lt{k: "Pfx"}
	tAdr  = lt{k: "Addr"}
	tBoo  = lt{k: "Bool"}
	tInt_ = lt{k: "Int"}
)

var loopMethods = map[string]lmethod{
	"Pfx.Addr":                {nil, tAdr},
	"Pfx.Bits":                {nil, tInt_},
	"Pfx.Masked":              {nil, tPfx},
	"Pfx.IsSingleIP":          {nil, tBoo},
	"Pfx.IsValid":             {nil, tBoo},
	"Pfx.Contains":            {[]lt{tAdr}, tBoo},
	"Pfx.Overlaps":            {[]lt{tPfx}, tBoo},
	"Addr.Is4":                {nil, tBoo},
	"Addr.Is6":                {nil, tBoo},
	"Addr.Is4In6":             {nil, tBoo},
	"Addr.IsValid":            {nil, tBoo},
	"Addr.IsLinkLocalUnicast": {nil, tBoo},
	"Addr.IsPrivate":          {nil, tBoo},
	"Addr.IsGlobalUnicast":    {nil, tBoo},
	"Addr.IsLoopback":         {nil, tBoo},
	"Addr.IsMulticast":        {nil, tBoo},
	"Addr.IsUnspecified":      {nil, tBoo},
	"Addr.Less":               {[]lt{tAdr}, tBoo},
	"Addr.Compare":            {[]lt{tAdr}, tInt_},
}

func methodPrefix(k string) string {
	if k == "Pfx" {
		return "Prefix"
	}
	return k
}

// ---------------------------------------------------------------------------------------------
// translation context

type lvar struct {
	name string
	t    lt
}

type lenv []lvar

func (e lenv) get(name string) (lt, bool) {
	for i := len(e) - 1; i >= 0; i-- {
		if e[i].name == name {
			return e[i].t, true
		}
	}
	return lt{}, false
}

func (e lenv) with(name string, t lt) lenv {
	n := make(lenv, len(e), len(e)+1)
	copy(n, e)
	return append(n, lvar{name, t})
}

// loop frame: what `continue` means
type lframe struct {
	label   string
	carried []lvar
}

type ltr struct {
	p      *pkg
	spec   loopSpec
	fd     *ast.FuncDecl
	recv   string
	recvSt *ast.StructType
	res    lt

	params  []param
	pnames  map[string]string // parameter name → Lean type
	tvars   map[string]bool   // opaque type variables used
	decEq   map[string]bool   // type variables that need DecidableEq
	locals  map[string]bool   // every local name of the body
	structs map[string]*ast.StructType
}

func (t *ltr) fail(n ast.Node, what string) {
	at := ""
	if n != nil && n.Pos().IsValid() {
		pos := fset.Position(n.Pos())
		at = fmt.Sprintf(" at %s:%d", t.p.fileOf[t.fd], pos.Line)
	}
	panic(trErr{fmt.Sprintf("translate: %s: unsupported %s%s", t.spec.fn, what, at)})
}

func (t *ltr) use(typ lt) {
	for x := &typ; x != nil; x = x.e {
		if opaqueKinds[x.k] {
			t.tvars[x.k] = true
		}
	}
}

func (t *ltr) param(n ast.Node, name, typ, doc string) string {
	if old, ok := t.pnames[name]; ok {
		if old != typ {
			t.fail(n, "parameter "+name+" used at two types ("+old+", "+typ+")")
		}
		return name
	}
	t.pnames[name] = typ
	t.params = append(t.params, param{name, typ, doc})
	return name
}

// goTy maps a Go type expression to a translation type.
func (t *ltr) goTy(e ast.Expr) (lt, bool) {
	switch x := e.(type) {
	case *ast.Ident:
		switch x.Name {
		case "bool":
			return tBoo, true
		case "int":
			return tInt_, true
		}
	case *ast.SelectorExpr:
		switch exprString(x) {
		case "netip.Prefix":
			return tPfx, true
		case "netip.Addr":
			return tAdr, true
		case "system.IP":
			return lt{k: "IPRec"}, true
		case "system.Route":
			return lt{k: "RouteRec"}, true
		}
	case *ast.ArrayType:
		if x.Len == nil {
			if el, ok := t.goTy(x.Elt); ok {
				return lt{k: "List", e: &el}, true
			}
		}
	case *ast.MapType:
		if st, ok := x.Value.(*ast.StructType); ok && (st.Fields == nil || len(st.Fields.List) == 0) {
			if el, ok := t.goTy(x.Key); ok {
				return lt{k: "Set", e: &el}, true
			}
		}
	}
	return lt{}, false
}

// the same for types written inside package system (IP, Route without qualifier)
func (t *ltr) goTyIn(dir string, e ast.Expr) (lt, bool) {
	if dir == "internal/system" {
		if id, ok := e.(*ast.Ident); ok {
			switch id.Name {
			case "IP":
				return lt{k: "IPRec"}, true
			case "Route":
				return lt{k: "RouteRec"}, true
			}
		}
	}
	return t.goTy(e)
}

func structField(st *ast.StructType, name string) ast.Expr {
	for _, f := range st.Fields.List {
		for _, n := range f.Names {
			if n.Name == name {
				return f.Type
			}
		}
	}
	return nil
}

func (t *ltr) zero(n ast.Node, typ lt) string {
	switch typ.k {
	case "List", "Set":
		return "[]"
	case "Bool":
		return "false"
	case "Int":
		return "0"
	case "IPRec", "RouteRec", "Pfx", "Addr":
		return t.param(n, "zero_"+typ.k, typ.k, "the zero value of the Go type behind "+typ.k)
	}
	t.fail(n, "zero value of "+typ.lean())
	return ""
}

func (t *ltr) checkLocal(n ast.Node, name string) {
	if reservedNames[name] || name == "st" || name == "List" || name == "sortStableFunc" || name == "Pfx" ||
		name == "RouteRec" || strings.HasPrefix(name, "recv_") || strings.HasPrefix(name, "zero_") ||
		strings.HasPrefix(name, "IP_") || strings.HasPrefix(name, "Route_") || strings.HasPrefix(name, "Addr_") ||
		strings.HasPrefix(name, "Prefix_") {
		t.fail(n, "identifier "+name+" (clashes with a name of the generated text)")
	}
	if _, isFn := t.p.funcs[name]; isFn {
		t.fail(n, "local "+name+" shadowing a package function")
	}
	t.locals[name] = true
}

// ---------------------------------------------------------------------------------------------
// expressions (Bool-valued conditions are Lean Bool terms)

func (t *ltr) expr(e ast.Expr, env lenv) (string, lt) {
	switch x := e.(type) {
	case *ast.ParenExpr:
		return t.expr(x.X, env)
	case *ast.Ident:
		switch x.Name {
		case "true", "false":
			if _, shadow := env.get(x.Name); !shadow {
				return x.Name, tBoo
			}
		}
		if typ, ok := env.get(x.Name); ok {
			return ln(x.Name), typ
		}
		t.fail(x, "identifier "+x.Name)
	case *ast.BasicLit:
		if x.Kind == token.INT && isDigits(x.Value) {
			return x.Value, tInt_
		}
		t.fail(x, "literal "+x.Value)
	case *ast.UnaryExpr:
		if x.Op == token.NOT {
			s, typ := t.expr(x.X, env)
			if typ.k != "Bool" {
				t.fail(x, "! on "+typ.lean())
			}
			return "(!" + s + ")", tBoo
		}
		t.fail(x, "unary "+x.Op.String())
	case *ast.BinaryExpr:
		a, ta := t.expr(x.X, env)
		b, tb := t.expr(x.Y, env)
		switch x.Op {
		case token.LOR, token.LAND:
			if ta.k != "Bool" || tb.k != "Bool" {
				t.fail(x, x.Op.String()+" on non-bool operands")
			}
			op := "||"
			if x.Op == token.LAND {
				op = "&&"
			}
			return "(" + a + " " + op + " " + b + ")", tBoo
		case token.EQL, token.NEQ:
			if !ta.eq(tb) || (ta.k != "Int" && ta.k != "Bool") {
				t.fail(x, "comparison of "+ta.lean()+" and "+tb.lean())
			}
			op := "=="
			if x.Op == token.NEQ {
				op = "!="
			}
			return "(" + a + " " + op + " " + b + ")", tBoo
		case token.LSS, token.LEQ, token.GTR, token.GEQ:
			if ta.k != "Int" || tb.k != "Int" {
				t.fail(x, "ordering of "+ta.lean()+" and "+tb.lean())
			}
			op := map[token.Token]string{token.LSS: "<", token.LEQ: "≤", token.GTR: ">", token.GEQ: "≥"}[x.Op]
			return "(decide (" + a + " " + op + " " + b + "))", tBoo
		}
		t.fail(x, "operator "+x.Op.String())
	case *ast.SelectorExpr:
		// receiver field
		if id, ok := x.X.(*ast.Ident); ok && id.Name == t.recv {
			if _, shadow := env.get(id.Name); shadow {
				t.fail(x, "receiver shadowed")
			}
			ft := structField(t.recvSt, x.Sel.Name)
			if ft == nil {
				t.fail(x, "unknown receiver field "+x.Sel.Name)
			}
			typ, ok := t.goTy(ft)
			if !ok {
				t.fail(x, "receiver field "+x.Sel.Name+" of type "+exprString(ft))
			}
			t.use(typ)
			return t.param(x, "recv_"+x.Sel.Name, typ.lean(), "the receiver's field "+x.Sel.Name), typ
		}
		// field of an opaque record
		s, typ := t.expr(x.X, env)
		rec, ok := loopRecords[typ.k]
		if !ok {
			t.fail(x, "field "+x.Sel.Name+" of "+typ.lean())
		}
		st := t.recordStruct(x, typ.k)
		ft := structField(st, x.Sel.Name)
		if ft == nil {
			t.fail(x, "unknown field "+rec.name+"."+x.Sel.Name)
		}
		ftyp, ok := t.goTyIn(rec.dir, ft)
		if !ok {
			t.fail(x, "field "+rec.name+"."+x.Sel.Name+" of type "+exprString(ft))
		}
		t.use(ftyp)
		name := t.param(x, rec.pfx+"_"+x.Sel.Name, typ.k+" → "+ftyp.lean(), "<system."+rec.name+">."+x.Sel.Name)
		return "(" + name + " " + s + ")", ftyp
	case *ast.CallExpr:
		if x.Ellipsis.IsValid() {
			t.fail(x, "variadic call")
		}
		switch f := x.Fun.(type) {
		case *ast.SelectorExpr:
			// method of netip.Addr / netip.Prefix
			s, typ := t.expr(f.X, env)
			m, ok := loopMethods[typ.k+"."+f.Sel.Name]
			if !ok {
				t.fail(x, "method "+f.Sel.Name+" of "+typ.lean())
			}
			if len(x.Args) != len(m.args) {
				t.fail(x, "argument count of "+f.Sel.Name)
			}
			parts := []string{typ.k}
			call := s
			for i, a := range x.Args {
				as, at := t.expr(a, env)
				if !at.eq(m.args[i]) {
					t.fail(a, "argument of "+f.Sel.Name+" of type "+at.lean())
				}
				parts = append(parts, m.args[i].lean())
				call += " " + as
			}
			parts = append(parts, m.res.lean())
			t.use(m.res)
			gq := map[string]string{"Pfx": "netip.Prefix", "Addr": "netip.Addr"}[typ.k]
			name := t.param(x, methodPrefix(typ.k)+"_"+f.Sel.Name, strings.Join(parts, " → "), "("+gq+")."+f.Sel.Name)
			return "(" + name + " " + call + ")", m.res
		case *ast.Ident:
			// package function over the opaque types
			if _, shadow := env.get(f.Name); shadow {
				t.fail(x, "call of a local")
			}
			fd, ok := t.p.funcs[f.Name]
			if !ok || fd.Recv != nil {
				t.fail(x, "call of "+f.Name)
			}
			var ptys []lt
			for _, fl := range fd.Type.Params.List {
				pt, ok := t.goTy(fl.Type)
				if !ok {
					t.fail(x, "parameter type of "+f.Name+": "+exprString(fl.Type))
				}
				for range fl.Names {
					ptys = append(ptys, pt)
				}
				if len(fl.Names) == 0 {
					ptys = append(ptys, pt)
				}
			}
			if fd.Type.Results == nil || len(fd.Type.Results.List) != 1 || len(fd.Type.Results.List[0].Names) > 1 {
				t.fail(x, "result of "+f.Name)
			}
			rt, ok := t.goTy(fd.Type.Results.List[0].Type)
			if !ok {
				t.fail(x, "result type of "+f.Name)
			}
			if len(ptys) != len(x.Args) {
				t.fail(x, "argument count of "+f.Name)
			}
			var parts []string
			call := ""
			for i, a := range x.Args {
				as, at := t.expr(a, env)
				if !at.eq(ptys[i]) {
					t.fail(a, "argument of "+f.Name+" of type "+at.lean())
				}
				parts = append(parts, ptys[i].lean())
				call += " " + as
			}
			parts = append(parts, rt.lean())
			t.use(rt)
			name := t.param(x, f.Name, strings.Join(parts, " → "), "func "+f.Name+sigString(fd.Type))
			return "(" + name + call + ")", rt
		}
		t.fail(x, "call "+exprString(x.Fun))
	}
	t.fail(e, fmt.Sprintf("expression %T", e))
	return "", lt{}
}

func (t *ltr) recordStruct(n ast.Node, kind string) *ast.StructType {
	if st, ok := t.structs[kind]; ok {
		return st
	}
	rec := loopRecords[kind]
	sp, err := loadPkg(t.p.repo, rec.dir)
	if err != nil {
		t.fail(n, "package "+rec.dir+": "+err.Error())
	}
	st := sp.structs[rec.name]
	if st == nil || sp.nstruct[rec.name] != 1 {
		t.fail(n, "struct "+rec.dir+"."+rec.name+" not declared exactly once")
	}
	t.structs[kind] = st
	return st
}

func (t *ltr) boolCond(e ast.Expr, env lenv) string {
	s, typ := t.expr(e, env)
	if typ.k != "Bool" {
		t.fail(e, "condition of type "+typ.lean())
	}
	return s + " = true"
}

// ---------------------------------------------------------------------------------------------
// statements

func tupleOf(vs []lvar) (val, typ string) {
	if len(vs) == 0 {
		return "()", "Unit"
	}
	var ns, ts []string
	for _, v := range vs {
		ns = append(ns, ln(v.name))
		ts = append(ts, v.t.atom())
	}
	if len(vs) == 1 {
		return ns[0], vs[0].t.lean()
	}
	return "(" + strings.Join(ns, ", ") + ")", strings.Join(ts, " × ")
}

func proj(i, n int) string {
	if n == 1 {
		return "st"
	}
	s := "st"
	for j := 0; j < i; j++ {
		s += ".2"
	}
	if i < n-1 {
		s += ".1"
	}
	return s
}

func isErrorExpr(e ast.Expr) bool {
	switch x := e.(type) {
	case *ast.Ident:
		return x.Name == "err"
	case *ast.CallExpr:
		s := exprString(x.Fun)
		return s == "fmt.Errorf" || s == "errors.New"
	}
	return false
}

// assignedOuter lists the variables of env that the statements assign (x = …, x op= …, m[k] = …).
func (t *ltr) assignedOuter(list []ast.Stmt, env lenv) []lvar {
	set := map[string]bool{}
	for _, s := range list {
		ast.Inspect(s, func(n ast.Node) bool {
			switch x := n.(type) {
			case *ast.FuncLit:
				t.fail(x, "function literal inside a loop body")
			case *ast.IncDecStmt:
				t.fail(x, "++/-- inside a loop body")
			case *ast.AssignStmt:
				if x.Tok == token.DEFINE {
					return true
				}
				for _, l := range x.Lhs {
					switch l := l.(type) {
					case *ast.Ident:
						set[l.Name] = true
					case *ast.IndexExpr:
						if id, ok := l.X.(*ast.Ident); ok {
							set[id.Name] = true
						} else {
							t.fail(l, "assignment target")
						}
					default:
						t.fail(l, "assignment target")
					}
				}
			}
			return true
		})
	}
	var out []lvar
	seen := map[string]bool{}
	for _, v := range env {
		if set[v.name] && !seen[v.name] {
			seen[v.name] = true
			typ, _ := env.get(v.name)
			out = append(out, lvar{v.name, typ})
		}
	}
	return out
}

// block translates list; k is what follows it (nil inside a loop body: the body's end = continue).
func (t *ltr) block(list []ast.Stmt, env lenv, frames []lframe, k func(lenv) lx) lx {
	if len(list) == 0 {
		return k(env)
	}
	s, rest := list[0], list[1:]
	next := func(e lenv) lx { return t.block(rest, e, frames, k) }
	switch x := s.(type) {
	case *ast.EmptyStmt:
		return next(env)
	case *ast.DeclStmt:
		gd, ok := x.Decl.(*ast.GenDecl)
		if !ok || gd.Tok != token.VAR || len(gd.Specs) != 1 {
			t.fail(x, "declaration")
		}
		vs := gd.Specs[0].(*ast.ValueSpec)
		if len(vs.Names) != 1 || len(vs.Values) != 0 || vs.Type == nil {
			t.fail(x, "var declaration (only `var x T`)")
		}
		typ, ok := t.goTy(vs.Type)
		if !ok {
			t.fail(x, "type "+exprString(vs.Type))
		}
		name := vs.Names[0].Name
		t.declare(x, name, env)
		t.use(typ)
		return lLet{ln(name), typ.lean(), lAtom(t.zero(x, typ)), next(env.with(name, typ))}
	case *ast.AssignStmt:
		return t.assign(x, rest, env, frames, k)
	case *ast.IfStmt:
		if x.Else != nil {
			t.fail(x, "if with else")
		}
		var cond string
		if x.Init != nil {
			// if _, ok := m[k]; ok { … }
			as, ok := x.Init.(*ast.AssignStmt)
			if !ok || as.Tok != token.DEFINE || len(as.Lhs) != 2 || len(as.Rhs) != 1 || exprString(as.Lhs[0]) != "_" {
				t.fail(x, "if with this init statement")
			}
			okv, isId := as.Lhs[1].(*ast.Ident)
			ix, isIx := as.Rhs[0].(*ast.IndexExpr)
			cv, isC := x.Cond.(*ast.Ident)
			if !isId || !isIx || !isC || cv.Name != okv.Name {
				t.fail(x, "if with this init statement")
			}
			ms, mt := t.expr(ix.X, env)
			ks, kt := t.expr(ix.Index, env)
			if mt.k != "Set" || !mt.e.eq(kt) {
				t.fail(x, "lookup in "+mt.lean())
			}
			if usesIdent(x.Body, okv.Name) {
				t.fail(x, "use of the lookup result inside the branch")
			}
			if opaqueKinds[kt.k] {
				t.decEq[kt.k] = true
			}
			cond = "decide (" + ks + " ∈ " + ms + ") = true"
		} else {
			cond = t.boolCond(x.Cond, env)
		}
		if !t.terminates(x.Body.List) {
			t.fail(x, "if whose branch does not end in continue / return")
		}
		then := t.block(x.Body.List, env, frames, func(lenv) lx { t.fail(x, "fall-through"); return nil })
		return lIf{cond, then, next(env)}
	case *ast.BranchStmt:
		if x.Tok != token.CONTINUE || len(frames) == 0 {
			t.fail(x, x.Tok.String())
		}
		if len(rest) != 0 {
			t.fail(rest[0], "statement after continue")
		}
		fr := frames[len(frames)-1]
		if x.Label != nil && x.Label.Name != fr.label {
			t.fail(x, "continue to label "+x.Label.Name)
		}
		v, _ := tupleOf(fr.carried)
		return lAtom(v)
	case *ast.LabeledStmt:
		rs, ok := x.Stmt.(*ast.RangeStmt)
		if !ok {
			t.fail(x, "label on a statement that is not a range loop")
		}
		return t.rangeLoop(rs, x.Label.Name, env, frames, next)
	case *ast.RangeStmt:
		return t.rangeLoop(x, "", env, frames, next)
	case *ast.ExprStmt:
		c, ok := x.X.(*ast.CallExpr)
		if !ok || exprString(c.Fun) != "slices.SortStableFunc" || len(c.Args) != 2 {
			t.fail(x, "statement "+exprString(x.X))
		}
		if len(frames) != 0 {
			t.fail(x, "sort inside a loop")
		}
		v, ok := c.Args[0].(*ast.Ident)
		fl, ok2 := c.Args[1].(*ast.FuncLit)
		if !ok || !ok2 {
			t.fail(x, "arguments of slices.SortStableFunc")
		}
		vt, ok := env.get(v.Name)
		if !ok || vt.k != "List" {
			t.fail(x, "sorted value")
		}
		// func(a, b T) int { return e }
		ft := fl.Type
		if len(ft.Params.List) != 1 || len(ft.Params.List[0].Names) != 2 || ft.Results == nil || len(ft.Results.List) != 1 ||
			exprString(ft.Results.List[0].Type) != "int" || len(fl.Body.List) != 1 {
			t.fail(fl, "comparator shape")
		}
		pt, ok := t.goTy(ft.Params.List[0].Type)
		if !ok || !pt.eq(*vt.e) {
			t.fail(fl, "comparator parameter type")
		}
		ret, ok := fl.Body.List[0].(*ast.ReturnStmt)
		if !ok || len(ret.Results) != 1 {
			t.fail(fl, "comparator body")
		}
		a, b := ft.Params.List[0].Names[0].Name, ft.Params.List[0].Names[1].Name
		t.checkLocal(fl, a)
		t.checkLocal(fl, b)
		if _, vis := env.get(a); vis {
			t.fail(fl, "comparator parameter shadowing "+a)
		}
		if _, vis := env.get(b); vis {
			t.fail(fl, "comparator parameter shadowing "+b)
		}
		cenv := lenv{{a, pt}, {b, pt}} // the comparator must not capture locals
		es, et := t.expr(ret.Results[0], cenv)
		if et.k != "Int" {
			t.fail(fl, "comparator result")
		}
		val := fmt.Sprintf("Corerad.Model.sortStableFunc (fun (%s %s : %s) => %s) %s", ln(a), ln(b), pt.lean(), strip(es), ln(v.Name))
		return lLet{ln(v.Name), vt.lean(), lAtom(val), next(env)}
	case *ast.ReturnStmt:
		if len(frames) != 0 {
			t.fail(x, "return inside a loop body")
		}
		if len(rest) != 0 {
			t.fail(rest[0], "statement after return")
		}
		if len(x.Results) != 2 {
			t.fail(x, "return shape")
		}
		if exprString(x.Results[1]) == "nil" {
			s, typ := t.expr(x.Results[0], env)
			if !typ.eq(t.res) {
				t.fail(x, "returned value of type "+typ.lean())
			}
			return lAtom("some " + s)
		}
		if !isErrorExpr(x.Results[1]) {
			t.fail(x, "returned error "+exprString(x.Results[1]))
		}
		return lAtom("none")
	}
	t.fail(s, fmt.Sprintf("statement %T", s))
	return nil
}

func usesIdent(n ast.Node, name string) bool {
	found := false
	ast.Inspect(n, func(m ast.Node) bool {
		if id, ok := m.(*ast.Ident); ok && id.Name == name {
			found = true
		}
		return true
	})
	return found
}

func (t *ltr) terminates(list []ast.Stmt) bool {
	if len(list) == 0 {
		return false
	}
	switch x := list[len(list)-1].(type) {
	case *ast.ReturnStmt:
		return true
	case *ast.BranchStmt:
		return x.Tok == token.CONTINUE
	}
	return false
}

func (t *ltr) declare(n ast.Node, name string, env lenv) {
	t.checkLocal(n, name)
	if _, vis := env.get(name); vis {
		t.fail(n, "redeclaration of the visible name "+name)
	}
}

func (t *ltr) assign(x *ast.AssignStmt, rest []ast.Stmt, env lenv, frames []lframe, k func(lenv) lx) lx {
	next := func(e lenv) lx { return t.block(rest, e, frames, k) }
	// xs, err := r.F(); if err != nil { return …, <error> }
	if x.Tok == token.DEFINE && len(x.Lhs) == 2 && len(x.Rhs) == 1 && exprString(x.Lhs[1]) == "err" {
		c, ok := x.Rhs[0].(*ast.CallExpr)
		var sel *ast.SelectorExpr
		if ok {
			sel, ok = c.Fun.(*ast.SelectorExpr)
		}
		if !ok || len(c.Args) != 0 || exprString(sel.X) != t.recv || len(frames) != 0 {
			t.fail(x, "assignment "+exprString(x.Rhs[0]))
		}
		ft, ok := structField(t.recvSt, sel.Sel.Name).(*ast.FuncType)
		if !ok || ft.Params.NumFields() != 0 || ft.Results == nil || len(ft.Results.List) != 2 || exprString(ft.Results.List[1].Type) != "error" {
			t.fail(x, "receiver field "+sel.Sel.Name+" is not a func() (T, error)")
		}
		typ, ok := t.goTy(ft.Results.List[0].Type)
		if !ok {
			t.fail(x, "result type of "+sel.Sel.Name)
		}
		if len(rest) == 0 {
			t.fail(x, "missing error check")
		}
		ifs, ok := rest[0].(*ast.IfStmt)
		if !ok || ifs.Init != nil || ifs.Else != nil || exprString(ifs.Cond) != "err != nil" || len(ifs.Body.List) != 1 {
			t.fail(rest[0], "error check shape")
		}
		ret, ok := ifs.Body.List[0].(*ast.ReturnStmt)
		if !ok || len(ret.Results) != 2 || !isErrorExpr(ret.Results[1]) {
			t.fail(ifs, "error check shape")
		}
		name := x.Lhs[0].(*ast.Ident).Name
		t.declare(x, name, env)
		t.use(typ)
		p := t.param(x, "recv_"+sel.Sel.Name, "Option "+typ.atom(), "what the receiver's "+sel.Sel.Name+"() returns (none = an error)")
		return lMatch{p, ln(name), lAtom("none"), t.block(rest[1:], env.with(name, typ), frames, k)}
	}
	if len(x.Lhs) != 1 || len(x.Rhs) != 1 {
		t.fail(x, "assignment shape")
	}
	// m[k] = struct{}{}
	if ix, ok := x.Lhs[0].(*ast.IndexExpr); ok {
		if x.Tok != token.ASSIGN || exprString(x.Rhs[0]) != "struct{…}{…}" && !isEmptyStructLit(x.Rhs[0]) {
			t.fail(x, "map assignment")
		}
		id, ok := ix.X.(*ast.Ident)
		if !ok {
			t.fail(x, "map assignment target")
		}
		mt, ok := env.get(id.Name)
		ks, kt := t.expr(ix.Index, env)
		if !ok || mt.k != "Set" || !mt.e.eq(kt) {
			t.fail(x, "map assignment")
		}
		return lLet{ln(id.Name), mt.lean(), lAtom(ks + " :: " + ln(id.Name)), next(env)}
	}
	id, ok := x.Lhs[0].(*ast.Ident)
	if !ok {
		t.fail(x, "assignment target")
	}
	switch x.Tok {
	case token.DEFINE:
		// x := make(map[T]struct{})
		if c, ok := x.Rhs[0].(*ast.CallExpr); ok && exprString(c.Fun) == "make" {
			if len(c.Args) != 1 {
				t.fail(x, "make with a size")
			}
			typ, ok := t.goTy(c.Args[0])
			if !ok || typ.k != "Set" {
				t.fail(x, "make of "+exprString(c.Args[0]))
			}
			t.declare(x, id.Name, env)
			t.use(typ)
			return lLet{ln(id.Name), typ.lean(), lAtom("[]"), next(env.with(id.Name, typ))}
		}
		s, typ := t.expr(x.Rhs[0], env)
		t.declare(x, id.Name, env)
		return lLet{ln(id.Name), typ.lean(), lAtom(strip(s)), next(env.with(id.Name, typ))}
	case token.ASSIGN:
		vt, ok := env.get(id.Name)
		if !ok {
			t.fail(x, "assignment to "+id.Name)
		}
		// x = append(x, e)
		if c, ok := x.Rhs[0].(*ast.CallExpr); ok && exprString(c.Fun) == "append" {
			if len(c.Args) != 2 || exprString(c.Args[0]) != id.Name || c.Ellipsis.IsValid() || vt.k != "List" {
				t.fail(x, "append shape")
			}
			es, et := t.expr(c.Args[1], env)
			if !et.eq(*vt.e) {
				t.fail(x, "appended value of type "+et.lean())
			}
			return lLet{ln(id.Name), vt.lean(), lAtom(ln(id.Name) + " ++ [" + strip(es) + "]"), next(env)}
		}
		s, typ := t.expr(x.Rhs[0], env)
		if !typ.eq(vt) {
			t.fail(x, "assignment of "+typ.lean()+" to "+vt.lean())
		}
		return lLet{ln(id.Name), vt.lean(), lAtom(strip(s)), next(env)}
	}
	t.fail(x, "assignment operator "+x.Tok.String())
	return nil
}

func isEmptyStructLit(e ast.Expr) bool {
	cl, ok := e.(*ast.CompositeLit)
	if !ok || len(cl.Elts) != 0 {
		return false
	}
	st, ok := cl.Type.(*ast.StructType)
	return ok && (st.Fields == nil || len(st.Fields.List) == 0)
}

// lFold: List.foldl (fun (stName : stTyp) (elem : elemTyp) => body) init xs
type lFold struct {
	stName, stTyp, elem, elemTyp string
	body                         lx
	init, xs                     string
}

func (t *ltr) rangeLoop(rs *ast.RangeStmt, label string, env lenv, frames []lframe, next func(lenv) lx) lx {
	if rs.Tok != token.DEFINE || rs.Key == nil || exprString(rs.Key) != "_" || rs.Value == nil {
		t.fail(rs, "range clause (only `for _, x := range xs`)")
	}
	el, ok := rs.Value.(*ast.Ident)
	if !ok {
		t.fail(rs, "range variable")
	}
	xs, xt := t.expr(rs.X, env)
	if _, isId := rs.X.(*ast.Ident); !isId || xt.k != "List" {
		t.fail(rs, "range over "+exprString(rs.X))
	}
	t.declare(rs, el.Name, env)
	benv := env.with(el.Name, *xt.e)
	// inner existence loop: for _, b := range ys { if c { continue L } }
	if len(frames) == 1 && label == "" && len(rs.Body.List) == 1 {
		if ifs, ok := rs.Body.List[0].(*ast.IfStmt); ok && ifs.Init == nil && ifs.Else == nil && len(ifs.Body.List) == 1 {
			if br, ok := ifs.Body.List[0].(*ast.BranchStmt); ok && br.Tok == token.CONTINUE && br.Label != nil &&
				br.Label.Name == frames[0].label && frames[0].label != "" {
				c, ct := t.expr(ifs.Cond, benv)
				if ct.k != "Bool" {
					t.fail(ifs, "condition")
				}
				v, _ := tupleOf(frames[0].carried)
				cond := fmt.Sprintf("(List.any %s (fun (%s : %s) => %s)) = true", xs, ln(el.Name), xt.e.lean(), strip(c))
				return lIf{cond, lAtom(v), next(env)}
			}
		}
	}
	if len(frames) != 0 {
		t.fail(rs, "nested loop (other than `if c { continue L }` over the outer label)")
	}
	carried := t.assignedOuter(rs.Body.List, env)
	if len(carried) == 0 {
		t.fail(rs, "loop without an effect on a variable declared before it")
	}
	for _, c := range carried {
		if c.name == el.Name {
			t.fail(rs, "assignment to the range variable")
		}
	}
	val, typ := tupleOf(carried)
	fr := lframe{label, carried}
	body := t.block(rs.Body.List, benv, []lframe{fr}, func(lenv) lx { return lAtom(val) })
	// unpack the state at the top of the body and after the loop
	unpack := func(inner lx) lx {
		for i := len(carried) - 1; i >= 0; i-- {
			if len(carried) == 1 {
				break
			}
			inner = lLet{ln(carried[i].name), carried[i].t.lean(), lAtom(proj(i, len(carried))), inner}
		}
		return inner
	}
	if len(carried) == 1 {
		// the state IS the variable: name the lambda's parameter after it
		return lLet{ln(carried[0].name), typ, lFold{ln(carried[0].name), typ, ln(el.Name), xt.e.lean(), body, val, xs}, next(env)}
	}
	return lLet{"st", typ, lFold{"st", typ, ln(el.Name), xt.e.lean(), unpack(body), val, xs}, unpack(next(env))}
}

// ---------------------------------------------------------------------------------------------
// driver

func translateLoopFunc(p *pkg, spec loopSpec) (def leanDef, err error) {
	defer func() {
		if r := recover(); r != nil {
			if te, ok := r.(trErr); ok {
				err = fmt.Errorf("%s", te.msg)
				return
			}
			panic(r)
		}
	}()
	t := &ltr{p: p, spec: spec, pnames: map[string]string{}, tvars: map[string]bool{}, decEq: map[string]bool{},
		locals: map[string]bool{}, structs: map[string]*ast.StructType{}}
	fd, ok := p.funcs[spec.fn]
	if !ok {
		return def, fmt.Errorf("translate: %s: function not found in %s", spec.fn, spec.dir)
	}
	t.fd = fd
	im := p.imports[p.fileOf[fd]]
	if im["netip"] != "net/netip" || !strings.HasSuffix(im["system"], "/internal/system") {
		t.fail(fd, "imports (netip / system are not the unaliased imports of net/netip and internal/system)")
	}
	if fd.Recv == nil || len(fd.Recv.List) != 1 || len(fd.Recv.List[0].Names) != 1 || fd.Type.Params.NumFields() != 0 {
		t.fail(fd, "signature (only methods without parameters)")
	}
	t.recv = fd.Recv.List[0].Names[0].Name
	rn := strings.SplitN(spec.fn, ".", 2)[0]
	t.recvSt = p.structs[rn]
	if t.recvSt == nil || p.nstruct[rn] != 1 {
		t.fail(fd, "receiver struct "+rn)
	}
	rl := fd.Type.Results
	if rl == nil || len(rl.List) != 2 || len(rl.List[0].Names) != 0 || exprString(rl.List[1].Type) != "error" {
		t.fail(fd, "results (only (T, error))")
	}
	res, ok := t.goTy(rl.List[0].Type)
	if !ok {
		t.fail(fd, "result type "+exprString(rl.List[0].Type))
	}
	t.res = res
	t.use(res)
	body := t.block(fd.Body.List, lenv{}, nil, func(lenv) lx { t.fail(fd, "function body that falls off its end"); return nil })
	for _, prm := range t.params {
		if t.locals[prm.name] {
			t.fail(fd, "local named like the parameter "+prm.name)
		}
	}
	var sb strings.Builder
	sb.WriteString("/-- " + p.fileOf[fd] + ": func " + docSafe(funcSig(fd)) + "\n")
	for _, prm := range t.params {
		sb.WriteString("    " + prm.name + " = " + docSafe(prm.doc) + "\n")
	}
	sb.WriteString("-/\n")
	var tv []string
	for k := range t.tvars {
		tv = append(tv, k)
	}
	sort.Strings(tv)
	sb.WriteString("def " + spec.lean)
	if len(tv) > 0 {
		sb.WriteString(" {" + strings.Join(tv, " ") + " : Type}")
	}
	for _, k := range tv {
		if t.decEq[k] {
			sb.WriteString(" [DecidableEq " + k + "]")
		}
	}
	for _, prm := range t.params {
		sb.WriteString(" (" + prm.name + " : " + prm.typ + ")")
	}
	sb.WriteString(" : Option " + res.atom() + " :=\n")
	emit(&sb, body, "  ")
	return leanDef{spec.lean, strings.TrimRight(sb.String(), "\n")}, nil
}
