// translate_ext.go — extensions of the Go→Lean translator (translate.go) used by
// checkDurations / equalLifetimes (verify.go, C12) and isStable / betterRDNSS (plugin.go, C14).
//
// # Additional subset
//
//	a, b = e1, e2      a, b := e1, e2          let (a, b) : T1 × T2 := (e1, e2): every right-hand side
//	                                           is translated in the scope BEFORE the statement (Go
//	                                           evaluates the operands first; they are pure here).
//	                                           `:=` must declare every name afresh in its block.
//	x := e  inside a nested block, x visible   permitted (Lean `let` shadows), and x is then UNUSABLE
//	  from an enclosing block                  in everything translated after that block ends (in Go
//	                                           the outer x is visible again there, in the emitted
//	                                           text the inner one still is): any later use fails.
//	                                           Not permitted in a branch whose effect is joined
//	                                           (an if without return).
//	system.IP    (parameter / result / local)  a value of the Lean TYPE VARIABLE `IPRec`
//	netip.Addr   (parameter / result / local)  a value of the Lean TYPE VARIABLE `Addr`
//	v.F          (v a system.IP, F a bool      (F v)   with a parameter  F : IPRec → Bool
//	              field of struct system.IP)
//	v.F.M(args)  (F a netip.Prefix field,      (F_M v) with a parameter  F_M : IPRec → …   (M ∈ IsValid, Addr)
//	              M a method of the table)
//	x.M(args)    (x a netip.Addr)              (M x args) with a parameter M : Addr → … → Bool
//	                                           (M ∈ Less, IsPrivate, IsGlobalUnicast, IsLinkLocalUnicast,
//	                                            Is4, IsLinkLocalMulticast, IsLoopback, IsMulticast, IsUnspecified)
//	f(x)         (f ∈ isStable, isEUI64 of     (f x)   with a parameter  f : IPRec → Bool / Addr → Bool; the
//	              the package under translation) package function must have exactly that signature
//	for _, fn := range []func(netip.Addr) bool{(netip.Addr).M1, …, (netip.Addr).Mk} { body }
//	                                           UNROLLED: body with fn = M1, then … body with fn = Mk, then
//	                                           what follows the loop; `fn(x)` is (Mi x).  The body may
//	                                           return; break / continue / goto / labels, assignments to
//	                                           fn and clock/PRNG calls in the body are unsupported.
//
// Every such parameter is an UNINTERPRETED function of the generated definition; the equivalence
// theorems instantiate it with the model's function.  Trusted: the methods of netip.Addr /
// netip.Prefix in the table and the field reads of system.IP are pure functions of their operands
// (no type checker: `system` and `netip` must be the file's unaliased imports of
// …/internal/system and net/netip, which is checked).
package main

import (
	"fmt"
	"go/ast"
	"go/token"
	"strconv"
	"strings"
)

// ---------------------------------------------------------------------------------------------
// tables

type extMethod struct {
	args []ty
	res  ty
}

// methods of netip.Addr / netip.Prefix that may be called
var extMethods = map[string]extMethod{
	"netip.Prefix.IsValid":            {nil, tBool},
	"netip.Prefix.Addr":               {nil, tAddr},
	"netip.Addr.Less":                 {[]ty{tAddr}, tBool},
	"netip.Addr.IsPrivate":            {nil, tBool},
	"netip.Addr.IsGlobalUnicast":      {nil, tBool},
	"netip.Addr.IsLinkLocalUnicast":   {nil, tBool},
	"netip.Addr.IsLinkLocalMulticast": {nil, tBool},
	"netip.Addr.IsLoopback":           {nil, tBool},
	"netip.Addr.IsMulticast":          {nil, tBool},
	"netip.Addr.IsUnspecified":        {nil, tBool},
	"netip.Addr.Is4":                  {nil, tBool},
}

// Boolean functions of the package under translation over the opaque types
var boolFns = map[string]struct {
	arg ty
	sig string
}{
	"isStable": {tIP, "(system.IP) (bool)"},
	"isEUI64":  {tAddr, "(netip.Addr) (bool)"},
}

// where the struct behind an opaque record type is declared
var opaqueStructs = map[ty]struct{ dir, name, goName string }{
	tIP: {"internal/system", "IP", "system.IP"},
}

func fnType(args []ty, res ty) string {
	var parts []string
	for _, a := range args {
		parts = append(parts, a.lean())
	}
	parts = append(parts, res.lean())
	return strings.Join(parts, " → ")
}

// ---------------------------------------------------------------------------------------------
// imports

func importsOf(f *ast.File) map[string]string {
	m := map[string]string{}
	for _, is := range f.Imports {
		path, err := strconv.Unquote(is.Path.Value)
		if err != nil {
			continue
		}
		name := path[strings.LastIndex(path, "/")+1:]
		if is.Name != nil {
			name = is.Name.Name
		}
		m[name] = path
	}
	return m
}

// checkImports: the opaque types and the netip methods are recognised by their printed names
// only, so the package qualifiers must be what they look like.
func (t *tr) checkImports(system, netip bool) {
	im := t.p.imports[t.p.fileOf[t.fd]]
	if netip && im["netip"] != "net/netip" {
		t.fail(t.fd, "package name netip (not the file's unaliased import of net/netip)")
	}
	if system && !strings.HasSuffix(im["system"], "/internal/system") {
		t.fail(t.fd, "package name system (not the file's unaliased import of …/internal/system)")
	}
}

// ---------------------------------------------------------------------------------------------
// scopes: nesting depth, shadowing

func (s scope) nested() scope {
	n := s
	n.level = s.level + 1
	return n
}

// poison makes the named variables unusable (tShadowed).
func (s scope) poison(names []string) scope {
	if len(names) == 0 {
		return s
	}
	n := s
	n.vars = make(map[string]ty, len(s.vars))
	for k, v := range s.vars {
		n.vars[k] = v
	}
	for _, name := range names {
		n.vars[name] = tShadowed
	}
	return n
}

func (s scope) withFn(name, method string) scope {
	n := s.with(name, tFn)
	n.fns = map[string]string{name: method}
	for k, v := range s.fns {
		if k != name {
			n.fns[k] = v
		}
	}
	return n
}

// shadowedBy lists the variables visible in sc that a declaration somewhere inside the nodes
// re-declares (function literals excluded: they are unsupported anyway).
func shadowedBy(sc scope, nodes ...ast.Node) []string {
	var out []string
	seen := map[string]bool{}
	add := func(e ast.Expr) {
		if id, ok := e.(*ast.Ident); ok && id.Name != "_" {
			if _, vis := sc.vars[id.Name]; vis && !seen[id.Name] {
				seen[id.Name] = true
				out = append(out, id.Name)
			}
		}
	}
	for _, root := range nodes {
		if root == nil {
			continue
		}
		ast.Inspect(root, func(n ast.Node) bool {
			switch n := n.(type) {
			case *ast.FuncLit:
				return false
			case *ast.AssignStmt:
				if n.Tok == token.DEFINE {
					for _, l := range n.Lhs {
						add(l)
					}
				}
			case *ast.ValueSpec:
				for _, id := range n.Names {
					add(id)
				}
			case *ast.RangeStmt:
				if n.Tok == token.DEFINE {
					if n.Key != nil {
						add(n.Key)
					}
					if n.Value != nil {
						add(n.Value)
					}
				}
			}
			return true
		})
	}
	return out
}

func stmtNodes(list []ast.Stmt) []ast.Node {
	out := make([]ast.Node, len(list))
	for i, s := range list {
		out[i] = s
	}
	return out
}

// ---------------------------------------------------------------------------------------------
// parallel assignment / declaration

func (t *tr) parallel(s *ast.AssignStmt, sc scope, next func(scope) lx) lx {
	var pats, typs, vals []string
	seen := map[string]bool{}
	nsc := sc
	for i, l := range s.Lhs {
		id, ok := l.(*ast.Ident)
		if !ok {
			t.fail(s, "assignment to "+exprString(l))
		}
		if seen[id.Name] {
			t.fail(s, "parallel assignment naming "+id.Name+" twice")
		}
		seen[id.Name] = true
		// operands first, in the scope before the statement
		v, vt := t.expr(s.Rhs[i], sc)
		dt := vt
		if s.Tok == token.DEFINE {
			t.declare(id, id.Name, sc)
			if !vt.value() {
				t.fail(s, "declaration of "+id.Name+" (type)")
			}
			nsc = nsc.with(id.Name, vt)
		} else {
			var vis bool
			dt, vis = sc.vars[id.Name]
			if !vis || !dt.value() {
				t.fail(s, "assignment to "+id.Name+" (not a local variable or parameter)")
			}
			if !assignable(vt, dt) {
				t.fail(s, "assignment to "+id.Name+" (type)")
			}
		}
		pats = append(pats, ln(id.Name))
		typs = append(typs, dt.lean())
		vals = append(vals, strip(v))
	}
	return mkLet("("+strings.Join(pats, ", ")+")", strings.Join(typs, " × "), lAtom("("+strings.Join(vals, ", ")+")"), next(nsc))
}

// ---------------------------------------------------------------------------------------------
// opaque values: field reads, external methods, package Boolean functions

// structField finds field name in the struct behind an opaque record type.
func (t *tr) structField(n ast.Node, rec ty, name string) ast.Expr {
	os := opaqueStructs[rec]
	sp, err := loadPkg(t.p.repo, os.dir)
	if err != nil {
		t.fail(n, fmt.Sprintf("field of %s (%v)", os.goName, err))
	}
	if sp.nstruct[os.name] != 1 {
		t.fail(n, fmt.Sprintf("field of %s (struct %s declared %d times in %s)", os.goName, os.name, sp.nstruct[os.name], os.dir))
	}
	for _, f := range sp.structs[os.name].Fields.List {
		for _, fn := range f.Names {
			if fn.Name == name {
				return f.Type
			}
		}
	}
	t.fail(n, "field "+name+" (not declared in struct "+os.goName+")")
	return nil
}

func (t *tr) extParam(n ast.Node, name, typ, doc string) {
	t.checkName(n, name)
	for _, q := range t.pure {
		if q.name == name && q.typ != typ {
			t.fail(n, "parameter name clash on "+name)
		}
	}
	t.addOnce(&t.pure, param{name, typ, doc})
}

// ipField: v.F for a Boolean field of an opaque record.
func (t *tr) ipField(e *ast.SelectorExpr, v *ast.Ident, sc scope) (string, ty) {
	rec := sc.vars[v.Name]
	ft := t.structField(e, rec, e.Sel.Name)
	if exprString(ft) != "bool" {
		t.fail(e, fmt.Sprintf("field %s of type %s as a value (only bool fields)", e.Sel.Name, exprString(ft)))
	}
	t.usesSystem = true
	t.extParam(e, e.Sel.Name, fnType([]ty{rec}, tBool), "<"+opaqueStructs[rec].goName+">."+e.Sel.Name)
	return "(" + ln(e.Sel.Name) + " " + ln(v.Name) + ")", tBool
}

func (t *tr) extArgs(c *ast.CallExpr, what string, want []ty, sc scope) []string {
	if len(c.Args) != len(want) || c.Ellipsis.IsValid() {
		t.fail(c, "argument list of "+what)
	}
	var out []string
	for i, a := range c.Args {
		s, at := t.expr(a, sc)
		if at != want[i] {
			t.fail(a, fmt.Sprintf("argument %d of %s (type)", i+1, what))
		}
		out = append(out, s)
	}
	return out
}

// extCall: fn(x) for the variable of an unrolled loop, f(x) for a package Boolean function,
// v.F.M(args) for a netip.Prefix field of an opaque record.
func (t *tr) extCall(c *ast.CallExpr, sc scope) (string, ty, bool) {
	switch f := c.Fun.(type) {
	case *ast.Ident:
		if vt, isVar := sc.vars[f.Name]; isVar {
			if vt != tFn {
				return "", tUnknown, false
			}
			m := sc.fns[f.Name]
			em := extMethods["netip.Addr."+m]
			args := t.extArgs(c, f.Name, append([]ty{tAddr}, em.args...), sc)
			t.usesNetip = true
			t.extParam(c, m, fnType(append([]ty{tAddr}, em.args...), em.res), "(netip.Addr)."+m)
			return "(" + ln(m) + " " + strings.Join(args, " ") + ")", em.res, true
		}
		bf, ok := boolFns[f.Name]
		if !ok {
			return "", tUnknown, false
		}
		fd := t.p.funcs[f.Name]
		if fd == nil || fd.Recv != nil || fd.Type.TypeParams != nil || sigString(fd.Type) != bf.sig {
			t.fail(c, fmt.Sprintf("call of %s (not the package function with signature %s)", f.Name, bf.sig))
		}
		args := t.extArgs(c, f.Name, []ty{bf.arg}, sc)
		t.extParam(c, f.Name, fnType([]ty{bf.arg}, tBool), "func "+f.Name+bf.sig)
		return "(" + ln(f.Name) + " " + args[0] + ")", tBool, true
	case *ast.SelectorExpr:
		inner, ok := f.X.(*ast.SelectorExpr)
		if !ok {
			return "", tUnknown, false
		}
		v, ok := inner.X.(*ast.Ident)
		if !ok {
			return "", tUnknown, false
		}
		rec, isVar := sc.vars[v.Name]
		if _, opaque := opaqueStructs[rec]; !isVar || !opaque {
			return "", tUnknown, false
		}
		ft := exprString(t.structField(c, rec, inner.Sel.Name))
		em, known := extMethods[ft+"."+f.Sel.Name]
		if !known {
			t.fail(c, fmt.Sprintf("method call %s (method %s of a field of type %s)", exprString(c.Fun), f.Sel.Name, ft))
		}
		args := t.extArgs(c, exprString(c.Fun), em.args, sc)
		name := inner.Sel.Name + "_" + f.Sel.Name
		t.usesSystem, t.usesNetip = true, true
		t.extParam(c, name, fnType(append([]ty{rec}, em.args...), em.res), "<"+opaqueStructs[rec].goName+">."+inner.Sel.Name+"."+f.Sel.Name+"()")
		return "(" + strings.Join(append([]string{ln(name), ln(v.Name)}, args...), " ") + ")", em.res, true
	}
	return "", tUnknown, false
}

// addrMethod: x.M(args) for a translated netip.Addr value x.
func (t *tr) addrMethod(c *ast.CallExpr, sel *ast.SelectorExpr, x string, sc scope) (string, ty) {
	em, known := extMethods["netip.Addr."+sel.Sel.Name]
	if !known {
		t.fail(c, "method call "+exprString(c.Fun)+" (method "+sel.Sel.Name+" of netip.Addr)")
	}
	args := t.extArgs(c, exprString(c.Fun), em.args, sc)
	t.usesNetip = true
	t.extParam(c, sel.Sel.Name, fnType(append([]ty{tAddr}, em.args...), em.res), "(netip.Addr)."+sel.Sel.Name)
	return "(" + strings.Join(append([]string{ln(sel.Sel.Name), x}, args...), " ") + ")", em.res
}

// ---------------------------------------------------------------------------------------------
// for _, fn := range []func(netip.Addr) bool{(netip.Addr).M1, …} { body }: unrolled

func (t *tr) unrollRange(s *ast.RangeStmt, sc scope, next func(scope) lx) lx {
	const shape = "range statement (only `for _, fn := range []func(netip.Addr) bool{(netip.Addr).M, …} {…}`)"
	if k, ok := s.Key.(*ast.Ident); s.Key != nil && (!ok || k.Name != "_") {
		t.fail(s, shape)
	}
	fn, ok := s.Value.(*ast.Ident)
	if !ok || fn.Name == "_" || s.Tok != token.DEFINE {
		t.fail(s, shape)
	}
	cl, ok := s.X.(*ast.CompositeLit)
	if !ok {
		t.fail(s, shape)
	}
	at, ok := cl.Type.(*ast.ArrayType)
	if !ok || at.Len != nil {
		t.fail(s, shape)
	}
	ft, ok := at.Elt.(*ast.FuncType)
	if !ok || ft.TypeParams != nil || sigString(ft) != "(netip.Addr) (bool)" {
		t.fail(s, shape)
	}
	if _, shadow := sc.vars["netip"]; shadow {
		t.fail(s, "variable named netip")
	}
	var methods []string
	for _, el := range cl.Elts {
		sel, ok := el.(*ast.SelectorExpr)
		if !ok {
			t.fail(el, "element "+exprString(el)+" of the ranged slice (only method values (netip.Addr).M)")
		}
		par, ok := sel.X.(*ast.ParenExpr)
		if !ok || exprString(par.X) != "netip.Addr" {
			t.fail(el, "element "+exprString(el)+" of the ranged slice (only method values (netip.Addr).M)")
		}
		em, known := extMethods["netip.Addr."+sel.Sel.Name]
		if !known || len(em.args) != 0 || em.res != tBool {
			t.fail(el, "method value "+exprString(el)+" (not a known func(netip.Addr) bool)")
		}
		methods = append(methods, sel.Sel.Name)
	}
	// the body: no branch statements (a `continue` would need the next iteration as its target),
	// no clock / PRNG call sites (they are numbered per source position, not per iteration)
	ast.Inspect(s.Body, func(n ast.Node) bool {
		switch n := n.(type) {
		case *ast.BranchStmt:
			t.fail(n, n.Tok.String()+" inside an unrolled loop")
		case *ast.LabeledStmt:
			t.fail(n, "label inside an unrolled loop")
		case *ast.CallExpr:
			if _, isSite := t.sites[n]; isSite {
				t.fail(n, "clock / PRNG call inside an unrolled loop")
			}
		}
		return true
	})
	t.declare(fn, fn.Name, sc.nested())
	hidden := shadowedBy(sc, s.Body)
	if _, vis := sc.vars[fn.Name]; vis {
		hidden = append(hidden, fn.Name)
	}
	// iteration i: the body with fn bound to methods[i]; what follows it is iteration i+1, translated
	// under the iteration's declarations (hence the poisoned scope)
	var iter func(i int, sc scope) lx
	iter = func(i int, cur scope) lx {
		if i == len(methods) {
			return next(cur)
		}
		after := cur.poison(hidden)
		return t.block(s.Body.List, cur.nested().withFn(fn.Name, methods[i]), func(scope) lx { return iter(i+1, after) })
	}
	t.usesNetip = true
	return iter(0, sc)
}

// ---------------------------------------------------------------------------------------------
// emission helpers

// typeVars: the implicit binder for the opaque types the definition mentions.
func typeVars(ps []param, resT string) string {
	used := map[string]bool{}
	scan := func(s string) {
		for _, w := range strings.FieldsFunc(s, func(r rune) bool {
			return !(r == '_' || r >= '0' && r <= '9' || r >= 'A' && r <= 'Z' || r >= 'a' && r <= 'z')
		}) {
			used[w] = true
		}
	}
	for _, p := range ps {
		scan(p.typ)
	}
	scan(resT)
	var vs []string
	for _, v := range []string{"IPRec", "Addr"} {
		if used[v] {
			vs = append(vs, v)
		}
	}
	if len(vs) == 0 {
		return ""
	}
	return " {" + strings.Join(vs, " ") + " : Type}"
}
