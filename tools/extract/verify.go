// verify.go — regenerated structural facts about internal/corerad/verify.go (property C12):
// Gen/Verify.lean.  The arithmetic helpers checkDurations / equalLifetimes are translated
// (translate.go, Gen/Trans.lean); here the decision structure around them is pinned: which check
// functions verifyRAs merges and in which order, which field labels each of them can report and
// under which printed condition, and the control skeleton of every check function.
//
// Nothing is guessed: a push whose label is not a string literal, a check function that cannot
// be found, or a verifyRAs that is not `ps := f(..); ps.merge(g(..))…; return ps` is an error
// (failf) and the check reports a broken tie.
package main

import (
	"fmt"
	"go/ast"
	"go/printer"
	"go/token"
	"strconv"
	"strings"
)

// nodeText prints a node on one line (runs of white space collapsed).
func nodeText(n ast.Node) string {
	if n == nil {
		return ""
	}
	var b strings.Builder
	printer.Fprint(&b, fset, n)
	return strings.Join(strings.Fields(b.String()), " ")
}

func exprList(es []ast.Expr) string {
	var out []string
	for _, e := range es {
		out = append(out, nodeText(e))
	}
	return strings.Join(out, ", ")
}

// pushCall recognises `<x>.push(field, details, want, got)` and `newProblem(field, details, want, got)`.
func pushCall(n ast.Node) (*ast.CallExpr, bool) {
	c, ok := n.(*ast.CallExpr)
	if !ok || len(c.Args) != 4 {
		return nil, false
	}
	switch f := c.Fun.(type) {
	case *ast.SelectorExpr:
		if _, isID := f.X.(*ast.Ident); isID && f.Sel.Name == "push" {
			return c, true
		}
	case *ast.Ident:
		if f.Name == "newProblem" {
			return c, true
		}
	}
	return nil, false
}

// skeleton renders the statements of a body, pre-order, one string per statement; the nesting
// depth is the number of leading ". ".  Compound statements contribute their header only; a push
// is rendered with its two label arguments (the want/got arguments only feed the message text).
func skeleton(list []ast.Stmt, depth int, out *[]string) {
	ind := strings.Repeat(". ", depth)
	add := func(s string) { *out = append(*out, ind+s) }
	for _, s := range list {
		switch s := s.(type) {
		case *ast.IfStmt:
			for cur := s; cur != nil; {
				hdr := "if "
				if cur != s {
					hdr = "else if "
				}
				if cur.Init != nil {
					hdr += nodeText(cur.Init) + "; "
				}
				add(hdr + nodeText(cur.Cond))
				skeleton(cur.Body.List, depth+1, out)
				switch e := cur.Else.(type) {
				case *ast.IfStmt:
					cur = e
				case *ast.BlockStmt:
					add("else")
					skeleton(e.List, depth+1, out)
					cur = nil
				default:
					cur = nil
				}
			}
		case *ast.ForStmt:
			add("for " + nodeText(s.Init) + "; " + nodeText(s.Cond) + "; " + nodeText(s.Post))
			skeleton(s.Body.List, depth+1, out)
		case *ast.RangeStmt:
			hdr := "for "
			if s.Key != nil {
				hdr += nodeText(s.Key)
				if s.Value != nil {
					hdr += ", " + nodeText(s.Value)
				}
				hdr += " " + s.Tok.String() + " "
			}
			add(hdr + "range " + nodeText(s.X))
			skeleton(s.Body.List, depth+1, out)
		case *ast.SwitchStmt:
			hdr := "switch"
			if s.Init != nil {
				hdr += " " + nodeText(s.Init) + ";"
			}
			if s.Tag != nil {
				hdr += " " + nodeText(s.Tag)
			}
			add(hdr)
			for _, c := range s.Body.List {
				cc := c.(*ast.CaseClause)
				if cc.List == nil {
					add("default:")
				} else {
					add("case " + exprList(cc.List) + ":")
				}
				skeleton(cc.Body, depth+1, out)
			}
		case *ast.BlockStmt:
			add("{")
			skeleton(s.List, depth+1, out)
		case *ast.LabeledStmt:
			add(s.Label.Name + ":")
			skeleton([]ast.Stmt{s.Stmt}, depth, out)
		case *ast.ExprStmt:
			if c, ok := pushCall(s.X); ok {
				add(nodeText(c.Fun) + "(" + nodeText(c.Args[0]) + ", " + nodeText(c.Args[1]) + ")")
			} else {
				add(nodeText(s))
			}
		case *ast.DeclStmt:
			gd, ok := s.Decl.(*ast.GenDecl)
			if !ok || gd.Tok != token.VAR {
				add(nodeText(s))
				break
			}
			for _, sp := range gd.Specs {
				vs := sp.(*ast.ValueSpec)
				var ns []string
				for _, n := range vs.Names {
					ns = append(ns, n.Name)
				}
				t := "var " + strings.Join(ns, ", ")
				if vs.Type != nil {
					t += " " + nodeText(vs.Type)
				}
				if len(vs.Values) > 0 {
					t += " = " + exprList(vs.Values)
				}
				add(t)
			}
		case *ast.ReturnStmt:
			// the text of an error message is presentation: fmt.Errorf(…) / errors.New(…) are elided
			var rs []string
			for _, r := range s.Results {
				if c, ok := r.(*ast.CallExpr); ok && (exprString(c.Fun) == "fmt.Errorf" || exprString(c.Fun) == "errors.New") {
					rs = append(rs, "<error>")
				} else {
					rs = append(rs, nodeText(r))
				}
			}
			add(strings.TrimSpace("return " + strings.Join(rs, ", ")))
		default:
			// assignments, continue/break, inc/dec, go, defer, select, …: printed whole
			add(nodeText(s))
		}
	}
}

// pushFacts lists, for every push/newProblem call of fd in source order, the label, the printed
// details argument and the printed header (init; condition) of the innermost enclosing `if`
// whose body (not else branch) contains the call — "" when there is none.
func pushFacts(rel string, fd *ast.FuncDecl) (fields, details, guards []string) {
	var stack []ast.Node
	ast.Inspect(fd.Body, func(n ast.Node) bool {
		if n == nil {
			stack = stack[:len(stack)-1]
			return true
		}
		stack = append(stack, n)
		c, ok := pushCall(n)
		if !ok {
			return true
		}
		lit, isLit := c.Args[0].(*ast.BasicLit)
		if !isLit || lit.Kind != token.STRING {
			failf("%s: %s: the field of %s is not a string literal", rel, fd.Name.Name, nodeText(c))
			return true
		}
		f, err := strconv.Unquote(lit.Value)
		if err != nil {
			failf("%s: %s: field literal %s: %v", rel, fd.Name.Name, lit.Value, err)
			return true
		}
		fields = append(fields, f)
		details = append(details, nodeText(c.Args[1]))
		g := ""
		for i := len(stack) - 2; i >= 1; i-- {
			blk, isBlk := stack[i].(*ast.BlockStmt)
			is, isIf := stack[i-1].(*ast.IfStmt)
			if isBlk && isIf {
				if is.Body == blk {
					if is.Init != nil {
						g = nodeText(is.Init) + "; "
					}
					g += nodeText(is.Cond)
				} else {
					g = "else of: " + nodeText(is.Cond)
				}
				break
			}
		}
		guards = append(guards, g)
		return true
	})
	return
}

func leanStrList(v []string) string {
	q := make([]string, len(v))
	for i, s := range v {
		q[i] = strconv.Quote(s)
	}
	return "[" + strings.Join(q, ", ") + "]"
}

func genVerify(repo string) *leanFile {
	l := &leanFile{name: "Verify"}
	const rel = "internal/corerad/verify.go"
	fl := load(repo, rel)
	if fl == nil {
		return l
	}

	// (a) verifyRAs: `ps := f(args)`, then `ps.merge(g(args))`…, then `return ps`
	var merged, mergedArgs []string
	if fd := fl.fn("verifyRAs"); fd != nil {
		other := 0
		acc, ret := "", ""
		for i, st := range fd.Body.List {
			switch st := st.(type) {
			case *ast.AssignStmt:
				c, isCall := st.Rhs[0].(*ast.CallExpr)
				id, isID := st.Lhs[0].(*ast.Ident)
				if i == 0 && st.Tok == token.DEFINE && len(st.Lhs) == 1 && len(st.Rhs) == 1 && isCall && isID {
					if fn, ok := c.Fun.(*ast.Ident); ok {
						acc = id.Name
						merged = append(merged, fn.Name)
						mergedArgs = append(mergedArgs, exprList(c.Args))
						continue
					}
				}
				other++
			case *ast.ExprStmt:
				if c, ok := st.X.(*ast.CallExpr); ok && len(c.Args) == 1 && acc != "" && exprString(c.Fun) == acc+".merge" {
					if in, ok := c.Args[0].(*ast.CallExpr); ok {
						if fn, ok := in.Fun.(*ast.Ident); ok {
							merged = append(merged, fn.Name)
							mergedArgs = append(mergedArgs, exprList(in.Args))
							continue
						}
					}
				}
				other++
			case *ast.ReturnStmt:
				if i == len(fd.Body.List)-1 {
					ret = exprList(st.Results)
					continue
				}
				other++
			default:
				other++
			}
		}
		if len(merged) == 0 {
			failf("%s: verifyRAs does not start with `ps := <check>(…)`", rel)
		}
		l.Strs("merged", merged, "verifyRAs: the check functions whose problems are merged, in order")
		l.Strs("mergedArgs", mergedArgs, "verifyRAs: the printed argument list of each of these calls (own RA first, received RA second)")
		l.Bool("verifyReturnsAccumulator", acc != "" && ret == acc, "verifyRAs: the last statement returns the accumulator the checks were merged into")
		l.Nat("verifyOtherStmts", int64(other), "verifyRAs: statements that are neither the first check, a merge, nor the final return")
		var sk []string
		skeleton(fd.Body.List, 0, &sk)
		l.Strs("verifyRAs_skeleton", sk, "verifyRAs: statements, pre-order")
	}

	// problems.push / problems.merge / newProblem: what a pushed problem is labelled with
	for _, m := range []string{"problems.push", "problems.merge"} {
		if fd := fl.fn(m); fd != nil {
			var sk []string
			skeleton(fd.Body.List, 0, &sk)
			l.Strs(strings.TrimPrefix(m, "problems.")+"Body", sk, "func (ps *problems) "+strings.TrimPrefix(m, "problems.")+": statements")
		}
	}
	if fd := fl.fn("newProblem"); fd != nil {
		var params []string
		for _, f := range fd.Type.Params.List {
			for _, n := range f.Names {
				params = append(params, n.Name)
			}
		}
		l.Strs("newProblemParams", params, "newProblem: parameter names in order")
		var labels []string
		ast.Inspect(fd.Body, func(n ast.Node) bool {
			cl, ok := n.(*ast.CompositeLit)
			if !ok || exprString(cl.Type) != "problem" {
				return true
			}
			var kv []string
			for _, el := range cl.Elts {
				if p, ok := el.(*ast.KeyValueExpr); ok {
					if k := exprString(p.Key); k == "Field" || k == "Details" {
						kv = append(kv, k+": "+nodeText(p.Value))
					}
				} else {
					kv = append(kv, "positional: "+nodeText(el))
				}
			}
			labels = append(labels, strings.Join(kv, "; "))
			return true
		})
		if len(labels) == 0 {
			failf("%s: newProblem builds no problem{…} literal", rel)
		}
		l.Strs("newProblemLabels", labels, "newProblem: the Field / Details elements of every problem{…} literal it returns")
	}

	// (b) (c) per check function: labels, details, guards, skeleton
	var byCheck []string
	var byCheckFact [][]any
	rawCmp := []string{}
	for _, name := range merged {
		fd := fl.fn(name)
		if fd == nil {
			continue
		}
		fields, details, guards := pushFacts(rel, fd)
		l.Strs(name+"_fields", fields, name+": the field label (first argument) of every push, in source order")
		l.Strs(name+"_details", details, name+": the printed details label (second argument) of every push")
		l.Strs(name+"_guards", guards, name+": for every push, the printed `if` header that directly guards it")
		var sk []string
		skeleton(fd.Body.List, 0, &sk)
		l.Strs(name+"_skeleton", sk, name+": statements, pre-order, depth = number of leading \". \"; a push is shown with its two label arguments")
		byCheck = append(byCheck, "("+strconv.Quote(name)+", "+leanStrList(fields)+")")
		byCheckFact = append(byCheckFact, []any{name, fields})
		// (d) F-9: no lifetime / timer is compared with a bare == or != (only through
		// equalLifetimes / checkDurations, which compare at wire precision)
		// (operands that are variables bound by the `if x, y := e1, e2; …` init are resolved)
		isDur := func(s string) bool {
			return strings.HasSuffix(s, "Lifetime") || strings.HasSuffix(s, "ReachableTime") || strings.HasSuffix(s, "RetransmitTimer")
		}
		scan := func(root ast.Node, alias map[string]string) {
			ast.Inspect(root, func(n ast.Node) bool {
				be, ok := n.(*ast.BinaryExpr)
				if !ok || (be.Op != token.EQL && be.Op != token.NEQ) {
					return true
				}
				for _, side := range []ast.Expr{be.X, be.Y} {
					s := nodeText(side)
					if a, ok := alias[s]; ok {
						s = a
					} else if alias != nil {
						continue
					}
					if isDur(s) {
						rawCmp = append(rawCmp, name+": "+nodeText(be))
						break
					}
				}
				return true
			})
		}
		scan(fd.Body, nil)
		ast.Inspect(fd.Body, func(n ast.Node) bool {
			is, ok := n.(*ast.IfStmt)
			if !ok || is.Init == nil {
				return true
			}
			if as, ok := is.Init.(*ast.AssignStmt); ok && len(as.Lhs) == len(as.Rhs) {
				alias := map[string]string{}
				for i := range as.Lhs {
					alias[nodeText(as.Lhs[i])] = nodeText(as.Rhs[i])
				}
				scan(is.Cond, alias)
			}
			return true
		})
	}
	l.lines = append(l.lines, "/-- verifyRAs: (check function, the labels it can push) in merge order -/\ndef fieldsByCheck : List (String × List String) := ["+strings.Join(byCheck, ", ")+"]")
	facts["Verify.fieldsByCheck"] = byCheckFact
	l.Strs("rawDurationComparisons", rawCmp, "check functions: == / != applied directly to a *.…Lifetime / ReachableTime / RetransmitTimer operand (F-9: must be none)")

	// (d) F-8: MTU and captive portal options are compared by value, never as pointers
	for _, v := range []struct{ fn, opt, field, name string }{
		{"checkMTUs", "*ndp.MTU", "MTU", "mtuComparedByValue"},
		{"checkCaptivePortal", "*ndp.CaptivePortal", "URI", "portalComparedByValue"},
	} {
		fd := fl.fn(v.fn)
		if fd == nil {
			continue
		}
		// the two variables bound by `x, ok := pickFirst[<opt>](want|got)`
		var vars, srcs []string
		ast.Inspect(fd.Body, func(n ast.Node) bool {
			as, ok := n.(*ast.AssignStmt)
			if !ok || len(as.Lhs) != 2 || len(as.Rhs) != 1 {
				return true
			}
			c, ok := as.Rhs[0].(*ast.CallExpr)
			if !ok || exprString(c.Fun) != "pickFirst["+v.opt+"]" || len(c.Args) != 1 {
				return true
			}
			vars = append(vars, nodeText(as.Lhs[0]))
			srcs = append(srcs, nodeText(c.Args[0]))
			return true
		})
		byValue, byPtr := 0, 0
		if len(vars) == 2 {
			ast.Inspect(fd.Body, func(n ast.Node) bool {
				be, ok := n.(*ast.BinaryExpr)
				if !ok || (be.Op != token.EQL && be.Op != token.NEQ) {
					return true
				}
				x, y := nodeText(be.X), nodeText(be.Y)
				switch {
				case x == vars[0]+"."+v.field && y == vars[1]+"."+v.field, x == vars[1]+"."+v.field && y == vars[0]+"."+v.field:
					byValue++
				case (x == vars[0] || x == vars[1]) && (y == vars[0] || y == vars[1]):
					byPtr++
				}
				return true
			})
		}
		l.Strs(v.fn+"_picks", srcs, v.fn+": arguments of the two pickFirst["+v.opt+"] calls, in order")
		l.Bool(v.name, len(vars) == 2 && byValue == 1 && byPtr == 0,
			fmt.Sprintf("%s: exactly one ==/!= between the .%s of the two picked options, none between the option pointers (F-8)", v.fn, v.field))
	}

	// pick / pickFirst: all options of a type in order / the first one
	for _, name := range []string{"pick", "pickFirst"} {
		if fd := fl.fn(name); fd != nil {
			var sk []string
			skeleton(fd.Body.List, 0, &sk)
			l.Strs(name+"_skeleton", sk, name+": statements, pre-order")
		}
	}
	return l
}
