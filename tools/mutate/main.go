// Command mutate enumerates and applies small syntactic mutations to one Go source file.
// It is used by tools/mutsweep.py to measure which behaviour-changing edits that survive the
// repository's own test suite are caught by the /verif checks (a validation of the checks; it
// is not part of any check and proves nothing).
//
//	mutate -file f.go -list            JSON list of mutation sites
//	mutate -file f.go -id K -o out.go  write the K-th mutant
package main

import (
	"encoding/json"
	"flag"
	"fmt"
	"go/ast"
	"go/parser"
	"go/token"
	"os"
	"strconv"
)

type site struct {
	ID   int    `json:"id"`
	Line int    `json:"line"`
	Kind string `json:"kind"`
	Func string `json:"func"`
	From string `json:"from"`
	To   string `json:"to"`
	// text edit: replace src[Off:End] by To
	Off int `json:"off"`
	End int `json:"end"`
}

var binSwap = map[token.Token]string{
	token.LSS: "<=", token.LEQ: "<", token.GTR: ">=", token.GEQ: ">",
	token.EQL: "!=", token.NEQ: "==", token.LAND: "||", token.LOR: "&&",
	token.ADD: "-", token.SUB: "+",
}

func main() {
	file := flag.String("file", "", "Go source file")
	list := flag.Bool("list", false, "list sites")
	id := flag.Int("id", -1, "site to mutate")
	out := flag.String("o", "", "output file")
	flag.Parse()
	src, err := os.ReadFile(*file)
	if err != nil {
		fmt.Fprintln(os.Stderr, err)
		os.Exit(2)
	}
	fset := token.NewFileSet()
	f, err := parser.ParseFile(fset, *file, src, parser.ParseComments)
	if err != nil {
		fmt.Fprintln(os.Stderr, err)
		os.Exit(2)
	}
	var sites []site
	add := func(kind, fn string, pos, end token.Pos, to string) {
		o, e := fset.Position(pos).Offset, fset.Position(end).Offset
		sites = append(sites, site{ID: len(sites), Line: fset.Position(pos).Line, Kind: kind, Func: fn,
			From: string(src[o:e]), To: to, Off: o, End: e})
	}
	for _, d := range f.Decls {
		fd, ok := d.(*ast.FuncDecl)
		if !ok || fd.Body == nil {
			continue
		}
		fn := fd.Name.Name
		if fd.Recv != nil && len(fd.Recv.List) == 1 {
			switch t := fd.Recv.List[0].Type.(type) {
			case *ast.StarExpr:
				if id, ok := t.X.(*ast.Ident); ok {
					fn = id.Name + "." + fn
				}
			case *ast.Ident:
				fn = t.Name + "." + fn
			}
		}
		if fd.Name.Name == "String" || fd.Name.Name == "Error" {
			continue // presentation only
		}
		ast.Inspect(fd.Body, func(n ast.Node) bool {
			switch x := n.(type) {
			case *ast.CallExpr:
				// skip the arguments of logging / formatting calls: presentation only
				if se, ok := x.Fun.(*ast.SelectorExpr); ok {
					switch se.Sel.Name {
					case "Printf", "Println", "Errorf", "Sprintf", "Fatalf", "Fatal", "Print", "Sprint":
						return false
					}
				}
				if id, ok := x.Fun.(*ast.Ident); ok && (id.Name == "panicf" || id.Name == "panic") {
					return false
				}
			case *ast.BinaryExpr:
				if to, ok := binSwap[x.Op]; ok {
					add("binop", fn, x.OpPos, x.OpPos+token.Pos(len(x.Op.String())), to)
				}
			case *ast.BasicLit:
				if x.Kind == token.INT {
					if v, err := strconv.ParseInt(x.Value, 0, 64); err == nil {
						add("intlit", fn, x.Pos(), x.End(), strconv.FormatInt(v+1, 10))
						if v > 0 {
							add("intlit", fn, x.Pos(), x.End(), strconv.FormatInt(v-1, 10))
						}
					}
				}
			case *ast.Ident:
				if x.Name == "true" {
					add("bool", fn, x.Pos(), x.End(), "false")
				} else if x.Name == "false" {
					add("bool", fn, x.Pos(), x.End(), "true")
				}
			case *ast.IfStmt:
				add("negate-if", fn, x.Cond.Pos(), x.Cond.End(), "!("+string(src[fset.Position(x.Cond.Pos()).Offset:fset.Position(x.Cond.End()).Offset])+")")
			case *ast.UnaryExpr:
				if x.Op == token.NOT {
					add("drop-not", fn, x.OpPos, x.OpPos+1, "")
				}
			case *ast.ExprStmt:
				if _, ok := x.X.(*ast.CallExpr); ok {
					add("del-call", fn, x.Pos(), x.End(), "")
				}
			case *ast.DeferStmt:
				add("del-defer", fn, x.Pos(), x.End(), "")
			case *ast.AssignStmt:
				if x.Tok == token.ASSIGN || x.Tok == token.ADD_ASSIGN || x.Tok == token.SUB_ASSIGN {
					add("del-assign", fn, x.Pos(), x.End(), "")
				}
			case *ast.IncDecStmt:
				if x.Tok == token.INC {
					add("incdec", fn, x.TokPos, x.TokPos+2, "--")
				} else {
					add("incdec", fn, x.TokPos, x.TokPos+2, "++")
				}
			case *ast.BranchStmt:
				if x.Label == nil {
					switch x.Tok {
					case token.BREAK:
						add("branch", fn, x.Pos(), x.End(), "continue")
					case token.CONTINUE:
						add("branch", fn, x.Pos(), x.End(), "break")
					}
				}
			}
			return true
		})
	}
	if *list {
		json.NewEncoder(os.Stdout).Encode(sites)
		return
	}
	if *id < 0 || *id >= len(sites) {
		fmt.Fprintln(os.Stderr, "no such site")
		os.Exit(2)
	}
	s := sites[*id]
	mut := append(append(append([]byte{}, src[:s.Off]...), s.To...), src[s.End:]...)
	if err := os.WriteFile(*out, mut, 0o644); err != nil {
		fmt.Fprintln(os.Stderr, err)
		os.Exit(2)
	}
}
