module verif/mutate

go 1.22
