#!/usr/bin/env python3
"""tools/muteval.py <file> <line> <kind> <to> <prop> [<prop>…] — apply one mutant of tools/mutate
(selected by line, kind and replacement text) to a scratch clone of /repo and run the given quick
checks against it (validation helper, see tools/mutsweep.py)."""
import json, os, shutil, subprocess, sys
VERIF = os.path.dirname(os.path.dirname(os.path.abspath(__file__)))
f, line, kind, to = sys.argv[1], int(sys.argv[2]), sys.argv[3], sys.argv[4]
props = sys.argv[5:]
env = dict(os.environ, GOFLAGS="-mod=mod", GOPROXY="off", GOSUMDB="off", GOTOOLCHAIN="local")
mut = "/var/tmp/mutate-bin"
subprocess.run(["go1.26", "build", "-o", mut, "."], cwd=os.path.join(VERIF, "tools/mutate"), env=env, check=True)
sites = json.loads(subprocess.run([mut, "-file", "/repo/" + f, "-list"], stdout=subprocess.PIPE, text=True).stdout)
cand = [s for s in sites if s["line"] == line and s["kind"] == kind and s["to"].startswith(to)]
assert cand, "no such site; candidates on that line: %r" % [(s["kind"], s["from"][:30], s["to"][:30]) for s in sites if s["line"] == line]
s = cand[0]
clone = "/var/tmp/muteval-repo"
shutil.rmtree(clone, ignore_errors=True)
subprocess.run(["git", "clone", "-q", "/repo", clone], check=True)
subprocess.run([mut, "-file", "/repo/" + f, "-id", str(s["id"]), "-o", os.path.join(clone, f)], check=True)
print(subprocess.run(["git", "diff", "-U0"], cwd=clone, stdout=subprocess.PIPE, text=True).stdout)
b = subprocess.run(["go", "build", "./..."], cwd=clone, env=env)
for p in props:
    r = subprocess.run(["./check", p, "quick"], cwd=VERIF, env=dict(os.environ, VERIF_REPO=clone), stdout=subprocess.PIPE, stderr=subprocess.STDOUT, text=True)
    print("\n".join(l[:300] for l in r.stdout.split("\n") if l.startswith("VIOLATION") or l.startswith("[check]")))
shutil.rmtree(clone, ignore_errors=True)
