#!/usr/bin/env python3
"""tools/seedrecheck.py [name…] — re-run the quick check of every kept seeded change against a
fresh clone of /repo carrying its patch (VERIF_REPO), and rewrite seeded/RESULTS.md."""
import json, os, re, shutil, subprocess, sys
root = os.path.dirname(os.path.dirname(os.path.abspath(__file__)))  # the /verif tree this script lives in (a `vp run` snapshot works too)
names = sys.argv[1:] or sorted(d for d in os.listdir(f"{root}/seeded") if os.path.isdir(f"{root}/seeded/{d}"))
rows = []
for name in names:
    meta = json.load(open(f"{root}/seeded/{name}/meta.json"))
    pid = meta["property"]
    clone = f"/var/tmp/seedrecheck-{name}"
    shutil.rmtree(clone, ignore_errors=True)
    subprocess.run(["git", "clone", "-q", "/repo", clone], check=True)
    ap = subprocess.run(["git", "apply", f"{root}/seeded/{name}/patch.diff"], cwd=clone, stdout=subprocess.PIPE, stderr=subprocess.STDOUT, text=True)
    if ap.returncode != 0:
        rows.append((name, pid, "patch no longer applies", ""))
        shutil.rmtree(clone, ignore_errors=True)
        continue
    r = subprocess.run(["./check", pid, "quick"], cwd=root, env=dict(os.environ, VERIF_REPO=clone), stdout=subprocess.PIPE, stderr=subprocess.STDOUT, text=True)
    shutil.rmtree(clone, ignore_errors=True)
    viol = [l for l in r.stdout.split("\n") if l.startswith("VIOLATION")]
    if not viol and meta.get("neutralised_by"):
        rows.append((name, pid, "passes: the change no longer violates the property on the current tree (neutralised by a later repair, see meta.json)", ""))
        print(name, pid, "neutralised", flush=True)
        continue
    kind = "missed" if not viol else ("no-failing-input-found" if "no-failing-input-found" in viol[0] else "failing input")
    summ = [l for l in r.stdout.split("\n") if l.startswith("[check]")]
    rows.append((name, pid, kind, summ[0][8:] if summ else ""))
    print(name, pid, kind, flush=True)
if not sys.argv[1:]:
    with open(f"{root}/seeded/RESULTS.md", "w") as f:
        f.write("# Seeded changes re-run against the current checks (tools/seedrecheck.py, quick tier)\n\n| change | property | result | check summary |\n|---|---|---|---|\n")
        for r_ in rows:
            f.write("| %s | %s | %s | %s |\n" % r_)
