#!/usr/bin/env python3
"""
tools/seedeval.py <id> [<name>]  — confirm a seeded change produced by a sub-agent and run the checks against it.

  /tmp/seed/<name>        scratch worktree with the change applied and the demo test present
  /tmp/seed/out-<name>/   patch.diff, demo_test.go, meta.json written by the sub-agent

Confirms (in the scratch worktree, never in /repo): builds; the existing suite passes with the
change (demo moved aside); the demo fails with the change and passes without it.  Then applies
patch.diff to /repo, runs `./check <id> quick` (and any extra property ids given in
meta["also_check"]), undoes the patch, and stores everything under /verif/seeded/<name>/.
"""
import json, os, re, shutil, subprocess, sys

pid = sys.argv[1]
name = sys.argv[2] if len(sys.argv) > 2 else pid
wt, outd = f"/tmp/seed/{name}", f"/tmp/seed/out-{name}"
dest = f"/verif/seeded/{name}"
env = dict(os.environ, GOFLAGS="-mod=mod", GOPROXY="off", GOSUMDB="off", GOTOOLCHAIN="local")
PKGS = ["./internal/config/", "./internal/corerad/", "./internal/crhttp/", "./internal/plugin/", "./internal/system/", "./internal/netstate/"]
FLAKY = re.compile(r"Linux|/real|TestIntegration")

def sh(cmd, cwd, **kw):
    return subprocess.run(cmd, cwd=cwd, env=env, stdout=subprocess.PIPE, stderr=subprocess.STDOUT, text=True, **kw)

def suite(cwd):
    """returns list of failing non-flaky tests"""
    r = sh(["go", "test", "-vet=off", "-count=1", "-json"] + PKGS, cwd)
    bad = []
    for l in r.stdout.split("\n"):
        try:
            e = json.loads(l)
        except Exception:
            continue
        if e.get("Action") == "fail" and e.get("Test") and not FLAKY.search(e["Test"]):
            bad.append(e["Package"].split("/")[-1] + "::" + e["Test"])
        if e.get("Action") == "fail" and not e.get("Test") and "build failed" in (e.get("Output") or ""):
            bad.append("BUILD " + e.get("Package", ""))
    if "[build failed]" in r.stdout or "cannot find package" in r.stdout:
        bad.append("BUILD")
    return sorted(set(bad))

meta = json.load(open(f"{outd}/meta.json"))
# the worktree must carry exactly the delivered patch (agents sharing a repository can disturb each
# other's worktrees through `git stash`)
sh(["git", "checkout", "--", "."], wt)
ap0 = sh(["git", "apply", f"{outd}/patch.diff"], wt)
assert ap0.returncode == 0, "delivered patch.diff does not apply to a clean worktree: " + ap0.stdout
res = {"property": pid, "name": name}
demos = [os.path.join(dp, f) for dp, _, fs in os.walk(wt) for f in fs if f.startswith("zz_seed_")]
assert demos, "no demo test file in the worktree"
demo = demos[0]
demo_rel = os.path.relpath(demo, wt)
pkg = "./" + os.path.dirname(demo_rel) + "/"
m = re.search(r"func (TestSeed\w+)\(", open(demo).read())
test = m.group(1)

# 1. existing suite with the change, demo aside
aside = "/var/tmp/seed-demo-aside.go"
shutil.move(demo, aside)
try:
    b = sh(["go", "build", "./..."], wt)
    res["builds"] = b.returncode == 0
    fails = suite(wt)
    if fails:
        fails = sorted(set(fails) & set(suite(wt)))  # a second run: only persistent failures count
    res["suite_failures_with_change"] = fails
finally:
    shutil.move(aside, demo)
# 2. demo with the change
r = sh(["go", "test", "-vet=off", "-count=1", "-run", f"^{test}$", pkg], wt)
res["demo_fails_with_change"] = r.returncode != 0
res["demo_output_with_change"] = r.stdout[-1500:]
# 3. demo without the change
# (no `git stash`: the stash is shared by all worktrees of a repository, and seeding agents may be
# running in other worktrees) — save the change as a patch, check the files out, re-apply
saved = sh(["git", "diff", "--", ".", ":(exclude)*zz_seed_*"], wt).stdout
open("/var/tmp/seed-saved.diff", "w").write(saved)
sh(["git", "checkout", "--", "."], wt)
try:
    r = sh(["go", "test", "-vet=off", "-count=1", "-run", f"^{test}$", pkg], wt)
    res["demo_passes_without_change"] = r.returncode == 0
    if r.returncode != 0:
        res["demo_output_without_change"] = r.stdout[-1500:]
finally:
    sh(["git", "apply", "/var/tmp/seed-saved.diff"], wt)
res["confirmed"] = bool(res["builds"] and not res["suite_failures_with_change"] and res["demo_fails_with_change"] and res["demo_passes_without_change"])

# 4. run the checks against it in /repo
d = sh(["git", "diff", "--", ".", ":(exclude)*zz_seed_*"], wt).stdout
os.makedirs(dest, exist_ok=True)
open(f"{dest}/patch.diff", "w").write(d)
shutil.copy(demo, f"{dest}/demo_test.go")
# a scratch clone of /repo stands in for /repo (VERIF_REPO): identical to applying the patch to /repo
# and undoing it, but safe while other checks are running against /repo itself
scratch_repo = "/var/tmp/seedrepo-" + name
shutil.rmtree(scratch_repo, ignore_errors=True)
sh(["git", "clone", "-q", "/repo", scratch_repo], "/var/tmp")
checks = {}
ap = sh(["git", "apply", f"{dest}/patch.diff"], scratch_repo)
try:
    if ap.returncode != 0:
        checks["apply"] = ap.stdout
    else:
        for p in [pid] + meta.get("also_check", []) + sys.argv[3:]:
            r = subprocess.run(["./check", p, "quick"], cwd="/verif", env=dict(os.environ, VERIF_REPO=scratch_repo),
                               stdout=subprocess.PIPE, stderr=subprocess.STDOUT, text=True)
            viol = [l for l in r.stdout.split("\n") if l.startswith("VIOLATION")]
            replay = None
            mm = re.search(r"replay=(\S+)", viol[0]) if viol else None
            if mm and os.path.exists(mm.group(1)):
                rp = json.load(open(mm.group(1)))
                replay = {k: (str(v)[:600]) for k, v in rp.items() if k in ("case", "model_output", "oracle_note", "broken", "correspondence", "kind")}
            checks[p] = {"exit": r.returncode, "violation_line": viol[0] if viol else None,
                         "summary": [l for l in r.stdout.split("\n") if l.startswith("[check]")][:4], "replay": replay}
finally:
    shutil.rmtree(scratch_repo, ignore_errors=True)
res["checks"] = checks
res["detected"] = any(isinstance(v, dict) and v.get("exit") == 1 and v.get("violation_line") for v in checks.values())
res["detected_with_failing_input"] = any(isinstance(v, dict) and v.get("violation_line") and "no-failing-input-found" not in v["violation_line"] for v in checks.values())
meta_out = dict(meta)
meta_out["confirmation"] = {k: res[k] for k in ("builds", "suite_failures_with_change", "demo_fails_with_change", "demo_passes_without_change", "confirmed")}
meta_out["demo_test"] = {"path_in_repo": demo_rel, "run": f"go test -vet=off -count=1 -run '^{test}$' {pkg}"}
meta_out["what_i_ran"] = "tools/seedeval.py: suite with change (demo aside, persistent non-flaky failures only), demo with and without change in the scratch worktree; then patch applied to a fresh clone of /repo used as VERIF_REPO, ./check <id> quick, clone removed"
meta_out["check_results"] = checks
meta_out["detected"] = res["detected"]
meta_out["detected_with_failing_input"] = res["detected_with_failing_input"]
json.dump(meta_out, open(f"{dest}/meta.json", "w"), indent=1)
print(json.dumps({k: res[k] for k in ("confirmed", "detected", "detected_with_failing_input", "suite_failures_with_change")}, indent=1))
for p, v in checks.items():
    if isinstance(v, dict):
        print(p, v["exit"], v["violation_line"], (v["replay"] or {}).get("oracle_note", ""))
