#!/usr/bin/env python3
"""
tools/mutsweep.py [--workers N] [--sample K] [--files f1,f2] [--out DIR] [--seed S]

Validation of the checks (not a check, proves nothing): enumerate small syntactic mutations of
/repo's non-test sources (tools/mutate), keep those that still compile and still pass the
repository's own test suite, and run the quick checks of the properties anchored in the mutated
file against each survivor (a scratch clone stands in for /repo through VERIF_REPO; /repo itself
is never touched). Every result is appended to <out>/results.jsonl:

  status: nocompile | killed-by-tests | detected | detected-no-input | missed

`missed` survivors are either equivalent mutants or blind spots of the checks and are reviewed
by hand (DESIGN.md §0.6).
"""
import argparse, json, os, random, re, shutil, subprocess, sys, threading, queue

VERIF = os.path.dirname(os.path.dirname(os.path.abspath(__file__)))
ap = argparse.ArgumentParser()
ap.add_argument("--workers", type=int, default=4)
ap.add_argument("--sample", type=int, default=0)
ap.add_argument("--files", default="")
ap.add_argument("--out", default="/var/tmp/mutsweep-out")
ap.add_argument("--seed", type=int, default=1)
ap.add_argument("--work", default="/var/tmp/mutsweep-work")
ap.add_argument("--retry", default="", help="results.jsonl of an earlier sweep: re-evaluate its missed / detected-no-input / package-only kills")
args = ap.parse_args()

env = dict(os.environ, GOFLAGS="-mod=mod", GOPROXY="off", GOSUMDB="off", GOTOOLCHAIN="local")
PKGS = ["./internal/config/", "./internal/corerad/", "./internal/crhttp/", "./internal/plugin/", "./internal/system/", "./internal/netstate/"]
FLAKY = re.compile(r"Linux|/real|TestIntegration")
PKGPROPS = {"config": ["C01", "C02", "C03"], "corerad": ["C04", "C05", "C06", "C07", "C08", "C09", "C10", "C12", "C17", "C18", "C20"],
            "crhttp": ["C17", "C04"], "netstate": ["C19"], "plugin": ["C13", "C14", "C15", "C16", "C01"], "system": ["C10", "C11", "C13"],
            "cmd": ["C16", "C17", "C20"]}


def sh(cmd, cwd, e=env, **kw):
    return subprocess.run(cmd, cwd=cwd, env=e, stdout=subprocess.PIPE, stderr=subprocess.STDOUT, text=True, **kw)


STABLE = set(json.load(open("/root/.vp/BASELINE.json")).get("stable_pass", []))


def suite(cwd):
    """one run of the repository's suite; a mutant is killed when a test of the pinned baseline's
    stable set fails, or a package (other than netstate, whose integration test cannot run here)
    fails as a whole (panic, time-out)"""
    r = sh(["go", "test", "-vet=off", "-count=1", "-json", "-timeout", "60s"] + PKGS, cwd)
    bad, failed_tests, failed_pkgs, crashed = [], {}, set(), set()
    for l in r.stdout.split("\n"):
        try:
            e = json.loads(l)
        except Exception:
            continue
        pkg = e.get("Package", "")
        if e.get("Action") == "output" and ("panic: " in e.get("Output", "") or "test timed out" in e.get("Output", "")):
            crashed.add(pkg)
        if e.get("Action") == "fail" and e.get("Test"):
            failed_tests.setdefault(pkg, []).append(e["Test"])
            if (pkg + "::" + e["Test"]) in STABLE:
                bad.append(pkg.split("/")[-1] + "::" + e["Test"])
        if e.get("Action") == "fail" and not e.get("Test"):
            failed_pkgs.add(pkg)
    for pkg in failed_pkgs:
        # a package that fails as a whole counts only when it crashed or timed out (a failing
        # unstable test of the pinned baseline also fails its package)
        if "netstate" not in pkg and (pkg in crashed or not failed_tests.get(pkg)):
            bad.append("PKG " + pkg)
    if "[build failed]" in r.stdout:
        bad.append("BUILD")
    return sorted(set(bad))


os.makedirs(args.out, exist_ok=True)
os.makedirs(args.work, exist_ok=True)
mut = os.path.join(args.work, "mutate")
r = sh(["go1.26", "build", "-o", mut, "."], os.path.join(VERIF, "tools/mutate"))
assert r.returncode == 0, r.stdout

anch = {}
for l in open(os.path.join(VERIF, "properties.jsonl")):
    p = json.loads(l)
    for f in p["anchors"]["files"]:
        anch.setdefault(f, []).append(p["id"])

files = [f for f in sh(["git", "ls-files", "internal/*.go", "cmd/*.go"], "/repo").stdout.split()
         if not f.endswith("_test.go") and "crtest" not in f and "_others" not in f and "_windows" not in f and "/build/" not in f]
if args.files:
    files = [f for f in files if f in args.files.split(",")]
sites = []
for f in files:
    for s in json.loads(sh([mut, "-file", "/repo/" + f, "-list"], "/repo").stdout or "[]") or []:
        s["file"] = f
        sites.append(s)
if args.retry:
    want = []
    for l in open(args.retry):
        d = json.loads(l)
        pkgonly = d["status"] == "killed-by-tests" and all(x.startswith("PKG") for x in d.get("tests", []))
        if d["status"] in ("missed", "detected-no-input") or pkgonly:
            want.append((d["file"], d["func"], d["kind"], d["frm"], d["to"]))
    pool, chosen = list(sites), []
    for w in want:
        for s_ in pool:
            if (s_["file"], s_["func"], s_["kind"], s_["from"][:80], s_["to"][:80]) == w:
                chosen.append(s_)
                pool.remove(s_)
                break
    sites = chosen
rnd = random.Random(args.seed)
rnd.shuffle(sites)
if args.sample:
    sites = sites[:args.sample]
done = set()
resf = os.path.join(args.out, "results.jsonl")
if os.path.exists(resf):
    for l in open(resf):
        try:
            d = json.loads(l)
            done.add((d["file"], d["id"]))
        except Exception:
            pass
sites = [s for s in sites if (s["file"], s["id"]) not in done]
print(f"{len(sites)} mutants to evaluate ({len(done)} already done)", flush=True)

q = queue.Queue()
for s in sites:
    q.put(s)
lock = threading.Lock()


def props_for(f):
    ps = list(anch.get(f, []))
    pkg = f.split("/")[1] if f.startswith("internal/") else "cmd"
    for p in PKGPROPS.get(pkg, []):
        if p not in ps:
            ps.append(p)
    return ps


def worker(k):
    clone = os.path.join(args.work, f"w{k}")
    shutil.rmtree(clone, ignore_errors=True)
    sh(["git", "clone", "-q", "/repo", clone], args.work)
    while True:
        try:
            s = q.get_nowait()
        except queue.Empty:
            break
        res = dict(file=s["file"], id=s["id"], line=s["line"], kind=s["kind"], func=s["func"], frm=s["from"][:80], to=s["to"][:80])
        try:
            sh(["git", "checkout", "-q", "--", "."], clone)
            sh([mut, "-file", "/repo/" + s["file"], "-id", str(s["id"]), "-o", os.path.join(clone, s["file"])], clone)
            b = sh(["go", "build", "./..."], clone)
            b2 = sh(["go", "vet", "-vettool=/bin/true", "./..."], clone) if False else None
            if b.returncode != 0:
                res["status"] = "nocompile"
            else:
                t = sh(["go", "test", "-vet=off", "-count=1", "-run", "^$"] + PKGS, clone)
                if t.returncode != 0 and "[build failed]" in t.stdout:
                    res["status"] = "nocompile"
                else:
                    fails = suite(clone)
                    if fails:
                        res["status"], res["tests"] = "killed-by-tests", fails[:5]
                    else:
                        res["status"] = "missed"
                        res["checks"] = {}
                        for p in props_for(s["file"]):
                            c = subprocess.run(["./check", p, "quick"], cwd=VERIF, env=dict(os.environ, VERIF_REPO=clone),
                                               stdout=subprocess.PIPE, stderr=subprocess.STDOUT, text=True)
                            viol = [l for l in c.stdout.split("\n") if l.startswith("VIOLATION")]
                            res["checks"][p] = c.returncode
                            if viol:
                                res["by"] = p
                                res["violation"] = re.sub(r"replay=\S+ ?", "", viol[0])[:300]
                                res["status"] = "detected-no-input" if "no-failing-input-found" in viol[0] else "detected"
                                if res["status"] == "detected":
                                    break
                            elif c.returncode != 0:
                                res.setdefault("check_errors", []).append(p + ": " + c.stdout[-300:])
        except Exception as e:  # noqa
            res["status"], res["error"] = "error", repr(e)
        with lock:
            with open(resf, "a") as fh:
                fh.write(json.dumps(res) + "\n")
            print(res["status"], s["file"], s["line"], s["kind"], res.get("by", ""), flush=True)
    shutil.rmtree(clone, ignore_errors=True)


ths = [threading.Thread(target=worker, args=(k,)) for k in range(args.workers)]
[t.start() for t in ths]
[t.join() for t in ths]
print("done")
