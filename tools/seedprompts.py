"""tools/seedprompts.py NAME=THEME …  — write /tmp/seed/prompt-NAME.txt for seeding sub-agents (NAME = <property id><round letter>,
THEME a key of tools/seedthemes.json).  The prompt holds only the property text, the theme and one-line summaries of earlier seeds."""
import json, os, sys, glob
props = {json.loads(l)['id']: json.loads(l) for l in open('/verif/properties.jsonl')}
themes = json.load(open(os.path.join(os.path.dirname(os.path.abspath(__file__)), 'seedthemes.json')))
assign=dict(a.split('=') for a in sys.argv[1:])
names=list(assign)
for name in names:
    pid = name[:3]
    theme = themes[assign[name]]
    p = props[pid]
    prev = []
    for d in sorted(glob.glob(f'/verif/seeded/{pid}*'))[-6:]:
        try:
            m = json.load(open(d + '/meta.json'))
            prev.append('- ' + m.get('summary', '')[:400])
        except Exception:
            pass
    txt = f"""You are helping to evaluate a verification effort for the Go project mdlayher/corerad (an IPv6 NDP router
advertisement daemon). Your job: produce ONE realistic, subtle code change (a "seeded defect") that BREAKS the
semantic property below, while the code still compiles and the project's existing test suite still passes.

PROPERTY {pid}: {p['title']}
Statement: {p['statement']}
Quantifier: {p.get('quantifier', {}).get('text', '')}
Anchored in: {', '.join(p.get('anchors', {}).get('files', []))}

Your scratch git worktree of the repository is {'/tmp/seed/' + name} (work ONLY there; never touch /repo or /verif,
never run `git stash`, never commit). Environment: no network. Before any go command run:
  export GOFLAGS=-mod=mod GOPROXY=off GOSUMDB=off GOTOOLCHAIN=local
The existing suite is: go test -vet=off -count=1 ./internal/...   (a few tests named *Linux*, */real*, TestIntegration* may be
environment-dependent; ignore those if they also fail without your change).

Requirements for the change:
1. It must look like something a maintainer could plausibly write (a refactor, an optimisation, a "simplification", a
   bug fix gone slightly wrong) — not sabotage, no dead code, no special-casing of magic values.
2. It must compile (`go build ./...`) and the existing tests must still pass with it, UNEDITED (do not edit, delete or add to any existing *_test.go file, testdata or reference file; run the suite, twice if something looks flaky).
3. It must make the property FALSE for some realistic situation, and that situation must need something specific to
   manifest. {theme}
   Ordinary use / the first RA / a trivial configuration must NOT expose it at once.
4. It must be different in kind from these changes, which were already tried for this property:
{chr(10).join(prev) if prev else '- (none)'}
5. Write a demonstration: a Go test file named zz_seed_{name}_test.go inside the affected package directory of the
   worktree, containing exactly one test function named TestSeed{name} (package-internal tests are fine), which
   FAILS with your change applied and PASSES on the unchanged code. It must be deterministic (no reliance on lucky
   timing; use generous timeouts where concurrency is involved), finish in under 60 s, and use only the
   repository's existing dependencies (go.mod / vendor cache as is).
6. Verify all of it yourself: build; suite passes with the change (demo moved aside or -skip'ed); demo fails with the change;
   demo passes without it (use `git diff > /tmp/seed/out-{name}/patch.diff -- . ':(exclude)*zz_seed_*'`, then
   `git checkout -- .`, run the demo, then `git apply /tmp/seed/out-{name}/patch.diff` again to restore the change).

Deliverables, in /tmp/seed/out-{name}/ :
  patch.diff   — `git diff` of the change only (NOT including the demo test file), applying cleanly to the worktree's HEAD with `git apply`
  meta.json    — {{"property": "{pid}", "summary": "<what the change does, 2-4 sentences>", "manifests_when": "<exactly what is needed for the property to fail>", "files": ["..."], "suite_result": "<what you ran and saw>", "demo_result": "<fails with / passes without>"}}
Leave the worktree with the change APPLIED and the demo test file present (untracked).
In your final answer, report in a few lines: what the change is, what it needs to manifest, and the results of your own verification.
"""
    open(f'/tmp/seed/prompt-{name}.txt', 'w').write(txt)
    print(name, len(txt))
