#!/usr/bin/env python3
"""Regenerate the seeded-changes table of DESIGN.md (section 0.5) from seeded/*/meta.json."""
import json, os, re
root = os.path.dirname(os.path.dirname(os.path.abspath(__file__)))
rows = []
for d in sorted(os.listdir(os.path.join(root, "seeded"))):
    mp = os.path.join(root, "seeded", d, "meta.json")
    if not os.path.exists(mp):
        continue
    m = json.load(open(mp))
    checks = m.get("check_results", {})
    caught = []
    for pid, v in checks.items():
        if isinstance(v, dict) and v.get("violation_line"):
            how = "proof+replay" if (v.get("replay") or {}).get("broken") not in (None, "[]", []) and "no-failing" not in v["violation_line"] else ("replay" if "no-failing" not in v["violation_line"] else "broken tie only")
            caught.append(f"{pid} ({how})")
    note = m.get("strengthened", "")
    if m.get("neutralised_by"):
        note = (note + " " if note else "") + "No longer a violation on the current tree: " + m["neutralised_by"]
    rows.append(f"| `seeded/{d}` | {m.get('property')} | {m.get('summary','').replace('|','/')[:230]} | {m.get('manifests_when','').replace('|','/')[:200]} | {'yes' if m.get('confirmation',{}).get('confirmed') else 'NO'} | {', '.join(caught) or '**missed**'} | {note} |")
table = "| change | property | what it does | needs, to manifest | confirmed | caught by (quick tier) | check strengthened? |\n|---|---|---|---|---|---|---|\n" + "\n".join(rows)
p = os.path.join(root, "DESIGN.md")
s = open(p).read()
block = "<!-- SEEDED:BEGIN -->\n" + table + "\n<!-- SEEDED:END -->"
if "SEEDED_TABLE" in s:
    s = s.replace("SEEDED_TABLE", block)
else:
    s = re.sub(r"<!-- SEEDED:BEGIN -->.*?<!-- SEEDED:END -->", lambda _: block, s, flags=re.S)
open(p, "w").write(s)
print(f"{len(rows)} seeded changes")
