#!/bin/sh
# run /repo's pinned test suite (the one in /root/.vp/BASELINE.json) and compare with its stable set
# usage: tools/pinned.sh [repo]
REPO=${1:-/repo}
export GOFLAGS=-mod=mod GOPROXY=off GOSUMDB=off GOTOOLCHAIN=local
ip link del cradprobe0 2>/dev/null  # left behind when a run of the suite was killed between add and del
cd "$REPO" && go test -json -vet=off -count=1 -timeout 25m ./... > /var/tmp/pinned.json 2>/dev/null
python3 - <<'PY'
import json
base=json.load(open('/root/.vp/BASELINE.json'))
want=set(base['stable_pass'])
got=set()
for l in open('/var/tmp/pinned.json'):
    try: e=json.loads(l)
    except Exception: continue
    if e.get('Action')=='pass' and e.get('Test'):
        got.add(e['Package']+'::'+e['Test'])
miss=sorted(want-got)
print(f"pinned: {len(want&got)}/{len(want)} stable tests pass")
for m in miss: print("  MISSING/FAILED:", m)
raise SystemExit(1 if miss else 0)
PY
