//go:build verif

package system

import (
	"context"
	"fmt"
	"io"
	"log"
	"net"
	"net/netip"
	"sync"
	"testing"
	"testing/synctest"
	"time"

	"github.com/mdlayher/corerad/internal/vfh"
	"github.com/mdlayher/ndp"
	"golang.org/x/net/ipv6"
)

// slowConn counts its clean-up.
type vfSlowConn struct {
	mu     *sync.Mutex
	closed *int
}

func (c *vfSlowConn) ReadFrom() (ndp.Message, *ipv6.ControlMessage, netip.Addr, error) {
	return nil, nil, netip.Addr{}, fmt.Errorf("not readable")
}
func (c *vfSlowConn) SetReadDeadline(time.Time) error { return nil }
func (c *vfSlowConn) WriteTo(ndp.Message, *ipv6.ControlMessage, netip.Addr) error {
	return nil
}
func (c *vfSlowConn) LeaveGroup(netip.Addr) error { return nil }
func (c *vfSlowConn) Close() error {
	c.mu.Lock()
	*c.closed++
	c.mu.Unlock()
	return nil
}

// runSlowDial (C11): establishing a connection takes `lat` of (virtual) time — an interface that is
// slow to come up, a wedged driver.  However long a dial takes, every connection that IS opened is
// cleaned up exactly once before Dial returns, never two at a time, and autoconf is put back.
//
//	sld adv lat hold | opened cleaned maxOpen acRestored status
func vfRunSlowDial(t *testing.T, out *vfh.Out, adv bool, lat, hold time.Duration) {
	out.Pending(fmt.Sprintf("runSlowDial adv=%v dialTakes=%v taskRuns=%v", adv, lat, hold))
	synctest.Test(t, func(t *testing.T) {
		var mu sync.Mutex
		opened, closed, open, maxOpen := 0, 0, 0, 0
		st := &vfSlowState{ac: true}
		mode := Monitor
		if adv {
			mode = Advertise
		}
		d := &Dialer{iface: "vf0", state: st, mode: mode, ll: log.New(io.Discard, "", 0)}
		d.DialFunc = func() (*DialContext, error) {
			time.Sleep(lat)
			var restore func() error
			if adv {
				var err error
				if restore, err = d.setAutoconf(); err != nil {
					return nil, err
				}
			}
			mu.Lock()
			opened++
			open++
			if open > maxOpen {
				maxOpen = open
			}
			mu.Unlock()
			c := &vfSlowConn{mu: &mu, closed: &closed}
			return &DialContext{Conn: c, Interface: &net.Interface{Index: 1, Name: "vf0"}, IP: netip.MustParseAddr("fe80::1"),
				done: func() error {
					_ = c.LeaveGroup(netip.IPv6LinkLocalAllRouters())
					_ = c.Close()
					mu.Lock()
					open--
					mu.Unlock()
					if restore != nil {
						return restore()
					}
					return nil
				}}, nil
		}
		ctx, cancel := context.WithCancel(context.Background())
		defer cancel()
		done := make(chan error, 1)
		go func() {
			done <- d.Dial(ctx, func(ctx context.Context, _ *DialContext) error {
				select {
				case <-ctx.Done():
				case <-time.After(hold):
				}
				return nil
			})
		}()
		status := "nil"
		select {
		case err := <-done:
			if err != nil {
				status = "error"
			}
		case <-time.After(2*lat + hold + 10*time.Minute):
			status = "hung"
		}
		// anything still under way gets the time to finish
		time.Sleep(3*lat + time.Minute)
		synctest.Wait()
		mu.Lock()
		o, c, m := opened, closed, maxOpen
		mu.Unlock()
		out.Line(new(vfh.Toks).S("sld").B(adv).I(int64(lat)).I(int64(hold)).String(),
			new(vfh.Toks).N(o).N(c).N(m).B(st.get()).S(status).String())
		out.Flush()
	})
}

type vfSlowState struct {
	mu sync.Mutex
	ac bool
}

func (s *vfSlowState) IPv6Autoconf(string) (bool, error)   { s.mu.Lock(); defer s.mu.Unlock(); return s.ac, nil }
func (s *vfSlowState) IPv6Forwarding(string) (bool, error) { return true, nil }
func (s *vfSlowState) SetIPv6Autoconf(_ string, b bool) error {
	s.mu.Lock()
	s.ac = b
	s.mu.Unlock()
	return nil
}
func (s *vfSlowState) get() bool { s.mu.Lock(); defer s.mu.Unlock(); return s.ac }

func verifSlowDial(t *testing.T, r *vfh.Rand, out *vfh.Out) {
	for _, adv := range []bool{true, false} {
		for _, lat := range []time.Duration{0, time.Second, 4900 * time.Millisecond, 5100 * time.Millisecond, 7 * time.Second, 31 * time.Second, 3 * time.Minute} {
			vfRunSlowDial(t, out, adv, lat, 2*time.Second)
		}
	}
	for k := vfh.N(6, 100); k > 0; k-- {
		vfRunSlowDial(t, out, r.Bool(), time.Duration(r.Range(0, int64(2*time.Minute))), time.Duration(r.Range(0, int64(20*time.Second))))
	}
}
