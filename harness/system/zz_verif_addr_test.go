//go:build verif && linux

package system

import (
	"time"
	"sync"
	"errors"
	"math/big"
	"net"
	"testing"

	"github.com/jsimonetti/rtnetlink"
	"github.com/mdlayher/corerad/internal/vfh"
	"github.com/mdlayher/netlink"
	"golang.org/x/sys/unix"
)

// ---------------------------------------------------------------------------------------------
// C13/C14/C15, OS-glue part: the real (*addresser).AddressesByIndex and routesByIndex of
// addresser_linux.go over a mocked `execute` hook (as addresser_linux_test.go mocks it).
//
//   case: ab failed n (isAddr family hasAttrs fam val plen flags valid)*
//           failed: the hook returns a non-nil error (together with the n messages)
//           isAddr: the message is an *rtnetlink.AddressMessage (else a *LinkMessage / *RouteMessage)
//           fam val: what netip.AddrFromSlice makes of Attributes.Address (4, 6, or 0 0)
//           flags: the raw uint32 IFA_FLAGS word; valid: CacheInfo.Valid
//   impl: req ok n (6 val plen dep mng stab tmp tent forever)* | req nil e | req panic
//           req: the request the hook received was the documented one
//           nil e: (nil, err) with e = err != nil
//
//   case: rb failed n (isRoute family fam val dlen oif hasPref pref)*
//   impl: req ok n (6 val dlen index pref)* | req nil e | req panic

type vfAbMsg struct {
	isAddr   bool
	alt      int
	family   uint8
	hasAttrs bool
	ip       []byte
	plen     uint8
	flags    uint32
	valid    uint32
	local    []byte // IFA_LOCAL, when the address has a peer (ip is then the peer's address)
}

func vfIpToks(t *vfh.Toks, b []byte) {
	switch len(b) {
	case 4:
		t.S("4").S(new(big.Int).SetBytes(b).String())
	case 16:
		t.S("6").S(new(big.Int).SetBytes(b).String())
	default:
		t.S("0").S("0")
	}
}

func (m vfAbMsg) build(index int) rtnetlink.Message {
	if !m.isAddr {
		if m.alt%2 == 0 {
			return &rtnetlink.LinkMessage{Index: uint32(index)}
		}
		return &rtnetlink.RouteMessage{Family: m.family}
	}
	am := &rtnetlink.AddressMessage{Family: m.family, PrefixLength: m.plen, Index: uint32(index),
		Flags: uint8(m.flags)} // the legacy 8-bit flags field plays no part
	if m.hasAttrs {
		am.Attributes = &rtnetlink.AddressAttributes{
			Address:   net.IP(m.ip),
			Local:     net.IP(m.local),
			Flags:     m.flags,
			CacheInfo: rtnetlink.CacheInfo{Prefered: m.valid / 2, Valid: m.valid, Created: 7, Updated: 9},
		}
	}
	return am
}

var vfErrExecute = errors.New("verif: netlink request failed")

// vfAbOverlap: the next vfAbRun makes its (succeeding) call WHILE ANOTHER call for the same interface
// is inside its own netlink request — which then fails.  Every call's answer is its own: a list from
// its own successful dump, never the outcome of somebody else's request.
var vfAbOverlap bool

func vfAbRun(out *vfh.Out, k int, failed bool, ms []vfAbMsg) {
	index := 1 + k%9
	c := new(vfh.Toks).S("ab").B(failed).N(len(ms))
	var msgs []rtnetlink.Message
	for _, m := range ms {
		c.B(m.isAddr).N(int(m.family)).B(m.hasAttrs)
		if m.isAddr && m.hasAttrs {
			vfIpToks(c, m.ip)
		} else {
			c.S("0").S("0")
		}
		c.N(int(m.plen)).U(uint64(m.flags)).U(uint64(m.valid))
		c.B(m.isAddr && m.hasAttrs && len(m.local) != 0)
		if m.isAddr && m.hasAttrs {
			vfIpToks(c, m.local)
		} else {
			c.S("0").S("0")
		}
		msgs = append(msgs, m.build(index))
	}
	reqOK := false
	overlap := vfAbOverlap && !failed
	vfAbOverlap = false
	var a *addresser
	var first sync.Once
	var resume, entered chan struct{}
	if overlap {
		resume, entered = make(chan struct{}), make(chan struct{})
	}
	a = &addresser{execute: func(m rtnetlink.Message, family uint16, flags netlink.HeaderFlags) ([]rtnetlink.Message, error) {
		if overlap {
			leader := false
			first.Do(func() { leader = true })
			if leader {
				// the other caller's request: in flight until the call under observation is over
				// (or, if that call waits for this one, for a moment), then it fails
				close(entered)
				select {
				case <-resume:
				case <-time.After(300 * time.Millisecond):
				}
				return nil, vfErrExecute
			}
		}
		am, ok := m.(*rtnetlink.AddressMessage)
		reqOK = ok && am.Family == unix.AF_INET6 && am.Index == uint32(index) && am.Attributes == nil &&
			am.PrefixLength == 0 && am.Flags == 0 && am.Scope == 0 &&
			family == unix.RTM_GETADDR && flags == netlink.Request|netlink.Dump
		if failed {
			return msgs, vfErrExecute
		}
		return msgs, nil
	}}
	impl := func() (s string) {
		defer func() {
			if p := recover(); p != nil {
				s = "panic"
			}
		}()
		if overlap {
			go func() { _, _ = a.AddressesByIndex(index) }()
			<-entered
			defer close(resume)
		}
		ips, err := a.AddressesByIndex(index)
		if err != nil && !errors.Is(err, vfErrExecute) {
			return "foreign-error"
		}
		if ips == nil {
			return new(vfh.Toks).S("nil").B(err != nil).String()
		}
		if err != nil {
			return "list-and-error"
		}
		t := new(vfh.Toks).S("ok").N(len(ips))
		for _, ip := range ips {
			t.Prefix(ip.Address).B(ip.Deprecated).B(ip.ManageTemporaryAddresses).B(ip.StablePrivacy).
				B(ip.Temporary).B(ip.Tentative).B(ip.ValidForever)
		}
		return t.String()
	}()
	out.Line(c.String(), new(vfh.Toks).B(reqOK).String()+" "+impl)
}

func vfAb16(s string) []byte { return []byte(net.ParseIP(s).To16()) }

// the five decoded bits, and every other assigned IFA_F_* bit as noise
var vfAbBits = []uint32{unix.IFA_F_TEMPORARY, unix.IFA_F_DEPRECATED, unix.IFA_F_TENTATIVE,
	unix.IFA_F_MANAGETEMPADDR, unix.IFA_F_STABLE_PRIVACY}
var vfAbNoise = []uint32{unix.IFA_F_NODAD, unix.IFA_F_OPTIMISTIC, unix.IFA_F_DADFAILED, unix.IFA_F_HOMEADDRESS,
	unix.IFA_F_PERMANENT, unix.IFA_F_NOPREFIXROUTE, unix.IFA_F_MCAUTOJOIN, 1 << 12, 1 << 31}

func vfAbAddrPool() [][]byte {
	return [][]byte{vfAb16("2001:db8::1"), vfAb16("2001:db8:0:1::2"), vfAb16("fd00::5"), vfAb16("fd00:0:0:1:211:22ff:fe33:4455"),
		vfAb16("fe80::1"), vfAb16("::1"), vfAb16("2600::1"), vfAb16("ff02::1"), vfAb16("::")}
}

func vfAbRandFlags(r *vfh.Rand) uint32 {
	var f uint32
	for _, b := range vfAbBits {
		if r.Chance(1, 4) {
			f |= b
		}
	}
	for _, b := range vfAbNoise {
		if r.Chance(1, 5) {
			f |= b
		}
	}
	if r.Chance(1, 20) {
		f = uint32(r.Uint64())
	}
	return f
}

func vfAbRandValid(r *vfh.Rand) uint32 {
	switch r.Intn(6) {
	case 0:
		return 0xffffffff
	case 1:
		return 0xfffffffe
	case 2:
		return 0
	default:
		return uint32(r.Intn(1 << 20))
	}
}

func vfAbGood(r *vfh.Rand, pool [][]byte) vfAbMsg {
	return vfAbMsg{isAddr: true, family: unix.AF_INET6, hasAttrs: true, ip: vfh.Pick(r, pool),
		plen: uint8(vfh.Pick(r, []int{64, 64, 64, 128, 48, 56, 0, 10, 127})), flags: vfAbRandFlags(r), valid: vfAbRandValid(r)}
}

// abPeer: an address with a peer, as the kernel dumps it (IFA_ADDRESS = the peer, IFA_LOCAL = own)
func vfAbPeer(r *vfh.Rand, pool [][]byte) vfAbMsg {
	m := vfAbGood(r, pool)
	m.local = vfh.Pick(r, pool)
	return m
}

// abBad returns a message that breaks one invariant.
func vfAbBad(r *vfh.Rand, pool [][]byte) vfAbMsg {
	m := vfAbGood(r, pool)
	switch r.Intn(8) {
	case 0:
		m.isAddr, m.alt = false, r.Intn(2)
	case 1:
		m.family = unix.AF_INET
	case 2:
		m.family = uint8(r.Intn(256))
		if m.family == unix.AF_INET6 {
			m.family = 0
		}
	case 3:
		m.hasAttrs = false
	case 4:
		m.ip = nil
	case 5:
		m.ip = []byte(net.IPv4(192, 0, 2, 1).To4())
	case 6:
		m.ip = []byte(net.IPv4(192, 0, 2, 1)) // 16 bytes, IPv4-mapped
	default:
		m.ip = []byte{0x20, 0x01, 0x0d, 0xb8, 0, 0}
	}
	return m
}

func verifAddresserAddrs(t *testing.T, r *vfh.Rand, out *vfh.Out) {
	pool := vfAbAddrPool()
	k := 0
	// empty dump, failing request (with and without messages)
	vfAbRun(out, k, false, nil)
	vfAbRun(out, k+1, true, nil)
	vfAbRun(out, k+2, true, []vfAbMsg{{isAddr: true, family: unix.AF_INET6, hasAttrs: true, ip: pool[0], plen: 64}})
	vfAbRun(out, k+3, true, []vfAbMsg{{isAddr: false}}) // a failing request never inspects the messages
	k += 4
	// a call overlapping another caller's failing request for the same interface
	for j := 0; j < 3; j++ {
		vfAbOverlap = true
		vfAbRun(out, k, false, []vfAbMsg{{isAddr: true, family: unix.AF_INET6, hasAttrs: true, ip: pool[j], plen: 64}, {isAddr: true, family: unix.AF_INET6, hasAttrs: true, ip: pool[j+1], plen: 64}})
	}
	// every combination of the five decoded bits x noise x the valid-lifetime boundary
	for f := 0; f < 32; f++ {
		var w uint32
		for b := 0; b < 5; b++ {
			if f&(1<<b) != 0 {
				w |= vfAbBits[b]
			}
		}
		for _, noise := range []uint32{0, unix.IFA_F_PERMANENT, unix.IFA_F_NODAD | unix.IFA_F_NOPREFIXROUTE, 0xfffff000 &^ unix.IFA_F_STABLE_PRIVACY &^ 0x800} {
			for _, v := range []uint32{0xffffffff, 0xfffffffe, 3600} {
				vfAbRun(out, k, false, []vfAbMsg{{isAddr: true, family: unix.AF_INET6, hasAttrs: true, ip: pool[f%len(pool)],
					plen: 64, flags: w | noise, valid: v}})
				k++
			}
		}
	}
	// every single bit of the flag word alone
	for b := 0; b < 32; b++ {
		vfAbRun(out, k, false, []vfAbMsg{{isAddr: true, family: unix.AF_INET6, hasAttrs: true, ip: pool[1], plen: 64, flags: 1 << b, valid: 100},
			{isAddr: true, family: unix.AF_INET6, hasAttrs: true, ip: pool[2], plen: 128, flags: ^uint32(1 << b), valid: 0xffffffff}})
		k++
	}
	// every prefix length the kernel can report
	for pl := 0; pl <= 128; pl++ {
		vfAbRun(out, k, false, []vfAbMsg{{isAddr: true, family: unix.AF_INET6, hasAttrs: true, ip: pool[pl%len(pool)], plen: uint8(pl)}})
		k++
	}
	// every broken invariant alone, first, last and in the middle of a good dump
	for i := 0; i < 64; i++ {
		bad := vfAbBad(r, pool)
		vfAbRun(out, k, false, []vfAbMsg{bad})
		vfAbRun(out, k+1, false, []vfAbMsg{bad, vfAbGood(r, pool), vfAbGood(r, pool)})
		vfAbRun(out, k+2, false, []vfAbMsg{vfAbGood(r, pool), bad, vfAbGood(r, pool)})
		vfAbRun(out, k+3, false, []vfAbMsg{vfAbGood(r, pool), vfAbGood(r, pool), bad})
		k += 4
	}
	// an address with a peer, alone, first, last and in the middle of a dump; own = peer too
	for i := 0; i < 16; i++ {
		p := vfAbPeer(r, pool)
		if i%4 == 3 {
			p.local = p.ip
		}
		vfAbRun(out, k, false, []vfAbMsg{p})
		vfAbRun(out, k+1, false, []vfAbMsg{p, vfAbGood(r, pool), vfAbGood(r, pool)})
		vfAbRun(out, k+2, false, []vfAbMsg{vfAbGood(r, pool), p, vfAbGood(r, pool)})
		vfAbRun(out, k+3, false, []vfAbMsg{vfAbGood(r, pool), vfAbGood(r, pool), p})
		k += 4
	}
	// random dumps: order, duplicates, length
	n := vfh.N(4000, 150000)
	for i := 0; i < n; i++ {
		ln := 1 + r.Intn(8)
		if r.Chance(1, 10) {
			ln = r.Intn(48)
		}
		ms := make([]vfAbMsg, ln)
		for j := range ms {
			ms[j] = vfAbGood(r, pool)
			if j > 0 && r.Chance(1, 6) {
				ms[j] = ms[r.Intn(j)]
			}
		}
		if r.Chance(1, 10) && ln > 0 {
			ms[r.Intn(ln)] = vfAbPeer(r, pool)
		}
		if r.Chance(1, 12) && ln > 0 {
			ms[r.Intn(ln)] = vfAbBad(r, pool)
		}
		vfAbRun(out, k, r.Chance(1, 25), ms)
		k++
	}
}

// ---------------------------------------------------------------------------------------------

type vfRbMsg struct {
	isRoute bool
	family  uint8
	dst     []byte
	dlen    uint8
	oif     uint32
	pref    *uint8
}

func (m vfRbMsg) build() rtnetlink.Message {
	if !m.isRoute {
		return &rtnetlink.AddressMessage{Family: m.family}
	}
	return &rtnetlink.RouteMessage{Family: m.family, DstLength: m.dlen, Table: unix.RT_TABLE_MAIN,
		Attributes: rtnetlink.RouteAttributes{Dst: net.IP(m.dst), OutIface: m.oif, Pref: m.pref, Table: unix.RT_TABLE_MAIN, Priority: 256}}
}

func vfRbRun(out *vfh.Out, k int, failed bool, ms []vfRbMsg) {
	index := 1 + k%5
	c := new(vfh.Toks).S("rb").B(failed).N(len(ms))
	var msgs []rtnetlink.Message
	for _, m := range ms {
		c.B(m.isRoute).N(int(m.family))
		if m.isRoute {
			vfIpToks(c, m.dst)
		} else {
			c.S("0").S("0")
		}
		c.N(int(m.dlen)).U(uint64(m.oif)).B(m.pref != nil)
		if m.pref != nil {
			c.N(int(*m.pref))
		} else {
			c.N(0)
		}
		c.B(m.isRoute && len(m.dst) == 0)
		msgs = append(msgs, m.build())
	}
	reqOK := false
	a := &addresser{execute: func(m rtnetlink.Message, family uint16, flags netlink.HeaderFlags) ([]rtnetlink.Message, error) {
		rm, ok := m.(*rtnetlink.RouteMessage)
		reqOK = ok && rm.Family == unix.AF_INET6 && rm.Attributes.OutIface == uint32(index) &&
			rm.Attributes.Table == unix.RT_TABLE_MAIN && rm.Table == 0 && rm.DstLength == 0 && rm.Attributes.Dst == nil &&
			family == unix.RTM_GETROUTE && flags == netlink.Request|netlink.Dump
		if failed {
			return msgs, vfErrExecute
		}
		return msgs, nil
	}}
	impl := func() (s string) {
		defer func() {
			if p := recover(); p != nil {
				s = "panic"
			}
		}()
		rs, err := a.routesByIndex(index)
		if err != nil && !errors.Is(err, vfErrExecute) {
			return "foreign-error"
		}
		if rs == nil {
			return new(vfh.Toks).S("nil").B(err != nil).String()
		}
		if err != nil {
			return "list-and-error"
		}
		t := new(vfh.Toks).S("ok").N(len(rs))
		for _, rt := range rs {
			t.Prefix(rt.Prefix).N(rt.Index).N(int(rt.Preference))
		}
		return t.String()
	}()
	out.Line(c.String(), new(vfh.Toks).B(reqOK).String()+" "+impl)
}

func vfRbGood(r *vfh.Rand) vfRbMsg {
	dsts := [][]byte{vfAb16("2001:db8::"), vfAb16("2001:db8:1::"), vfAb16("fd00::"), vfAb16("::"), vfAb16("fe80::"), vfAb16("2001:db8::1"), vfAb16("ff00::")}
	m := vfRbMsg{isRoute: true, family: unix.AF_INET6, dst: vfh.Pick(r, dsts),
		dlen: uint8(vfh.Pick(r, []int{0, 8, 32, 48, 56, 64, 64, 96, 128})), oif: uint32(1 + r.Intn(4))}
	if r.Chance(1, 2) {
		p := uint8(vfh.Pick(r, []int{0, 1, 3, 2}))
		m.pref = &p
	}
	return m
}

func vfRbBad(r *vfh.Rand) vfRbMsg {
	m := vfRbGood(r)
	switch r.Intn(6) {
	case 0:
		m.isRoute = false
	case 1:
		m.family = unix.AF_INET
	case 2:
		m.dst = nil // no RTA_DST: the default route when the length is 0, a broken invariant otherwise
		if r.Bool() {
			m.dlen = 0
		}
	case 3:
		m.dst = []byte(net.IPv4(10, 0, 0, 0).To4())
	case 4:
		m.dst = []byte(net.IPv4(10, 0, 0, 0))
	default:
		m.family = uint8(r.Intn(10))
	}
	return m
}

func verifAddresserRoutes(t *testing.T, r *vfh.Rand, out *vfh.Out) {
	k := 0
	vfRbRun(out, k, false, nil)
	vfRbRun(out, k+1, true, nil)
	vfRbRun(out, k+2, true, []vfRbMsg{vfRbGood(r)})
	vfRbRun(out, k+3, true, []vfRbMsg{{isRoute: false}})
	k += 4
	for dl := 0; dl <= 128; dl++ {
		vfRbRun(out, k, false, []vfRbMsg{{isRoute: true, family: unix.AF_INET6, dst: vfAb16("2001:db8::"), dlen: uint8(dl), oif: 1}})
		k++
	}
	// the default route as the kernel sends it: destination length 0 and no RTA_DST attribute
	// (`ip -6 route add unreachable default dev lo`), alone and inside a dump; and the same
	// missing attribute with a non-zero length (a broken invariant)
	def := vfRbMsg{isRoute: true, family: unix.AF_INET6, dst: nil, dlen: 0, oif: 1}
	g1, g2 := vfRbMsg{isRoute: true, family: unix.AF_INET6, dst: vfAb16("fd00::"), dlen: 48, oif: 1}, vfRbMsg{isRoute: true, family: unix.AF_INET6, dst: vfAb16("2001:db8:1::"), dlen: 64, oif: 1}
	for _, ms := range [][]vfRbMsg{{def}, {def, g1}, {g1, def}, {g1, def, g2}, {def, def}, {{isRoute: true, family: unix.AF_INET6, dst: nil, dlen: 64, oif: 1}}, {g1, {isRoute: true, family: unix.AF_INET6, dst: []byte{}, dlen: 0, oif: 1}}} {
		vfRbRun(out, k, false, ms)
		k++
	}
	for p := 0; p < 4; p++ {
		pv := uint8(p)
		vfRbRun(out, k, false, []vfRbMsg{{isRoute: true, family: unix.AF_INET6, dst: vfAb16("fd00::"), dlen: 48, oif: 1, pref: &pv},
			{isRoute: true, family: unix.AF_INET6, dst: vfAb16("fd00:1::"), dlen: 48, oif: 2}})
		k++
	}
	for i := 0; i < 48; i++ {
		bad := vfRbBad(r)
		vfRbRun(out, k, false, []vfRbMsg{bad})
		vfRbRun(out, k+1, false, []vfRbMsg{bad, vfRbGood(r)})
		vfRbRun(out, k+2, false, []vfRbMsg{vfRbGood(r), bad, vfRbGood(r)})
		vfRbRun(out, k+3, false, []vfRbMsg{vfRbGood(r), vfRbGood(r), bad})
		k += 4
	}
	n := vfh.N(3000, 100000)
	for i := 0; i < n; i++ {
		ln := 1 + r.Intn(8)
		if r.Chance(1, 10) {
			ln = r.Intn(48)
		}
		ms := make([]vfRbMsg, ln)
		for j := range ms {
			ms[j] = vfRbGood(r)
			if j > 0 && r.Chance(1, 6) {
				ms[j] = ms[r.Intn(j)]
			}
		}
		if r.Chance(1, 12) && ln > 0 {
			ms[r.Intn(ln)] = vfRbBad(r)
		}
		vfRbRun(out, k, r.Chance(1, 25), ms)
		k++
	}
}

// verifAddresser serves the OS-glue cases of C13 (addresses and routes), C14 (addresses) and
// C15 (routes).
func verifAddresser(t *testing.T, r *vfh.Rand, out *vfh.Out) {
	switch vfh.Prop() {
	case "C15":
		verifAddresserRoutes(t, r, out)
	default: // C13, C14: the address dump
		verifAddresserAddrs(t, r, out)
	}
}
