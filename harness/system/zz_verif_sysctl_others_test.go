//go:build verif && !linux

package system

import (
	"testing"

	"github.com/mdlayher/corerad/internal/vfh"
)

func verifSysctl(t *testing.T, r *vfh.Rand, out *vfh.Out) {}

func verifSysctlConc(t *testing.T, r *vfh.Rand, out *vfh.Out) {}
