//go:build verif && linux

package system

import (
	"net"
	"os"
	"os/exec"
	"sort"
	"testing"
	"time"

	"github.com/mdlayher/corerad/internal/vfh"
)

// TestVerifNetns: the real addresser — real rtnetlink address and route dumps — in the private
// network namespace /verif/check sets up (VERIF_NETNS=1): the harness configures addresses and
// loopback routes with ip(8) and compares what AddressesByIndex / LoopbackRoutes report.
//
//	nsa 1 | addrs (prefix dep tmp tent forever)* ; routes (prefix)* | err
func TestVerifNetns(t *testing.T) {
	if os.Getenv("VERIF_NETNS") == "" {
		t.Skip("VERIF_NETNS not set")
	}
	out, err := vfh.OpenOut()
	if err != nil {
		t.Fatal(err)
	}
	defer out.Close()
	ip := func(args ...string) bool { return exec.Command("ip", args...).Run() == nil }
	ok := ip("-6", "addr", "add", "2001:db8:1::1/64", "dev", "vf0", "nodad") &&
		ip("-6", "addr", "add", "2001:db8:2::1/64", "dev", "vf0", "nodad", "preferred_lft", "0", "valid_lft", "3600") &&
		ip("-6", "addr", "add", "fd00:0:0:3::1/56", "dev", "vf0", "nodad", "valid_lft", "7200", "preferred_lft", "3600") &&
		ip("addr", "add", "192.0.2.1/24", "dev", "vf0") &&
		ip("-6", "route", "add", "2001:db8:f00::/48", "dev", "lo") &&
		ip("-6", "route", "add", "2001:db8:f00:1::/64", "dev", "lo", "metric", "7")
	if !ok {
		out.Line("nsa 0", "skip")
		return
	}
	time.Sleep(200 * time.Millisecond)
	ifi, err := net.InterfaceByName("vf0")
	if err != nil {
		out.Line("nsa 0", "skip")
		return
	}
	impl := new(vfh.Toks)
	a := NewAddresser()
	addrs, err := a.AddressesByIndex(ifi.Index)
	if err != nil {
		impl.S("addrs-err")
	} else {
		var ls []string
		for _, x := range addrs {
			if x.Address.Addr().IsLinkLocalUnicast() {
				continue // the kernel's own fe80:: address
			}
			ls = append(ls, x.Address.String()+" "+vfVBs(x.Deprecated)+vfVBs(x.Temporary)+vfVBs(x.Tentative)+vfVBs(x.ValidForever))
		}
		sort.Strings(ls)
		impl.S("addrs").N(len(ls))
		for _, l := range ls {
			impl.S(l)
		}
	}
	func() {
		defer func() {
			if p := recover(); p != nil {
				impl.S("routes-panic")
			}
		}()
		routes, err := a.LoopbackRoutes()
		if err != nil {
			impl.S("routes-err")
			return
		}
		var ls []string
		for _, r := range routes {
			if r.Prefix.Addr().IsLoopback() || r.Prefix.Addr().IsLinkLocalUnicast() || r.Prefix.Addr().IsMulticast() {
				continue // the kernel's own ::1, fe80::/64, ff00::/8 entries, if any
			}
			ls = append(ls, r.Prefix.String())
		}
		sort.Strings(ls)
		impl.S("routes").N(len(ls))
		for _, l := range ls {
			impl.S(l)
		}
	}()
	out.Line("nsa 1", impl.String())

	// nsb: dumps the kernel itself produces for an address with a peer, an IPv4-mapped address and
	// an IPv4-mapped loopback route
	prop := os.Getenv("VERIF_PROP")
	if prop == "C13" || prop == "C14" {
		if !ip("-6", "addr", "add", "2001:db8:5::1", "peer", "2001:db8:6::2/64", "dev", "vf0", "nodad") {
			out.Line("nsb 0", "skip")
			return
		}
		time.Sleep(100 * time.Millisecond)
		out.Line("nsb 1 peer", func() (s string) {
			defer func() {
				if recover() != nil {
					s = "panic"
				}
			}()
			addrs, err := a.AddressesByIndex(ifi.Index)
			if err != nil {
				return "err"
			}
			own, peer := false, false
			for _, x := range addrs {
				switch x.Address.Addr().String() {
				case "2001:db8:5::1":
					own = true
				case "2001:db8:6::2":
					peer = true
				}
			}
			switch {
			case own && peer:
				return "both"
			case own:
				return "own"
			case peer:
				return "peer"
			}
			return "none"
		}())
		if !ip("-6", "addr", "add", "::ffff:192.0.2.9/128", "dev", "vf0", "nodad") {
			out.Line("nsb 0", "skip")
			return
		}
		time.Sleep(100 * time.Millisecond)
		out.Line("nsb 1 mapaddr", func() (s string) {
			defer func() {
				if recover() != nil {
					s = "panic"
				}
			}()
			addrs, err := a.AddressesByIndex(ifi.Index)
			if err != nil || len(addrs) < 4 {
				return "err"
			}
			return "ok"
		}())
	}
	if prop == "C15" {
		if !ip("-6", "route", "add", "unreachable", "::ffff:0.0.0.0/96", "dev", "lo") {
			out.Line("nsb 0", "skip")
			return
		}
		time.Sleep(100 * time.Millisecond)
		out.Line("nsb 1 maproute", func() (s string) {
			defer func() {
				if recover() != nil {
					s = "panic"
				}
			}()
			routes, err := a.LoopbackRoutes()
			if err != nil || len(routes) < 2 {
				return "err"
			}
			return "ok"
		}())
	}
}
