//go:build verif

package system

import (
	"errors"
	"fmt"
	"math/big"
	"net"
	"testing"

	"github.com/mdlayher/corerad/internal/vfh"
)

// ---------------------------------------------------------------------------------------------
// C10, OS-glue part: the real checkInterface(), lookupInterface(), isNoSuchInterface() of conn.go
//
// checkInterface is called with a synthetic *net.Interface and an addrFunc that returns a
// synthetic []net.Addr or fails; the returned error is classified exactly as (*Dialer).init
// classifies the error of DialFunc (vClass of zz_verif_test.go: errors.As *os.SyscallError,
// errors.Is os.ErrPermission, errors.Is ErrLinkNotReady).
//
//   case: ci up akind n (isIPNet fam val)*
//           akind 0: addrFunc succeeds with the n addresses; 1/2/3: it fails with a system-call
//           error / a permission system-call error / any other error (n = 0)
//           isIPNet: the entry is a *net.IPNet (else a *net.IPAddr or *net.UDPAddr)
//           fam val: what netip.AddrFromSlice makes of the entry's IP bytes: 4 (4 bytes), 6 (16
//           bytes: IPv6 proper or the IPv4-mapped form package net uses), 0 0 (nil, or any other
//           length)
//   impl: class wraps called     class 0 nil, 1 ErrLinkNotReady, 2 syscall, 3 permission, 4 other;
//                                wraps: errors.Is(err, the error addrFunc returned);
//                                called: addrFunc was called
//
//   case: li hasErr isOp opRoute netIPNet msgNoSuch   impl: class
//           the real lookupInterface on a name; the case records the features of the error that
//           the real net.InterfaceByName returns for the same name
//   case: nsi isOp opRoute netIPNet msgNoSuch          impl: 0|1   (isNoSuchInterface, synthetic)

type vfCiAddr struct {
	isIPNet bool
	ip      []byte // nil, 4, 16 or another number of bytes
	alt     int    // which non-IPNet type
}

func (a vfCiAddr) build() net.Addr {
	if a.isIPNet {
		bits := 8 * len(a.ip)
		if bits == 0 {
			bits = 128
		}
		ones := 64
		if ones > bits {
			ones = bits
		}
		return &net.IPNet{IP: net.IP(a.ip), Mask: net.CIDRMask(ones, bits)}
	}
	if a.alt%2 == 0 {
		return &net.IPAddr{IP: net.IP(a.ip)}
	}
	return &net.UDPAddr{IP: net.IP(a.ip), Port: 547}
}

func (a vfCiAddr) toks(t *vfh.Toks) {
	t.B(a.isIPNet)
	switch len(a.ip) {
	case 4:
		t.S("4").S(new(big.Int).SetBytes(a.ip).String())
	case 16:
		t.S("6").S(new(big.Int).SetBytes(a.ip).String())
	default:
		t.S("0").S("0")
	}
}

func vfIp16(s string) []byte { return []byte(net.ParseIP(s).To16()) }
func vfIp4(s string) []byte  { return []byte(net.ParseIP(s).To4()) }

// ciPool: every kind of entry an address list can hold.
func vfCiPool() []vfCiAddr {
	return []vfCiAddr{
		{true, vfIp16("fe80::1"), 0},                       // IPv6 link-local
		{true, vfIp16("febf:ffff::1"), 0},                  // last address block of fe80::/10
		{true, vfIp16("fec0::1"), 0},                       // just outside (site-local)
		{true, vfIp16("fe7f:ffff::1"), 0},                  // just below
		{true, vfIp16("2001:db8::1"), 0},                   // global
		{true, vfIp16("fd00::1"), 0},                       // unique local
		{true, vfIp16("::1"), 0},                           // loopback
		{true, vfIp16("ff02::1"), 0},                       // multicast
		{true, vfIp4("192.0.2.1"), 0},                      // IPv4, 4 bytes
		{true, vfIp16("192.0.2.1"), 0},                     // IPv4 as package net holds it (16 bytes)
		{true, vfIp4("169.254.7.9"), 0},                    // IPv4 link-local, 4 bytes
		{true, vfIp16("169.254.7.9"), 0},                   // IPv4 link-local as package net holds it
		{true, nil, 0},                                   // *net.IPNet without an address
		{true, []byte{0xfe, 0x80, 0, 0, 0, 1}, 0},        // neither 4 nor 16 bytes
		{false, vfIp16("fe80::1"), 0},                      // link-local, but a *net.IPAddr
		{false, vfIp16("fe80::2"), 1},                      // link-local, but a *net.UDPAddr
		{false, vfIp4("10.0.0.1"), 0},                      // *net.IPAddr IPv4
	}
}

func vfCiRun(out *vfh.Out, up bool, akind, k int, as []vfCiAddr) {
	c := new(vfh.Toks).S("ci").B(up).N(akind)
	var addrs []net.Addr
	var inject error
	if akind == 0 {
		c.N(len(as))
		for _, a := range as {
			a.toks(c)
			addrs = append(addrs, a.build())
		}
	} else {
		c.N(0)
		inject = vfVDialErr(akind+1, k, "addrs") // vdSyscall, vdPermission, vdOther
	}
	flags := net.FlagBroadcast | net.FlagMulticast
	if k%3 == 0 {
		flags |= net.FlagRunning // running, loopback, point-to-point play no part
	}
	if k%5 == 0 {
		flags |= net.FlagLoopback
	}
	if up {
		flags |= net.FlagUp
	}
	ifi := &net.Interface{Index: 1 + k%7, MTU: 1500, Name: fmt.Sprintf("verif%d", k%4), Flags: flags}
	called := false
	impl := func() (s string) {
		defer func() {
			if p := recover(); p != nil {
				s = "panic"
			}
		}()
		err := checkInterface(ifi, func() ([]net.Addr, error) {
			called = true
			if inject != nil {
				if k%2 == 0 {
					return addrs, inject // a failing lister may still hand back a list
				}
				return nil, inject
			}
			return addrs, nil
		})
		wraps := inject != nil && err != nil && errors.Is(err, inject)
		return new(vfh.Toks).I(vfVClass(err)).B(wraps).B(called).String()
	}()
	out.Line(c.String(), impl)
}

// liFeatures: what isNoSuchInterface looks at, read off an error.
func vfLiFeatures(err error) (isOp, opRoute, netIPNet, msg bool) {
	var oerr *net.OpError
	if !errors.As(err, &oerr) {
		return false, false, false, false
	}
	return true, oerr.Op == "route", oerr.Net == "ip+net",
		oerr.Err != nil && oerr.Err.Error() == "no such network interface"
}

func verifCheckInterface(t *testing.T, r *vfh.Rand, out *vfh.Out) {
	pool := vfCiPool()
	k := 0
	// down and up, empty list, every single entry, every ordered pair, every failure kind
	for _, up := range []bool{false, true} {
		vfCiRun(out, up, 0, k, nil)
		k++
		for a := range pool {
			vfCiRun(out, up, 0, k, []vfCiAddr{pool[a]})
			k++
		}
		for akind := 1; akind <= 3; akind++ {
			for j := 0; j < 6; j++ {
				vfCiRun(out, up, akind, k, nil)
				k++
			}
		}
	}
	for a := range pool {
		for b := range pool {
			vfCiRun(out, true, 0, k, []vfCiAddr{pool[a], pool[b]})
			k++
		}
	}
	if vfh.Thorough() {
		for a := range pool {
			for b := range pool {
				for c := range pool {
					vfCiRun(out, true, 0, k, []vfCiAddr{pool[a], pool[b], pool[c]})
					k++
				}
			}
		}
	}
	// random lists, random addresses around the fe80::/10 boundary
	n := vfh.N(4000, 200000)
	for i := 0; i < n; i++ {
		ln := r.Intn(7)
		as := make([]vfCiAddr, ln)
		for j := range as {
			as[j] = vfh.Pick(r, pool)
			if r.Chance(1, 5) {
				b := make([]byte, 16)
				hi := []uint16{0xfe80, 0xfe81, 0xfebf, 0xfec0, 0xfe7f, 0xfe00, 0x2001, 0x0000}[r.Intn(8)]
				b[0], b[1] = byte(hi>>8), byte(hi)
				for q := 8; q < 16; q++ {
					b[q] = byte(r.Uint64())
				}
				if r.Chance(1, 4) { // IPv4-mapped
					copy(b, []byte{0, 0, 0, 0, 0, 0, 0, 0, 0, 0, 0xff, 0xff})
					if r.Bool() {
						b[12], b[13] = 169, 254
					}
				}
				as[j] = vfCiAddr{isIPNet: !r.Chance(1, 8), ip: b, alt: r.Intn(2)}
			}
		}
		akind := 0
		if r.Chance(1, 10) {
			akind = 1 + r.Intn(3)
		}
		vfCiRun(out, !r.Chance(1, 6), akind, k, as)
		k++
	}

	// lookupInterface against the real net.InterfaceByName
	names := []string{"verif-nonexist0", "", "this-name-is-far-too-long-for-an-interface", "nosuch9"}
	if ifis, err := net.Interfaces(); err == nil {
		for _, ifi := range ifis {
			names = append(names, ifi.Name)
		}
	}
	for _, name := range names {
		_, nerr := net.InterfaceByName(name)
		isOp, opRoute, netIPNet, msg := vfLiFeatures(nerr)
		ifi, err := lookupInterface(name)
		if (ifi == nil) != (err != nil) {
			t.Fatalf("lookupInterface(%q) = %v, %v", name, ifi, err)
		}
		c := new(vfh.Toks).S("li").B(nerr != nil).B(isOp).B(opRoute).B(netIPNet).B(msg)
		out.Line(c.String(), new(vfh.Toks).I(vfVClass(err)).String())
	}
	// isNoSuchInterface on synthetic errors: all 16 feature combinations, plain and wrapped
	for m := 0; m < 16; m++ {
		isOp, opRoute, netIPNet, msg := m&1 != 0, m&2 != 0, m&4 != 0, m&8 != 0
		op, nw, text := "dial", "ip", "no such host"
		if opRoute {
			op = "route"
		}
		if netIPNet {
			nw = "ip+net"
		}
		if msg {
			text = "no such network interface"
		}
		var err error
		if isOp {
			err = &net.OpError{Op: op, Net: nw, Err: errors.New(text)}
		} else {
			err = fmt.Errorf("%s %s: %s", op, nw, text)
		}
		for _, wrapped := range []bool{false, true} {
			e := err
			if wrapped {
				e = fmt.Errorf("lookup: %w", err)
			}
			c := new(vfh.Toks).S("nsi").B(isOp).B(isOp && opRoute).B(isOp && netIPNet).B(isOp && msg)
			out.Line(c.String(), new(vfh.Toks).B(isNoSuchInterface(e)).String())
		}
	}
}
