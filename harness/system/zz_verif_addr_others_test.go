//go:build verif && !linux

package system

import (
	"testing"

	"github.com/mdlayher/corerad/internal/vfh"
)

// The rtnetlink addresser exists on Linux only.
func verifAddresser(t *testing.T, r *vfh.Rand, out *vfh.Out) {}
