//go:build verif && linux

package system

import (
	"fmt"
	"os"
	"path/filepath"
	"strconv"
	"strings"
	"sync"
	"sync/atomic"
	"testing"

	"github.com/mdlayher/corerad/internal/vfh"
)

// verifSysctl runs the real systemState (getIPv6Autoconf / getIPv6Forwarding / setIPv6Autoconf of
// interface_linux.go) over a scratch directory: the "interface name" climbs out of
// /proc/sys/net/ipv6/conf with ../ so that the same code reads and writes plain files the harness
// controls. Nothing of the host is touched.
//
//	sc autoconf forwarding n op* | result* autoconf' forwarding'
func verifSysctl(t *testing.T, r *vfh.Rand, out *vfh.Out) {
	dir, err := os.MkdirTemp("", "verif-sysctl")
	if err != nil {
		t.Logf("sysctl glue not run: %v", err)
		return
	}
	defer os.RemoveAll(dir)
	iface := strings.Repeat("../", 8) + strings.TrimPrefix(dir, "/")
	if sysctl(iface, "autoconf") != filepath.Join(dir, "autoconf") {
		t.Logf("sysctl glue not run: cannot redirect %q", sysctl(iface, "autoconf"))
		return
	}
	// content codes: -1 missing, 0 "0\n", 1 "1\n" (what the kernel renders for 0 and 1), and for
	// anything else: 2 not an integer, 3 another rendering of a non-zero integer ("2\n": the
	// kernel keeps whatever integer is written to `forwarding` and forwards for any non-zero
	// value), 4 another rendering of zero
	contents := map[int]string{0: "0\n", 1: "1\n"}
	other := []string{"1", "0", "", "2\n", "1\n\n", " 1\n", "true\n", "01\n", "-1\n", "00\n", "1 1\n"}
	classify := func(s string) int {
		switch s {
		case "0\n":
			return 0
		case "1\n":
			return 1
		}
		v, err := strconv.Atoi(strings.TrimSpace(s))
		switch {
		case err != nil:
			return 2
		case v != 0:
			return 3
		}
		return 4
	}
	put := func(key string, c int, alt string) int {
		p := filepath.Join(dir, key)
		if c < 0 {
			os.Remove(p)
			return -1
		}
		s := contents[c]
		if c >= 2 {
			s = alt
		}
		if err := os.WriteFile(p, []byte(s), 0o644); err != nil {
			t.Fatal(err)
		}
		return classify(s)
	}
	code := func(key string) int {
		b, err := os.ReadFile(filepath.Join(dir, key))
		if err != nil {
			return -1
		}
		return classify(string(b))
	}
	st := NewState()
	run := func(a, f int, alt string, ops []string) {
		a = put("autoconf", a, alt)
		f = put("forwarding", f, alt)
		c := new(vfh.Toks).S("sc").I(int64(a)).I(int64(f)).N(len(ops))
		impl := new(vfh.Toks)
		res := func(b bool, err error) {
			switch {
			case err != nil:
				impl.S("err")
			case b:
				impl.S("1")
			default:
				impl.S("0")
			}
		}
		for _, op := range ops {
			c.S(op)
			switch op {
			case "ga":
				res(st.IPv6Autoconf(iface))
			case "gf":
				res(st.IPv6Forwarding(iface))
			default:
				v := op == "s1"
				err := st.SetIPv6Autoconf(iface, v)
				res(v, err)
				// the kernel renders a written "0"/"1" as "0\n"/"1\n"
				if b, rerr := os.ReadFile(filepath.Join(dir, "autoconf")); rerr == nil && (string(b) == "0" || string(b) == "1") {
					os.WriteFile(filepath.Join(dir, "autoconf"), append(b, '\n'), 0o644)
				}
			}
		}
		impl.I(int64(code("autoconf"))).I(int64(code("forwarding")))
		out.Line(c.String(), impl.String())
	}
	opsAll := []string{"ga", "gf", "s0", "s1"}
	// every pair of contents x every op sequence of length <= 3
	for a := -1; a <= 2; a++ {
		for f := -1; f <= 2; f++ {
			for _, alt := range other[:4] {
				if a != 2 && f != 2 && alt != other[0] {
					continue
				}
				vfTuplesS(opsAll, 3, func(ops []string) { run(a, f, alt, ops) })
			}
		}
	}
	for _, alt := range other {
		run(2, 2, alt, []string{"ga", "gf"})
	}
	// the dialer's bracket: read, disable, (task), restore
	for _, prev := range []int{0, 1} {
		ops := []string{"ga", "s0", "ga", "gf", "s" + string(rune('0'+prev)), "ga"}
		run(prev, 1, "", ops)
		run(prev, 0, "", ops)
	}
	n := vfh.N(100, 3000)
	for i := 0; i < n; i++ {
		var ops []string
		for j := r.Intn(8); j >= 0; j-- {
			ops = append(ops, vfh.Pick(r, opsAll))
		}
		run(r.Intn(4)-1, r.Intn(4)-1, vfh.Pick(r, other), ops)
	}
}

func vfTuplesS(alpha []string, k int, fn func([]string)) {
	var rec func(cur []string)
	rec = func(cur []string) {
		fn(append([]string(nil), cur...))
		if len(cur) == k {
			return
		}
		for _, a := range alpha {
			rec(append(cur, a))
		}
	}
	rec(nil)
}

// verifSysctlConc: one State shared by every reader, as in the daemon (main creates a single
// system.NewState() for all advertisers, the metrics collector and the debug API): readers of
// different interfaces run concurrently and each must see its own interface's value.
//
//	scc readers reads | wrong
func verifSysctlConc(t *testing.T, r *vfh.Rand, out *vfh.Out) {
	root, err := os.MkdirTemp("", "verif-sysctlc")
	if err != nil {
		t.Logf("sysctl concurrency not run: %v", err)
		return
	}
	defer os.RemoveAll(root)
	type ifc struct {
		name     string
		fwd, acf bool
	}
	var ifs []ifc
	for i, v := range [][2]bool{{false, true}, {true, false}, {false, false}, {true, true}} {
		d := filepath.Join(root, fmt.Sprintf("if%d", i))
		os.MkdirAll(d, 0o755)
		w := func(key string, b bool) {
			c := "0\n"
			if b {
				c = "1\n"
			}
			os.WriteFile(filepath.Join(d, key), []byte(c), 0o644)
		}
		w("forwarding", v[0])
		w("autoconf", v[1])
		ifs = append(ifs, ifc{strings.Repeat("../", 8) + strings.TrimPrefix(d, "/"), v[0], v[1]})
	}
	if sysctl(ifs[0].name, "forwarding") != filepath.Join(root, "if0", "forwarding") {
		return
	}
	st := NewState()
	readers, reads := 8, vfh.N(3000, 60000)
	var wrong int64
	var wg sync.WaitGroup
	for g := 0; g < readers; g++ {
		wg.Add(1)
		go func(g int) {
			defer wg.Done()
			me := ifs[g%len(ifs)]
			for k := 0; k < reads; k++ {
				if b, err := st.IPv6Forwarding(me.name); err != nil || b != me.fwd {
					atomic.AddInt64(&wrong, 1)
				}
				if b, err := st.IPv6Autoconf(me.name); err != nil || b != me.acf {
					atomic.AddInt64(&wrong, 1)
				}
			}
		}(g)
	}
	wg.Wait()
	out.Line(fmt.Sprintf("scc %d %d", readers, reads), fmt.Sprint(atomic.LoadInt64(&wrong)))
}
