//go:build verif

package system

import (
	"testing"

	"github.com/mdlayher/corerad/internal/vfh"
)

// TestVerifRace: concurrent readers of one shared real State (C04) under the Go race detector
// (thorough tier, see harness/corerad/zz_verif_race_test.go).
func TestVerifRace(t *testing.T) {
	if vfh.Prop() != "C04" {
		t.Skip("no race scenario for this property in package system")
	}
	out, err := vfh.OpenOut()
	if err != nil {
		t.Fatal(err)
	}
	defer out.Close()
	verifSysctlConc(t, vfh.NewRand(vfh.Seed()), out)
}
