//go:build verif

package system

import (
	"context"
	"errors"
	"fmt"
	"go/ast"
	"go/parser"
	"go/token"
	"io"
	"io/fs"
	"log"
	"net"
	"net/netip"
	"os"
	"regexp"
	"runtime/debug"
	"strconv"
	"strings"
	"sync"
	"syscall"
	"testing"
	"testing/synctest"
	"time"

	"github.com/mdlayher/corerad/internal/vfh"
	"github.com/mdlayher/ndp"
	"golang.org/x/net/ipv6"
)

// TestVerif is the entry point of the correspondence harness for package system.  It does
// nothing unless VERIF_PROP is set by /verif/check.
func TestVerif(t *testing.T) {
	prop := vfh.Prop()
	if prop == "" {
		t.Skip("VERIF_PROP not set")
	}
	out, err := vfh.OpenOut()
	if err != nil {
		t.Fatal(err)
	}
	defer out.Close()
	r := vfh.NewRand(vfh.Seed())
	switch prop {
	case "C10":
		verifC10Dialer(t, r, out)
		verifCheckInterface(t, r, out)
	case "C13", "C14", "C15":
		verifAddresser(t, r, out)
	case "C11":
		verifC11(t, r, out)
		verifSlowDial(t, r, out)
	case "C04":
		verifSysctl(t, r, out)
		verifSysctlConc(t, r, out)
	default:
		t.Fatalf("unknown VERIF_PROP %q for package system", prop)
	}
}

// ---------------------------------------------------------------------------------------------
// C10 (dialer part) and C11: the real (*Dialer).Dial driven by a script
//
// One vAttempt per DialFunc call, consumed in order (past the end: success, no faults, the
// task returns nil).  Every run happens in its own testing/synctest bubble; nothing but the
// back-off waits of (*Dialer).init takes virtual time, so the time that passes between two
// logged events is exactly what Dial slept.
//
//   case: (d10|d11) leak done adv ac0 T n (pre get set rst task)*
//           leak, done: how the source composes dial() (read from dialer.go by vScanDial; the
//           replica below follows it; the driver compares both with the extractor's facts)
//           T: instant of the external cancellation in ns, -1 = none
//   impl: events… fin v
//           w d | x | d k | dr k o | o k | g v r | s v r | fs k | fr k t | lv k | cl k | r ret
//
// DialFunc is a replica of (*Dialer).dial(): scripted lookup/check/dialNDP outcome, a fake
// connection, the REAL (*Dialer).setAutoconf against a recording, fault-injecting State, and a
// done closure composed as the source composes it.

const (
	vdOK = iota
	vdLinkNotReady
	vdSyscall
	vdPermission
	vdOther
)

const (
	vtNil = iota
	vtLinkChange
	vtSyscall
	vtPermission
	vtRetries
	vtOther
	vtCancelled
	vtCancelledErr
)

const (
	vfNone = iota
	vfPermission
	vfNotExist
	vfOther
)

type vfVAttempt struct{ pre, get, set, rst, task int }

type vfVScript struct {
	adv, ac0 bool
	cancelAt int64 // ns of virtual time since Dial was called; < 0: never
	// cancelIn > 0: the context is cancelled from inside DialFunc call number cancelIn-1 (not by a
	// timer): the cancellation falls after the wait that preceded the call and before the call
	// returns. The case line then carries the instant of that call as cancelAt; 0: not used.
	cancelIn int
	atts     []vfVAttempt
}

// vSource is what the harness read from dialer.go.
type vfVSource struct {
	leak bool     // dial(): the `setAutoconf` error path returns without conn.Close()
	done []string // calls of the done closure in order
}

func (s vfVSource) doneCode() int {
	c := 0
	for _, d := range s.done {
		c *= 10
		switch d {
		case "conn.LeaveGroup":
			c += 1
		case "conn.Close":
			c += 2
		case "restore":
			c += 3
		default:
			c += 9
		}
	}
	return c
}

// vScanDial reads, from dialer.go in the package directory, how dial() treats the socket when
// setAutoconf fails and in which order the done closure undoes things.
func vfVScanDial() (vfVSource, error) {
	var src vfVSource
	fset := token.NewFileSet()
	f, err := parser.ParseFile(fset, "dialer.go", nil, 0)
	if err != nil {
		return src, err
	}
	var dial *ast.FuncDecl
	for _, d := range f.Decls {
		if fd, ok := d.(*ast.FuncDecl); ok && fd.Name.Name == "dial" && fd.Recv != nil {
			dial = fd
		}
	}
	if dial == nil {
		return src, errors.New("dialer.go: method dial not found")
	}
	name := func(e ast.Expr) string {
		switch e := e.(type) {
		case *ast.Ident:
			return e.Name
		case *ast.SelectorExpr:
			if x, ok := e.X.(*ast.Ident); ok {
				return x.Name + "." + e.Sel.Name
			}
		}
		return ""
	}
	calls := func(n ast.Node) []string {
		var out []string
		ast.Inspect(n, func(m ast.Node) bool {
			if c, ok := m.(*ast.CallExpr); ok {
				out = append(out, name(c.Fun))
			}
			return true
		})
		return out
	}
	var setPos token.Pos
	ast.Inspect(dial.Body, func(n ast.Node) bool {
		if c, ok := n.(*ast.CallExpr); ok && name(c.Fun) == "d.setAutoconf" {
			setPos = c.Pos()
		}
		return true
	})
	if setPos == token.NoPos {
		return src, errors.New("dialer.go: dial does not call d.setAutoconf")
	}
	found := false
	ast.Inspect(dial.Body, func(n ast.Node) bool {
		is, ok := n.(*ast.IfStmt)
		if !ok || found || is.Pos() < setPos {
			return true
		}
		if b, ok := is.Cond.(*ast.BinaryExpr); !ok || name(b.X) != "err" || b.Op != token.NEQ {
			return true
		}
		// the first `if err != nil` after the call of d.setAutoconf
		found = true
		closes := false
		for _, c := range calls(is.Body) {
			if c == "conn.Close" {
				closes = true
			}
		}
		src.leak = !closes
		return false
	})
	if !found {
		return src, errors.New("dialer.go: no error check after d.setAutoconf")
	}
	ast.Inspect(dial.Body, func(n ast.Node) bool {
		as, ok := n.(*ast.AssignStmt)
		if !ok || len(as.Lhs) != 1 || name(as.Lhs[0]) != "done" {
			return true
		}
		if fl, ok := as.Rhs[0].(*ast.FuncLit); ok {
			for _, c := range calls(fl.Body) {
				if c == "conn.LeaveGroup" || c == "conn.Close" || c == "restore" {
					src.done = append(src.done, c)
				}
			}
		}
		return true
	})
	if len(src.done) == 0 {
		return src, errors.New("dialer.go: done closure not found in dial")
	}
	return src, nil
}

// vConn is the fake connection; its clean-up calls are logged.
type vfVConn struct {
	h *vfVRun
	k int
}

func (c *vfVConn) ReadFrom() (ndp.Message, *ipv6.ControlMessage, netip.Addr, error) {
	return nil, nil, netip.Addr{}, errors.New("vConn: not readable")
}
func (c *vfVConn) SetReadDeadline(time.Time) error { return nil }
func (c *vfVConn) WriteTo(ndp.Message, *ipv6.ControlMessage, netip.Addr) error {
	return errors.New("vConn: not writable")
}
func (c *vfVConn) LeaveGroup(netip.Addr) error { c.h.ev("lv", int64(c.k)); return nil }
func (c *vfVConn) Close() error                { c.h.ev("cl", int64(c.k)); return nil }

var _ Conn = &vfVConn{}

// vState is the recording, fault-injecting State.  A write takes effect iff it does not fail.
type vfVState struct {
	h   *vfVRun
	ac  bool
	tag string // "get#k" / "set#k" / "rst#k": identifies the injected error in messages
	get int
	set int
}

func vfVFaultErr(f int, tag string) error {
	switch f {
	case vfPermission:
		return &fs.PathError{Op: "open", Path: "/proc/sys/net/ipv6/conf/vf0/autoconf " + tag, Err: syscall.EACCES}
	case vfNotExist:
		return &fs.PathError{Op: "open", Path: "/proc/sys/net/ipv6/conf/vf0/autoconf " + tag, Err: syscall.ENOENT}
	case vfOther:
		return &fs.PathError{Op: "write", Path: "/proc/sys/net/ipv6/conf/vf0/autoconf " + tag, Err: syscall.EIO}
	}
	return nil
}

func (s *vfVState) IPv6Autoconf(string) (bool, error) {
	if s.get != vfNone {
		s.h.ev("g", 0, int64(s.get))
		return false, vfVFaultErr(s.get, "get#"+s.tag)
	}
	s.h.ev("g", vfVB(s.ac), 0)
	return s.ac, nil
}

func (s *vfVState) IPv6Forwarding(string) (bool, error) { return true, nil }

func (s *vfVState) SetIPv6Autoconf(_ string, v bool) error {
	s.h.ev("s", vfVB(v), int64(s.set))
	if s.set != vfNone {
		return vfVFaultErr(s.set, "set#"+s.tag)
	}
	s.ac = v
	return nil
}

func vfVB(b bool) int64 {
	if b {
		return 1
	}
	return 0
}

type vfVRun struct {
	sc  vfVScript
	src vfVSource
	d   *Dialer
	st  *vfVState

	mu     sync.Mutex
	tr     *vfh.Toks
	last   time.Time
	start  time.Time
	waits  [][2]int64 // [begin, end) of every positive amount of time slept, ns since start
	k      int        // DialFunc calls so far
	cancel context.CancelFunc
	// instant of the DialFunc call that cancelled the context (cancelIn), ns since start; -1: none
	cancelT  int64
	pendingX bool
}

// ev logs one event, preceded by the virtual time slept since the previous one.
func (h *vfVRun) ev(tag string, args ...int64) {
	h.mu.Lock()
	defer h.mu.Unlock()
	now := time.Now()
	if d := now.Sub(h.last); d != 0 {
		h.tr.S("w").I(int64(d))
		h.waits = append(h.waits, [2]int64{int64(h.last.Sub(h.start)), int64(now.Sub(h.start))})
	}
	h.last = now
	h.tr.S(tag)
	for _, a := range args {
		h.tr.I(a)
	}
}

func (h *vfVRun) att(k int) vfVAttempt {
	if k < len(h.sc.atts) {
		return h.sc.atts[k]
	}
	return vfVAttempt{}
}

// vDialErr builds an error of the class exactly as init tells classes apart; k varies the shape.
func vfVDialErr(class, k int, what string) error {
	tag := fmt.Sprintf("%s#%d", what, k)
	switch class {
	case vdLinkNotReady:
		return fmt.Errorf("interface %q is not up: %w", tag, ErrLinkNotReady)
	case vdSyscall:
		e := &os.SyscallError{Syscall: tag, Err: syscall.EINVAL}
		switch k % 4 {
		case 1:
			return fmt.Errorf("failed to listen: %w", e)
		case 2:
			// a failing open(2)/read(2) of the interface's sysctl files (the interface was
			// removed): package os reports it as *fs.PathError, not *os.SyscallError — a
			// non-permission system-call error all the same (finding F-30)
			return fmt.Errorf("failed to get IPv6 forwarding state: %w",
				&fs.PathError{Op: "open", Path: "/proc/sys/net/ipv6/conf/" + tag + "/forwarding", Err: syscall.ENOENT})
		case 3:
			return &fs.PathError{Op: "read", Path: tag, Err: syscall.EIO}
		}
		return e
	case vdPermission:
		switch k % 4 {
		case 0:
			return &os.SyscallError{Syscall: tag, Err: os.ErrPermission}
		case 1:
			return &os.SyscallError{Syscall: tag, Err: syscall.EPERM}
		case 2:
			return &fs.PathError{Op: "open", Path: tag, Err: syscall.EACCES}
		default:
			return fmt.Errorf("failed to listen: %w", &os.SyscallError{Syscall: tag, Err: syscall.EACCES})
		}
	case vdOther:
		switch k % 3 {
		case 0:
			return errors.New(tag + " other")
		case 1:
			// a system-call error flattened into text is not one any more
			return fmt.Errorf("%s: %v", tag, &fs.PathError{Op: "open", Path: tag, Err: syscall.ENOENT})
		default:
			return fmt.Errorf("%s: %v", tag, &os.SyscallError{Syscall: "socket", Err: syscall.EINVAL})
		}
	}
	return nil
}

func vfVTaskErr(class, k int) error {
	tag := fmt.Sprintf("task#%d", k)
	switch class {
	case vtLinkChange:
		if k%2 == 1 {
			return fmt.Errorf("%s: %w", tag, ErrLinkChange)
		}
		return ErrLinkChange
	case vtSyscall:
		return vfVDialErr(vdSyscall, k, "task")
	case vtPermission:
		return vfVDialErr(vdPermission, k, "task")
	case vtRetries:
		return fmt.Errorf("%s: %w", tag, errors.New("exhausted receive retries"))
	case vtOther:
		return vfVDialErr(vdOther, k, "task")
	}
	return nil
}

// vClass is the class of an error returned by DialFunc.
func vfVClass(err error) int64 {
	var (
		serr *os.SyscallError
		perr *fs.PathError
	)
	switch {
	case err == nil:
		return vdOK
	case errors.As(err, &serr), errors.As(err, &perr):
		if errors.Is(err, os.ErrPermission) {
			return vdPermission
		}
		return vdSyscall
	case errors.Is(err, ErrLinkNotReady):
		return vdLinkNotReady
	default:
		return vdOther
	}
}

type vfVAbort struct{}

// dialFunc is DialFunc: the replica of (*Dialer).dial().
func (h *vfVRun) dialFunc() (*DialContext, error) {
	k := h.k
	h.k++
	if k > 400 {
		panic(vfVAbort{}) // Dial does not terminate
	}
	h.ev("d", int64(k))
	inDial := h.sc.cancelIn > 0 && k == h.sc.cancelIn-1
	if inDial {
		h.cancelT = int64(time.Since(h.start))
		h.cancel()
	}
	dctx, err := h.dialReplica(k, h.att(k))
	h.ev("dr", int64(k), vfVClass(err))
	// a failed call that cancelled the context: if init goes on to its next select, that select
	// sees the cancellation at once and Dial returns nil — the "x" (select observed ctx.Done) is
	// logged then (ret), not when there is no further select (last attempt, fatal error)
	h.pendingX = inDial && err != nil
	return dctx, err
}

func (h *vfVRun) dialReplica(k int, a vfVAttempt) (*DialContext, error) {
	// lookupInterface, checkInterface, dialNDP: scripted
	if a.pre != vdOK {
		return nil, vfVDialErr(a.pre, k, "dial")
	}
	conn := &vfVConn{h: h, k: k}
	h.ev("o", int64(k))

	var restore func() error
	if h.d.mode == Advertise {
		h.st.tag, h.st.get, h.st.set = strconv.Itoa(k), a.get, a.set
		var err error
		restore, err = h.d.setAutoconf() // the real one
		if err != nil {
			if !h.src.leak {
				// as the source does on this path
				_ = conn.LeaveGroup(netip.IPv6LinkLocalAllRouters())
				_ = conn.Close()
			}
			return nil, err
		}
	}

	done := func() error {
		for _, c := range h.src.done {
			switch c {
			case "conn.LeaveGroup":
				_ = conn.LeaveGroup(netip.IPv6LinkLocalAllRouters())
			case "conn.Close":
				_ = conn.Close()
			case "restore":
				if restore != nil {
					h.st.tag, h.st.get, h.st.set = strconv.Itoa(k), vfNone, a.rst
					return restore()
				}
			}
		}
		return nil
	}

	return &DialContext{
		Conn:      conn,
		Interface: &net.Interface{Index: 7, Name: "vf0"},
		IP:        netip.MustParseAddr("fe80::1"),
		done:      done,
	}, nil
}

func (h *vfVRun) fn(ctx context.Context, dctx *DialContext) error {
	k := dctx.Conn.(*vfVConn).k
	h.ev("fs", int64(k))
	a := h.att(k)
	var err error
	switch a.task {
	case vtCancelled:
		h.cancel()
	case vtCancelledErr:
		h.cancel()
		err = ctx.Err()
	default:
		err = vfVTaskErr(a.task, k)
	}
	h.ev("fr", int64(k), int64(a.task))
	return err
}

var vfVTagRE = regexp.MustCompile(`(dial|task|get|set|rst)#(\d+)`)

// ret logs what Dial returned, by the origin of the error.
func (h *vfVRun) ret(err error) {
	if err == nil {
		if h.pendingX {
			h.ev("x")
		}
		h.ev("r", 0)
		return
	}
	msg := err.Error()
	m := vfVTagRE.FindStringSubmatch(msg)
	var k int64 = -1
	if m != nil {
		k, _ = strconv.ParseInt(m[2], 10, 64)
	}
	switch {
	case strings.Contains(msg, "failed to clean up connection") && m != nil:
		h.ev("r", 4, k)
	case strings.Contains(msg, "timed out trying to initialize"):
		h.ev("r", 3)
	case strings.HasPrefix(msg, "failed to reinitialize") && m != nil && m[1] == "task":
		h.ev("r", 2, k)
	case strings.HasPrefix(msg, "failed to reinitialize") && m != nil:
		h.ev("r", 1, k)
	default:
		h.ev("r", 9) // not an error Dial is documented to return: unparsable on purpose
	}
}

type vfVResult struct {
	impl     string
	consumed int
	waits    [][2]int64
	cancelT  int64
}

// vExec runs one script against a fresh Dialer inside a synctest bubble.
func vfVExec(t *testing.T, src vfVSource, sc vfVScript) vfVResult {
	var res vfVResult
	synctest.Test(t, func(t *testing.T) {
		h := &vfVRun{sc: sc, src: src, tr: new(vfh.Toks), cancelT: -1}
		h.st = &vfVState{h: h, ac: sc.ac0}
		mode := Monitor
		if sc.adv {
			mode = Advertise
		}
		h.d = &Dialer{iface: "vf0", state: h.st, mode: mode, ll: log.New(io.Discard, "", 0)}
		h.d.DialFunc = h.dialFunc
		// the context is cancelled the way Server.Serve's errgroup cancels it: in every other
		// scenario WITH A CAUSE (the error of another task that failed first) — a cancellation is a
		// cancellation whatever caused it
		ctx, cancelCause := context.WithCancelCause(context.Background())
		cancel := func() {
			if sc.cancelAt%2 == 1 {
				cancelCause(errors.New("scripted: another task of the server failed"))
				return
			}
			cancelCause(nil)
		}
		h.cancel = cancel
		h.start = time.Now()
		h.last = h.start
		stop := make(chan struct{})
		if sc.cancelAt >= 0 {
			go func() {
				select {
				case <-time.After(time.Duration(sc.cancelAt)):
					h.ev("x")
					cancel()
				case <-stop:
				}
			}()
		}
		aborted := false
		func() {
			defer func() {
				if r := recover(); r != nil {
					if _, ok := r.(vfVAbort); !ok {
						panic(r)
					}
					aborted = true
				}
			}()
			h.ret(h.d.Dial(ctx, h.fn))
		}()
		close(stop)
		cancel()
		h.mu.Lock()
		defer h.mu.Unlock()
		if aborted {
			res.impl = "abort"
		} else {
			res.impl = h.tr.S("fin").I(vfVB(h.st.ac)).String()
		}
		res.consumed = h.k
		res.waits = h.waits
		res.cancelT = h.cancelT
	})
	return res
}

func vfVCase(op string, src vfVSource, sc vfVScript) string {
	c := new(vfh.Toks).S(op).B(src.leak).N(src.doneCode()).B(sc.adv).B(sc.ac0).I(sc.cancelAt).N(len(sc.atts))
	for _, a := range sc.atts {
		c.N(a.pre).N(a.get).N(a.set).N(a.rst).N(a.task)
	}
	return c.String()
}

type vfVDriver struct {
	t    *testing.T
	out  *vfh.Out
	op   string
	src  vfVSource
	r    *vfh.Rand
	seen map[string]bool
	runs int
}

// vTrim cuts the script to the attempts the run consumed and zeroes the fields of an attempt
// that cannot have had an effect, so that equal runs have equal case lines.
func vfVTrim(sc vfVScript, consumed int) vfVScript {
	n := len(sc.atts)
	if consumed < n {
		n = consumed
	}
	atts := make([]vfVAttempt, n)
	for i, a := range sc.atts[:n] {
		switch {
		case a.pre != vdOK:
			a = vfVAttempt{pre: a.pre}
		case !sc.adv:
			a = vfVAttempt{task: a.task}
		case a.get != vfNone:
			a = vfVAttempt{get: a.get}
		case a.set != vfNone && a.set != vfPermission:
			a = vfVAttempt{set: a.set}
		}
		atts[i] = a
	}
	sc.atts = atts
	return sc
}

// run executes a script without cancellation, then once more for a cancellation instant inside
// every positive wait the first run showed (all of them, or `sample` random ones).  Scripts
// are trimmed to the attempts the run consumed.  Returns the uncancelled result.
func (v *vfVDriver) run(sc vfVScript, sample int) vfVResult {
	sc.cancelAt = -1
	sc.cancelIn = 0
	res := v.emit(sc)
	// a cancellation from inside every DialFunc call the run made (all of them, or `sample`): a
	// successful call's task then notices the cancellation and returns. Not inside a first call
	// that fails recoverably: the zero-length first wait of init would race the cancellation.
	for k := 0; k < res.consumed && k < len(sc.atts)+1; k++ {
		if sample > 0 && !v.r.Chance(sample, res.consumed+1) {
			continue
		}
		c := sc
		c.atts = append([]vfVAttempt(nil), sc.atts...)
		for len(c.atts) <= k {
			c.atts = append(c.atts, vfVAttempt{})
		}
		if c.atts[k].succeeds(sc.adv) {
			c.atts[k].task = vtCancelled
			if k%2 == 1 {
				c.atts[k].task = vtCancelledErr
			}
		} else if k == 0 {
			continue
		}
		c.cancelIn = k + 1
		v.emit(c)
	}
	waits := res.waits
	if sample > 0 && len(waits) > sample {
		w2 := make([][2]int64, 0, sample)
		for i := 0; i < sample; i++ {
			w2 = append(w2, waits[v.r.Intn(len(waits))])
		}
		waits = w2
	}
	for _, w := range waits {
		span := w[1] - w[0]
		if span < 3 {
			continue
		}
		c := sc
		// strictly inside the wait: the select sees exactly one ready case
		if sample == 0 {
			c.cancelAt = w[0] + span/2 + 1
		} else {
			c.cancelAt = w[0] + 1 + v.r.Int63n(span-2)
		}
		v.emit(c)
	}
	return res
}

func (v *vfVDriver) emit(sc vfVScript) vfVResult {
	res := vfVExec(v.t, v.src, sc)
	if sc.cancelIn > 0 {
		sc.cancelAt = res.cancelT
	}
	sc = vfVTrim(sc, res.consumed)
	line := vfVCase(v.op, v.src, sc)
	v.runs++
	if !v.seen[line] {
		v.seen[line] = true
		v.out.Line(line, res.impl)
	}
	return res
}

// succeeds: does DialFunc return a DialContext for this attempt
func (a vfVAttempt) succeeds(adv bool) bool {
	if a.pre != vdOK {
		return false
	}
	if !adv {
		return true
	}
	return a.get == vfNone && (a.set == vfNone || a.set == vfPermission)
}

// dfs enumerates every run of at most `budget` outcomes (a failed DialFunc call is one
// outcome, a successful one and the task's outcome are two): a script is extended only when the
// run wanted more attempts than it had.
func (v *vfVDriver) dfs(sc vfVScript, budget int, alphabet []vfVAttempt) {
	res := v.run(sc, 0)
	if res.consumed <= len(sc.atts) || budget == 0 {
		return
	}
	for _, a := range alphabet {
		if a == (vfVAttempt{}) {
			continue // what the end of the script stands for; just run
		}
		cost := 1
		if a.succeeds(sc.adv) {
			cost = 2
		}
		if cost > budget {
			continue
		}
		ext := sc
		ext.atts = append(append([]vfVAttempt(nil), sc.atts...), a)
		v.dfs(ext, budget-cost, alphabet)
	}
}

// vPlainAlphabet: all dial outcomes, all task outcomes, no State faults.
func vfVPlainAlphabet() []vfVAttempt {
	var al []vfVAttempt
	for pre := vdOK; pre <= vdOther; pre++ {
		if pre != vdOK {
			al = append(al, vfVAttempt{pre: pre})
			continue
		}
		for task := vtNil; task <= vtCancelledErr; task++ {
			al = append(al, vfVAttempt{task: task})
		}
	}
	return al
}

// vFaultAlphabet: the attempts that differ in effect on an advertising interface: every failing
// lookup/dialNDP class, every failing read, every disabling write that makes dial fail, and
// for a successful dial {set ok, set permission} x restore fault x task outcome.
func vfVFaultAlphabet() []vfVAttempt {
	var al []vfVAttempt
	for pre := vdLinkNotReady; pre <= vdOther; pre++ {
		al = append(al, vfVAttempt{pre: pre})
	}
	for get := vfPermission; get <= vfOther; get++ {
		al = append(al, vfVAttempt{get: get})
	}
	for _, set := range []int{vfNotExist, vfOther} {
		al = append(al, vfVAttempt{set: set})
	}
	for _, set := range []int{vfNone, vfPermission} {
		for rst := vfNone; rst <= vfOther; rst++ {
			for _, task := range []int{vtNil, vtLinkChange, vtSyscall, vtOther, vtCancelled} {
				al = append(al, vfVAttempt{set: set, rst: rst, task: task})
			}
		}
	}
	return al
}

func vfVRandAttempt(r *vfh.Rand, failPct int, faults bool) vfVAttempt {
	var a vfVAttempt
	if r.Intn(100) < failPct {
		a.pre = vdLinkNotReady + r.Intn(4)
		if r.Chance(3, 4) {
			a.pre = vdLinkNotReady + r.Intn(2) // recoverable ones keep the run going
		}
	}
	if faults {
		if r.Chance(1, 6) {
			a.get = r.Intn(4)
		}
		if r.Chance(1, 4) {
			a.set = r.Intn(4)
		}
		if r.Chance(1, 3) {
			a.rst = r.Intn(4)
			if r.Chance(1, 2) && a.rst == vfOther {
				a.rst = vfPermission
			}
		}
	}
	switch x := r.Intn(10); {
	case x < 5:
		a.task = vtLinkChange + r.Intn(2)
	case x < 6:
		a.task = vtNil
	default:
		a.task = r.Intn(8)
	}
	return a
}

// random draws long scripts, up to and beyond the 50-attempt limit.
func (v *vfVDriver) random(n int, faults bool) {
	for i := 0; i < n; i++ {
		sc := vfVScript{adv: faults && v.r.Chance(5, 6), ac0: v.r.Bool()}
		if !faults {
			sc.adv = v.r.Chance(1, 4)
		}
		failPct := vfh.Pick(v.r, []int{30, 60, 90, 97, 100})
		length := v.r.Intn(12)
		if v.r.Chance(1, 3) {
			length = v.r.Intn(130)
		}
		for j := 0; j < length; j++ {
			sc.atts = append(sc.atts, vfVRandAttempt(v.r, failPct, faults))
		}
		v.run(sc, 2)
	}
}

// limit: a recoverable cause, n failures in the retry loop of every class, then success.
func (v *vfVDriver) limit(adv bool) {
	for _, n := range []int{1, 12, 13, 14, 48, 49, 50, 51, 60} {
		for cause := 0; cause < 4; cause++ {
			for cls := vdLinkNotReady; cls <= vdOther; cls++ {
				sc := vfVScript{adv: adv, ac0: cause%2 == 0}
				switch cause {
				case 0:
					sc.atts = append(sc.atts, vfVAttempt{pre: vdLinkNotReady})
				case 1:
					sc.atts = append(sc.atts, vfVAttempt{pre: vdSyscall})
				case 2:
					sc.atts = append(sc.atts, vfVAttempt{task: vtLinkChange})
				default:
					sc.atts = append(sc.atts, vfVAttempt{task: vtSyscall})
				}
				for j := 0; j < n; j++ {
					sc.atts = append(sc.atts, vfVAttempt{pre: cls})
				}
				sc.atts = append(sc.atts, vfVAttempt{task: vtLinkChange}, vfVAttempt{pre: cls}, vfVAttempt{task: vtOther})
				v.run(sc, 3)
			}
		}
	}
}

func vfVNewDriver(t *testing.T, r *vfh.Rand, out *vfh.Out, op string) *vfVDriver {
	src, err := vfVScanDial()
	if err != nil {
		t.Fatalf("cannot read how dial() is composed: %v", err)
	}
	return &vfVDriver{t: t, out: out, op: op, src: src, r: r, seen: map[string]bool{}}
}

func verifC10Dialer(t *testing.T, r *vfh.Rand, out *vfh.Out) {
	v := vfVNewDriver(t, r, out, "d10")
	depth := 4
	if vfh.Thorough() {
		depth = 6
	}
	// (1) exhaustive: every run of <= depth outcomes over all dial and task outcome classes,
	// a cancellation inside every positive wait; both modes (Monitor: no autoconf calls)
	v.dfs(vfVScript{adv: false, ac0: true}, depth, vfVPlainAlphabet())
	v.dfs(vfVScript{adv: true, ac0: true}, depth-1, vfVPlainAlphabet())
	// (2) around the 50-attempt limit and the 3 s cap
	v.limit(false)
	// (3) random long scripts
	v.random(vfh.N(1500, 40000), false)
	t.Logf("C10 dialer: %d runs, %d distinct cases", v.runs, len(v.seen))
}

func verifC11(t *testing.T, r *vfh.Rand, out *vfh.Out) {
	v := vfVNewDriver(t, r, out, "d11")
	depth := 4
	if vfh.Thorough() {
		depth = 6
	}
	// (1) exhaustive: every run of <= depth outcomes over the attempts that differ in effect,
	// both initial values, a cancellation inside every positive wait
	for _, ac0 := range []bool{true, false} {
		d := depth
		if vfh.Thorough() && !ac0 {
			d = depth - 1
		}
		v.dfs(vfVScript{adv: true, ac0: ac0}, d, vfVFaultAlphabet())
	}
	v.dfs(vfVScript{adv: false, ac0: true}, depth, vfVPlainAlphabet())
	// (2) clean-up and restore across the 50-attempt limit
	v.limit(true)
	// (3) random long scripts with State faults
	v.random(vfh.N(1500, 40000), true)
	// (4) opportunistic: the real dial() on a real interface
	vfVRealDial(t, out)
	vfVRealDialModes(t, out)
	verifSysctl(t, r, out)
	verifSysctlConc(t, r, out)
	t.Logf("C11: %d runs, %d distinct cases", v.runs, len(v.seen))
}

// ---------------------------------------------------------------------------------------------
// opportunistic: the real (*Dialer).dial() with a State whose disabling write fails

type vfVRealState struct{ fail bool }

func (s *vfVRealState) IPv6Autoconf(string) (bool, error)   { return true, nil }
func (s *vfVRealState) IPv6Forwarding(string) (bool, error) { return true, nil }
func (s *vfVRealState) SetIPv6Autoconf(string, bool) error {
	if s.fail {
		return errors.New("injected failure of SetIPv6Autoconf")
	}
	return nil // never touches the host
}

// vRecState records the State calls made by the real dial()/done() (never touches the host).
type vfVRecState struct {
	ac   bool
	toks *vfh.Toks
}

func (s *vfVRecState) IPv6Autoconf(string) (bool, error) {
	s.toks.S("g" + vfVBs(s.ac))
	return s.ac, nil
}
func (s *vfVRecState) IPv6Forwarding(string) (bool, error) { return true, nil }
func (s *vfVRecState) SetIPv6Autoconf(_ string, v bool) error {
	s.toks.S("s" + vfVBs(v))
	s.ac = v
	return nil
}


func vfVBs(b bool) string {
	if b {
		return "1"
	}
	return "0"
}

// vRealDialModes writes `rdm ran adv ac0 | (g<v> | s<v>)* D (s<v>)* fdDelta`: the State calls
// the real dial() makes in Advertise / Monitor mode for both initial autoconf values, a marker
// when dial() has returned, the calls made by the connection's done(), and the change in open
// file descriptors over the whole bracket.
func vfVRealDialModes(t *testing.T, out *vfh.Out) {
	defer func() {
		if r := recover(); r != nil {
			t.Logf("C11 real dial() modes: panic: %v", r)
		}
	}()
	const iface = "eth0"
	if os.Geteuid() != 0 {
		out.Line("rdm 0 0 0", "skip")
		return
	}
	ifi, err := lookupInterface(iface)
	if err != nil || checkInterface(ifi, ifi.Addrs) != nil {
		out.Line("rdm 0 0 0", "skip")
		return
	}
	old := debug.SetGCPercent(-1)
	defer debug.SetGCPercent(old)
	for _, adv := range []bool{true, false} {
		for _, ac0 := range []bool{true, false} {
			mode := Monitor
			if adv {
				mode = Advertise
			}
			st := &vfVRecState{ac: ac0, toks: new(vfh.Toks)}
			d := NewDialer(iface, st, mode, nil)
			before, _ := vfVCountFDs()
			dctx, err := d.dial()
			if err != nil {
				out.Line("rdm 0 0 0", "skip")
				return
			}
			st.toks.S("D")
			if err := dctx.done(); err != nil {
				st.toks.S("done-failed")
			}
			after, _ := vfVCountFDs()
			st.toks.N(after - before)
			out.Line(new(vfh.Toks).S("rdm").N(1).B(adv).B(ac0).String(), st.toks.String())
		}
	}
}

func vfVCountFDs() (int, error) {
	es, err := os.ReadDir("/proc/self/fd")
	if err != nil {
		return 0, err
	}
	return len(es), nil
}

// vRealDial writes `rd 1 n | delta` (delta = open file descriptors after n failing dial()
// calls minus before) or `rd 0 0 | skip` when the environment does not permit the run.  It never
// fails the harness.
func vfVRealDial(t *testing.T, out *vfh.Out) {
	skip := func(why string) {
		t.Logf("C11 real dial(): not run: %s", why)
		out.Line("rd 0 0", "skip")
	}
	defer func() {
		if r := recover(); r != nil {
			skip(fmt.Sprint("panic: ", r))
		}
	}()
	if os.Geteuid() != 0 {
		skip("not root")
		return
	}
	const iface = "eth0"
	ifi, err := lookupInterface(iface)
	if err != nil {
		skip(err.Error())
		return
	}
	if err := checkInterface(ifi, ifi.Addrs); err != nil {
		skip(err.Error())
		return
	}
	st := &vfVRealState{}
	d := NewDialer(iface, st, Advertise, nil)
	// warm-up (netpoller, resolver files): one successful dial, cleaned up
	dctx, err := d.dial()
	if err != nil {
		skip("dial: " + err.Error())
		return
	}
	if err := dctx.done(); err != nil {
		skip("done: " + err.Error())
		return
	}
	old := debug.SetGCPercent(-1) // no finalizer may close a leaked socket while we count
	defer debug.SetGCPercent(old)
	before, err := vfVCountFDs()
	if err != nil {
		skip(err.Error())
		return
	}
	const n = 3
	st.fail = true
	for i := 0; i < n; i++ {
		dctx, err := d.dial()
		if err == nil {
			_ = dctx.done()
			skip("dial succeeded although SetIPv6Autoconf fails")
			return
		}
	}
	after, err := vfVCountFDs()
	if err != nil {
		skip(err.Error())
		return
	}
	t.Logf("C11 real dial(): ran on %s: %d failing calls, open file descriptors %d -> %d", iface, n, before, after)
	out.Line(fmt.Sprintf("rd 1 %d", n), strconv.Itoa(after-before))
}
