//go:build verif

package netstate

import (
	"context"
	"fmt"
	"sync"
	"testing"
	"time"

	"github.com/mdlayher/corerad/internal/vfh"
)

// verifC19Concurrent: Subscribe racing with notification on a real Watcher, in real time (mutex
// waits are invisible to testing/synctest).  The event source delivers `batches` change sets
// over several interfaces while other goroutines keep subscribing; everything must complete:
// the watcher is never blocked, every Subscribe returns, every channel is closed at the end and
// carries at most 8 events, in order.
//
//   case: wsc batches subscribers    impl: ok | blocked <what> | panic
func verifC19Concurrent(t *testing.T, r *vfh.Rand, out *vfh.Out) {
	rounds := vfh.N(6, 40)
	for k := 0; k < rounds; k++ {
		batches, subs := 300+r.Intn(300), 2+r.Intn(4)
		res := c19Concurrent(batches, subs)
		out.Line(fmt.Sprintf("wsc %d %d", batches, subs), res)
		if res != "ok" {
			break // goroutines of a blocked round are stuck for good: do not pile up more
		}
	}
}

func c19Concurrent(batches, subscribers int) (res string) {
	defer func() {
		if p := recover(); p != nil {
			res = "panic"
		}
	}()
	w := NewWatcher()
	ifaces := []string{"eth0", "eth1", "eth2", "eth3", "eth4", "eth5", "eth6", "eth7"}
	started := make(chan struct{})
	w.watch = func(ctx context.Context, notify func(changeSet)) error {
		close(started)
		for b := 0; b < batches; b++ {
			cs := changeSet{}
			for i, name := range ifaces {
				cs[name] = []Change{c19Bits[(b+i)%len(c19Bits)], LinkDown}
			}
			notify(cs)
		}
		return nil
	}
	var (
		mu    sync.Mutex
		chans []<-chan Change
	)
	watchDone := make(chan error, 1)
	subDone := make(chan struct{})
	stop := make(chan struct{})
	var wg sync.WaitGroup
	for s := 0; s < subscribers; s++ {
		wg.Add(1)
		go func(s int) {
			defer wg.Done()
			<-started
			for n := 0; ; n++ {
				select {
				case <-stop:
					return
				default:
				}
				c := w.Subscribe(ifaces[(s+n)%len(ifaces)], LinkAny)
				mu.Lock()
				chans = append(chans, c)
				mu.Unlock()
				if n > 2000 {
					return
				}
			}
		}(s)
	}
	go func() { watchDone <- w.Watch(context.Background()) }()
	go func() { wg.Wait(); close(subDone) }()

	deadline := time.After(20 * time.Second)
	select {
	case <-watchDone:
	case <-deadline:
		return "blocked watcher"
	}
	close(stop)
	select {
	case <-subDone:
	case <-time.After(10 * time.Second):
		return "blocked subscribe"
	}
	// every channel registered before the end of the watch is closed; at most 8 buffered events
	mu.Lock()
	defer mu.Unlock()
	for _, c := range chans {
		n := 0
		for {
			select {
			case _, ok := <-c:
				if !ok {
					goto next
				}
				n++
				if n > 8 {
					return "blocked overflow"
				}
			default:
				// open and empty: it was registered after the watch ended (allowed) — a later
				// Subscribe on an ended watcher returns a channel nobody closes
				goto next
			}
		}
	next:
	}
	return "ok"
}
