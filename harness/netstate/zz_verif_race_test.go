//go:build verif

package netstate

import (
	"testing"

	"github.com/mdlayher/corerad/internal/vfh"
)

// TestVerifRace: the concurrent Subscribe / notify / end-of-watch stress of C19 once more under the
// Go race detector (thorough tier, see harness/corerad/zz_verif_race_test.go).
func TestVerifRace(t *testing.T) {
	if vfh.Prop() != "C19" {
		t.Skip("no race scenario for this property in package netstate")
	}
	for i := 0; i < 20; i++ {
		if res := c19Concurrent(40, 6); res == "" {
			t.Log("empty result")
		}
	}
}
