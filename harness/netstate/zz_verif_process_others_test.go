//go:build verif && !linux

package netstate

import (
	"testing"

	"github.com/mdlayher/corerad/internal/vfh"
)

// process() and operStateChange() exist on Linux only.
func verifC19Process(t *testing.T, r *vfh.Rand, out *vfh.Out) {}
