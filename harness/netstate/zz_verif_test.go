//go:build verif

package netstate

import (
	"context"
	"errors"
	"fmt"
	"sync/atomic"
	"testing"
	"testing/synctest"
	"time"

	"github.com/mdlayher/corerad/internal/vfh"
)

// TestVerif is the entry point of the correspondence harness for package netstate.  It does
// nothing unless VERIF_PROP is set by /verif/check.
func TestVerif(t *testing.T) {
	prop := vfh.Prop()
	if prop != "C19" {
		t.Skip("VERIF_PROP is not C19")
	}
	out, err := vfh.OpenOut()
	if err != nil {
		t.Fatal(err)
	}
	defer out.Close()
	r := vfh.NewRand(vfh.Seed())
	verifC19(t, r, out)
	verifC19Process(t, r, out)
	verifC19Concurrent(t, r, out)
}

// ---------------------------------------------------------------------------------------------
// C19: link-state publish/subscribe with an injected event source
//
// A history is a list of operations run against one real Watcher whose unexported `watch`
// hook is replaced: Watch runs in its own goroutine, the hook executes the history's notify
// calls with the real w.notify and returns when the history says the watch ends.  Subscribers
// are numbered in registration order; interface names are mapped to small ids in the tokens.
//
//   case: ws nops ( s iface mask | n k (iface len change*)* | d id n | e )*
//   impl: nrec (len value* closed)*   one record per `d` in order, then a final non-blocking
//                                     read-out of every subscriber channel
//         | panic                     Watch or notify panicked (e.g. close of a closed channel)
//         | blocked <op index>        notify / Watch did not return within 10 virtual seconds
//
// Every history runs in its own testing/synctest bubble: the watchdog is a virtual-time timer
// which can only fire when every goroutine of the bubble is durably blocked, so "blocked" is
// decided deterministically and without waiting in real time.

var c19Ifaces = []string{"eth0", "wlan0", "br-lan", "test999"}

var c19Bits = []Change{LinkUp, LinkDown, LinkTesting, LinkUnknown, LinkDormant, LinkNotPresent, LinkLowerLayerDown}

type c19Chg struct {
	iface   int
	changes []Change
}

type c19Op struct {
	kind  byte // 's', 'n', 'd', 'e', 'x' (the Watch context is cancelled; the source goes on), 'f' (the source ends with an error)
	iface int  // s
	mask  Change
	cs    []c19Chg // n: every interface at most once (a changeSet is a map)
	id, n int      // d
}

func c19Case(ops []c19Op) string {
	c := new(vfh.Toks).S("ws").N(len(ops))
	for _, o := range ops {
		switch o.kind {
		case 's':
			c.S("s").N(o.iface).U(uint64(o.mask))
		case 'n':
			c.S("n").N(len(o.cs))
			for _, e := range o.cs {
				c.N(e.iface).N(len(e.changes))
				for _, ch := range e.changes {
					c.U(uint64(ch))
				}
			}
		case 'd':
			c.S("d").N(o.id).N(o.n)
		case 'e':
			c.S("e")
		case 'x':
			c.S("x")
		case 'f':
			c.S("f")
		}
	}
	return c.String()
}

const c19Watchdog = 10 * time.Second
const c19FinalReads = 64

// c19Drain makes up to n non-blocking receives.
func c19Drain(ch <-chan Change, n int) (got []Change, closed bool) {
	for k := 0; k < n; k++ {
		select {
		case v, ok := <-ch:
			if !ok {
				return got, true
			}
			got = append(got, v)
		default:
			return got, false
		}
	}
	return got, false
}

func c19Rec(t *vfh.Toks, got []Change, closed bool) {
	t.N(len(got))
	for _, v := range got {
		t.U(uint64(v))
	}
	t.B(closed)
}

// c19Exec runs one history against a fresh Watcher.  Must be called inside a synctest bubble.
func c19Exec(ops []c19Op) string {
	w := NewWatcher()
	// 'x' cancels the Watch context while the (injected) source keeps delivering until 'e': a
	// source that has a batch queued when it is interrupted. Closing is due when Watch ends.
	wctx, wcancel := context.WithCancel(context.Background())
	defer wcancel()
	cmdC := make(chan changeSet)
	ackC := make(chan struct{})
	doneC := make(chan string, 1)
	// 'f': watching ends because the source fails (rtnetlink Receive error, SetReadDeadline error,
	// the not-implemented stub of other platforms): "every subscriber channel is closed exactly
	// once when watching ends" does not depend on how it ends.
	var srcFails atomic.Bool
	w.watch = func(ctx context.Context, notify func(changes changeSet)) error {
		for cs := range cmdC {
			notify(cs)
			ackC <- struct{}{}
		}
		if srcFails.Load() {
			return errors.New("verif: link-state source failed")
		}
		return nil
	}
	go func() {
		defer func() {
			if r := recover(); r != nil {
				doneC <- "panic"
				return
			}
			doneC <- "ok"
		}()
		_ = w.Watch(wctx)
	}()

	var chans []<-chan Change
	recs := new(vfh.Toks)
	nrec := 0
	ended := false
	verdict := "" // "panic" | "blocked i"

	// release lets a watcher that is stuck on a full channel finish, so that no goroutine
	// outlives the bubble.
	release := func(waitAck bool) {
		for {
			for _, ch := range chans {
				c19Drain(ch, 1<<20)
			}
			if waitAck {
				select {
				case <-ackC:
					return
				case <-doneC:
					ended = true
					return
				case <-time.After(time.Millisecond):
				}
			} else {
				select {
				case <-doneC:
					ended = true
					return
				case <-time.After(time.Millisecond):
				}
			}
		}
	}

loop:
	for i, o := range ops {
		switch o.kind {
		case 's':
			chans = append(chans, w.Subscribe(c19Ifaces[o.iface], o.mask))
		case 'n':
			cs := make(changeSet, len(o.cs))
			for _, e := range o.cs {
				cs[c19Ifaces[e.iface]] = e.changes
			}
			select {
			case cmdC <- cs:
			case <-doneC:
				verdict, ended = "panic", true
				break loop
			}
			select {
			case <-ackC:
			case <-doneC:
				verdict, ended = "panic", true
				break loop
			case <-time.After(c19Watchdog):
				verdict = fmt.Sprintf("blocked %d", i)
				release(true)
				break loop
			}
		case 'd':
			got, closed := c19Drain(chans[o.id], o.n)
			c19Rec(recs, got, closed)
			nrec++
		case 'x':
			wcancel()
			time.Sleep(time.Millisecond) // let whatever reacts to the cancellation run
		case 'e', 'f':
			if o.kind == 'f' {
				srcFails.Store(true)
			}
			close(cmdC)
			ended = true
			select {
			case r := <-doneC:
				if r != "ok" {
					verdict = r
					break loop
				}
			case <-time.After(c19Watchdog):
				verdict = fmt.Sprintf("blocked %d", i)
				ended = false
				release(false)
				break loop
			}
		}
	}
	if verdict == "" {
		for _, ch := range chans {
			got, closed := c19Drain(ch, c19FinalReads)
			c19Rec(recs, got, closed)
			nrec++
		}
	}
	if !ended {
		close(cmdC)
		select {
		case <-doneC:
		case <-time.After(c19Watchdog):
			release(false)
		}
	}
	if verdict != "" {
		return verdict
	}
	if nrec == 0 {
		return "0"
	}
	return fmt.Sprintf("%d %s", nrec, recs.String())
}

type c19Runner struct {
	t       *testing.T
	out     *vfh.Out
	blocked int
}

func (cr *c19Runner) run(ops []c19Op) {
	if cr.blocked >= 3 {
		return // the property is already refuted; do not spend the budget on more of the same
	}
	var impl string
	synctest.Test(cr.t, func(t *testing.T) { impl = c19Exec(ops) })
	if len(impl) >= 7 && impl[:7] == "blocked" {
		cr.blocked++
	}
	cr.out.Line(c19Case(ops), impl)
}

func c19Mask(r *vfh.Rand) Change {
	switch r.Intn(8) {
	case 0, 1:
		return LinkAny
	case 2, 3:
		return vfh.Pick(r, c19Bits)
	case 4:
		return vfh.Pick(r, c19Bits) | vfh.Pick(r, c19Bits)
	case 5:
		if r.Chance(1, 4) {
			return 0
		}
		return LinkUp | LinkDown
	default:
		return Change(1 + r.Intn(127))
	}
}

func c19Change(r *vfh.Rand) Change {
	if r.Chance(1, 25) {
		// not produced by the rtnetlink decoder, but notify treats any value by the same test
		return Change(r.Intn(128))
	}
	return vfh.Pick(r, c19Bits)
}

// c19Random draws one history: subscribe / notify / drain / endWatch interleaved.
func c19Random(r *vfh.Rand) []c19Op {
	nIf := 1 + r.Intn(3)
	maxSubs := 1 + r.Intn(6)
	length := r.Intn(30)
	if r.Chance(1, 10) {
		length = r.Intn(90)
	}
	if vfh.Thorough() && r.Chance(1, 40) {
		length = r.Intn(400)
	}
	slow := r.Chance(1, 3) // rarely drained: overflow is likely
	var ops []c19Op
	nsubs, ended := 0, false
	for len(ops) < length {
		x := r.Intn(100)
		switch {
		case nsubs == 0 || (nsubs < maxSubs && x < 15 && (!ended || r.Chance(1, 4))):
			ops = append(ops, c19Op{kind: 's', iface: r.Intn(nIf), mask: c19Mask(r)})
			nsubs++
		case !ended && x < 70:
			k := 1 + r.Intn(3)
			perm := []int{0, 1, 2, 3}
			vfh.Shuffle(r, perm)
			var cs []c19Chg
			for _, ifi := range perm {
				if len(cs) == k {
					break
				}
				if ifi >= nIf && ifi != 3 {
					continue
				}
				m := 1 + r.Intn(4)
				if r.Chance(1, 8) {
					m = 1 + r.Intn(14)
				}
				chg := make([]Change, m)
				for j := range chg {
					chg[j] = c19Change(r)
				}
				cs = append(cs, c19Chg{iface: ifi, changes: chg})
			}
			if r.Chance(1, 30) {
				cs = nil // empty change set
			}
			ops = append(ops, c19Op{kind: 'n', cs: cs})
		case x < 95:
			if slow && r.Chance(3, 4) {
				continue
			}
			n := r.Intn(4)
			switch r.Intn(6) {
			case 0:
				n = r.Intn(11)
			case 1:
				n = c19FinalReads
			}
			ops = append(ops, c19Op{kind: 'd', id: r.Intn(nsubs), n: n})
		default:
			if !ended {
				ops = append(ops, c19Op{kind: c19End(r)})
				ended = true
			}
		}
	}
	if !ended && r.Chance(5, 6) {
		ops = append(ops, c19Op{kind: c19End(r)})
		for k := r.Intn(4); k > 0 && nsubs > 0; k-- {
			ops = append(ops, c19Op{kind: 'd', id: r.Intn(nsubs), n: r.Intn(12)})
		}
	}
	// in one history out of five the Watch context is cancelled somewhere before the source ends
	if r.Chance(1, 5) && len(ops) > 1 {
		pos := r.Intn(len(ops))
		for i, o := range ops {
			if (o.kind == 'e' || o.kind == 'f') && pos > i {
				pos = i
			}
		}
		ops = append(ops[:pos], append([]c19Op{{kind: 'x'}}, ops[pos:]...)...)
	}
	return ops
}

// c19End: watching ends cleanly or (one time in three) because the source fails.
func c19End(r *vfh.Rand) byte {
	if r.Chance(1, 3) {
		return 'f'
	}
	return 'e'
}

// c19SingleUse calls Watch n times on one Watcher whose hook returns at once.
func c19SingleUse(n int) string {
	w := NewWatcher()
	w.watch = func(ctx context.Context, notify func(changes changeSet)) error { return nil }
	res := new(vfh.Toks)
	for k := 0; k < n; k++ {
		func() {
			defer func() {
				if r := recover(); r != nil {
					res.S("panic")
					return
				}
				res.S("ok")
			}()
			_ = w.Watch(context.Background())
		}()
	}
	return res.String()
}

// c19CancelThenNotify: the source delivers one more batch after the Watch context was cancelled
// (an rtnetlink batch already queued when the read is interrupted): it must still reach the
// subscribers, and the channels are closed only when Watch ends.
func c19CancelThenNotify() [][]c19Op {
	var out [][]c19Op
	for _, m := range []Change{LinkDown, LinkUp | LinkDown, LinkAny} {
		out = append(out, []c19Op{
			{kind: 's', iface: 0, mask: m},
			{kind: 'n', cs: []c19Chg{{iface: 0, changes: []Change{LinkUp}}}},
			{kind: 'x'},
			{kind: 'n', cs: []c19Chg{{iface: 0, changes: []Change{LinkDown}}}},
			{kind: 'd', id: 0, n: 4},
			{kind: 'e'},
		})
	}
	return out
}

func verifC19(t *testing.T, r *vfh.Rand, out *vfh.Out) {
	cr := &c19Runner{t: t, out: out}
	for _, ops := range c19CancelThenNotify() {
		cr.run(ops)
	}
	// the source ends with an error: with and without pending values, 1..3 subscribers
	for subs := 1; subs <= 3; subs++ {
		for _, pending := range []bool{false, true} {
			var ops []c19Op
			for k := 0; k < subs; k++ {
				ops = append(ops, c19Op{kind: 's', iface: k % 2, mask: LinkAny})
			}
			if pending {
				ops = append(ops, c19Op{kind: 'n', cs: []c19Chg{{iface: 0, changes: []Change{LinkDown, LinkUp}}}})
			}
			ops = append(ops, c19Op{kind: 'f'})
			cr.run(ops)
		}
	}

	// (1) exhaustive: every mask (the 127 non-empty subsets and the empty one) x every single
	// change x the interface the change occurs on; one subscriber per interface name with that
	// mask, plus an interface nobody subscribed to.
	for mask := 0; mask <= 127; mask++ {
		for _, ch := range c19Bits {
			for ifi := 0; ifi < 2; ifi++ {
				cr.run([]c19Op{
					{kind: 's', iface: 0, mask: Change(mask)},
					{kind: 's', iface: 1, mask: Change(mask)},
					{kind: 'n', cs: []c19Chg{{iface: ifi, changes: []Change{ch}}, {iface: 3, changes: []Change{ch}}}},
					{kind: 'e'},
				})
			}
		}
	}

	// (2) undrained subscribers: 8+d matching changes, d = 0..20, against one subscriber that
	// never reads, one that reads everything after each notify, one that reads k values after
	// the first 8, and one with a single-bit mask; delivered as one notify or one per change.
	for d := 0; d <= 20; d++ {
		for variant := 0; variant < 6; variant++ {
			total := 8 + d
			chg := make([]Change, total)
			for j := range chg {
				chg[j] = c19Bits[(j+variant)%len(c19Bits)]
			}
			ops := []c19Op{
				{kind: 's', iface: 0, mask: LinkAny},
				{kind: 's', iface: 0, mask: LinkAny},
				{kind: 's', iface: 0, mask: LinkAny},
				{kind: 's', iface: 0, mask: c19Bits[variant]},
				{kind: 's', iface: 1, mask: LinkAny},
			}
			k := (d + variant) % 9
			switch variant % 3 {
			case 0: // one call
				ops = append(ops, c19Op{kind: 'n', cs: []c19Chg{{iface: 0, changes: chg}}},
					c19Op{kind: 'd', id: 1, n: c19FinalReads}, c19Op{kind: 'd', id: 2, n: k})
			case 1: // one call per change
				for j, c := range chg {
					ops = append(ops, c19Op{kind: 'n', cs: []c19Chg{{iface: 0, changes: []Change{c}}}},
						c19Op{kind: 'd', id: 1, n: c19FinalReads})
					if j == 7 {
						ops = append(ops, c19Op{kind: 'd', id: 2, n: k})
					}
				}
			default: // two calls, split at 8
				ops = append(ops, c19Op{kind: 'n', cs: []c19Chg{{iface: 0, changes: chg[:8]}}},
					c19Op{kind: 'd', id: 1, n: c19FinalReads}, c19Op{kind: 'd', id: 2, n: k},
					c19Op{kind: 'n', cs: []c19Chg{{iface: 0, changes: chg[8:]}, {iface: 1, changes: chg[:3]}}},
					c19Op{kind: 'd', id: 1, n: c19FinalReads})
			}
			if variant < 5 {
				ops = append(ops, c19Op{kind: 'e'})
			}
			cr.run(ops)
		}
	}

	// (3) Watch is single-use
	for n := 1; n <= 4; n++ {
		out.Line(fmt.Sprintf("wsu %d", n), c19SingleUse(n))
	}

	// (4) random histories
	n := vfh.N(4000, 150000)
	for i := 0; i < n; i++ {
		cr.run(c19Random(r))
	}
	if cr.blocked > 0 {
		t.Logf("C19: %d histories blocked the watcher; generation stopped early", cr.blocked)
	}
}
