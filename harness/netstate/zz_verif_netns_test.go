//go:build verif && linux

package netstate

import (
	"context"
	"os"
	"os/exec"
	"strings"
	"testing"
	"time"

	"github.com/mdlayher/corerad/internal/vfh"
)

// TestVerifNetns: the real Watcher — real osWatch, real rtnetlink link messages — in the private
// network namespace /verif/check sets up (veth pair vf0/vf1, VERIF_NETNS=1): the harness takes
// vf0 down and up with ip(8) and looks at what the subscribers receive.
//
//	nsw 1 | down: a<n> d<n> u<n> o<n> ; up: a<n> d<n> u<n> o<n> ; closed <k> ret
//	   a = subscriber (vf0, LinkAny), d = (vf0, LinkDown), u = (vf0, LinkUp), o = (lo, LinkAny):
//	   number of changes received in the step, "!" appended when one lies outside the mask
func TestVerifNetns(t *testing.T) {
	if os.Getenv("VERIF_NETNS") == "" {
		t.Skip("VERIF_NETNS not set")
	}
	out, err := vfh.OpenOut()
	if err != nil {
		t.Fatal(err)
	}
	defer out.Close()
	// Real time: on a heavily loaded machine the watcher may not have joined its netlink group
	// within the start-up pause, or a notification may take longer than a step's window.  A run in
	// which the subscriber for every change of vf0 saw nothing in a step (or Watch did not return)
	// is repeated, up to three attempts in all; a defect shows in every attempt.
	var impl string
	for attempt := 0; attempt < 3; attempt++ {
		impl = nsAttempt()
		if s := " " + impl + " "; !strings.Contains(s, " a0 ") && !strings.Contains(s, " hung ") && !strings.Contains(s, "ip-failed") {
			break
		}
		t.Logf("netns attempt %d had a timing symptom: %s", attempt+1, impl)
		time.Sleep(2 * time.Second)
	}
	out.Line("nsw 1", impl)
}

func nsAttempt() string {
	w := NewWatcher()
	type sub struct {
		tag  string
		mask Change
		ch   <-chan Change
	}
	subs := []*sub{
		{"a", LinkAny, w.Subscribe("vf0", LinkAny)},
		{"d", LinkDown, w.Subscribe("vf0", LinkDown)},
		{"u", LinkUp, w.Subscribe("vf0", LinkUp)},
		{"o", LinkAny, w.Subscribe("lo", LinkAny)},
	}
	ctx, cancel := context.WithCancel(context.Background())
	done := make(chan error, 1)
	go func() { done <- w.Watch(ctx) }()
	time.Sleep(300 * time.Millisecond) // the netlink socket is open and has joined its group
	impl := new(vfh.Toks)
	// collect what arrives within d after the action; per subscriber: count, and whether every
	// value is a single bit of its mask; downs/ups seen by the LinkAny subscriber
	step := func(name string, args ...string) {
		if err := exec.Command("ip", args...).Run(); err != nil {
			impl.S(name).S("ip-failed")
			return
		}
		time.Sleep(1200 * time.Millisecond)
		impl.S(name)
		for _, s := range subs {
			n, bad, sawDown, sawUp := 0, false, false, false
		drain:
			for {
				select {
				case c, ok := <-s.ch:
					if !ok {
						bad = true
						break drain
					}
					n++
					if c&s.mask == 0 || c&(c-1) != 0 {
						bad = true
					}
					sawDown = sawDown || c == LinkDown
					sawUp = sawUp || c == LinkUp
				default:
					break drain
				}
			}
			tok := s.tag
			switch {
			case n == 0:
				tok += "0"
			default:
				tok += "+"
			}
			if bad {
				tok += "!"
			}
			if s.tag == "a" {
				if sawDown {
					tok += "D"
				}
				if sawUp {
					tok += "U"
				}
			}
			impl.S(tok)
		}
	}
	step("down", "link", "set", "vf0", "down")
	step("up", "link", "set", "vf0", "up")
	cancel()
	ret := "hung"
	select {
	case err := <-done:
		ret = "nil"
		if err != nil {
			ret = "err"
		}
	case <-time.After(3 * time.Second):
	}
	closed := 0
	for _, s := range subs {
		select {
		case _, ok := <-s.ch:
			if !ok {
				closed++
			}
		case <-time.After(500 * time.Millisecond):
		}
	}
	impl.S("closed").N(closed).S(ret)
	return impl.String()
}
