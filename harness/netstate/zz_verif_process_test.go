//go:build verif && linux

package netstate

import (
	"fmt"
	"sort"
	"testing"

	"github.com/jsimonetti/rtnetlink"
	"github.com/mdlayher/corerad/internal/vfh"
)

// ---------------------------------------------------------------------------------------------
// C19, OS-glue part: the real process() and operStateChange() of watcher_linux.go
//
// A batch is a list of route-netlink messages built from rtnetlink's own types; of every
// message the case line records what process() looks at: the dynamic type (0 = *LinkMessage,
// 1 = *AddressMessage, 2 = *RouteMessage, 3 = *NeighMessage), whether Attributes is non-nil, the
// interface name (interned to an id; the empty name is id 0) and the numeric operational state
// (the uint8 of the real rtnetlink.OperState* constants, and values beyond them).
//
//   case: pr n (kind hasAttrs iface oper)*
//   impl: k (iface len change*)*      the returned changeSet, interfaces ascending by id
//         | panic
//
//   case: osc state                   impl: change ok     (operStateChange alone)

var vfPrNames = []string{"", "eth0", "wlan0", "br-lan", "veth1234", "lo"}

type vfPrMsg struct {
	kind     int
	hasAttrs bool
	iface    int
	oper     uint8
}

func (m vfPrMsg) build() rtnetlink.Message {
	switch m.kind {
	case 0:
		lm := &rtnetlink.LinkMessage{Index: uint32(m.iface + 1)}
		if m.hasAttrs {
			lm.Attributes = &rtnetlink.LinkAttributes{
				Name:             vfPrNames[m.iface],
				OperationalState: rtnetlink.OperationalState(m.oper),
			}
		}
		return lm
	case 1:
		am := &rtnetlink.AddressMessage{Index: uint32(m.iface + 1)}
		if m.hasAttrs {
			// a Label equal to an interface name must not be mistaken for a link event
			am.Attributes = &rtnetlink.AddressAttributes{Label: vfPrNames[m.iface]}
		}
		return am
	case 2:
		return &rtnetlink.RouteMessage{Attributes: rtnetlink.RouteAttributes{OutIface: uint32(m.iface + 1)}}
	default:
		return &rtnetlink.NeighMessage{Index: uint32(m.iface + 1)}
	}
}

func vfPrRun(out *vfh.Out, ms []vfPrMsg) {
	c := new(vfh.Toks).S("pr").N(len(ms))
	msgs := make([]rtnetlink.Message, len(ms))
	for i, m := range ms {
		c.N(m.kind).B(m.hasAttrs).N(m.iface).N(int(m.oper))
		msgs[i] = m.build()
	}
	impl := func() (s string) {
		defer func() {
			if p := recover(); p != nil {
				s = "panic"
			}
		}()
		cs := process(msgs)
		id := make(map[string]int, len(vfPrNames))
		for i, n := range vfPrNames {
			id[n] = i
		}
		keys := make([]int, 0, len(cs))
		for name := range cs {
			k, ok := id[name]
			if !ok {
				k = 1000 // an interface name that was never sent
			}
			keys = append(keys, k)
		}
		sort.Ints(keys)
		t := new(vfh.Toks).N(len(keys))
		for _, k := range keys {
			name := "?"
			if k < len(vfPrNames) {
				name = vfPrNames[k]
			}
			l := cs[name]
			t.N(k).N(len(l))
			for _, ch := range l {
				t.U(uint64(ch))
			}
		}
		return t.String()
	}()
	out.Line(c.String(), impl)
}

var vfPrKnown = []rtnetlink.OperationalState{
	rtnetlink.OperStateUnknown, rtnetlink.OperStateNotPresent, rtnetlink.OperStateDown,
	rtnetlink.OperStateLowerLayerDown, rtnetlink.OperStateTesting, rtnetlink.OperStateDormant,
	rtnetlink.OperStateUp,
}

func vfPrRandMsg(r *vfh.Rand, nIfaces int) vfPrMsg {
	m := vfPrMsg{kind: 0, hasAttrs: true, iface: r.Intn(nIfaces)}
	switch {
	case r.Chance(1, 8):
		m.kind = 1 + r.Intn(3)
		m.hasAttrs = r.Bool()
	case r.Chance(1, 10):
		m.hasAttrs = false
	}
	switch {
	case r.Chance(1, 8):
		m.oper = uint8(7 + r.Intn(249)) // unrecognised
	default:
		m.oper = uint8(vfh.Pick(r, vfPrKnown))
	}
	return m
}

func verifC19Process(t *testing.T, r *vfh.Rand, out *vfh.Out) {
	// operStateChange on every uint8
	for s := 0; s < 256; s++ {
		c, ok := operStateChange(rtnetlink.OperationalState(s))
		out.Line(fmt.Sprintf("osc %d", s), new(vfh.Toks).U(uint64(c)).B(ok).String())
	}
	// boundary batches
	vfPrRun(out, nil)
	for s := 0; s < 256; s++ { // one link message of every state, on two interface names
		vfPrRun(out, []vfPrMsg{{0, true, 1 + s%2, uint8(s)}})
	}
	for k := 1; k <= 3; k++ { // other message types, nil attributes
		vfPrRun(out, []vfPrMsg{{k, true, 1, 6}, {k, false, 1, 6}})
	}
	vfPrRun(out, []vfPrMsg{{0, false, 1, 6}})
	vfPrRun(out, []vfPrMsg{{0, true, 0, 6}, {0, true, 0, 2}}) // the empty interface name
	// every ordered pair of known states on one interface, and split over two interfaces
	for _, a := range vfPrKnown {
		for _, b := range vfPrKnown {
			vfPrRun(out, []vfPrMsg{{0, true, 1, uint8(a)}, {0, true, 1, uint8(b)}})
			vfPrRun(out, []vfPrMsg{{0, true, 1, uint8(a)}, {1, true, 1, 6}, {0, true, 2, uint8(b)}, {0, false, 1, 0}, {0, true, 1, 200}})
		}
	}
	// random batches
	n := vfh.N(4000, 200000)
	for i := 0; i < n; i++ {
		ln := 1 + r.Intn(8)
		if r.Chance(1, 10) {
			ln = r.Intn(40)
		}
		nIf := 1 + r.Intn(len(vfPrNames))
		ms := make([]vfPrMsg, ln)
		for j := range ms {
			ms[j] = vfPrRandMsg(r, nIf)
		}
		vfPrRun(out, ms)
	}
}
