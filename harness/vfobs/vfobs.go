//go:build verif

// Package vfobs holds what the C17 harnesses of packages corerad and crhttp share: a
// catalogue of TOML documents (every stanza kind incl. pref64, the wildcards `::/64`, `::/0`,
// `::`, deprecated prefixes and routes; all 2^8 presence patterns of the 8 stanza kinds;
// config.Minimal; a fixed corpus for the duplicate-label class), the token encoding of the
// *parsed* configuration (the format Driver.Config.pInterface reads), system states and
// their injection through the plugins' exported fields (what Prepare would do), and a
// scripted, fault-injecting system.State.
//
// It lives beside vfh because vfh must not import internal/config (config's own harness
// imports vfh).  Injected with `go test -overlay` like every other harness file.
package vfobs

import (
	"fmt"
	"net"
	"net/netip"
	"strings"
	"time"

	"github.com/mdlayher/corerad/internal/config"
	"github.com/mdlayher/corerad/internal/plugin"
	"github.com/mdlayher/corerad/internal/system"
	"github.com/mdlayher/corerad/internal/vfh"
)

// Epoch is the daemon start time handed to config.Parse.
var Epoch = time.Unix(1_700_000_000, 0)

// ---------------------------------------------------------------------------------------------
// documents

// A Doc is one configuration document.
type Doc struct {
	Tag  string
	TOML string
	// Corpus documents run on every seed in a fixed way (see Cases).
	Corpus bool
}

// variants of each stanza kind; index 0..7 = prefix, route, rdnss, dnssl, mtu, lla, captive
// portal, pref64 (the plugin order of parsePlugins)
var kindVariants = [8][]string{
	{ // prefix
		"[[interfaces.prefix]]\nprefix = \"2001:db8:0:1::/64\"\n",
		"[[interfaces.prefix]]\nprefix = \"::/64\"\n",
		"[[interfaces.prefix]]\n",
		"[[interfaces.prefix]]\nprefix = \"2001:db8:0:2::/64\"\ndeprecated = true\nvalid_lifetime = \"2h\"\npreferred_lifetime = \"1h\"\n",
		"[[interfaces.prefix]]\nprefix = \"fd00:1::/64\"\non_link = false\nautonomous = false\nvalid_lifetime = \"90s\"\npreferred_lifetime = \"45500ms\"\n",
		"[[interfaces.prefix]]\nprefix = \"2001:db8:0:1::/64\"\n[[interfaces.prefix]]\nprefix = \"fd00:1::/64\"\nautonomous = false\n",
		"[[interfaces.prefix]]\nprefix = \"::/64\"\ndeprecated = true\nvalid_lifetime = \"3h\"\npreferred_lifetime = \"90m\"\n",
		"[[interfaces.prefix]]\nprefix = \"2001:db8:0:3::/64\"\nvalid_lifetime = \"infinite\"\npreferred_lifetime = \"infinite\"\n",
		"[[interfaces.prefix]]\nprefix = \"fd00:0:0:1::/64\"\non_link = false\n[[interfaces.prefix]]\nprefix = \"::/64\"\n",
	},
	{ // route
		"[[interfaces.route]]\nprefix = \"2001:db8:100::/48\"\n",
		"[[interfaces.route]]\nprefix = \"::/0\"\n",
		"[[interfaces.route]]\nprefix = \"2001:db8:200::/48\"\nlifetime = \"30m\"\ndeprecated = true\npreference = \"high\"\n",
		"[[interfaces.route]]\nprefix = \"2001:db8:300::/40\"\npreference = \"low\"\nlifetime = \"1h30m\"\n",
		"[[interfaces.route]]\n",
		"[[interfaces.route]]\nprefix = \"::/0\"\ndeprecated = true\nlifetime = \"45m\"\n",
		"[[interfaces.route]]\nprefix = \"2001:db8:e00::/40\"\n[[interfaces.route]]\nprefix = \"::/0\"\npreference = \"high\"\n",
	},
	{ // rdnss
		"[[interfaces.rdnss]]\nservers = [\"2001:db8::53\", \"2001:db8::54\"]\n",
		"[[interfaces.rdnss]]\nservers = [\"::\"]\n",
		"[[interfaces.rdnss]]\nlifetime = \"20m\"\nservers = [\"2001:db8::53\", \"::\"]\n",
		"[[interfaces.rdnss]]\n",
		"[[interfaces.rdnss]]\nlifetime = \"infinite\"\nservers = [\"fd00::53\"]\n[[interfaces.rdnss]]\nservers = [\"2001:4860:4860::8888\"]\n",
		"[[interfaces.rdnss]]\nlifetime = \"1500ms\"\nservers = [\"fd00:0:0:1::1\"]\n[[interfaces.rdnss]]\nservers = [\"::\"]\n",
	},
	{ // dnssl
		"[[interfaces.dnssl]]\ndomain_names = [\"example.com\"]\n",
		"[[interfaces.dnssl]]\nlifetime = \"1h\"\ndomain_names = [\"example.com\", \"lan.example.com\"]\n[[interfaces.dnssl]]\ndomain_names = [\"home.arpa\"]\n",
		"[[interfaces.dnssl]]\nlifetime = \"0s\"\ndomain_names = [\"lan.example.com\", \"example.com\"]\n",
	},
	{"mtu = 1500\n", "mtu = 9000\n", "mtu = 1280\n"},
	// lla: "present" is the default (source_lla unset or true); absent = source_lla = false
	{"", "source_lla = true\n"},
	{"captive_portal = \"https://portal.example/login\"\n", "captive_portal = \"urn:ietf:params:capport:unrestricted\"\n"},
	{ // pref64
		"[[interfaces.pref64]]\n",
		"[[interfaces.pref64]]\nprefix = \"2001:db8:64::/96\"\n",
		"[[interfaces.pref64]]\n[[interfaces.pref64]]\nprefix = \"2001:db8:64::/64\"\n",
	},
}

var headerVariants = []string{
	"",
	"max_interval = \"4s\"\n",
	"max_interval = \"1800s\"\ndefault_lifetime = \"9000s\"\nhop_limit = 255\nmanaged = true\nother_config = true\npreference = \"high\"\n",
	"default_lifetime = \"0s\"\npreference = \"low\"\nreachable_time = \"1500ms\"\nretransmit_timer = \"1500us\"\n",
	"max_interval = \"10s\"\nmin_interval = \"3s\"\ndefault_lifetime = \"auto\"\nhop_limit = 0\nunicast_only = true\npreference = \"medium\"\n",
	"default_lifetime = \"600500ms\"\nreachable_time = \"1h\"\nretransmit_timer = \"999us\"\n",
}

// stanza renders one advertising interface: `pick(kind, n)` chooses the variant of a present
// kind.
func stanza(name string, mask int, header string, pick func(kind, n int) int) string {
	var top, arr strings.Builder
	fmt.Fprintf(&top, "[[interfaces]]\nname = %q\nadvertise = true\n%s", name, header)
	for k := 0; k < 8; k++ {
		present := mask&(1<<k) != 0
		if k == 5 {
			if present {
				top.WriteString(kindVariants[5][pick(5, len(kindVariants[5]))])
			} else {
				top.WriteString("source_lla = false\n")
			}
			continue
		}
		if !present {
			continue
		}
		v := kindVariants[k][pick(k, len(kindVariants[k]))]
		if k == 4 || k == 6 {
			top.WriteString(v)
		} else {
			arr.WriteString(v)
		}
	}
	return top.String() + arr.String()
}

const monitorStanza = "[[interfaces]]\nname = \"wan0\"\nmonitor = true\n"
const idleStanza = "[[interfaces]]\nname = \"idle0\"\n"

// Docs returns the catalogue: fixed corpus first, then config.Minimal, then every presence
// pattern of the 8 stanza kinds (`rounds` documents per pattern, variants drawn from r).
func Docs(r *vfh.Rand, rounds int) []Doc {
	fixed := func(k, v int) func(int, int) int {
		return func(kind, n int) int {
			if kind == k {
				return v
			}
			return 0
		}
	}
	docs := []Doc{
		// the duplicate-label class (F-14); each triggers with the corpus system state
		{"dup-dnssl", "[[interfaces]]\nname = \"eth0\"\nadvertise = true\n[[interfaces.dnssl]]\ndomain_names = [\"example.com\", \"lan.example.com\"]\n[[interfaces.dnssl]]\nlifetime = \"1h\"\ndomain_names = [\"example.com\", \"lan.example.com\"]\n", true},
		{"dup-rdnss", "[[interfaces]]\nname = \"eth0\"\nadvertise = true\n[[interfaces.rdnss]]\nservers = [\"2001:db8::53\"]\n[[interfaces.rdnss]]\nlifetime = \"1h\"\nservers = [\"2001:db8::53\"]\n", true},
		{"dup-wild-prefix", "[[interfaces]]\nname = \"eth0\"\nadvertise = true\n[[interfaces.prefix]]\nprefix = \"::/64\"\n[[interfaces.prefix]]\nprefix = \"2001:db8:0:1::/64\"\nautonomous = false\n", true},
		{"dup-wild-route", "[[interfaces]]\nname = \"eth0\"\nadvertise = true\n[[interfaces.route]]\nprefix = \"::/0\"\n[[interfaces.route]]\nprefix = \"::/0\"\npreference = \"high\"\n", true},
		{"dup-wild-rdnss", "[[interfaces]]\nname = \"eth0\"\nadvertise = true\n[[interfaces.rdnss]]\nservers = [\"::\"]\n[[interfaces.rdnss]]\nservers = [\"fd00:0:0:1::1\"]\n", true},
		// anticipated F-12 / F-13 witnesses
		{"minimal", fmt.Sprintf(config.Minimal, "vf"), true},
		{"pref64-only", stanza("eth0", 1<<7|1<<5, "", fixed(7, 0)), true},
		{"deprecated-static", stanza("eth0", 1<<0|1<<1, "", func(k, n int) int {
			if k == 0 {
				return 3
			}
			return 2
		}), true},
		{"static-all-kinds", stanza("eth0", 0xff, headerVariants[3], func(k, n int) int {
			switch k {
			case 0:
				return 5
			case 1:
				return 3
			case 2:
				return 4
			case 3:
				return 1
			}
			return 0
		}), true},
	}
	for round := 0; round < rounds; round++ {
		for mask := 0; mask < 256; mask++ {
			pick := func(_, n int) int { return r.Intn(n) }
			var sb strings.Builder
			first := stanza("eth0", mask, vfh.Pick(r, headerVariants), pick)
			// the order of the interfaces in the document varies: a monitoring or idle interface
			// (or another advertising one) may be listed BEFORE eth0 — what is reported for an
			// interface must not depend on its position among the others
			lead := r.Chance(2, 5)
			if !lead {
				sb.WriteString(first)
			}
			switch r.Intn(5) {
			case 0:
				sb.WriteString(monitorStanza)
			case 1:
				sb.WriteString(stanza("eth1", r.Intn(256), vfh.Pick(r, headerVariants), pick))
			case 2:
				sb.WriteString(idleStanza)
				if lead && r.Bool() {
					sb.WriteString(first)
					lead = false
				}
				sb.WriteString(stanza("br-lan", r.Intn(256), vfh.Pick(r, headerVariants), pick))
			case 3:
				sb.WriteString(monitorStanza)
				sb.WriteString(idleStanza)
			}
			if lead {
				sb.WriteString(first)
			}
			docs = append(docs, Doc{Tag: fmt.Sprintf("mask-%02x-%d", mask, round), TOML: sb.String()})
		}
		// many interfaces (a response of several kilobytes): 8..14 advertising interfaces with
		// rich stanzas, the last one with the wildcards — an answer is a complete document or an
		// error, whatever its size and wherever in it an interface cannot be rendered
		pick := func(_, n int) int { return r.Intn(n) }
		var sb strings.Builder
		n := 8 + r.Intn(7)
		for k := 0; k < n; k++ {
			mask := 0x0f | r.Intn(256)
			sb.WriteString(stanza(fmt.Sprintf("many%d", k), mask, vfh.Pick(r, headerVariants), pick))
		}
		docs = append(docs, Doc{Tag: fmt.Sprintf("many-%d-%d", n, round), TOML: sb.String()})
	}
	return docs
}

// Parse runs the real parser; every call yields fresh, never-prepared plugins.
func Parse(d Doc) (*config.Config, error) {
	return config.Parse(strings.NewReader(d.TOML), Epoch)
}

// ---------------------------------------------------------------------------------------------
// token encoding of the parsed configuration

// Intern maps opaque strings to small ids with reverse lookup; "" is 0.
type Intern struct {
	ids map[string]int
}

func (in *Intern) ID(s string) int {
	if s == "" {
		return 0
	}
	if in.ids == nil {
		in.ids = map[string]int{}
	}
	if v, ok := in.ids[s]; ok {
		return v
	}
	in.ids[s] = len(in.ids) + 1
	return in.ids[s]
}

// Lookup returns the id of a string seen before.
func (in *Intern) Lookup(s string) (int, bool) {
	v, ok := in.ids[s]
	return v, ok
}

// Enc holds the reverse tables of one case.
type Enc struct {
	Names, Doms, URIs Intern
}

func (e *Enc) plugin(t *vfh.Toks, p plugin.Plugin) {
	switch p := p.(type) {
	case *plugin.Prefix:
		t.N(0).B(p.Auto).Prefix(p.Prefix).B(p.OnLink).B(p.Autonomous).I(int64(p.ValidLifetime)).I(int64(p.PreferredLifetime)).B(p.Deprecated)
	case *plugin.Route:
		t.N(1).B(p.Auto).Prefix(p.Prefix).N(int(p.Preference)).I(int64(p.Lifetime)).B(p.Deprecated)
	case *plugin.RDNSS:
		t.N(2).B(p.Auto).I(int64(p.Lifetime)).N(len(p.Servers))
		for _, s := range p.Servers {
			t.Addr(s)
		}
	case *plugin.DNSSL:
		t.N(3).I(int64(p.Lifetime)).N(len(p.DomainNames))
		for _, n := range p.DomainNames {
			t.N(e.Doms.ID(n))
		}
	case *plugin.MTU:
		t.N(4).N(int(*p))
	case *plugin.LLA:
		t.N(5)
	case *plugin.CaptivePortal:
		t.N(6).N(e.URIs.ID(p.Portal.URI)).N(len(p.Portal.URI))
	case *plugin.PREF64:
		t.N(7).Prefix(p.Inner.Prefix).I(int64(p.Inner.Lifetime))
	default:
		t.S(fmt.Sprintf("?%T", p))
	}
}

// Iface writes the parsed interface in the format of Driver.Config.pInterface.
func (e *Enc) Iface(t *vfh.Toks, i config.Interface) {
	t.N(e.Names.ID(i.Name)).B(i.Monitor).B(i.Advertise).B(i.Verbose).I(int64(i.MinInterval)).I(int64(i.MaxInterval)).
		B(i.Managed).B(i.OtherConfig).I(int64(i.ReachableTime)).I(int64(i.RetransmitTimer)).N(int(i.HopLimit)).
		I(int64(i.DefaultLifetime)).B(i.UnicastOnly).N(int(i.Preference)).N(len(i.Plugins))
	for _, p := range i.Plugins {
		e.plugin(t, p)
	}
}

// NonTrivial: an advertising interface with at least one option-bearing stanza.
func NonTrivial(cfg *config.Config) bool {
	for _, i := range cfg.Interfaces {
		if !i.Advertise {
			continue
		}
		for _, p := range i.Plugins {
			if _, ok := p.(*plugin.LLA); !ok {
				return true
			}
		}
	}
	return false
}

// ---------------------------------------------------------------------------------------------
// system state (what the plugins' sources return once prepared)

type Sys struct {
	AddrsFail, RoutesFail bool
	Addrs                 []system.IP
	Routes                []netip.Prefix
	MAC                   net.HardwareAddr
	Now                   time.Time
}

// CorpusSys makes every corpus document of the duplicate class collide.
func CorpusSys() Sys {
	return Sys{
		Addrs: []system.IP{
			{Address: netip.MustParsePrefix("2001:db8:0:1::1/64"), ValidForever: true},
			{Address: netip.MustParsePrefix("fd00:0:0:1::1/64"), ValidForever: true},
			{Address: netip.MustParsePrefix("fe80::1/64")},
		},
		Routes: []netip.Prefix{netip.MustParsePrefix("2001:db8:f00::/48")},
		MAC:    net.HardwareAddr{0x02, 0x11, 0x22, 0x33, 0x44, 0x55},
		Now:    Epoch.Add(90 * time.Minute),
	}
}

func GenSys(r *vfh.Rand) Sys {
	var s Sys
	s.AddrsFail, s.RoutesFail = r.Chance(1, 25), r.Chance(1, 25)
	hosts := []string{"fd00:0:0:1::1/64", "fd00:0:0:1::2/64", "2001:db8:0:1::1/64", "2001:db8:0:1:211:22ff:fe33:4455/64", "2001:db8:0:2::1/64",
		"fe80::1/64", "2001:db8:5::1/48", "2600:1::7/64", "fd00:0:0:9::1/64", "10.0.0.1/24", "fd00:1::9/64"}
	for k := r.Intn(6); k > 0; k-- {
		a := system.IP{Address: netip.MustParsePrefix(vfh.Pick(r, hosts))}
		a.Deprecated, a.Temporary, a.Tentative = r.Chance(1, 6), r.Chance(1, 6), r.Chance(1, 6)
		a.ManageTemporaryAddresses, a.StablePrivacy, a.ValidForever = r.Chance(1, 5), r.Chance(1, 5), r.Chance(1, 4)
		s.Addrs = append(s.Addrs, a)
	}
	rts := []string{"2001:db8:f00::/48", "2001:db8:f00:1::/64", "2001:db8:e00::/40", "fd00:ff::/32", "2001:db8::1/128", "10.0.0.0/8", "2001:db8:100::/48", "::/0"}
	for k := r.Intn(4); k > 0; k-- {
		p := vfh.Pick(r, rts)
		if p == "::/0" && !r.Chance(1, 5) {
			continue
		}
		s.Routes = append(s.Routes, netip.MustParsePrefix(p))
	}
	if r.Intn(5) != 0 {
		s.MAC = net.HardwareAddr{0x02, 0x11, byte(r.Intn(256)), byte(r.Intn(256)), byte(r.Intn(256)), byte(r.Intn(256))}
	}
	// clock: at/after the epoch, around the deadlines of the deprecated variants
	off := vfh.Pick(r, []time.Duration{0, 1, time.Second, 30 * time.Minute, 30*time.Minute - 1, 45 * time.Minute, time.Hour, time.Hour + 1,
		90*time.Minute + 500*time.Millisecond, 2 * time.Hour, 3 * time.Hour, 24 * time.Hour, time.Duration(r.Range(0, int64(4*time.Hour)))})
	s.Now = Epoch.Add(off)
	return s
}

// Toks writes the state in the format of Driver.Config.pSys.
func (s Sys) Toks(t *vfh.Toks) {
	if s.AddrsFail {
		t.S("F")
	} else {
		t.S("S").N(len(s.Addrs))
		for _, a := range s.Addrs {
			t.Prefix(a.Address).B(a.Deprecated).B(a.ManageTemporaryAddresses).B(a.StablePrivacy).B(a.Temporary).B(a.Tentative).B(a.ValidForever)
		}
	}
	if s.RoutesFail {
		t.S("F")
	} else {
		t.S("S").N(len(s.Routes))
		for _, p := range s.Routes {
			t.Prefix(p)
		}
	}
	if s.MAC == nil {
		t.S("N")
	} else {
		t.S("M").MAC(s.MAC)
	}
	t.I(s.Now.UnixNano()).I(Epoch.UnixNano())
}

// Inject does what Prepare does once the interface is up, with scripted sources.
func (s Sys) Inject(ifi config.Interface) {
	errf := fmt.Errorf("injected failure")
	addrs := func() ([]system.IP, error) {
		if s.AddrsFail {
			return nil, errf
		}
		return s.Addrs, nil
	}
	for _, p := range ifi.Plugins {
		switch p := p.(type) {
		case *plugin.Prefix:
			p.TimeNow = func() time.Time { return s.Now }
			p.Addrs = addrs
		case *plugin.Route:
			p.TimeNow = func() time.Time { return s.Now }
			p.Routes = func() ([]system.Route, error) {
				if s.RoutesFail {
					return nil, errf
				}
				rs := make([]system.Route, len(s.Routes))
				for i, r := range s.Routes {
					rs[i] = system.Route{Prefix: r}
				}
				return rs, nil
			}
		case *plugin.RDNSS:
			p.Addrs = addrs
		case *plugin.LLA:
			p.Addr = s.MAC
		}
	}
}

// ---------------------------------------------------------------------------------------------
// scripted system.State

// A Read is the scripted result of one sysctl read.
type Read byte

const (
	ReadFalse Read = 'F'
	ReadTrue  Read = 'T'
	ReadFail  Read = 'X'
)

// State is a system.State whose reads are scripted per interface; it can be re-scripted
// between two scrapes.
type State struct {
	Auto, Fwd map[string]Read
}

var _ system.State = (*State)(nil)

func read(m map[string]Read, iface string) (bool, error) {
	switch m[iface] {
	case ReadTrue:
		return true, nil
	case ReadFalse:
		return false, nil
	}
	return false, fmt.Errorf("injected sysctl read failure for %q", iface)
}

func (s *State) IPv6Autoconf(iface string) (bool, error)   { return read(s.Auto, iface) }
func (s *State) IPv6Forwarding(iface string) (bool, error) { return read(s.Fwd, iface) }
func (s *State) SetIPv6Autoconf(string, bool) error        { return nil }

// ---------------------------------------------------------------------------------------------
// cases

// A Case is one lifecycle/state assignment for a parsed document.
type Case struct {
	Doc Doc
	LC  []byte // per interface: 'N' never, 'I' initialised, 'R' re-initialising
	Sys Sys
	// Rounds[k][i] = (autoconf, forwarding) reads of interface i in scrape k
	Rounds [][][2]Read
}

func genReads(r *vfh.Rand, n int, failing bool) [][2]Read {
	out := make([][2]Read, n)
	for i := range out {
		out[i] = [2]Read{vfh.Pick(r, []Read{ReadTrue, ReadFalse}), vfh.Pick(r, []Read{ReadTrue, ReadTrue, ReadFalse})}
	}
	if failing {
		out[r.Intn(n)][r.Intn(2)] = ReadFail
	}
	return out
}

// Cases derives the lifecycle / system-state / read-failure assignments for a document with n
// interfaces.
func Cases(r *vfh.Rand, d Doc, n int) []Case {
	all := func(b byte) []byte { return []byte(strings.Repeat(string(b), n)) }
	var out []Case
	if d.Corpus {
		sys := CorpusSys()
		on := make([][2]Read, n)
		off := make([][2]Read, n)
		for i := range on {
			on[i] = [2]Read{ReadFalse, ReadTrue}
			off[i] = [2]Read{ReadTrue, ReadFalse}
		}
		for _, lc := range []byte{'N', 'I', 'R'} {
			out = append(out, Case{d, all(lc), sys, [][][2]Read{on}})
		}
		out = append(out, Case{d, all('I'), sys, [][][2]Read{on, off, on}})
		return out
	}
	// never initialised, initialised, re-initialising, and (several interfaces) a mix
	lcs := [][]byte{all('N'), all('I'), all('I'), all('R')}
	if n > 1 {
		mix := make([]byte, n)
		for i := range mix {
			mix[i] = vfh.Pick(r, []byte{'N', 'I', 'R'})
		}
		lcs = append(lcs, mix)
	}
	if n >= 6 {
		// everything initialised but the last interface / but one in the second half
		late := all('I')
		late[n-1] = 'N'
		lcs = append(lcs, late)
		late2 := all('I')
		late2[n/2+r.Intn(n-n/2)] = 'N'
		lcs = append(lcs, late2)
	}
	for _, lc := range lcs {
		c := Case{Doc: d, LC: lc, Sys: GenSys(r)}
		switch r.Intn(4) {
		case 0: // a failing read
			c.Rounds = [][][2]Read{genReads(r, n, true)}
		case 1: // two scrapes with a forwarding flip in between
			a := genReads(r, n, false)
			b := make([][2]Read, n)
			copy(b, a)
			i := r.Intn(n)
			if b[i][1] == ReadTrue {
				b[i][1] = ReadFalse
			} else {
				b[i][1] = ReadTrue
			}
			c.Rounds = [][][2]Read{a, b}
		default:
			c.Rounds = [][][2]Read{genReads(r, n, false)}
		}
		out = append(out, c)
	}
	return out
}

// Prepare parses the document afresh and brings every interface to its lifecycle point.
func (c Case) Prepare() (*config.Config, error) {
	cfg, err := Parse(c.Doc)
	if err != nil {
		return nil, err
	}
	if len(cfg.Interfaces) != len(c.LC) {
		return nil, fmt.Errorf("document has %d interfaces, case %d", len(cfg.Interfaces), len(c.LC))
	}
	c.Advance(cfg)
	return cfg, nil
}

// Advance brings every interface of an already parsed (never initialised) configuration to its
// lifecycle point, in place — as the advertiser's Prepare calls do in the running daemon, while
// the metrics collector and the debug handler keep referring to the same plugins.
func (c Case) Advance(cfg *config.Config) {
	for i, ifi := range cfg.Interfaces {
		switch c.LC[i] {
		case 'I':
			c.Sys.Inject(ifi)
		case 'R':
			// Prepare ran before with the then-current state and runs again now
			old := CorpusSys()
			old.Now = Epoch
			old.Inject(ifi)
			c.Sys.Inject(ifi)
		}
	}
}

// Script sets the reads of scrape k.
func (c Case) Script(st *State, cfg *config.Config, k int) {
	st.Auto, st.Fwd = map[string]Read{}, map[string]Read{}
	for i, ifi := range cfg.Interfaces {
		st.Auto[ifi.Name] = c.Rounds[k][i][0]
		st.Fwd[ifi.Name] = c.Rounds[k][i][1]
	}
}

// Head writes `n (iface lc)… sys` and returns the reverse tables.
func (c Case) Head(t *vfh.Toks, cfg *config.Config) *Enc {
	e := &Enc{}
	t.N(len(cfg.Interfaces))
	for i, ifi := range cfg.Interfaces {
		e.Iface(t, ifi)
		t.S(string(c.LC[i]))
	}
	c.Sys.Toks(t)
	return e
}
