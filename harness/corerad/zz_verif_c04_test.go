//go:build verif

package corerad

import (
	"syscall"
	"io/fs"
	"fmt"
	"bytes"
	"context"
	"encoding/json"
	"errors"
	"log"
	"net"
	"net/http/httptest"
	"net/netip"
	"strings"
	"sync"
	"testing"
	"testing/synctest"
	"time"

	"github.com/mdlayher/corerad/internal/config"
	"github.com/mdlayher/corerad/internal/crhttp"
	"github.com/mdlayher/corerad/internal/netstate"
	"github.com/mdlayher/corerad/internal/system"
	"github.com/mdlayher/corerad/internal/vfh"
	"github.com/mdlayher/metricslite"
	"github.com/mdlayher/ndp"
	"github.com/prometheus/client_golang/prometheus"
)

// pathState is a per-interface mutable system.State.
type vfPathState struct {
	mu       sync.Mutex
	fw       map[string]bool
	failNext map[string]bool // the next IPv6Forwarding read for the interface fails (once)
	nFail    int
	pluginFail map[string]bool // the next address listing for the interface's wildcard plugin fails (once)
}

func (s *vfPathState) IPv6Autoconf(string) (bool, error) { return false, nil }
func (s *vfPathState) IPv6Forwarding(i string) (bool, error) {
	s.mu.Lock()
	defer s.mu.Unlock()
	if s.failNext[i] {
		s.failNext[i] = false
		// alternately a plain error and "permission denied" on the sysctl file (a MAC policy, a masked
		// /proc/sys): both leave the forwarding state UNKNOWN, and both are fatal to a task (the
		// dialer does not retry permission errors), so the histories' outcomes are the same
		s.nFail++
		if s.nFail%2 == 0 {
			return false, &fs.PathError{Op: "open", Path: "/proc/sys/net/ipv6/conf/" + i + "/forwarding", Err: syscall.EACCES}
		}
		return false, errors.New("scripted: transient failure reading the forwarding sysctl")
	}
	return s.fw[i], nil
}
func (s *vfPathState) fail(i string) {
	s.mu.Lock()
	s.failNext[i] = true
	s.mu.Unlock()
}
func (s *vfPathState) SetIPv6Autoconf(string, bool) error { return nil }
func (s *vfPathState) set(i string, b bool) {
	s.mu.Lock()
	s.fw[i] = b
	s.mu.Unlock()
}

// (A one-shot plugin failure is armed only right before a generation on a transmitting path of the
// same interface: the advertisers also build periodic RAs on their own as virtual time passes, and
// would consume a failure armed earlier at an instant the history does not name.  When that
// advertiser has already ended, the failure stays pending until the next scrape / API request.)
//
// failingPlugin stands for any plugin whose Apply can fail while an RA is being generated (the
// wildcards, when their address or route source fails; Prepare would replace an injected source of
// a real wildcard by the operating system's, so the harness brings its own plugin): it adds nothing
// to the RA and fails once when told to (op P).
type vfFailingPlugin struct {
	st   *vfPathState
	name string
	// hold: the next Apply blocks until release is closed (one-shot; op O)
	mu      sync.Mutex
	hold    bool
	held    chan struct{} // closed when an Apply has started to block
	release chan struct{}
}

func (p *vfFailingPlugin) arm() {
	p.mu.Lock()
	p.hold, p.held, p.release = true, make(chan struct{}), make(chan struct{})
	p.mu.Unlock()
}

func (*vfFailingPlugin) Name() string                 { return "verif-failing" }
func (*vfFailingPlugin) String() string               { return "verif-failing" }
func (*vfFailingPlugin) Prepare(*net.Interface) error { return nil }
func (p *vfFailingPlugin) Apply(*ndp.RouterAdvertisement) error {
	p.mu.Lock()
	if p.hold {
		p.hold = false
		held, release := p.held, p.release
		p.mu.Unlock()
		close(held)
		<-release
	} else {
		p.mu.Unlock()
	}
	p.st.mu.Lock()
	defer p.st.mu.Unlock()
	if p.st.pluginFail[p.name] {
		p.st.pluginFail[p.name] = false
		return errors.New("scripted: transient failure of a plugin's system source")
	}
	return nil
}

type vfSyncBuf struct {
	mu sync.Mutex
	b  bytes.Buffer
}

func (b *vfSyncBuf) Write(p []byte) (int, error) { b.mu.Lock(); defer b.mu.Unlock(); return b.b.Write(p) }
func (b *vfSyncBuf) count(sub string) int {
	b.mu.Lock()
	defer b.mu.Unlock()
	return strings.Count(b.b.String(), sub)
}

type vfPathIface struct {
	fp      *vfFailingPlugin
	name    string
	cfg     config.Interface
	conns   []*vfConn
	watchC  chan netstate.Change
	cancel  context.CancelFunc
	done    chan error
	ours    []*ndp.RouterAdvertisement // captured by OnInconsistentRA
	stopped bool
}

const (
	pInitial = iota
	pPeriodic
	pSolicited
	pFinal
	pVerify
	pScrape
	pAPI
)

type vfPathOp struct {
	held  bool // a periodic generation of the interface is held in flight (inside the plugin) until the end of the history
	pfail bool // the next Apply of the interface's wildcard plugin fails (its address source fails once)
	fail  bool // the next forwarding read of the interface fails
	flip  bool
	iface int
	b     bool
	path  int
}

// runPaths executes one history of forwarding flips and RA generations over two advertising
// interfaces in virtual time and records what each generation produced.
func vfRunPaths(t *testing.T, out *vfh.Out, lifetimes [2]time.Duration, ops []vfPathOp) {
	out.Pending(fmt.Sprintf("runPaths lifetimes=%v ops=%+v", lifetimes, ops))
	synctest.Test(t, func(t *testing.T) {
		st := &vfPathState{fw: map[string]bool{"vf0": true, "vf1": true}, failNext: map[string]bool{}, pluginFail: map[string]bool{}}
		logs := &vfSyncBuf{}
		ll := log.New(logs, "", 0)
		var ifis [2]*vfPathIface
		var cfgs []config.Interface
		for k := 0; k < 2; k++ {
			name := []string{"vf0", "vf1"}[k]
			cfg := vfAdvConfig(4*time.Second, 4*time.Second, false, lifetimes[k])
			cfg.Name = name
			// a wildcard plugin whose address source can be made to fail once (op P): a plugin failure
			// while an RA is being generated must not let an RA out that skips the forwarding rule
			fp := &vfFailingPlugin{st: st, name: name}
			cfg.Plugins = append(cfg.Plugins, fp)
			cfgs = append(cfgs, cfg)
			ifis[k] = &vfPathIface{fp: fp, name: name, cfg: cfg, watchC: make(chan netstate.Change, 8), done: make(chan error, 1)}
		}
		// in every other history the configuration lists a monitoring-only interface BEFORE the two
		// advertising ones (a WAN uplink first, as configurations usually have it): what the scrape
		// and the debug API report for an interface must not depend on its position
		all := cfgs
		if len(ops)%2 == 1 {
			all = append([]config.Interface{{Name: "wan0", Monitor: true}}, cfgs...)
		}
		reg := prometheus.NewPedanticRegistry()
		mm := NewMetrics(metricslite.NewPrometheus(reg), "v", time.Time{}, st, all)
		cctx := NewContext(ll, mm, st)
		handler := crhttp.NewHandler(ll, st, config.Config{Interfaces: all}, nil)
		start := time.Now()
		for k := 0; k < 2; k++ {
			pi := ifis[k]
			d := system.NewDialer(pi.name, st, system.Advertise, nil)
			d.DialFunc = func() (*system.DialContext, error) {
				c := vfNewVfConn()
				c.t0 = start
				pi.conns = append(pi.conns, c)
				return &system.DialContext{Conn: c,
					Interface: &net.Interface{Index: 1 + k, Name: pi.name, HardwareAddr: net.HardwareAddr{2, 0, 0, 0, 0, byte(k)}},
					IP:        netip.MustParseAddr("fe80::1")}, nil
			}
			a := NewAdvertiser(cctx, pi.cfg, d, pi.watchC, func() bool { return true })
			a.OnInconsistentRA = func(ours, _ *ndp.RouterAdvertisement) { pi.ours = append(pi.ours, ours) }
			ctx, cancel := context.WithCancel(context.Background())
			pi.cancel = cancel
			go func() { pi.done <- a.Run(ctx) }()
		}
		synctest.Wait()
		time.Sleep(5*time.Second + 1) // past the first periodic RA of both
		synctest.Wait()

		c := new(vfh.Toks).S("pth").I(int64(lifetimes[0])).I(int64(lifetimes[1])).N(len(ops))
		impl := new(vfh.Toks)
		nObs := 0
		obs := func(iface, path int, lt int64, mis int) {
			impl.N(iface).N(path).I(lt).N(mis)
			nObs++
		}
		misLine := func(name string) int {
			return logs.count(name + ": interface is not configured for IPv6 forwarding")
		}
		lastWrite := func(pi *vfPathIface) *vfWrite {
			ws := pi.conns[len(pi.conns)-1].snapshot()
			if len(ws) == 0 {
				return nil
			}
			return &ws[len(ws)-1]
		}
		for _, op := range ops {
			pi := ifis[op.iface]
			if op.held {
				// wait for the next periodic RA of the interface to be under construction — it has
				// read the forwarding state and now sits in a plugin's Apply — and leave it there
				c.S("O").N(op.iface)
				pi.fp.arm()
				select {
				case <-pi.fp.held:
				case <-time.After(30 * time.Second):
					t.Fatalf("no periodic generation started within 30 s")
				}
				defer close(pi.fp.release)
				continue
			}
			if op.pfail {
				c.S("P").N(op.iface)
				st.mu.Lock()
				st.pluginFail[pi.name] = true
				st.mu.Unlock()
				continue
			}
			if op.fail {
				c.S("X").N(op.iface)
				st.fail(pi.name)
				continue
			}
			if op.flip {
				c.S("F").N(op.iface).B(op.b)
				st.set(pi.name, op.b)
				continue
			}
			c.S("G").N(op.iface).N(op.path)
			before := misLine(pi.name)
			mis := func() int {
				if misLine(pi.name) > before {
					return 1
				}
				return 0
			}
			// has the advertiser ended on its own (an RA could not be built)?
			for _, q := range ifis {
				if !q.stopped {
					select {
					case <-q.done:
						q.stopped = true
					default:
					}
				}
			}
			if pi.stopped && op.path != pScrape && op.path != pAPI {
				obs(op.iface, op.path, -2, -2) // the advertiser is gone: nothing to generate
				continue
			}
			switch op.path {
			case pInitial:
				n := len(pi.conns)
				pi.watchC <- netstate.LinkDown
				synctest.Wait()
				time.Sleep(10 * time.Millisecond)
				synctest.Wait()
				if len(pi.conns) == n {
					obs(op.iface, op.path, -3, -3)
					continue
				}
				ws := pi.conns[len(pi.conns)-1].snapshot()
				if len(ws) == 0 {
					obs(op.iface, op.path, -3, -3)
					continue
				}
				obs(op.iface, op.path, int64(ws[0].ra.RouterLifetime), mis())
			case pPeriodic:
				conn := pi.conns[len(pi.conns)-1]
				n := len(conn.snapshot())
				for i := 0; i < 20 && len(conn.snapshot()) == n; i++ {
					time.Sleep(time.Second)
					synctest.Wait()
				}
				w := lastWrite(pi)
				if w == nil || len(conn.snapshot()) == n || w.dst != vfAllNodes {
					obs(op.iface, op.path, -3, -3)
					continue
				}
				obs(op.iface, op.path, int64(w.ra.RouterLifetime), mis())
			case pSolicited:
				conn := pi.conns[len(pi.conns)-1]
				nBefore := len(conn.snapshot())
				conn.deliver(vfRead{m: &ndp.RouterSolicitation{}, hop: 255, host: vfHosts[1].WithZone(pi.name)})
				synctest.Wait()
				time.Sleep(600 * time.Millisecond)
				synctest.Wait()
				var got *vfWrite
				for k, w := range conn.snapshot() {
					if k >= nBefore && w.dst == vfHosts[1] {
						w := w
						got = &w
					}
				}
				if got == nil {
					obs(op.iface, op.path, -3, -3)
					continue
				}
				obs(op.iface, op.path, int64(got.ra.RouterLifetime), mis())
			case pFinal:
				nBefore := len(pi.conns[len(pi.conns)-1].snapshot())
				pi.cancel()
				select {
				case <-pi.done:
				case <-time.After(time.Minute):
				}
				pi.stopped = true
				ws := pi.conns[len(pi.conns)-1].snapshot()
				if len(ws) != nBefore+1 || ws[len(ws)-1].dst != vfAllNodes {
					obs(op.iface, op.path, -3, -3)
					continue
				}
				obs(op.iface, op.path, int64(ws[len(ws)-1].ra.RouterLifetime), mis())
			case pVerify:
				conn := pi.conns[len(pi.conns)-1]
				n := len(pi.ours)
				conn.deliver(vfRead{m: &ndp.RouterAdvertisement{CurrentHopLimit: 1, RouterLifetime: time.Second}, hop: 255, host: vfHosts[2].WithZone(pi.name)})
				synctest.Wait()
				if len(pi.ours) == n {
					obs(op.iface, op.path, -3, -3)
					continue
				}
				obs(op.iface, op.path, int64(pi.ours[len(pi.ours)-1].RouterLifetime), mis())
			case pScrape:
				mfs, err := reg.Gather()
				if err != nil {
					obs(op.iface, op.path, -3, -3)
					continue
				}
				misG, fwG := 0, -1
				for _, mf := range mfs {
					for _, m := range mf.GetMetric() {
						isIf := false
						for _, l := range m.GetLabel() {
							if l.GetName() == "interface" && l.GetValue() == pi.name {
								isIf = true
							}
						}
						if !isIf {
							continue
						}
						switch mf.GetName() {
						case advMisconfiguration:
							if m.GetGauge().GetValue() == 1 {
								misG = 1
							}
						case ifiForwarding:
							fwG = int(m.GetGauge().GetValue())
						}
					}
				}
				// the scrape does not expose the lifetime; report the forwarding gauge in its place
				obs(op.iface, op.path, int64(-10-fwG), misG)
			case pAPI:
				rec := httptest.NewRecorder()
				handler.ServeHTTP(rec, httptest.NewRequest("GET", "/_/api/interfaces", nil))
				var body struct {
					Interfaces []struct {
						Interface     string `json:"interface"`
						Advertisement *struct {
							RouterLifetimeSeconds int `json:"router_lifetime_seconds"`
						} `json:"advertisement"`
					} `json:"interfaces"`
				}
				if rec.Code != 200 || json.Unmarshal(rec.Body.Bytes(), &body) != nil {
					obs(op.iface, op.path, -3, -3)
					continue
				}
				lt := int64(-3)
				for _, i := range body.Interfaces {
					if i.Interface == pi.name && i.Advertisement != nil {
						lt = int64(i.Advertisement.RouterLifetimeSeconds) * int64(time.Second)
					}
				}
				obs(op.iface, op.path, lt, -1) // the API does not report misconfigurations
			}
		}
		for _, pi := range ifis {
			if !pi.stopped {
				pi.cancel()
				select {
				case <-pi.done:
				case <-time.After(time.Minute):
				}
			}
		}
		out.Line(c.String(), new(vfh.Toks).N(nObs).S(impl.String()).String())
		out.Flush()
	})
}

func verifC04Paths(t *testing.T, r *vfh.Rand, out *vfh.Out) {
	lts := [][2]time.Duration{{1800 * time.Second, 0}, {1800 * time.Second, 9000 * time.Second}, {30 * time.Second, 1800 * time.Second}}
	// every history of <= 2 generations with a flip before each, on one interface while the other
	// stays untouched (thorough: <= 3)
	paths := []int{pInitial, pPeriodic, pSolicited, pVerify, pScrape, pAPI, pFinal}
	depth := 2
	if vfh.Thorough() {
		depth = 3
	}
	var rec func(ops []vfPathOp, fw bool, n int)
	rec = func(ops []vfPathOp, fw bool, n int) {
		if n > 0 {
			vfRunPaths(t, out, lts[n%len(lts)], ops)
		}
		if n == depth {
			return
		}
		for _, p := range paths {
			for _, b := range []bool{false, true} {
				next := append(append([]vfPathOp(nil), ops...), vfPathOp{flip: true, iface: 0, b: b}, vfPathOp{iface: 0, path: p}, vfPathOp{iface: 1, path: pAPI})
				rec(next, b, n+1)
				if p == pFinal {
					break
				}
			}
		}
	}
	rec(nil, true, 0)
	// a forwarding flip followed by a transient failure of the very next forwarding read: the RA must
	// not be built from a remembered value
	for _, p := range []int{pPeriodic, pSolicited, pVerify, pScrape, pAPI, pInitial} {
		for _, b := range []bool{false, true} {
			vfRunPaths(t, out, lts[1], []vfPathOp{{iface: 0, path: pSolicited}, {flip: true, iface: 0, b: b}, {fail: true, iface: 0},
				{iface: 0, path: p}, {iface: 0, path: pAPI}, {iface: 1, path: pSolicited}})
		}
	}
	// a plugin fails while an RA is being generated on a transmitting path, forwarding on or off: no
	// RA may go out (in particular none that skipped the forwarding rule), the advertiser ends
	for _, p := range []int{pPeriodic, pSolicited, pVerify, pInitial} {
		for _, b := range []bool{false, true} {
			vfRunPaths(t, out, lts[1], []vfPathOp{{iface: 0, path: pSolicited}, {flip: true, iface: 0, b: b}, {pfail: true, iface: 0},
				{iface: 0, path: p}, {iface: 0, path: pAPI}, {iface: 1, path: pSolicited}})
		}
	}
	// two generations overlap: a periodic RA is under construction (forwarding read, waiting inside
	// a plugin) when forwarding flips; a generation that starts afterwards — the consistency check
	// of a neighbour's RA, a scrape, an API request — reflects the state of ITS moment
	for _, p := range []int{pVerify, pScrape, pAPI} {
		for _, b := range []bool{false, true} {
			vfRunPaths(t, out, lts[1], []vfPathOp{{flip: true, iface: 0, b: !b}, {iface: 0, path: pSolicited}, {held: true, iface: 0},
				{flip: true, iface: 0, b: b}, {iface: 0, path: p}, {iface: 1, path: pAPI}})
		}
	}
	n := vfh.N(60, 2000)
	for i := 0; i < n; i++ {
		var ops []vfPathOp
		for k := 2 + r.Intn(24); k > 0; k-- {
			if r.Chance(1, 14) {
				i := r.Intn(2)
				ops = append(ops, vfPathOp{pfail: true, iface: i},
					vfPathOp{iface: i, path: vfh.Pick(r, []int{pPeriodic, pSolicited, pVerify, pInitial})})
			} else if r.Chance(1, 12) {
				i := r.Intn(2)
				ops = append(ops, vfPathOp{fail: true, iface: i},
					vfPathOp{iface: i, path: vfh.Pick(r, []int{pPeriodic, pSolicited, pVerify, pScrape, pAPI, pInitial})})
			} else if r.Chance(1, 3) {
				ops = append(ops, vfPathOp{flip: true, iface: r.Intn(2), b: r.Bool()})
			} else {
				p := vfh.Pick(r, paths)
				if p == pFinal && !r.Chance(1, 6) {
					p = pSolicited
				}
				ops = append(ops, vfPathOp{iface: r.Intn(2), path: p})
			}
		}
		vfRunPaths(t, out, vfh.Pick(r, lts), ops)
	}
}
