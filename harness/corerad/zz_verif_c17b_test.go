//go:build verif

package corerad

import (
	"fmt"
	"net"
	"net/netip"
	"testing"
	"time"

	"github.com/mdlayher/corerad/internal/config"
	"github.com/mdlayher/corerad/internal/plugin"
	"github.com/mdlayher/corerad/internal/system"
	"github.com/mdlayher/corerad/internal/vfh"
	"github.com/mdlayher/metricslite"
)

// runReprepare (C17): "while it is (re)initialising … a scrape completes without blocking the daemon".
// A scrape is inside the address dump of a wildcard plugin (the hook holds it there) when the
// interface is re-initialised — the advertiser runs Prepare on the same plugin values again, as it
// does after every re-dial.  Both must complete: the scrape with an answer or an error, Prepare at
// all.  Real time with a watchdog (a deadlock has no virtual clock to advance).
//
//	rp kind | scrapeDone prepareDone laterScrapeDone
func vfRunReprepare(t *testing.T, out *vfh.Out, kind int) {
	out.Pending(fmt.Sprintf("runReprepare kind=%d", kind))
	inDump := make(chan struct{})
	release := make(chan struct{})
	first := true
	addrs := func() ([]system.IP, error) {
		if first {
			first = false
			close(inDump)
			<-release
		}
		return []system.IP{{Address: netip.MustParsePrefix("2001:db8:0:1::9/64")}}, nil
	}
	var p plugin.Plugin
	lo := &net.Interface{Index: 1, Name: "lo"}
	switch kind {
	case 0:
		x := &plugin.Prefix{Auto: true, Prefix: netip.MustParsePrefix("::/64"), OnLink: true, Autonomous: true, ValidLifetime: 2 * time.Hour, PreferredLifetime: time.Hour}
		_ = x.Prepare(lo)
		x.Addrs = addrs
		p = x
	case 1:
		x := &plugin.RDNSS{Auto: true, Lifetime: time.Hour}
		_ = x.Prepare(lo)
		x.Addrs = addrs
		p = x
	default:
		x := &plugin.Route{Auto: true, Prefix: netip.MustParsePrefix("::/0"), Lifetime: time.Hour}
		_ = x.Prepare(lo)
		x.Routes = func() ([]system.Route, error) {
			_, _ = addrs()
			return []system.Route{{Prefix: netip.MustParsePrefix("2001:db8:5::/48")}}, nil
		}
		p = x
	}
	ifi := config.Interface{Name: "vf0", Advertise: true, HopLimit: 64, DefaultLifetime: 1800 * time.Second,
		MinInterval: 200 * time.Second, MaxInterval: 600 * time.Second, Plugins: []plugin.Plugin{p}}
	st := system.TestState{Forwarding: true}
	mm := NewMetrics(metricslite.NewMemory(), "v", time.Time{}, st, []config.Interface{ifi})

	scrapeDone := make(chan struct{})
	go func() { _, _ = mm.Series(); close(scrapeDone) }()
	ok := func(c <-chan struct{}, d time.Duration) bool {
		select {
		case <-c:
			return true
		case <-time.After(d):
			return false
		}
	}
	if !ok(inDump, 30*time.Second) {
		out.Line(new(vfh.Toks).S("rp").N(kind).String(), "0 0 0")
		close(release)
		return
	}
	prepDone := make(chan struct{})
	go func() { _ = p.Prepare(lo); close(prepDone) }()
	time.Sleep(20 * time.Millisecond) // let Prepare get as far as it can while the scrape is inside the dump
	close(release)
	s1 := ok(scrapeDone, 20*time.Second)
	s2 := ok(prepDone, 20*time.Second)
	later := make(chan struct{})
	go func() { _, _ = mm.Series(); close(later) }()
	s3 := ok(later, 20*time.Second)
	out.Line(new(vfh.Toks).S("rp").N(kind).String(), new(vfh.Toks).B(s1).B(s2).B(s3).String())
	out.Flush()
}

func verifReprepare(t *testing.T, out *vfh.Out) {
	for kind := 0; kind < 3; kind++ {
		vfRunReprepare(t, out, kind)
	}
}
