//go:build verif && linux

package corerad

import (
	"context"
	"net"
	"net/netip"
	"os"
	"os/exec"
	"strings"
	"testing"
	"time"

	"github.com/mdlayher/corerad/internal/config"
	"github.com/mdlayher/corerad/internal/netstate"
	"github.com/mdlayher/corerad/internal/plugin"
	"github.com/mdlayher/corerad/internal/system"
	"github.com/mdlayher/corerad/internal/vfh"
	"github.com/mdlayher/metricslite"
	"github.com/mdlayher/ndp"
	"golang.org/x/net/ipv6"
)

// TestVerifNetns runs the real advertiser — real Dialer.dial(), real raw ICMPv6 socket, real
// systemState — on one end (vf0) of a veth pair inside a private network namespace, and a host
// on the other end (vf1) that listens and solicits. It is started by /verif/check under
// `unshare -n` (VERIF_NETNS=1) and is the only place where the kernel's side of the socket set-up
// (ICMPv6 filter, hop-limit control message, all-routers membership, link-local source) meets the
// properties. Real time, a few seconds.
//
//	ns 1 | init… rs… badhop… nsol… fwd… final…      (see the tokens below)
//	ns 0 | skip <why>
func TestVerifNetns(t *testing.T) {
	if os.Getenv("VERIF_NETNS") == "" {
		t.Skip("VERIF_NETNS not set")
	}
	out, err := vfh.OpenOut()
	if err != nil {
		t.Fatal(err)
	}
	defer out.Close()
	// Real time: on a heavily loaded machine an answer can take longer than the waiting windows
	// below.  A run with a timing symptom (something expected did not arrive in its window) is
	// repeated, up to three attempts in all; a defect of the implementation shows in every attempt.
	var impl, why string
	for attempt := 0; attempt < 3; attempt++ {
		impl, why = nsAttempt(t)
		if why != "" || !nsTimingSymptom(impl) {
			break
		}
		t.Logf("netns attempt %d had a timing symptom: %s", attempt+1, impl)
		time.Sleep(2 * time.Second)
	}
	if why != "" {
		t.Logf("netns scenario not run: %s", why)
		out.Line("ns 0", "skip")
		return
	}
	out.Line("ns 1", impl)
}

// nsTimingSymptom: some awaited RA did not arrive within its window (or Run did not return)
func nsTimingSymptom(impl string) bool {
	s := " " + impl + " "
	for _, sym := range []string{" init none ", " rs 0 ", " rs 1 0 ", " fwd -1 ", " final 0 ", " hung ", "senderr", "ip-failed"} {
		if strings.Contains(s, sym) {
			return true
		}
	}
	// relink <autoconf> <got> <lifetime>
	if i := strings.Index(s, " relink "); i >= 0 {
		f := strings.Fields(s[i:])
		if len(f) >= 3 && f[2] == "0" {
			return true
		}
	}
	return false
}

// nsAttempt: one run of the scenario; the implementation's tokens, or why it could not be run
func nsAttempt(t *testing.T) (string, string) {
	skip := func(why string) (string, string) { return "", why }
	var rtr, host *net.Interface
	for i := 0; i < 60; i++ {
		rtr, _ = net.InterfaceByName("vf0")
		host, _ = net.InterfaceByName("vf1")
		if rtr != nil && host != nil && nsHasLL(rtr) && nsHasLL(host) {
			break
		}
		time.Sleep(100 * time.Millisecond)
	}
	if rtr == nil || host == nil || !nsHasLL(rtr) || !nsHasLL(host) {
		return skip("no veth pair vf0/vf1 with link-local addresses")
	}
	hc, hostIP, err := ndp.Listen(host, ndp.LinkLocal)
	if err != nil {
		return skip("host socket: " + err.Error())
	}
	defer hc.Close()
	_ = hc.SetControlMessage(ipv6.FlagDst|ipv6.FlagHopLimit, true)

	st := system.NewState() // the real sysctl files of this namespace
	cfg := config.Interface{
		Name: "vf0", Advertise: true, MinInterval: 200 * time.Second, MaxInterval: 600 * time.Second,
		HopLimit: 64, DefaultLifetime: 1800 * time.Second, Preference: ndp.Medium,
		Plugins: []plugin.Plugin{
			&plugin.Prefix{Prefix: netip.MustParsePrefix("2001:db8:0:1::/64"), OnLink: true, Autonomous: true,
				ValidLifetime: 24 * time.Hour, PreferredLifetime: 4 * time.Hour},
			&plugin.LLA{},
		},
	}
	mm := NewMetrics(metricslite.NewMemory(), "v", time.Time{}, st, []config.Interface{cfg})
	cctx := NewContext(nil, mm, st)
	d := system.NewDialer("vf0", st, system.Advertise, nil)
	// the link watcher, wired as Server.BuildTasks does
	lw := netstate.NewWatcher()
	watchC := lw.Subscribe("vf0", netstate.LinkDown)
	wctx, wcancel := context.WithCancel(context.Background())
	defer wcancel()
	go func() { _ = lw.Watch(wctx) }()
	time.Sleep(200 * time.Millisecond)
	autoconf := func() string {
		b, err := os.ReadFile("/proc/sys/net/ipv6/conf/vf0/autoconf")
		if err != nil {
			return "?"
		}
		return strings.TrimSpace(string(b))
	}
	ac0 := autoconf()
	a := NewAdvertiser(cctx, cfg, d, watchC, func() bool { return true })
	ctx, cancel := context.WithCancel(context.Background())
	done := make(chan error, 1)
	go func() { done <- a.Run(ctx) }()

	impl := new(vfh.Toks)
	type rx struct {
		ra        *ndp.RouterAdvertisement
		multicast bool
		hop       int
		from      netip.Addr
	}
	// next RA within d (other message types are ignored); nil on time-out
	next := func(d time.Duration) *rx {
		deadline := time.Now().Add(d)
		for {
			_ = hc.SetReadDeadline(deadline)
			m, cm, from, err := hc.ReadFrom()
			if err != nil {
				return nil
			}
			ra, ok := m.(*ndp.RouterAdvertisement)
			if !ok {
				continue
			}
			r := &rx{ra: ra, from: from}
			if cm != nil {
				r.multicast = cm.Dst.IsMulticast()
				r.hop = cm.HopLimit
			}
			return r
		}
	}
	invalid := func() int {
		n := 0
		series, _ := mm.Series()
		if s, ok := series[msgInvalid]; ok {
			for _, v := range s.Samples {
				n += int(v)
			}
		}
		return n
	}
	slla := func(ra *ndp.RouterAdvertisement) bool {
		for _, o := range ra.Options {
			if l, ok := o.(*ndp.LinkLayerAddress); ok && l.Direction == ndp.Source && l.Addr.String() == rtr.HardwareAddr.String() {
				return true
			}
		}
		return false
	}
	// init: the initial multicast RA — to all-nodes, hop limit 255, from the router's link-local
	// address, configured lifetime (the namespace's vf0 forwards), prefix and source link-layer option
	if r := next(5 * time.Second); r == nil {
		impl.S("init").S("none")
	} else {
		impl.S("init").B(r.multicast).N(r.hop).B(r.from.IsLinkLocalUnicast()).I(int64(r.ra.RouterLifetime / time.Second)).N(len(r.ra.Options)).B(slla(r.ra))
	}
	// rs: a valid solicitation from the host's link-local address to all-routers is answered by
	// a unicast RA (multicast RAs arriving meanwhile are not the answer)
	rs := &ndp.RouterSolicitation{Options: []ndp.Option{&ndp.LinkLayerAddress{Direction: ndp.Source, Addr: host.HardwareAddr}}}
	allRouters := netip.IPv6LinkLocalAllRouters().WithZone("vf1")
	answered := func(d time.Duration) (bool, time.Duration) {
		start := time.Now()
		for time.Since(start) < d {
			r := next(d - time.Since(start))
			if r == nil {
				return false, 0
			}
			if !r.multicast {
				return true, time.Since(start)
			}
		}
		return false, 0
	}
	if err := hc.WriteTo(rs, nil, allRouters); err != nil {
		impl.S("rs").S("senderr")
	} else {
		ok, dt := answered(3 * time.Second)
		impl.S("rs").B(ok).B(dt < 1500*time.Millisecond)
	}
	// badhop: the same solicitation with hop limit 64 is not answered and is counted invalid
	inv0 := invalid()
	if err := hc.WriteTo(rs, &ipv6.ControlMessage{HopLimit: 64}, allRouters); err != nil {
		impl.S("badhop").S("senderr")
	} else {
		ok, _ := answered(1200 * time.Millisecond)
		impl.S("badhop").B(ok).N(invalid() - inv0)
	}
	// nsol: a neighbor solicitation to all-routers never reaches the advertiser (ICMPv6 filter):
	// it is neither answered with an RA nor counted
	inv1 := invalid()
	nsol := &ndp.NeighborSolicitation{TargetAddress: hostIP.WithZone("")}
	if err := hc.WriteTo(nsol, nil, allRouters); err != nil {
		impl.S("nsol").S("senderr")
	} else {
		ok, _ := answered(700 * time.Millisecond)
		impl.S("nsol").B(ok).N(invalid() - inv1)
	}
	// fwd: the namespace's vf0 stops forwarding: the next solicited RA carries lifetime 0
	_ = os.WriteFile("/proc/sys/net/ipv6/conf/vf0/forwarding", []byte("0"), 0o644)
	if err := hc.WriteTo(rs, nil, allRouters); err != nil {
		impl.S("fwd").S("senderr")
	} else {
		lt := int64(-1)
		start := time.Now()
		for time.Since(start) < 3*time.Second {
			r := next(3*time.Second - time.Since(start))
			if r == nil {
				break
			}
			if !r.multicast {
				lt = int64(r.ra.RouterLifetime / time.Second)
				break
			}
		}
		impl.S("fwd").I(lt)
	}
	_ = os.WriteFile("/proc/sys/net/ipv6/conf/vf0/forwarding", []byte("1"), 0o644)
	// autoconf: while the advertiser holds its connection the interface's autoconfiguration is off
	impl.S("autoconf").S(ac0).S(autoconf())
	// relink: the link goes down (the watcher tells the advertiser, the task is torn down and
	// re-dialled with back-off while the interface is not ready) and comes back: the interface is
	// served again — a fresh initial multicast RA with the configured lifetime reaches the host
	if exec.Command("ip", "link", "set", "vf0", "down").Run() != nil {
		impl.S("relink").S("ip-failed")
	} else {
		time.Sleep(700 * time.Millisecond)
		for next(50*time.Millisecond) != nil { // drop what was in flight
		}
		downAutoconf := autoconf() // the connection is gone: the setting is put back meanwhile
		_ = exec.Command("ip", "link", "set", "vf0", "up").Run()
		got, lt := false, int64(-1)
		start := time.Now()
		for time.Since(start) < 8*time.Second {
			r := next(8*time.Second - time.Since(start))
			if r == nil {
				break
			}
			if r.multicast {
				got, lt = true, int64(r.ra.RouterLifetime/time.Second)
				break
			}
		}
		impl.S("relink").S(downAutoconf).B(got).I(lt)
	}
	// final: termination sends one multicast RA with lifetime 0 and Run returns nil
	cancel()
	finalSeen, after := false, 0
	deadline := time.Now().Add(4 * time.Second)
	for time.Now().Before(deadline) {
		r := next(time.Until(deadline))
		if r == nil {
			break
		}
		if finalSeen {
			after++
		}
		if r.multicast && r.ra.RouterLifetime == 0 {
			finalSeen = true
			deadline = time.Now().Add(700 * time.Millisecond) // anything after the final RA?
		}
	}
	res := "hung"
	select {
	case err := <-done:
		res = "nil"
		if err != nil {
			res = "err"
		}
	case <-time.After(3 * time.Second):
	}
	impl.S("final").B(finalSeen).N(after).S(res)
	// restored: after Run has returned the interface's autoconfiguration has its initial value
	impl.S("restored").S(autoconf())
	return impl.String(), ""
}

func nsHasLL(ifi *net.Interface) bool {
	addrs, err := ifi.Addrs()
	if err != nil || ifi.Flags&net.FlagUp == 0 {
		return false
	}
	for _, a := range addrs {
		if n, ok := a.(*net.IPNet); ok {
			if ip, ok := netip.AddrFromSlice(n.IP); ok && ip.Is6() && !ip.Is4In6() && ip.IsLinkLocalUnicast() {
				return true
			}
		}
	}
	return false
}
