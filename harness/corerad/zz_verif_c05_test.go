//go:build verif

package corerad

import (
	"fmt"
	"context"
	"math/rand"
	"net/netip"
	"sort"
	"testing"
	"testing/synctest"
	"time"

	"github.com/mdlayher/corerad/internal/config"
	"github.com/mdlayher/corerad/internal/vfh"
)

// scripted is a rand.Source that replays fixed values.
type vfScripted struct {
	vals []int64
	i    int
}

func (s *vfScripted) Int63() int64 {
	v := s.vals[s.i%len(s.vals)]
	s.i++
	return v
}
func (s *vfScripted) Seed(int64) {}

func vfUpperMin(max time.Duration) time.Duration {
	return time.Duration(0.75 * float64(max)).Truncate(time.Second)
}

func c05Direct(out *vfh.Out, i int, min, max time.Duration, draw int64) {
	src := &vfScripted{vals: []int64{draw}}
	c := new(vfh.Toks).S("md").N(i).I(int64(min)).I(int64(max)).I(draw).String()
	// "Choosing the wait never fails": a panic is an observation, not a crash of the harness.
	defer func() {
		if p := recover(); p != nil {
			out.Line(c, "panic")
		}
	}()
	d := multicastDelay(rand.New(src), i, min, max)
	out.Line(c, new(vfh.Toks).I(int64(d)).String())
}

func vfGenDraw(r *vfh.Rand, min, max time.Duration) int64 {
	rng := int64(max - min)
	if rng <= 0 {
		return 0
	}
	switch r.Intn(6) {
	case 0:
		return 0
	case 1:
		return rng - 1
	case 2: // near a half-second boundary of min+draw
		k := r.Range(0, rng/int64(time.Second))
		v := k*int64(time.Second) + int64(500*time.Millisecond) - int64(min)%int64(time.Second) + r.Range(-1, 1)
		if v < 0 {
			v = 0
		}
		if v >= rng {
			v = rng - 1
		}
		return v
	case 3: // near the 16 s cap
		v := int64(16*time.Second) - int64(min) + r.Range(-int64(time.Second), int64(time.Second))
		if v < 0 {
			v = 0
		}
		if v >= rng {
			v = rng - 1
		}
		return v
	default:
		return r.Int63n(rng)
	}
}

func verifC05(t *testing.T, r *vfh.Rand, out *vfh.Out) {
	idx := []int{0, 1, 2, 3, 4, 7, 1000}

	// (1) accepted (min,max) pairs, random and boundary; fractional values too.
	n := vfh.N(20000, 200000)
	for k := 0; k < n; k++ {
		var min, max time.Duration
		switch r.Intn(5) {
		case 0: // whole seconds
			max = time.Duration(r.Range(4, 1800)) * time.Second
		case 1: // boundaries
			max = vfh.Pick(r, []time.Duration{4 * time.Second, 5 * time.Second, 8 * time.Second, 9 * time.Second, 16 * time.Second, 17 * time.Second, 21 * time.Second, 22 * time.Second, 600 * time.Second, 1800 * time.Second})
		default: // fractional
			max = time.Duration(r.Range(int64(4*time.Second), int64(1800*time.Second)))
		}
		up := vfUpperMin(max)
		switch {
		case up < 3*time.Second || r.Chance(1, 6):
			min = max // only possible through the default when max < 9 s; harmless otherwise
			if max >= 9*time.Second {
				min = time.Duration(0.33 * float64(max)).Truncate(time.Second)
			}
		case r.Chance(1, 4):
			min = vfh.Pick(r, []time.Duration{3 * time.Second, up})
		case r.Bool():
			min = time.Duration(r.Range(3, int64(up/time.Second))) * time.Second
		default:
			min = time.Duration(r.Range(int64(3*time.Second), int64(up)))
		}
		c05Direct(out, vfh.Pick(r, idx), min, max, vfGenDraw(r, min, max))
	}

	// (2) min = max < 9 s (the default for small max), whole and fractional
	for s := int64(4 * time.Second); s < int64(9*time.Second); s += int64(250 * time.Millisecond) {
		for _, i := range idx {
			c05Direct(out, i, time.Duration(s), time.Duration(s), 0)
			c05Direct(out, i, time.Duration(s+1), time.Duration(s+1), 0)
			c05Direct(out, i, time.Duration(s-1), time.Duration(s-1), 0)
		}
	}

	// (3) thorough: every accepted whole-second (min,max) pair
	if vfh.Thorough() {
		for mx := int64(4); mx <= 1800; mx++ {
			max := time.Duration(mx) * time.Second
			up := int64(vfUpperMin(max) / time.Second)
			for mn := int64(3); mn <= up; mn++ {
				min := time.Duration(mn) * time.Second
				rng := int64(max - min)
				c05Direct(out, 0, min, max, 0)
				c05Direct(out, 2, min, max, rng-1)
				c05Direct(out, 3, min, max, 0)
				c05Direct(out, 3, min, max, rng-1)
				c05Direct(out, 7, min, max, r.Int63n(rng))
				c05Direct(out, 1, min, max, r.Int63n(rng))
			}
		}
	}

	// (4) the real multicast loop in virtual time, with the PRNG replicated from the
	// bubble's clock.
	runs := vfh.N(60, 600)
	for k := 0; k < runs; k++ {
		max := time.Duration(r.Range(4, 1800)) * time.Second
		if r.Chance(1, 4) {
			max = time.Duration(r.Range(int64(4*time.Second), int64(60*time.Second)))
		}
		up := vfUpperMin(max)
		min := max
		if up >= 3*time.Second {
			min = time.Duration(r.Range(int64(3*time.Second), int64(up)))
			if r.Bool() {
				min = min.Truncate(time.Second)
			}
		}
		waits := 20 + r.Intn(100)
		c05Loop(t, out, min, max, waits)
	}
	// a slow consumer
	for k := vfh.N(30, 400); k > 0; k-- {
		max := time.Duration(r.Range(4, 60)) * time.Second
		up := vfUpperMin(max)
		min := max
		if up >= 3*time.Second {
			min = time.Duration(r.Range(3, int64(up/time.Second))) * time.Second
		}
		waits := 6 + r.Intn(20)
		stall := time.Duration(r.Range(int64(time.Second), int64(3*max)))
		c05LoopStall(t, out, min, max, waits, r.Intn(waits-2), stall)
	}
}

func c05Loop(t *testing.T, out *vfh.Out, min, max time.Duration, waits int) {
	c05LoopStall(t, out, min, max, waits, -1, 0)
}

// c05LoopStall: as c05Loop, but the consumer of the requests is busy for `stall` before it takes the
// request that ends wait number stallIdx (the scheduler is slow to take a request off the channel):
// that one gap is max(wait, stall); every wait the loop chooses AFTERWARDS is again a full
// [Min, Max] wait — the loop does not try to "catch up".
func c05LoopStall(t *testing.T, out *vfh.Out, min, max time.Duration, waits, stallIdx int, stall time.Duration) {
	out.Pending(fmt.Sprintf("c05Loop min=%v max=%v waits=%d stallIdx=%d stall=%v", min, max, waits, stallIdx, stall))
	synctest.Test(t, func(t *testing.T) {
		a := NewAdvertiser(NewContext(nil, nil, nil), config.Interface{
			Name: "vf0", MinInterval: min, MaxInterval: max, Advertise: true,
		}, nil, nil, func() bool { return false })

		// Replicate the loop's PRNG: it is seeded from time.Now().UnixNano() when
		// multicast() starts, which inside the bubble is the bubble's current instant.
		seed := time.Now().UnixNano()
		prng := rand.New(rand.NewSource(seed))
		c := new(vfh.Toks).S("mloop")
		if stallIdx >= 0 {
			c = new(vfh.Toks).S("mstall").N(stallIdx).I(int64(stall))
		}
		c.I(int64(min)).I(int64(max)).N(waits)
		for i := 0; i < waits; i++ {
			var d int64
			if min != max {
				d = prng.Int63n(max.Nanoseconds() - min.Nanoseconds())
			}
			c.I(d)
		}

		ctx, cancel := context.WithCancel(context.Background())
		ipC := make(chan netip.Addr)
		done := make(chan struct{})
		go func() {
			defer close(done)
			a.multicast(ctx, ipC)
		}()

		impl := new(vfh.Toks).N(waits)
		last := time.Now()
		first := true
		got := 0
		for got < waits {
			if got == stallIdx && !first {
				time.Sleep(stall)
			}
			ip := <-ipC
			if ip != netip.IPv6LinkLocalAllNodes() {
				t.Fatalf("multicast loop requested %s", ip)
			}
			now := time.Now()
			if first {
				first = false
				if !now.Equal(last) {
					t.Fatalf("first request was delayed by %s", now.Sub(last))
				}
				continue
			}
			impl.I(int64(now.Sub(last)))
			last = now
			got++
		}
		cancel()
		// drain so that the loop can observe cancellation
		go func() {
			for range ipC {
			}
		}()
		<-done
		close(ipC)
		out.Line(c.String(), impl.String())
	})
}

// c05LoopLive: the multicast loop inside a whole running advertiser (Run → dial → multicast loop,
// scheduler, listener) while the router's circumstances change at run time: IPv6 forwarding on the
// interface is switched off and on, and hosts solicit by unicast (each answer is one more RA built
// from the then-current state).  None of this is a (re)initialisation of the interface: the gaps
// between consecutive unsolicited multicast RAs are still exactly the waits of ONE run — the first
// three capped at 16 s, every later one within [Min, Max].
//
//	mfw ntog { at } nsol { at host } min max n draws… | n gaps…
func c05LoopLive(t *testing.T, out *vfh.Out, min, max time.Duration, waits int, togs []time.Duration, sols []vfAdvEvent) {
	out.Pending(fmt.Sprintf("c05LoopLive min=%v max=%v waits=%d togs=%v sols=%+v", min, max, waits, togs, sols))
	synctest.Test(t, func(t *testing.T) {
		v := vfNewVfAdv(vfAdvConfig(min, max, false, 1800*time.Second), false, nil)
		seed := time.Now().UnixNano()
		prng := rand.New(rand.NewSource(seed))
		c := new(vfh.Toks).S("mfw").N(len(togs))
		for _, d := range togs {
			c.I(int64(d))
		}
		c.N(len(sols))
		for _, e := range sols {
			c.I(int64(e.t)).N(e.host)
		}
		c.I(int64(min)).I(int64(max)).N(waits)
		for i := 0; i < waits; i++ {
			var d int64
			if min != max {
				d = prng.Int63n(max.Nanoseconds() - min.Nanoseconds())
			}
			c.I(d)
		}
		ctx, cancel := context.WithCancel(context.Background())
		v.conn.t0 = time.Now()
		start := time.Now()
		done := make(chan error, 1)
		go func() { done <- v.a.Run(ctx) }()
		for _, d := range togs {
			go func() {
				time.Sleep(d)
				v.state.mu.Lock()
				v.state.forwarding = !v.state.forwarding
				v.state.mu.Unlock()
			}()
		}
		go func() {
			for _, e := range sols {
				if d := e.t - time.Since(start); d > 0 {
					time.Sleep(d)
				}
				if !v.conn.deliver(vfRead{m: vfAdvMessage(e), hop: 255, host: vfHosts[e.host].WithZone("vf0")}) {
					return
				}
			}
		}()
		time.Sleep(time.Duration(waits)*max + time.Second)
		cancel()
		select {
		case <-done:
		case <-time.After(10 * time.Minute):
			t.Log("advertiser did not return after cancellation")
		}
		time.Sleep(10 * time.Second)
		synctest.Wait()

		var at []time.Duration
		for _, w := range vfSortedWrites(v.conn.snapshot()) {
			if w.dst == vfAllNodes {
				at = append(at, w.begin)
			}
		}
		// the first `waits` gaps (the run lasted waits × max, so there are at least that many
		// unless the loop stopped requesting)
		impl := new(vfh.Toks)
		var gaps []int64
		// at[0] is the initial RA of the (re)initialised interface, sent by Run itself; the loop's
		// first request is made at the same instant and is transmitted MIN_DELAY_BETWEEN_RAS later
		// (at[1], the rate limit of C06); from then on — every wait being longer than twice that
		// delay in these scenarios — a request is transmitted at the instant it is made
		prev := time.Duration(0)
		for i := 2; i < len(at) && len(gaps) < waits; i++ {
			gaps = append(gaps, int64(at[i]-prev))
			prev = at[i]
		}
		impl.N(len(gaps))
		for _, g := range gaps {
			impl.I(g)
		}
		out.Line(c.String(), impl.String())
		out.Flush()
	})
}

func verifC05Live(t *testing.T, r *vfh.Rand, out *vfh.Out) {
	for k := vfh.N(60, 800); k > 0; k-- {
		max := time.Duration(r.Range(10, 90)) * time.Second
		if r.Chance(1, 5) {
			max = time.Duration(r.Range(90, 1800)) * time.Second
		}
		min := time.Duration(r.Range(7, int64(vfUpperMin(max)/time.Second))) * time.Second
		waits := 5 + r.Intn(12)
		span := int64(time.Duration(waits) * min)
		var togs []time.Duration
		for j := r.Intn(5); j > 0; j-- {
			togs = append(togs, time.Duration(r.Range(int64(time.Second), span))|1)
		}
		sort.Slice(togs, func(i, j int) bool { return togs[i] < togs[j] })
		var sols []vfAdvEvent
		for j := r.Intn(6); j > 0; j-- {
			sols = append(sols, vfAdvEvent{t: time.Duration(r.Range(int64(time.Second), span)) | 1, hop: 255, host: 1 + r.Intn(len(vfHosts)-1)})
		}
		// a solicitation shortly after a toggle: the answer is the first RA built from the new state
		for _, d := range togs {
			if r.Bool() {
				sols = append(sols, vfAdvEvent{t: (d + time.Duration(r.Range(2, int64(2*time.Second)))) | 1, hop: 255, host: 1 + r.Intn(len(vfHosts)-1)})
			}
		}
		sort.Slice(sols, func(i, j int) bool { return sols[i].t < sols[j].t })
		for i := 1; i < len(sols); i++ {
			if sols[i].t <= sols[i-1].t {
				sols[i].t = sols[i-1].t + 2
			}
		}
		c05LoopLive(t, out, min, max, waits, togs, sols)
	}
}
