//go:build verif

package corerad

import (
	"io/fs"
	"fmt"
	"context"
	"errors"
	"net"
	"net/netip"
	"os"
	"syscall"
	"testing"
	"testing/synctest"
	"time"

	"github.com/mdlayher/corerad/internal/config"
	"github.com/mdlayher/corerad/internal/netstate"
	"github.com/mdlayher/corerad/internal/system"
	"github.com/mdlayher/corerad/internal/vfh"
	"github.com/mdlayher/metricslite"
)

// fault kinds injected into a running advertiser / monitor
const (
	fReadErr = iota
	fReadSyscall
	fTimeouts
	fWriteErr
	fWriteSyscall
	fLinkChange
	fCancel
	fHandlerErr
	fInitWriteSyscall // the initial multicast RA of the first connection fails with a system-call error
	fInitWriteErr     // … with another error
	fHandlerPathErr   // the system state fails with *fs.PathError{ENOENT} (the interface's sysctl files are gone)
)

// runGroup injects one fault into a running task and observes how the whole task reacts:
// does Run return (with what), or is the interface re-dialled, how long does it take, and is
// the old connection still used afterwards.
func vfRunGroup(t *testing.T, out *vfh.Out, monitor, unicastOnly bool, kind int, tf time.Duration) {
	out.Pending(fmt.Sprintf("runGroup monitor=%v unicastOnly=%v fault=%d at=%v", monitor, unicastOnly, kind, tf))
	synctest.Test(t, func(t *testing.T) {
		st := &vfState{forwarding: true}
		cfg := vfAdvConfig(200*time.Second, 600*time.Second, unicastOnly, 1800*time.Second)
		mm := NewMetrics(metricslite.NewMemory(), "v", time.Time{}, st, []config.Interface{cfg})
		cctx := NewContext(nil, mm, st)
		watchC := make(chan netstate.Change, 8)
		var conns []*vfConn
		var dialAt []time.Duration
		start := time.Now()
		mode := system.Advertise
		if monitor {
			mode = system.Monitor
		}
		d := system.NewDialer("vf0", st, mode, nil)
		d.DialFunc = func() (*system.DialContext, error) {
			c := vfNewVfConn()
			c.t0 = start
			if len(conns) == 0 && (kind == fInitWriteSyscall || kind == fInitWriteErr) {
				c.writeErr = func(k int, _ netip.Addr) error {
					if k != 0 {
						return nil
					}
					if kind == fInitWriteSyscall {
						return &os.SyscallError{Syscall: "sendmsg", Err: syscall.ENETDOWN}
					}
					return errors.New("scripted write error")
				}
			}
			conns = append(conns, c)
			dialAt = append(dialAt, time.Since(start))
			return &system.DialContext{Conn: c,
				Interface: &net.Interface{Index: 1, Name: "vf0", HardwareAddr: net.HardwareAddr{2, 0, 0, 0, 0, 1}},
				IP:        netip.MustParseAddr("fe80::1")}, nil
		}
		var run func(ctx context.Context) error
		if monitor {
			run = NewMonitor(cctx, "vf0", d, watchC, false).Run
		} else {
			run = NewAdvertiser(cctx, cfg, d, watchC, func() bool { return false }).Run
		}
		ctx, cancel := context.WithCancel(context.Background())
		done := make(chan error, 1)
		go func() { done <- run(ctx) }()
		synctest.Wait()

		time.Sleep(tf)
		c0 := conns[0]
		sysErr := &os.SyscallError{Syscall: "recvmsg", Err: syscall.ENETDOWN}
		faultAt := time.Since(start)
		if kind == fInitWriteSyscall || kind == fInitWriteErr {
			faultAt = 0
		}
		switch kind {
		case fReadErr:
			c0.deliver(vfRead{err: errors.New("scripted read error")})
		case fReadSyscall:
			c0.deliver(vfRead{err: sysErr})
		case fTimeouts:
			for i := 0; i < 5; i++ {
				if !c0.deliver(vfRead{err: vfTimeout{}}) {
					break
				}
			}
		case fWriteErr, fWriteSyscall:
			c0.mu.Lock()
			n := c0.nWrites
			c0.writeErr = func(k int, _ netip.Addr) error {
				if k >= n {
					if kind == fWriteSyscall {
						return &os.SyscallError{Syscall: "sendmsg", Err: syscall.ENETDOWN}
					}
					return errors.New("scripted write error")
				}
				return nil
			}
			c0.mu.Unlock()
			c0.deliver(vfRead{m: vfAdvMessage(vfAdvEvent{kind: 0, host: 1}), hop: 255, host: vfHosts[1].WithZone("vf0")})
		case fLinkChange:
			watchC <- netstate.LinkDown
		case fCancel:
			cancel()
		case fHandlerErr, fHandlerPathErr:
			st.mu.Lock()
			st.err = errors.New("scripted state error")
			if kind == fHandlerPathErr {
				// transient: with the failure persisting while dialling succeeds, every re-dial
				// would fail in its initial transmission at once — a loop that virtual time
				// cannot leave (each init() starts its back-off at zero)
				st.err, st.errOnce = &fs.PathError{Op: "open", Path: "/proc/sys/net/ipv6/conf/vf0/forwarding", Err: syscall.ENOENT}, true
			}
			st.mu.Unlock()
			c0.deliver(vfRead{m: vfAdvMessage(vfAdvEvent{kind: 1}), hop: 255, host: vfHosts[1].WithZone("vf0")})
		}
		synctest.Wait()

		// observe for up to 5 virtual seconds
		outcome, at := "running", time.Duration(0)
		deadline := time.After(5 * time.Second)
	wait:
		for {
			select {
			case err := <-done:
				at = time.Since(start)
				if err != nil {
					outcome = "error"
				} else {
					outcome = "nil"
				}
				break wait
			case <-deadline:
				break wait
			case <-time.After(time.Millisecond):
				if len(conns) > 1 {
					outcome, at = "redial", dialAt[1]
					break wait
				}
			}
		}
		// anything still using the old connection one second later?
		time.Sleep(time.Second)
		synctest.Wait()
		c0.mu.Lock()
		oldUse := 0
		for _, rc := range c0.readCalls {
			if outcome != "running" && rc > at {
				oldUse++
			}
		}
		for _, w := range c0.writes {
			if outcome != "running" && w.begin > at {
				oldUse++
			}
		}
		c0.mu.Unlock()
		st.mu.Lock()
		st.err = nil
		st.mu.Unlock()
		cancel()
		final := "nil"
		if outcome == "running" || outcome == "redial" {
			select {
			case err := <-done:
				if err != nil {
					final = "error"
				}
			case <-time.After(10 * time.Minute):
				final = "hung"
			}
		}
		c := new(vfh.Toks).S("grp").B(monitor).B(unicastOnly).N(kind).I(int64(tf))
		impl := new(vfh.Toks).S(outcome).I(int64(at - faultAt)).N(oldUse).S(final)
		out.Line(c.String(), impl.String())
		out.Flush()
	})
}

func verifC10Group(t *testing.T, r *vfh.Rand, out *vfh.Out) {
	// every fault kind x injection instants (before / between / after the first periodic RA) x task kind
	instants := []time.Duration{1, 500*time.Millisecond + 1, 2999*time.Millisecond + 1, 3*time.Second + 1, 3500*time.Millisecond + 1, 20*time.Second + 1, 601*time.Second + 1}
	for _, mon := range []bool{false, true} {
		for kind := fReadErr; kind <= fHandlerErr; kind++ {
			if mon && (kind == fWriteErr || kind == fWriteSyscall || kind == fHandlerErr) {
				continue // a monitor transmits nothing and its handler cannot fail
			}
			for _, tf := range instants {
				vfRunGroup(t, out, mon, false, kind, tf)
				if !mon {
					vfRunGroup(t, out, false, true, kind, tf)
				}
			}
		}
	}
	for _, kind := range []int{fInitWriteSyscall, fInitWriteErr} {
		vfRunGroup(t, out, false, false, kind, 1) // (a unicast-only advertiser makes no initial transmission)
	}
	for _, tf := range instants {
		vfRunGroup(t, out, false, false, fHandlerPathErr, tf)
		vfRunGroup(t, out, false, true, fHandlerPathErr, tf)
	}
	n := vfh.N(200, 5000)
	for i := 0; i < n; i++ {
		mon := r.Chance(1, 3)
		kind := r.Intn(fHandlerErr + 1)
		if mon && (kind == fWriteErr || kind == fWriteSyscall || kind == fHandlerErr) {
			kind = fReadErr
		}
		vfRunGroup(t, out, mon, !mon && r.Chance(1, 4), kind, time.Duration(r.Range(1, int64(700*time.Second)))|1)
	}
}

// runGroupQ: a transmission fails while another one is in flight (latency lat), so the scheduler
// stops consuming requests although the task's context is not cancelled yet, and a burst of n
// solicitations arrives meanwhile. The task must still be torn down once the transmission in
// flight has completed (F-17: with a bare `ipC <- ip` the listener blocks in its 17th send).
func vfRunGroupQ(t *testing.T, out *vfh.Out, unicastOnly, sys bool, tf, lat time.Duration, n int) {
	out.Pending(fmt.Sprintf("runGroupQ unicastOnly=%v sys=%v at=%v inflight=%v burst=%d", unicastOnly, sys, tf, lat, n))
	synctest.Test(t, func(t *testing.T) {
		st := &vfState{forwarding: true}
		cfg := vfAdvConfig(200*time.Second, 600*time.Second, unicastOnly, 1800*time.Second)
		mm := NewMetrics(metricslite.NewMemory(), "v", time.Time{}, st, []config.Interface{cfg})
		cctx := NewContext(nil, mm, st)
		watchC := make(chan netstate.Change, 8)
		var conns []*vfConn
		var dialAt []time.Duration
		start := time.Now()
		d := system.NewDialer("vf0", st, system.Advertise, nil)
		d.DialFunc = func() (*system.DialContext, error) {
			c := vfNewVfConn()
			c.t0 = start
			conns = append(conns, c)
			dialAt = append(dialAt, time.Since(start))
			return &system.DialContext{Conn: c,
				Interface: &net.Interface{Index: 1, Name: "vf0", HardwareAddr: net.HardwareAddr{2, 0, 0, 0, 0, 1}},
				IP:        netip.MustParseAddr("fe80::1")}, nil
		}
		run := NewAdvertiser(cctx, cfg, d, watchC, func() bool { return false }).Run
		ctx, cancel := context.WithCancel(context.Background())
		done := make(chan error, 1)
		var retAt time.Duration // instant Run returned (read after receiving from done)
		go func() {
			err := run(ctx)
			retAt = time.Since(start)
			done <- err
		}()
		synctest.Wait()

		time.Sleep(tf)
		c0 := conns[0]
		hostA, hostB, hostC := vfHosts[1].WithZone("vf0"), vfHosts[2].WithZone("vf0"), vfHosts[4].WithZone("vf0")
		faultAt := time.Since(start)
		c0.mu.Lock()
		c0.latency = func(_ int, dst netip.Addr) time.Duration {
			if dst.WithZone("") == hostA.WithZone("") {
				return lat
			}
			return 0
		}
		c0.writeErr = func(_ int, dst netip.Addr) error {
			if dst.WithZone("") != hostB.WithZone("") {
				return nil
			}
			if sys {
				return &os.SyscallError{Syscall: "sendmsg", Err: syscall.ENETDOWN}
			}
			return errors.New("scripted write error")
		}
		c0.mu.Unlock()
		rs := func(h netip.Addr) bool {
			return c0.deliver(vfRead{m: vfAdvMessage(vfAdvEvent{kind: 0, host: 1}), hop: 255, host: h})
		}
		rs(hostA) // answered within 500 ms; its transmission takes lat
		time.Sleep(600 * time.Millisecond)
		rs(hostB) // answered within 500 ms; its transmission fails while A's is in flight
		time.Sleep(550 * time.Millisecond)
		delivered := 0
		for j := 0; j < n; j++ {
			if !rs(hostC) {
				break
			}
			delivered++
		}
		synctest.Wait()

		outcome, at := "running", time.Duration(0)
		deadline := time.After(lat + 5*time.Second)
	wait:
		for {
			select {
			case err := <-done:
				at = retAt
				if err != nil {
					outcome = "error"
				} else {
					outcome = "nil"
				}
				break wait
			case <-deadline:
				break wait
			case <-time.After(time.Millisecond):
				if len(conns) > 1 {
					outcome, at = "redial", dialAt[1]
					break wait
				}
			}
		}
		time.Sleep(time.Second)
		synctest.Wait()
		c0.mu.Lock()
		oldUse := 0
		for _, rc := range c0.readCalls {
			if outcome != "running" && rc > at {
				oldUse++
			}
		}
		for _, w := range c0.writes {
			if outcome != "running" && w.begin > at {
				oldUse++
			}
		}
		c0.mu.Unlock()
		// solicitations of the previous incarnation answered by the re-established one: nothing was
		// delivered to the later connections, so every unicast RA written on them answers a request
		// that was due (if at all) before the interface was re-initialised (C07)
		stale := 0
		for _, cn := range conns[1:] {
			for _, w := range cn.snapshot() {
				if w.dst != vfAllNodes {
					stale++
				}
			}
		}
		cancel()
		final := "nil"
		if outcome == "running" || outcome == "redial" {
			select {
			case err := <-done:
				if err != nil {
					final = "error"
				}
			case <-time.After(10 * time.Minute):
				final = "hung"
			}
		}
		if os.Getenv("VERIF_DEBUG") != "" {
			for _, w := range c0.snapshot() {
				t.Logf("write begin=%v end=%v dst=%v failed=%v", w.begin, w.end, w.dst, w.failed)
			}
			t.Logf("hostA=%v hostB=%v outcome=%s", hostA, hostB, outcome)
		}
		c := new(vfh.Toks).S("grpq").B(unicastOnly).B(sys).I(int64(tf)).I(int64(lat)).N(n)
		impl := new(vfh.Toks).S(outcome).I(int64(at - faultAt)).N(oldUse).S(final).N(delivered).N(stale)
		out.Line(c.String(), impl.String())
		out.Flush()
	})
}

func verifC10GroupQ(t *testing.T, r *vfh.Rand, out *vfh.Out) {
	// bursts below, at and above the capacity of the request channel (16); the runs that can
	// leave goroutines blocked for ever (and so end the test binary) come last
	for _, n := range []int{0, 1, 15, 16, 17, 18, 40} {
		for _, sys := range []bool{false, true} {
			for _, uo := range []bool{false, true} {
				vfRunGroupQ(t, out, uo, sys, 700*time.Millisecond+1, 2*time.Second, n)
			}
		}
	}
	k := vfh.N(12, 300)
	for i := 0; i < k; i++ {
		vfRunGroupQ(t, out, r.Chance(1, 4), r.Bool(), time.Duration(r.Range(1, int64(30*time.Second)))|1,
			time.Duration(r.Range(int64(2*time.Second), int64(20*time.Second))), r.Intn(60))
	}
}
