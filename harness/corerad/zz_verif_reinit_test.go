//go:build verif

package corerad

import (
	"context"
	"errors"
	"fmt"
	"net"
	"net/netip"
	"sort"
	"sync"
	"testing"
	"testing/synctest"
	"time"

	"github.com/mdlayher/corerad/internal/config"
	"github.com/mdlayher/corerad/internal/netstate"
	"github.com/mdlayher/corerad/internal/plugin"
	"github.com/mdlayher/corerad/internal/system"
	"github.com/mdlayher/corerad/internal/vfh"
	"github.com/mdlayher/metricslite"
	"github.com/mdlayher/ndp"
)

// runReinit: "from the initial advertisement of a (re)initialised interface": a link-state change at
// tf makes the dialer re-establish the interface inside one Run; the multicast RAs on the second
// connection must be spaced like those of a fresh start — the initial RA at once, the next one
// MIN_DELAY_BETWEEN_RAS later — whatever the previous connection's scheduler had in mind.
//
//	rein tf window | redialled n t…      (instants of multicast writes on the 2nd connection, from its creation)
func vfRunReinit(t *testing.T, out *vfh.Out, tf, window time.Duration) {
	vfRunReinitOutage(t, out, tf, window, 0)
}

// vfRunReinitOutage: as runReinit, but the interface stays unusable for `outage` after the link-state
// change (every dial in that time finds the link not ready; the dialer retries with back-off): the
// outage may outlast whatever the previous incarnation's multicast loop was waiting for.
//
//	reino tf window outage | redialled n t…
func vfRunReinitOutage(t *testing.T, out *vfh.Out, tf, window, outage time.Duration) {
	out.Pending(fmt.Sprintf("runReinit linkDownAt=%v window=%v outage=%v", tf, window, outage))
	// K-2 (a timer of mdlayher/schedgroup armed late, about once in 500 scenarios, typically the
	// very first one after a start) shows here as a second RA that is late or missing: such a run
	// is repeated, up to twice; a defect of corerad shows every time
	for attempt := 0; ; attempt++ {
		line, late := vfRunReinitOnce(t, tf, window, outage)
		if !late || attempt == 2 {
			if outage > 0 {
				out.Line(new(vfh.Toks).S("reino").I(int64(tf)).I(int64(window)).I(int64(outage)).String(), line)
			} else {
				out.Line(new(vfh.Toks).S(vfReinOp).I(int64(tf)).I(int64(window)).String(), line)
			}
			out.Flush()
			return
		}
	}
}

func vfRunReinitOnce(t *testing.T, tf, window, outage time.Duration) (line string, late bool) {
	synctest.Test(t, func(t *testing.T) {
		st := &vfState{forwarding: true}
		cfg := vfAdvConfig(200*time.Second, 600*time.Second, false, 1800*time.Second)
		mm := NewMetrics(metricslite.NewMemory(), "v", time.Time{}, st, []config.Interface{cfg})
		cctx := NewContext(nil, mm, st)
		watchC := make(chan netstate.Change, 8)
		var mu sync.Mutex
		var conns []*vfConn
		d := system.NewDialer("vf0", st, system.Advertise, nil)
		var downAt time.Time
		d.DialFunc = func() (*system.DialContext, error) {
			mu.Lock()
			n, da := len(conns), downAt
			mu.Unlock()
			if n >= 1 && outage > 0 && time.Since(da) < outage {
				return nil, system.ErrLinkNotReady
			}
			c := vfNewVfConn()
			mu.Lock()
			conns = append(conns, c)
			mu.Unlock()
			return &system.DialContext{Conn: c,
				Interface: &net.Interface{Index: 1, Name: "vf0", HardwareAddr: net.HardwareAddr{2, 0, 0, 0, 0, 1}},
				IP:        netip.MustParseAddr("fe80::1")}, nil
		}
		a := NewAdvertiser(cctx, cfg, d, watchC, func() bool { return false })
		ctx, cancel := context.WithCancel(context.Background())
		done := make(chan error, 1)
		go func() { done <- a.Run(ctx) }()
		synctest.Wait()
		time.Sleep(tf)
		mu.Lock()
		downAt = time.Now()
		mu.Unlock()
		watchC <- netstate.LinkDown
		synctest.Wait()
		time.Sleep(outage + 4*time.Second) // the dialer's back-off step is at most 3 s
		time.Sleep(window)
		synctest.Wait()
		impl := new(vfh.Toks)
		mu.Lock()
		n := len(conns)
		mu.Unlock()
		if n < 2 {
			impl.B(false).N(0)
		} else {
			var ts []time.Duration
			for _, w := range conns[1].snapshot() {
				if w.dst == vfAllNodes && w.begin < window {
					ts = append(ts, w.begin)
				}
			}
			impl.B(true).N(len(ts))
			for _, x := range ts {
				impl.I(int64(x))
			}
			late = (len(ts) == 1 && ts[0] == 0) || (len(ts) == 2 && ts[0] == 0 && ts[1] > minDelayBetweenRAs)
		}
		cancel()
		select {
		case <-done:
		case <-time.After(10 * time.Minute):
		}
		line = impl.String()
	})
	return line, late
}

// runReinitLLA: the interface is re-established inside one Run (a link-state change every tf);
// every dial finds it with the given index and hardware address.  Observed: the source link-layer
// address option (its last byte; 0 = no option) of the first RA written on every connection.
//
//	reinlla tf nd (idx mac)* | nconn lla*
type vfReinDial struct{ idx, mac int }

func vfRunReinitLLA(t *testing.T, out *vfh.Out, tf time.Duration, dials []vfReinDial) {
	out.Pending(fmt.Sprintf("runReinitLLA every=%v dials=%+v", tf, dials))
	synctest.Test(t, func(t *testing.T) {
		st := &vfState{forwarding: true}
		cfg := vfAdvConfig(200*time.Second, 600*time.Second, false, 1800*time.Second)
		// a plugin that, like the `::/64`, `::/0` and `::` wildcards, binds its source of system state to
		// the interface it is PREPARED for (the wildcards capture ifi.Index for their rtnetlink dumps):
		// what it contributes to an RA tells which interface index it was last prepared with
		cfg.Plugins = append(cfg.Plugins, &vfIdxPlugin{})
		mm := NewMetrics(metricslite.NewMemory(), "v", time.Time{}, st, []config.Interface{cfg})
		cctx := NewContext(nil, mm, st)
		watchC := make(chan netstate.Change, 8)
		var mu sync.Mutex
		var conns []*vfConn
		d := system.NewDialer("vf0", st, system.Advertise, nil)
		d.DialFunc = func() (*system.DialContext, error) {
			c := vfNewVfConn()
			mu.Lock()
			k := len(conns)
			conns = append(conns, c)
			mu.Unlock()
			if k >= len(dials) {
				k = len(dials) - 1
			}
			var hw net.HardwareAddr
			if dials[k].mac != 0 {
				hw = net.HardwareAddr{2, 0, 0, 0, 0, byte(dials[k].mac)}
			}
			return &system.DialContext{Conn: c,
				Interface: &net.Interface{Index: dials[k].idx, Name: "vf0", HardwareAddr: hw},
				IP:        netip.MustParseAddr("fe80::1")}, nil
		}
		a := NewAdvertiser(cctx, cfg, d, watchC, func() bool { return false })
		ctx, cancel := context.WithCancel(context.Background())
		done := make(chan error, 1)
		go func() { done <- a.Run(ctx) }()
		synctest.Wait()
		for k := 1; k < len(dials); k++ {
			time.Sleep(tf)
			watchC <- netstate.LinkDown
			synctest.Wait()
		}
		time.Sleep(time.Second)
		synctest.Wait()
		mu.Lock()
		cs := append([]*vfConn(nil), conns...)
		mu.Unlock()
		impl := new(vfh.Toks).N(len(cs))
		implIdx := new(vfh.Toks).N(len(cs))
		for _, c := range cs {
			lla, idx := 0, 0
			if ws := c.snapshot(); len(ws) > 0 && ws[0].ra != nil {
				for _, o := range ws[0].ra.Options {
					if l, ok := o.(*ndp.LinkLayerAddress); ok && l.Direction == ndp.Source && len(l.Addr) == 6 {
						lla = int(l.Addr[5])
					}
					if pi, ok := o.(*ndp.PrefixInformation); ok {
						if b := pi.Prefix.As16(); b[0] == 0xfd && b[1] == 0x1d {
							idx = int(b[6])<<8 | int(b[7])
						}
					}
				}
			} else {
				lla, idx = 255, 65535 // nothing was sent on this connection
			}
			impl.N(lla)
			implIdx.N(idx)
		}
		cancel()
		select {
		case <-done:
		case <-time.After(10 * time.Minute):
		}
		c := new(vfh.Toks).S("reinlla").I(int64(tf)).N(len(dials))
		for _, dl := range dials {
			c.N(dl.idx).N(dl.mac)
		}
		out.Line(c.String(), impl.String())
		ci := new(vfh.Toks).S("reinidx").I(int64(tf)).N(len(dials))
		for _, dl := range dials {
			ci.N(dl.idx).N(dl.mac)
		}
		out.Line(ci.String(), implIdx.String())
		out.Flush()
	})
}

// vfIdxPlugin: contributes the prefix fd1d:0:0:<index>::/64 for the interface index it was last
// prepared with (0 before any Prepare).
type vfIdxPlugin struct {
	mu  sync.Mutex
	idx int
}

func (*vfIdxPlugin) Name() string     { return "vf-index" }
func (p *vfIdxPlugin) String() string { return "vf-index" }
func (p *vfIdxPlugin) Prepare(ifi *net.Interface) error {
	p.mu.Lock()
	p.idx = ifi.Index
	p.mu.Unlock()
	return nil
}
func (p *vfIdxPlugin) Apply(ra *ndp.RouterAdvertisement) error {
	p.mu.Lock()
	idx := p.idx
	p.mu.Unlock()
	a := [16]byte{0: 0xfd, 1: 0x1d, 6: byte(idx >> 8), 7: byte(idx)}
	ra.Options = append(ra.Options, &ndp.PrefixInformation{PrefixLength: 64, OnLink: true,
		ValidLifetime: time.Hour, PreferredLifetime: time.Hour, Prefix: netip.AddrFrom16(a)})
	return nil
}

// verifReinitState: what a (re)initialisation reads of the system (the hardware address behind the
// source link-layer address option) is read at EVERY (re)initialisation (C01).
func verifReinitState(t *testing.T, r *vfh.Rand, out *vfh.Out) {
	fixed := [][]vfReinDial{
		{{1, 1}, {1, 2}},         // same index, the hardware address changed
		{{1, 1}, {1, 0}},         // … disappeared
		{{1, 0}, {1, 3}},         // … appeared
		{{1, 1}, {7, 2}},         // the interface was re-created
		{{1, 1}, {1, 1}},         // nothing changed
		{{1, 1}, {1, 1}, {1, 4}}, // changed at the second re-initialisation only
		{{1, 1}, {2, 2}, {1, 3}},
	}
	for _, ds := range fixed {
		vfRunReinitLLA(t, out, 5*time.Second+1, ds)
	}
	for i := vfh.N(12, 200); i > 0; i-- {
		n := 2 + r.Intn(3)
		ds := make([]vfReinDial, n)
		for k := range ds {
			ds[k] = vfReinDial{idx: 1 + r.Intn(2), mac: r.Intn(5)}
		}
		vfRunReinitLLA(t, out, time.Duration(r.Range(int64(time.Second), int64(20*time.Second)))|1, ds)
	}
}

// runLinkFlap: a flapping link. The link drops at tf; while the interface is being re-established
// the link drops again — the notification is queued on the task's channel during dial number
// 2 … k+1, i.e. before the new incarnation's watcher has started.  Every link-state change must tear
// the task down (C10): k+2 connections are opened, the last one keeps serving, the others are not
// used any more.  monitor = the same for a monitoring task.
//
//	flap monitor tf k | dials oldUse served
func vfRunLinkFlap(t *testing.T, out *vfh.Out, monitor bool, tf time.Duration, k int) {
	out.Pending(fmt.Sprintf("runLinkFlap monitor=%v linkDownAt=%v queuedDuringDials=%d", monitor, tf, k))
	synctest.Test(t, func(t *testing.T) {
		st := &vfState{forwarding: true}
		cfg := vfAdvConfig(200*time.Second, 600*time.Second, false, 1800*time.Second)
		mode := system.Advertise
		if monitor {
			cfg.Advertise, cfg.Monitor = false, true
			mode = system.Monitor
		}
		mm := NewMetrics(metricslite.NewMemory(), "v", time.Time{}, st, []config.Interface{cfg})
		cctx := NewContext(nil, mm, st)
		watchC := make(chan netstate.Change, 8)
		var mu sync.Mutex
		var conns []*vfConn
		start := time.Now()
		d := system.NewDialer("vf0", st, mode, nil)
		d.DialFunc = func() (*system.DialContext, error) {
			c := vfNewVfConn()
			c.t0 = start
			mu.Lock()
			n := len(conns)
			conns = append(conns, c)
			mu.Unlock()
			if monitor && n >= 1 && n <= k {
				// a monitoring task has no plugins to prepare: the link drops again at the very end
				// of the dial (the socket is open, the readiness test is behind us)
				watchC <- netstate.LinkDown
			}
			return &system.DialContext{Conn: c,
				Interface: &net.Interface{Index: 1, Name: "vf0", HardwareAddr: net.HardwareAddr{2, 0, 0, 0, 0, 1}},
				IP:        netip.MustParseAddr("fe80::1")}, nil
		}
		// for an advertising task the link drops again AFTER the dial has returned and before the new
		// incarnation watches the channel: while Run prepares the plugins for the new connection
		nPrep := 0
		cfg.Plugins = append(cfg.Plugins, &vfHookPlugin{prepare: func() {
			nPrep++
			if nPrep >= 2 && nPrep <= k+1 {
				watchC <- netstate.LinkDown
			}
		}})
		var run func(context.Context) error
		if monitor {
			run = NewMonitor(cctx, "vf0", d, watchC, false).Run
		} else {
			run = NewAdvertiser(cctx, cfg, d, watchC, func() bool { return false }).Run
		}
		ctx, cancel := context.WithCancel(context.Background())
		done := make(chan error, 1)
		go func() { done <- run(ctx) }()
		synctest.Wait()
		time.Sleep(tf)
		watchC <- netstate.LinkDown
		synctest.Wait()
		time.Sleep(time.Duration(k+2) * 5 * time.Second)
		synctest.Wait()
		mu.Lock()
		cs := append([]*vfConn(nil), conns...)
		mu.Unlock()
		// the last connection serves (a message handed to it is read); the earlier ones are left
		// alone (a message handed to them finds no reader)
		oldUse, served := 0, false
		msg := vfRead{m: vfAdvMessage(vfAdvEvent{kind: 0, host: 1}), hop: 255, host: vfHosts[1].WithZone("vf0")}
		for i, c := range cs {
			if i == len(cs)-1 {
				served = c.deliver(msg)
			} else if c.deliver(msg) {
				oldUse++
			}
		}
		synctest.Wait()
		cancel()
		select {
		case <-done:
		case <-time.After(10 * time.Minute):
		}
		out.Line(new(vfh.Toks).S("flap").B(monitor).I(int64(tf)).N(k).String(),
			new(vfh.Toks).N(len(cs)).N(oldUse).B(served).String())
		out.Flush()
	})
}

// hookPlugin adds nothing to the RA; its Prepare runs a hook (Prepare is called by Advertiser.Run
// for every established connection, right before the incarnation's goroutines are started).
type vfHookPlugin struct{ prepare func() }

func (*vfHookPlugin) Name() string   { return "verif-hook" }
func (*vfHookPlugin) String() string { return "verif-hook" }
func (p *vfHookPlugin) Prepare(*net.Interface) error {
	p.prepare()
	return nil
}
func (*vfHookPlugin) Apply(*ndp.RouterAdvertisement) error { return nil }

// runAdvCountdown (C16): a deprecated prefix and a deprecated route inside a running advertiser.  EVERY
// RA it transmits — initial, periodic, solicited, and the final one on termination — advertises the
// time remaining at the moment that RA is built.  One `pl` and one `rl` case line per run: the
// instants of the transmissions (virtual time) and the lifetimes each carried.
func vfRunAdvCountdown(t *testing.T, out *vfh.Out, V, P, L, age, stop time.Duration, solicitAt []time.Duration) {
	out.Pending(fmt.Sprintf("runAdvCountdown V=%v P=%v L=%v age=%v stop=%v solicit=%v", V, P, L, age, stop, solicitAt))
	synctest.Test(t, func(t *testing.T) {
		epoch := time.Now().Add(-age)
		cfg := vfAdvConfig(4*time.Second, 4*time.Second, false, 1800*time.Second)
		cfg.Plugins = []plugin.Plugin{
			&plugin.Prefix{Prefix: netip.MustParsePrefix("2001:db8:dead::/64"), OnLink: true, Autonomous: true,
				ValidLifetime: V, PreferredLifetime: P, Deprecated: true, Epoch: epoch},
			&plugin.Route{Prefix: netip.MustParsePrefix("2001:db8:beef::/48"), Preference: ndp.Medium, Lifetime: L, Deprecated: true, Epoch: epoch},
		}
		v := vfNewVfAdv(cfg, true, nil)
		// the connection stamps every write with the wall clock of the bubble
		ctx, cancel := context.WithCancel(context.Background())
		start := time.Now()
		v.conn.t0 = start
		done := make(chan error, 1)
		go func() { done <- v.a.Run(ctx) }()
		synctest.Wait()
		for _, at := range solicitAt {
			if d := at - time.Since(start); d > 0 {
				time.Sleep(d)
			}
			v.conn.deliver(vfRead{m: vfAdvMessage(vfAdvEvent{kind: 0, host: 1}), hop: 255, host: vfHosts[1].WithZone("vf0")})
			synctest.Wait()
		}
		if d := stop - time.Since(start); d > 0 {
			time.Sleep(d)
		}
		cancel()
		select {
		case <-done:
		case <-time.After(10 * time.Minute):
		}
		synctest.Wait()
		ws := v.conn.snapshot()
		e := epoch.UnixNano()
		pc := new(vfh.Toks).S("pl").B(true).I(e).I(int64(V)).I(int64(P)).I(0).N(len(ws))
		rc := new(vfh.Toks).S("rl").B(true).I(e).I(int64(L)).I(0).N(len(ws))
		pi, ri := new(vfh.Toks), new(vfh.Toks)
		for _, w := range ws {
			at := start.Add(w.begin).UnixNano()
			pc.I(at)
			rc.I(at)
			pv, pp, rl := int64(-1), int64(-1), int64(-1)
			if w.ra != nil {
				for _, o := range w.ra.Options {
					switch o := o.(type) {
					case *ndp.PrefixInformation:
						pv, pp = int64(o.ValidLifetime), int64(o.PreferredLifetime)
					case *ndp.RouteInformation:
						rl = int64(o.RouteLifetime)
					}
				}
			}
			pi.I(pv).I(pp).N(1)
			ri.I(rl).N(1)
		}
		out.Line(pc.String(), pi.String())
		out.Line(rc.String(), ri.String())
		out.Flush()
	})
}

// vfRunAdvCountdownFlap: the same countdown, and the link drops at flapAt — shortly after a multicast RA,
// so that the re-established interface's initial RA falls inside MIN_DELAY_BETWEEN_RAS of the previous
// multicast RA: whatever is done about that, an RA carries the lifetimes remaining at the instant it is
// WRITTEN, on every connection.
func vfRunAdvCountdownFlap(t *testing.T, out *vfh.Out, V, P, L, age, flapAt, stop time.Duration) {
	out.Pending(fmt.Sprintf("runAdvCountdownFlap V=%v P=%v L=%v age=%v flapAt=%v stop=%v", V, P, L, age, flapAt, stop))
	synctest.Test(t, func(t *testing.T) {
		epoch := time.Now().Add(-age)
		st := &vfState{forwarding: true}
		cfg := vfAdvConfig(4*time.Second, 4*time.Second, false, 1800*time.Second)
		cfg.Plugins = []plugin.Plugin{
			&plugin.Prefix{Prefix: netip.MustParsePrefix("2001:db8:dead::/64"), OnLink: true, Autonomous: true,
				ValidLifetime: V, PreferredLifetime: P, Deprecated: true, Epoch: epoch},
			&plugin.Route{Prefix: netip.MustParsePrefix("2001:db8:beef::/48"), Preference: ndp.Medium, Lifetime: L, Deprecated: true, Epoch: epoch},
		}
		mm := NewMetrics(metricslite.NewMemory(), "v", time.Time{}, st, []config.Interface{cfg})
		cctx := NewContext(nil, mm, st)
		watchC := make(chan netstate.Change, 8)
		var mu sync.Mutex
		var conns []*vfConn
		d := system.NewDialer("vf0", st, system.Advertise, nil)
		d.DialFunc = func() (*system.DialContext, error) {
			c := vfNewVfConn()
			mu.Lock()
			conns = append(conns, c)
			mu.Unlock()
			return &system.DialContext{Conn: c,
				Interface: &net.Interface{Index: 1, Name: "vf0", HardwareAddr: net.HardwareAddr{2, 0, 0, 0, 0, 1}},
				IP:        netip.MustParseAddr("fe80::1")}, nil
		}
		a := NewAdvertiser(cctx, cfg, d, watchC, func() bool { return true })
		ctx, cancel := context.WithCancel(context.Background())
		done := make(chan error, 1)
		go func() { done <- a.Run(ctx) }()
		synctest.Wait()
		time.Sleep(flapAt)
		watchC <- netstate.LinkDown
		synctest.Wait()
		time.Sleep(stop)
		cancel()
		select {
		case <-done:
		case <-time.After(10 * time.Minute):
		}
		synctest.Wait()
		type stamped struct {
			at time.Time
			w  vfWrite
		}
		var ws []stamped
		mu.Lock()
		for _, c := range conns {
			for _, w := range c.snapshot() {
				ws = append(ws, stamped{c.t0.Add(w.begin), w})
			}
		}
		mu.Unlock()
		sort.SliceStable(ws, func(i, j int) bool { return ws[i].at.Before(ws[j].at) })
		e := epoch.UnixNano()
		pc := new(vfh.Toks).S("pl").B(true).I(e).I(int64(V)).I(int64(P)).I(0).N(len(ws))
		rc := new(vfh.Toks).S("rl").B(true).I(e).I(int64(L)).I(0).N(len(ws))
		pi, ri := new(vfh.Toks), new(vfh.Toks)
		for _, sw := range ws {
			at := sw.at.UnixNano()
			pc.I(at)
			rc.I(at)
			pv, pp, rl := int64(-1), int64(-1), int64(-1)
			if sw.w.ra != nil {
				for _, o := range sw.w.ra.Options {
					switch o := o.(type) {
					case *ndp.PrefixInformation:
						pv, pp = int64(o.ValidLifetime), int64(o.PreferredLifetime)
					case *ndp.RouteInformation:
						rl = int64(o.RouteLifetime)
					}
				}
			}
			pi.I(pv).I(pp).N(1)
			ri.I(rl).N(1)
		}
		out.Line(pc.String(), pi.String())
		out.Line(rc.String(), ri.String())
		out.Flush()
	})
}

func verifAdvCountdown(t *testing.T, r *vfh.Rand, out *vfh.Out) {
	for _, flapAt := range []time.Duration{100*time.Millisecond + 1, 1500*time.Millisecond + 1, 2900*time.Millisecond + 1, 3100*time.Millisecond + 1, 4200*time.Millisecond + 1} {
		vfRunAdvCountdownFlap(t, out, 20*time.Second, 10*time.Second, 15*time.Second, 0, flapAt, 9*time.Second)
		vfRunAdvCountdownFlap(t, out, 6*time.Second, 3*time.Second, 5*time.Second, time.Second, flapAt, 9*time.Second)
	}
	vfRunAdvCountdown(t, out, 20*time.Second, 10*time.Second, 15*time.Second, 0, 13*time.Second+1, nil)
	vfRunAdvCountdown(t, out, 4*time.Second, 2*time.Second, 3*time.Second, 0, 4500*time.Millisecond, nil)
	for k := vfh.N(40, 1000); k > 0; k-- {
		V := time.Duration(r.Range(int64(time.Second), int64(40*time.Second)))
		P := time.Duration(r.Range(1, int64(V)))
		L := time.Duration(r.Range(int64(time.Second), int64(40*time.Second)))
		stop := time.Duration(r.Range(int64(time.Second), int64(45*time.Second))) | 1
		var sol []time.Duration
		for j := r.Intn(3); j > 0; j-- {
			sol = append(sol, time.Duration(r.Range(1, int64(stop)))|1)
		}
		sort.Slice(sol, func(i, j int) bool { return sol[i] < sol[j] })
		vfRunAdvCountdown(t, out, V, P, L, time.Duration(r.Range(0, int64(20*time.Second))), stop, sol)
	}
}

func verifLinkFlap(t *testing.T, r *vfh.Rand, out *vfh.Out) {
	for _, mon := range []bool{false, true} {
		for k := 0; k <= 3; k++ {
			vfRunLinkFlap(t, out, mon, 5*time.Second+1, k)
		}
	}
	for i := vfh.N(8, 200); i > 0; i-- {
		vfRunLinkFlap(t, out, r.Bool(), time.Duration(r.Range(1, int64(60*time.Second)))|1, r.Intn(5))
	}
}

// vfReinOp: the operation name of the re-initialisation scenario ("rein": C06's oracle — the instants;
// "rein5": C05's — the interface is re-established and the loop's requests are transmitted again)
var vfReinOp = "rein"

func verifReinit(t *testing.T, r *vfh.Rand, out *vfh.Out) {
	for _, tf := range []time.Duration{1, 500 * time.Millisecond, 2900 * time.Millisecond, 3*time.Second + 1, 3100 * time.Millisecond, 10 * time.Second, 250 * time.Second} {
		vfRunReinit(t, out, tf|1, 5*time.Second)
	}
	for i := vfh.N(10, 300); i > 0; i-- {
		vfRunReinit(t, out, time.Duration(r.Range(1, int64(300*time.Second)))|1, 5*time.Second)
	}
	// an outage that outlasts the wait the previous incarnation's loop had begun (16 s in the
	// initial phase), and a window long enough for the whole initial sequence of the new one
	for _, tf := range []time.Duration{1, 5 * time.Second, 20 * time.Second, 250 * time.Second} {
		vfRunReinitOutage(t, out, tf|1, 60*time.Second, time.Duration(r.Range(17, 45))*time.Second)
	}
}

// runConcurrentFailures: n solicitations from distinct hosts at the same instant; every answer's
// transmission takes `lat` (longer than MAX_RA_DELAY_TIME, so all are in flight together) and
// fails. Every failed transmission must be counted, whichever of them the scheduler hears of.
//
//	tf n lat | outcome errors sentUnicast
func vfRunConcurrentFailures(t *testing.T, out *vfh.Out, n int, lat time.Duration) {
	out.Pending(fmt.Sprintf("runConcurrentFailures n=%d latency=%v", n, lat))
	// K-2: an answer whose timer is armed late may not have started when the first one fails (it
	// is then never transmitted): such a run is repeated, up to twice
	for attempt := 0; ; attempt++ {
		line, fewer := vfRunConcurrentFailuresOnce(t, n, lat)
		if !fewer || attempt == 2 {
			out.Line(new(vfh.Toks).S("tfl").N(n).I(int64(lat)).String(), line)
			out.Flush()
			return
		}
	}
}

func vfRunConcurrentFailuresOnce(t *testing.T, n int, lat time.Duration) (line string, fewer bool) {
	synctest.Test(t, func(t *testing.T) {
		v := vfNewVfAdv(vfAdvConfig(200*time.Second, 600*time.Second, false, 1800*time.Second), false, nil)
		v.conn.latency = func(_ int, dst netip.Addr) time.Duration {
			if dst == vfAllNodes {
				return 0
			}
			return lat
		}
		v.conn.writeErr = func(_ int, dst netip.Addr) error {
			if dst == vfAllNodes {
				return nil
			}
			return errors.New("scripted transmit error")
		}
		ctx, cancel := context.WithCancel(context.Background())
		defer cancel()
		done := make(chan error, 1)
		go func() { done <- v.a.Run(ctx) }()
		synctest.Wait()
		time.Sleep(time.Second + 1)
		for k := 0; k < n; k++ {
			h := vfHosts[1+k%4]
			if n > 4 {
				h = vfManyHost(100 + k) // a crowd of distinct solicitors (a switch coming back)
			}
			if !v.conn.deliver(vfRead{m: vfAdvMessage(vfAdvEvent{kind: 0, host: 1 + k%4}), hop: 255, host: h.WithZone("vf0")}) {
				break
			}
		}
		outcome := "running"
		select {
		case err := <-done:
			outcome = "nil"
			if err != nil {
				outcome = "error"
			}
		case <-time.After(lat + 5*time.Second):
		}
		synctest.Wait()
		cs := v.counters()
		line = new(vfh.Toks).S(outcome).N(cs["errors:transmit"]).N(cs["sent:unicast"]).String()
		// fewer transmissions were begun than solicitations delivered
		begun := 0
		for _, w := range v.conn.snapshot() {
			if w.dst != vfAllNodes {
				begun++
			}
		}
		fewer = begun < n
		cancel()
		if outcome == "running" {
			select {
			case <-done:
			case <-time.After(10 * time.Minute):
			}
		}
	})
	return line, fewer
}

func verifConcurrentFailures(t *testing.T, out *vfh.Out) {
	for _, n := range []int{1, 2, 3, 4} {
		vfRunConcurrentFailures(t, out, n, 700*time.Millisecond)
		vfRunConcurrentFailures(t, out, n, 2*time.Second)
	}
	// a crowd: more answers in flight together than any bound the scheduler may keep
	for _, n := range []int{17, 64, 65, 130} {
		vfRunConcurrentFailures(t, out, n, 700*time.Millisecond)
	}
}
