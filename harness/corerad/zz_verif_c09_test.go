//go:build verif

package corerad

import (
	"fmt"
	"context"
	"errors"
	"testing"
	"testing/synctest"
	"time"

	"github.com/mdlayher/corerad/internal/vfh"
	"github.com/mdlayher/metricslite"
)

type vfLstRead struct {
	kind      int // 0 msg, 1 timeout, 2 error
	msgKind   int
	hop, host int
}

// runListen drives the real (*listener).Listen over a script of ReadFrom results.
func vfRunListen(t *testing.T, out *vfh.Out, script []vfLstRead) {
	out.Pending(fmt.Sprintf("runListen script=%+v", script))
	synctest.Test(t, func(t *testing.T) {
		mm := NewMetrics(metricslite.NewMemory(), "v", time.Time{}, nil, nil)
		conn := vfNewVfConn()
		l := newListener(NewContext(nil, mm, nil), "vf0", conn)
		ctx, cancel := context.WithCancel(context.Background())
		var delivered [][2]int
		done := make(chan error, 1)
		go func() {
			done <- l.Listen(ctx, func(m message) error {
				k := 9
				for i, n := range vfAdvTypeNames {
					if m.Message.Type().String() == n {
						k = i
					}
				}
				delivered = append(delivered, [2]int{k, vfHostID(m.Host)})
				return nil
			})
		}()
		synctest.Wait()

		c := new(vfh.Toks).S("lst").N(0).N(len(script))
		var waits []time.Duration
		result := ""
		last := time.Now()
		afterTimeout := false
		for _, r := range script {
			var rd vfRead
			switch r.kind {
			case 0:
				c.S("M").N(r.msgKind).N(r.hop).N(r.host)
				rd = vfRead{m: vfAdvMessage(vfAdvEvent{kind: r.msgKind, host: r.host}), hop: r.hop, host: vfHosts[r.host].WithZone("vf0")}
			case 1:
				c.S("T")
				rd = vfRead{err: vfTimeout{}}
			default:
				c.S("E")
				rd = vfRead{err: errors.New("scripted read error")}
			}
			if result != "" {
				continue // the listener is gone; the rest of the script is only recorded
			}
			// After a timeout the listener backs off before it reads again (or returns): the
			// virtual time that passes until the next read is accepted is the requested wait.
			select {
			case conn.readC <- rd:
				if afterTimeout {
					waits = append(waits, time.Since(last))
				}
				last = time.Now()
				afterTimeout = r.kind == 1
			case err := <-done:
				if afterTimeout {
					waits = append(waits, time.Since(last))
					afterTimeout = false
				}
				result = vfClassifyListenErr(err)
			case <-time.After(time.Minute):
				// neither reading nor returned: the listener is stuck (half-alive)
				result = "stuck"
			}
			synctest.Wait()
		}
		if result == "" {
			select {
			case err := <-done:
				if afterTimeout {
					waits = append(waits, time.Since(last))
				}
				result = vfClassifyListenErr(err)
			case <-time.After(time.Second):
				result = "running"
				if afterTimeout {
					// still running: the wait ended when the listener called ReadFrom again
					conn.mu.Lock()
					waits = append(waits, conn.t0.Add(conn.readCalls[len(conn.readCalls)-1]).Sub(last))
					conn.mu.Unlock()
				}
			}
		}
		cancel()
		if result == "running" {
			select {
			case err := <-done:
				if err != nil {
					result = "cancel-error"
				}
			case <-time.After(time.Minute):
				result = "stuck"
			}
		}

		impl := new(vfh.Toks).S(result).N(len(delivered))
		for _, d := range delivered {
			impl.N(d[0]).N(d[1])
		}
		// The invalid counter is per type; attribute its counts to the script's invalid messages
		// in order (a count without a message, or a message without a count, shows up).
		inv := map[string]int{}
		series, _ := mm.Series()
		for name, s := range series {
			if name != msgInvalid {
				continue
			}
			for lbl, v := range s.Samples {
				inv[lbl] = int(v)
			}
		}
		var invKinds []int
		for _, r := range script {
			if r.kind == 0 && r.hop != 255 {
				lbl := "interface=vf0,message=" + vfAdvTypeNames[r.msgKind]
				if inv[lbl] > 0 {
					inv[lbl]--
					invKinds = append(invKinds, r.msgKind)
				}
			}
		}
		for _, n := range inv {
			if n != 0 {
				invKinds = append(invKinds, 99)
			}
		}
		impl.N(len(invKinds))
		for _, k := range invKinds {
			impl.N(k)
		}
		impl.N(len(waits))
		for _, w := range waits {
			impl.I(int64(w))
		}
		out.Line(c.String(), impl.String())
		out.Flush()
	})
}

func vfClassifyListenErr(err error) string {
	switch {
	case err == nil:
		return "nil"
	case errors.Is(err, errRetriesExhausted):
		return "exhausted"
	default:
		return "readerr"
	}
}

func verifC09(t *testing.T, r *vfh.Rand, out *vfh.Out) {
	// (1) Listen over scripts: exhaustive small scripts over {valid RS, valid RA, bad hop, NS, NA}
	alphabet := []vfLstRead{{0, 0, 255, 1}, {0, 1, 255, 2}, {0, 0, 64, 1}, {0, 2, 255, 3}, {0, 3, 254, 4}}
	k := 4
	if vfh.Thorough() {
		k = 7
	}
	var rec func(cur []vfLstRead)
	rec = func(cur []vfLstRead) {
		if len(cur) > 0 {
			vfRunListen(t, out, cur)
		}
		if len(cur) == k {
			return
		}
		for _, a := range alphabet {
			rec(append(append([]vfLstRead(nil), cur...), a))
		}
	}
	rec(nil)
	// runs of n invalid messages followed by a valid one, n beyond three times the retry budget
	for n := 1; n <= 16; n++ {
		var s []vfLstRead
		for i := 0; i < n; i++ {
			s = append(s, vfLstRead{0, r.Intn(4), vfh.Pick(r, []int{0, 1, 64, 254}), r.Intn(5)})
		}
		s = append(s, vfLstRead{0, 0, 255, 1})
		vfRunListen(t, out, s)
	}
	// … all from ONE source (a host with a broken stack, or someone spoofing it): 1..40 invalid
	// messages, then a valid one from the same source and one from another
	for _, n := range []int{1, 5, 9, 10, 11, 12, 20, 40} {
		var s []vfLstRead
		for i := 0; i < n; i++ {
			s = append(s, vfLstRead{0, i % 2, vfh.Pick(r, []int{0, 1, 64, 254}), 1})
		}
		s = append(s, vfLstRead{0, 0, 255, 1}, vfLstRead{0, 1, 255, 2})
		vfRunListen(t, out, s)
	}
	// random scripts with timeouts and errors mixed in
	n := vfh.N(1500, 30000)
	for i := 0; i < n; i++ {
		ln := 1 + r.Intn(14)
		var s []vfLstRead
		for j := 0; j < ln; j++ {
			switch {
			case r.Chance(1, 5):
				s = append(s, vfLstRead{kind: 1})
			case r.Chance(1, 25):
				s = append(s, vfLstRead{kind: 2})
			default:
				hop := 255
				if r.Chance(2, 5) {
					hop = vfh.Pick(r, []int{0, 1, 64, 128, 254})
				}
				s = append(s, vfLstRead{0, r.Intn(4), hop, r.Intn(5)})
			}
		}
		vfRunListen(t, out, s)
	}
	// (2) the advertiser as a whole: long runs of invalid messages, then valid solicitations
	m := vfh.N(200, 4000)
	for i := 0; i < m; i++ {
		var evs []vfAdvEvent
		at := time.Duration(1)
		for run := 1 + r.Intn(3); run > 0; run-- {
			for k := r.Intn(16); k > 0; k-- {
				at += time.Duration(r.Range(2, int64(400*time.Millisecond))) &^ 1
				e := vfAdvEvent{t: at | 1, kind: r.Intn(4), host: r.Intn(5), hop: vfh.Pick(r, []int{0, 64, 254, 255})}
				if e.hop == 255 && e.kind < 2 {
					e.kind = 2 + r.Intn(2) // valid hop limit but a type an advertiser ignores
				}
				evs = append(evs, e)
			}
			at += time.Duration(r.Range(2, int64(time.Second))) &^ 1
			evs = append(evs, vfAdvEvent{t: at | 1, kind: 0, host: 1 + r.Intn(4), hop: 255})
		}
		vfRunAdv(t, out, "adv9", 200*time.Second, 600*time.Second, r.Chance(1, 3), evs, at+2*time.Second+1, -1)
	}
}
