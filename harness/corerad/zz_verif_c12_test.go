//go:build verif

package corerad

import (
	"context"
	"fmt"
	"net/netip"
	"reflect"
	"sync"
	"testing/synctest"
	"sort"
	"strconv"
	"strings"
	"testing"
	"time"

	"github.com/mdlayher/corerad/internal/config"
	"github.com/mdlayher/corerad/internal/plugin"
	"github.com/mdlayher/corerad/internal/system"
	"github.com/mdlayher/corerad/internal/vfh"
	"github.com/mdlayher/metricslite"
	"github.com/mdlayher/ndp"
)

var c12Fields = map[string]int{
	"hop_limit": 0, "managed_configuration": 1, "other_configuration": 2, "reachable_time": 3, "retransmit_timer": 4,
	"mtu": 5, "prefix_information_preferred_lifetime": 6, "prefix_information_valid_lifetime": 7,
	"route_information_lifetime": 8, "rdnss_count": 9, "rdnss_lifetime": 10, "rdnss_servers": 11,
	"dnssl_count": 12, "dnssl_lifetime": 13, "dnssl_domain_names": 14, "captive_portal": 15,
}

var (
	c12Prefixes = []netip.Prefix{netip.MustParsePrefix("2001:db8:0:1::/64"), netip.MustParsePrefix("2001:db8:0:2::/64"), netip.MustParsePrefix("2001:db8::/48"), netip.MustParsePrefix("fd00::/64")}
	c12Routes   = []netip.Prefix{netip.MustParsePrefix("2001:db8:100::/48"), netip.MustParsePrefix("2001:db8:200::/56"), netip.MustParsePrefix("::/0"), netip.MustParsePrefix("2000::/3"), netip.MustParsePrefix("2001:db8:300::/60")}
	c12Lifetimes = []time.Duration{time.Hour, 2 * time.Hour, ndp.Infinity, 1500 * time.Millisecond, time.Second, 30 * time.Minute, 0, 3600*time.Second + 999*time.Millisecond}
	c12Timers   = []time.Duration{0, time.Second, 2 * time.Second, 1500 * time.Microsecond, time.Millisecond, 30 * time.Second}
	c12Servers  = []netip.Addr{netip.MustParseAddr("2001:db8::53"), netip.MustParseAddr("2001:db8::54"), netip.MustParseAddr("fd00::53")}
	c12Domains  = []string{"example.com", "lan.example.com", "home.arpa"}
	c12Portals  = []string{"https://portal.example/a", "https://portal.example/b"}
	c12Prefs    = []ndp.Preference{ndp.Medium, ndp.High, ndp.Low}
)

func c12GenRA(r *vfh.Rand) *ndp.RouterAdvertisement {
	ra := &ndp.RouterAdvertisement{
		CurrentHopLimit:           vfh.Pick(r, []uint8{0, 64, 64, 255}),
		ManagedConfiguration:      r.Bool(),
		OtherConfiguration:        r.Bool(),
		RouterSelectionPreference: vfh.Pick(r, c12Prefs),
		RouterLifetime:            vfh.Pick(r, []time.Duration{0, 1800 * time.Second, 9000 * time.Second}),
		ReachableTime:             vfh.Pick(r, c12Timers),
		RetransmitTimer:           vfh.Pick(r, c12Timers),
	}
	for k := r.Intn(3); k > 0; k-- {
		p := vfh.Pick(r, c12Prefixes)
		v := vfh.Pick(r, c12Lifetimes)
		pf := vfh.Pick(r, c12Lifetimes)
		ra.Options = append(ra.Options, &ndp.PrefixInformation{Prefix: p.Addr(), PrefixLength: uint8(p.Bits()), OnLink: r.Bool(),
			AutonomousAddressConfiguration: r.Bool(), ValidLifetime: v, PreferredLifetime: pf})
	}
	for k := r.Intn(3); k > 0; k-- {
		p := vfh.Pick(r, c12Routes)
		ra.Options = append(ra.Options, &ndp.RouteInformation{Prefix: p.Addr(), PrefixLength: uint8(p.Bits()),
			Preference: vfh.Pick(r, c12Prefs), RouteLifetime: vfh.Pick(r, c12Lifetimes)})
	}
	for k := r.Intn(3); k > 0; k-- {
		n := 1 + r.Intn(3)
		perm := []int{0, 1, 2}
		vfh.Shuffle(r, perm)
		var s []netip.Addr
		for j := 0; j < n; j++ {
			s = append(s, c12Servers[perm[j]])
		}
		ra.Options = append(ra.Options, &ndp.RecursiveDNSServer{Lifetime: vfh.Pick(r, c12Lifetimes), Servers: s})
	}
	for k := r.Intn(3); k > 0; k-- {
		n := 1 + r.Intn(3)
		perm := []int{0, 1, 2}
		vfh.Shuffle(r, perm)
		var s []string
		for j := 0; j < n; j++ {
			s = append(s, c12Domains[perm[j]])
		}
		ra.Options = append(ra.Options, &ndp.DNSSearchList{Lifetime: vfh.Pick(r, c12Lifetimes), DomainNames: s})
	}
	if r.Chance(1, 2) {
		ra.Options = append(ra.Options, ndp.NewMTU(vfh.Pick(r, []uint32{1500, 1280, 9000})))
	}
	if r.Chance(1, 3) {
		ra.Options = append(ra.Options, &ndp.LinkLayerAddress{Direction: ndp.Source, Addr: []byte{2, 0, 0, 0, 0, byte(r.Intn(3))}})
	}
	if r.Chance(1, 2) {
		ra.Options = append(ra.Options, &ndp.CaptivePortal{URI: vfh.Pick(r, c12Portals)})
	}
	return ra
}

// c12Mutate derives a received RA from own: each component independently kept, dropped or
// changed, so that absent / equal / different occur for every field in both directions.
func c12Mutate(r *vfh.Rand, own *ndp.RouterAdvertisement) *ndp.RouterAdvertisement {
	b := *own
	b.Options = nil
	if r.Chance(1, 5) {
		b.CurrentHopLimit = vfh.Pick(r, []uint8{0, 64, 255})
	}
	if r.Chance(1, 6) {
		b.ManagedConfiguration = !b.ManagedConfiguration
	}
	if r.Chance(1, 6) {
		b.OtherConfiguration = !b.OtherConfiguration
	}
	if r.Chance(1, 3) {
		b.ReachableTime = vfh.Pick(r, c12Timers)
	}
	if r.Chance(1, 3) {
		b.RetransmitTimer = vfh.Pick(r, c12Timers)
	}
	for _, o := range own.Options {
		switch r.Intn(5) {
		case 0: // dropped
			continue
		case 1: // changed
			switch o := o.(type) {
			case *ndp.PrefixInformation:
				c := *o
				if r.Bool() {
					c.ValidLifetime = vfh.Pick(r, c12Lifetimes)
				} else {
					c.PreferredLifetime = vfh.Pick(r, c12Lifetimes)
				}
				b.Options = append(b.Options, &c)
			case *ndp.RouteInformation:
				c := *o
				if r.Bool() {
					c.RouteLifetime = vfh.Pick(r, c12Lifetimes)
				} else {
					c.Preference = vfh.Pick(r, c12Prefs)
				}
				b.Options = append(b.Options, &c)
			case *ndp.RecursiveDNSServer:
				c := *o
				switch r.Intn(3) {
				case 0:
					c.Lifetime = vfh.Pick(r, c12Lifetimes)
				case 1:
					c.Servers = append([]netip.Addr{}, o.Servers...)
					c.Servers[r.Intn(len(c.Servers))] = vfh.Pick(r, c12Servers)
				default:
					c.Servers = append(append([]netip.Addr{}, o.Servers...), vfh.Pick(r, c12Servers))
				}
				b.Options = append(b.Options, &c)
			case *ndp.DNSSearchList:
				c := *o
				switch r.Intn(3) {
				case 0:
					c.Lifetime = vfh.Pick(r, c12Lifetimes)
				case 1:
					c.DomainNames = append([]string{}, o.DomainNames...)
					c.DomainNames[r.Intn(len(c.DomainNames))] = vfh.Pick(r, c12Domains)
				default:
					c.DomainNames = append(append([]string{}, o.DomainNames...), vfh.Pick(r, c12Domains))
				}
				b.Options = append(b.Options, &c)
			case *ndp.MTU:
				b.Options = append(b.Options, ndp.NewMTU(vfh.Pick(r, []uint32{1500, 1280, 9000})))
			case *ndp.CaptivePortal:
				b.Options = append(b.Options, &ndp.CaptivePortal{URI: vfh.Pick(r, c12Portals)})
			default:
				b.Options = append(b.Options, o)
			}
		case 2: // duplicated (a second option of the same kind)
			b.Options = append(b.Options, o, o)
		default: // kept: a fresh copy, as a decoder would produce
			switch o := o.(type) {
			case *ndp.MTU:
				c := *o
				b.Options = append(b.Options, &c)
			case *ndp.CaptivePortal:
				c := *o
				b.Options = append(b.Options, &c)
			default:
				b.Options = append(b.Options, o)
			}
		}
	}
	if r.Chance(1, 4) { // options own does not have
		extra := c12GenRA(r)
		b.Options = append(b.Options, extra.Options...)
	}
	return &b
}

// c12Config builds a config.Interface whose RA (with forwarding on) is exactly `own`; ok is
// false when own contains something plugins cannot produce.
func c12Config(own *ndp.RouterAdvertisement) (config.Interface, bool) {
	ifi := config.Interface{Name: "vf0", Advertise: true, HopLimit: own.CurrentHopLimit, Managed: own.ManagedConfiguration,
		OtherConfig: own.OtherConfiguration, Preference: own.RouterSelectionPreference, DefaultLifetime: own.RouterLifetime,
		ReachableTime: own.ReachableTime, RetransmitTimer: own.RetransmitTimer, MinInterval: 200 * time.Second, MaxInterval: 600 * time.Second}
	for _, o := range own.Options {
		switch o := o.(type) {
		case *ndp.PrefixInformation:
			ifi.Plugins = append(ifi.Plugins, &plugin.Prefix{Prefix: netip.PrefixFrom(o.Prefix, int(o.PrefixLength)), OnLink: o.OnLink,
				Autonomous: o.AutonomousAddressConfiguration, ValidLifetime: o.ValidLifetime, PreferredLifetime: o.PreferredLifetime})
		case *ndp.RouteInformation:
			ifi.Plugins = append(ifi.Plugins, &plugin.Route{Prefix: netip.PrefixFrom(o.Prefix, int(o.PrefixLength)), Preference: o.Preference, Lifetime: o.RouteLifetime})
		case *ndp.RecursiveDNSServer:
			ifi.Plugins = append(ifi.Plugins, &plugin.RDNSS{Lifetime: o.Lifetime, Servers: o.Servers})
		case *ndp.DNSSearchList:
			ifi.Plugins = append(ifi.Plugins, &plugin.DNSSL{Lifetime: o.Lifetime, DomainNames: o.DomainNames})
		case *ndp.MTU:
			ifi.Plugins = append(ifi.Plugins, plugin.NewMTU(int(o.MTU)))
		case *ndp.LinkLayerAddress:
			ifi.Plugins = append(ifi.Plugins, &plugin.LLA{Addr: o.Addr})
		case *ndp.CaptivePortal:
			ifi.Plugins = append(ifi.Plugins, &plugin.CaptivePortal{Portal: &ndp.CaptivePortal{URI: o.URI}})
		default:
			return ifi, false
		}
	}
	return ifi, true
}

type c12Problem struct {
	field   int
	details string
}

func c12Emit(out *vfh.Out, own, got *ndp.RouterAdvertisement, hook bool, ps []c12Problem, cidr map[string]netip.Prefix) {
	var doms, uris vfh.Interner
	c := new(vfh.Toks).S("vr").RA(own, &doms, &uris).RA(got, &doms, &uris)
	sort.Slice(ps, func(i, j int) bool {
		if ps[i].field != ps[j].field {
			return ps[i].field < ps[j].field
		}
		return ps[i].details < ps[j].details
	})
	impl := new(vfh.Toks).B(hook).N(len(ps))
	type row struct{ s string }
	var rows []string
	for _, p := range ps {
		t := new(vfh.Toks).N(p.field)
		if p.details == "" {
			t.S("N")
		} else if pfx, ok := cidr[p.details]; ok {
			t.S("D").Addr(pfx.Addr()).N(pfx.Bits())
		} else {
			t.S("?" + p.details)
		}
		rows = append(rows, t.String())
	}
	// canonical order: by field code, then address value, then length (same key as the driver)
	sort.SliceStable(rows, func(i, j int) bool { return c12Less(rows[i], rows[j]) })
	for _, s := range rows {
		impl.S(s)
	}
	out.Line(c.String(), impl.String())
}

func c12Less(a, b string) bool {
	ka, kb := c12Key(a), c12Key(b)
	for i := range ka {
		if c := ka[i].Cmp(kb[i]); c != 0 {
			return c < 0
		}
	}
	return false
}

func c12Key(s string) [3]*vfBigInt {
	f := strings.Fields(s)
	k := [3]*vfBigInt{vfNewBig(f[0]), vfNewBig("0"), vfNewBig("0")}
	if len(f) >= 5 && f[1] == "D" {
		k[1] = vfNewBig(f[3]).addOne()
		k[2] = vfNewBig(f[4])
	}
	return k
}

func c12CIDRs(ras ...*ndp.RouterAdvertisement) map[string]netip.Prefix {
	m := map[string]netip.Prefix{}
	for _, ra := range ras {
		for _, o := range ra.Options {
			switch o := o.(type) {
			case *ndp.PrefixInformation:
				p := netip.PrefixFrom(o.Prefix, int(o.PrefixLength))
				m[p.String()] = p
			case *ndp.RouteInformation:
				p := netip.PrefixFrom(o.Prefix, int(o.PrefixLength))
				m[p.String()] = p
			}
		}
	}
	return m
}

// c12Direct calls verifyRAs itself.
func c12Direct(out *vfh.Out, own, got *ndp.RouterAdvertisement) {
	ps := verifyRAs(own, got)
	var cps []c12Problem
	for _, p := range ps {
		f, ok := c12Fields[p.Field]
		if !ok {
			f = 99
		}
		cps = append(cps, c12Problem{f, p.Details})
	}
	c12Emit(out, own, got, len(ps) > 0, cps, c12CIDRs(own, got))
}

// c12Public goes through the advertiser's message handler and observes the public effects:
// corerad_advertiser_inconsistencies_total and the OnInconsistentRA hook.
func c12Public(t *testing.T, out *vfh.Out, own, got *ndp.RouterAdvertisement) bool {
	ifi, ok := c12Config(own)
	if !ok {
		return false
	}
	mem := metricslite.NewMemory()
	state := system.TestState{Forwarding: true}
	mm := NewMetrics(mem, "v", time.Time{}, state, []config.Interface{ifi})
	a := NewAdvertiser(NewContext(nil, mm, state), ifi, nil, nil, func() bool { return false })
	hooks := 0
	a.OnInconsistentRA = func(ours, theirs *ndp.RouterAdvertisement) { hooks++ }
	ip, err := a.handle(got, netip.MustParseAddr("fe80::2"))
	if err != nil || ip.IsValid() {
		t.Fatalf("handle(RA) = %v, %v", ip, err)
	}
	var cps []c12Problem
	series, _ := mm.Series()
	for name, s := range series {
		if name != advInconsistencies {
			continue
		}
		for lbl, v := range s.Samples {
			// labels rendered as interface=vf0,details=…,field=…
			kv := map[string]string{}
			for _, part := range strings.Split(lbl, ",") {
				if i := strings.Index(part, "="); i >= 0 {
					kv[part[:i]] = part[i+1:]
				}
			}
			f, ok := c12Fields[kv["field"]]
			if !ok {
				f = 99
			}
			for k := 0; k < int(v); k++ {
				cps = append(cps, c12Problem{f, kv["details"]})
			}
		}
	}
	if hooks > 1 {
		t.Fatalf("hook fired %d times for one RA", hooks)
	}
	c12Emit(out, own, got, hooks == 1, cps, c12CIDRs(own, got))
	return true
}

// c12Live: "the RA CoreRAD would send at that moment" is the own side of the comparison.  The
// advertiser's RA depends on live state (a `::/64` wildcard over an injected address list, a
// deprecated prefix counting down on an injected clock); it transmits an RA, the state changes,
// another router's RA arrives.  The reports must be those of verifyRAs(RA built from the state AT
// RECEIPT, received RA) — the case line carries that RA, built by config.Interface.RouterAdvertisement
// after the call.
func c12Live(t *testing.T, r *vfh.Rand, out *vfh.Out) {
	pool := []netip.Prefix{netip.MustParsePrefix("2001:db8:0:1::9/64"), netip.MustParsePrefix("2001:db8:0:2::9/64"),
		netip.MustParsePrefix("fd00::9/64"), netip.MustParsePrefix("2001:db8:0:7::9/64")}
	pick := func() []system.IP {
		var l []system.IP
		for _, p := range pool {
			if r.Bool() {
				l = append(l, system.IP{Address: p})
			}
		}
		return l
	}
	epoch := time.Unix(1700000000, 0)
	now := epoch
	var addrs []system.IP
	wild := &plugin.Prefix{Auto: true, Prefix: netip.MustParsePrefix("::/64"), OnLink: true, Autonomous: true,
		ValidLifetime: 2 * time.Hour, PreferredLifetime: time.Hour,
		Addrs: func() ([]system.IP, error) { return addrs, nil }}
	dep := &plugin.Prefix{Prefix: netip.MustParsePrefix("2001:db8:dead::/64"), OnLink: true, Autonomous: true,
		ValidLifetime: 2 * time.Hour, PreferredLifetime: time.Hour, Deprecated: true, Epoch: epoch,
		TimeNow: func() time.Time { return now }}
	ifi := config.Interface{Name: "vf0", Advertise: true, HopLimit: 64, DefaultLifetime: 1800 * time.Second,
		MinInterval: 200 * time.Second, MaxInterval: 600 * time.Second, Preference: ndp.Medium}
	if r.Bool() {
		ifi.Plugins = append(ifi.Plugins, wild)
	}
	if r.Bool() || len(ifi.Plugins) == 0 {
		ifi.Plugins = append(ifi.Plugins, dep)
	}
	if r.Bool() {
		// names and servers in an order that is not the sorted one
		ifi.Plugins = append(ifi.Plugins, &plugin.DNSSL{Lifetime: time.Hour, DomainNames: []string{"lan.example.com", "corp.example.com", "example.com"}})
	}
	if r.Bool() {
		ifi.Plugins = append(ifi.Plugins, &plugin.RDNSS{Lifetime: time.Hour, Servers: []netip.Addr{netip.MustParseAddr("fd00::53"), netip.MustParseAddr("2001:db8::54"), netip.MustParseAddr("2001:db8::53")}})
	}
	if r.Bool() {
		ifi.Plugins = append(ifi.Plugins, plugin.NewMTU(vfh.Pick(r, []int{1280, 1500})))
	}
	if r.Bool() {
		ifi.Plugins = append(ifi.Plugins, &plugin.CaptivePortal{Portal: &ndp.CaptivePortal{URI: vfh.Pick(r, c12Portals)}})
	}
	mem := metricslite.NewMemory()
	state := system.TestState{Forwarding: true}
	mm := NewMetrics(mem, "v", time.Time{}, state, []config.Interface{ifi})
	a := NewAdvertiser(NewContext(nil, mm, state), ifi, nil, nil, func() bool { return false })
	hooks := 0
	a.OnInconsistentRA = func(ours, theirs *ndp.RouterAdvertisement) { hooks++ }

	// 0..2 transmissions under earlier states
	conn := vfNewVfConn()
	for k := r.Intn(3); k > 0; k-- {
		addrs = pick()
		now = now.Add(time.Duration(r.Range(0, int64(40*time.Minute))))
		if err := a.send(conn, vfAllNodes, ifi); err != nil {
			t.Fatalf("send: %v", err)
		}
	}
	// the state at receipt
	addrs = pick()
	now = now.Add(time.Duration(r.Range(0, int64(50*time.Minute))))
	own, _, err := ifi.RouterAdvertisement(true)
	if err != nil {
		t.Fatalf("RouterAdvertisement: %v", err)
	}
	// 1..3 RAs from other routers arrive one after the other at this advertiser (each judged on its
	// own: nothing of an earlier received RA may leak into the verdict on a later one — options
	// present in one and absent from the next, e.g. MTU or captive portal)
	counts := func() map[c12Problem]int {
		m := map[c12Problem]int{}
		series, _ := mm.Series()
		for name, s := range series {
			if name != advInconsistencies {
				continue
			}
			for lbl, v := range s.Samples {
				kv := map[string]string{}
				for _, part := range strings.Split(lbl, ",") {
					if i := strings.Index(part, "="); i >= 0 {
						kv[part[:i]] = part[i+1:]
					}
				}
				f, ok := c12Fields[kv["field"]]
				if !ok {
					f = 99
				}
				m[c12Problem{f, kv["details"]}] += int(v)
			}
		}
		return m
	}
	for nth := 1 + r.Intn(3); nth > 0; nth-- {
		var got *ndp.RouterAdvertisement
		switch r.Intn(4) {
		case 0: // a twin of the present moment
			got, _, _ = ifi.RouterAdvertisement(true)
		case 1: // an unrelated router (other options present / absent)
			got = c12GenRA(r)
		default:
			got = c12Mutate(r, own)
		}
		if rt, ok := c12RoundTrip(got); ok && r.Bool() {
			got = rt
		}
		before, hooksBefore := counts(), hooks
		// a deep snapshot of the own RA (its options alias the configuration's slices)
		snap, snapErr := ndp.MarshalMessage(own)
		ip, err := a.handle(got, netip.MustParseAddr("fe80::2"))
		if err != nil || ip.IsValid() {
			t.Fatalf("handle(RA) = %v, %v", ip, err)
		}
		var cps []c12Problem
		for k, v := range counts() {
			for d := v - before[k]; d > 0; d-- {
				cps = append(cps, k)
			}
		}
		c12Emit(out, own, got, hooks > hooksBefore, cps, c12CIDRs(own, got))
		// the received RA is compared with the RA the configuration produces; the configuration
		// itself stays what it was: the same state yields the same RA afterwards
		again, _, err := ifi.RouterAdvertisement(true)
		mutated := err != nil
		if !mutated && snapErr == nil {
			b, merr := ndp.MarshalMessage(again)
			mutated = merr != nil || !reflect.DeepEqual(snap, b)
		}
		var doms, uris vfh.Interner
		out.Line(new(vfh.Toks).S("cfgmut").RA(again, &doms, &uris).RA(got, &doms, &uris).String(), new(vfh.Toks).B(mutated).String())
	}
}

// runVerifyBurst: a burst of n inconsistent RAs from another router while the first report is still
// being processed (a slow log sink, a blocking hook).  Every received RA is judged: n reports, n
// increments of the counter — none is shed.
//
//	vburst n | hooks counted
func vfRunVerifyBurst(t *testing.T, out *vfh.Out, n int) {
	out.Pending(fmt.Sprintf("runVerifyBurst n=%d", n))
	synctest.Test(t, func(t *testing.T) {
		v := vfNewVfAdv(vfAdvConfig(200*time.Second, 600*time.Second, false, 1800*time.Second), false, nil)
		release := make(chan struct{})
		var mu sync.Mutex
		hooks := 0
		v.a.OnInconsistentRA = func(_, _ *ndp.RouterAdvertisement) {
			mu.Lock()
			hooks++
			first := hooks == 1
			mu.Unlock()
			if first {
				<-release
			}
		}
		ctx, cancel := context.WithCancel(context.Background())
		done := make(chan error, 1)
		go func() { done <- v.a.Run(ctx) }()
		synctest.Wait()
		time.Sleep(time.Second + 1)
		// differs from the own RA in the managed flag
		bad := &ndp.RouterAdvertisement{CurrentHopLimit: 64, ManagedConfiguration: true, RouterLifetime: 1800 * time.Second}
		go func() {
			for k := 0; k < n; k++ {
				v.conn.deliver(vfRead{m: bad, hop: 255, host: vfHosts[2].WithZone("vf0")})
			}
		}()
		time.Sleep(2 * time.Second)
		close(release)
		time.Sleep(30 * time.Second)
		synctest.Wait()
		counted := 0
		series, _ := v.mm.Series()
		for name, s := range series {
			if name == advInconsistencies {
				for _, x := range s.Samples {
					counted += int(x)
				}
			}
		}
		mu.Lock()
		h := hooks
		mu.Unlock()
		cancel()
		select {
		case <-done:
		case <-time.After(10 * time.Minute):
		}
		out.Line(new(vfh.Toks).S("vburst").N(n).String(), new(vfh.Toks).N(h).N(counted).String())
		out.Flush()
	})
}

func c12RoundTrip(ra *ndp.RouterAdvertisement) (*ndp.RouterAdvertisement, bool) {
	b, err := ndp.MarshalMessage(ra)
	if err != nil {
		return nil, false
	}
	m, err := ndp.ParseMessage(b)
	if err != nil {
		return nil, false
	}
	out, ok := m.(*ndp.RouterAdvertisement)
	return out, ok
}

func verifC12(t *testing.T, r *vfh.Rand, out *vfh.Out) {
	for _, n := range []int{1, 2, 16, 17, 18, 25, 40} {
		vfRunVerifyBurst(t, out, n)
	}
	for k := vfh.N(600, 15000); k > 0; k-- {
		c12Live(t, r, out)
	}
	n := vfh.N(6000, 150000)
	for k := 0; k < n; k++ {
		own := c12GenRA(r)
		var got *ndp.RouterAdvertisement
		switch r.Intn(6) {
		case 0: // unrelated router
			got = c12GenRA(r)
		case 1: // own RA after a wire round trip ("a twin CoreRAD")
			if rt, ok := c12RoundTrip(own); ok {
				got = rt
			} else {
				got = c12Mutate(r, own)
			}
		default:
			got = c12Mutate(r, own)
		}
		if r.Bool() { // every received RA passes through encode/decode when it can
			if rt, ok := c12RoundTrip(got); ok {
				got = rt
			}
		}
		if r.Chance(1, 10) { // the other order
			own, got = got, own
		}
		if k%2 == 0 {
			if c12Public(t, out, own, got) {
				continue
			}
		}
		c12Direct(out, own, got)
	}
}

var _ = strconv.Itoa
