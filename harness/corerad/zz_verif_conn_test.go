//go:build verif

package corerad

import (
	"context"
	"errors"
	"net"
	"net/netip"
	"sort"
	"strings"
	"sync"
	"time"

	"github.com/mdlayher/corerad/internal/config"
	"github.com/mdlayher/corerad/internal/netstate"
	"github.com/mdlayher/corerad/internal/plugin"
	"github.com/mdlayher/corerad/internal/system"
	"github.com/mdlayher/corerad/internal/vfh"
	"github.com/mdlayher/metricslite"
	"github.com/mdlayher/ndp"
	"golang.org/x/net/ipv6"
)

// vfTimeout is the net.Error a read returns once SetReadDeadline(past) was called.
type vfTimeout struct{}

func (vfTimeout) Error() string   { return "i/o timeout (scripted)" }
func (vfTimeout) Timeout() bool   { return true }
func (vfTimeout) Temporary() bool { return true }

var _ net.Error = vfTimeout{}

type vfRead struct {
	m    ndp.Message
	hop  int
	host netip.Addr
	err  error // delivered instead of a message
}

type vfWrite struct {
	begin, end time.Duration // relative to the connection's creation (virtual time)
	dst        netip.Addr
	ra         *ndp.RouterAdvertisement
	failed     bool
}

// vfEvent is one entry of the connection's ordered event log.
type vfEvent struct {
	at   time.Duration
	kind byte // 'B' write begin, 'E' write end, 'C' cancel, 'R' Run returned, 'F' fault injected
	idx  int  // write index for B/E
}

// vfConn is a scripted system.Conn for use inside a testing/synctest bubble.
type vfConn struct {
	t0     time.Time
	readC  chan vfRead
	dlC    chan struct{}
	dlOnce sync.Once

	mu        sync.Mutex
	writes    []vfWrite
	nWrites   int
	events    []vfEvent       // begin/end of writes and harness markers, in order of occurrence
	readCalls []time.Duration // instants of ReadFrom calls
	retAt     time.Duration   // set by the harness: instant the reader returned
	closedUse int             // reads/writes after the harness marked the conn dead

	// scripted behaviour of the n-th WriteTo (0 = first)
	latency  func(n int, dst netip.Addr) time.Duration
	writeErr func(n int, dst netip.Addr) error
}

func vfNewVfConn() *vfConn {
	return &vfConn{t0: time.Now(), readC: make(chan vfRead), dlC: make(chan struct{})}
}

func (c *vfConn) ReadFrom() (ndp.Message, *ipv6.ControlMessage, netip.Addr, error) {
	c.mu.Lock()
	c.readCalls = append(c.readCalls, time.Since(c.t0))
	c.mu.Unlock()
	select {
	case r := <-c.readC:
		if r.err != nil {
			return nil, nil, netip.Addr{}, r.err
		}
		return r.m, &ipv6.ControlMessage{HopLimit: r.hop}, r.host, nil
	case <-c.dlC:
		return nil, nil, netip.Addr{}, vfTimeout{}
	}
}

func (c *vfConn) SetReadDeadline(t time.Time) error {
	if t.Before(time.Now()) {
		c.dlOnce.Do(func() { close(c.dlC) })
	}
	return nil
}

func (c *vfConn) WriteTo(m ndp.Message, _ *ipv6.ControlMessage, dst netip.Addr) error {
	c.mu.Lock()
	n := c.nWrites
	c.nWrites++
	idx := len(c.writes)
	ra, _ := m.(*ndp.RouterAdvertisement)
	c.writes = append(c.writes, vfWrite{begin: time.Since(c.t0), end: -1, dst: dst, ra: ra})
	c.events = append(c.events, vfEvent{time.Since(c.t0), 'B', idx})
	lat, werr := c.latency, c.writeErr
	c.mu.Unlock()

	if lat != nil {
		if d := lat(n, dst); d > 0 {
			time.Sleep(d)
		}
	}
	var err error
	if werr != nil {
		err = werr(n, dst)
	}
	c.mu.Lock()
	c.writes[idx].end = time.Since(c.t0)
	c.writes[idx].failed = err != nil
	c.events = append(c.events, vfEvent{time.Since(c.t0), 'E', idx})
	c.mu.Unlock()
	return err
}

// mark appends a harness marker to the event log.
func (c *vfConn) mark(kind byte) {
	c.mu.Lock()
	c.events = append(c.events, vfEvent{time.Since(c.t0), kind, -1})
	c.mu.Unlock()
}

func (c *vfConn) eventLog() []vfEvent {
	c.mu.Lock()
	defer c.mu.Unlock()
	return append([]vfEvent(nil), c.events...)
}

func (c *vfConn) snapshot() []vfWrite {
	c.mu.Lock()
	defer c.mu.Unlock()
	return append([]vfWrite(nil), c.writes...)
}

// deliver hands one scripted read to a pending (or the next) ReadFrom; it reports false if
// nobody reads within a virtual minute (the listener is gone).
func (c *vfConn) deliver(r vfRead) bool {
	select {
	case c.readC <- r:
		return true
	case <-time.After(time.Minute):
		return false
	}
}

// ---------------------------------------------------------------------------------------------

var (
	vfAllNodes = netip.IPv6LinkLocalAllNodes()
	vfHosts    = []netip.Addr{netip.IPv6Unspecified(), netip.MustParseAddr("fe80::a"), netip.MustParseAddr("fe80::b"),
		netip.MustParseAddr("2001:db8::c"), netip.MustParseAddr("fe80::d")}
)

// manyHost is the address of solicitor number id >= len(vfHosts) (scenarios with hundreds of
// distinct solicitors): fe80::5eed:<id>.
func vfManyHost(id int) netip.Addr {
	b := netip.MustParseAddr("fe80::5eed:0").As16()
	b[14], b[15] = byte(id>>8), byte(id)
	return netip.AddrFrom16(b)
}

// hostID maps a destination/source to the small ids of the case lines: 0 = :: / ff02::1.
func vfHostID(a netip.Addr) int {
	if a == vfAllNodes {
		return 0
	}
	for i, h := range vfHosts {
		if h == a.WithZone("") {
			return i
		}
	}
	if b := a.WithZone("").As16(); a.Is6() && b[0] == 0xfe && b[1] == 0x80 && b[12] == 0x5e && b[13] == 0xed {
		return int(b[14])<<8 | int(b[15])
	}
	return 99
}

// vfAdvConfig is the static advertising configuration used by the scenario runners.
func vfAdvConfig(min, max time.Duration, unicastOnly bool, lifetime time.Duration) config.Interface {
	return config.Interface{
		Name: "vf0", Advertise: true, MinInterval: min, MaxInterval: max, UnicastOnly: unicastOnly,
		HopLimit: 64, DefaultLifetime: lifetime, Preference: ndp.Medium,
		Plugins: []plugin.Plugin{
			&plugin.Prefix{Prefix: netip.MustParsePrefix("2001:db8:0:1::/64"), OnLink: true, Autonomous: true,
				ValidLifetime: 24 * time.Hour, PreferredLifetime: 4 * time.Hour},
			plugin.NewMTU(1500),
			&plugin.LLA{},
		},
	}
}

// vfState is a mutable system.State.
type vfState struct {
	mu         sync.Mutex
	forwarding bool
	autoconf   bool
	err        error
	errOnce    bool // err is returned by the next call only (a transient failure)
}

// takeErr: the error of this call (mu held)
func (s *vfState) takeErr() error {
	err := s.err
	if s.errOnce {
		s.err, s.errOnce = nil, false
	}
	return err
}

func (s *vfState) IPv6Autoconf(string) (bool, error) {
	s.mu.Lock()
	defer s.mu.Unlock()
	return s.autoconf, s.takeErr()
}
func (s *vfState) IPv6Forwarding(string) (bool, error) {
	s.mu.Lock()
	defer s.mu.Unlock()
	return s.forwarding, s.takeErr()
}
func (s *vfState) SetIPv6Autoconf(string, bool) error { return nil }
func (s *vfState) setForwarding(b bool) {
	s.mu.Lock()
	s.forwarding = b
	s.mu.Unlock()
}

type vfAdv struct {
	a     *Advertiser
	mm    *Metrics
	state *vfState
	conn  *vfConn
	dials int
}

// newVfAdv builds a real Advertiser whose Dialer hands out the scripted connection.
// A second dial (re-initialisation) fails with a permission error so that Run ends.
func vfNewVfAdv(cfg config.Interface, terminate bool, watchC <-chan netstate.Change) *vfAdv {
	st := &vfState{forwarding: true}
	mm := NewMetrics(metricslite.NewMemory(), "v", time.Time{}, st, []config.Interface{cfg})
	cctx := NewContext(nil, mm, st)
	v := &vfAdv{mm: mm, state: st, conn: vfNewVfConn()}
	d := system.NewDialer("vf0", st, system.Advertise, nil)
	d.DialFunc = func() (*system.DialContext, error) {
		v.dials++
		if v.dials > 1 {
			return nil, errors.New("scripted: no second connection")
		}
		return &system.DialContext{
			Conn:      v.conn,
			Interface: &net.Interface{Index: 1, Name: "vf0", HardwareAddr: net.HardwareAddr{2, 0, 0, 0, 0, 1}},
			IP:        netip.MustParseAddr("fe80::1"),
		}, nil
	}
	v.a = NewAdvertiser(cctx, cfg, d, watchC, func() bool { return terminate })
	return v
}

// counters reads the advertiser's counters from the in-memory metrics.
func (v *vfAdv) counters() map[string]int {
	out := map[string]int{}
	series, _ := v.mm.Series()
	for name, s := range series {
		var short string
		switch name {
		case "corerad_advertiser_router_advertisements_total":
			short = "sent"
		case "corerad_advertiser_messages_received_total":
			short = "recv"
		case msgInvalid:
			short = "invalid"
		case "corerad_advertiser_errors_total":
			short = "errors"
		default:
			continue
		}
		for lbl, val := range s.Samples {
			// labels: interface=vf0,<k>=<v>
			kv := ""
			for _, part := range strings.Split(lbl, ",") {
				if !strings.HasPrefix(part, "interface=") {
					if i := strings.Index(part, "="); i >= 0 {
						kv = part[i+1:]
					}
				}
			}
			out[short+":"+kv] += int(val)
		}
	}
	return out
}

func vfSortedWrites(ws []vfWrite) []vfWrite {
	out := append([]vfWrite(nil), ws...)
	sort.SliceStable(out, func(i, j int) bool {
		if out[i].begin != out[j].begin {
			return out[i].begin < out[j].begin
		}
		return vfHostID(out[i].dst) < vfHostID(out[j].dst)
	})
	return out
}

var _ = context.Background
var _ vfh.Toks
