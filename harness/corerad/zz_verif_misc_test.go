//go:build verif

package corerad

import (
	"context"
	"errors"
	"fmt"
	"net"
	"net/netip"
	"sync"
	"testing"
	"testing/synctest"
	"time"

	"github.com/mdlayher/corerad/internal/config"
	"github.com/mdlayher/corerad/internal/netstate"
	"github.com/mdlayher/corerad/internal/system"
	"github.com/mdlayher/corerad/internal/vfh"
	"github.com/mdlayher/metricslite"
	"github.com/mdlayher/ndp"
)

// vfRunReinitRS (C07): a solicitation that arrives AFTER the interface was re-established inside one
// Run (k link-state changes, tf apart) is answered by exactly one unicast RA on the current
// connection, like one that arrives in the first incarnation: nothing of an earlier incarnation
// (a scheduler, a gate, a channel) may be left in a state that swallows it.
//
//	reinrs tf k | dials answeredFirst answeredLast
func vfRunReinitRS(t *testing.T, out *vfh.Out, tf time.Duration, k int) {
	out.Pending(fmt.Sprintf("runReinitRS every=%v flaps=%d", tf, k))
	synctest.Test(t, func(t *testing.T) {
		st := &vfState{forwarding: true}
		cfg := vfAdvConfig(200*time.Second, 600*time.Second, false, 1800*time.Second)
		mm := NewMetrics(metricslite.NewMemory(), "v", time.Time{}, st, []config.Interface{cfg})
		cctx := NewContext(nil, mm, st)
		watchC := make(chan netstate.Change, 8)
		var mu sync.Mutex
		var conns []*vfConn
		d := system.NewDialer("vf0", st, system.Advertise, nil)
		d.DialFunc = func() (*system.DialContext, error) {
			c := vfNewVfConn()
			mu.Lock()
			conns = append(conns, c)
			mu.Unlock()
			return &system.DialContext{Conn: c,
				Interface: &net.Interface{Index: 1, Name: "vf0", HardwareAddr: net.HardwareAddr{2, 0, 0, 0, 0, 1}},
				IP:        netip.MustParseAddr("fe80::1")}, nil
		}
		a := NewAdvertiser(cctx, cfg, d, watchC, func() bool { return false })
		ctx, cancel := context.WithCancel(context.Background())
		done := make(chan error, 1)
		go func() { done <- a.Run(ctx) }()
		synctest.Wait()
		last := func() *vfConn {
			mu.Lock()
			defer mu.Unlock()
			return conns[len(conns)-1]
		}
		solicit := func(host int) int {
			c := last()
			rs := &ndp.RouterSolicitation{}
			if !c.deliver(vfRead{m: rs, hop: 255, host: vfHosts[host].WithZone("vf0")}) {
				return -1
			}
			time.Sleep(time.Second) // MAX_RA_DELAY_TIME is 0.5 s
			synctest.Wait()
			n := 0
			for _, w := range c.snapshot() {
				if w.dst == vfHosts[host] {
					n++
				}
			}
			return n
		}
		time.Sleep(4 * time.Second)
		first := solicit(1)
		for i := 0; i < k; i++ {
			time.Sleep(tf)
			watchC <- netstate.LinkDown
			synctest.Wait()
		}
		time.Sleep(4 * time.Second)
		lastN := solicit(2)
		mu.Lock()
		n := len(conns)
		mu.Unlock()
		cancel()
		select {
		case <-done:
		case <-time.After(10 * time.Minute):
		}
		out.Line(new(vfh.Toks).S("reinrs").I(int64(tf)).N(k).String(), new(vfh.Toks).N(n).N(first).N(lastN).String())
		out.Flush()
	})
}

func verifReinitRS(t *testing.T, r *vfh.Rand, out *vfh.Out) {
	for _, k := range []int{1, 2, 3} {
		vfRunReinitRS(t, out, 5*time.Second+1, k)
	}
	for i := vfh.N(8, 100); i > 0; i-- {
		vfRunReinitRS(t, out, time.Duration(r.Range(int64(time.Second), int64(30*time.Second)))|1, 1+r.Intn(3))
	}
}

// vfRunBadTypeWhileUnreadable (C09): a message of a type an advertiser ignores (NS, NA, redirect …, hop
// limit 255) arrives at a moment at which the interface's state cannot be read (the next read of the
// forwarding sysctl fails): it is counted invalid and ignored LIKE ANY OTHER — it never needs an RA
// to be built — and the advertiser keeps serving: a valid solicitation afterwards is answered.
//
//	nsf kind | alive invalid answered
func vfRunBadTypeWhileUnreadable(t *testing.T, out *vfh.Out, kind int) {
	out.Pending(fmt.Sprintf("runBadTypeWhileUnreadable kind=%d", kind))
	synctest.Test(t, func(t *testing.T) {
		v := vfNewVfAdv(vfAdvConfig(200*time.Second, 600*time.Second, false, 1800*time.Second), false, nil)
		ctx, cancel := context.WithCancel(context.Background())
		done := make(chan error, 1)
		go func() { done <- v.a.Run(ctx) }()
		synctest.Wait()
		time.Sleep(5 * time.Second)
		v.state.mu.Lock()
		v.state.err, v.state.errOnce = errors.New("scripted: the forwarding sysctl cannot be read just now"), true
		v.state.mu.Unlock()
		ok := v.conn.deliver(vfRead{m: vfAdvMessage(vfAdvEvent{kind: kind, hop: 255}), hop: 255, host: vfHosts[1].WithZone("vf0")})
		synctest.Wait()
		v.state.mu.Lock()
		v.state.err, v.state.errOnce = nil, false
		v.state.mu.Unlock()
		alive := ok
		select {
		case <-done:
			alive = false
		default:
		}
		answered := 0
		if alive && v.conn.deliver(vfRead{m: &ndp.RouterSolicitation{}, hop: 255, host: vfHosts[2].WithZone("vf0")}) {
			time.Sleep(time.Second)
			synctest.Wait()
			for _, w := range v.conn.snapshot() {
				if w.dst == vfHosts[2] {
					answered++
				}
			}
		}
		cs := v.counters()
		inv := 0
		for _, n := range vfAdvTypeNames {
			inv += cs["invalid:"+n]
		}
		cancel()
		select {
		case <-done:
		case <-time.After(10 * time.Minute):
		}
		out.Line(new(vfh.Toks).S("nsf").N(kind).String(), new(vfh.Toks).B(alive).N(inv).N(answered).String())
		out.Flush()
	})
}

func verifBadTypeWhileUnreadable(t *testing.T, out *vfh.Out) {
	for _, kind := range []int{2, 3} {
		for rep := 0; rep < 3; rep++ {
			vfRunBadTypeWhileUnreadable(t, out, kind)
		}
	}
}

// vfRunMidWrite (C06 / C07): the transmission of a scheduled multicast RA takes `lat` (a slow link, a
// full queue), and a solicitation from the unspecified address arrives `at` after that transmission
// began — while it is still inside WriteTo.  The RA being written left before the solicitation
// arrived, so it is no answer to it: a further multicast RA must begin within MIN_DELAY_BETWEEN_RAS
// of the solicitation.
//
//	mwr lat at | answered
func vfRunMidWrite(t *testing.T, out *vfh.Out, lat, at time.Duration) {
	out.Pending(fmt.Sprintf("runMidWrite latency=%v at=%v", lat, at))
	synctest.Test(t, func(t *testing.T) {
		v := vfNewVfAdv(vfAdvConfig(200*time.Second, 600*time.Second, false, 1800*time.Second), false, nil)
		// write 0 is the initial RA, write 1 the loop's first scheduled multicast RA (at 3 s)
		v.conn.latency = func(n int, dst netip.Addr) time.Duration {
			if n == 1 && dst == vfAllNodes {
				return lat
			}
			return 0
		}
		ctx, cancel := context.WithCancel(context.Background())
		v.conn.t0 = time.Now()
		done := make(chan error, 1)
		go func() { done <- v.a.Run(ctx) }()
		synctest.Wait()
		time.Sleep(3*time.Second + at)
		trigger := time.Since(v.conn.t0)
		ok := v.conn.deliver(vfRead{m: &ndp.RouterSolicitation{}, hop: 255, host: netip.IPv6Unspecified().WithZone("vf0")})
		time.Sleep(lat + 4*time.Second)
		synctest.Wait()
		answered := false
		for _, w := range v.conn.snapshot() {
			if w.dst == vfAllNodes && w.begin >= trigger && w.begin <= trigger+minDelayBetweenRAs {
				answered = true
			}
		}
		cancel()
		select {
		case <-done:
		case <-time.After(10 * time.Minute):
		}
		out.Line(new(vfh.Toks).S("mwr").I(int64(lat)).I(int64(at)).String(), new(vfh.Toks).B(ok && answered).String())
		out.Flush()
	})
}

// vfRunFlipBetweenAnswers (C04): host A's solicited RA is being written (slowly) when IPv6 forwarding is
// switched off; host C solicits after that: C's answer is built from the state of ITS moment —
// router lifetime 0 — whatever is still in flight for A.
//
//	bfw lat | lifetimeOfAnswerToC (ns; -1 = no answer)
func vfRunFlipBetweenAnswers(t *testing.T, out *vfh.Out, lat time.Duration) {
	out.Pending(fmt.Sprintf("runFlipBetweenAnswers latency=%v", lat))
	synctest.Test(t, func(t *testing.T) {
		v := vfNewVfAdv(vfAdvConfig(200*time.Second, 600*time.Second, false, 1800*time.Second), false, nil)
		v.conn.latency = func(n int, dst netip.Addr) time.Duration {
			if dst == vfHosts[1] {
				return lat
			}
			return 0
		}
		ctx, cancel := context.WithCancel(context.Background())
		v.conn.t0 = time.Now()
		done := make(chan error, 1)
		go func() { done <- v.a.Run(ctx) }()
		synctest.Wait()
		time.Sleep(5 * time.Second)
		v.conn.deliver(vfRead{m: &ndp.RouterSolicitation{}, hop: 255, host: vfHosts[1].WithZone("vf0")})
		time.Sleep(600 * time.Millisecond) // A's answer has been built and is inside WriteTo by now
		synctest.Wait()
		v.state.setForwarding(false)
		v.conn.deliver(vfRead{m: &ndp.RouterSolicitation{}, hop: 255, host: vfHosts[2].WithZone("vf0")})
		time.Sleep(lat + 2*time.Second)
		synctest.Wait()
		lt := int64(-1)
		for _, w := range v.conn.snapshot() {
			if w.dst == vfHosts[2] && w.ra != nil {
				lt = int64(w.ra.RouterLifetime)
			}
		}
		cancel()
		select {
		case <-done:
		case <-time.After(10 * time.Minute):
		}
		out.Line(new(vfh.Toks).S("bfw").I(int64(lat)).String(), new(vfh.Toks).I(lt).String())
		out.Flush()
	})
}

func verifMidWrite(t *testing.T, r *vfh.Rand, out *vfh.Out) {
	for _, lat := range []time.Duration{500 * time.Millisecond, 2 * time.Second, 2900 * time.Millisecond} {
		vfRunMidWrite(t, out, lat, lat/2|1)
	}
	for i := vfh.N(6, 100); i > 0; i-- {
		lat := time.Duration(r.Range(int64(100*time.Millisecond), int64(2900*time.Millisecond)))
		vfRunMidWrite(t, out, lat, time.Duration(r.Range(1, int64(lat)))|1)
	}
}

func verifFlipBetweenAnswers(t *testing.T, r *vfh.Rand, out *vfh.Out) {
	for _, lat := range []time.Duration{time.Second, 3 * time.Second} {
		vfRunFlipBetweenAnswers(t, out, lat)
	}
	for i := vfh.N(4, 60); i > 0; i-- {
		vfRunFlipBetweenAnswers(t, out, time.Duration(r.Range(int64(700*time.Millisecond), int64(5*time.Second))))
	}
}
