//go:build verif

package corerad

import (
	"context"
	"errors"
	"fmt"
	"io"
	"net"
	"net/http"
	"testing"
	"testing/synctest"
	"time"

	"github.com/mdlayher/corerad/internal/vfh"
)

// c20ServeRetry drives the real serve() retry loop in virtual time with a scripted fn.
//
//	srv delay cancelAt n (kind dur)* | result retAt k callAt*
func c20ServeRetry(t *testing.T, out *vfh.Out, delay, cancelAt time.Duration, script []c20FnOut) {
	out.Pending(fmt.Sprintf("c20ServeRetry delay=%v cancelAt=%v script=%+v", delay, cancelAt, script))
	synctest.Test(t, func(t *testing.T) {
		c := new(vfh.Toks).S("srv").I(int64(delay)).I(int64(cancelAt)).N(len(script))
		for _, o := range script {
			c.S(string("ocxn"[o.kind])).I(int64(o.dur))
		}
		start := time.Now()
		ctx, cancel := context.WithCancel(context.Background())
		if cancelAt == 0 {
			cancel()
		} else if cancelAt > 0 {
			cancel()
			ctx, cancel = context.WithTimeout(context.Background(), cancelAt)
		}
		defer cancel()
		var calls []time.Duration
		n := 0
		fn := func() error {
			calls = append(calls, time.Since(start))
			if n >= len(script) {
				return nil
			}
			o := script[n]
			n++
			time.Sleep(o.dur)
			switch o.kind {
			case 0:
				return &net.OpError{Op: "listen", Net: "tcp", Err: &net.AddrError{Err: "scripted", Addr: "x"}}
			case 1:
				return fmt.Errorf("wrapped: %w", http.ErrServerClosed)
			case 2:
				return errors.New("scripted other error")
			default:
				return nil
			}
		}
		res := "nil"
		func() {
			defer func() {
				if p := recover(); p != nil {
					res = "panic"
				}
			}()
			err := serve(ctx, nil, delay, fn)
			if err != nil {
				res = "err"
				if err.Error() == "timed out starting HTTP debug server" {
					res = "timeout"
				}
			}
		}()
		impl := new(vfh.Toks).S(res).I(int64(time.Since(start))).N(len(calls))
		for _, ca := range calls {
			impl.I(int64(ca))
		}
		out.Line(c.String(), impl.String())
	})
}

type c20FnOut struct {
	kind int // 0 listener (net.OpError) error, 1 http.ErrServerClosed, 2 other error, 3 nil
	dur  time.Duration
}

func c20ServeRetryAll(t *testing.T, r *vfh.Rand, out *vfh.Out) {
	d := 3 * time.Second
	ops := func(n int, last c20FnOut) []c20FnOut {
		var s []c20FnOut
		for i := 0; i < n; i++ {
			s = append(s, c20FnOut{0, 0})
		}
		return append(s, last)
	}
	// k listener errors then each kind of end, around the attempt limit
	for _, k := range []int{0, 1, 2, 38, 39, 40, 41, 45} {
		for kind := 0; kind <= 3; kind++ {
			c20ServeRetry(t, out, d, -1, ops(k, c20FnOut{kind, 0}))
		}
	}
	// cancellation: before the start, during each of the first waits, while the server runs
	for _, ca := range []time.Duration{0, 1, d - 1, d + 1, 2*d - 1, 2*d + 1, 7*d + 12345} {
		c20ServeRetry(t, out, d, ca, ops(50, c20FnOut{1, 0}))
		c20ServeRetry(t, out, d, ca, []c20FnOut{{0, 0}, {0, 2*d + 7}, {1, time.Hour}})
	}
	n := vfh.N(150, 4000)
	for i := 0; i < n; i++ {
		delay := time.Duration(r.Range(1, int64(5*time.Second)))
		var s []c20FnOut
		m := r.Intn(50)
		for j := 0; j < m; j++ {
			dur := time.Duration(0)
			if r.Chance(1, 3) {
				dur = time.Duration(r.Range(1, int64(10*time.Second))) | 1
			}
			k := 0
			if r.Chance(1, 12) {
				k = 1 + r.Intn(3)
			}
			s = append(s, c20FnOut{k, dur})
		}
		s = append(s, c20FnOut{1 + r.Intn(2), 0})
		ca := time.Duration(-1)
		if r.Chance(1, 3) {
			ca = time.Duration(r.Range(0, int64(60*time.Second)))*2 + 1 // odd: never ties with a wake-up on the even grid below
		}
		// keep every wake-up instant even so that a cancellation never coincides with one
		delay &^= 1
		if delay == 0 {
			delay = 2
		}
		for j := range s {
			s[j].dur &^= 1
		}
		c20ServeRetry(t, out, delay, ca, s)
	}
}

// c20HTTPTask runs the real debug HTTP task built by BuildTasks on a loopback port (real time,
// real sockets): it must report ready only once it listens, answer a request with the handler's
// response, and return nil promptly when cancelled. Skipped (and said so) when the sandbox does
// not allow listening on 127.0.0.1.
//
//	http | ready-before-listen ready status body stop
func c20HTTPTask(t *testing.T, out *vfh.Out) {
	probe, err := net.Listen("tcp", "127.0.0.1:0")
	if err != nil {
		out.Line("http 0", "skipped")
		return
	}
	addr := probe.Addr().String()
	probe.Close()
	srv := NewServer(NewContext(nil, nil, nil))
	srv.w = nil
	var cfgDebug = struct{ addr string }{addr}
	h := http.HandlerFunc(func(w http.ResponseWriter, _ *http.Request) { io.WriteString(w, "verif-ok") })
	task := &httpTask{addr: cfgDebug.addr, h: h, readyC: make(chan struct{})}
	early := "0"
	select {
	case <-task.Ready():
		early = "1"
	default:
	}
	ctx, cancel := context.WithCancel(context.Background())
	done := make(chan error, 1)
	errPanic := errors.New("panic")
	go func() {
		defer func() {
			if p := recover(); p != nil {
				done <- errPanic
			}
		}()
		done <- task.Run(ctx)
	}()
	ready := "0"
	select {
	case <-task.Ready():
		ready = "1"
	case <-time.After(5 * time.Second):
	}
	status, body := 0, ""
	if ready == "1" {
		cl := &http.Client{Timeout: 5 * time.Second}
		if resp, err := cl.Get("http://" + addr + "/"); err == nil {
			b, _ := io.ReadAll(resp.Body)
			resp.Body.Close()
			status, body = resp.StatusCode, string(b)
		}
	}
	cancel()
	stop := "hung"
	select {
	case err := <-done:
		stop = "nil"
		if err == errPanic {
			stop = "panic"
		} else if err != nil {
			stop = "err"
		}
	case <-time.After(5 * time.Second):
	}
	// the port is free again
	if l, err := net.Listen("tcp", addr); err == nil {
		l.Close()
	} else {
		stop += "-portbusy"
	}
	if body != "verif-ok" {
		body = "bad"
	}
	out.Line("http 1", new(vfh.Toks).S(early).S(ready).N(status).S(body).S(stop).String())
}
