//go:build verif

package corerad

import "math/big"

// bigInt is a tiny wrapper so that 128-bit address values sort numerically.
type bigInt struct{ v *big.Int }

func newBig(s string) *bigInt {
	v, ok := new(big.Int).SetString(s, 10)
	if !ok {
		v = big.NewInt(0)
	}
	return &bigInt{v}
}
func (b *bigInt) addOne() *bigInt         { return &bigInt{new(big.Int).Add(b.v, big.NewInt(1))} }
func (b *bigInt) Cmp(o *bigInt) int       { return b.v.Cmp(o.v) }
