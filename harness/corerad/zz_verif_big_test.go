//go:build verif

package corerad

import "math/big"

// bigInt is a tiny wrapper so that 128-bit address values sort numerically.
type vfBigInt struct{ v *big.Int }

func vfNewBig(s string) *vfBigInt {
	v, ok := new(big.Int).SetString(s, 10)
	if !ok {
		v = big.NewInt(0)
	}
	return &vfBigInt{v}
}
func (b *vfBigInt) addOne() *vfBigInt         { return &vfBigInt{new(big.Int).Add(b.v, big.NewInt(1))} }
func (b *vfBigInt) Cmp(o *vfBigInt) int       { return b.v.Cmp(o.v) }
