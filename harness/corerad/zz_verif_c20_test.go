//go:build verif

package corerad

import (
	"io"
	"context"
	"fmt"
	"net"
	"os"
	"path/filepath"
	"runtime"
	"strings"
	"sync"
	"sync/atomic"
	"syscall"
	"testing"
	"testing/synctest"
	"time"

	"github.com/mdlayher/corerad/internal/config"
	"github.com/mdlayher/corerad/internal/netstate"
	"github.com/mdlayher/corerad/internal/vfh"
	"github.com/mdlayher/sdnotify"
)

// ---------------------------------------------------------------------------------------------
// C20: server supervision
//
// (1) BuildTasks on generated configurations:
//
//   case: bt n (a|m|n)* debug watcher
//   impl: m (a i | m i | h | w)*      kind of every returned Task (by dynamic type, the
//                                     interface index recovered from its name) | panic
//
// (2) Serve(sigC, notifier, tasks) with scripted Tasks in a testing/synctest bubble.  A tick is
// one virtual millisecond, instants are measured from the call of Serve.
//
//   case: sv n (exit exitAt onCancelErr slow readyAt)* sig sigAt gate
//           exit 0: runs until cancelled, 1: returns an error at exitAt, 2: returns nil at exitAt
//           onCancelErr 1: returns an error (instead of nil) once it saw the cancellation
//           slow: ticks between seeing the cancellation and returning
//           readyAt: closes Ready() at that instant if still running normally; -1 never
//           sig 0 none, 1 SIGHUP, 2 SIGTERM, 3 SIGINT delivered on sigC at instant sigAt
//           gate 1: the harness holds the terminator's mutex while it delivers the signal
//   impl: (rn | re k | rr) (x | c0 | c1)* (a0 | a1) tr len event*
//           rn: Serve returned nil, re k: the error of task k, rr: still running at the horizon
//           per task: x = never saw ctx.Done, c<b> = saw it and terminate() was b at that moment
//           a1: READY=1 was sent
//           events in the order they were recorded:
//             st k  Run entered         rd k  Ready() closed      fl k  Run returns an error
//             en k  Run returns nil on its own                    sg s  signal put on sigC
//             ns    STOPPING=1 datagram oc k b  task k saw ctx.Done, terminate() = b
//             rt k e  task k returns after the cancellation (e = 1: an error)
//             ar    READY=1 datagram    sr e  Serve returned (e = -1 nil, else task index)
//
// The notifier is a real sdnotify.Notifier connected to a unixgram socket owned by the
// harness.  A datagram is in the receiver's queue when the sender's write returns, so the
// recorder reads the socket without blocking (MSG_DONTWAIT) before it appends any event: a
// notification is placed before the first event recorded after it was sent.
//
// A run is observed until Serve returned or, failing that, for 400 virtual ms (`rr`); the
// record is closed then, and only afterwards the harness stops a server that is still running
// (SIGTERM, then an abort channel the scripted tasks listen on, so that a server which never
// cancels its tasks cannot wedge the harness).
//
// The gate makes one legal but unlikely schedule certain: while the harness holds the
// terminator's mutex, set() cannot complete; if the cancellation is nevertheless visible to a
// task, that task reads terminate() before the signal was recorded (the value it gets is the
// field's, read by the mutex holder on its behalf).

const c20Tick = time.Millisecond
const c20Horizon = 400 // ticks

type c20Task struct {
	exit        int
	exitAt      int
	onCancelErr bool
	slow        int
	readyAt     int
}

type c20Scen struct {
	tasks []c20Task
	sig   int
	sigAt int
	gate  bool
}

func (sc *c20Scen) caseLine() string {
	c := new(vfh.Toks).S("sv").N(len(sc.tasks))
	for _, t := range sc.tasks {
		c.N(t.exit).N(t.exitAt).B(t.onCancelErr).N(t.slow).N(t.readyAt)
	}
	c.N(sc.sig).N(sc.sigAt).B(sc.gate)
	return c.String()
}

var c20Signals = []os.Signal{nil, syscall.SIGHUP, syscall.SIGTERM, os.Interrupt}

// c20Sock is the harness' end of the notification socket.
type c20Sock struct {
	conn *net.UnixConn
	rc   syscall.RawConn
	n    *sdnotify.Notifier
	buf  []byte
}

func c20OpenSock(t *testing.T) *c20Sock {
	dir, err := os.MkdirTemp("", "vfc20")
	if err != nil {
		t.Fatal(err)
	}
	t.Cleanup(func() { os.RemoveAll(dir) })
	path := filepath.Join(dir, "notify.sock")
	conn, err := net.ListenUnixgram("unixgram", &net.UnixAddr{Name: path, Net: "unixgram"})
	if err != nil {
		t.Fatalf("unixgram socket: %v", err)
	}
	t.Cleanup(func() { conn.Close() })
	rc, err := conn.SyscallConn()
	if err != nil {
		t.Fatal(err)
	}
	n, err := sdnotify.Open(path)
	if err != nil {
		t.Fatalf("sdnotify.Open: %v", err)
	}
	t.Cleanup(func() { n.Close() })
	return &c20Sock{conn: conn, rc: rc, n: n, buf: make([]byte, 4096)}
}

// recv returns the datagrams that are queued right now; it never blocks.
func (s *c20Sock) recv() []string {
	var out []string
	for {
		n, ok := 0, false
		_ = s.rc.Read(func(fd uintptr) bool {
			m, _, err := syscall.Recvfrom(int(fd), s.buf, syscall.MSG_DONTWAIT)
			if err == nil {
				n, ok = m, true
			}
			return true
		})
		if !ok {
			return out
		}
		out = append(out, string(s.buf[:n]))
	}
}

type c20Rec struct {
	mu     sync.Mutex
	sock   *c20Sock
	ev     vfh.Toks
	n      int
	closed bool
	ready  bool
	saw    []int // -1: never saw ctx.Done; 0/1: terminate() at that moment

	// closed during clean-up: releases tasks a broken server never cancelled
	abort chan struct{}

	// gate
	g        sync.Mutex
	gateHeld bool
	srv      *Server
	sawDone  atomic.Bool
}

func (r *c20Rec) drainLocked() {
	for _, d := range r.sock.recv() {
		for _, l := range strings.Split(d, "\n") {
			switch l {
			case sdnotify.Ready:
				r.ev.S("ar")
				r.n++
				r.ready = true
			case sdnotify.Stopping:
				r.ev.S("ns")
				r.n++
			}
		}
	}
}

func (r *c20Rec) log(f func(t *vfh.Toks)) {
	r.mu.Lock()
	defer r.mu.Unlock()
	if r.closed {
		return
	}
	r.drainLocked()
	if f != nil {
		f(&r.ev)
		r.n++
	}
}

// terminate is what the scripted tasks call: the server's terminate(), except while the gate
// holds the terminator's mutex, when the field is read by the holder.
func (r *c20Rec) terminate() bool {
	r.g.Lock()
	if r.gateHeld {
		v := r.srv.t.term
		r.g.Unlock()
		return v
	}
	r.g.Unlock()
	return r.srv.t.terminate()
}

type c20Fake struct {
	k      int
	b      c20Task
	rec    *c20Rec
	readyC chan struct{}
	once   sync.Once
}

func (f *c20Fake) String() string         { return fmt.Sprintf("vf%d", f.k) }
func (f *c20Fake) Ready() <-chan struct{} { return f.readyC }
func (f *c20Fake) closeReady()            { f.once.Do(func() { close(f.readyC) }) }

func (f *c20Fake) Run(ctx context.Context) error {
	f.rec.log(func(t *vfh.Toks) { t.S("st").N(f.k) })
	exit := func() error {
		if f.b.exit == 1 {
			f.rec.log(func(t *vfh.Toks) { t.S("fl").N(f.k) })
			// what the task fails WITH is the task's business: a plain error, or one that wraps an
			// error of a sub-operation of its own (a context the task itself cancelled or let expire,
			// a closed file, the end of a stream) — it is fatal all the same
			switch cause := []error{nil, context.Canceled, context.DeadlineExceeded, os.ErrClosed, io.EOF}[(f.k+f.b.exitAt)%5]; cause {
			case nil:
				return fmt.Errorf("boom %d", f.k)
			default:
				return fmt.Errorf("boom %d: %w", f.k, cause)
			}
		}
		f.rec.log(func(t *vfh.Toks) { t.S("en").N(f.k) })
		return nil
	}
	if f.b.exit != 0 && f.b.exitAt == 0 {
		return exit()
	}
	var exitC, readyC <-chan time.Time
	if f.b.exit != 0 {
		tm := time.NewTimer(time.Duration(f.b.exitAt) * c20Tick)
		defer tm.Stop()
		exitC = tm.C
	}
	if f.b.readyAt >= 0 {
		tm := time.NewTimer(time.Duration(f.b.readyAt) * c20Tick)
		defer tm.Stop()
		readyC = tm.C
	}
	for {
		select {
		case <-ctx.Done():
			f.rec.sawDone.Store(true)
			b := f.rec.terminate()
			f.rec.log(func(t *vfh.Toks) {
				t.S("oc").N(f.k).B(b)
				f.rec.saw[f.k] = 0
				if b {
					f.rec.saw[f.k] = 1
				}
			})
			if f.b.slow > 0 {
				tm := time.NewTimer(time.Duration(f.b.slow) * c20Tick)
				select {
				case <-tm.C:
				case <-f.rec.abort:
				}
				tm.Stop()
			}
			f.rec.log(func(t *vfh.Toks) { t.S("rt").N(f.k).B(f.b.onCancelErr) })
			if f.b.onCancelErr {
				return fmt.Errorf("late boom %d: %v", f.k, ctx.Err())
			}
			return nil
		case <-readyC:
			readyC = nil
			f.rec.log(func(t *vfh.Toks) { t.S("rd").N(f.k) })
			f.closeReady()
		case <-exitC:
			return exit()
		case <-f.rec.abort:
			return nil
		}
	}
}

// c20Serve runs one scenario; returns the impl tokens.
func c20Serve(t *testing.T, sock *c20Sock, sc *c20Scen) string {
	var impl string
	sock.recv() // nothing may be left over from the previous scenario
	synctest.Test(t, func(t *testing.T) {
		srv := NewServer(NewContext(nil, nil, nil))
		rec := &c20Rec{sock: sock, srv: srv, saw: make([]int, len(sc.tasks)), abort: make(chan struct{})}
		var fakes []*c20Fake
		var tasks []Task
		for k, b := range sc.tasks {
			rec.saw[k] = -1
			f := &c20Fake{k: k, b: b, rec: rec, readyC: make(chan struct{})}
			fakes = append(fakes, f)
			tasks = append(tasks, f)
		}
		sigC := make(chan os.Signal, 1)
		deliver := func() {
			if sc.gate {
				srv.t.mu.Lock()
				rec.g.Lock()
				rec.gateHeld = true
				rec.g.Unlock()
			}
			sent := false
			rec.log(func(t *vfh.Toks) {
				t.S("sg").N(sc.sig)
				select {
				case sigC <- c20Signals[sc.sig]:
					sent = true
				default:
				}
			})
			if sc.gate {
				// Let the signal task run up to set() — or past cancel(), if the source
				// cancels first.
				for i := 0; sent && i < 3000 && !rec.sawDone.Load(); i++ {
					runtime.Gosched()
				}
				for i := 0; rec.sawDone.Load() && i < 300; i++ {
					runtime.Gosched()
				}
				rec.g.Lock()
				rec.gateHeld = false
				srv.t.mu.Unlock()
				rec.g.Unlock()
			}
		}
		if sc.sig != 0 && sc.sigAt == 0 {
			deliver()
		}

		done := make(chan struct{})
		ret := "rr"
		go func() {
			defer close(done)
			defer func() {
				if p := recover(); p != nil {
					ret = "panic"
				}
			}()
			err := srv.Serve(sigC, sock.n, tasks)
			e := -1
			r := "rn"
			if err != nil {
				e = 99
				s := err.Error()
				if i := strings.Index(s, "failed to run task vf"); i >= 0 {
					fmt.Sscanf(s[i+len("failed to run task vf"):], "%d", &e)
				}
				r = fmt.Sprintf("re %d", e)
			}
			rec.log(func(t *vfh.Toks) { t.S("sr").N(e) })
			ret = r
		}()
		quit := make(chan struct{})
		if sc.sig != 0 && sc.sigAt > 0 {
			go func() {
				tm := time.NewTimer(time.Duration(sc.sigAt) * c20Tick)
				defer tm.Stop()
				select {
				case <-tm.C:
					deliver()
				case <-quit:
				}
			}()
		}

		hz := time.NewTimer(c20Horizon * c20Tick)
		running := false
		select {
		case <-done:
		case <-hz.C:
			running = true
		}
		hz.Stop()
		synctest.Wait()
		rec.log(nil)
		rec.mu.Lock()
		rec.closed = true
		out := new(vfh.Toks)
		if running {
			out.S("rr")
		} else {
			out.S(ret)
		}
		for _, s := range rec.saw {
			switch s {
			case -1:
				out.S("x")
			case 0:
				out.S("c0")
			default:
				out.S("c1")
			}
		}
		if rec.ready {
			out.S("a1")
		} else {
			out.S("a0")
		}
		out.S("tr").N(rec.n)
		if rec.n > 0 {
			out.S(rec.ev.String())
		}
		impl = out.String()
		if ret == "panic" {
			impl = "panic"
		}
		rec.mu.Unlock()

		// clean up: stop a server that is still running, release the readiness waiters
		close(quit)
		if running {
			select {
			case sigC <- syscall.SIGTERM:
			default:
			}
			synctest.Wait()
			close(rec.abort)
			<-done
		}
		for _, f := range fakes {
			f.closeReady()
		}
		synctest.Wait()
	})
	sock.recv()
	return impl
}

// c20Distinct hands out distinct instants in [1, max].
type c20Distinct struct {
	r    *vfh.Rand
	used map[int]bool
	max  int
}

func (d *c20Distinct) next() int {
	for {
		v := 1 + d.r.Intn(d.max)
		if !d.used[v] {
			d.used[v] = true
			return v
		}
	}
}

func c20GenScen(r *vfh.Rand) *c20Scen {
	n := vfh.Pick(r, []int{0, 1, 2, 2, 2, 3, 3, 3, 4, 4, 5})
	inst := &c20Distinct{r: r, used: map[int]bool{}, max: 60}
	slows := &c20Distinct{r: r, used: map[int]bool{}, max: 40}
	sc := &c20Scen{}
	zeroErrUsed := false // at most one error-relevant thing happens at instant 0
	zeroSlowErr := false
	// how likely failures are in this scenario
	failW := vfh.Pick(r, []int{0, 1, 1, 2, 4})
	for k := 0; k < n; k++ {
		var b c20Task
		switch x := r.Intn(8); {
		case x < failW:
			b.exit = 1
		case x == 7:
			b.exit = 2
		}
		if b.exit != 0 {
			b.exitAt = inst.next()
			if r.Chance(1, 8) && (b.exit == 2 || !zeroErrUsed) {
				b.exitAt = 0
				if b.exit == 1 {
					zeroErrUsed = true
				}
			}
		}
		if r.Chance(1, 4) {
			b.onCancelErr = true
		}
		switch {
		case b.onCancelErr && !zeroSlowErr && r.Chance(1, 3):
			zeroSlowErr = true
		case b.onCancelErr || r.Chance(1, 2):
			b.slow = slows.next()
		}
		b.readyAt = -1
		if !r.Chance(1, 6) {
			if !r.Chance(1, 2) {
				b.readyAt = inst.next()
			} else {
				// early: among the first instants
				b.readyAt = 1 + r.Intn(8)
				for inst.used[b.readyAt] {
					b.readyAt++
				}
				inst.used[b.readyAt] = true
			}
		}
		sc.tasks = append(sc.tasks, b)
	}
	if !r.Chance(1, 5) {
		sc.sig = 1 + r.Intn(3)
		sc.sigAt = inst.next()
		if !zeroErrUsed && r.Chance(1, 8) {
			sc.sigAt = 0
		}
		sc.gate = sc.sigAt > 0 && r.Chance(1, 2)
	}
	return sc
}

// c20Palette: the behaviours of the enumerated block (instants are fixed per slot so that
// no two decisive instants coincide).
func c20Palette(slot int) []c20Task {
	o := 2 * slot // 0 or 2: shifts every instant of the second task; all palette instants are even
	return []c20Task{
		{readyAt: 4 + o}, // runs until cancelled
		{readyAt: -1},    // never ready
		{exit: 1, exitAt: 20 + o, readyAt: 8 + o},          // fails at 20
		{exit: 1, exitAt: 60 + o, readyAt: -1},             // fails at 60, never ready
		{exit: 2, exitAt: 24 + o, readyAt: 12 + o},         // returns nil early
		{slow: 14 + 4*o, readyAt: 16 + o},                  // slow to stop
		{onCancelErr: true, slow: 6 + 2*o, readyAt: 4 + o}, // error during shutdown, slow
		{exit: 1, exitAt: 0, readyAt: -1},                  // fails at once
	}
}

func verifC20(t *testing.T, r *vfh.Rand, out *vfh.Out) {
	c20Build(t, r, out)
	c20ServeRetryAll(t, r, out)
	out.Flush()
	c20HTTPTask(t, out)
	out.Flush()

	sock := c20OpenSock(t)
	run := func(sc *c20Scen) { out.Pending(sc.caseLine()); out.Line(sc.caseLine(), c20Serve(t, sock, sc)) }

	// enumerated: 2 tasks x palette x signal kind x signal instant (before / between / after
	// the failures), gate on for the signals that arrive while the server runs
	for i, a := range c20Palette(0) {
		for j, b := range c20Palette(1) {
			if i == 7 && j == 7 {
				continue // two failures at the same instant: outcome depends on the scheduler
			}
			run(&c20Scen{tasks: []c20Task{a, b}})
			for sig := 1; sig <= 3; sig++ {
				for _, at := range []int{0, 1, 15, 41, 91} { // odd: never an instant of the palette
					if at == 0 && (i == 7 || j == 7) {
						continue
					}
					run(&c20Scen{tasks: []c20Task{a, b}, sig: sig, sigAt: at, gate: at > 0})
				}
			}
		}
	}
	// 0 and 1 task
	for sig := 0; sig <= 3; sig++ {
		run(&c20Scen{sig: sig, sigAt: 3})
		for _, a := range c20Palette(0) {
			run(&c20Scen{tasks: []c20Task{a}, sig: sig, sigAt: 5, gate: sig != 0})
			run(&c20Scen{tasks: []c20Task{a}, sig: sig, sigAt: 31})
		}
	}

	n := vfh.N(1500, 40000)
	for k := 0; k < n; k++ {
		run(c20GenScen(r))
	}
}

// ---------------------------------------------------------------------------------------------
// BuildTasks

// c20Probe is a task that reads a terminate function once it sees the cancellation.
type c20Probe struct {
	term func() bool
	got  chan bool
}

func (p *c20Probe) Run(ctx context.Context) error {
	<-ctx.Done()
	p.got <- p.term()
	return nil
}
func (p *c20Probe) Ready() <-chan struct{} { c := make(chan struct{}); close(c); return c }
func (p *c20Probe) String() string         { return "verif probe" }

// c20ServeSees runs srv.Serve with one probe task, delivers sig and reports what term() — a function
// handed out by srv.BuildTasks BEFORE Serve was called — returned when the probe saw the cancellation.
func c20ServeSees(srv *Server, term func() bool, sig os.Signal) bool {
	sigC := make(chan os.Signal, 1)
	p := &c20Probe{term: term, got: make(chan bool, 1)}
	done := make(chan error, 1)
	go func() { done <- srv.Serve(sigC, nil, []Task{p}) }()
	sigC <- sig
	var v bool
	select {
	case v = <-p.got:
	case <-time.After(10 * time.Second):
	}
	select {
	case <-done:
	case <-time.After(10 * time.Second):
	}
	return v
}

func c20BuildOne(out *vfh.Out, kinds []int, debug, watcher bool) {
	c := new(vfh.Toks).S("bt").N(len(kinds))
	var cfg config.Config
	for i, k := range kinds {
		ifi := config.Interface{Name: fmt.Sprintf("vf%d", i)}
		switch k {
		case 0:
			c.S("a")
			ifi.Advertise = true
		case 1:
			c.S("m")
			ifi.Monitor = true
		default:
			c.S("n")
		}
		cfg.Interfaces = append(cfg.Interfaces, ifi)
	}
	c.B(debug).B(watcher)
	if debug {
		cfg.Debug.Address = "localhost:9430"
	}
	impl := func() (s string) {
		defer func() {
			if p := recover(); p != nil {
				s = "panic"
			}
		}()
		srv := NewServer(NewContext(nil, nil, nil))
		if !watcher {
			srv.w = nil
		}
		tasks := srv.BuildTasks(cfg, nil)
		// wiring: ending the watch closes every channel the watcher handed out, so a task's
		// channel that is closed afterwards is a subscription of this server's watcher
		if srv.w != nil {
			cctx, ccancel := context.WithCancel(context.Background())
			ccancel()
			_ = srv.w.Watch(cctx)
		}
		wired := func(ch <-chan netstate.Change) string {
			if ch == nil {
				return "w0"
			}
			select {
			case _, ok := <-ch:
				if !ok {
					return "w1"
				}
			default:
			}
			return "wx"
		}
		o := new(vfh.Toks).N(len(tasks))
		for _, task := range tasks {
			idx := func(name string) int {
				i := -1
				fmt.Sscanf(name, "vf%d", &i)
				return i
			}
			switch x := task.(type) {
			case *Advertiser:
				o.S("a").N(idx(x.cfg.Name))
				if task.String() != fmt.Sprintf("advertiser %q", x.cfg.Name) {
					o.S("badname")
				}
				o.S(wired(x.watchC))
				// the advertiser's terminate function is the server's terminator
				srv.t.set(syscall.SIGTERM)
				t1 := x.terminate != nil && x.terminate()
				srv.t.set(syscall.SIGHUP)
				t2 := x.terminate != nil && !x.terminate()
				// … also through Serve, in the order main() uses (BuildTasks first, then Serve on the
				// same Server): what the signal task records must be what this advertiser reads
				if t1 && t2 {
					t1 = c20ServeSees(srv, x.terminate, syscall.SIGTERM) && c20ServeSees(srv, x.terminate, syscall.SIGINT)
					t2 = !c20ServeSees(srv, x.terminate, syscall.SIGHUP)
				}
				if t1 && t2 {
					o.S("t1")
				} else {
					o.S("t0")
				}
			case *Monitor:
				o.S("m").N(idx(x.iface))
				if task.String() != fmt.Sprintf("monitor %q", x.iface) {
					o.S("badname")
				}
				o.S(wired(x.watchC))
			case *httpTask:
				o.S("h")
				if x.addr != cfg.Debug.Address {
					o.S("badaddr")
				}
			case *watcherTask:
				o.S("w")
			default:
				o.S("unknown")
			}
		}
		return o.String()
	}()
	out.Line(c.String(), impl)
}

func c20Build(t *testing.T, r *vfh.Rand, out *vfh.Out) {
	// exhaustive: every list of at most 3 (thorough: 5) interfaces over {adv, mon, neither}
	// x debug address on/off x watcher present/nil
	max := 3
	if vfh.Thorough() {
		max = 5
	}
	var rec func(kinds []int)
	rec = func(kinds []int) {
		for _, d := range []bool{false, true} {
			for _, w := range []bool{true, false} {
				c20BuildOne(out, kinds, d, w)
			}
		}
		if len(kinds) == max {
			return
		}
		for k := 0; k < 3; k++ {
			rec(append(append([]int{}, kinds...), k))
		}
	}
	rec(nil)
	// random longer lists
	n := vfh.N(200, 2000)
	for i := 0; i < n; i++ {
		l := 4 + r.Intn(9)
		kinds := make([]int, l)
		for j := range kinds {
			kinds[j] = r.Intn(3)
		}
		c20BuildOne(out, kinds, r.Bool(), !r.Chance(1, 4))
	}
}
