//go:build verif

package corerad

import (
	"fmt"
	"context"
	"errors"
	"math/rand"
	"net/netip"
	"reflect"
	"testing"
	"testing/synctest"
	"time"

	"github.com/mdlayher/corerad/internal/netstate"
	"github.com/mdlayher/corerad/internal/vfh"
)

// runShutdown stops a running advertiser at instant tc while transmissions are pending or in
// flight (scripted latencies), and records the ordered event log of the connection.
// fwOff: IPv6 forwarding is switched off on the interface right before the stop (the usual order
// of decommissioning a router: stop forwarding, then stop the daemon): the hosts were last told a
// non-zero lifetime, so the final RA is owed to them whatever the interface's state is now.
func vfRunShutdown(t *testing.T, out *vfh.Out, terminate bool, evs []vfAdvEvent, tc time.Duration, lat []time.Duration, failIdx int, atStop int, fwOff bool) {
	out.Pending(fmt.Sprintf("runShutdown terminate=%v stop=%v events=%+v latencies=%v failIdx=%d atStop=%d fwOff=%v", terminate, tc, evs, lat, failIdx, atStop, fwOff))
	synctest.Test(t, func(t *testing.T) {
		min, max := 200*time.Second, 600*time.Second
		v := vfNewVfAdv(vfAdvConfig(min, max, false, 1800*time.Second), terminate, nil)
		v.conn.latency = func(n int, _ netip.Addr) time.Duration {
			if n < len(lat) {
				return lat[n]
			}
			return lat[len(lat)-1] // the final RA and anything beyond the script
		}
		v.conn.writeErr = func(n int, _ netip.Addr) error {
			if n == failIdx {
				return errors.New("scripted transmit error")
			}
			return nil
		}
		ctx, cancel := context.WithCancel(context.Background())
		seed := time.Now().UnixNano()
		mprng := rand.New(rand.NewSource(seed))
		uprng := rand.New(rand.NewSource(seed))
		v.conn.t0 = time.Now()
		start := time.Now()
		done := make(chan error, 1)
		go func() {
			err := v.a.Run(ctx)
			v.conn.mark('R')
			done <- err
		}()
		synctest.Wait()

		c := new(vfh.Toks).S("shut").B(terminate).I(int64(tc)).N(failIdx).N(atStop).B(fwOff).N(len(lat))
		for _, l := range lat {
			c.I(int64(l))
		}
		c.I(int64(min)).I(int64(max)).B(false).I(int64(tc)).N(-1).N(len(evs))
		nUC := 0
		for _, e := range evs {
			c.I(int64(e.t)).N(e.kind).N(e.host).N(e.hop)
			if e.kind == 0 && e.hop == 255 && e.host != 0 {
				nUC++
			}
		}
		nM := int(tc/time.Second) + 2
		c.N(nM)
		for i := 0; i < nM; i++ {
			c.I(mprng.Int63n(max.Nanoseconds() - min.Nanoseconds()))
		}
		c.N(nUC)
		for i := 0; i < nUC; i++ {
			c.I(uprng.Int63n(maxRADelay.Nanoseconds()))
		}

		for _, e := range evs {
			if e.t >= tc {
				break
			}
			if d := e.t - time.Since(start); d > 0 {
				time.Sleep(d)
			}
			if !v.conn.deliver(vfRead{m: vfAdvMessage(e), hop: e.hop, host: vfHosts[e.host].WithZone("vf0")}) {
				break
			}
			synctest.Wait()
		}
		if d := tc - time.Since(start); d > 0 {
			time.Sleep(d)
		}
		if atStop > 0 {
			// solicitations handed to the listener at the very stop instant: the cancellation
			// follows without letting the scheduler settle, so it may find the context cancelled
			// in the middle of a loop iteration
			for k := 0; k < atStop; k++ {
				v.conn.deliver(vfRead{m: vfAdvMessage(vfAdvEvent{kind: 0, host: 1 + k%4}), hop: 255, host: vfHosts[1+k%4].WithZone("vf0")})
			}
		}
		if fwOff {
			v.state.mu.Lock()
			v.state.forwarding = false
			v.state.mu.Unlock()
		}
		v.conn.mark('C')
		cancel()
		status := "nil"
		select {
		case err := <-done:
			if err != nil {
				status = "error"
			}
		case <-time.After(10 * time.Minute):
			status = "hung"
		}
		time.Sleep(time.Minute) // let any straggler finish so that it shows up in the log
		synctest.Wait()

		ws := v.conn.snapshot()
		log := v.conn.eventLog()
		impl := new(vfh.Toks).S(status).N(len(log))
		for _, e := range log {
			impl.S(string(e.kind)).I(int64(e.at))
			switch e.kind {
			case 'B':
				w := ws[e.idx]
				lt := int64(-1)
				same := false
				if w.ra != nil {
					lt = int64(w.ra.RouterLifetime)
					same = reflect.DeepEqual(w.ra.Options, ws[0].ra.Options) &&
						w.ra.CurrentHopLimit == ws[0].ra.CurrentHopLimit && w.ra.ManagedConfiguration == ws[0].ra.ManagedConfiguration
				}
				impl.N(e.idx).B(w.dst == vfAllNodes).N(vfHostID(w.dst)).I(lt).B(same)
			case 'E':
				impl.N(e.idx).B(ws[e.idx].failed)
			}
		}
		out.Line(c.String(), impl.String())
		out.Flush()
	})
}

// runClosedWatch: the link watcher has already ended — its subscriber channels are closed — when the
// advertiser (re)starts its goroutines: platforms without a link watcher, or a stop that lands while
// the interface is being dialled.  The advertiser must serve and stop as usual (final RA when
// terminating, Run returns).  In REAL time with a watchdog: a goroutine spinning on the closed
// channel would never let a virtual clock advance.
//
//	cw terminate | status nFinal nAfter
func vfRunClosedWatch(t *testing.T, out *vfh.Out, terminate bool) {
	out.Pending(fmt.Sprintf("runClosedWatch terminate=%v", terminate))
	watchC := make(chan netstate.Change)
	close(watchC)
	v := vfNewVfAdv(vfAdvConfig(200*time.Second, 600*time.Second, false, 1800*time.Second), terminate, watchC)
	ctx, cancel := context.WithCancel(context.Background())
	done := make(chan error, 1)
	go func() { done <- v.a.Run(ctx) }()
	// the initial RA shows the advertiser is up
	deadline := time.Now().Add(30 * time.Second) // generous: the machine may be busy; costs nothing when all is well
	for len(v.conn.snapshot()) == 0 && time.Now().Before(deadline) {
		time.Sleep(2 * time.Millisecond)
	}
	time.Sleep(20 * time.Millisecond)
	cancel()
	status := "nil"
	select {
	case err := <-done:
		if err != nil {
			status = "error"
		}
	case <-time.After(30 * time.Second):
		status = "hung"
	}
	nFinal, n := 0, 0
	for _, w := range v.conn.snapshot() {
		n++
		if w.ra != nil && w.ra.RouterLifetime == 0 {
			nFinal++
		}
	}
	out.Line(new(vfh.Toks).S("cw").B(terminate).String(), new(vfh.Toks).S(status).N(nFinal).B(n >= 1).String())
	out.Flush()
}

func verifC08(t *testing.T, r *vfh.Rand, out *vfh.Out) {
	for _, term := range []bool{true, false} {
		vfRunClosedWatch(t, out, term)
	}
	n := vfh.N(400, 8000)
	for i := 0; i < n; i++ {
		tc := time.Duration(r.Range(int64(4*time.Second), int64(12*time.Second))) | 1
		var evs []vfAdvEvent
		// solicitations shortly before the stop instant: their answers are pending in their random
		// delay or in flight when the interface is stopped
		for k := r.Intn(5); k > 0; k-- {
			back := time.Duration(r.Range(2, int64(1500*time.Millisecond)))
			evs = append(evs, vfAdvEvent{t: (tc - back) &^ 1 | 1, kind: 0, host: 1 + r.Intn(4), hop: 255})
		}
		if r.Chance(1, 3) { // a solicitation arriving together with the stop
			evs = append(evs, vfAdvEvent{t: tc - 2, kind: 0, host: 1 + r.Intn(4), hop: 255})
		}
		vfSortAdv(evs)
		// latencies: write 0 is the initial RA (instantaneous), 1 the first periodic RA at 3 s
		lat := []time.Duration{0}
		for k := 0; k < 8; k++ {
			switch r.Intn(4) {
			case 0:
				lat = append(lat, 0)
			case 1:
				lat = append(lat, time.Duration(r.Range(1, int64(200*time.Millisecond))))
			default:
				lat = append(lat, time.Duration(r.Range(1, int64(3*time.Second))))
			}
		}
		fail := -1
		atStop := 0
		if r.Chance(1, 3) {
			atStop = 1 + r.Intn(3)
		}
		vfRunShutdown(t, out, r.Chance(2, 3), evs, tc, lat, fail, atStop, r.Chance(1, 3))
	}
	// idle stop, terminate and reload
	for _, term := range []bool{true, false} {
		vfRunShutdown(t, out, term, nil, 10*time.Second+1, []time.Duration{0, 0, 5 * time.Millisecond}, -1, 0, false)
		vfRunShutdown(t, out, term, nil, 10*time.Second+1, []time.Duration{0, 0, 5 * time.Millisecond}, -1, 0, true)
		// the first periodic RA (due at 3 s) still in flight at the stop instant
		vfRunShutdown(t, out, term, nil, 3500*time.Millisecond+1, []time.Duration{0, 2 * time.Second, 10 * time.Millisecond}, -1, 0, false)
		for k := 1; k <= 3; k++ {
			vfRunShutdown(t, out, term, nil, 3500*time.Millisecond+1, []time.Duration{0, 2 * time.Second, 10 * time.Millisecond}, -1, k, k == 2)
		}
		// …and failing while in flight
		vfRunShutdown(t, out, term, nil, 3500*time.Millisecond+1, []time.Duration{0, 2 * time.Second, 10 * time.Millisecond}, 1, 0, false)
		// the stop at the very instant the first periodic RA is due (3 s): the timer and the
		// cancellation race; whichever wins, the final RA must come last and nothing after Run
		// has returned (repeated: the interleaving differs from run to run)
		for k := vfh.N(120, 1500); k > 0; k-- {
			for _, l := range []time.Duration{0, 3 * time.Millisecond, 400 * time.Millisecond} {
				vfRunShutdown(t, out, term, nil, 3*time.Second, []time.Duration{0, l, 7 * time.Millisecond}, -1, 0, false)
			}
		}
	}
}

func vfSortAdv(evs []vfAdvEvent) {
	for i := 1; i < len(evs); i++ {
		for j := i; j > 0 && evs[j].t < evs[j-1].t; j-- {
			evs[j], evs[j-1] = evs[j-1], evs[j]
		}
	}
	for i := 1; i < len(evs); i++ {
		if evs[i].t <= evs[i-1].t {
			evs[i].t = evs[i-1].t + 2
		}
	}
}
