//go:build verif

package corerad

import (
	"errors"
	"fmt"
	"sync/atomic"
	"sync"
	"math"
	"math/big"
	"net/netip"
	"sort"
	"strings"
	"testing"
	"time"

	"github.com/mdlayher/corerad/internal/config"
	"github.com/mdlayher/corerad/internal/vfh"
	"github.com/mdlayher/corerad/internal/vfobs"
	"github.com/mdlayher/metricslite"
	"github.com/prometheus/client_golang/prometheus"
)

// C17 (scrape half): Prometheus const metrics on the production path.
//
// Case line:  scr n { iface lc } sys k { { autoconf fw }×n }×k
//                iface = parsed interface (Driver.Config.pInterface), lc = N never prepared |
//                I initialised | R re-initialising; sys = Driver.Config.pSys (the state the
//                plugins' sources return once prepared); k scrapes in a row, each with its own
//                scripted sysctl reads (T | F | X = the read fails)
// Impl line:  per scrape  ok m { sample }  |  err  |  panic
//                sample = family iface … value, sorted by (family, label values, value);
//                family 0 advertising 1 monitoring 2 autoconfiguration 3 forwarding
//                4 misconfiguration 5 prefix_autonomous 6 prefix_on_link 7 prefix_valid_seconds
//                8 prefix_preferred_seconds 9 route_lifetime_seconds 10 rdnss_lifetime_seconds
//                11 dnssl_lifetime_seconds; value in units of 1e-9 (seconds as nanoseconds)
//
// The registry is the production one: prometheus.NewPedanticRegistry() wrapped by
// metricslite.NewPrometheus, read with Gather().  The registry runs collectors in their own
// goroutines, where a panic cannot be recovered and ends the process (for the daemon: a crash,
// not a failed request).  The harness therefore first calls the registered scrape function
// (*Metrics).constScrape on its own goroutine under recover — same function, same scripted
// reads — and reports `panic` if it panics; only otherwise it gathers.

var c17Families = map[string]int{
	ifiAdvertising:       0,
	ifiMonitoring:        1,
	ifiAutoconfiguration: 2,
	ifiForwarding:        3,
	advMisconfiguration:  4,
	advPrefixAutonomous:  5,
	advPrefixOnLink:      6,
	advPrefixValid:       7,
	advPrefixPreferred:   8,
	advRouteLifetime:     9,
	advRDNSSLifetime:     10,
	advDNSSLLifetime:     11,
}

type c17Sample struct {
	fam  int
	key  []*big.Int // label values as the model's Labels.key
	toks string     // label tokens
	val  int64
	bad  string // non-empty: cannot be mapped back
}

func c17AddrKey(a netip.Addr) []*big.Int {
	if !a.IsValid() {
		return []*big.Int{big.NewInt(0), big.NewInt(0)}
	}
	if a.Is4() {
		b := a.As4()
		return []*big.Int{big.NewInt(4), new(big.Int).SetBytes(b[:])}
	}
	b := a.As16()
	return []*big.Int{big.NewInt(6), new(big.Int).SetBytes(b[:])}
}

func c17Less(a, b c17Sample) bool {
	if a.fam != b.fam {
		return a.fam < b.fam
	}
	for i := 0; i < len(a.key) && i < len(b.key); i++ {
		if c := a.key[i].Cmp(b.key[i]); c != 0 {
			return c < 0
		}
	}
	if len(a.key) != len(b.key) {
		return len(a.key) < len(b.key)
	}
	return a.val < b.val
}

// c17Value maps a gauge value back to integer nanoseconds: the n with
// time.Duration(n).Seconds() == v (boolFloat's 1.0 is 1e9).
func c17Value(v float64) (int64, bool) {
	n := math.Round(v * 1e9)
	if math.IsNaN(n) || math.Abs(n) > math.MaxInt64/2 {
		return 0, false
	}
	if time.Duration(int64(n)).Seconds() != v {
		return 0, false
	}
	return int64(n), true
}

// c17Decode maps one gathered sample back to the ids of the case line.
func c17Decode(fam int, labels map[string]string, v float64, e *vfobs.Enc) c17Sample {
	s := c17Sample{fam: fam}
	ifid, ok := e.Names.Lookup(labels["interface"])
	if !ok {
		s.bad = "?iface"
		return s
	}
	t := new(vfh.Toks).N(ifid)
	s.key = []*big.Int{big.NewInt(int64(ifid))}
	want := 1
	switch {
	case fam <= 3:
	case fam == 4:
		want = 2
		if labels["details"] != "interface_not_forwarding" {
			s.bad = "?details"
			return s
		}
	case fam <= 9:
		want = 2
		name := "prefix"
		if fam == 9 {
			name = "route"
		}
		p, err := netip.ParsePrefix(labels[name])
		if err != nil {
			s.bad = "?cidr"
			return s
		}
		t.Prefix(p)
		s.key = append(append(s.key, c17AddrKey(p.Addr())...), big.NewInt(int64(p.Bits())))
	case fam == 10:
		want = 2
		var addrs []netip.Addr
		if l := labels["servers"]; l != "" {
			for _, x := range strings.Split(l, ", ") {
				a, err := netip.ParseAddr(x)
				if err != nil {
					s.bad = "?server"
					return s
				}
				addrs = append(addrs, a)
			}
		}
		t.N(len(addrs))
		for _, a := range addrs {
			t.Addr(a)
			s.key = append(s.key, c17AddrKey(a)...)
		}
	case fam == 11:
		want = 2
		var ids []int
		if l := labels["domains"]; l != "" {
			for _, x := range strings.Split(l, ", ") {
				id, ok := e.Doms.Lookup(x)
				if !ok {
					s.bad = "?domain"
					return s
				}
				ids = append(ids, id)
			}
		}
		t.N(len(ids))
		for _, id := range ids {
			t.N(id)
			s.key = append(s.key, big.NewInt(int64(id)))
		}
	}
	if len(labels) != want {
		s.bad = "?labels"
		return s
	}
	n, ok := c17Value(v)
	if !ok {
		s.bad = "?value"
		return s
	}
	s.val, s.toks = n, t.String()
	return s
}

// c17Preflight runs the scrape function the registry would run, on this goroutine.
func c17Preflight(mm *Metrics) (panicked bool) {
	defer func() {
		if recover() != nil {
			panicked = true
		}
	}()
	funcs := make(map[string]func(float64, ...string), len(c17Families))
	for name := range c17Families {
		funcs[name] = func(float64, ...string) {}
	}
	_ = mm.constScrape(funcs)
	return false
}

// c17Scrape performs one scrape and writes its canonical result.
func c17Scrape(t *vfh.Toks, mm *Metrics, reg *prometheus.Registry, e *vfobs.Enc) {
	if c17Preflight(mm) {
		t.S("panic")
		return
	}
	mfs, err := reg.Gather()
	if err != nil {
		t.S("err")
		return
	}
	var out []c17Sample
	for _, mf := range mfs {
		name := mf.GetName()
		fam, ok := c17Families[name]
		if !ok {
			if strings.HasPrefix(name, "corerad_interface_") {
				out = append(out, c17Sample{fam: 99, bad: "?family"})
			}
			// other corerad_advertiser_* families are counters/gauges of a running
			// advertiser, not const metrics; none has a child here
			continue
		}
		for _, m := range mf.GetMetric() {
			labels := map[string]string{}
			for _, lp := range m.GetLabel() {
				labels[lp.GetName()] = lp.GetValue()
			}
			if m.GetGauge() == nil {
				out = append(out, c17Sample{fam: fam, bad: "?type"})
				continue
			}
			out = append(out, c17Decode(fam, labels, m.GetGauge().GetValue(), e))
		}
	}
	sort.SliceStable(out, func(i, j int) bool { return c17Less(out[i], out[j]) })
	t.S("ok").N(len(out))
	for _, s := range out {
		if s.bad != "" {
			t.S(s.bad)
			continue
		}
		t.N(s.fam).S(s.toks).I(s.val)
	}
}

func c17Case(t *testing.T, out *vfh.Out, c vfobs.Case) {
	c17CaseW(t, out, c, false)
	c17CaseW(t, out, c, true)
}

// c17CaseW: with warm set, the long-lived Metrics is created — and scraped once — while every
// interface is still uninitialised; the interfaces are then brought to their lifecycle points in
// place (as the advertiser's Prepare does) and the judged scrapes follow.
func c17CaseW(t *testing.T, out *vfh.Out, c vfobs.Case, warm bool) {
	var cfg *config.Config
	var err error
	if warm {
		cfg, err = vfobs.Parse(c.Doc)
	} else {
		cfg, err = c.Prepare()
	}
	if err != nil {
		t.Fatalf("catalogue document %s rejected: %v\n%s", c.Doc.Tag, err, c.Doc.TOML)
	}
	ct := new(vfh.Toks).S("scr")
	e := c.Head(ct, cfg)
	ct.N(len(c.Rounds))
	for _, rd := range c.Rounds {
		for _, x := range rd {
			ct.S(string(x[0])).S(string(x[1]))
		}
	}
	st := &vfobs.State{}
	reg := prometheus.NewPedanticRegistry()
	mm := NewMetrics(metricslite.NewPrometheus(reg), "v", time.Time{}, st, cfg.Interfaces)
	if warm {
		c.Script(st, cfg, 0)
		c17Scrape(new(vfh.Toks), mm, reg, e) // not judged here
		c.Advance(cfg)
	}
	it := new(vfh.Toks)
	for k := range c.Rounds {
		c.Script(st, cfg, k)
		c17Scrape(it, mm, reg, e)
	}
	out.Line(ct.String(), it.String())
}

// c17ConcurrentGathers: several Prometheus servers scraping at the same moment — the collector
// only takes a read lock, so scrapes really overlap. Every one of them must be complete.
//
//	cgs goroutines gathers | bad        (bad = gathers that failed or lack samples)
func c17ConcurrentGathers(t *testing.T, out *vfh.Out) {
	doc := "[[interfaces]]\nname = \"eth0\"\nadvertise = true\n[[interfaces.prefix]]\nprefix = \"2001:db8:0:1::/64\"\n[[interfaces.rdnss]]\nservers = [\"2001:db8::53\"]\n" +
		"[[interfaces]]\nname = \"eth1\"\nadvertise = true\n[[interfaces.prefix]]\nprefix = \"2001:db8:0:2::/64\"\n[[interfaces.route]]\nprefix = \"2001:db8:f::/48\"\n" +
		"[[interfaces]]\nname = \"eth2\"\nmonitor = true\n"
	cfg, err := config.Parse(strings.NewReader(doc), time.Now())
	if err != nil {
		t.Fatalf("concurrent gathers: %v", err)
	}
	st := &vfobs.State{Auto: map[string]vfobs.Read{}, Fwd: map[string]vfobs.Read{}}
	for _, ifi := range cfg.Interfaces {
		st.Auto[ifi.Name], st.Fwd[ifi.Name] = vfobs.ReadFalse, vfobs.ReadTrue
	}
	reg := prometheus.NewPedanticRegistry()
	_ = NewMetrics(metricslite.NewPrometheus(reg), "v", time.Time{}, st, cfg.Interfaces)
	count := func() (int, error) {
		mfs, err := reg.Gather()
		if err != nil {
			return 0, err
		}
		n := 0
		for _, mf := range mfs {
			if strings.HasPrefix(mf.GetName(), "corerad_") {
				n += len(mf.GetMetric())
			}
		}
		return n, nil
	}
	want, err := count()
	if err != nil || want == 0 {
		t.Fatalf("concurrent gathers: solo gather: %d samples, %v", want, err)
	}
	const goroutines, gathers = 8, 150
	var bad int64
	var wg sync.WaitGroup
	for g := 0; g < goroutines; g++ {
		wg.Add(1)
		go func() {
			defer wg.Done()
			for k := 0; k < gathers; k++ {
				if n, err := count(); err != nil || n != want {
					atomic.AddInt64(&bad, 1)
				}
			}
		}()
	}
	wg.Wait()
	out.Line(fmt.Sprintf("cgs %d %d", goroutines, gathers), fmt.Sprint(atomic.LoadInt64(&bad)))
}

// c17SlowState: a system.State whose reads for one interface fail and for another block until released.
type c17SlowState struct {
	bad, slow string
	rel       chan struct{}
	slowReads int64
}

func (s *c17SlowState) IPv6Autoconf(i string) (bool, error) { return s.read(i) }
func (s *c17SlowState) IPv6Forwarding(i string) (bool, error) { return s.read(i) }
func (s *c17SlowState) SetIPv6Autoconf(string, bool) error { return nil }
func (s *c17SlowState) read(i string) (bool, error) {
	switch i {
	case s.bad:
		return false, errors.New("scripted: state of this interface cannot be read")
	case s.slow:
		atomic.AddInt64(&s.slowReads, 1)
		<-s.rel
	}
	return true, nil
}

// c17FailNextToSlow: a scrape in which one interface's state cannot be read while another interface's
// read is slow.  The scrape fails (the failing interface comes first); whatever the collector has
// started for the slow interface must be finished with before the scrape returns — nothing may touch
// the scrape's sinks afterwards (with the Prometheus collector that is a send on a closed channel:
// the daemon dies) — and the next scrape, with everything readable again, is complete.
//
//	cgx | firstFailed secondOK
func c17FailNextToSlow(t *testing.T, out *vfh.Out) {
	out.Pending("c17FailNextToSlow: one interface unreadable, the next one slow; then a normal scrape")
	doc := "[[interfaces]]\nname = \"eth0\"\nadvertise = true\n[[interfaces.prefix]]\nprefix = \"2001:db8:0:1::/64\"\n" +
		"[[interfaces]]\nname = \"eth1\"\nadvertise = true\n[[interfaces.prefix]]\nprefix = \"2001:db8:0:2::/64\"\n"
	cfg, err := config.Parse(strings.NewReader(doc), time.Now())
	if err != nil {
		t.Fatalf("cgx: %v", err)
	}
	st := &c17SlowState{bad: "eth0", slow: "eth1", rel: make(chan struct{})}
	reg := prometheus.NewPedanticRegistry()
	_ = NewMetrics(metricslite.NewPrometheus(reg), "v", time.Time{}, st, cfg.Interfaces)
	type res struct{ err error }
	done := make(chan res, 1)
	go func() {
		_, err := reg.Gather()
		done <- res{err}
	}()
	firstFailed := false
	select {
	case r := <-done:
		firstFailed = r.err != nil
	case <-time.After(3 * time.Second):
		// the scrape waits for the slow interface (it reads the interfaces one after the other, or
		// it waits for all of them): let it finish
	}
	close(st.rel)
	if !firstFailed {
		select {
		case r := <-done:
			firstFailed = r.err != nil
		case <-time.After(20 * time.Second):
		}
	}
	time.Sleep(300 * time.Millisecond) // anything still running for the first scrape gets its chance
	st.bad = ""
	mfs, err := reg.Gather()
	n := 0
	for _, mf := range mfs {
		if strings.HasPrefix(mf.GetName(), "corerad_") {
			n += len(mf.GetMetric())
		}
	}
	out.Line("cgx", new(vfh.Toks).B(firstFailed).B(err == nil && n > 0).String())
	out.Flush()
}

func verifC17(t *testing.T, r *vfh.Rand, out *vfh.Out) {
	c17ConcurrentGathers(t, out)
	c17FailNextToSlow(t, out)
	docs := vfobs.Docs(r, vfh.N(3, 40))
	nt := 0
	for _, d := range docs {
		cfg, err := vfobs.Parse(d)
		if err != nil {
			t.Fatalf("catalogue document %s rejected: %v\n%s", d.Tag, err, d.TOML)
		}
		if vfobs.NonTrivial(cfg) {
			nt++
		}
		for _, c := range vfobs.Cases(r, d, len(cfg.Interfaces)) {
			c17Case(t, out, c)
		}
	}
	t.Logf("C17 scrape: %d documents (%d with an option-bearing advertising interface), %d lines", len(docs), nt, out.Count())
}

var _ = config.Minimal
