//go:build verif

package corerad

import (
	"github.com/mdlayher/corerad/internal/netstate"
	"fmt"
	"context"
	"math/rand"
	"net/netip"
	"os"
	"syscall"
	"sort"
	"testing"
	"testing/synctest"
	"time"

	"github.com/mdlayher/corerad/internal/vfh"
	"github.com/mdlayher/ndp"
)

// A schedEvent is one RA request handed to the scheduler at offset t after its start.
type vfSchedEvent struct {
	t    time.Duration
	host int // 0 = all-nodes multicast request, else index into vfHosts (unicast)
}

func vfReqAddr(host int) netip.Addr {
	if host == 0 {
		return vfAllNodes
	}
	if host >= len(vfHosts) {
		return vfManyHost(host)
	}
	return vfHosts[host]
}

// runSched drives the real (*Advertiser).schedule in virtual time and records every write.
func vfRunSched(t *testing.T, out *vfh.Out, op string, unicastOnly bool, evs []vfSchedEvent, stop time.Duration) {
	out.Pending(fmt.Sprintf("runSched %s unicastOnly=%v events=%+v stop=%v", op, unicastOnly, evs, stop))
	synctest.Test(t, func(t *testing.T) {
		v := vfNewVfAdv(vfAdvConfig(200*time.Second, 600*time.Second, unicastOnly, 1800*time.Second), false, nil)
		ctx, cancel := context.WithCancel(context.Background())
		ipC := make(chan netip.Addr, 16)

		// schedule() seeds its PRNG from the clock when it starts: replicate the draws
		prng := rand.New(rand.NewSource(time.Now().UnixNano()))
		v.conn = vfNewVfConn()
		done := make(chan error, 1)
		go func() { done <- v.a.schedule(ctx, v.conn, ipC) }()
		synctest.Wait()

		nUC := 0
		for _, e := range evs {
			if e.host != 0 {
				nUC++
			}
		}
		c := new(vfh.Toks).S(op).B(unicastOnly).I(int64(stop)).N(len(evs))
		for _, e := range evs {
			c.I(int64(e.t)).N(e.host)
		}
		c.N(nUC)
		for i := 0; i < nUC; i++ {
			c.I(prng.Int63n(maxRADelay.Nanoseconds()))
		}

		start := time.Now()
		for _, e := range evs {
			if e.t >= stop {
				break // the interface is stopped before this request arrives
			}
			if d := e.t - time.Since(start); d > 0 {
				time.Sleep(d)
			}
			ipC <- vfReqAddr(e.host)
			synctest.Wait()
		}
		if d := stop - time.Since(start); d > 0 {
			time.Sleep(d)
		}
		cancel()
		var err error
		select {
		case err = <-done:
		case <-time.After(time.Minute):
			err = context.DeadlineExceeded
		}
		time.Sleep(10 * time.Second) // nothing may be written after the scheduler returned
		synctest.Wait()

		impl := new(vfh.Toks)
		if err != nil {
			impl.S("err")
		} else {
			ws := vfSortedWrites(v.conn.snapshot())
			impl.S("ok").N(len(ws))
			for _, w := range ws {
				impl.I(int64(w.begin)).B(w.dst == vfAllNodes).N(vfHostID(w.dst))
			}
			cs := v.counters()
			impl.N(cs["sent:unicast"]).N(cs["sent:multicast"])
		}
		out.Line(c.String(), impl.String())
		out.Flush()
	})
}

var vfSchedGrid = []time.Duration{100 * time.Millisecond, time.Second, 2900 * time.Millisecond, 3*time.Second - 1, 3 * time.Second,
	3*time.Second + 1, 3100 * time.Millisecond, 6 * time.Second}

func verifSched(t *testing.T, r *vfh.Rand, out *vfh.Out, op string) {
	// (1) bounded-exhaustive: all histories of <= k events whose inter-arrival gaps come from the
	// grid around the 3 s boundary, kinds {multicast trigger, unicast request}
	k := 3
	if vfh.Thorough() {
		k = 4
	}
	var rec func(evs []vfSchedEvent, at time.Duration)
	rec = func(evs []vfSchedEvent, at time.Duration) {
		if len(evs) > 0 {
			vfRunSched(t, out, op, false, evs, at+7*time.Second+1)
		}
		if len(evs) == k {
			return
		}
		for _, g := range vfSchedGrid {
			for _, h := range []int{0, 1} {
				rec(append(append([]vfSchedEvent(nil), evs...), vfSchedEvent{at + g, h}), at+g)
			}
		}
	}
	rec(nil, 0)

	// (2) random bursty histories
	n := vfh.N(300, 6000)
	for i := 0; i < n; i++ {
		ln := 1 + r.Intn(40)
		if vfh.Thorough() && r.Chance(1, 30) {
			ln = 1000
		}
		var evs []vfSchedEvent
		at := time.Duration(0)
		for j := 0; j < ln; j++ {
			switch r.Intn(6) {
			case 0:
				at += vfh.Pick(r, vfSchedGrid)
			case 1:
				at += time.Duration(r.Range(0, int64(10*time.Second)))
			case 2: // burst
				at += time.Duration(r.Range(0, int64(50*time.Millisecond)))
			default:
				at += time.Duration(r.Range(0, int64(4*time.Second)))
			}
			h := 0
			if r.Chance(2, 5) {
				h = 1 + r.Intn(4)
			}
			evs = append(evs, vfSchedEvent{at, h})
		}
		stop := at + time.Duration(r.Range(1, int64(8*time.Second)))
		if r.Chance(1, 4) { // stop while transmissions are still pending
			stop = at/2 + 1
		}
		vfRunSched(t, out, op, r.Chance(1, 5), evs, stop|1)
	}

	// (3) hundreds of distinct solicitors between multicast triggers (whatever the scheduler keeps
	// per destination must not disturb the multicast rate limit, and every solicitor is answered
	// once): cycles of [multicast trigger; K solicitations from fresh hosts within w < 3 s;
	// multicast trigger g after the first one; quiet gap]
	n = vfh.N(12, 200)
	for i := 0; i < n; i++ {
		var evs []vfSchedEvent
		at := time.Duration(r.Range(int64(3*time.Second), int64(5*time.Second)))
		host := 100
		for cyc := 1 + r.Intn(3); cyc > 0; cyc-- {
			evs = append(evs, vfSchedEvent{at, 0})
			k := 100 + r.Intn(200)
			w := time.Duration(r.Range(int64(200*time.Millisecond), int64(2900*time.Millisecond)))
			g := vfh.Pick(r, []time.Duration{w + time.Millisecond, w + 50*time.Millisecond, 2900 * time.Millisecond, 3*time.Second - 1, 3100 * time.Millisecond})
			if g <= w {
				g = w + time.Millisecond
			}
			for j := 0; j < k; j++ {
				evs = append(evs, vfSchedEvent{at + time.Duration(j+1)*w/time.Duration(k+1), host})
				host++
			}
			evs = append(evs, vfSchedEvent{at + g, 0})
			if r.Bool() { // and one more right behind it
				evs = append(evs, vfSchedEvent{at + g + time.Duration(r.Range(1, int64(400*time.Millisecond))), 0})
			}
			at += g + time.Duration(r.Range(int64(3500*time.Millisecond), int64(8*time.Second)))
		}
		vfRunSched(t, out, op, false, evs, (at+4*time.Second)|1)
	}
}

// ---------------------------------------------------------------------------------------------
// full advertiser scenarios: Run with the scripted connection, the real multicast loop and
// listener; solicitations and other messages arrive through ReadFrom.

type vfAdvEvent struct {
	t    time.Duration
	kind int // 0 RS, 1 RA, 2 NS, 3 NA
	host int // index into vfHosts (0 = unspecified source)
	hop  int
	slla bool
}

func vfAdvMessage(e vfAdvEvent) ndp.Message {
	switch e.kind {
	case 0:
		rs := &ndp.RouterSolicitation{}
		if e.slla {
			rs.Options = []ndp.Option{&ndp.LinkLayerAddress{Direction: ndp.Source, Addr: []byte{2, 0, 0, 0, 1, byte(e.host)}}}
		}
		return rs
	case 1:
		return &ndp.RouterAdvertisement{CurrentHopLimit: 64, RouterLifetime: 1800 * time.Second}
	case 2:
		return &ndp.NeighborSolicitation{TargetAddress: netip.MustParseAddr("fe80::1")}
	default:
		return &ndp.NeighborAdvertisement{TargetAddress: netip.MustParseAddr("fe80::1")}
	}
}

var vfAdvTypeNames = []string{"router solicitation", "router advertisement", "neighbor solicitation", "neighbor advertisement"}

func vfRunAdv(t *testing.T, out *vfh.Out, op string, min, max time.Duration, unicastOnly bool, evs []vfAdvEvent, stop time.Duration, failWrite int) {
	out.Pending(fmt.Sprintf("runAdv %s min=%v max=%v unicastOnly=%v events=%+v stop=%v failWrite=%d", op, min, max, unicastOnly, evs, stop, failWrite))
	synctest.Test(t, func(t *testing.T) {
		// a unicast-only interface is stopped as a TERMINATING one: it never transmits to a multicast
		// destination at all — not even the final zero-lifetime RA
		// with a scripted failing transmission the advertiser is wired as Server.BuildTasks wires it:
		// to an open link-state channel (on which nothing arrives) — the failure of another member
		// of the task's group must end the task whether or not the link watcher has anything to do
		var watchC <-chan netstate.Change
		if failWrite >= 0 {
			watchC = make(chan netstate.Change)
		}
		v := vfNewVfAdv(vfAdvConfig(min, max, unicastOnly, 1800*time.Second), unicastOnly, watchC)
		if failWrite >= 0 {
			v.conn.writeErr = func(n int, _ netip.Addr) error {
				if n == failWrite {
					// a fatal error, or — in every other scenario — a transient system call error
					// (the driver's transmit queue is full): whichever it is, this transmission has
					// failed and the incarnation ends; nothing is quietly retried past its due instant
					if len(evs)%2 == 1 {
						return &os.SyscallError{Syscall: "sendmsg", Err: syscall.ENOBUFS}
					}
					return context.DeadlineExceeded
				}
				return nil
			}
		}
		ctx, cancel := context.WithCancel(context.Background())
		// both PRNGs (multicast loop and scheduler) are seeded from the clock at start
		seed := time.Now().UnixNano()
		mprng := rand.New(rand.NewSource(seed))
		uprng := rand.New(rand.NewSource(seed))
		v.conn.t0 = time.Now()
		start := time.Now()
		done := make(chan error, 1)
		go func() { done <- v.a.Run(ctx) }()
		synctest.Wait()

		c := new(vfh.Toks).S(op).I(int64(min)).I(int64(max)).B(unicastOnly).I(int64(stop)).N(failWrite).N(len(evs))
		nUC := 0
		for _, e := range evs {
			c.I(int64(e.t)).N(e.kind).N(e.host).N(e.hop)
			if e.kind == 0 && e.hop == 255 && e.host != 0 {
				nUC++
			}
		}
		// enough multicast-loop draws to cover the run (every wait is at least 1 s)
		nM := int(stop/time.Second) + 2
		c.N(nM)
		for i := 0; i < nM; i++ {
			if min != max {
				c.I(mprng.Int63n(max.Nanoseconds() - min.Nanoseconds()))
			} else {
				c.I(0)
			}
		}
		c.N(nUC)
		for i := 0; i < nUC; i++ {
			c.I(uprng.Int63n(maxRADelay.Nanoseconds()))
		}

		dead := false
		for _, e := range evs {
			if e.t >= stop {
				break // the interface is stopped before this message arrives
			}
			if d := e.t - time.Since(start); d > 0 {
				time.Sleep(d)
			}
			if !v.conn.deliver(vfRead{m: vfAdvMessage(e), hop: e.hop, host: vfHosts[e.host].WithZone("vf0")}) {
				dead = true
				break
			}
			synctest.Wait()
		}
		if d := stop - time.Since(start); d > 0 && !dead {
			time.Sleep(d)
		}
		cancel()
		status := "nil"
		select {
		case err := <-done:
			if err != nil {
				status = "error"
			}
		case <-time.After(10 * time.Minute):
			status = "hung"
		}
		time.Sleep(10 * time.Second)
		synctest.Wait()
		// a transient system call error ends the incarnation just as a fatal one does; the dialer
		// then tries to re-establish the interface (the scripted second dial fails, it keeps
		// retrying with back-off) until the stop arrives, and Run returns nil: the second dial
		// attempt is the evidence that the incarnation was torn down with the error
		if status == "nil" && failWrite >= 0 && len(evs)%2 == 1 && v.dials >= 2 {
			status = "error"
		}

		impl := new(vfh.Toks).S(status).B(dead)
		ws := vfSortedWrites(v.conn.snapshot())
		impl.N(len(ws))
		for _, w := range ws {
			lt := int64(-1)
			if w.ra != nil {
				lt = int64(w.ra.RouterLifetime)
			}
			impl.I(int64(w.begin)).B(w.dst == vfAllNodes).N(vfHostID(w.dst)).B(w.failed).I(lt)
		}
		cs := v.counters()
		impl.N(cs["sent:unicast"]).N(cs["sent:multicast"]).N(cs["errors:transmit"])
		for _, n := range vfAdvTypeNames {
			impl.N(cs["recv:"+n])
		}
		for _, n := range vfAdvTypeNames {
			impl.N(cs["invalid:"+n])
		}
		out.Line(c.String(), impl.String())
		out.Flush()
		if status == "hung" {
			// leave the bubble cleanly: nothing more we can do for this scenario
			t.Log("advertiser did not return after cancellation")
		}
	})
}

func vfGenAdvEvents(r *vfh.Rand, horizon time.Duration, validOnly bool) []vfAdvEvent {
	n := r.Intn(12)
	var evs []vfAdvEvent
	for i := 0; i < n; i++ {
		e := vfAdvEvent{t: time.Duration(r.Range(1, int64(horizon)))|1, hop: 255, host: r.Intn(len(vfHosts)), slla: r.Bool()}
		switch {
		case validOnly || r.Chance(3, 5):
			e.kind = 0
		default:
			e.kind = r.Intn(4)
			if r.Chance(1, 3) {
				e.hop = vfh.Pick(r, []int{0, 1, 64, 254})
			}
		}
		if r.Chance(1, 4) && len(evs) > 0 { // burst right after the previous one
			e.t = evs[len(evs)-1].t + time.Duration(r.Range(2, int64(300*time.Millisecond)))&^1 | 1
		}
		evs = append(evs, e)
	}
	// a crowd: ten or more valid solicitations inside one MIN_DELAY_BETWEEN_RAS window (a switch
	// or an access point came back up), then one from :: a moment later — after whatever the
	// crowd was answered with has already been transmitted; and a second crowd soon after the first
	if r.Chance(1, 5) {
		t0 := time.Duration(r.Range(1, int64(horizon))) | 1
		for rep := 0; rep < 1+r.Intn(2); rep++ {
			k := 9 + r.Intn(9)
			t := t0
			for j := 0; j < k; j++ {
				t += time.Duration(r.Range(2, int64(40*time.Millisecond)))
				evs = append(evs, vfAdvEvent{t: t | 1, hop: 255, host: 1 + r.Intn(len(vfHosts)-1), slla: r.Bool()})
			}
			t += time.Duration(r.Range(int64(600*time.Millisecond), int64(1500*time.Millisecond)))
			evs = append(evs, vfAdvEvent{t: t | 1, hop: 255, host: 0})
			if r.Bool() {
				t += time.Duration(r.Range(2, int64(500*time.Millisecond)))
				evs = append(evs, vfAdvEvent{t: t | 1, hop: 255, host: r.Intn(len(vfHosts))})
			}
			t0 = t + time.Duration(r.Range(int64(100*time.Millisecond), int64(4*time.Second)))
		}
	}
	sort.Slice(evs, func(i, j int) bool { return evs[i].t < evs[j].t })
	// strictly increasing odd instants: arrivals never coincide with each other or with the
	// (whole-second) timers of the multicast loop
	for i := 1; i < len(evs); i++ {
		if evs[i].t <= evs[i-1].t {
			evs[i].t = evs[i-1].t + 2
		}
	}
	return evs
}

func verifAdv(t *testing.T, r *vfh.Rand, out *vfh.Out, op string) {
	n := vfh.N(300, 6000)
	for i := 0; i < n; i++ {
		max := time.Duration(r.Range(4, 30)) * time.Second
		up := vfUpperMin(max)
		min := max
		if up >= 3*time.Second {
			min = time.Duration(r.Range(3, int64(up/time.Second))) * time.Second
		}
		horizon := time.Duration(r.Range(2, 40)) * time.Second
		evs := vfGenAdvEvents(r, horizon, false)
		stop := (horizon + time.Duration(r.Range(0, int64(5*time.Second)))) | 1
		fail := -1
		if r.Chance(1, 8) {
			fail = 1 + r.Intn(6)
		}
		vfRunAdv(t, out, op, min, max, r.Chance(1, 4), evs, stop+2, fail)
	}
}

// verifAdvFail (C10): full advertiser runs in which one transmission fails — a fatal error, or a
// transient system call error — while the task is wired to an open link-state channel: the task must
// end with the error (fatal) or be torn down and re-dialled (transient), never linger half-alive.
//
//	advF … (the adv line) | … (the adv observation; its status is part of the oracle)
func verifAdvFail(t *testing.T, r *vfh.Rand, out *vfh.Out) {
	for k := vfh.N(60, 1500); k > 0; k-- {
		max := time.Duration(r.Range(4, 30)) * time.Second
		up := vfUpperMin(max)
		min := max
		if up >= 3*time.Second {
			min = time.Duration(r.Range(3, int64(up/time.Second))) * time.Second
		}
		horizon := time.Duration(r.Range(8, 40)) * time.Second
		evs := vfGenAdvEvents(r, horizon, true)
		stop := (horizon + time.Duration(r.Range(0, int64(5*time.Second)))) | 1
		vfRunAdv(t, out, "advF", min, max, r.Chance(1, 5), evs, stop+2, r.Intn(4))
	}
}
