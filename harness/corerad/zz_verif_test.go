//go:build verif

package corerad

import (
	"testing"

	"github.com/mdlayher/corerad/internal/vfh"
)

// TestVerif is the entry point of the correspondence harness for package corerad.  It does
// nothing unless VERIF_PROP is set by /verif/check.
func TestVerif(t *testing.T) {
	prop := vfh.Prop()
	if prop == "" {
		t.Skip("VERIF_PROP not set")
	}
	out, err := vfh.OpenOut()
	if err != nil {
		t.Fatal(err)
	}
	defer out.Close()
	r := vfh.NewRand(vfh.Seed())
	switch prop {
	case "C01":
		// the part of "any system state" that is read at (re)initialisation: every RA of a
		// re-established interface carries the hardware address found at that (re)initialisation
		verifReinitState(t, r, out)
		// "never alters the configuration": also not through the other consumers of the built RA
		// (the consistency check of a neighbour's RA works on the RA the configuration produced)
		for k := vfh.N(300, 6000); k > 0; k-- {
			c12Live(t, r, out)
		}
		// "for any system state": every RA, on every path, is built from the state of ITS moment —
		// also when another build is still in flight (the seven-path histories of C04, with
		// generations held inside a plugin while the state changes)
		verifC04Paths(t, r, out)
	case "C04":
		verifC04Paths(t, r, out)
		verifFlipBetweenAnswers(t, r, out)
	case "C05":
		verifC05(t, r, out)
		verifC05Live(t, r, out)
		// a link-state change is not a stop: the re-established interface advertises again, from the
		// initial sequence (the scenarios of C06's reinitialisation clause)
		vfReinOp = "rein5"
		verifReinit(t, r, out)
		vfReinOp = "rein"
		// a failing transmission is not a stop either: the task ends with the error or is re-dialled
		verifAdvFail(t, r, out)
	case "C06":
		verifMidWrite(t, r, out)
		verifSched(t, r, out, "sch6")
		verifAdv(t, r, out, "adv6")
		verifReinit(t, r, out)
	case "C07":
		verifReinitRS(t, r, out)
		verifMidWrite(t, r, out)
		verifSched(t, r, out, "sch7")
		verifAdv(t, r, out, "adv7")
		verifConcurrentFailures(t, out)
		// requests still queued when the interface is re-initialised must die with the old
		// incarnation ("unless the interface is stopped or re-initialised before it is due")
		verifC10GroupQ(t, r, out)
	case "C08":
		verifC08(t, r, out)
		// "identical to its normal RA except for router lifetime 0": the normal RA of THAT moment —
		// with deprecated stanzas the final RA carries the countdown of the stop instant
		verifAdvCountdown(t, r, out)
		// the advertiser's terminate() is the server's terminator: whether a terminating signal is
		// visible to the tasks before they see the cancellation is the Serve scenarios' business
		verifC20(t, r, out)
	case "C09":
		verifC09(t, r, out)
		verifBadTypeWhileUnreadable(t, out)
	case "C10":
		verifC09(t, r, out) // the receive-retry clause of C10 is the listener's loop
		verifC10Group(t, r, out)
		verifC10GroupQ(t, r, out)
		// several transmissions failing while in flight together: the task must still end
		verifConcurrentFailures(t, out)
		// a flapping link: a change notified while the interface is being re-established
		verifLinkFlap(t, r, out)
		verifAdvFail(t, r, out)
	case "C11":
		// nothing in virtual time: the network-namespace scenario (TestVerifNetns) is this
		// package's part of C11
	case "C12":
		verifC12(t, r, out)
	case "C13", "C14", "C15":
		// the wildcards read the system through sources bound at Prepare: every (re)initialisation must
		// prepare the plugins for the interface as it is found then
		verifReinitState(t, r, out)
	case "C16":
		// the countdown inside a running advertiser: every RA it transmits, the final one included
		verifAdvCountdown(t, r, out)
	case "C17":
		verifC17(t, r, out)
		verifReprepare(t, out)
	case "C18":
		verifC18(t, r, out)
		// "the monitor never fails": its receive loop is the shared listener — no number or pattern
		// of invalid messages may end it
		verifC09(t, r, out)
	case "C20":
		verifC20(t, r, out)
	default:
		t.Fatalf("unknown VERIF_PROP %q for package corerad", prop)
	}
}
