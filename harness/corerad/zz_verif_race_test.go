//go:build verif

package corerad

import (
	"net"
	"net/http/httptest"
	"strings"
	"sync"
	"syscall"
	"testing"
	"time"

	"github.com/mdlayher/corerad/internal/config"
	"github.com/mdlayher/corerad/internal/system"
	"github.com/mdlayher/corerad/internal/vfh"
	"github.com/mdlayher/metricslite"
)

// TestVerifRace holds the scenarios that /verif/check runs once more in a binary built with the
// Go race detector (thorough tier): goroutines that the daemon really runs concurrently, sharing
// what they really share. The detector's reports are the observations; nothing is written to the
// case file. A report that is not a recorded finding is a violation (the schedule is the replay).
func TestVerifRace(t *testing.T) {
	switch vfh.Prop() {
	case "C17":
		vfRaceScrapeVsPrepare(t)
	case "C20":
		vfRaceTerminator(t)
	default:
		t.Skip("no race scenario for this property in package corerad")
	}
}

// the advertiser's Prepare loop (every dial and re-dial) against Prometheus scrapes of the
// same configuration — as in the daemon, where cmd/corerad hands one cfg to both
func vfRaceScrapeVsPrepare(t *testing.T) {
	cfg, err := config.Parse(strings.NewReader("[[interfaces]]\nname = \"eth0\"\nadvertise = true\n"+
		"[[interfaces.prefix]]\nprefix = \"2001:db8::/64\"\ndeprecated = true\n[[interfaces.route]]\nprefix = \"2001:db8:f::/48\"\ndeprecated = true\n"+
		"[[interfaces.rdnss]]\nservers = [\"2001:db8::53\"]\n"), time.Now())
	if err != nil {
		t.Fatal(err)
	}
	st := system.TestState{Forwarding: true}
	mm := NewMetrics(metricslite.NewMemory(), "v", time.Time{}, st, cfg.Interfaces)
	var wg sync.WaitGroup
	wg.Add(2)
	go func() {
		defer wg.Done()
		for i := 0; i < 300; i++ {
			for _, p := range cfg.Interfaces[0].Plugins {
				_ = p.Prepare(&net.Interface{Index: 1, Name: "eth0", HardwareAddr: net.HardwareAddr{2, 0, 0, 0, 0, byte(i)}})
			}
		}
	}()
	go func() {
		defer wg.Done()
		for i := 0; i < 300; i++ {
			_, _ = mm.Series()
		}
	}()
	wg.Wait()
}

// the signal task setting the terminator while tasks ask it
func vfRaceTerminator(t *testing.T) {
	srv := NewServer(NewContext(nil, nil, nil))
	var wg sync.WaitGroup
	wg.Add(2)
	go func() {
		defer wg.Done()
		for i := 0; i < 2000; i++ {
			srv.t.set(syscall.SIGTERM)
			srv.t.set(syscall.SIGHUP)
		}
	}()
	go func() {
		defer wg.Done()
		for i := 0; i < 2000; i++ {
			_ = srv.t.terminate()
		}
	}()
	wg.Wait()
}

var _ = httptest.NewRecorder
