//go:build verif

package corerad

import (
	"bytes"
	"context"
	"errors"
	"fmt"
	"math"
	"net"
	"net/netip"
	"sort"
	"strings"
	"testing"
	"time"

	"github.com/mdlayher/corerad/internal/vfh"
	"github.com/mdlayher/metricslite"
	"github.com/mdlayher/ndp"
	"golang.org/x/net/ipv6"
)

// C18: monitor metrics.
//
// Case line:   mon n { host now type [ managed other routerLifetime k { opt } ] }
//                 host  = 128-bit value of the zone-free sender address
//                 now   = receipt time, UnixNano (kept >= 0)
//                 type  = ICMPv6 type; the bracketed part only for 134 (RA)
//                 opt   = 3 addr len onlink autonomous preferred valid | <option type != 3>
//                         len is the length byte as handle sees it (0..255); addr is 0 for the
//                         zero netip.Addr, which ndp's decoder leaves exactly when len > 128
// Impl line:   k { metric host type addr len value }   sorted by (metric, host, type, addr, len)
//                 a prefix label is `addr len` (len <= 128), or `0 256` for the literal
//                 "invalid Prefix" that cidrStr renders for a length above 128
//                 metric 0 received_total, 1 flag_managed, 2 flag_other, 3 default_route,
//                        4 prefix_autonomous, 5 prefix_on_link, 6 prefix_preferred, 7 prefix_valid,
//                        99 = a corerad_monitor_* sample that cannot be mapped back
//
// Label strings are mapped back to the ids of the case line through tables built with the
// same functions the implementation uses (netip.Addr.String, cidrStr, ICMPType.String).
//
// Malformed prefix lengths (129..255): about one Prefix Information option in ten carries one,
// half of the time together with a second malformed option (other address, other length) in the
// same RA or with a well-formed option for the same address.  About a third of all RAs do not
// reach the monitor as the Go value the generator built but as what ndp.ParseMessage decodes
// from their wire form (ndp.MarshalMessage, then the length bytes patched, which is what a
// sender on the link can do; ndp itself refuses to marshal such an option): the decoder keeps
// the length byte and leaves Prefix as the zero netip.Addr.  The rest are handed over as built
// (valid address, length > 128).  Either way cidrStr yields "invalid Prefix".

const c18Iface = "vf0"

var c18Metrics = map[string]int{
	monReceived:         0,
	monFlagManaged:      1,
	monFlagOther:        2,
	monDefaultRoute:     3,
	monPrefixAutonomous: 4,
	monPrefixOnLink:     5,
	monPrefixPreferred:  6,
	monPrefixValid:      7,
}

type c18Event struct {
	host netip.Addr // as the connection reports it: possibly with a zone
	now  int64
	msg  ndp.Message
}

type c18Pfx struct {
	addr netip.Addr
	len  uint8
}

// c18InvalidLabel is what netip.Prefix.String prints for a prefix that is not valid; c18InvalidLen
// is the `len` token that stands for it (no length byte has this value).
const (
	c18InvalidLabel = "invalid Prefix"
	c18InvalidLen   = 256
)

// c18GenBadLen draws a length byte no IPv6 prefix can have.
func c18GenBadLen(r *vfh.Rand) uint8 {
	if r.Chance(1, 2) {
		return vfh.Pick(r, []uint8{129, 130, 136, 192, 200, 254, 255})
	}
	return uint8(r.Range(129, 255))
}

type c18Sample struct {
	metric int
	host   [16]byte
	typ    int
	addr   [16]byte
	len    int
	val    int64
}

// c18Tables holds the reverse label maps of one case.
type c18Tables struct {
	hosts map[string]netip.Addr
	pfxs  map[string]c18Pfx
	types map[string]int
}

func c18GenHosts(r *vfh.Rand) []netip.Addr {
	n := 1 + r.Intn(3)
	var base []netip.Addr
	for i := 0; i < n; i++ {
		switch r.Intn(6) {
		case 0:
			base = append(base, vfh.Addr6(0xfe80<<48, uint64(r.Range(1, 3))))
		case 1:
			base = append(base, vfh.Addr6(0xfe80<<48, r.Uint64()))
		case 2:
			base = append(base, vfh.Addr6(0x20010db8<<32|uint64(r.Intn(2)), uint64(r.Range(0, 2))))
		case 3:
			base = append(base, netip.IPv6Loopback())
		case 4:
			base = append(base, vfh.Addr6(r.Uint64(), r.Uint64()))
		default:
			base = append(base, vfh.Addr6(0xfe80<<48, 1))
		}
	}
	// the same address may appear without a zone and under different zones
	zones := []string{"", "", c18Iface, "eth1", "7"}
	var out []netip.Addr
	for _, b := range base {
		out = append(out, b.WithZone(vfh.Pick(r, zones)))
		if r.Chance(1, 2) {
			out = append(out, b.WithZone(vfh.Pick(r, zones)))
		}
	}
	return out
}

func c18GenPfxs(r *vfh.Rand) []c18Pfx {
	n := 1 + r.Intn(3)
	var out []c18Pfx
	for i := 0; i < n; i++ {
		var a netip.Addr
		switch r.Intn(7) {
		case 0:
			a = vfh.Addr6(0x20010db8<<32, 0)
		case 1:
			a = vfh.Addr6(0x20010db8<<32|uint64(r.Range(0, 3)), 0)
		case 2:
			a = vfh.Addr6(0xfd00<<48|uint64(r.Range(0, 3))<<16, uint64(r.Range(0, 1))) // host bits set sometimes
		case 3:
			a = netip.IPv6Unspecified()
		case 4:
			a = vfh.Addr6(0, 0xffff<<32|uint64(r.Intn(1<<16))) // IPv4-mapped
		case 5:
			a = vfh.Addr6(r.Uint64(), r.Uint64())
		default:
			a = vfh.Addr6(0xfe80<<48, 0)
		}
		var l uint8
		switch r.Intn(5) {
		case 0:
			l = 64
		case 1:
			l = vfh.Pick(r, []uint8{0, 1, 32, 48, 56, 63, 65, 96, 127, 128})
		default:
			l = uint8(r.Intn(129)) // the pool is well-formed; c18GenRA draws the lengths above 128
		}
		out = append(out, c18Pfx{a, l})
		if r.Chance(1, 3) { // same address, another length
			out = append(out, c18Pfx{a, uint8(r.Intn(129))})
		}
	}
	return out
}

func c18GenLifetime(r *vfh.Rand, router bool) time.Duration {
	switch r.Intn(12) {
	case 0, 1:
		return 0
	case 2:
		if router {
			return 65535 * time.Second
		}
		return ndp.Infinity
	case 3:
		return ndp.Infinity
	case 4:
		return time.Duration(r.Range(1, 65535)) * time.Second
	case 5:
		return time.Duration(r.Range(1, 1<<32-2)) * time.Second
	case 6: // sub-second parts (not reachable from the wire, but handle takes any Duration)
		return time.Duration(r.Range(1, int64(2*time.Second)))
	case 7:
		return time.Duration(r.Range(1, int64(100*time.Hour)))
	case 8:
		return time.Duration(r.Range(1, 1<<62))
	case 9: // negative: the sum may fall before 1970
		return -time.Duration(r.Range(1, int64(3*time.Second)))
	case 10:
		return vfh.Pick(r, []time.Duration{1, time.Second - 1, time.Second, time.Second + 1, 1800 * time.Second, 24 * time.Hour, 30 * 24 * time.Hour})
	default:
		return time.Duration(r.Range(1, 86400*30)) * time.Second
	}
}

func c18GenNow(r *vfh.Rand) int64 {
	const y2260 = 9151488000
	switch r.Intn(8) {
	case 0:
		return 0
	case 1:
		return r.Range(0, int64(2*time.Second))
	case 2: // exactly on a second
		return r.Range(0, y2260) * int64(time.Second)
	case 3: // one ns around a second
		return r.Range(1, y2260)*int64(time.Second) + r.Range(-1, 1)
	case 4:
		return r.Range(1600000000, 1900000000)*int64(time.Second) + r.Range(0, int64(time.Second)-1)
	default:
		return r.Range(0, y2260*int64(time.Second))
	}
}

func c18GenOther(r *vfh.Rand, pfxs []c18Pfx) ndp.Option {
	switch r.Intn(6) {
	case 0:
		return &ndp.MTU{MTU: uint32(r.Range(1280, 9000))}
	case 1:
		return &ndp.RecursiveDNSServer{Lifetime: c18GenLifetime(r, false), Servers: []netip.Addr{vfh.Addr6(0x20010db8<<32, 53)}}
	case 2:
		return &ndp.LinkLayerAddress{Direction: ndp.Source, Addr: net.HardwareAddr{2, 0, 0, 0, 0, byte(r.Intn(256))}}
	case 3: // a decoy: same prefix as a PI, but a Route Information option
		p := vfh.Pick(r, pfxs)
		return &ndp.RouteInformation{Prefix: p.addr, PrefixLength: p.len, RouteLifetime: c18GenLifetime(r, false)}
	case 4:
		return &ndp.DNSSearchList{Lifetime: c18GenLifetime(r, false), DomainNames: []string{"example.com"}}
	default:
		return &ndp.RawOption{Type: uint8(r.Range(40, 250)), Length: 1, Value: make([]byte, 6)}
	}
}

func c18GenRA(r *vfh.Rand, pfxs []c18Pfx) *ndp.RouterAdvertisement {
	ra := &ndp.RouterAdvertisement{
		CurrentHopLimit:      uint8(r.Intn(256)),
		ManagedConfiguration: r.Bool(),
		OtherConfiguration:   r.Bool(),
		RouterLifetime:       c18GenLifetime(r, true),
		ReachableTime:        time.Duration(r.Range(0, 3600000)) * time.Millisecond,
		RetransmitTimer:      time.Duration(r.Range(0, 3600000)) * time.Millisecond,
	}
	npi := r.Intn(5) // 0..4 prefixes, repeats likely (small pool)
	nother := 0
	if r.Chance(2, 3) {
		nother = r.Intn(4)
	}
	addPI := func(a netip.Addr, l uint8) {
		ra.Options = append(ra.Options, &ndp.PrefixInformation{
			PrefixLength:                   l,
			OnLink:                         r.Bool(),
			AutonomousAddressConfiguration: r.Bool(),
			ValidLifetime:                  c18GenLifetime(r, false),
			PreferredLifetime:              c18GenLifetime(r, false),
			Prefix:                         a,
		})
	}
	for i := 0; i < npi; i++ {
		p := vfh.Pick(r, pfxs)
		if !r.Chance(1, 10) {
			addPI(p.addr, p.len)
			continue
		}
		// a length byte above 128
		bad := c18GenBadLen(r)
		addPI(p.addr, bad)
		switch r.Intn(4) {
		case 0: // a second malformed option in the same RA: other address, other length
			q := vfh.Pick(r, pfxs)
			addPI(q.addr, c18GenBadLen(r))
		case 1: // a well-formed option for the same address next to it
			addPI(p.addr, p.len)
		case 2: // both
			addPI(p.addr, p.len)
			addPI(vfh.Pick(r, pfxs).addr, c18GenBadLen(r))
		}
	}
	for i := 0; i < nother; i++ {
		ra.Options = append(ra.Options, c18GenOther(r, pfxs))
	}
	vfh.Shuffle(r, ra.Options)
	return ra
}

// c18WholeSeconds brings a lifetime into what the wire can carry: whole seconds in [0, max].
func c18WholeSeconds(d time.Duration, max int64) time.Duration {
	s := int64(d / time.Second)
	if s < 0 {
		s = -s
	}
	if s > max {
		s = max
	}
	return time.Duration(s) * time.Second
}

// c18Wire returns the RA as the monitor of a real interface gets it: encoded, the length byte
// of every Prefix Information option set to what the generator drew (also above 128), and
// decoded again by ndp.ParseMessage.  Before encoding, the RA is brought into the encodable
// range (lifetimes in whole seconds, prefixes masked to their length, no IPv4-mapped prefix,
// which the decoder rejects together with the whole message, as it does a Route Information
// option with a length above 128).  The case line is rendered from the decoded message.
func c18Wire(t *testing.T, ra *ndp.RouterAdvertisement) *ndp.RouterAdvertisement {
	unmap := func(a netip.Addr) netip.Addr {
		if a.Is4In6() {
			b := a.As16()
			b[0], b[1] = 0x20, 0x01
			return netip.AddrFrom16(b)
		}
		return a
	}
	w := *ra
	w.RouterLifetime = c18WholeSeconds(ra.RouterLifetime, 65535)
	w.Options = nil
	var lens []uint8 // length byte of the i-th Prefix Information option on the wire
	for _, o := range ra.Options {
		switch o := o.(type) {
		case *ndp.PrefixInformation:
			c := *o
			c.ValidLifetime = c18WholeSeconds(o.ValidLifetime, 1<<32-1)
			c.PreferredLifetime = c18WholeSeconds(o.PreferredLifetime, 1<<32-1)
			lens = append(lens, o.PrefixLength)
			if c.PrefixLength > 128 {
				c.PrefixLength = 128 // encodable; patched below
			}
			c.Prefix = netip.PrefixFrom(unmap(o.Prefix), int(c.PrefixLength)).Masked().Addr()
			w.Options = append(w.Options, &c)
		case *ndp.RouteInformation:
			c := *o
			c.RouteLifetime = c18WholeSeconds(o.RouteLifetime, 1<<32-1)
			if c.PrefixLength > 128 {
				c.PrefixLength = 128
			}
			c.Prefix = netip.PrefixFrom(unmap(o.Prefix), int(c.PrefixLength)).Masked().Addr()
			w.Options = append(w.Options, &c)
		case *ndp.RecursiveDNSServer:
			c := *o
			c.Lifetime = c18WholeSeconds(o.Lifetime, 1<<32-1)
			w.Options = append(w.Options, &c)
		case *ndp.DNSSearchList:
			c := *o
			c.Lifetime = c18WholeSeconds(o.Lifetime, 1<<32-1)
			w.Options = append(w.Options, &c)
		default:
			w.Options = append(w.Options, o)
		}
	}
	b, err := ndp.MarshalMessage(&w)
	if err != nil {
		t.Fatalf("C18 harness: RA %+v does not encode: %v", w, err)
	}
	// walk the options (type, length in units of 8 bytes) behind the 4-byte ICMPv6 header and
	// the 12-byte RA body; Prefix Information is type 3, 32 bytes, length byte at offset 2
	i := 0
	for off := 16; off+2 <= len(b); {
		n := int(b[off+1]) * 8
		if n == 0 || off+n > len(b) {
			t.Fatalf("C18 harness: bad option framing at %d in % x", off, b)
		}
		if b[off] == 3 && n == 32 {
			if i >= len(lens) {
				t.Fatalf("C18 harness: more Prefix Information options on the wire than generated")
			}
			b[off+2] = lens[i]
			i++
		}
		off += n
	}
	if i != len(lens) {
		t.Fatalf("C18 harness: %d of %d Prefix Information options found on the wire", i, len(lens))
	}
	m, err := ndp.ParseMessage(b)
	if err != nil {
		t.Fatalf("C18 harness: wire form % x does not decode: %v", b, err)
	}
	out, ok := m.(*ndp.RouterAdvertisement)
	if !ok {
		t.Fatalf("C18 harness: decoded %T", m)
	}
	return out
}

func c18GenMsg(t *testing.T, r *vfh.Rand, pfxs []c18Pfx, raBias int) ndp.Message {
	if r.Chance(raBias, 10) {
		ra := c18GenRA(r, pfxs)
		if r.Chance(1, 3) {
			return c18Wire(t, ra)
		}
		return ra
	}
	switch r.Intn(3) {
	case 0:
		return &ndp.RouterSolicitation{Options: []ndp.Option{c18GenOther(r, pfxs)}}
	case 1:
		return &ndp.NeighborSolicitation{TargetAddress: vfh.Addr6(0xfe80<<48, 9)}
	default:
		return &ndp.NeighborAdvertisement{Router: r.Bool(), Solicited: r.Bool(), TargetAddress: vfh.Addr6(0xfe80<<48, 9)}
	}
}

func c18GenSeq(t *testing.T, r *vfh.Rand, n int, raBias int) []c18Event {
	hosts := c18GenHosts(r)
	pfxs := c18GenPfxs(r)
	evs := make([]c18Event, 0, n)
	for i := 0; i < n; i++ {
		// one event in three (after the first) is the NEXT RA of a router seen before: the earlier RA
		// with one thing changed — a prefix's on-link or autonomous flag, a lifetime, the M or O
		// flag, a prefix added or withdrawn — or nothing changed at all.  Every RA is described on
		// its own, whatever the router sent before.
		if i > 0 && r.Chance(1, 3) {
			var prevs []int
			for j, e := range evs {
				if _, ok := e.msg.(*ndp.RouterAdvertisement); ok {
					prevs = append(prevs, j)
				}
			}
			if len(prevs) > 0 {
				p := evs[vfh.Pick(r, prevs)]
				evs = append(evs, c18Event{host: p.host, now: c18GenNow(r), msg: c18Derive(r, p.msg.(*ndp.RouterAdvertisement), pfxs)})
				continue
			}
		}
		evs = append(evs, c18Event{host: vfh.Pick(r, hosts), now: c18GenNow(r), msg: c18GenMsg(t, r, pfxs, raBias)})
	}
	return evs
}

// c18Derive: a copy of ra with one thing changed (or none).
func c18Derive(r *vfh.Rand, ra *ndp.RouterAdvertisement, pfxs []c18Pfx) *ndp.RouterAdvertisement {
	out := *ra
	out.Options = nil
	var pis []int
	for i, o := range ra.Options {
		if pi, ok := o.(*ndp.PrefixInformation); ok {
			cp := *pi
			out.Options = append(out.Options, &cp)
			pis = append(pis, i)
		} else {
			out.Options = append(out.Options, o)
		}
	}
	switch k := r.Intn(8); {
	case k == 0 && len(pis) > 0:
		pi := out.Options[vfh.Pick(r, pis)].(*ndp.PrefixInformation)
		pi.OnLink = !pi.OnLink
	case k == 1 && len(pis) > 0:
		pi := out.Options[vfh.Pick(r, pis)].(*ndp.PrefixInformation)
		pi.AutonomousAddressConfiguration = !pi.AutonomousAddressConfiguration
	case k == 2 && len(pis) > 0:
		pi := out.Options[vfh.Pick(r, pis)].(*ndp.PrefixInformation)
		pi.ValidLifetime += time.Hour
	case k == 3:
		out.ManagedConfiguration = !out.ManagedConfiguration
	case k == 4:
		out.OtherConfiguration = !out.OtherConfiguration
	case k == 5 && len(pfxs) > 0: // a prefix added (all else equal)
		p := vfh.Pick(r, pfxs)
		out.Options = append(out.Options, &ndp.PrefixInformation{PrefixLength: p.len, OnLink: r.Bool(), AutonomousAddressConfiguration: r.Bool(),
			ValidLifetime: 2 * time.Hour, PreferredLifetime: time.Hour, Prefix: p.addr})
	case k == 6 && len(pis) > 0: // a prefix withdrawn
		i := vfh.Pick(r, pis)
		out.Options = append(append([]ndp.Option(nil), out.Options[:i]...), out.Options[i+1:]...)
	}
	return &out
}

// c18Case renders the case line and builds the reverse label tables.  Only the zone-free
// address of each sender is recorded.
func c18Case(t *testing.T, evs []c18Event) (string, *c18Tables) {
	tb := &c18Tables{hosts: map[string]netip.Addr{}, pfxs: map[string]c18Pfx{}, types: map[string]int{}}
	c := new(vfh.Toks).S("mon").N(len(evs))
	for _, e := range evs {
		h := e.host.WithZone("")
		tb.hosts[h.String()] = h
		tb.types[e.msg.Type().String()] = int(e.msg.Type())
		c.S(c18Val(h)).I(e.now).N(int(e.msg.Type()))
		ra, ok := e.msg.(*ndp.RouterAdvertisement)
		if !ok {
			continue
		}
		c.B(ra.ManagedConfiguration).B(ra.OtherConfiguration).I(int64(ra.RouterLifetime)).N(len(ra.Options))
		for _, o := range ra.Options {
			pi, ok := o.(*ndp.PrefixInformation)
			if !ok {
				c.N(int(o.Code()))
				continue
			}
			switch {
			case pi.PrefixLength > 128:
				// no CIDR form; the literal label is always in the table (c18Map)
			case !pi.Prefix.Is6():
				t.Fatalf("C18 harness: Prefix Information %+v is outside the model (no 16-byte address)", pi)
			default:
				tb.pfxs[cidrStr(pi.Prefix, pi.PrefixLength)] = c18Pfx{pi.Prefix, pi.PrefixLength}
			}
			c.N(3).S(c18Val(pi.Prefix)).N(int(pi.PrefixLength)).B(pi.OnLink).B(pi.AutonomousAddressConfiguration).
				I(int64(pi.PreferredLifetime)).I(int64(pi.ValidLifetime))
		}
	}
	return c.String(), tb
}

func c18Val(a netip.Addr) string {
	// `family value` -> value only (always IPv6 here)
	s := new(vfh.Toks).Addr(a).String()
	return s[strings.IndexByte(s, ' ')+1:]
}

// c18Read maps every corerad_monitor_* sample back to ids and renders them canonically.
func c18Read(mm *Metrics, tb *c18Tables) string {
	series, ok := mm.Series()
	if !ok {
		return "1 99 0 0 0 0 0"
	}
	var out []c18Sample
	bad := c18Sample{metric: 99}
	for name, s := range series {
		if !strings.HasPrefix(name, "corerad_monitor_") {
			continue
		}
		id, known := c18Metrics[name]
		for key, v := range s.Samples {
			if !known {
				out = append(out, bad)
				continue
			}
			out = append(out, c18Map(id, key, v, tb))
		}
	}
	sort.Slice(out, func(i, j int) bool {
		a, b := out[i], out[j]
		if a.metric != b.metric {
			return a.metric < b.metric
		}
		if c := bytes.Compare(a.host[:], b.host[:]); c != 0 {
			return c < 0
		}
		if a.typ != b.typ {
			return a.typ < b.typ
		}
		if c := bytes.Compare(a.addr[:], b.addr[:]); c != 0 {
			return c < 0
		}
		return a.len < b.len
	})
	t := new(vfh.Toks).N(len(out))
	for _, s := range out {
		t.N(s.metric).S(c18Val(netip.AddrFrom16(s.host))).N(s.typ).S(c18Val(netip.AddrFrom16(s.addr))).N(s.len).I(s.val)
	}
	return t.String()
}

func c18Map(id int, key string, v float64, tb *c18Tables) c18Sample {
	bad := c18Sample{metric: 99}
	// never compare floats textually: every monitor sample is a whole number
	if v != math.Trunc(v) || math.IsInf(v, 0) || math.IsNaN(v) || math.Abs(v) >= 1<<62 {
		return bad
	}
	s := c18Sample{metric: id, val: int64(v)}
	var want []string
	switch id {
	case 0:
		want = []string{"interface", "host", "message"}
	case 1, 2, 3:
		want = []string{"interface", "router"}
	default:
		want = []string{"interface", "prefix", "router"}
	}
	parts := strings.Split(key, ",")
	if len(parts) != len(want) {
		return bad
	}
	for i, p := range parts {
		k, val, ok := strings.Cut(p, "=")
		if !ok || k != want[i] {
			return bad
		}
		switch k {
		case "interface":
			if val != c18Iface {
				return bad
			}
		case "host", "router":
			h, ok := tb.hosts[val]
			if !ok {
				return bad // e.g. a zone left in place
			}
			s.host = h.As16()
		case "message":
			ty, ok := tb.types[val]
			if !ok {
				return bad
			}
			s.typ = ty
		case "prefix":
			if val == c18InvalidLabel {
				s.addr, s.len = [16]byte{}, c18InvalidLen
				break
			}
			p, ok := tb.pfxs[val]
			if !ok {
				return bad
			}
			s.addr, s.len = p.addr.As16(), int(p.len)
		}
	}
	return s
}

func c18NewMonitor() (*Monitor, *Metrics) {
	mm := NewMetrics(metricslite.NewMemory(), "v", time.Time{}, nil, nil)
	cctx := NewContext(nil, mm, nil)
	return NewMonitor(cctx, c18Iface, nil, nil, false), mm
}

// c18Direct calls handle for each message with an injected clock; the zone is cleared the way
// Listen does it before the callback.
func c18Direct(t *testing.T, out *vfh.Out, evs []c18Event) {
	c, tb := c18Case(t, evs)
	out.Pending("c18Direct " + c) // a panic in handle makes this case the failing input
	m, mm := c18NewMonitor()
	var cur int64
	m.now = func() time.Time { return time.Unix(0, cur) }
	for _, e := range evs {
		cur = e.now
		host := e.host.WithZone("")
		m.handle(e.msg, host.String())
	}
	out.Line(c, c18Read(mm, tb))
}

// c18Conn scripts ReadFrom; after the last message it cancels the context and times out.
type c18Conn struct {
	evs    []c18Event
	i      int
	cur    *int64
	cancel context.CancelFunc
	// racing: the context is cancelled (a link-state change, a stop) while the read of the LAST
	// message is in flight, and the read still returns that message: it was received, so it is
	// counted and reported like any other
	racing bool
}

type c18Timeout struct{}

func (c18Timeout) Error() string   { return "scripted timeout" }
func (c18Timeout) Timeout() bool   { return true }
func (c18Timeout) Temporary() bool { return true }

func (c *c18Conn) ReadFrom() (ndp.Message, *ipv6.ControlMessage, netip.Addr, error) {
	if c.i >= len(c.evs) {
		c.cancel()
		return nil, nil, netip.Addr{}, c18Timeout{}
	}
	e := c.evs[c.i]
	c.i++
	*c.cur = e.now // handle runs on this goroutine before the next ReadFrom
	if c.racing && c.i == len(c.evs) {
		c.cancel()
	}
	return e.msg, &ipv6.ControlMessage{HopLimit: ndp.HopLimit}, e.host, nil
}
func (c *c18Conn) SetReadDeadline(time.Time) error { return nil }
func (c *c18Conn) WriteTo(ndp.Message, *ipv6.ControlMessage, netip.Addr) error {
	return errors.New("monitor must not write")
}

// c18Listen delivers the sequence through the real listener (`(*Monitor).monitor` ->
// `Listen` -> callback -> `handle`), senders carrying their zones.
func c18Listen(t *testing.T, out *vfh.Out, evs []c18Event, racing bool) {
	c, tb := c18Case(t, evs)
	out.Pending(fmt.Sprintf("c18Listen racing=%v %s", racing, c))
	m, mm := c18NewMonitor()
	var cur int64
	m.now = func() time.Time { return time.Unix(0, cur) }
	delivered := 0
	m.OnMessage = func(ndp.Message) { delivered++ }
	ctx, cancel := context.WithCancel(context.Background())
	defer cancel()
	err := m.monitor(ctx, &c18Conn{evs: evs, cur: &cur, cancel: cancel, racing: racing})
	if !errors.Is(err, context.Canceled) {
		t.Fatalf("C18: monitor loop returned %v", err)
	}
	// a message that was read but not delivered shows as a difference from the model below
	_ = delivered
	out.Line(c, c18Read(mm, tb))
}

func verifC18(t *testing.T, r *vfh.Rand, out *vfh.Out) {
	// (1) single messages
	n := vfh.N(5000, 100000)
	for k := 0; k < n; k++ {
		c18Direct(t, out, c18GenSeq(t, r, 1, 8))
	}
	// (2) sequences: several senders, repeated senders and prefixes
	n = vfh.N(5000, 100000)
	for k := 0; k < n; k++ {
		c18Direct(t, out, c18GenSeq(t, r, 2+r.Intn(9), 3+r.Intn(7)))
	}
	// (3) the same through the real listener (zone stripping is the listener's)
	n = vfh.N(1000, 20000)
	for k := 0; k < n; k++ {
		c18Listen(t, out, c18GenSeq(t, r, 1+r.Intn(8), 3+r.Intn(7)), k%2 == 1)
	}
}
