//go:build verif

package config

import (
	"fmt"
	"sort"
	"strings"
	"testing"
	"time"
	"unsafe"

	"net/netip"

	"github.com/mdlayher/corerad/internal/plugin"
	"github.com/mdlayher/corerad/internal/system"
	"github.com/mdlayher/corerad/internal/vfh"
	"github.com/mdlayher/ndp"
)

// C16 on real clock readings.  The daemon hands config.Parse `time.Now()` as the epoch and the
// plugins read `time.Now` after Prepare: both carry a MONOTONIC reading, and package time compares
// and subtracts two such readings on the monotonic clock.  A "non-decreasing sequence of clock
// readings" (the property's quantifier) is therefore non-decreasing on that clock — the wall
// clock may be stepped in between (NTP, an administrator, a router without a battery-backed clock)
// without any effect on the countdown.  This scenario builds such readings: the monotonic part
// advances by the scripted amounts while the wall part is shifted back or forth by up to a day.
//
// The wall part of a time.Time cannot be shifted independently through the public API; the
// readings are made by editing the seconds field of the packed `wall` word (layout of
// time.Time: wall uint64 — bit 63 hasMonotonic, 33 bits seconds since 1885, 30 bits
// nanoseconds —, ext int64 — the monotonic reading —, loc *Location).  Every crafted reading is
// checked through the public API (Sub against the epoch = the monotonic difference; Round(0), which
// strips the monotonic reading, = the shifted wall time); if the layout ever differs the scenario
// reports `skip` instead of running.
//
// Lines: the `pl` / `rl` lines of package plugin (epoch and instants on ONE clock: the monotonic one).
type vfTimeLayout struct {
	wall uint64
	ext  int64
	loc  *time.Location
}

func vfWallStep(t time.Time, shift time.Duration) (time.Time, bool) {
	if unsafe.Sizeof(t) != unsafe.Sizeof(vfTimeLayout{}) {
		return t, false
	}
	secs := int64(shift / time.Second)
	u := t
	l := (*vfTimeLayout)(unsafe.Pointer(&u))
	if l.wall>>63 != 1 {
		return t, false
	}
	sec := int64(l.wall << 1 >> 31)
	sec += secs
	if sec <= 0 || sec >= 1<<33 {
		return t, false
	}
	l.wall = l.wall&(1<<63|(1<<30-1)) | uint64(sec)<<30
	// self-check through the public API
	if u.Sub(t) != 0 || u.Round(0).Sub(t.Round(0)) != time.Duration(secs)*time.Second {
		return t, false
	}
	return u, true
}

func verifC16Mono(t *testing.T, r *vfh.Rand, out *vfh.Out) {
	for k := vfh.N(150, 3000); k > 0; k-- {
		V := time.Duration(r.Range(60, 4*3600)) * time.Second
		P := time.Duration(r.Range(1, int64(V/time.Second))) * time.Second
		L := time.Duration(r.Range(60, 4*3600)) * time.Second
		// in every other run a non-deprecated wildcard stanza is listed BEFORE the deprecated one and
		// expands onto the very same prefix / route (renumbering: the old /64 is still on the
		// interface): the deprecated stanza's option is in the RA all the same, and counts down
		wild := k%2 == 1
		pre := ""
		if wild {
			pre = "[[interfaces.prefix]]\nprefix = \"::/64\"\n[[interfaces.route]]\nprefix = \"::/0\"\n"
		}
		doc := fmt.Sprintf("[[interfaces]]\nname = \"eth0\"\nadvertise = true\n"+pre+
			"[[interfaces.prefix]]\nprefix = \"2001:db8::/64\"\ndeprecated = true\nvalid_lifetime = \"%ds\"\npreferred_lifetime = \"%ds\"\n"+
			"[[interfaces.route]]\nprefix = \"2001:db8:1::/48\"\ndeprecated = true\nlifetime = \"%ds\"\n",
			int64(V/time.Second), int64(P/time.Second), int64(L/time.Second))
		epoch := time.Now() // with a monotonic reading, as in cmd/corerad
		cfg, err := Parse(strings.NewReader(doc), epoch)
		if err != nil || len(cfg.Interfaces) != 1 {
			t.Fatalf("C16 mono: Parse: %v", err)
		}
		var pp *plugin.Prefix
		var rp *plugin.Route
		for _, pl := range cfg.Interfaces[0].Plugins {
			switch x := pl.(type) {
			case *plugin.Prefix:
				if x.Auto {
					x.Addrs = func() ([]system.IP, error) {
						return []system.IP{{Address: netip.MustParsePrefix("2001:db8::1/64")}}, nil
					}
					continue
				}
				pp = x
			case *plugin.Route:
				if x.Auto {
					x.Routes = func() ([]system.Route, error) {
						return []system.Route{{Prefix: netip.MustParsePrefix("2001:db8:1::/48"), Index: 1}}, nil
					}
					continue
				}
				rp = x
			}
		}
		if pp == nil || rp == nil {
			t.Fatalf("C16 mono: plugins not found")
		}
		// elapsed times on the monotonic clock: around the deadlines, non-decreasing
		n := 3 + r.Intn(6)
		var ds []time.Duration
		for i := 0; i < n; i++ {
			switch r.Intn(4) {
			case 0:
				ds = append(ds, vfh.Pick(r, []time.Duration{P, V, L})+time.Duration(r.Range(-2, 2))*time.Second)
			default:
				ds = append(ds, time.Duration(r.Range(0, int64(V+V/4))))
			}
			if ds[i] < 0 {
				ds[i] = 0
			}
		}
		sort.Slice(ds, func(i, j int) bool { return ds[i] < ds[j] })
		e := epoch.UnixNano()
		cp := new(vfh.Toks).S("pl").B(true).I(e).I(int64(V)).I(int64(P)).I(0).N(n)
		cr := new(vfh.Toks).S("rl").B(true).I(e).I(int64(L)).I(0).N(n)
		ip, ir := new(vfh.Toks), new(vfh.Toks)
		ok := true
		for _, d := range ds {
			// the wall clock is stepped before some readings (never for the first: the daemon has
			// just started)
			shift := time.Duration(0)
			if d != ds[0] && r.Chance(2, 3) {
				shift = time.Duration(r.Range(-86400, 86400)) * time.Second
			}
			now, good := vfWallStep(epoch.Add(d), shift)
			if !good || now.Sub(epoch) != d {
				ok = false
				break
			}
			pp.TimeNow = func() time.Time { return now }
			rp.TimeNow = func() time.Time { return now }
			cp.I(e + int64(d))
			cr.I(e + int64(d))
			// the RA as the advertiser, the scrape and the debug API build it: the options the
			// deprecated stanzas contribute are the LAST ones for their prefix / route
			ra, _, err := cfg.Interfaces[0].RouterAdvertisement(true)
			var pi *ndp.PrefixInformation
			var ri *ndp.RouteInformation
			if err == nil {
				for _, o := range ra.Options {
					switch x := o.(type) {
					case *ndp.PrefixInformation:
						if x.Prefix == netip.MustParseAddr("2001:db8::") && x.PrefixLength == 64 {
							pi = x
						}
					case *ndp.RouteInformation:
						if x.Prefix == netip.MustParseAddr("2001:db8:1::") && x.PrefixLength == 48 {
							ri = x
						}
					}
				}
			}
			if pi == nil {
				ip.S("apply-failed")
			} else {
				ip.I(int64(pi.ValidLifetime)).I(int64(pi.PreferredLifetime)).N(1)
			}
			if ri == nil {
				ir.S("apply-failed")
			} else {
				ir.I(int64(ri.RouteLifetime)).N(1)
			}
		}
		if !ok {
			t.Log("C16 mono: time.Time layout not as expected; scenario skipped")
			return
		}
		out.Line(cp.String(), ip.String())
		out.Line(cr.String(), ir.String())
	}
}
