//go:build verif

package config

import (
	"fmt"
	"net"
	"net/netip"
	"os"
	"reflect"
	"strings"
	"testing"
	"time"

	"github.com/mdlayher/corerad/internal/plugin"
	"github.com/mdlayher/corerad/internal/system"
	"github.com/mdlayher/corerad/internal/vfh"
	"github.com/mdlayher/ndp"
)

// TestVerif is the entry point of the correspondence harness for package config.  It does
// nothing unless VERIF_PROP is set by /verif/check.
func TestVerif(t *testing.T) {
	prop := vfh.Prop()
	if prop == "" {
		t.Skip("VERIF_PROP not set")
	}
	out, err := vfh.OpenOut()
	if err != nil {
		t.Fatal(err)
	}
	defer out.Close()
	r := vfh.NewRand(vfh.Seed())
	switch prop {
	case "C02":
		verifC02(t, r, out)
	case "C01":
		verifRA(t, r, out, "ra1")
	case "C03":
		verifRA(t, r, out, "ra3")
		verifFloatSeconds(t, r, out)
	case "C04":
		verifRA(t, r, out, "ra4")
	case "C14":
		verifC14Parsed(t, r, out)
		verifGroups(t, r, out) // the wildcard's address source is per interface, also within a `names` group
	case "C13", "C15":
		verifGroups(t, r, out)
	case "C16":
		verifC16Parsed(t, r, out)
		verifC16Mono(t, r, out)
	default:
		t.Fatalf("unknown VERIF_PROP %q for package config", prop)
	}
}

// ---------------------------------------------------------------------------------------------
// generated raw configuration (strings as they appear in the TOML document)

type vfGPrefix struct {
	prefix             string
	onLink, autonomous *bool
	valid, preferred   *string
	deprecated         bool
}

type vfGRoute struct {
	prefix     string
	preference string
	lifetime   *string
	deprecated bool
}

type vfGRDNSS struct {
	lifetime *string
	servers  []string
}

type vfGDNSSL struct {
	lifetime *string
	names    []string
}

type vfGIface struct {
	name                         string
	names                        []string
	monitor, advertise, verbose  bool
	maxInterval, minInterval     string
	managed, otherConfig         bool
	reachable, retransmit        string
	hopLimit                     *int
	defaultLifetime              *string
	unicastOnly                  bool
	preference                   string
	prefixes                     []vfGPrefix
	routes                       []vfGRoute
	rdnss                        []vfGRDNSS
	dnssl                        []vfGDNSSL
	pref64                       []*string
	mtu                          int
	sourceLLA                    *bool
	captivePortal                string
}

type vfGConfig struct {
	ifaces      []vfGIface
	debugAddr   string
	// padBefore / padBetween: kilobytes of comment lines before the first stanza / between the
	// interface stanzas (a long, well-commented file: what is accepted does not depend on its size)
	padBefore, padBetween int
	prom, pprof bool
}

func vfQ(s string) string {
	var sb strings.Builder
	sb.WriteByte('"')
	for _, c := range s {
		switch {
		case c == '"' || c == '\\':
			sb.WriteByte('\\')
			sb.WriteRune(c)
		case c < 0x20 || c == 0x7f:
			fmt.Fprintf(&sb, "\\u%04x", c)
		default:
			sb.WriteRune(c)
		}
	}
	sb.WriteByte('"')
	return sb.String()
}

func vfQs(ss []string) string {
	out := make([]string, len(ss))
	for i, s := range ss {
		out[i] = vfQ(s)
	}
	return "[" + strings.Join(out, ", ") + "]"
}

func (c vfGConfig) toml() string {
	var sb strings.Builder
	pad := func(kb int) {
		for n := 0; n < kb*1024; n += 64 {
			sb.WriteString("# 0123456789 0123456789 0123456789 0123456789 0123456789 012345\n")
		}
	}
	pad(c.padBefore)
	for k, i := range c.ifaces {
		if k > 0 {
			pad(c.padBetween)
		}
		sb.WriteString("[[interfaces]]\n")
		if i.name != "" {
			fmt.Fprintf(&sb, "name = %s\n", vfQ(i.name))
		}
		if i.names != nil {
			fmt.Fprintf(&sb, "names = %s\n", vfQs(i.names))
		}
		wb := func(k string, v bool) {
			if v {
				fmt.Fprintf(&sb, "%s = true\n", k)
			}
		}
		ws := func(k, v string) {
			if v != "" {
				fmt.Fprintf(&sb, "%s = %s\n", k, vfQ(v))
			}
		}
		wb("monitor", i.monitor)
		wb("advertise", i.advertise)
		wb("verbose", i.verbose)
		ws("max_interval", i.maxInterval)
		ws("min_interval", i.minInterval)
		wb("managed", i.managed)
		wb("other_config", i.otherConfig)
		ws("reachable_time", i.reachable)
		ws("retransmit_timer", i.retransmit)
		if i.hopLimit != nil {
			fmt.Fprintf(&sb, "hop_limit = %d\n", *i.hopLimit)
		}
		if i.defaultLifetime != nil {
			fmt.Fprintf(&sb, "default_lifetime = %s\n", vfQ(*i.defaultLifetime))
		}
		wb("unicast_only", i.unicastOnly)
		ws("preference", i.preference)
		if i.mtu != 0 {
			fmt.Fprintf(&sb, "mtu = %d\n", i.mtu)
		}
		if i.sourceLLA != nil {
			fmt.Fprintf(&sb, "source_lla = %v\n", *i.sourceLLA)
		}
		ws("captive_portal", i.captivePortal)
		for _, p := range i.prefixes {
			sb.WriteString("  [[interfaces.prefix]]\n")
			if p.prefix != "" {
				fmt.Fprintf(&sb, "  prefix = %s\n", vfQ(p.prefix))
			}
			if p.onLink != nil {
				fmt.Fprintf(&sb, "  on_link = %v\n", *p.onLink)
			}
			if p.autonomous != nil {
				fmt.Fprintf(&sb, "  autonomous = %v\n", *p.autonomous)
			}
			if p.valid != nil {
				fmt.Fprintf(&sb, "  valid_lifetime = %s\n", vfQ(*p.valid))
			}
			if p.preferred != nil {
				fmt.Fprintf(&sb, "  preferred_lifetime = %s\n", vfQ(*p.preferred))
			}
			if p.deprecated {
				sb.WriteString("  deprecated = true\n")
			}
		}
		for _, r := range i.routes {
			sb.WriteString("  [[interfaces.route]]\n")
			if r.prefix != "" {
				fmt.Fprintf(&sb, "  prefix = %s\n", vfQ(r.prefix))
			}
			if r.preference != "" {
				fmt.Fprintf(&sb, "  preference = %s\n", vfQ(r.preference))
			}
			if r.lifetime != nil {
				fmt.Fprintf(&sb, "  lifetime = %s\n", vfQ(*r.lifetime))
			}
			if r.deprecated {
				sb.WriteString("  deprecated = true\n")
			}
		}
		for _, r := range i.rdnss {
			sb.WriteString("  [[interfaces.rdnss]]\n")
			if r.lifetime != nil {
				fmt.Fprintf(&sb, "  lifetime = %s\n", vfQ(*r.lifetime))
			}
			if r.servers != nil {
				fmt.Fprintf(&sb, "  servers = %s\n", vfQs(r.servers))
			}
		}
		for _, d := range i.dnssl {
			sb.WriteString("  [[interfaces.dnssl]]\n")
			if d.lifetime != nil {
				fmt.Fprintf(&sb, "  lifetime = %s\n", vfQ(*d.lifetime))
			}
			if d.names != nil {
				fmt.Fprintf(&sb, "  domain_names = %s\n", vfQs(d.names))
			}
		}
		for _, p := range i.pref64 {
			sb.WriteString("  [[interfaces.pref64]]\n")
			if p != nil {
				fmt.Fprintf(&sb, "  prefix = %s\n", vfQ(*p))
			}
		}
	}
	if c.debugAddr != "" || c.prom || c.pprof {
		sb.WriteString("[debug]\n")
		if c.debugAddr != "" {
			fmt.Fprintf(&sb, "address = %s\n", vfQ(c.debugAddr))
		}
		if c.prom {
			sb.WriteString("prometheus = true\n")
		}
		if c.pprof {
			sb.WriteString("pprof = true\n")
		}
	}
	return sb.String()
}

// ---------------------------------------------------------------------------------------------
// interning and token encoding of the raw view (external parser results included)

type vfInterner = vfh.Interner

type vfEnc struct {
	t     *vfh.Toks
	names vfInterner // interface names
	doms  vfInterner // DNS search domains
	uris  vfInterner
}

func (e *vfEnc) durPtr(s *string) {
	switch {
	case s == nil:
		e.t.S("U")
	case *s == "auto":
		e.t.S("A")
	case *s == "infinite":
		e.t.S("I")
	case *s == "":
		e.t.S("E")
	default:
		e.durLit(*s)
	}
}

func (e *vfEnc) durLit(s string) {
	d, err := time.ParseDuration(s)
	if err != nil {
		e.t.S("X")
		return
	}
	e.t.S("L").I(int64(d))
}

func (e *vfEnc) durPlain(s string) {
	if s == "" {
		e.t.S("E")
		return
	}
	e.durLit(s)
}

func (e *vfEnc) durMin(s string) {
	switch s {
	case "":
		e.t.S("E")
	case "auto":
		e.t.S("A")
	default:
		e.durLit(s)
	}
}

func (e *vfEnc) pfx(s string) {
	if s == "" {
		e.t.S("E")
		return
	}
	p, err := netip.ParsePrefix(s)
	if err != nil {
		e.t.S("X")
		return
	}
	e.t.S("P").Prefix(p)
}

func (e *vfEnc) optBool(b *bool) {
	switch {
	case b == nil:
		e.t.S("U")
	case *b:
		e.t.S("T")
	default:
		e.t.S("F")
	}
}

func vfPrefCode(s string) int {
	switch s {
	case "":
		return 0
	case "low":
		return 1
	case "medium":
		return 2
	case "high":
		return 3
	}
	return 9
}

func (e *vfEnc) iface(i vfGIface) {
	t := e.t
	t.N(e.names.ID(i.name)).N(len(i.names))
	for _, n := range i.names {
		// an empty element of `names` is a (strange but accepted) interface name: give it its own id
		if n == "" {
			t.N(e.names.ID("\x00empty"))
		} else {
			t.N(e.names.ID(n))
		}
	}
	t.B(i.monitor).B(i.advertise).B(i.verbose)
	e.durPlain(i.maxInterval)
	e.durMin(i.minInterval)
	t.B(i.managed).B(i.otherConfig)
	e.durPlain(i.reachable)
	e.durPlain(i.retransmit)
	if i.hopLimit == nil {
		t.S("U")
	} else {
		t.S("V").N(*i.hopLimit)
	}
	e.durPtr(i.defaultLifetime)
	t.B(i.unicastOnly).N(vfPrefCode(i.preference))
	t.N(len(i.prefixes))
	for _, p := range i.prefixes {
		e.pfx(p.prefix)
		e.optBool(p.onLink)
		e.optBool(p.autonomous)
		e.durPtr(p.valid)
		e.durPtr(p.preferred)
		t.B(p.deprecated)
	}
	t.N(len(i.routes))
	for _, r := range i.routes {
		e.pfx(r.prefix)
		t.N(vfPrefCode(r.preference))
		e.durPtr(r.lifetime)
		t.B(r.deprecated)
	}
	t.N(len(i.rdnss))
	for _, r := range i.rdnss {
		e.durPtr(r.lifetime)
		t.N(len(r.servers))
		for _, s := range r.servers {
			a, err := netip.ParseAddr(s)
			if err != nil {
				t.S("X")
			} else {
				t.S("A").Addr(a.WithZone(""))
			}
		}
	}
	t.N(len(i.dnssl))
	for _, d := range i.dnssl {
		e.durPtr(d.lifetime)
		t.N(len(d.names))
		for _, n := range d.names {
			t.N(e.doms.ID(n) + 0)
		}
	}
	t.N(len(i.pref64))
	for _, p := range i.pref64 {
		switch {
		case p == nil:
			t.S("U")
		case *p == "":
			t.S("E")
		default:
			e.pfx(*p)
		}
	}
	t.N(i.mtu)
	e.optBool(i.sourceLLA)
	if i.captivePortal == "" {
		t.S("E")
	} else if cp, err := ndp.NewCaptivePortal(i.captivePortal); err != nil {
		t.S("X")
	} else {
		t.S("C").N(e.uris.ID(cp.URI)).N(len(cp.URI))
	}
}

func vfDebugCode(addr string) int {
	if addr == "" {
		return 0
	}
	if _, err := net.ResolveTCPAddr("tcp", addr); err != nil {
		return 2
	}
	return 1
}

// ---------------------------------------------------------------------------------------------
// token encoding of the parsed configuration and of RAs

func (e *vfEnc) plugin(t *vfh.Toks, p plugin.Plugin) {
	switch p := p.(type) {
	case *plugin.Prefix:
		t.N(0).B(p.Auto).Prefix(p.Prefix).B(p.OnLink).B(p.Autonomous).I(int64(p.ValidLifetime)).I(int64(p.PreferredLifetime)).B(p.Deprecated)
	case *plugin.Route:
		t.N(1).B(p.Auto).Prefix(p.Prefix).N(int(p.Preference)).I(int64(p.Lifetime)).B(p.Deprecated)
	case *plugin.RDNSS:
		t.N(2).B(p.Auto).I(int64(p.Lifetime)).N(len(p.Servers))
		for _, s := range p.Servers {
			t.Addr(s)
		}
	case *plugin.DNSSL:
		t.N(3).I(int64(p.Lifetime)).N(len(p.DomainNames))
		for _, n := range p.DomainNames {
			t.N(e.doms.ID(n))
		}
	case *plugin.MTU:
		t.N(4).N(int(*p))
	case *plugin.LLA:
		t.N(5)
	case *plugin.CaptivePortal:
		t.N(6).N(e.uris.ID(p.Portal.URI)).N(len(p.Portal.URI))
	case *plugin.PREF64:
		t.N(7).Prefix(p.Inner.Prefix).I(int64(p.Inner.Lifetime))
	default:
		t.S(fmt.Sprintf("?%T", p))
	}
}

func (e *vfEnc) parsedIface(t *vfh.Toks, i Interface) {
	name := i.Name
	if name == "" {
		name = "\x00empty"
	}
	t.N(e.names.ID(name)).B(i.Monitor).B(i.Advertise).B(i.Verbose).I(int64(i.MinInterval)).I(int64(i.MaxInterval)).
		B(i.Managed).B(i.OtherConfig).I(int64(i.ReachableTime)).I(int64(i.RetransmitTimer)).N(int(i.HopLimit)).
		I(int64(i.DefaultLifetime)).B(i.UnicastOnly).N(int(i.Preference)).N(len(i.Plugins))
	for _, p := range i.Plugins {
		e.plugin(t, p)
	}
}

func vfMacToks(t *vfh.Toks, mac net.HardwareAddr) { t.MAC(mac) }

func (e *vfEnc) ra(t *vfh.Toks, ra *ndp.RouterAdvertisement) { t.RA(ra, &e.doms, &e.uris) }

// ---------------------------------------------------------------------------------------------
// value generators

func vfSp(s string) *string { return &s }
func vfBp(b bool) *bool     { return &b }
func vfIp(i int) *int       { return &i }

var vfDurGarbage = []string{"abc", "10", "1 s", "s", "1d", "--1s", "1e3s", "٣s"}

// durAround renders limit-1ns, limit, limit+1ns, limit±1s as strings.
func vfDurAround(r *vfh.Rand, limit time.Duration) string {
	d := limit + vfh.Pick(r, []time.Duration{-time.Second, -1, 0, 0, 1, time.Second})
	return d.String()
}

// genDurStr produces a duration string; kinds are weighted towards valid values.
func vfGenDurStr(r *vfh.Rand, lo, hi time.Duration, special bool) string {
	switch r.Intn(14) {
	case 0:
		return vfDurAround(r, lo)
	case 1:
		return vfDurAround(r, hi)
	case 2:
		return vfh.Pick(r, vfDurGarbage)
	case 3:
		return (-time.Duration(r.Range(1, int64(time.Hour)))).String()
	case 4: // very large
		return vfh.Pick(r, []string{"1200000h", "2562047h47m16.854775807s", "1193046h", "1193047h", "4294967295s", "4294967296s", "4294967294.5s"})
	case 5: // sub-second / sub-millisecond fractions
		return time.Duration(r.Range(1, int64(2*time.Second))).String()
	case 6:
		if special {
			return vfh.Pick(r, []string{"auto", "infinite", ""})
		}
		return "auto"
	case 7:
		return time.Duration(r.Range(int64(lo), int64(hi))).String()
	default:
		// whole seconds within range
		s := r.Range(int64(lo/time.Second), int64(hi/time.Second))
		return (time.Duration(s) * time.Second).String()
	}
}

var vfPrefixPool = []string{
	"2001:db8::/64", "2001:db8:0:1::/64", "2001:db8::/48", "2001:db8:1::/48", "2001:db8::/32", "fd00::/8",
	"fd00:1::/64", "fd00:2::/64", "fd00:3::/56", "2600:1::/64", "::/64", "::/64", "",
}

var vfPrefixBad = []string{
	"2001:db8::1/64", "2001:db8::1/128", "2001:db8::/128", "::/0", "::/63", "::/128", "10.0.0.0/8", "192.0.2.0/24",
	"::ffff:0.0.0.0/96", "::ffff:1.2.3.4/128", "2001:db8::/129", "foo", "2001:db8::", "fe80::/10", "::/1", "::1/128", "2001:db8::%eth0/64",
}

var vfRoutePool = []string{
	"2001:db8:100::/48", "2001:db8:100:1::/64", "2001:db8:200::/48", "2001:db8:300::/40", "fd00:100::/32",
	"2001:db8:9::1/128", "::/0", "::/0", "", "2000::/3", "fc00::/7",
}

var vfServerPool = []string{
	"2001:db8::53", "2001:db8::54", "fd00::53", "fe80::1", "::", "::", "2001:4860:4860::8888", "::1",
	"fe80::1%eth0", "fe80::1%eth1", "fe80::53%eth0", "::%eth0", // zones are not part of what an RA carries
}

var vfServerBad = []string{"8.8.8.8", "::ffff:8.8.8.8", "foo", "2001:db8::53/64", ""}

var vfDomPool = []string{"example.com", "lan.example.com", "home.arpa", "corp.example", "a.b.c.example.org", "x"}

var vfPref64Pool = []string{"64:ff9b::/96", "2001:db8:64::/96", "2001:db8:64::/64", "2001:db8:64::/56", "2001:db8:64::/48", "2001:db8::/40", "2001:db8::/32", ""}

var vfPref64Bad = []string{"2001:db8::/33", "2001:db8::/95", "2001:db8::/97", "2001:db8::/128", "::/0", "10.0.0.0/8", "10.0.0.0/32", "1.2.3.4/32",
	"2001:db8::1/96", "64:ff9b::1.2.3.4/96", "::ffff:0.0.0.0/96", "foo", "2001:db8::/72", "2001:db8::/31"}

func vfUriOfLen(n int) string {
	base := "https://portal.example/"
	if n <= len(base) {
		return "urn:x"
	}
	return base + strings.Repeat("a", n-len(base))
}

// uriEscOfLen: a URI of n bytes as written whose path holds a space and a non-ASCII letter —
// ndp.NewCaptivePortal percent-encodes both, so the option carries more bytes (n + 2 + 4) than the
// configuration string has
func vfUriEscOfLen(n int) string {
	base := "https://portal.example/a b/acc\u00e8s/"
	if n <= len(base) {
		return base
	}
	return base + strings.Repeat("a", n-len(base))
}

func vfGenLifetimePtr(r *vfh.Rand, valid int) *string {
	// valid: percentage of "plain valid" choices
	if r.Intn(100) < valid {
		switch r.Intn(5) {
		case 0:
			return nil
		case 1:
			return vfSp("auto")
		case 2:
			return vfSp((time.Duration(r.Range(1, 100000)) * time.Second).String())
		case 3:
			return vfSp(time.Duration(r.Range(1, int64(72*time.Hour))).String())
		default:
			return vfSp("infinite")
		}
	}
	return vfSp(vfGenDurStr(r, 0, ndp.Infinity, true))
}

// genIface generates one interface stanza.  `valid` is the percentage of fields drawn from
// the valid stream (the rest from the boundary/invalid streams).
func vfGenIface(r *vfh.Rand, name string, valid int, small bool) vfGIface {
	ok := func() bool { return r.Intn(100) < valid }
	i := vfGIface{name: name, advertise: r.Chance(5, 6), verbose: r.Chance(1, 8)}
	if r.Chance(1, 12) {
		i.monitor = true
		i.advertise = !ok() && r.Chance(1, 2)
	}
	// intervals
	switch {
	case r.Chance(2, 5):
	case ok():
		i.maxInterval = (time.Duration(r.Range(4, 1800)) * time.Second).String()
		if r.Chance(1, 4) {
			i.maxInterval = time.Duration(r.Range(int64(4*time.Second), int64(1800*time.Second))).String()
		}
	default:
		i.maxInterval = vfGenDurStr(r, 4*time.Second, 1800*time.Second, false)
	}
	max := 600 * time.Second
	if d, err := time.ParseDuration(i.maxInterval); err == nil {
		max = d
	}
	upper := time.Duration(0.75 * float64(max)).Truncate(time.Second)
	switch {
	case r.Chance(2, 5):
	case r.Chance(1, 8):
		i.minInterval = "auto"
	case ok() && upper >= 3*time.Second:
		i.minInterval = (time.Duration(r.Range(3, int64(upper/time.Second))) * time.Second).String()
	default:
		i.minInterval = vfGenDurStr(r, 3*time.Second, upper, false)
	}
	i.managed, i.otherConfig, i.unicastOnly = r.Chance(1, 3), r.Chance(1, 3), r.Chance(1, 6)
	if r.Chance(1, 3) {
		if ok() {
			i.reachable = time.Duration(r.Range(0, int64(time.Hour))).String()
		} else {
			i.reachable = vfGenDurStr(r, 0, time.Hour, false)
		}
	}
	if r.Chance(1, 3) {
		if ok() {
			i.retransmit = time.Duration(r.Range(0, int64(time.Hour))).String()
		} else {
			i.retransmit = vfGenDurStr(r, 0, time.Hour, false)
		}
	}
	if r.Chance(1, 3) {
		if ok() {
			i.hopLimit = vfIp(r.Intn(256))
		} else {
			i.hopLimit = vfIp(vfh.Pick(r, []int{-1, 0, 255, 256, 1000, -300}))
		}
	}
	if r.Chance(1, 2) {
		switch {
		case r.Chance(1, 5):
			i.defaultLifetime = vfSp("auto")
		case r.Chance(1, 6):
			i.defaultLifetime = vfSp("")
		case r.Chance(1, 8):
			i.defaultLifetime = vfSp("0s")
		case ok():
			if max <= 9000*time.Second {
				i.defaultLifetime = vfSp(time.Duration(r.Range(int64(max), int64(9000*time.Second))).String())
			}
		default:
			if r.Bool() {
				i.defaultLifetime = vfSp(vfDurAround(r, max))
			} else {
				i.defaultLifetime = vfSp(vfGenDurStr(r, max, 9000*time.Second, true))
			}
		}
	}
	i.preference = vfh.Pick(r, []string{"", "", "low", "medium", "high"})
	if !ok() && r.Chance(1, 4) {
		i.preference = vfh.Pick(r, []string{"Medium", "med", "HIGH", "none"})
	}

	nmax := 4
	if small {
		nmax = 3
	}
	// prefixes: the valid stream draws pairwise disjoint prefixes, the rest may overlap
	disjointP := []string{"2001:db8:0:1::/64", "2001:db8:0:2::/64", "fd00:1::/64", "fd00:2::/64", "2600:1::/64", "::/64", "2001:db8:a000::/56"}
	vfh.Shuffle(r, disjointP)
	for k := r.Intn(nmax); k > 0; k-- {
		p := vfGPrefix{prefix: vfh.Pick(r, vfPrefixPool), deprecated: r.Chance(1, 4)}
		if ok() {
			p.prefix = disjointP[k]
		} else if r.Chance(1, 2) {
			p.prefix = vfh.Pick(r, vfPrefixBad)
		}
		if r.Chance(1, 3) {
			p.onLink = vfBp(r.Bool())
		}
		if r.Chance(1, 3) {
			p.autonomous = vfBp(r.Bool())
		}
		if ok() {
			// valid lifetimes with preferred <= valid
			v := time.Duration(r.Range(1, int64(48*time.Hour)))
			if r.Bool() {
				v = v.Truncate(time.Second) + time.Second
			}
			pf := time.Duration(r.Range(1, int64(v))) // v is final here: preferred <= valid
			switch r.Intn(6) {
			case 0: // defaults
			case 1:
				if v < 4*time.Hour {
					v += 4 * time.Hour // the default preferred lifetime is 4 h
				}
				p.valid = vfSp(v.String())
			case 2:
				p.valid, p.preferred = vfSp(v.String()), vfSp(pf.String())
			case 3:
				p.valid = vfSp("infinite")
				if r.Bool() {
					p.preferred = vfSp("infinite")
				}
				p.deprecated = false
			case 4:
				p.valid, p.preferred = vfSp("auto"), vfSp("auto")
			default:
				p.valid, p.preferred = vfSp(v.String()), vfSp(v.String())
			}
		} else {
			p.valid, p.preferred = vfGenLifetimePtr(r, 40), vfGenLifetimePtr(r, 40)
			if r.Chance(1, 3) { // preferred = valid ± 1ns
				v := time.Duration(r.Range(2, int64(48*time.Hour)))
				p.valid, p.preferred = vfSp(v.String()), vfSp((v + vfh.Pick(r, []time.Duration{-1, 0, 1})).String())
			}
		}
		i.prefixes = append(i.prefixes, p)
	}
	// routes
	disjointR := []string{"2001:db8:100::/48", "2001:db8:200::/48", "2001:db8:300::/40", "fd00:100::/32", "2001:db8:9::1/128", "::/0", ""}
	vfh.Shuffle(r, disjointR)
	for k := r.Intn(nmax); k > 0; k-- {
		rt := vfGRoute{prefix: vfh.Pick(r, vfRoutePool), preference: vfh.Pick(r, []string{"", "low", "medium", "high"}), deprecated: r.Chance(1, 4)}
		if ok() {
			rt.prefix = disjointR[k]
		} else if r.Chance(1, 2) {
			rt.prefix = vfh.Pick(r, []string{"2001:db8::1/64", "10.0.0.0/8", "::/1", "::/64", "::ffff:0.0.0.0/96", "bar", "2001:db8:100::/56"})
		}
		if !ok() && r.Chance(1, 4) {
			rt.preference = "urgent"
		}
		rt.lifetime = vfGenLifetimePtr(r, valid)
		if ok() && rt.lifetime != nil && *rt.lifetime == "infinite" {
			rt.deprecated = false
		}
		i.routes = append(i.routes, rt)
	}
	// RDNSS
	for k := r.Intn(nmax); k > 0; k-- {
		d := vfGRDNSS{lifetime: vfGenLifetimePtr(r, valid)}
		if d.lifetime != nil && *d.lifetime == "infinite" && r.Bool() {
			d.lifetime = vfSp("") // zero lifetime is allowed for RDNSS
		}
		ns := r.Intn(4)
		for j := 0; j < ns; j++ {
			s := vfh.Pick(r, vfServerPool)
			if !ok() && r.Chance(1, 3) {
				s = vfh.Pick(r, vfServerBad)
			}
			d.servers = append(d.servers, s)
		}
		if ns == 0 && r.Bool() {
			d.servers = []string{}
		}
		if ok() { // make servers unique for the valid stream
			seen := map[string]bool{}
			var u []string
			for _, s := range d.servers {
				if !seen[s] {
					seen[s] = true
					u = append(u, s)
				}
			}
			d.servers = u
		}
		i.rdnss = append(i.rdnss, d)
	}
	// DNSSL
	for k := r.Intn(nmax); k > 0; k-- {
		d := vfGDNSSL{lifetime: vfGenLifetimePtr(r, valid)}
		nn := 1 + r.Intn(3)
		if !ok() && r.Chance(1, 3) {
			nn = 0
		}
		perm := []int{0, 1, 2, 3, 4, 5}
		vfh.Shuffle(r, perm)
		for j := 0; j < nn; j++ {
			d.names = append(d.names, vfDomPool[perm[j]])
		}
		if !ok() && nn > 0 && r.Chance(1, 3) {
			d.names = append(d.names, d.names[0])
		}
		if !ok() && r.Chance(1, 4) { // an empty name, anywhere in the list
			pos := r.Intn(len(d.names) + 1)
			d.names = append(d.names[:pos:pos], append([]string{""}, d.names[pos:]...)...)
		}
		i.dnssl = append(i.dnssl, d)
	}
	// PREF64
	for k := r.Intn(3); k > 0 && r.Chance(1, 2); k-- {
		switch {
		case r.Chance(1, 4):
			i.pref64 = append(i.pref64, nil)
		case ok():
			i.pref64 = append(i.pref64, vfSp(vfh.Pick(r, vfPref64Pool)))
		default:
			i.pref64 = append(i.pref64, vfSp(vfh.Pick(r, vfPref64Bad)))
		}
	}
	if r.Chance(1, 3) {
		if ok() {
			i.mtu = int(r.Range(1, 65536))
		} else {
			i.mtu = vfh.Pick(r, []int{-1, 0, 1, 1279, 1280, 1500, 65535, 65536, 65537, 1 << 20})
		}
	}
	if r.Chance(1, 3) {
		i.sourceLLA = vfBp(r.Bool())
	}
	if r.Chance(1, 4) {
		if ok() {
			i.captivePortal = vfh.Pick(r, []string{"https://portal.example/login", "urn:ietf:params:capport:unrestricted", vfUriOfLen(100), vfUriOfLen(246)})
		} else {
			i.captivePortal = vfh.Pick(r, []string{vfUriOfLen(245), vfUriOfLen(246), vfUriOfLen(247), vfUriOfLen(248), vfUriOfLen(255), vfUriOfLen(256),
				"http://192.0.2.1/", "https://[2001:db8::1]/x", "::1", "%zz", "http://a b/",
				vfUriEscOfLen(238), vfUriEscOfLen(240), vfUriEscOfLen(241), vfUriEscOfLen(246)})
		}
	}
	return i
}

var vfIfNames = []string{"eth0", "eth1", "eth2", "lan0", "wan0", "br-lan"}

func vfGenConfig(r *vfh.Rand, valid int) vfGConfig {
	var c vfGConfig
	// structural mistakes (no interfaces, name/names misuse, repeats, bad debug address) are drawn
	// from the invalid share of the stream only, so that the valid stream is mostly accepted
	bad := func(num, den int) bool { return r.Intn(100) >= valid && r.Chance(num, den) }
	n := 1 + r.Intn(3)
	if bad(1, 6) {
		n = 0
	}
	perm := []int{0, 1, 2, 3, 4, 5}
	vfh.Shuffle(r, perm)
	k := 0
	for j := 0; j < n; j++ {
		i := vfGenIface(r, vfIfNames[perm[k%6]], valid, true)
		k++
		switch {
		case r.Chance(1, 6): // names list instead of name
			i.name = ""
			nn := 1 + r.Intn(3)
			for m := 0; m < nn; m++ {
				i.names = append(i.names, vfIfNames[perm[k%6]])
				k++
			}
			if bad(1, 2) { // repeat inside the list
				i.names = append(i.names, i.names[0])
			}
		case bad(1, 4): // both
			i.names = []string{vfIfNames[perm[k%6]]}
		case bad(1, 4): // neither
			i.name = ""
			if r.Bool() {
				i.names = []string{}
			}
		case r.Chance(1, 40):
			i.name = ""
			i.names = []string{""}
		}
		if bad(1, 3) && j > 0 { // repeat across stanzas
			prev := c.ifaces[r.Intn(len(c.ifaces))]
			if prev.name != "" {
				i.name, i.names = prev.name, nil
			} else if len(prev.names) > 0 {
				i.name, i.names = prev.names[len(prev.names)-1], nil
			}
		}
		c.ifaces = append(c.ifaces, i)
	}
	if r.Chance(1, 150) { // a long document
		c.padBefore, c.padBetween = r.Intn(3)*40, 30+r.Intn(100)
	}
	switch r.Intn(8) {
	case 0:
		c.debugAddr = "localhost:9430"
	case 1:
		c.debugAddr = ":9430"
	case 2:
		c.debugAddr = "[::1]:9430"
	case 3:
		if bad(1, 1) {
			// what net.ResolveTCPAddr rejects, whatever the class of its error: malformed, port out of
			// range, missing port, an unknown service name or a non-numeric port (reported as a
			// *net.DNSError "unknown port"), an IP literal that is none
			c.debugAddr = vfh.Pick(r, []string{"x:y:z", ":99999", "nocolon", "127.0.0.1", "localhost:notaport", "[::1]:94e30",
				":no-such-service", "127.0.0.1:", "[::1", "localhost:-1", "256.1.1.1.1:80x"})
		}
	}
	c.prom, c.pprof = r.Chance(1, 3), r.Chance(1, 4)
	return c
}

// ---------------------------------------------------------------------------------------------
// C02

func vfSafeParse(doc string, epoch time.Time) (c *Config, err error, panicked any) {
	defer func() {
		if p := recover(); p != nil {
			panicked = p
		}
	}()
	c, err = Parse(strings.NewReader(doc), epoch)
	return
}

func c02Case(t *testing.T, out *vfh.Out, c vfGConfig) {
	e := &vfEnc{t: new(vfh.Toks)}
	e.t.S("cfg").N(vfDebugCode(c.debugAddr)).B(c.prom).B(c.pprof).N(len(c.ifaces))
	for _, i := range c.ifaces {
		e.iface(i)
	}
	doc := c.toml()
	cfg, err, pan := vfSafeParse(doc, time.Unix(1700000000, 0))
	impl := new(vfh.Toks)
	switch {
	case pan != nil:
		impl.S("panic")
	case err != nil:
		impl.S("rej")
	default:
		code := 0
		if cfg.Debug.Address != "" {
			code = 1
		}
		impl.S("ok").N(code).B(cfg.Debug.Prometheus).B(cfg.Debug.PProf).N(len(cfg.Interfaces))
		for _, i := range cfg.Interfaces {
			e.parsedIface(impl, i)
		}
	}
	if os.Getenv("VERIF_DUMP_DOC") != "" && impl.String() == os.Getenv("VERIF_DUMP_DOC") {
		t.Logf("document:\n%s", doc)
	}
	out.Line(e.t.String(), impl.String())
}

func verifC02(t *testing.T, r *vfh.Rand, out *vfh.Out) {
	// (1) the repository's own documents
	// (2) structured documents: 60 % mostly-valid, 25 % boundary-heavy, 15 % invalid-heavy
	n := vfh.N(20000, 400000)
	for k := 0; k < n; k++ {
		valid := 99
		switch {
		case k%20 >= 12 && k%20 < 17:
			valid = 70
		case k%20 >= 17:
			valid = 35
		}
		c02Case(t, out, vfGenConfig(r, valid))
	}
	// (3) single-key boundary triples on an otherwise minimal document
	for _, c := range vfBoundaryConfigs() {
		c02Case(t, out, c)
	}
	// (4) thorough: every whole-second (max_interval, min_interval) pair incl. one beyond each bound
	if vfh.Thorough() {
		for mx := 3; mx <= 1801; mx++ {
			up := int(time.Duration(0.75*float64(time.Duration(mx)*time.Second)).Truncate(time.Second) / time.Second)
			for mn := 2; mn <= up+1; mn++ {
				i := vfGIface{name: "eth0", advertise: true, maxInterval: fmt.Sprintf("%ds", mx), minInterval: fmt.Sprintf("%ds", mn)}
				c02Case(t, out, vfGConfig{ifaces: []vfGIface{i}})
			}
			i := vfGIface{name: "eth0", advertise: true, maxInterval: fmt.Sprintf("%ds", mx)}
			c02Case(t, out, vfGConfig{ifaces: []vfGIface{i}})
		}
	}
	// (5) malformed stream: unknown keys, wrong types, random bytes — accept/reject and panics only
	vfMalformed(t, r, out)
	// (6) accepted documents with one unknown key added at every table level: must be rejected
	vfUnknownKeys(t, r, out)
}

// unknownKeys takes accepted documents and adds one key the reference does not know — at the
// top level, in [debug], in an [[interfaces]] table and in every plugin table, one at a time.
// "No unknown keys" is a documented constraint: each of these documents must be rejected.
//
//	unk level | ok / rej / panic        (level: 0 top, 1 a table header line)
func vfUnknownKeys(t *testing.T, r *vfh.Rand, out *vfh.Out) {
	n := vfh.N(150, 4000)
	made := 0
	for tries := 0; made < n && tries < 20*n; tries++ {
		doc := vfGenConfig(r, 100).toml()
		if _, err, pan := vfSafeParse(doc, time.Unix(1700000000, 0)); err != nil || pan != nil {
			continue // only accepted documents are interesting
		}
		lines := strings.Split(doc, "\n")
		var headers []int
		for i, l := range lines {
			if strings.HasPrefix(strings.TrimSpace(l), "[") {
				headers = append(headers, i)
			}
		}
		key := vfh.Pick(r, []string{"zz_unknown = 1", "bogus = \"x\"", "Name = \"eth9\"", "prefixes = []", "max_intervall = \"10s\""})
		try := func(level int, d string) {
			_, err, pan := vfSafeParse(d, time.Unix(1700000000, 0))
			impl := "ok"
			switch {
			case pan != nil:
				impl = "panic"
			case err != nil:
				impl = "rej"
			}
			out.Line(fmt.Sprintf("unk %d %d %d", level, len(d), made), impl)
			made++
		}
		try(0, key+"\n"+doc)
		for _, h := range headers {
			d := strings.Join(lines[:h+1], "\n") + "\n" + key + "\n" + strings.Join(lines[h+1:], "\n")
			try(1, d)
		}
	}
}

func vfBoundaryConfigs() []vfGConfig {
	var cs []vfGConfig
	base := func() vfGIface { return vfGIface{name: "eth0", advertise: true} }
	add := func(f func(i *vfGIface)) {
		i := base()
		f(&i)
		cs = append(cs, vfGConfig{ifaces: []vfGIface{i}})
	}
	around := func(limit time.Duration) []string {
		var out []string
		for _, d := range []time.Duration{-time.Second, -1, 0, 1, time.Second} {
			out = append(out, (limit + d).String())
		}
		return out
	}
	for _, s := range append(around(4*time.Second), around(1800*time.Second)...) {
		s := s
		add(func(i *vfGIface) { i.maxInterval = s })
	}
	// the smallest lifetimes: "non-zero" means 1 ns is in (zero is out), for every lifetime key
	for _, v := range []string{"0s", "1ns", "2ns", "-1ns"} {
		for _, p := range []string{"0s", "1ns", "2ns"} {
			v, p := v, p
			add(func(i *vfGIface) {
				i.prefixes = []vfGPrefix{{prefix: "2001:db8:0:1::/64", valid: vfSp(v), preferred: vfSp(p)}}
			})
		}
		v := v
		add(func(i *vfGIface) { i.routes = []vfGRoute{{prefix: "2001:db8:100::/48", lifetime: vfSp(v)}} })
		add(func(i *vfGIface) { i.rdnss = []vfGRDNSS{{lifetime: vfSp(v), servers: []string{"2001:db8::53"}}} })
		add(func(i *vfGIface) { i.dnssl = []vfGDNSSL{{lifetime: vfSp(v), names: []string{"example.com"}}} })
	}
	for _, mx := range []time.Duration{4 * time.Second, 8*time.Second + 999999999, 9 * time.Second, 9*time.Second - 1, 600 * time.Second, 1800 * time.Second, 4500 * time.Millisecond} {
		mx := mx
		up := time.Duration(0.75 * float64(mx)).Truncate(time.Second)
		for _, s := range append(around(3*time.Second), around(up)...) {
			s := s
			add(func(i *vfGIface) { i.maxInterval = mx.String(); i.minInterval = s })
		}
		add(func(i *vfGIface) { i.maxInterval = mx.String(); i.minInterval = "auto" })
		for _, s := range append(append(around(mx), around(9000*time.Second)...), "0s", "", "auto", "infinite", "-1s") {
			s := s
			add(func(i *vfGIface) { i.maxInterval = mx.String(); i.defaultLifetime = vfSp(s) })
		}
	}
	// every key that switches a mode × the boundary values of the lifetime whose rule the mode might
	// be thought to relax (a unicast-only interface sends no periodic RAs, yet its default lifetime
	// obeys the same rule; likewise with the managed / other flags set)
	for _, s := range []string{"-1s", "-500ms", "-30m", "-9000s", "1s", "3s", "599s", "600s", "9000s", "9001s", "0s"} {
		s := s
		add(func(i *vfGIface) { i.unicastOnly = true; i.defaultLifetime = vfSp(s) })
		add(func(i *vfGIface) { i.managed, i.otherConfig = true, true; i.defaultLifetime = vfSp(s) })
		add(func(i *vfGIface) { i.unicastOnly = true; i.maxInterval = "4s"; i.defaultLifetime = vfSp(s) })
	}
	for _, s := range append(around(0), around(time.Hour)...) {
		s := s
		add(func(i *vfGIface) { i.reachable = s })
		add(func(i *vfGIface) { i.retransmit = s })
	}
	for _, h := range []int{-1, 0, 1, 64, 254, 255, 256} {
		h := h
		add(func(i *vfGIface) { i.hopLimit = vfIp(h) })
	}
	for _, m := range []int{-1, 0, 1, 65535, 65536, 65537} {
		m := m
		add(func(i *vfGIface) { i.mtu = m })
	}
	lifetimes := append(append(around(0), around(ndp.Infinity)...), "infinite", "auto", "", "9223372036854775807ns", "-9223372036854775808ns", "500ms", "1ns")
	for _, s := range lifetimes {
		s := s
		for _, dep := range []bool{false, true} {
			dep := dep
			add(func(i *vfGIface) { i.prefixes = []vfGPrefix{{prefix: "2001:db8::/64", valid: vfSp(s), deprecated: dep}} })
			add(func(i *vfGIface) {
				i.prefixes = []vfGPrefix{{prefix: "2001:db8::/64", valid: vfSp("infinite"), preferred: vfSp(s), deprecated: dep}}
			})
			add(func(i *vfGIface) { i.routes = []vfGRoute{{prefix: "2001:db8:1::/48", lifetime: vfSp(s), deprecated: dep}} })
		}
		add(func(i *vfGIface) { i.rdnss = []vfGRDNSS{{lifetime: vfSp(s), servers: []string{"2001:db8::53"}}} })
		add(func(i *vfGIface) { i.dnssl = []vfGDNSSL{{lifetime: vfSp(s), names: []string{"example.com"}}} })
	}
	for _, p := range append(append([]string{}, vfPrefixPool...), vfPrefixBad...) {
		p := p
		add(func(i *vfGIface) { i.prefixes = []vfGPrefix{{prefix: p}} })
		add(func(i *vfGIface) { i.routes = []vfGRoute{{prefix: p}} })
	}
	// overlaps, both orders
	pairs := [][2]string{{"2001:db8::/48", "2001:db8::/64"}, {"2001:db8::/64", "2001:db8::/64"}, {"2001:db8::/64", "2001:db8:0:1::/64"},
		{"::/64", "::/64"}, {"::/64", "2001:db8::/64"}, {"2001:db8::/32", "2001:db8:1::/48"}, {"::/0", "2001:db8::/32"}, {"::/0", "::/0"}, {"", ""}}
	for _, pr := range pairs {
		pr := pr
		for _, sw := range []bool{false, true} {
			a, b := pr[0], pr[1]
			if sw {
				a, b = b, a
			}
			if strings.HasSuffix(a, "/0") || strings.HasSuffix(b, "/0") {
				add(func(i *vfGIface) { i.routes = []vfGRoute{{prefix: a}, {prefix: b}} })
				continue
			}
			add(func(i *vfGIface) { i.prefixes = []vfGPrefix{{prefix: a}, {prefix: b}} })
			add(func(i *vfGIface) { i.routes = []vfGRoute{{prefix: a}, {prefix: b}} })
		}
	}
	// PREF64 lifetime = 3 x max_interval rounded up to 8 s: fractional and boundary intervals
	for _, mx := range []string{"4s", "5s", "5500ms", "8s", "8100ms", "8.000000001s", "10.6s", "16s", "600s", "1799.5s", "1800s", "2666ms", "2667ms",
		"10666666667ns", "10666666666ns", "10666666668ns", "5333333334ns", "5333333333ns"} { // 3 x max = a multiple of 8 s + 1 ns, - 2 ns, + 4 ns; 16 s + 2 ns, 16 s - 1 ns
		mx := mx
		add(func(i *vfGIface) { i.maxInterval = mx; i.pref64 = []*string{nil} })
	}
	for _, p := range append(append([]string{}, vfPref64Pool...), vfPref64Bad...) {
		p := p
		add(func(i *vfGIface) { i.pref64 = []*string{vfSp(p)} })
	}
	for l := 240; l <= 257; l++ {
		l := l
		add(func(i *vfGIface) { i.captivePortal = vfUriOfLen(l) })
		add(func(i *vfGIface) { i.captivePortal = vfUriEscOfLen(l - 8) }) // what is encoded is longer than what is written
	}
	for _, sv := range [][]string{{"::", "::"}, {"2001:db8::53", "2001:db8::53"}, {"::", "2001:db8::53"}, {"8.8.8.8"}, {"::ffff:8.8.8.8"}, {}, {"2001:db8::54", "2001:db8::53", "fd00::1"}} {
		sv := sv
		add(func(i *vfGIface) { i.rdnss = []vfGRDNSS{{servers: sv}} })
	}
	for _, dn := range [][]string{{}, {"a.example", "a.example"}, {"a.example"}, {"b.example", "a.example"}} {
		dn := dn
		add(func(i *vfGIface) { i.dnssl = []vfGDNSSL{{names: dn}} })
	}
	// name / names / monitor combinations
	cs = append(cs,
		vfGConfig{},
		vfGConfig{ifaces: []vfGIface{{advertise: true}}},
		vfGConfig{ifaces: []vfGIface{{name: "eth0", names: []string{"eth1"}, advertise: true}}},
		vfGConfig{ifaces: []vfGIface{{names: []string{}, advertise: true}}},
		vfGConfig{ifaces: []vfGIface{{names: []string{""}, advertise: true}}},
		vfGConfig{ifaces: []vfGIface{{names: []string{"eth0", "eth0"}, advertise: true}}},
		vfGConfig{ifaces: []vfGIface{{names: []string{"eth0", "eth1"}, advertise: true}, {name: "eth1", monitor: true}}},
		vfGConfig{ifaces: []vfGIface{{name: "eth0", advertise: true}, {name: "eth0", monitor: true}}},
		vfGConfig{ifaces: []vfGIface{{name: "eth0", advertise: true, monitor: true}}},
		vfGConfig{ifaces: []vfGIface{{name: "eth0", monitor: true, maxInterval: "1s", mtu: -5, prefixes: []vfGPrefix{{prefix: "bogus"}}}}},
		vfGConfig{ifaces: []vfGIface{{name: "eth0"}}},
		vfGConfig{ifaces: []vfGIface{{name: "eth0", advertise: true}}, debugAddr: "x:y:z"},
		// long documents: 70 KiB / 300 KiB of comments before the first stanza, or between a valid
		// stanza and a second one that is valid / repeats the name / has a bad interval
		vfGConfig{ifaces: []vfGIface{{name: "eth0", advertise: true}}, padBefore: 70},
		vfGConfig{ifaces: []vfGIface{{name: "eth0", advertise: true}}, padBefore: 300},
		vfGConfig{ifaces: []vfGIface{{name: "eth0", advertise: true}, {name: "eth1", advertise: true}}, padBetween: 70},
		vfGConfig{ifaces: []vfGIface{{name: "eth0", advertise: true}, {name: "eth0", advertise: true}}, padBetween: 70},
		vfGConfig{ifaces: []vfGIface{{name: "eth0", advertise: true}, {name: "eth1", advertise: true, maxInterval: "1s"}}, padBetween: 130},
		vfGConfig{ifaces: []vfGIface{{name: "eth0", advertise: true}, {name: "eth1", monitor: true, advertise: true}}, padBefore: 20, padBetween: 50},
		vfGConfig{ifaces: []vfGIface{{name: "eth0", advertise: true}}, debugAddr: "localhost:notaport"},
		vfGConfig{ifaces: []vfGIface{{name: "eth0", advertise: true}}, debugAddr: "[::1]:94e30"},
		vfGConfig{ifaces: []vfGIface{{name: "eth0", advertise: true}}, debugAddr: ":9430", prom: true, pprof: true},
		vfGConfig{ifaces: []vfGIface{{name: "eth0", advertise: true}}, prom: true},
	)
	return cs
}

// malformed emits documents outside the key grammar.  The model cannot see them (they never
// get past TOML decoding), so the case line carries only the expected decision: rejected.
func vfMalformed(t *testing.T, r *vfh.Rand, out *vfh.Out) {
	docs := []string{
		"", "[[interfaces]]\nname = 5\n", "[[interfaces]]\nname = \"eth0\"\nbogus = 1\n",
		"[[interfaces]]\nname = \"eth0\"\n[[interfaces.prefix]]\nbogus = true\n",
		"[[interfaces]]\nname = \"eth0\"\nhop_limit = \"64\"\n", "[[interfaces]]\nname = \"eth0\"\nmtu = \"1500\"\n",
		"[[interfaces]]\nname = \"eth0\"\nadvertise = \"yes\"\n", "[debug]\nbogus = 1\n[[interfaces]]\nname=\"eth0\"\n",
		"[[interfaces]]\nname = \"eth0\"\nnames = \"eth1\"\n", "interfaces = 5\n", "[interfaces]\nname = \"eth0\"\n",
		"[[interfaces]]\nname = \"eth0\"\n[[interfaces.rdnss]]\nservers = \"::\"\n", "[[interfaces]]\nname = \"eth0\"\nmax_interval = 10\n",
		"[[interfaces]]\nname = \"eth0\"\n[[interfaces.pref64]]\nprefix = 5\n", "\x00\x01\x02", "[[interfaces]\n", "= = =", "[[interfaces]]\nname = \"eth0\"\nname = \"eth1\"\n",
		"[[interfaces]]\nname = \"eth0\"\nsource_lla = 1\n", "[[interfaces]]\nname = \"eth0\"\n[interfaces.prefix]\nprefix = \"::/64\"\n",
	}
	n := vfh.N(2000, 100000)
	valid := vfGenConfig(vfh.NewRand(7), 95).toml()
	for k := 0; k < n; k++ {
		switch r.Intn(3) {
		case 0: // random bytes
			b := make([]byte, r.Intn(64))
			for j := range b {
				b[j] = byte(r.Intn(256))
			}
			docs = append(docs, string(b))
		case 1: // mutate a valid document
			b := []byte(valid)
			for m := 1 + r.Intn(4); m > 0 && len(b) > 0; m-- {
				p := r.Intn(len(b))
				switch r.Intn(3) {
				case 0:
					b[p] = byte(r.Intn(128))
				case 1:
					b = append(b[:p], b[p+1:]...)
				default:
					b = append(b[:p], append([]byte{byte(32 + r.Intn(95))}, b[p:]...)...)
				}
			}
			docs = append(docs, string(b))
		default: // random tokens of the grammar
			toks := []string{"[[interfaces]]", "[[interfaces.prefix]]", "[debug]", "name", "=", "\"eth0\"", "true", "5", "\n", "[", "]", "prefix", "\"::/64\"", ",", "names", "mtu", "-1", "1e9", "\"\"\"", "'"}
			var sb strings.Builder
			for m := r.Intn(20); m > 0; m-- {
				sb.WriteString(vfh.Pick(r, toks))
				sb.WriteString(vfh.Pick(r, []string{" ", "\n", ""}))
			}
			docs = append(docs, sb.String())
		}
	}
	for _, d := range docs {
		_, err, pan := vfSafeParse(d, time.Unix(1700000000, 0))
		impl := "ok"
		switch {
		case pan != nil:
			impl = "panic"
			t.Logf("Parse panicked on %q: %v", d, pan)
		case err != nil:
			impl = "rej"
		}
		out.Line("fuzz", impl)
	}
}

// ---------------------------------------------------------------------------------------------
// C01 / C03 / C04: RA generation from an accepted configuration and an injected system state

type vfSysState struct {
	addrsFail, routesFail bool
	addrs                 []system.IP
	routes                []netip.Prefix
	mac                   net.HardwareAddr
	now, epoch            time.Time
}

func vfGenSys(r *vfh.Rand, epoch time.Time) vfSysState {
	s := vfSysState{epoch: epoch}
	s.addrsFail, s.routesFail = r.Chance(1, 25), r.Chance(1, 25)
	hosts := []string{"fd00:0:0:1::1/64", "fd00:0:0:1::2/64", "2001:db8:0:1::1/64", "2001:db8:0:1:211:22ff:fe33:4455/64", "2001:db8:0:2::1/64",
		"fe80::1/64", "2001:db8:5::1/48", "2600:1::7/64", "fd00:0:0:9::1/64", "10.0.0.1/24"}
	for k := r.Intn(6); k > 0; k-- {
		a := system.IP{Address: netip.MustParsePrefix(vfh.Pick(r, hosts))}
		a.Deprecated, a.Temporary, a.Tentative = r.Chance(1, 6), r.Chance(1, 6), r.Chance(1, 6)
		a.ManageTemporaryAddresses, a.StablePrivacy, a.ValidForever = r.Chance(1, 5), r.Chance(1, 5), r.Chance(1, 4)
		s.addrs = append(s.addrs, a)
	}
	// (several entries share a base address and differ in length — an aggregate and its first
	// subnet — and the dump lists them in either order, with repeats)
	rts := []string{"2001:db8:f00::/48", "2001:db8:f00:1::/64", "2001:db8:e00::/40", "fd00:ff::/32", "2001:db8::1/128", "10.0.0.0/8", "::/0",
		"2001:db8:f00::/56", "2001:db8:f00::/64", "fd00:ff::/48", "2001:db8:e00::/48"}
	for k := r.Intn(6); k > 0; k-- {
		p := vfh.Pick(r, rts)
		if p == "::/0" && !r.Chance(1, 5) {
			continue
		}
		s.routes = append(s.routes, netip.MustParsePrefix(p))
	}
	switch r.Intn(8) {
	case 0:
	case 1: // a hardware address that is not a 48-bit one: tunnels (4, 16), IEEE 1394 / 802.15.4 (8), IPoIB (20), empty
		s.mac = make(net.HardwareAddr, vfh.Pick(r, []int{0, 4, 8, 16, 20}))
		for j := range s.mac {
			s.mac[j] = byte(r.Intn(256))
		}
	default:
		s.mac = net.HardwareAddr{0x02, 0x11, byte(r.Intn(256)), byte(r.Intn(256)), byte(r.Intn(256)), byte(r.Intn(256))}
	}
	// clock: before/at/after the epoch and typical deadlines
	off := vfh.Pick(r, []time.Duration{-time.Hour, 0, 1, time.Second, 90 * time.Minute, 4 * time.Hour, 4*time.Hour + 1, 24 * time.Hour, 30 * 24 * time.Hour,
		time.Duration(r.Range(0, int64(48*time.Hour)))})
	s.now = epoch.Add(off)
	return s
}

func (s vfSysState) toks(t *vfh.Toks) {
	if s.addrsFail {
		t.S("F")
	} else {
		t.S("S").N(len(s.addrs))
		for _, a := range s.addrs {
			t.Prefix(a.Address).B(a.Deprecated).B(a.ManageTemporaryAddresses).B(a.StablePrivacy).B(a.Temporary).B(a.Tentative).B(a.ValidForever)
		}
	}
	if s.routesFail {
		t.S("F")
	} else {
		t.S("S").N(len(s.routes))
		for _, p := range s.routes {
			t.Prefix(p)
		}
	}
	if s.mac == nil {
		t.S("N")
	} else {
		t.S("M")
		vfMacToks(t, s.mac)
	}
	t.I(s.now.UnixNano()).I(s.epoch.UnixNano())
}

func (s vfSysState) inject(ifi Interface) {
	errf := fmt.Errorf("injected failure")
	for _, p := range ifi.Plugins {
		switch p := p.(type) {
		case *plugin.Prefix:
			p.TimeNow = func() time.Time { return s.now }
			p.Addrs = func() ([]system.IP, error) {
				if s.addrsFail {
					return nil, errf
				}
				return s.addrs, nil
			}
		case *plugin.Route:
			p.TimeNow = func() time.Time { return s.now }
			p.Routes = func() ([]system.Route, error) {
				if s.routesFail {
					return nil, errf
				}
				rs := make([]system.Route, len(s.routes))
				for i, r := range s.routes {
					rs[i] = system.Route{Prefix: r}
				}
				return rs, nil
			}
		case *plugin.RDNSS:
			p.Addrs = func() ([]system.IP, error) {
				if s.addrsFail {
					return nil, errf
				}
				return s.addrs, nil
			}
		case *plugin.LLA:
			p.Addr = s.mac
		}
	}
}

// snapshot renders everything observable of the parsed configuration (for "never alters the
// configuration").
func vfSnapshot(ifi Interface) string {
	var sb strings.Builder
	fmt.Fprintf(&sb, "%s %v %v %v %v %v %v %v %v %v %v %v %v %v|", ifi.Name, ifi.Monitor, ifi.Advertise, ifi.Verbose, ifi.MinInterval, ifi.MaxInterval,
		ifi.Managed, ifi.OtherConfig, ifi.ReachableTime, ifi.RetransmitTimer, ifi.HopLimit, ifi.DefaultLifetime, ifi.UnicastOnly, ifi.Preference)
	for _, p := range ifi.Plugins {
		switch p := p.(type) {
		case *plugin.Prefix:
			fmt.Fprintf(&sb, "P %v %v %v %v %v %v %v %v;", p.Auto, p.Prefix, p.OnLink, p.Autonomous, p.ValidLifetime, p.PreferredLifetime, p.Deprecated, p.Epoch.UnixNano())
		case *plugin.Route:
			fmt.Fprintf(&sb, "R %v %v %v %v %v %v;", p.Auto, p.Prefix, p.Preference, p.Lifetime, p.Deprecated, p.Epoch.UnixNano())
		case *plugin.RDNSS:
			fmt.Fprintf(&sb, "D %v %v %v;", p.Auto, p.Lifetime, p.Servers)
		case *plugin.DNSSL:
			fmt.Fprintf(&sb, "S %v %v;", p.Lifetime, p.DomainNames)
		case *plugin.MTU:
			fmt.Fprintf(&sb, "M %d;", *p)
		case *plugin.LLA:
			fmt.Fprintf(&sb, "L %v;", p.Addr)
		case *plugin.CaptivePortal:
			fmt.Fprintf(&sb, "C %q;", p.Portal.URI)
		case *plugin.PREF64:
			fmt.Fprintf(&sb, "6 %v %v;", p.Inner.Prefix, p.Inner.Lifetime)
		}
	}
	return sb.String()
}

// raCase runs one (stanza, system state, forwarding) case through Parse and RouterAdvertisement.
func vfRaCase(t *testing.T, out *vfh.Out, op string, gi vfGIface, sys vfSysState, fw bool) {
	c := vfGConfig{ifaces: []vfGIface{gi}}
	cfg, err, pan := vfSafeParse(c.toml(), sys.epoch)
	e := &vfEnc{t: new(vfh.Toks)}
	e.t.S(op)
	e.iface(gi)
	sys.toks(e.t)
	e.t.B(fw)
	impl := new(vfh.Toks)
	switch {
	case pan != nil:
		impl.S("panic")
	case err != nil:
		impl.S("rej")
	default:
		ifi := cfg.Interfaces[0]
		sys.inject(ifi)
		vfRaImpl(t, e, impl, ifi, fw, op)
	}
	out.Line(e.t.String(), impl.String())
}

// verifGroups: stanzas shared by two or three interfaces through `names`, every interface with its
// own addresses / loopback routes / hardware address: what a wildcard expands to on one interface
// is that interface's business alone (C13, C14, C15), whatever the others of the group hold.
func verifGroups(t *testing.T, r *vfh.Rand, out *vfh.Out) {
	for k := vfh.N(500, 12000); k > 0; k-- {
		gi := vfGenIface(r, "eth0", 99, false)
		gi.monitor, gi.advertise = false, true
		// make sure the wildcards are there
		gi.prefixes = append([]vfGPrefix{{prefix: "::/64"}}, gi.prefixes...)
		gi.rdnss = append([]vfGRDNSS{{servers: []string{"::"}}}, gi.rdnss...)
		if r.Bool() {
			gi.routes = append([]vfGRoute{{prefix: "::/0"}}, gi.routes...)
		}
		epoch := time.Unix(1700000000+r.Range(0, 1000000), r.Range(0, 999999999))
		names := []string{"eth0", "eth1", "eth2"}[:2+r.Intn(2)]
		var syss []vfSysState
		for range names {
			s := vfGenSys(r, epoch)
			s.addrsFail, s.routesFail = false, false
			syss = append(syss, s)
		}
		vfRaGroupCase(t, out, "ra1", gi, names, syss, r.Chance(2, 3))
	}
}

// raCorpus: fixed cases that always run first (witnesses of recorded findings, boundaries).
func vfRaCorpus(t *testing.T, out *vfh.Out, op string) {
	epoch := time.Unix(1700000000, 0)
	mac := net.HardwareAddr{2, 0, 0, 0, 0, 1}
	// K-1: a deprecated route 1 ns after the epoch: remaining lifetime = L - 1 ns with L >= 2^22 s
	vfRaCase(t, out, op, vfGIface{name: "eth0", advertise: true,
		routes: []vfGRoute{{prefix: "2001:db8:100::/48", lifetime: vfSp("1038016h"), deprecated: true}}},
		vfSysState{mac: mac, epoch: epoch, now: epoch.Add(1)}, true)
	// the reference stanza kinds, forwarding on and off
	full := vfGIface{name: "eth0", advertise: true, managed: true, otherConfig: true, hopLimit: vfIp(64), mtu: 1500,
		reachable: "30s", retransmit: "1s", defaultLifetime: vfSp("30m"), preference: "high",
		prefixes:      []vfGPrefix{{prefix: "::/64"}, {prefix: "2001:db8:7::/64", valid: vfSp("1h"), preferred: vfSp("30m"), deprecated: true}},
		routes:        []vfGRoute{{prefix: "::/0", preference: "low"}, {prefix: "2001:db8:ffff::/48", lifetime: vfSp("infinite")}},
		rdnss:         []vfGRDNSS{{servers: []string{"::", "2001:db8::53"}}, {lifetime: vfSp("10m"), servers: []string{"fd00::53", "2001:db8::54"}}},
		dnssl:         []vfGDNSSL{{names: []string{"example.com", "lan.example.com"}}},
		captivePortal: "https://portal.example/login",
		pref64:        []*string{nil, vfSp("2001:db8:64::/56")},
	}
	sys := vfSysState{mac: mac, epoch: epoch, now: epoch.Add(45 * time.Minute),
		addrs: []system.IP{{Address: netip.MustParsePrefix("2001:db8:0:1::1/64"), ValidForever: true}, {Address: netip.MustParsePrefix("fd00:0:0:1::1/64")},
			{Address: netip.MustParsePrefix("fe80::1/64")}},
		routes: []netip.Prefix{netip.MustParsePrefix("2001:db8:f00::/48"), netip.MustParsePrefix("2001:db8:f00:1::/64")}}
	vfRaCase(t, out, op, full, sys, true)
	vfRaCase(t, out, op, full, sys, false)
	sys.mac = nil
	sys.addrsFail = true
	vfRaCase(t, out, op, full, sys, true)
}

// raGroupCase: one stanza shared by several interfaces through `names`.  Every interface is given
// its OWN system state (as Prepare does when each advertiser initialises its interface, in order),
// and only then are the RAs built: state of one interface must never show up in another's RA.
func vfRaGroupCase(t *testing.T, out *vfh.Out, op string, gi vfGIface, names []string, syss []vfSysState, fw bool) {
	g := gi
	g.name, g.names = "", names
	cfg, err, pan := vfSafeParse(vfGConfig{ifaces: []vfGIface{g}}.toml(), syss[0].epoch)
	if pan != nil || err != nil || len(cfg.Interfaces) != len(names) {
		// not accepted: the single-interface form covers rejection
		return
	}
	for k := range names {
		syss[k].inject(cfg.Interfaces[k])
	}
	for k, name := range names {
		one := gi
		one.name, one.names = name, nil
		e := &vfEnc{t: new(vfh.Toks)}
		// intern the names in document order so that ids agree with the single-interface encoding
		e.t.S(op)
		e.iface(one)
		syss[k].toks(e.t)
		e.t.B(fw)
		impl := new(vfh.Toks)
		vfRaImpl(t, e, impl, cfg.Interfaces[k], fw, op)
		out.Line(e.t.String(), impl.String())
	}
}

func verifRA(t *testing.T, r *vfh.Rand, out *vfh.Out, op string) {
	vfRaCorpus(t, out, op)
	// stanzas shared by two or three interfaces (`names`), each interface with its own state
	ng := vfh.N(600, 15000)
	for k := 0; k < ng; k++ {
		gi := vfGenIface(r, "eth0", 99, false)
		gi.monitor, gi.advertise = false, true
		epoch := time.Unix(1700000000+r.Range(0, 1000000), r.Range(0, 999999999))
		names := []string{"eth0", "eth1", "eth2"}[:2+r.Intn(2)]
		var syss []vfSysState
		for range names {
			s := vfGenSys(r, epoch)
			s.addrsFail, s.routesFail = false, false
			syss = append(syss, s)
		}
		vfRaGroupCase(t, out, op, gi, names, syss, r.Chance(2, 3))
	}
	// the single-key boundary documents of C02 (every bound of every key, one beyond each, the
	// mode-switching keys crossed with the lifetimes), built and — for C03 — encoded like the
	// generated ones: what the parser lets through at a boundary is what reaches the wire
	for _, bc := range vfBoundaryConfigs() {
		// (documents that exercise the interface's naming — `names` groups, empty or repeated names —
		// are C02's alone: the per-interface RA model has no names)
		if len(bc.ifaces) != 1 || bc.ifaces[0].name == "" || bc.ifaces[0].names != nil {
			continue
		}
		gi := bc.ifaces[0]
		gi.monitor, gi.advertise = false, true
		epoch := time.Unix(1700000000, 0)
		cfg, err, pan := vfSafeParse(vfGConfig{ifaces: []vfGIface{gi}}.toml(), epoch)
		e := &vfEnc{t: new(vfh.Toks)}
		e.t.S(op)
		e.iface(gi)
		sys := vfGenSys(r, epoch)
		sys.toks(e.t)
		e.t.B(true)
		impl := new(vfh.Toks)
		switch {
		case pan != nil:
			impl.S("panic")
		case err != nil:
			impl.S("rej")
		case len(cfg.Interfaces) != 1:
			continue
		default:
			ifi := cfg.Interfaces[0]
			sys.inject(ifi)
			vfRaImpl(t, e, impl, ifi, true, op)
		}
		out.Line(e.t.String(), impl.String())
	}
	n := vfh.N(6000, 150000)
	for k := 0; k < n; k++ {
		valid := 97
		if op == "ra3" && k%3 == 0 {
			valid = 75 // more boundary durations for the wire-range property
		}
		gi := vfGenIface(r, "eth0", valid, false)
		gi.monitor = false
		gi.advertise = true
		epoch := time.Unix(1700000000+r.Range(0, 1000000), r.Range(0, 999999999))
		c := vfGConfig{ifaces: []vfGIface{gi}}
		cfg, err, pan := vfSafeParse(c.toml(), epoch)
		e := &vfEnc{t: new(vfh.Toks)}
		e.t.S(op)
		e.iface(gi)
		sys := vfGenSys(r, epoch)
		sys.toks(e.t)
		fw := r.Chance(2, 3)
		e.t.B(fw)
		impl := new(vfh.Toks)
		switch {
		case pan != nil:
			impl.S("panic")
		case err != nil:
			impl.S("rej")
		default:
			ifi := cfg.Interfaces[0]
			sys.inject(ifi)
			vfRaImpl(t, e, impl, ifi, fw, op)
		}
		out.Line(e.t.String(), impl.String())
		// one time in three the SAME parsed configuration is then asked again under one or two
		// further system states (other addresses, routes, hardware address, a later clock, the
		// other forwarding value): every RA is built from the state of its own moment, nothing
		// is remembered from an earlier build
		if pan == nil && err == nil && k%3 == 0 {
			for again := 1 + r.Intn(2); again > 0; again-- {
				sys2 := vfGenSys(r, epoch)
				fw2 := r.Bool()
				e2 := &vfEnc{t: new(vfh.Toks)}
				e2.t.S(op)
				e2.iface(gi)
				sys2.toks(e2.t)
				e2.t.B(fw2)
				impl2 := new(vfh.Toks)
				ifi := cfg.Interfaces[0]
				sys2.inject(ifi)
				vfRaImpl(t, e2, impl2, ifi, fw2, op)
				out.Line(e2.t.String(), impl2.String())
			}
		}
	}
}

func vfRaImpl(t *testing.T, e *vfEnc, impl *vfh.Toks, ifi Interface, fw bool, op string) {
	before := vfSnapshot(ifi)
	ra, ms, err := ifi.RouterAdvertisement(fw)
	if err != nil {
		impl.S("err")
		return
	}
	// rebuild k = 3 times: identical RA, configuration untouched
	for k := 0; k < 2; k++ {
		ra2, ms2, err2 := ifi.RouterAdvertisement(fw)
		if err2 != nil || !reflect.DeepEqual(ra, ra2) || !reflect.DeepEqual(ms, ms2) {
			impl.S("unstable")
			return
		}
	}
	if vfSnapshot(ifi) != before {
		impl.S("config-mutated")
		return
	}
	impl.S("ok")
	e.ra(impl, ra)
	mis := false
	for _, m := range ms {
		if m == InterfaceNotForwarding {
			mis = true
		}
	}
	impl.B(mis)
	if op != "ra3" {
		return
	}
	// wire round trip
	b, err := ndp.MarshalMessage(ra)
	if err != nil {
		impl.S("marshal-err")
		return
	}
	m, err := ndp.ParseMessage(b)
	if err != nil {
		impl.S("parse-err")
		return
	}
	ra2, ok := m.(*ndp.RouterAdvertisement)
	if !ok {
		impl.S("parse-err")
		return
	}
	vfFixRouteInfoPrefixes(b, ra2)
	impl.S("wire")
	e.ra(impl, ra2)
}

// fixRouteInfoPrefixes re-reads the prefix of every Route Information option from the
// encoded bytes.  ndp v1.1.0's decoder copies only PrefixLength/8 bytes of the prefix, so it
// drops the final partial byte of a prefix whose length is not a multiple of 8 (2000::/3
// decodes as ::/3) although the bytes on the wire are correct.  The property is about what
// CoreRAD puts on the wire, so the observation is taken from the bytes.
func vfFixRouteInfoPrefixes(b []byte, ra *ndp.RouterAdvertisement) {
	var prefixes []netip.Addr
	for off := 16; off+2 <= len(b); {
		typ, l := b[off], int(b[off+1])*8
		if l == 0 || off+l > len(b) {
			return
		}
		if typ == 24 {
			var a [16]byte
			copy(a[:], b[off+8:off+l])
			prefixes = append(prefixes, netip.AddrFrom16(a))
		}
		off += l
	}
	k := 0
	for _, o := range ra.Options {
		if ri, ok := o.(*ndp.RouteInformation); ok && k < len(prefixes) {
			ri.Prefix = prefixes[k]
			k++
		}
	}
}

// ---------------------------------------------------------------------------------------------
// C14 through the configuration parser: static server lists as config.Parse builds them, the
// `::` wildcard resolved from an injected address list, the option built several times.

func verifC14Parsed(t *testing.T, r *vfh.Rand, out *vfh.Out) {
	statics := []string{"2001:db8::53", "2001:db8::35", "fd00::53", "2001:4860:4860::8888", "fe80::53", "2001:db8::1"}
	n := vfh.N(1500, 40000)
	for k := 0; k < n; k++ {
		perm := []int{0, 1, 2, 3, 4, 5}
		vfh.Shuffle(r, perm)
		ns := r.Intn(5)
		servers := []string{}
		for j := 0; j < ns; j++ {
			servers = append(servers, statics[perm[j]])
		}
		// the wildcard at a random position
		pos := r.Intn(len(servers) + 1)
		servers = append(servers[:pos], append([]string{"::"}, servers[pos:]...)...)
		gi := vfGIface{name: "eth0", advertise: true, rdnss: []vfGRDNSS{{servers: servers}}}
		cfg, err, pan := vfSafeParse(vfGConfig{ifaces: []vfGIface{gi}}.toml(), time.Unix(1700000000, 0))
		if err != nil || pan != nil {
			t.Fatalf("RDNSS stanza %v rejected: %v %v", servers, err, pan)
		}
		var rd *plugin.RDNSS
		for _, p := range cfg.Interfaces[0].Plugins {
			if x, ok := p.(*plugin.RDNSS); ok {
				rd = x
			}
		}
		// the case line carries the static servers as the parser resolved them the first time
		static := append([]netip.Addr(nil), rd.Servers...)
		// the interface's addresses change between builds
		for build := 0; build < 3; build++ {
			sys := vfGenSys(r, time.Unix(1700000000, 0))
			addrs := sys.addrs
			rd.Addrs = func() ([]system.IP, error) { return addrs, nil }
			c := new(vfh.Toks).S("wd").N(len(static))
			for _, a := range static {
				c.Addr(a)
			}
			c.N(len(addrs))
			for _, a := range addrs {
				c.Prefix(a.Address).B(a.Deprecated).B(a.ManageTemporaryAddresses).B(a.StablePrivacy).B(a.Temporary).B(a.Tentative).B(a.ValidForever)
			}
			ra := &ndp.RouterAdvertisement{}
			impl := new(vfh.Toks)
			if err := rd.Apply(ra); err != nil {
				impl.S("err")
			} else {
				o := ra.Options[0].(*ndp.RecursiveDNSServer)
				impl.N(len(o.Servers))
				for _, s := range o.Servers {
					impl.Addr(s)
				}
			}
			out.Line(c.String(), impl.String())
		}
		// static servers as parsed: strictly ascending, the wildcard removed
		c := new(vfh.Toks).S("wdstatic").N(len(servers))
		for _, sv := range servers {
			c.Addr(netip.MustParseAddr(sv))
		}
		impl := new(vfh.Toks).B(rd.Auto).N(len(static))
		for _, a := range static {
			impl.Addr(a)
		}
		out.Line(c.String(), impl.String())
	}
}

// verifC16Parsed: the parser's clause of C16 — a deprecated prefix or route is accepted only with
// finite lifetimes (and preferred <= valid): every combination of the lifetime spellings for
// deprecated and non-deprecated stanzas, judged by the configuration model (`cfg`).
func verifC16Parsed(t *testing.T, r *vfh.Rand, out *vfh.Out) {
	lts := []*string{nil, vfSp(""), vfSp("auto"), vfSp("infinite"), vfSp("1h"), vfSp("30m"), vfSp("4294967295s"), vfSp("4294967294s"), vfSp("0s"), vfSp("1s")}
	for _, dep := range []bool{true, false} {
		for _, v := range lts {
			for _, pr := range lts {
				i := vfGIface{name: "eth0", advertise: true, prefixes: []vfGPrefix{{prefix: "2001:db8::/64", valid: v, preferred: pr, deprecated: dep}}}
				c02Case(t, out, vfGConfig{ifaces: []vfGIface{i}})
				i = vfGIface{name: "eth0", advertise: true, prefixes: []vfGPrefix{{prefix: "::/64", valid: v, preferred: pr, deprecated: dep}}}
				c02Case(t, out, vfGConfig{ifaces: []vfGIface{i}})
			}
			i := vfGIface{name: "eth0", advertise: true, routes: []vfGRoute{{prefix: "2001:db8:1::/48", lifetime: v, deprecated: dep}}}
			c02Case(t, out, vfGConfig{ifaces: []vfGIface{i}})
			i = vfGIface{name: "eth0", advertise: true, routes: []vfGRoute{{prefix: "::/0", lifetime: v, deprecated: dep}}}
			c02Case(t, out, vfGConfig{ifaces: []vfGIface{i}})
		}
	}
	_ = r
}

// verifFloatSeconds ties the model's exact float64 arithmetic (Spec.C03.floatSeconds, the class
// predicate of finding K-1) to the real conversion the codec performs, uint32(d.Seconds()):
// boundary values around every power of two of seconds, just below whole seconds, and random ones.
//
//	fs d | uint32(d.Seconds())
func verifFloatSeconds(t *testing.T, r *vfh.Rand, out *vfh.Out) {
	emit := func(d time.Duration) {
		if d < 0 || d >= (1<<32)*time.Second {
			return
		}
		out.Line(fmt.Sprintf("fs %d", int64(d)), fmt.Sprint(uint32(d.Seconds())))
	}
	for e := 0; e < 32; e++ {
		base := time.Duration(1<<uint(e)) * time.Second
		for _, sec := range []time.Duration{base - time.Second, base, base + time.Second, 3*base/2 + time.Second} {
			for _, below := range []time.Duration{0, 1, 2, 100, 119, 120, 238, 239, 240, 256, 477, 478, 500, 512, 513, 1000, 500000000} {
				emit(sec + time.Second - below)
				emit(sec + below)
			}
		}
	}
	n := vfh.N(3000, 200000)
	for i := 0; i < n; i++ {
		sec := time.Duration(r.Range(0, 1<<32-2)) * time.Second
		switch r.Intn(3) {
		case 0:
			emit(sec + time.Second - time.Duration(r.Range(1, 2000)))
		case 1:
			emit(sec + time.Duration(r.Range(0, 999999999)))
		default:
			emit(time.Duration(r.Range(0, int64(1<<40))))
		}
	}
}
