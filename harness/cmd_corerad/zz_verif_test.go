//go:build verif

package main

import (
	"fmt"
	"net"
	"net/http"
	"os"
	"os/exec"
	"path/filepath"
	"syscall"
	"testing"
	"time"

	"github.com/mdlayher/corerad/internal/vfh"
)

// The daemon end to end: the test binary re-executes itself as the daemon (TestMain below runs the
// real main() when VERIF_DAEMON names a configuration file), with a configuration whose only
// interface neither advertises nor monitors (no privileges needed) and a debug listener on the
// loopback address; the harness then asks the listener for the six paths of the `rt` line and stops
// the daemon with SIGTERM.  This is the only place where the wiring of cmd/corerad/main.go (which
// handler is handed to the server's HTTP task, with which registry and which configuration) meets
// C17's clause "with each gated by its configuration flag".  Real time, about a second per combination.
//
//	rt prometheus pprof | served bits for /, /_/api/interfaces, /metrics, /debug/pprof/, /debug/pprof/cmdline, /verif-unknown
//	rtd prometheus pprof | exit      (how the daemon ended after SIGTERM: 0 = clean exit)
func TestMain(m *testing.M) {
	if cfg := os.Getenv("VERIF_DAEMON"); cfg != "" {
		os.Args = []string{"corerad", "-c", cfg}
		main()
		os.Exit(0)
	}
	os.Exit(m.Run())
}

func TestVerif(t *testing.T) {
	prop := vfh.Prop()
	if prop == "" {
		t.Skip("VERIF_PROP not set")
	}
	out, err := vfh.OpenOut()
	if err != nil {
		t.Fatal(err)
	}
	defer out.Close()
	dir := t.TempDir()
	for _, prom := range []bool{false, true} {
		for _, pp := range []bool{false, true} {
			line, exit, ok := vfDaemonRoutes(t, dir, prom, pp)
			if !ok {
				// the sandbox does not let the daemon listen / be started: said so, not guessed
				t.Logf("daemon scenario not run for prometheus=%v pprof=%v: %s", prom, pp, line)
				continue
			}
			out.Line(new(vfh.Toks).S("rt").B(prom).B(pp).String(), line)
			out.Line(new(vfh.Toks).S("rtd").B(prom).B(pp).String(), exit)
		}
	}
}

func vfDaemonRoutes(t *testing.T, dir string, prom, pp bool) (line, exit string, ok bool) {
	l, err := net.Listen("tcp", "127.0.0.1:0")
	if err != nil {
		return "no loopback listener: " + err.Error(), "", false
	}
	addr := l.Addr().String()
	_ = l.Close()
	cfg := filepath.Join(dir, fmt.Sprintf("corerad-%v-%v.toml", prom, pp))
	doc := fmt.Sprintf("[[interfaces]]\nname = \"lo\"\n\n[debug]\naddress = %q\nprometheus = %v\npprof = %v\n", addr, prom, pp)
	if err := os.WriteFile(cfg, []byte(doc), 0o644); err != nil {
		return err.Error(), "", false
	}
	cmd := exec.Command(os.Args[0], "-test.run=^$")
	cmd.Env = append(os.Environ(), "VERIF_DAEMON="+cfg, "NOTIFY_SOCKET=")
	if err := cmd.Start(); err != nil {
		return "cannot start the daemon: " + err.Error(), "", false
	}
	done := make(chan error, 1)
	go func() { done <- cmd.Wait() }()
	stop := func() string {
		_ = cmd.Process.Signal(syscall.SIGTERM)
		select {
		case err := <-done:
			if err == nil {
				return "0"
			}
			if ee, isExit := err.(*exec.ExitError); isExit {
				return fmt.Sprint(ee.ExitCode())
			}
			return "err"
		case <-time.After(20 * time.Second):
			_ = cmd.Process.Kill()
			<-done
			return "hung"
		}
	}
	// wait for the listener
	up := false
	for i := 0; i < 200 && !up; i++ {
		select {
		case <-done:
			return "the daemon exited before serving", "", false
		default:
		}
		if c, err := net.DialTimeout("tcp", addr, 200*time.Millisecond); err == nil {
			_ = c.Close()
			up = true
		} else {
			time.Sleep(100 * time.Millisecond)
		}
	}
	if !up {
		_ = stop()
		return "the debug listener did not come up within 20 s", "", false
	}
	it := new(vfh.Toks)
	client := &http.Client{Timeout: 20 * time.Second}
	for _, p := range []string{"/", "/_/api/interfaces", "/metrics", "/debug/pprof/", "/debug/pprof/cmdline", "/verif-unknown"} {
		res, err := client.Get("http://" + addr + p)
		if err != nil {
			it.S("?err")
			continue
		}
		_ = res.Body.Close()
		it.B(res.StatusCode != http.StatusNotFound)
	}
	return it.String(), stop(), true
}
