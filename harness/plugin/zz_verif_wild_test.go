//go:build verif

package plugin

import (
	"errors"
	"fmt"
	"net"
	"net/netip"
	"testing"
	"time"

	"github.com/mdlayher/corerad/internal/system"
	"github.com/mdlayher/corerad/internal/vfh"
	"github.com/mdlayher/ndp"
)

func vfSysIPToks(t *vfh.Toks, a system.IP) {
	t.Prefix(a.Address).B(a.Deprecated).B(a.ManageTemporaryAddresses).B(a.StablePrivacy).
		B(a.Temporary).B(a.Tentative).B(a.ValidForever)
}

func vfMp(s string) netip.Prefix { return netip.MustParsePrefix(s) }

type vfFlags struct{ dep, mng, stab, tmp, tent, forever bool }

func vfMkIP(p string, f vfFlags) system.IP {
	return system.IP{Address: vfMp(p), Deprecated: f.dep, ManageTemporaryAddresses: f.mng,
		StablePrivacy: f.stab, Temporary: f.tmp, Tentative: f.tent, ValidForever: f.forever}
}

func vfRandFlags(r *vfh.Rand) vfFlags {
	// each flag set with probability 1/4 so that most addresses stay eligible
	return vfFlags{r.Chance(1, 4), r.Chance(1, 4), r.Chance(1, 4), r.Chance(1, 5), r.Chance(1, 5), r.Chance(1, 4)}
}

// randAddr draws an interface address from a handful of networks so that collisions,
// shared /64s and every address class occur often.
func vfRandAddr(r *vfh.Rand) netip.Prefix {
	his := []uint64{0xfd00_0000_0000_0001, 0xfd00_0000_0000_0002, 0xfdaa_bbcc_0000_0001,
		0x2001_0db8_0000_0001, 0x2001_0db8_0000_0002, 0x2600_1234_0000_0000,
		0xfe80_0000_0000_0000, 0xfe80_0000_0000_0000, 0x0000_0000_0000_0000, 0xff02_0000_0000_0000, 0xfc00_0000_0000_0000}
	hi := vfh.Pick(r, his)
	var lo uint64
	switch r.Intn(6) {
	case 0:
		lo = uint64(r.Intn(4) + 1)
	case 1: // EUI-64 pattern
		lo = 0x0211_22ff_fe00_0000 | uint64(r.Intn(4))
	case 4: // half of the pattern only: ff without fe
		lo = 0x0211_22ff_0000_0000 | uint64(r.Intn(4))
	case 5: // half of the pattern only: fe without ff
		lo = 0x0211_2200_fe00_0000 | uint64(r.Intn(4))
	case 2:
		lo = r.Uint64()
	default:
		lo = uint64(r.Intn(3) + 1)
	}
	bits := 64
	switch r.Intn(10) {
	case 0:
		bits = 48
	case 1:
		bits = 128
	case 2:
		bits = 56
	}
	if r.Chance(1, 12) {
		v4 := []uint32{0x0a000001, 0xc0a80101, 0xa9fe0101, 0x08080808}
		return netip.PrefixFrom(vfh.Addr4(vfh.Pick(r, v4)), vfh.Pick(r, []int{8, 24, 32}))
	}
	return netip.PrefixFrom(vfh.Addr6(hi, lo), bits)
}

// tuples enumerates every sequence of length 0..k over indices 0..m-1.
func vfTuples(m, k int, fn func(idx []int)) {
	var rec func(cur []int)
	rec = func(cur []int) {
		fn(cur)
		if len(cur) == k {
			return
		}
		for i := 0; i < m; i++ {
			rec(append(cur, i))
		}
	}
	rec(nil)
}

// ---------------------------------------------------------------------------------------------
// C13

func c13Pool() []system.IP {
	none := vfFlags{}
	return []system.IP{
		vfMkIP("fd00:0:0:1::1/64", none),
		vfMkIP("fd00:0:0:1::2/64", vfFlags{stab: true}), // second host in the same /64
		vfMkIP("fd00:0:0:2::1/64", vfFlags{dep: true}),  // deprecated is NOT an exclusion for prefixes
		vfMkIP("2001:db8:0:1::1/64", none),
		vfMkIP("2001:db8:0:1:211:22ff:fe33:4455/64", vfFlags{mng: true}),
		vfMkIP("2001:db8:0:2::1/64", vfFlags{tmp: true}),
		vfMkIP("2001:db8:0:3::1/64", vfFlags{tent: true}),
		vfMkIP("2001:db8:0:1::9/64", vfFlags{tmp: true}), // temporary host in an otherwise eligible /64
		vfMkIP("2001:db8:5::1/48", none),
		vfMkIP("2001:db8:0:1::7/128", none),
		vfMkIP("fe80::1/64", vfFlags{forever: true}),
		vfMkIP("10.0.0.1/24", none),
		vfMkIP("1::1/64", none), // sorts before everything else
		vfMkIP("fd00:0:0:1::/64", none),
	}
}

// vfPrepareIfi, when set, makes the c13/c14/c15 runners hand their plugin to the real Prepare for
// this interface, which replaces the injected source by the operating system's (the case line
// then carries what the harness read from the same source just before).
var vfPrepareIfi *net.Interface

// verifPrepared runs the wildcard plugin of the property through the real Prepare on the loopback
// interface: the sources Prepare installs must be the interface's addresses / the loopback routes.
func verifPrepared(t *testing.T, out *vfh.Out, prop string) {
	ifi, err := net.InterfaceByName("lo")
	if err != nil {
		t.Logf("%s prepared: not run: %v", prop, err)
		return
	}
	a := system.NewAddresser()
	addrs, err := a.AddressesByIndex(ifi.Index)
	if err != nil && prop != "C15" {
		t.Logf("%s prepared: not run: %v", prop, err)
		return
	}
	routes, rerr := a.LoopbackRoutes()
	vfPrepareIfi = ifi
	defer func() { vfPrepareIfi = nil }()
	switch prop {
	case "C13":
		for k := 0; k < 4; k++ {
			c13Run(t, out, 64, k, addrs)
		}
	case "C14":
		c14Run(t, out, nil, addrs)
		c14Run(t, out, []netip.Addr{netip.MustParseAddr("2001:db8::53")}, addrs)
	case "C15":
		if rerr != nil {
			t.Logf("C15 prepared: not run: %v", rerr)
			return
		}
		var rs []netip.Prefix
		for _, r := range routes {
			rs = append(rs, r.Prefix)
		}
		for k := 0; k < 3; k++ {
			c15Run(t, out, k, rs)
		}
	}
}

// wildPre: what the plugins listed before the wildcard under test have already appended to the RA
// (Interface.RouterAdvertisement applies the plugins in order to one RA): in two runs out of five,
// options for the very networks the wildcard will expand to — same base address with the same and
// with a shorter length, as a Prefix Information, a Route Information and an RDNSS option.  What a
// wildcard appends must not depend on it.
func vfWildPre(k int, cands []netip.Prefix) []ndp.Option {
	if k%5 >= 2 || len(cands) == 0 {
		return nil
	}
	var pre []ndp.Option
	for i, c := range cands {
		if i >= 3 || !c.IsValid() || !c.Addr().Is6() {
			continue
		}
		bits := c.Bits()
		if (k+i)%2 == 0 && bits >= 16 {
			bits -= 16 // an aggregate with the same base address
		}
		base := netip.PrefixFrom(c.Addr(), c.Bits()).Masked().Addr()
		switch (k/5 + i) % 3 {
		case 0:
			pre = append(pre, &ndp.PrefixInformation{PrefixLength: uint8(bits), OnLink: true, ValidLifetime: time.Hour, PreferredLifetime: time.Hour, Prefix: base})
		case 1:
			pre = append(pre, &ndp.RouteInformation{PrefixLength: uint8(bits), Preference: ndp.High, RouteLifetime: time.Hour, Prefix: base})
		default:
			pre = append(pre, &ndp.RecursiveDNSServer{Lifetime: time.Hour, Servers: []netip.Addr{c.Addr()}})
		}
	}
	return pre
}

// wildOwn returns the options the plugin appended, after checking that it left alone what was there.
func vfWildOwn(t *testing.T, ra *ndp.RouterAdvertisement, pre []ndp.Option) []ndp.Option {
	if len(ra.Options) < len(pre) {
		t.Fatalf("Apply removed options that were in the RA before it ran (%d < %d)", len(ra.Options), len(pre))
	}
	for i := range pre {
		if ra.Options[i] != pre[i] {
			t.Fatalf("Apply replaced option %d that was in the RA before it ran", i)
		}
	}
	return ra.Options[len(pre):]
}

// wildClock: the clock of the deprecated wildcard stanzas.  Every reading within one Apply is a step
// later than the one before (as a real clock's are): "all with the stanza's flags and lifetimes"
// means that ONE reading decides the lifetimes of all the options a stanza expands to.
type vfWildClockT struct {
	first time.Time
	step  time.Duration
	reads int
}

var (
	wildEpoch = time.Unix(1700000000, 0)
	wildClock vfWildClockT
	// wildSourceFails: the operating system's address / route dump fails for the long-lived plugins
	wildSourceFails bool
)

func vfWildNow() time.Time {
	t := wildClock.first.Add(time.Duration(wildClock.reads) * wildClock.step)
	wildClock.reads++
	return t
}

func vfRemainingAt(life time.Duration, j int) time.Duration {
	d := wildEpoch.Add(life).Sub(wildClock.first.Add(time.Duration(j) * wildClock.step))
	if d < 0 {
		return 0
	}
	return d
}

var (
	c13Plugins = map[[2]int]*Prefix{}
	c13Cur     []system.IP
	c15Plugins = map[int]*Route{}
	c15Cur     []system.Route
)

func c13Run(t *testing.T, out *vfh.Out, bits int, k int, as []system.IP) {
	stanza := vfMp("::/64")
	if bits != 64 {
		stanza = netip.PrefixFrom(netip.IPv6Unspecified(), bits)
	}
	// stanza values vary with k so that "all with the stanza's flags and lifetimes" is exercised
	onLink, auto := k&1 == 0, k&2 == 0
	valid := time.Duration(7+k%5) * time.Second
	pref := time.Duration(1+k%7) * time.Second
	// one long-lived plugin per stanza variant, asked again and again about changing address lists
	// (as the daemon does for every RA): nothing may be remembered from an earlier expansion
	c13Cur = as
	key := [2]int{bits, k % 140}
	// one stanza variant in seven is deprecated: its lifetimes count down on a clock that moves
	// with every reading; what the stanza calls for is the time remaining at ONE reading
	dep := k%7 == 3 && vfPrepareIfi == nil
	cfgValid, cfgPref := valid, pref
	if dep {
		wildClock = vfWildClockT{first: wildEpoch.Add(time.Duration(300+(k%11)*450) * time.Millisecond), step: 400 * time.Millisecond}
		valid, pref = vfRemainingAt(cfgValid, 0), vfRemainingAt(cfgPref, 0)
	}
	p, ok := c13Plugins[key]
	if !ok || vfPrepareIfi != nil {
		p = &Prefix{Auto: true, Prefix: stanza, OnLink: onLink, Autonomous: auto,
			ValidLifetime: cfgValid, PreferredLifetime: cfgPref,
			Addrs: func() ([]system.IP, error) {
				if wildSourceFails {
					return nil, errors.New("verif: the address dump failed")
				}
				return c13Cur, nil
			}}
		// as in the daemon, the plugin has been through Prepare (whatever that sets up besides the
		// sources); the harness then puts its own sources in place of the operating system's
		if vfPrepareIfi == nil {
			addrs := p.Addrs
			_ = p.Prepare(&net.Interface{Index: 1, Name: "lo"})
			p.Addrs = addrs
		}
		if dep {
			p.Deprecated, p.Epoch, p.TimeNow = true, wildEpoch, vfWildNow
		}
		c13Plugins[key] = p
	}
	// one time in six the plugin — which has expanded successfully before — is then asked again
	// while its source fails: RA generation fails, nothing remembered is advertised in its place
	if k%6 == 1 && vfPrepareIfi == nil {
		defer func() {
			wildSourceFails = true
			defer func() { wildSourceFails = false }()
			out.Try("wperr 64", func() string {
				if err := p.Apply(&ndp.RouterAdvertisement{}); err != nil {
					return "err"
				}
				return "ok"
			})
		}()
	}
	if vfPrepareIfi != nil {
		p.Addrs = nil
		if err := p.Prepare(vfPrepareIfi); err != nil {
			t.Fatalf("Prefix.Prepare: %v", err)
		}
	}
	c := new(vfh.Toks).S("wp").N(bits).B(onLink).B(auto).I(int64(valid)).I(int64(pref)).N(len(as))
	for _, a := range as {
		vfSysIPToks(c, a)
	}
	var cands []netip.Prefix
	for _, a := range as {
		cands = append(cands, a.Address)
	}
	pre := vfWildPre(k, cands)
	ra := &ndp.RouterAdvertisement{Options: append([]ndp.Option(nil), pre...)}
	out.Try(c.String(), func() string {
		impl := new(vfh.Toks)
		if err := p.Apply(ra); err != nil {
			impl.S("err")
		} else {
			own := vfWildOwn(t, ra, pre)
			impl.N(len(own))
			// a deprecated stanza: whichever single reading j of this Apply decided the lifetimes of
			// ALL its options is reported as the first one (reading the clock once, early or late, is
			// the stanza's business; a reading per option is not)
			norm := -1
			if dep && len(own) > 0 {
				for j := 0; j < wildClock.reads && norm < 0; j++ {
					all := true
					for _, o := range own {
						pi, ok := o.(*ndp.PrefixInformation)
						if !ok || pi.ValidLifetime != vfRemainingAt(cfgValid, j) || pi.PreferredLifetime != vfRemainingAt(cfgPref, j) {
							all = false
						}
					}
					if all {
						norm = j
					}
				}
			}
			for _, o := range own {
				pi, ok := o.(*ndp.PrefixInformation)
				if !ok {
					t.Fatalf("unexpected option %T", o)
				}
				impl.Prefix(netip.PrefixFrom(pi.Prefix, int(pi.PrefixLength)))
				v, pf := pi.ValidLifetime, pi.PreferredLifetime
				if norm >= 0 {
					v, pf = valid, pref
				}
				impl.B(pi.OnLink).B(pi.AutonomousAddressConfiguration).I(int64(v)).I(int64(pf))
			}
		}
		return impl.String()
	})
}

func verifC13(t *testing.T, r *vfh.Rand, out *vfh.Out) {
	pool := c13Pool()
	k := 3
	if vfh.Thorough() {
		k = 4
	}
	tcnt := 0
	vfTuples(len(pool), k, func(idx []int) {
		as := make([]system.IP, len(idx))
		for i, j := range idx {
			as[i] = pool[j]
		}
		c13Run(t, out, 64, tcnt, as)
		if tcnt%3 == 0 { // the same addresses again, flags changed
			c13Run(t, out, 64, tcnt, vfFlipFlags(as, tcnt))
		}
		tcnt++
	})
	n := vfh.N(3000, 100000)
	for i := 0; i < n; i++ {
		ln := r.Intn(12)
		if r.Chance(1, 10) {
			ln = r.Intn(65)
		}
		as := make([]system.IP, ln)
		for j := range as {
			as[j] = system.IP{Address: vfRandAddr(r)}
			f := vfRandFlags(r)
			as[j].Deprecated, as[j].ManageTemporaryAddresses, as[j].StablePrivacy = f.dep, f.mng, f.stab
			as[j].Temporary, as[j].Tentative, as[j].ValidForever = f.tmp, f.tent, f.forever
		}
		// duplicates and reorderings of earlier entries
		for j := range as {
			if j > 0 && r.Chance(1, 6) {
				as[j] = as[r.Intn(j)]
			}
		}
		c13Run(t, out, 64, i, as)
		if i%3 == 0 && len(as) > 0 {
			c13Run(t, out, 64, i, vfFlipFlags(as, i))
		}
	}
	// a failing address source fails RA generation
	p := &Prefix{Auto: true, Prefix: vfMp("::/64"), Addrs: func() ([]system.IP, error) { return nil, errors.New("boom") }}
	ra := &ndp.RouterAdvertisement{}
	impl := "ok"
	if err := p.Apply(ra); err != nil {
		impl = "err"
	}
	out.Line("wperr 64", impl)
}

// ---------------------------------------------------------------------------------------------
// C14

func c14Pool() []system.IP {
	none := vfFlags{}
	return []system.IP{
		vfMkIP("fd00::5/64", none),                            // ULA
		vfMkIP("fd00::3/64", none),                            // ULA, lower
		vfMkIP("fd00::9/64", vfFlags{forever: true}),            // ULA stable
		vfMkIP("fd00::211:22ff:fe33:4455/64", none),           // ULA EUI-64 (stable by pattern)
		vfMkIP("fd00::1/64", vfFlags{dep: true}),                // ULA deprecated (excluded)
		vfMkIP("2001:db8::5/64", none),                        // GUA
		vfMkIP("2001:db8::2/64", vfFlags{stab: true}),           // GUA stable-privacy
		vfMkIP("2001:db8::1/64", vfFlags{tmp: true}),            // GUA temporary (excluded)
		vfMkIP("2001:db8::8/64", vfFlags{mng: true}),            // GUA manage-temp
		vfMkIP("2600::1/64", vfFlags{tent: true}),               // GUA tentative (excluded)
		vfMkIP("fe80::5/64", none),                            // LLA
		vfMkIP("fe80::211:22ff:fe33:4455/64", none),           // LLA EUI-64
		vfMkIP("fe80::1/64", vfFlags{forever: true, dep: true}), // LLA stable but deprecated
		vfMkIP("::1/128", none),                               // loopback: none of the classes
		vfMkIP("ff02::1/128", vfFlags{forever: true}),           // multicast, stable flag
		vfMkIP("10.0.0.1/24", vfFlags{forever: true}),           // IPv4 (excluded)
		vfMkIP("2001:db8::5/128", vfFlags{stab: true}),          // same address as above, other mask and flags
		vfMkIP("fc00::1/7", none),                             // ULA, lowest
		vfMkIP("fd00::211:22ff:ee33:4455/64", none),           // ff without fe: not EUI-64
		vfMkIP("fd00::211:2200:fe33:4455/64", none),           // fe without ff: not EUI-64
	}
}

var (
	c14Plugins = map[string]*RDNSS{}
	c14Cur     []system.IP
)

// flipFlags: the same addresses in the same order, the kernel's flags changed (duplicate address
// detection finishing, a lifetime running out): tentative / deprecated / temporary toggled on some.
func vfFlipFlags(as []system.IP, k int) []system.IP {
	out := append([]system.IP(nil), as...)
	for i := range out {
		switch (k + i) % 4 {
		case 0:
			out[i].Tentative = !out[i].Tentative
		case 1:
			out[i].Deprecated = !out[i].Deprecated
		case 2:
			out[i].Temporary = !out[i].Temporary
		}
	}
	return out
}

var (
	c14Reenter     *RDNSS
	c14Next        []system.IP
	c14ReenterRA   *ndp.RouterAdvertisement
	c14ReenterDone chan struct{}
	c14ReenterErr  error
)

func c14Run(t *testing.T, out *vfh.Out, static []netip.Addr, as []system.IP) {
	// one long-lived plugin per static list, asked about changing address lists
	c14Cur = as
	key := fmt.Sprint(static)
	rd, ok := c14Plugins[key]
	if !ok || vfPrepareIfi != nil {
		rd = &RDNSS{Auto: true, Lifetime: 9 * time.Second, Servers: static,
			Addrs: func() ([]system.IP, error) {
				if wildSourceFails {
					return nil, errors.New("verif: the address dump failed")
				}
				// while this lookup is in flight the interface's addresses change, and only THEN
				// another RA is built from the same plugin (a scrape, a solicited RA): that one sees
				// the new addresses — it started after the change
				if other := c14Reenter; other != nil {
					c14Reenter = nil
					old := c14Cur
					c14Cur = c14Next
					done := make(chan struct{})
					c14ReenterDone = done
					go func() {
						defer close(done)
						c14ReenterErr = other.Apply(c14ReenterRA)
					}()
					select {
					case <-done:
					case <-time.After(300 * time.Millisecond):
					}
					return old, nil
				}
				return c14Cur, nil
			}}
		if vfPrepareIfi == nil {
			addrs := rd.Addrs
			_ = rd.Prepare(&net.Interface{Index: 1, Name: "lo"})
			rd.Addrs = addrs
		}
		c14Plugins[key] = rd
	}
	if (len(as)+len(static))%6 == 1 && vfPrepareIfi == nil {
		defer func() {
			wildSourceFails = true
			defer func() { wildSourceFails = false }()
			out.Try("wderr", func() string {
				if err := rd.Apply(&ndp.RouterAdvertisement{}); err != nil {
					return "err"
				}
				return "ok"
			})
		}()
	}
	if vfPrepareIfi != nil {
		rd.Addrs = nil
		if err := rd.Prepare(vfPrepareIfi); err != nil {
			t.Fatalf("RDNSS.Prepare: %v", err)
		}
	}
	first := ""
	// static servers with spare capacity, as a parser building the slice incrementally leaves them
	static = append(make([]netip.Addr, 0, len(static)+2), static...)
	rd.Servers = static
	c := new(vfh.Toks).S("wd").N(len(static))
	for _, s := range static {
		c.Addr(s)
	}
	c.N(len(as))
	for _, a := range as {
		vfSysIPToks(c, a)
	}
	// the option is built three times from the same plugin: every build must be the same
	var cands []netip.Prefix
	for _, a := range as {
		cands = append(cands, a.Address)
	}
	// in one run in five: the addresses change while the first build's lookup is in flight (every
	// Deprecated flag flips), and a second build of the same plugin starts after the change
	overlap := (len(as)*3+len(static))%5 == 2 && vfPrepareIfi == nil && len(as) > 0
	if overlap {
		next := append([]system.IP(nil), as...)
		for i := range next {
			next[i].Deprecated = !next[i].Deprecated
		}
		c14Next, c14Reenter = next, rd
		c14ReenterRA, c14ReenterDone, c14ReenterErr = &ndp.RouterAdvertisement{}, nil, nil
		defer func() {
			c14Reenter = nil
			if c14ReenterDone == nil {
				return
			}
			c2 := new(vfh.Toks).S("wd").N(len(static))
			for _, s := range static {
				c2.Addr(s)
			}
			c2.N(len(next))
			for _, a := range next {
				vfSysIPToks(c2, a)
			}
			select {
			case <-c14ReenterDone:
			case <-time.After(5 * time.Second):
				out.Line(c2.String(), "hung")
				return
			}
			impl := new(vfh.Toks)
			if c14ReenterErr != nil || len(c14ReenterRA.Options) != 1 {
				impl.S("err")
			} else if o, ok := c14ReenterRA.Options[0].(*ndp.RecursiveDNSServer); ok {
				impl.N(len(o.Servers))
				for _, s := range o.Servers {
					impl.Addr(s)
				}
			}
			out.Line(c2.String(), impl.String())
		}()
	}
	for build := 0; build < 3; build++ {
		if overlap && build == 1 {
			c14Cur = as // the later builds of this run see the original list again
		}
		pre := vfWildPre(len(as)+len(static)+build, cands)
		ra := &ndp.RouterAdvertisement{Options: append([]ndp.Option(nil), pre...)}
		impl := new(vfh.Toks)
		if err := rd.Apply(ra); err != nil {
			impl.S("err")
		} else {
			own := vfWildOwn(t, ra, pre)
			if len(own) != 1 {
				t.Fatalf("RDNSS.Apply produced %d options", len(own))
			}
			o := own[0].(*ndp.RecursiveDNSServer)
			if o.Lifetime != 9*time.Second {
				t.Fatalf("RDNSS lifetime %s", o.Lifetime)
			}
			impl.N(len(o.Servers))
			for _, s := range o.Servers {
				impl.Addr(s)
			}
		}
		if build == 0 || impl.String() != first {
			out.Line(c.String(), impl.String())
		}
		if build == 0 {
			first = impl.String()
		}
	}
}

func verifC14(t *testing.T, r *vfh.Rand, out *vfh.Out) {
	pool := c14Pool()
	// static lists (sorted, as the parser leaves them); the last two hold addresses that are also on
	// the interface: the wildcard's choice still comes first, whatever the static list says
	statics := [][]netip.Addr{nil, {netip.MustParseAddr("2001:db8::53")},
		{netip.MustParseAddr("2001:db8::53"), netip.MustParseAddr("fd00::53")},
		{netip.MustParseAddr("2001:db8::2"), netip.MustParseAddr("fd00::9")},
		{netip.MustParseAddr("2001:db8::53"), netip.MustParseAddr("fd00::3"), netip.MustParseAddr("fd00::5"), netip.MustParseAddr("fe80::5")}}
	k := 3
	if vfh.Thorough() {
		k = 4
	}
	cnt := 0
	vfTuples(len(pool), k, func(idx []int) {
		as := make([]system.IP, len(idx))
		for i, j := range idx {
			as[i] = pool[j]
		}
		c14Run(t, out, statics[cnt%len(statics)], as)
		if cnt%3 == 0 { // the same addresses again, flags changed
			c14Run(t, out, statics[cnt%len(statics)], vfFlipFlags(as, cnt))
		}
		cnt++
	})
	n := vfh.N(3000, 100000)
	for i := 0; i < n; i++ {
		ln := r.Intn(10)
		if r.Chance(1, 10) {
			ln = r.Intn(65)
		}
		as := make([]system.IP, ln)
		for j := range as {
			as[j] = system.IP{Address: vfRandAddr(r)}
			f := vfRandFlags(r)
			as[j].Deprecated, as[j].ManageTemporaryAddresses, as[j].StablePrivacy = f.dep, f.mng, f.stab
			as[j].Temporary, as[j].Tentative, as[j].ValidForever = f.tmp, f.tent, f.forever
		}
		for j := range as {
			if j > 0 && r.Chance(1, 6) {
				as[j] = as[r.Intn(j)]
			}
		}
		c14Run(t, out, vfh.Pick(r, statics), as)
	}
	rd := &RDNSS{Auto: true, Addrs: func() ([]system.IP, error) { return nil, errors.New("boom") }}
	impl := "ok"
	if err := rd.Apply(&ndp.RouterAdvertisement{}); err != nil {
		impl = "err"
	}
	out.Line("wderr", impl)
}

// ---------------------------------------------------------------------------------------------
// C15

func c15Pool() []netip.Prefix {
	return []netip.Prefix{
		vfMp("2001:db8::/32"), vfMp("2001:db8::/48"), vfMp("2001:db8::/64"), vfMp("2001:db8:0:1::/64"),
		vfMp("2001:db8:1::/48"), vfMp("2001:db8:1:2::/64"), vfMp("fd00::/8"), vfMp("fd00:1::/32"),
		vfMp("::/0"), vfMp("2001:db8::1/128"), vfMp("10.0.0.0/8"), vfMp("fe80::/64"),
	}
}

func vfRandRoute(r *vfh.Rand) netip.Prefix {
	if r.Chance(1, 15) {
		return netip.PrefixFrom(vfh.Addr4(uint32(r.Intn(4))<<24), 8)
	}
	if r.Chance(1, 40) {
		return vfMp("::/0")
	}
	his := []uint64{0x2001_0db8_0000_0000, 0x2001_0db8_0001_0000, 0xfd00_0000_0000_0000, 0x2600_0000_0000_0000}
	hi := vfh.Pick(r, his) | uint64(r.Intn(3))<<uint(16*r.Intn(3))
	lo := uint64(0)
	bits := vfh.Pick(r, []int{16, 32, 48, 56, 60, 64, 64, 64, 96, 128})
	if bits > 64 {
		lo = uint64(r.Intn(3)) << 32
		if bits == 128 {
			lo |= uint64(r.Intn(3))
		}
	}
	return netip.PrefixFrom(vfh.Addr6(hi, lo), bits).Masked()
}

// c15Reenter: the plugin whose expansion is re-entered from inside its own route dump (see the Routes
// callback in c15Run)
var c15Reenter *Route

var (
	c15ReenterRA   *ndp.RouterAdvertisement
	c15ReenterDone chan struct{}
	c15ReenterErr  error
)

func c15Run(t *testing.T, out *vfh.Out, k int, rs []netip.Prefix) {
	routes := make([]system.Route, len(rs))
	pref := []ndp.Preference{ndp.Medium, ndp.High, ndp.Low}[k%3]
	lt := time.Duration(11+k%9) * time.Second
	// one stanza variant in nine is deprecated (see c13Run)
	dep := k%9 == 4 && vfPrepareIfi == nil
	cfgLt := lt
	if dep {
		wildClock = vfWildClockT{first: wildEpoch.Add(time.Duration(10300+(k%13)*450) * time.Millisecond), step: 400 * time.Millisecond}
		lt = vfRemainingAt(cfgLt, 0)
	}
	c := new(vfh.Toks).S("wr").N(int(pref)).I(int64(lt)).N(len(rs))
	for i, p := range rs {
		// the interface index and the kernel's preference of a dump entry are immaterial to the
		// property (one option per distinct covering prefix): vary them, so that the same prefix
		// also occurs with different values
		routes[i] = system.Route{Prefix: p, Index: 1 + (i*7+k)%3, Preference: []ndp.Preference{ndp.Medium, ndp.Low, ndp.High}[(i+k/2)%3]}
		c.Prefix(p)
	}
	c15Cur = routes
	rt, ok := c15Plugins[k%9]
	if !ok || vfPrepareIfi != nil {
		rt = &Route{Auto: true, Prefix: vfMp("::/0"), Preference: pref, Lifetime: cfgLt,
			Routes: func() ([]system.Route, error) {
				if wildSourceFails {
					return nil, errors.New("verif: the route dump failed")
				}
				// another caller (the Prometheus collector, the debug API) builds an RA from the SAME
				// plugin value while this one is inside its route dump: a complete second expansion
				// runs here, between this expansion's start and its use of the dump
				if other := c15Reenter; other != nil {
					c15Reenter = nil
					done := make(chan struct{})
					c15ReenterDone = done
					go func() {
						defer close(done)
						c15ReenterErr = other.Apply(c15ReenterRA)
					}()
					// the second expansion normally completes at once; if it is made to wait for
					// this one (shared work), let this one go on after a moment
					select {
					case <-done:
					case <-time.After(300 * time.Millisecond):
					}
				}
				return c15Cur, nil
			}}
		if vfPrepareIfi == nil {
			routes := rt.Routes
			_ = rt.Prepare(&net.Interface{Index: 1, Name: "lo"})
			rt.Routes = routes
		}
		if dep {
			rt.Deprecated, rt.Epoch, rt.TimeNow = true, wildEpoch, vfWildNow
		}
		c15Plugins[k%9] = rt
	}
	if k%6 == 1 && vfPrepareIfi == nil {
		defer func() {
			wildSourceFails = true
			defer func() { wildSourceFails = false }()
			out.Try("wrerr", func() string {
				if err := rt.Apply(&ndp.RouterAdvertisement{}); err != nil {
					return "err"
				}
				return "ok"
			})
		}()
	}
	if vfPrepareIfi != nil {
		rt.Routes = nil
		if err := rt.Prepare(vfPrepareIfi); err != nil {
			t.Fatalf("Route.Prepare: %v", err)
		}
	}
	pre := vfWildPre(k, rs)
	ra := &ndp.RouterAdvertisement{Options: append([]ndp.Option(nil), pre...)}
	c15ReenterRA, c15ReenterDone, c15ReenterErr = &ndp.RouterAdvertisement{}, nil, nil
	var otherRt *Route
	switch {
	case k%5 == 2 && !dep && vfPrepareIfi == nil:
		c15Reenter = rt // the same plugin value (a scrape next to the advertiser)
		defer func() { c15Reenter = nil }()
	case k%5 == 3 && !dep && vfPrepareIfi == nil:
		// ANOTHER interface's `::/0` stanza, with its own preference and lifetime, expands at the
		// same moment (the loopback routes are the host's: both read the same dump)
		otherRt = &Route{Auto: true, Prefix: vfMp("::/0"), Preference: []ndp.Preference{ndp.High, ndp.Low, ndp.Medium}[k%3], Lifetime: cfgLt + 7*time.Second,
			Routes: func() ([]system.Route, error) { return c15Cur, nil }}
		c15Reenter = otherRt
		defer func() { c15Reenter = nil }()
	}
	if otherRt != nil {
		// the other stanza's options, judged by the same model with ITS parameters
		defer func() {
			if c15ReenterDone == nil {
				return
			}
			select {
			case <-c15ReenterDone:
			case <-time.After(5 * time.Second):
				out.Line(new(vfh.Toks).S("wr").N(int(otherRt.Preference)).I(int64(otherRt.Lifetime)).N(0).String(), "hung")
				return
			}
			c2 := new(vfh.Toks).S("wr").N(int(otherRt.Preference)).I(int64(otherRt.Lifetime)).N(len(rs))
			for _, p := range rs {
				c2.Prefix(p)
			}
			impl := new(vfh.Toks)
			if c15ReenterErr != nil {
				impl.S("err")
			} else {
				impl.N(len(c15ReenterRA.Options))
				for _, o := range c15ReenterRA.Options {
					ri, ok := o.(*ndp.RouteInformation)
					if !ok {
						impl.S("?")
						continue
					}
					impl.Prefix(netip.PrefixFrom(ri.Prefix, int(ri.PrefixLength)))
					impl.N(int(ri.Preference)).I(int64(ri.RouteLifetime))
				}
			}
			out.Line(c2.String(), impl.String())
		}()
	}
	out.Try(c.String(), func() string {
		impl := new(vfh.Toks)
		if err := rt.Apply(ra); err != nil {
			impl.S("err")
		} else {
			own := vfWildOwn(t, ra, pre)
			impl.N(len(own))
			norm := -1
			if dep && len(own) > 0 {
				for j := 0; j < wildClock.reads && norm < 0; j++ {
					all := true
					for _, o := range own {
						ri, ok := o.(*ndp.RouteInformation)
						if !ok || ri.RouteLifetime != vfRemainingAt(cfgLt, j) {
							all = false
						}
					}
					if all {
						norm = j
					}
				}
			}
			for _, o := range own {
				ri, ok := o.(*ndp.RouteInformation)
				if !ok {
					t.Fatalf("unexpected option %T", o)
				}
				impl.Prefix(netip.PrefixFrom(ri.Prefix, int(ri.PrefixLength)))
				l := ri.RouteLifetime
				if norm >= 0 {
					l = lt
				}
				impl.N(int(ri.Preference)).I(int64(l))
			}
		}
		return impl.String()
	})
}

func verifC15(t *testing.T, r *vfh.Rand, out *vfh.Out) {
	pool := c15Pool()
	k := 3
	if vfh.Thorough() {
		k = 4
	}
	tcnt := 0
	vfTuples(len(pool), k, func(idx []int) {
		rs := make([]netip.Prefix, len(idx))
		for i, j := range idx {
			rs[i] = pool[j]
		}
		c15Run(t, out, tcnt, rs)
		tcnt++
	})
	n := vfh.N(3000, 100000)
	for i := 0; i < n; i++ {
		ln := r.Intn(10)
		if r.Chance(1, 10) {
			ln = r.Intn(65)
		}
		rs := make([]netip.Prefix, ln)
		for j := range rs {
			rs[j] = vfRandRoute(r)
			if j > 0 && r.Chance(1, 6) {
				rs[j] = rs[r.Intn(j)]
			}
		}
		c15Run(t, out, i, rs)
	}
	rt := &Route{Auto: true, Prefix: vfMp("::/0"), Routes: func() ([]system.Route, error) { return nil, errors.New("boom") }}
	impl := "ok"
	if err := rt.Apply(&ndp.RouterAdvertisement{}); err != nil {
		impl = "err"
	}
	out.Line("wrerr", impl)
}
