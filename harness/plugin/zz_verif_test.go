//go:build verif

package plugin

import (
	"fmt"
	"net"
	"net/netip"
	"sort"
	"testing"
	"testing/synctest"
	"time"

	"github.com/mdlayher/corerad/internal/system"
	"github.com/mdlayher/corerad/internal/vfh"
	"github.com/mdlayher/ndp"
)

// TestVerif is the entry point of the correspondence harness for package plugin.  It does
// nothing unless VERIF_PROP is set by /verif/check.
func TestVerif(t *testing.T) {
	prop := vfh.Prop()
	if prop == "" {
		t.Skip("VERIF_PROP not set")
	}
	out, err := vfh.OpenOut()
	if err != nil {
		t.Fatal(err)
	}
	defer out.Close()
	r := vfh.NewRand(vfh.Seed())
	switch prop {
	case "C16":
		verifC16(t, r, out)
		verifC16Prepared(t, r, out)
		// deprecated WILDCARD stanzas (one variant in seven / nine of the long-lived plugins counts
		// down on a moving clock), their sources failing now and then
		verifC13(t, r, out)
		verifC15(t, r, out)
	case "C13":
		verifC13(t, r, out)
		verifPrepared(t, out, "C13")
	case "C14":
		verifC14(t, r, out)
		verifPrepared(t, out, "C14")
	case "C15":
		verifC15(t, r, out)
		verifPrepared(t, out, "C15")
	default:
		t.Fatalf("unknown VERIF_PROP %q for package plugin", prop)
	}
}

// ---------------------------------------------------------------------------------------------
// C16: deprecated lifetimes with an injected clock

const (
	y2000 = 946684800
	y2100 = 4102444800
	y2260 = 9151488000
)

func vfGenLifetime(r *vfh.Rand) time.Duration {
	switch r.Intn(8) {
	case 0:
		return time.Duration(r.Range(1, 10)) // a few ns
	case 1:
		return time.Duration(r.Range(1, 3600)) * time.Second
	case 2:
		return time.Duration(r.Range(1, int64(2*time.Hour)))
	case 3:
		return ndp.Infinity - time.Second
	case 4:
		return time.Duration(r.Range(1, 1<<32-2)) * time.Second
	case 5:
		return time.Duration(r.Range(1, int64(48*time.Hour)))
	case 6:
		return 24 * time.Hour
	default:
		return time.Duration(r.Range(1, 86400*30)) * time.Second
	}
}

// clockSeq returns n non-decreasing instants (UnixNano) stressing the given deadlines.
func vfClockSeq(r *vfh.Rand, epoch int64, deadlines []int64, n int) []int64 {
	lo := epoch - int64(30*365*24*time.Hour)
	var pts []int64
	for len(pts) < n {
		var v int64
		switch r.Intn(6) {
		case 0: // around a deadline
			d := vfh.Pick(r, deadlines)
			v = d + r.Range(-2, 2)
		case 1:
			v = epoch + r.Range(-5, 5)
		case 2: // before the epoch
			v = r.Range(lo, epoch)
		case 3: // between epoch and a deadline
			d := vfh.Pick(r, deadlines)
			v = r.Range(epoch, d)
		case 4: // after a deadline
			d := vfh.Pick(r, deadlines)
			v = d + r.Range(0, int64(10*365*24*time.Hour))
		default:
			d := vfh.Pick(r, deadlines)
			v = d
		}
		if v < lo {
			v = lo
		}
		if v > y2260*1e9 {
			v = y2260 * 1e9
		}
		pts = append(pts, v)
	}
	sort.Slice(pts, func(i, j int) bool { return pts[i] < pts[j] })
	return pts
}

// stepClock is the injected TimeNow: while the plugin is applied for reading i it returns
// ts[i] on the first call and advances by step on every further call (never beyond the next
// reading), so that an implementation which reads the clock more than once per RA is exercised
// with a clock that moves between its reads. It stays a non-decreasing clock.
type vfStepClock struct {
	ts    []int64
	step  int64
	i     int
	reads int
}

func vfNewStepClock(r *vfh.Rand, ts []int64) *vfStepClock {
	c := &vfStepClock{ts: ts}
	switch r.Intn(8) {
	case 0:
		c.step = 1
	case 1:
		c.step = int64(400 * time.Millisecond)
	case 2:
		c.step = int64(time.Second)
	case 3:
		c.step = r.Range(1, int64(2*time.Second))
	}
	return c
}

func (c *vfStepClock) at(i int) { c.i, c.reads = i, 0 }

func (c *vfStepClock) now() time.Time {
	v := c.ts[c.i] + int64(c.reads)*c.step
	if c.i+1 < len(c.ts) && v > c.ts[c.i+1] {
		v = c.ts[c.i+1]
	}
	c.reads++
	return time.Unix(0, v)
}

// c16Pre: options already in the RA when the plugin under test is applied (two times in five):
// the same prefix as a Prefix Information / Route Information option with other lifetimes (a
// wildcard listed earlier that expanded onto it), other prefixes, an MTU option.
func c16Pre(r *vfh.Rand, pfx netip.Prefix) []ndp.Option {
	if !r.Chance(2, 5) {
		return nil
	}
	var pre []ndp.Option
	other := netip.MustParsePrefix("2001:db8:ffff::/64")
	for k := 1 + r.Intn(3); k > 0; k-- {
		q := pfx
		if r.Chance(1, 3) {
			q = other
		}
		switch r.Intn(3) {
		case 0:
			pre = append(pre, &ndp.PrefixInformation{PrefixLength: uint8(q.Bits()), OnLink: true, AutonomousAddressConfiguration: true,
				ValidLifetime: 24 * time.Hour, PreferredLifetime: 4 * time.Hour, Prefix: q.Addr()})
		case 1:
			pre = append(pre, &ndp.RouteInformation{PrefixLength: uint8(q.Bits()), Preference: ndp.Medium, RouteLifetime: 24 * time.Hour, Prefix: q.Addr()})
		default:
			pre = append(pre, ndp.NewMTU(1500))
		}
	}
	return pre
}

func verifC16(t *testing.T, r *vfh.Rand, out *vfh.Out) {
	n := vfh.N(5000, 300000)
	for k := 0; k < n; k++ {
		epoch := time.Unix(r.Range(y2000, y2100), r.Range(0, 999999999))
		e := epoch.UnixNano()
		dep := r.Chance(4, 5)
		if r.Bool() {
			// prefix
			V := vfGenLifetime(r)
			P := V
			if r.Chance(3, 4) {
				P = time.Duration(r.Range(1, int64(V)))
			}
			ts := vfClockSeq(r, e, []int64{e + int64(V), e + int64(P)}, 2+r.Intn(7))
			clk := vfNewStepClock(r, ts)
			p := &Prefix{
				Prefix:            netip.MustParsePrefix("2001:db8::/64"),
				OnLink:            r.Bool(),
				Autonomous:        r.Bool(),
				ValidLifetime:     V,
				PreferredLifetime: P,
				Deprecated:        dep,
				Epoch:             epoch,
				TimeNow:           clk.now,
			}
			c := new(vfh.Toks).S("pl").B(dep).I(e).I(int64(V)).I(int64(P)).I(clk.step).N(len(ts))
			impl := new(vfh.Toks)
			for i, ti := range ts {
				c.I(ti)
				clk.at(i)
				// the RA under construction already holds what the plugins listed before this one
				// appended (Interface.RouterAdvertisement applies them in order) — possibly an option
				// for the very same prefix, from a `::/64` wildcard expanding onto it
				pre := c16Pre(r, p.Prefix)
				ra := &ndp.RouterAdvertisement{Options: append([]ndp.Option(nil), pre...)}
				if err := p.Apply(ra); err != nil {
					t.Fatalf("Prefix.Apply: %v", err)
				}
				pi, ok := ra.Options[len(ra.Options)-1].(*ndp.PrefixInformation)
				if len(ra.Options) != len(pre)+1 || !ok {
					// the stanza's option is not what was appended: nothing is advertised for it
					impl.I(-1).I(-1).N(clk.reads)
					continue
				}
				impl.I(int64(pi.ValidLifetime)).I(int64(pi.PreferredLifetime)).N(clk.reads)
			}
			out.Line(c.String(), impl.String())
		} else {
			L := vfGenLifetime(r)
			ts := vfClockSeq(r, e, []int64{e + int64(L)}, 2+r.Intn(7))
			clk := vfNewStepClock(r, ts)
			rt := &Route{
				Prefix:     netip.MustParsePrefix("2001:db8:1::/48"),
				Preference: ndp.Medium,
				Lifetime:   L,
				Deprecated: dep,
				Epoch:      epoch,
				TimeNow:    clk.now,
			}
			c := new(vfh.Toks).S("rl").B(dep).I(e).I(int64(L)).I(clk.step).N(len(ts))
			impl := new(vfh.Toks)
			for i, ti := range ts {
				c.I(ti)
				clk.at(i)
				pre := c16Pre(r, rt.Prefix)
				ra := &ndp.RouterAdvertisement{Options: append([]ndp.Option(nil), pre...)}
				if err := rt.Apply(ra); err != nil {
					t.Fatalf("Route.Apply: %v", err)
				}
				ri, ok := ra.Options[len(ra.Options)-1].(*ndp.RouteInformation)
				if len(ra.Options) != len(pre)+1 || !ok {
					impl.I(-1).N(clk.reads)
					continue
				}
				impl.I(int64(ri.RouteLifetime)).N(clk.reads)
			}
			out.Line(c.String(), impl.String())
		}
	}
}


// verifC16Prepared: the same observations with the clock the daemon really uses — the plugin is
// handed to Prepare (which installs time.Now) instead of an injected TimeNow. Inside a
// testing/synctest bubble time.Now is a virtual clock that only moves when the harness sleeps,
// so the reading each Apply sees is known exactly.
func verifC16Prepared(t *testing.T, r *vfh.Rand, out *vfh.Out) {
	n := vfh.N(300, 5000)
	ifi := &net.Interface{Index: 1, Name: "lo"}
	for k := 0; k < n; k++ {
		synctest.Test(t, func(t *testing.T) {
			dep := r.Chance(4, 5)
			V := time.Duration(r.Range(1, int64(2*time.Hour)))
			P := V
			if r.Chance(3, 4) {
				P = time.Duration(r.Range(1, int64(V)))
			}
			// the daemon started `age` ago
			age := time.Duration(r.Range(0, int64(3*time.Hour)))
			epoch := time.Now().Add(-age)
			e := epoch.UnixNano()
			steps := 2 + r.Intn(5)
			if r.Bool() {
				p := &Prefix{Prefix: netip.MustParsePrefix("2001:db8::/64"), OnLink: true, Autonomous: true,
					ValidLifetime: V, PreferredLifetime: P, Deprecated: dep, Epoch: epoch}
				if err := p.Prepare(ifi); err != nil {
					t.Fatalf("Prefix.Prepare: %v", err)
				}
				var ts []int64
				impl := new(vfh.Toks)
				defer func() {
					c := new(vfh.Toks).S("pl").B(dep).I(e).I(int64(V)).I(int64(P)).I(0).N(len(ts))
					for _, ti := range ts {
						c.I(ti)
					}
					out.Line(c.String(), impl.String())
				}()
				for i := 0; i < steps; i++ {
					c16Advance(r, epoch, []time.Duration{V, P})
					ts = append(ts, time.Now().UnixNano())
					ra := &ndp.RouterAdvertisement{}
					if err := p.Apply(ra); err != nil || len(ra.Options) != 1 {
						impl.S("apply-failed")
						break
					}
					pi := ra.Options[0].(*ndp.PrefixInformation)
					impl.I(int64(pi.ValidLifetime)).I(int64(pi.PreferredLifetime)).N(1)
				}
			} else {
				rt := &Route{Prefix: netip.MustParsePrefix("2001:db8:1::/48"), Preference: ndp.Medium,
					Lifetime: V, Deprecated: dep, Epoch: epoch}
				if err := rt.Prepare(ifi); err != nil {
					t.Fatalf("Route.Prepare: %v", err)
				}
				var ts []int64
				impl := new(vfh.Toks)
				defer func() {
					c := new(vfh.Toks).S("rl").B(dep).I(e).I(int64(V)).I(0).N(len(ts))
					for _, ti := range ts {
						c.I(ti)
					}
					out.Line(c.String(), impl.String())
				}()
				for i := 0; i < steps; i++ {
					c16Advance(r, epoch, []time.Duration{V})
					ts = append(ts, time.Now().UnixNano())
					ra := &ndp.RouterAdvertisement{}
					if err := rt.Apply(ra); err != nil || len(ra.Options) != 1 {
						impl.S("apply-failed")
						break
					}
					ri := ra.Options[0].(*ndp.RouteInformation)
					impl.I(int64(ri.RouteLifetime)).N(1)
				}
			}
		})
	}
}

// c16Advance moves the bubble's clock forward: by a random amount, or exactly onto / just
// before / just after one of the deadlines when that is still ahead.
func c16Advance(r *vfh.Rand, epoch time.Time, lifetimes []time.Duration) {
	now := time.Now()
	dl := epoch.Add(vfh.Pick(r, lifetimes))
	switch r.Intn(5) {
	case 0:
		if d := dl.Sub(now); d > 0 {
			time.Sleep(d)
			return
		}
	case 1:
		if d := dl.Sub(now) - 1; d > 0 {
			time.Sleep(d)
			return
		}
	case 2:
		if d := dl.Sub(now) + 1; d > 0 {
			time.Sleep(d)
			return
		}
	case 3:
		return // same instant as the previous reading
	}
	time.Sleep(time.Duration(r.Range(1, int64(40*time.Minute))))
}

var _ = fmt.Sprint
var _ system.IP
