//go:build verif

package crhttp

import (
	"bytes"
	"encoding/json"
	"io"
	"log"
	"net"
	"net/http"
	"net/http/httptest"
	"net/netip"
	"testing"
	"time"

	"github.com/mdlayher/corerad/internal/config"
	"github.com/mdlayher/corerad/internal/corerad"
	"github.com/mdlayher/corerad/internal/vfh"
	"github.com/mdlayher/corerad/internal/vfobs"
	"github.com/mdlayher/metricslite"
	"github.com/prometheus/client_golang/prometheus"
	"github.com/prometheus/client_golang/prometheus/promhttp"
)

// TestVerif is the entry point of the correspondence harness for package crhttp.  It does
// nothing unless VERIF_PROP is set by /verif/check.
func TestVerif(t *testing.T) {
	prop := vfh.Prop()
	if prop == "" {
		t.Skip("VERIF_PROP not set")
	}
	out, err := vfh.OpenOut()
	if err != nil {
		t.Fatal(err)
	}
	defer out.Close()
	r := vfh.NewRand(vfh.Seed() ^ 0x6372687474700000)
	switch prop {
	case "C17":
		verifC17(t, r, out)
	default:
		t.Fatalf("unknown VERIF_PROP %q for package crhttp", prop)
	}
}

// C17 (debug API half).
//
// Case line:  api n { iface lc } sys { fw }×n      (fw = T | F | X, the forwarding read)
// Impl line:  ok n { name advertise ( N | A hop managed other pref routerLifetime_s reachable_ms
//                retransmit_ms  nd { lt k id… }  mtu  np { addr len onlink auto valid_s pref_s }
//                nr { lt k addr… }  nrt { addr len pref lt_s }  ( N | M len mac )  ( N | C id len )
//                n64 { prefix lt_s } ) }   |  err (HTTP 500)  |  panic (ServeHTTP panicked)
//             JSON strings are mapped back to the ids/addresses of the case line; a field that
//             cannot be mapped back shows as a `?…` token.
//
// Case line:  rt prometheus pprof
// Impl line:  served bits (status != 404) for /, /_/api/interfaces, /metrics, /debug/pprof/,
//             /debug/pprof/cmdline, /verif-unknown

type c17Body struct {
	Interfaces []struct {
		Interface     string `json:"interface"`
		Advertise     bool   `json:"advertise"`
		Advertisement *struct {
			CurrentHopLimit             int    `json:"current_hop_limit"`
			ManagedConfiguration        bool   `json:"managed_configuration"`
			OtherConfiguration          bool   `json:"other_configuration"`
			MobileIPv6HomeAgent         bool   `json:"mobile_ipv6_home_agent"`
			RouterSelectionPreference   string `json:"router_selection_preference"`
			NeighborDiscoveryProxy      bool   `json:"neighbor_discovery_proxy"`
			RouterLifetimeSeconds       int64  `json:"router_lifetime_seconds"`
			ReachableTimeMilliseconds   int64  `json:"reachable_time_milliseconds"`
			RetransmitTimerMilliseconds int64  `json:"retransmit_timer_milliseconds"`
			Options                     struct {
				DNSSL []struct {
					LifetimeSeconds int64    `json:"lifetime_seconds"`
					DomainNames     []string `json:"domain_names"`
				} `json:"dnssl"`
				MTU      int64 `json:"mtu"`
				Prefixes []struct {
					Prefix                             string `json:"prefix"`
					OnLink                             bool   `json:"on_link"`
					AutonomousAddressAutoconfiguration bool   `json:"autonomous_address_autoconfiguration"`
					ValidLifetimeSeconds               int64  `json:"valid_lifetime_seconds"`
					PreferredLifetimeSeconds           int64  `json:"preferred_lifetime_seconds"`
				} `json:"prefixes"`
				RDNSS []struct {
					LifetimeSeconds int64    `json:"lifetime_seconds"`
					Servers         []string `json:"servers"`
				} `json:"rdnss"`
				Routes []struct {
					Prefix               string `json:"prefix"`
					Preference           string `json:"preference"`
					RouteLifetimeSeconds int64  `json:"route_lifetime_seconds"`
				} `json:"routes"`
				SourceLinkLayerAddress string `json:"source_link_layer_address"`
				CaptivePortal          string `json:"captive_portal"`
				// absent until the source renders the kind
				PREF64 []struct {
					Prefix          string `json:"prefix"`
					LifetimeSeconds int64  `json:"lifetime_seconds"`
				} `json:"pref64"`
			} `json:"options"`
		} `json:"advertisement"`
	} `json:"interfaces"`
}

func c17Pref(t *vfh.Toks, s string) {
	switch s {
	case "medium":
		t.N(0)
	case "high":
		t.N(1)
	case "low":
		t.N(3)
	default:
		t.S("?preference")
	}
}

func c17Cidr(t *vfh.Toks, s string) {
	p, err := netip.ParsePrefix(s)
	if err != nil {
		t.S("?cidr")
		return
	}
	t.Prefix(p)
}

// c17Serve drives the handler; a panic escaping ServeHTTP is reported, not re-raised.
func c17Serve(h http.Handler, path string) (rec *httptest.ResponseRecorder, panicked bool) {
	rec = httptest.NewRecorder()
	defer func() {
		if recover() != nil {
			panicked = true
		}
	}()
	h.ServeHTTP(rec, httptest.NewRequest(http.MethodGet, path, nil))
	return rec, false
}

func c17Api(t *vfh.Toks, h http.Handler, e *vfobs.Enc) {
	rec, panicked := c17Serve(h, "/_/api/interfaces")
	if panicked {
		t.S("panic")
		return
	}
	switch rec.Code {
	case http.StatusOK:
	case http.StatusInternalServerError:
		t.S("err")
		return
	default:
		t.S("?status")
		return
	}
	var body c17Body
	dec := json.NewDecoder(bytes.NewReader(rec.Body.Bytes()))
	dec.DisallowUnknownFields()
	if err := dec.Decode(&body); err != nil {
		t.S("?json")
		return
	}
	if ct := rec.Header().Get("Content-Type"); ct != contentJSON {
		t.S("?content-type")
		return
	}
	t.S("ok").N(len(body.Interfaces))
	for _, i := range body.Interfaces {
		id, ok := e.Names.Lookup(i.Interface)
		if !ok {
			t.S("?iface")
			continue
		}
		t.N(id).B(i.Advertise)
		a := i.Advertisement
		if a == nil {
			t.S("N")
			continue
		}
		t.S("A").N(a.CurrentHopLimit).B(a.ManagedConfiguration).B(a.OtherConfiguration)
		c17Pref(t, a.RouterSelectionPreference)
		t.I(a.RouterLifetimeSeconds).I(a.ReachableTimeMilliseconds).I(a.RetransmitTimerMilliseconds)
		if a.MobileIPv6HomeAgent || a.NeighborDiscoveryProxy {
			t.S("?flags")
		}
		o := a.Options
		t.N(len(o.DNSSL))
		for _, d := range o.DNSSL {
			t.I(d.LifetimeSeconds).N(len(d.DomainNames))
			for _, n := range d.DomainNames {
				if id, ok := e.Doms.Lookup(n); ok {
					t.N(id)
				} else {
					t.S("?domain")
				}
			}
		}
		t.I(o.MTU)
		t.N(len(o.Prefixes))
		for _, p := range o.Prefixes {
			c17Cidr(t, p.Prefix)
			t.B(p.OnLink).B(p.AutonomousAddressAutoconfiguration).I(p.ValidLifetimeSeconds).I(p.PreferredLifetimeSeconds)
		}
		t.N(len(o.RDNSS))
		for _, d := range o.RDNSS {
			t.I(d.LifetimeSeconds).N(len(d.Servers))
			for _, s := range d.Servers {
				if a, err := netip.ParseAddr(s); err == nil {
					t.Addr(a)
				} else {
					t.S("?server")
				}
			}
		}
		t.N(len(o.Routes))
		for _, rt := range o.Routes {
			c17Cidr(t, rt.Prefix)
			c17Pref(t, rt.Preference)
			t.I(rt.RouteLifetimeSeconds)
		}
		if o.SourceLinkLayerAddress == "" {
			t.S("N")
		} else if mac, err := net.ParseMAC(o.SourceLinkLayerAddress); err == nil {
			t.S("M").MAC(mac)
		} else {
			t.S("?mac")
		}
		if o.CaptivePortal == "" {
			t.S("N")
		} else if id, ok := e.URIs.Lookup(o.CaptivePortal); ok {
			t.S("C").N(id).N(len(o.CaptivePortal))
		} else {
			t.S("?uri")
		}
		t.N(len(o.PREF64))
		for _, p := range o.PREF64 {
			c17Cidr(t, p.Prefix)
			t.I(p.LifetimeSeconds)
		}
	}
}

func c17ApiCase(t *testing.T, out *vfh.Out, c vfobs.Case) {
	c17ApiCaseW(t, out, c, false)
	c17ApiCaseW(t, out, c, true)
}

// c17ApiCaseW: with warm set, the handler is created — and asked once — while every interface
// is still uninitialised, and only then are the interfaces brought to their lifecycle points (in
// place, as the advertiser's Prepare does): the long-lived handler of the daemon must answer
// with the state of the moment, whatever it answered before.
func c17ApiCaseW(t *testing.T, out *vfh.Out, c vfobs.Case, warm bool) {
	var cfg *config.Config
	var err error
	if warm {
		cfg, err = vfobs.Parse(c.Doc)
	} else {
		cfg, err = c.Prepare()
	}
	if err != nil {
		t.Fatalf("catalogue document %s rejected: %v\n%s", c.Doc.Tag, err, c.Doc.TOML)
	}
	ct := new(vfh.Toks).S("api")
	e := c.Head(ct, cfg)
	for _, x := range c.Rounds[0] {
		ct.S(string(x[1]))
	}
	st := &vfobs.State{}
	c.Script(st, cfg, 0)
	h := NewHandler(log.New(io.Discard, "", 0), st, *cfg, http.NotFoundHandler())
	if warm {
		c17Api(new(vfh.Toks), h, e) // the answer before initialisation is not judged here
		c.Advance(cfg)
	}
	it := new(vfh.Toks)
	c17Api(it, h, e)
	out.Line(ct.String(), it.String())
}

// c17Routes: the production wiring of cmd/corerad/main.go (registry, metrics, promhttp) with
// an initialised static configuration, under the four debug settings.
func c17Routes(t *testing.T, out *vfh.Out) {
	doc := vfobs.Doc{Tag: "routes", TOML: "[[interfaces]]\nname = \"eth0\"\nadvertise = true\n[[interfaces.prefix]]\nprefix = \"2001:db8:0:1::/64\"\n"}
	for _, prom := range []bool{false, true} {
		for _, pp := range []bool{false, true} {
			c := vfobs.Case{Doc: doc, LC: []byte{'I'}, Sys: vfobs.CorpusSys(), Rounds: [][][2]vfobs.Read{{{vfobs.ReadFalse, vfobs.ReadTrue}}}}
			cfg, err := c.Prepare()
			if err != nil {
				t.Fatal(err)
			}
			cfg.Debug = config.Debug{Address: "localhost:9430", Prometheus: prom, PProf: pp}
			st := &vfobs.State{}
			c.Script(st, cfg, 0)
			reg := prometheus.NewPedanticRegistry()
			_ = corerad.NewMetrics(metricslite.NewPrometheus(reg), "v", time.Time{}, st, cfg.Interfaces)
			h := NewHandler(log.New(io.Discard, "", 0), st, *cfg, promhttp.HandlerFor(reg, promhttp.HandlerOpts{}))
			it := new(vfh.Toks)
			for _, p := range []string{"/", "/_/api/interfaces", "/metrics", "/debug/pprof/", "/debug/pprof/cmdline", "/verif-unknown"} {
				rec, panicked := c17Serve(h, p)
				if panicked {
					it.S("?panic")
					continue
				}
				it.B(rec.Code != http.StatusNotFound)
			}
			out.Line(new(vfh.Toks).S("rt").B(prom).B(pp).String(), it.String())
		}
	}
}

func verifC17(t *testing.T, r *vfh.Rand, out *vfh.Out) {
	c17Routes(t, out)
	docs := vfobs.Docs(r, vfh.N(3, 40))
	for _, d := range docs {
		cfg, err := vfobs.Parse(d)
		if err != nil {
			t.Fatalf("catalogue document %s rejected: %v\n%s", d.Tag, err, d.TOML)
		}
		for _, c := range vfobs.Cases(r, d, len(cfg.Interfaces)) {
			c17ApiCase(t, out, c)
		}
	}
	t.Logf("C17 api: %d documents, %d lines", len(docs), out.Count())
}
