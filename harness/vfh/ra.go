//go:build verif

package vfh

import (
	"fmt"
	"net"

	"github.com/mdlayher/ndp"
)

// Interner maps strings whose content is irrelevant to the model (names, URIs) to small ids;
// "" is 0.
type Interner struct{ ids map[string]int }

func (in *Interner) ID(s string) int {
	if s == "" {
		return 0
	}
	if in.ids == nil {
		in.ids = map[string]int{}
	}
	if v, ok := in.ids[s]; ok {
		return v
	}
	in.ids[s] = len(in.ids) + 1
	return in.ids[s]
}

// MAC writes `len value`.
func (t *Toks) MAC(mac net.HardwareAddr) *Toks {
	var v uint64
	for _, b := range mac {
		v = v<<8 | uint64(b)
	}
	return t.N(len(mac)).U(v)
}

// RA writes the canonical token form of a router advertisement (DESIGN appendix D).
func (t *Toks) RA(ra *ndp.RouterAdvertisement, doms, uris *Interner) *Toks {
	t.N(int(ra.CurrentHopLimit)).B(ra.ManagedConfiguration).B(ra.OtherConfiguration).N(int(ra.RouterSelectionPreference)).
		I(int64(ra.RouterLifetime)).I(int64(ra.ReachableTime)).I(int64(ra.RetransmitTimer)).N(len(ra.Options))
	for _, o := range ra.Options {
		switch o := o.(type) {
		case *ndp.PrefixInformation:
			t.N(0).Addr(o.Prefix).N(int(o.PrefixLength)).B(o.OnLink).B(o.AutonomousAddressConfiguration).I(int64(o.ValidLifetime)).I(int64(o.PreferredLifetime))
		case *ndp.RouteInformation:
			t.N(1).Addr(o.Prefix).N(int(o.PrefixLength)).N(int(o.Preference)).I(int64(o.RouteLifetime))
		case *ndp.RecursiveDNSServer:
			t.N(2).I(int64(o.Lifetime)).N(len(o.Servers))
			for _, s := range o.Servers {
				t.Addr(s)
			}
		case *ndp.DNSSearchList:
			t.N(3).I(int64(o.Lifetime)).N(len(o.DomainNames))
			for _, n := range o.DomainNames {
				t.N(doms.ID(n))
			}
		case *ndp.MTU:
			t.N(4).N(int(o.MTU))
		case *ndp.LinkLayerAddress:
			t.N(5).MAC(o.Addr)
		case *ndp.CaptivePortal:
			t.N(6).N(uris.ID(o.URI)).N(len(o.URI))
		case *ndp.PREF64:
			t.N(7).Prefix(o.Prefix).I(int64(o.Lifetime))
		default:
			t.S(fmt.Sprintf("?%T", o))
		}
	}
	return t
}
