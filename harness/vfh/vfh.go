//go:build verif

// Package vfh holds the shared pieces of the correspondence harness: one PRNG from which
// every random choice derives, the line-protocol writer, and small generators.
//
// It is injected into module github.com/mdlayher/corerad at build time with
// `go test -overlay`; nothing in /repo refers to it.
package vfh

import (
	"bufio"
	"fmt"
	"math/big"
	"net/netip"
	"os"
	"strconv"
	"strings"
	"sync"
)

// Rand is splitmix64.
type Rand struct{ s uint64 }

func NewRand(seed uint64) *Rand { return &Rand{s: seed} }

func (r *Rand) Uint64() uint64 {
	r.s += 0x9e3779b97f4a7c15
	z := r.s
	z = (z ^ (z >> 30)) * 0xbf58476d1ce4e5b9
	z = (z ^ (z >> 27)) * 0x94d049bb133111eb
	return z ^ (z >> 31)
}

// Intn returns a value in [0, n).
func (r *Rand) Intn(n int) int {
	if n <= 0 {
		return 0
	}
	return int(r.Uint64() % uint64(n))
}

// Int63n returns a value in [0, n).
func (r *Rand) Int63n(n int64) int64 {
	if n <= 0 {
		return 0
	}
	return int64(r.Uint64() % uint64(n))
}

// Range returns a value in [lo, hi].
func (r *Rand) Range(lo, hi int64) int64 { return lo + r.Int63n(hi-lo+1) }

func (r *Rand) Bool() bool { return r.Uint64()&1 == 1 }

// Chance is true with probability num/den.
func (r *Rand) Chance(num, den int) bool { return r.Intn(den) < num }

// Fork derives an independent generator (for parallel workers).
func (r *Rand) Fork() *Rand { return NewRand(r.Uint64()) }

func Pick[T any](r *Rand, xs []T) T { return xs[r.Intn(len(xs))] }

func Shuffle[T any](r *Rand, xs []T) {
	for i := len(xs) - 1; i > 0; i-- {
		j := r.Intn(i + 1)
		xs[i], xs[j] = xs[j], xs[i]
	}
}

// Env

func Prop() string { return os.Getenv("VERIF_PROP") }

func Thorough() bool { return os.Getenv("VERIF_TIER") == "thorough" }

func Seed() uint64 {
	s, err := strconv.ParseUint(os.Getenv("VERIF_SEED"), 10, 64)
	if err != nil {
		return 1
	}
	return s
}

// N picks a case budget by tier, scaled by VERIF_SCALE (percent) when set.
func N(quick, thorough int) int {
	n := quick
	if Thorough() {
		n = thorough
	}
	if s, err := strconv.Atoi(os.Getenv("VERIF_SCALE")); err == nil && s > 0 {
		n = n * s / 100
		if n < 1 {
			n = 1
		}
	}
	return n
}

// Out writes `case | impl` lines to the file named by VERIF_OUT.
type Out struct {
	mu sync.Mutex
	f  *os.File
	w  *bufio.Writer
	n  int
}

func OpenOut() (*Out, error) {
	p := os.Getenv("VERIF_OUT")
	if p == "" {
		return nil, fmt.Errorf("VERIF_OUT not set")
	}
	f, err := os.OpenFile(p, os.O_CREATE|os.O_WRONLY|os.O_APPEND, 0o644)
	if err != nil {
		return nil, err
	}
	return &Out{f: f, w: bufio.NewWriterSize(f, 1<<20)}, nil
}

func (o *Out) Line(c, impl string) {
	o.mu.Lock()
	defer o.mu.Unlock()
	o.w.WriteString(c)
	o.w.WriteString(" | ")
	o.w.WriteString(impl)
	o.w.WriteByte('\n')
	o.n++
}

// Try runs fn — which calls the implementation and renders what it observed — and writes the case
// line; a panic of the implementation is the observation "panic" (the oracle rejects it), not a
// crash of the harness that would leave the check without the failing input.
func (o *Out) Try(c string, fn func() string) {
	impl := func() (s string) {
		defer func() {
			if p := recover(); p != nil {
				s = "panic"
			}
		}()
		return fn()
	}()
	o.Line(c, impl)
}

// Pending records, durably, which scenario is about to run ("?? desc"): if the implementation
// (or the harness) crashes the process before the scenario's case line is written, the check
// reports that scenario as the failing input. The line is ignored otherwise.
func (o *Out) Pending(desc string) {
	o.mu.Lock()
	defer o.mu.Unlock()
	o.w.WriteString("?? ")
	o.w.WriteString(strings.ReplaceAll(desc, "\n", " "))
	o.w.WriteByte('\n')
	_ = o.w.Flush()
}

// Flush pushes buffered lines to the file, so that they survive a crash of the process (the
// virtual-time scenario runners call it after every scenario).
func (o *Out) Flush() {
	o.mu.Lock()
	defer o.mu.Unlock()
	_ = o.w.Flush()
}

func (o *Out) Count() int { o.mu.Lock(); defer o.mu.Unlock(); return o.n }

func (o *Out) Close() error {
	o.mu.Lock()
	defer o.mu.Unlock()
	if err := o.w.Flush(); err != nil {
		return err
	}
	return o.f.Close()
}

// Token helpers

type Toks struct{ sb strings.Builder }

func (t *Toks) sep() {
	if t.sb.Len() > 0 {
		t.sb.WriteByte(' ')
	}
}
func (t *Toks) S(s string) *Toks   { t.sep(); t.sb.WriteString(s); return t }
func (t *Toks) I(i int64) *Toks    { t.sep(); t.sb.WriteString(strconv.FormatInt(i, 10)); return t }
func (t *Toks) N(i int) *Toks      { return t.I(int64(i)) }
func (t *Toks) U(i uint64) *Toks   { t.sep(); t.sb.WriteString(strconv.FormatUint(i, 10)); return t }
func (t *Toks) B(b bool) *Toks {
	if b {
		return t.S("1")
	}
	return t.S("0")
}

// Addr writes `family value` (0 0 for the zero Addr).
func (t *Toks) Addr(a netip.Addr) *Toks {
	if !a.IsValid() {
		return t.S("0").S("0")
	}
	if a.Is4() {
		b := a.As4()
		return t.S("4").S(new(big.Int).SetBytes(b[:]).String())
	}
	b := a.As16()
	return t.S("6").S(new(big.Int).SetBytes(b[:]).String())
}

// Prefix writes `family value bits`.
func (t *Toks) Prefix(p netip.Prefix) *Toks {
	t.Addr(p.Addr())
	return t.N(p.Bits())
}

func (t *Toks) String() string { return t.sb.String() }

// Addr6 builds an IPv6 address from a high and low 64-bit half.
func Addr6(hi, lo uint64) netip.Addr {
	var b [16]byte
	for i := 0; i < 8; i++ {
		b[i] = byte(hi >> (56 - 8*i))
		b[8+i] = byte(lo >> (56 - 8*i))
	}
	return netip.AddrFrom16(b)
}

// Addr4 builds an IPv4 address.
func Addr4(v uint32) netip.Addr {
	return netip.AddrFrom4([4]byte{byte(v >> 24), byte(v >> 16), byte(v >> 8), byte(v)})
}
