import Corerad.Spec.C19Process
import Corerad.Spec.C10Check
import Corerad.Spec.C13Addresser
import Driver.Dialer
/-!
  Line-protocol handlers for the OS glue brought inside the model:
    pr, osc   — netstate `process` / `operStateChange`            (C19)
    ci, li, nsi — system `checkInterface` / `lookupInterface` / `isNoSuchInterface` (C10)
    ab, rb    — system `AddressesByIndex` / `routesByIndex`        (C13, C14, C15)
-/
namespace Driver.OSGlue
open Corerad Corerad.Model

/-! ### C19: `process`, `operStateChange` -/

section C19
open Corerad.Model.Process

/-- `kind hasAttrs iface oper` -/
def pMsg : P Msg := do
  let k ← P.nat; let a ← P.bool; let i ← P.nat; let o ← P.nat
  pure { kind := k, hasAttrs := a, iface := i, oper := o }

def csToks (cs : ChangeSet) : String :=
  s!"{cs.length}" ++ String.join (cs.map fun e =>
    s!" {e.1} {e.2.length}" ++ String.join (e.2.map fun c => s!" {c}"))

/-- `pr n (kind hasAttrs iface oper)* | k (iface len change*)*` (interfaces ascending), or `| panic` -/
def pr (c impl : List String) : Option Verdict := do
  let msgs ← P.run (P.list pMsg) c
  let model := csToks (canon (process msgs))
  let nt := msgs.any Spec.C19Process.counts && msgs.any (fun m => !Spec.C19Process.counts m)
  match impl with
  | ["panic"] =>
    pure { model := model, oracle := false, nontrivial := nt, note := "process panicked" }
  | _ =>
    let out ← P.run (P.list (do let i ← P.nat; let l ← P.list P.nat; pure (i, l))) impl
    let ok := Spec.C19Process.holds msgs out
    pure { model := model, oracle := ok, nontrivial := nt,
           note := if ok then "" else
             "the change set is not, per interface, exactly the changes of its link messages with attributes and a recognised operational state, in message order (Up↔LinkUp, Down↔LinkDown, Testing, Unknown, Dormant, NotPresent, LowerLayerDown)" }

/-- `osc state | change ok` -/
def osc (c impl : List String) : Option Verdict := do
  let s ← P.run P.nat c
  let (ch, ok) ← P.run (do let ch ← P.nat; let ok ← P.bool; pure (ch, ok)) impl
  let model := match operStateChange s with
    | some v => s!"{v} 1"
    | none => "0 0"
  let good := Spec.C19Process.holdsState s (ch, ok)
  pure { model := model, oracle := good, nontrivial := decide (s < 7),
         note := if good then "" else "operStateChange does not follow the documented state table" }

end C19

/-! ### C10: `checkInterface`, `lookupInterface`, `isNoSuchInterface` -/

section C10
open Corerad.Model.Dialer Corerad.Model.CheckIface Driver.Dialer

/-- `isIPNet fam val`: fam 0 = the byte slice is neither 4 nor 16 bytes long -/
def pNetAddr : P NetAddr := do
  let n ← P.bool
  let ip ← P.ip
  pure { isIPNet := n, ip := ip }

/-- `up akind n netaddr*`: akind 0 = listing succeeded, 1 syscall, 2 permission, 3 other -/
def pIface : P Iface := do
  let up ← P.bool
  let k ← P.nat
  let as ← P.list pNetAddr
  match k with
  | 0 => pure { up := up, addrs := .ok as }
  | 1 => pure { up := up, addrs := .error .syscall }
  | 2 => pure { up := up, addrs := .error .permission }
  | 3 => pure { up := up, addrs := .error .other }
  | _ => failure

def resToks (r : Res) (called : Bool) : String :=
  s!"{DialOut.code r.out} {boolTok r.wrapsAddrErr} {boolTok called}"

/-- `ci up akind n (isIPNet fam val)* | class wraps called`, or `| panic`:
    class as `Dialer.init` classifies (0 nil, 1 ErrLinkNotReady, 2 syscall, 3 permission,
    4 other), wraps = `errors.Is(err, <addrFunc's error>)`, called = addrFunc was called -/
def ci (c impl : List String) : Option Verdict := do
  let i ← P.run pIface c
  let model := resToks (check i) i.up
  let nt := i.up && (match i.addrs with | .ok as => decide (as.length ≥ 2) | .error _ => true)
  match impl with
  | ["panic"] =>
    pure { model := model, oracle := false, nontrivial := nt, note := "checkInterface panicked" }
  | _ =>
    let (r, called) ← P.run (do
      let o ← pEnum dialOutOfNat; let w ← P.bool; let cl ← P.bool
      pure (({ out := o, wrapsAddrErr := w } : Res), cl)) impl
    let ok := Spec.C10Check.holds i r && called == i.up
    let note :=
      if ok then ""
      else if Spec.C10Check.v4MappedClass i r && called == i.up then
        "class=v4mapped-link-local the interface has no IPv6 link-local address, only an IPv4-mapped 169.254.0.0/16 one, and checkInterface reports it ready"
      else "checkInterface: down / no IPv6 link-local unicast address must wrap ErrLinkNotReady, an address-listing failure must be passed through wrapped with its class, anything else must be nil"
    pure { model := model, oracle := ok, nontrivial := nt, note := note }

/-- `isOp opRoute netIPNet msgNoSuch` -/
def pOpErr : P OpErr := do
  let a ← P.bool; let b ← P.bool; let c ← P.bool; let d ← P.bool
  pure { isOpError := a, opRoute := b, netIPNet := c, msgNoSuch := d }

/-- `li hasErr isOp opRoute netIPNet msgNoSuch | class`: the features are those of the error the
    real `net.InterfaceByName` returned for the same name -/
def li (c impl : List String) : Option Verdict := do
  let (has, e) ← P.run (do let h ← P.bool; let e ← pOpErr; pure (h, e)) c
  let err := if has then some e else none
  let o ← P.run (pEnum dialOutOfNat) impl
  let ok := o == Spec.C10Check.expectedLookup err
  pure { model := s!"{DialOut.code (lookup err)}", oracle := ok, nontrivial := has,
         note := if ok then "" else "lookupInterface: a missing interface must wrap ErrLinkNotReady, any other lookup failure is unrecoverable" }

/-- `nsi isOp opRoute netIPNet msgNoSuch | 0/1` -/
def nsi (c impl : List String) : Option Verdict := do
  let e ← P.run pOpErr c
  let b ← P.run P.bool impl
  let want := e.isOpError && e.opRoute && e.netIPNet && e.msgNoSuch
  pure { model := boolTok (isNoSuchInterface e), oracle := b == want,
         nontrivial := e.isOpError,
         note := if b == want then "" else "isNoSuchInterface does not recognise exactly package net's no-such-interface error" }

end C10

/-! ### C13/C14/C15: `AddressesByIndex`, `routesByIndex` -/

section C13
open Corerad.Model.Addresser

/-- `isAddr family hasAttrs fam val plen flags valid hasLocal fam val` -/
def pAddrMsg : P AddrMsg := do
  let a ← P.bool; let f ← P.nat; let h ← P.bool; let ip ← P.ip
  let pl ← P.nat; let fl ← P.nat; let v ← P.nat
  let hl ← P.bool; let l ← P.ip
  pure { isAddr := a, family := f, hasAttrs := h, ip := ip, plen := pl, flags := fl, valid := v,
         loc := if hl then some l else none }

def sysIPToks (a : SysIP) : String :=
  s!" {prefixToks a.addr} {boolTok a.deprecated} {boolTok a.manageTemp} {boolTok a.stablePrivacy} {boolTok a.temporary} {boolTok a.tentative} {boolTok a.validForever}"

def pSysIP : P SysIP := do
  let p ← P.prefix_
  let dep ← P.bool; let mng ← P.bool; let stab ← P.bool; let tmp ← P.bool; let tent ← P.bool; let fv ← P.bool
  pure { addr := p, deprecated := dep, manageTemp := mng, stablePrivacy := stab, temporary := tmp,
         tentative := tent, validForever := fv }

def resToksWith (f : α → String) : Res α → String
  | .ok l => s!"ok {l.length}" ++ String.join (l.map f)
  | .nil e => s!"nil {boolTok e}"
  | .panic => "panic"

def pRes (p : P α) : P (Res α) := do
  let t ← P.tok
  match t with
  | "ok" => do let l ← P.list p; pure (.ok l)
  | "nil" => do let e ← P.bool; pure (.nil e)
  | "panic" => pure .panic
  | _ => failure

/-- `ab failed n addrmsg* | req (ok n sysip* | nil e | panic)`; req = the request handed to
    `execute` was the documented one (AF_INET6, the interface index, RTM_GETADDR, Request|Dump) -/
def ab (c impl : List String) : Option Verdict := do
  let (failed, msgs) ← P.run (do let f ← P.bool; let ms ← P.list pAddrMsg; pure (f, ms)) c
  let m := addressesByIndex msgs failed
  let nt := !failed && decide (msgs.length ≥ 2) && msgs.all Spec.C13Addresser.wellFormedAddr &&
            msgs.any (fun x => x.flags != 0)
  let some (req, r) := P.run (do let q ← P.bool; let r ← pRes pSysIP; pure (q, r)) impl
    | pure { model := "1 " ++ resToksWith sysIPToks m, oracle := false, nontrivial := nt,
             note := "AddressesByIndex returned neither (list, nil), (nil, err of the request) nor panicked" }
  let ok := req && Spec.C13Addresser.holdsAddrsDoc msgs failed r
  pure { model := "1 " ++ resToksWith sysIPToks m, oracle := ok, nontrivial := nt,
         note := if ok then "" else
           if !req then "AddressesByIndex did not send the documented RTM_GETADDR dump request"
           else if Spec.C13Addresser.mappedAddrClass msgs failed r then
             "class=v4mapped-address-panics the dump contains an IPv4-mapped IPv6 address (the kernel accepts `ip -6 addr add ::ffff:192.0.2.9/128 dev eth0`) and AddressesByIndex panicked on it instead of leaving it to the plug-ins, which exclude IPv4"
           else if Spec.C13Addresser.peerClass msgs failed r then
             "class=peer-address-as-own the dump contains an address with a peer (IFA_LOCAL = the interface's own address, IFA_ADDRESS = the peer's) and AddressesByIndex reported the peer's address as the interface's"
           else "AddressesByIndex: one system.IP per address message in dump order, each boolean its IFA_F_* bit (Temporary 0x1, Deprecated 0x20, Tentative 0x40, ManageTemporaryAddresses 0x100, StablePrivacy 0x800), ValidForever iff valid = 2^32-1; (nil, err) for a failing request or an empty dump; panic on a broken invariant" }

/-- `isRoute family fam val dlen oif hasPref pref` -/
def pRouteMsg : P RouteMsg := do
  let a ← P.bool; let f ← P.nat; let ip ← P.ip
  let dl ← P.nat; let oif ← P.nat; let hp ← P.bool; let pv ← P.nat; let ab ← P.bool
  pure { isRoute := a, family := f, dst := ip, dlen := dl, oif := oif, pref := if hp then some pv else none,
         dstAbsent := ab }

def routeToks (r : SysRoute) : String := s!" {prefixToks r.pfx} {r.index} {r.preference}"

def pSysRoute : P SysRoute := do
  let p ← P.prefix_; let i ← P.nat; let pr ← P.nat
  pure { pfx := p, index := i, preference := pr }

/-- `rb failed n routemsg* | req (ok n (prefix index pref)* | nil e | panic)` -/
def rb (c impl : List String) : Option Verdict := do
  let (failed, msgs) ← P.run (do let f ← P.bool; let ms ← P.list pRouteMsg; pure (f, ms)) c
  let m := routesByIndexSrc msgs failed
  let nt := !failed && decide (msgs.length ≥ 2) && (msgs.map (normRoute true)).all Spec.C13Addresser.wellFormedRoute
  let some (req, r) := P.run (do let q ← P.bool; let r ← pRes pSysRoute; pure (q, r)) impl
    | pure { model := "1 " ++ resToksWith routeToks m, oracle := false, nontrivial := nt,
             note := "routesByIndex returned neither (list, nil), (nil, err of the request) nor panicked" }
  let ok := req && Spec.C13Addresser.holdsRoutesDoc msgs failed r
  pure { model := "1 " ++ resToksWith routeToks m, oracle := ok, nontrivial := nt,
         note := if ok then "" else
           if Spec.C13Addresser.mappedRouteClass msgs failed r then
             "class=v4mapped-route-panics the dump contains an IPv4-mapped route (e.g. `unreachable ::ffff:0.0.0.0/96 dev lo`) and routesByIndex panicked on it instead of leaving it out or to the plug-in, which excludes IPv4"
           else if Spec.C13Addresser.defaultRouteClass msgs failed r then
             "class=default-route-without-dst the dump contains a default route (destination length 0, no RTA_DST attribute, as the kernel sends it) and routesByIndex panicked on it instead of returning ::/0"
           else if !req then "routesByIndex did not send the documented RTM_GETROUTE dump request"
           else "routesByIndex: one system.Route per route message in dump order with Prefix = (Dst, DstLength), the out-interface index and the preference (Medium when absent), Dst = :: for a default route sent without RTA_DST; (nil, err) for a failing request or an empty dump; panic on a broken invariant" }

end C13

end Driver.OSGlue
