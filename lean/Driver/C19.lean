import Corerad.Spec.C19
namespace Driver.C19
open Corerad Corerad.Model.Watcher

/-- `s iface mask` | `n k (iface len change*)*` | `d id n` | `e` -/
def pOp : P Op := do
  let t ← P.tok
  match t with
  | "s" => do let i ← P.nat; let m ← P.nat; pure (.subscribe i m)
  | "n" => do
    let cs ← P.list (do let i ← P.nat; let l ← P.list P.nat; pure (i, l))
    pure (.notify cs)
  | "d" => do let id ← P.nat; let n ← P.nat; pure (.drain id n)
  | "e" => pure .endWatch
  | "f" => pure .endWatch      -- the source ended with an error: watching ends all the same
  | "x" => pure (.notify [])   -- the Watch context is cancelled, the source goes on: no effect until it ends
  | _ => failure

/-- `len value* closed` -/
def pObs : P Obs := do
  let l ← P.list P.nat
  let c ← P.bool
  pure { got := l, closed := c }

def obsToks (o : Obs) : String :=
  s!" {o.got.length}" ++ String.join (o.got.map fun v => s!" {v}") ++ s!" {boolTok o.closed}"

def isDrain : Op → Bool
  | .drain _ _ => true
  | _ => false

/-- (delivered, not delivered) counts over every (change, registered subscriber) pair -/
def tally : State → List Op → Nat × Nat
  | _, [] => (0, 0)
  | st, op :: ops =>
    let here : Nat × Nat := match op with
      | .notify cs =>
        (cs.foldl (fun (acc : State × Nat × Nat) e =>
          e.2.foldl (fun (acc : State × Nat × Nat) c =>
            let st' := notifyChange e.1 acc.1 c
            let d := ((acc.1.zip st').filter fun p => p.1.buf.length < p.2.buf.length).length
            (st', acc.2.1 + d, acc.2.2 + (acc.1.length - d))) acc) (st, 0, 0)).2
      | _ => (0, 0)
    let rest := tally (step st op).1 ops
    (here.1 + rest.1, here.2 + rest.2)

/-- first subscriber (registration order) whose view the oracle rejects -/
def firstBad : Nat → List Op → List Obs → List Obs → Option Nat
  | j, .subscribe i m :: ops, obs, f :: fin =>
    if Spec.C19.holdsSub j i m ops obs f then firstBad (j + 1) ops obs fin else some j
  | j, .drain _ _ :: ops, _ :: obs, fin => firstBad j ops obs fin
  | j, .notify _ :: ops, obs, fin => firstBad j ops obs fin
  | j, .endWatch :: ops, obs, fin => firstBad j ops obs fin
  | _, _, _, _ => none

/-- `ws nops op* | nrec (len value* closed)*` — one record per `d` operation in order, then one
    final read-out per subscriber in registration order; or `| panic`, `| blocked <op index>` -/
def ws (c impl : List String) : Option Verdict := do
  let ops ← P.run (P.list pOp) c
  if !wf false ops then none
  let r := run [] ops
  let recs := r.2 ++ finals r.1
  let model := s!"{recs.length}" ++ String.join (recs.map obsToks)
  let t := tally [] ops
  let nt := t.1 > 0 && t.2 > 0
  match impl with
  | ["panic"] =>
    pure { model := model, oracle := false, nontrivial := nt,
           note := "the implementation panicked (close of a closed channel, or send on a closed channel)" }
  | "blocked" :: _ =>
    pure { model := model, oracle := false, nontrivial := nt,
           note := "notify (or the end of Watch) did not return: the watcher blocked on a subscriber" }
  | _ =>
    let irecs ← P.run (P.list pObs) impl
    let nd := (ops.filter isDrain).length
    let obs := irecs.take nd
    let fin := irecs.drop nd
    let ok := Spec.C19.holds ops obs fin
    let note := if ok then "" else
      match firstBad 0 ops obs fin with
      | some j => s!"subscriber {j} did not observe exactly the matching changes that found room, in order, and its close"
      | none => "wrong number of observations"
    pure { model := model, oracle := ok, nontrivial := nt, note := note }

/-- `wsu n | (ok|panic)*` — `n` successive calls of `Watch` on one Watcher (hook returns at once) -/
def wsu (c impl : List String) : Option Verdict := do
  let n ← P.run P.nat c
  let m := (watchCalls false n).map fun p => if p then "panic" else "ok"
  let want := (List.range n).map fun k => if k == 0 then "ok" else "panic"
  let ok := impl == want
  pure { model := " ".intercalate m, oracle := ok, nontrivial := n ≥ 2,
         note := if ok then "" else "Watch is not single-use: only the first call may pass the guard, every later call must panic" }

/-- `wsc batches subscribers | ok` — Subscribe racing with notification in real time: the model's
    `notify` and `subscribe` are total functions (`notify_frame`); the implementation must complete
    (no blocked watcher, no blocked Subscribe, no panic, buffers bounded) -/
def wsc (_c impl : List String) : Option Verdict :=
  pure { model := "ok", oracle := impl == ["ok"], nontrivial := true,
         note := if impl == ["ok"] then "" else "subscribing concurrently with notification blocked the watcher or a subscriber (or panicked)" }

end Driver.C19
