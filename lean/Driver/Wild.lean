import Corerad.Spec.C13
import Corerad.Spec.C14
import Corerad.Spec.C15
namespace Driver.Wild
open Corerad Corerad.Model

def pSysIP : P SysIP := do
  let p ← P.prefix_
  let dep ← P.bool; let mng ← P.bool; let stab ← P.bool; let tmp ← P.bool; let tent ← P.bool; let fv ← P.bool
  pure { addr := p, deprecated := dep, manageTemp := mng, stablePrivacy := stab, temporary := tmp,
         tentative := tent, validForever := fv }

/-- `wp bits onlink auto valid pref n sysip* | k (prefix onlink auto valid pref)*` -/
def wp (c impl : List String) : Option Verdict := do
  let (bits, ol, au, v, p, as) ← P.run (do
    let b ← P.nat; let ol ← P.bool; let au ← P.bool; let v ← P.int; let p ← P.int
    let as ← P.list pSysIP; pure (b, ol, au, v, p, as)) c
  let ps := currentPrefixes bits as
  let model := s!"{ps.length}" ++ String.join (ps.map fun q => s!" {prefixToks q} {boolTok ol} {boolTok au} {v} {p}")
  if impl == ["err"] then
    return { model := model, oracle := false, nontrivial := true,
             note := "Apply failed although the address source succeeded (a plugin handed to Prepare must use the source Prepare installs)" }
  let implOut ← P.run (P.list (do
    let q ← P.prefix_; let o ← P.bool; let a ← P.bool; let v' ← P.int; let p' ← P.int
    pure (q, o, a, v', p'))) impl
  let uniform := implOut.all fun (_, o, a, v', p') => o == ol && a == au && v' == v && p' == p
  let nt := as.any (Spec.C13.eligible bits) && as.any (fun a => !Spec.C13.eligible bits a)
  pure { model := model, oracle := Spec.C13.holds bits as (implOut.map (·.1)) && uniform, nontrivial := nt }

/-- `wperr bits | err` : a failing address source must fail RA generation -/
def wperr (_c impl : List String) : Option Verdict :=
  pure { model := "err", oracle := impl == ["err"], nontrivial := false }

/-- `wd nstatic ip* n sysip* | k ip*` or `| err` -/
def wd (c impl : List String) : Option Verdict := do
  let (static, as) ← P.run (do let s ← P.list P.ip; let as ← P.list pSysIP; pure (s, as)) c
  let res := applyRDNSS true static (some as)
  let model := match res with
    | none => "err"
    | some l => s!"{l.length}" ++ String.join (l.map fun a => s!" {ipToks a}")
  let implRes : Option (List IP) ← (if impl == ["err"] then some none else (P.run (P.list P.ip) impl).map some)
  let el := as.filter Spec.C14.eligible
  let nt := el.any fun a => el.any fun b => Spec.C14.rank a != Spec.C14.rank b
  pure { model := model, oracle := Spec.C14.holds static as implRes, nontrivial := nt }

/-- `wdstatic n ip* | auto k ip*`: the static servers as the parser keeps them: the wildcard
    removed (and remembered), the rest strictly ascending -/
def wdstatic (c impl : List String) : Option Verdict := do
  let servers ← P.run (P.list P.ip) c
  let (auto, static) ← P.run (do let a ← P.bool; let s ← P.list P.ip; pure (a, s)) impl
  let want := sortBy addrKey (servers.filter fun a => !a.isUnspecified)
  let wantAuto := servers.any (·.isUnspecified)
  let strict := (static.zip static.tail).all fun (a, b) => decide (addrKey a < addrKey b)
  pure { model := s!"{boolTok wantAuto} {want.length}" ++ String.join (want.map fun a => s!" {ipToks a}"),
         oracle := strict && auto == wantAuto && static.all (fun a => servers.contains a && !a.isUnspecified) &&
                   (servers.filter fun a => !a.isUnspecified).all static.contains,
         nontrivial := decide (want.length ≥ 2) }

def wderr (_c impl : List String) : Option Verdict :=
  pure { model := "err", oracle := impl == ["err"], nontrivial := false }

/-- `wr n prefix* | k (prefix pref lifetime)*` -/
def wr (c impl : List String) : Option Verdict := do
  let (pref, lt, rs) ← P.run (do let pr ← P.nat; let lt ← P.int; let rs ← P.list P.prefix_; pure (pr, lt, rs)) c
  let out := currentRoutes rs
  let model := s!"{out.length}" ++ String.join (out.map fun q => s!" {prefixToks q} {pref} {lt}")
  if impl == ["err"] then
    return { model := model, oracle := false, nontrivial := true,
             note := "Apply failed although the route source succeeded (a plugin handed to Prepare must use the source Prepare installs)" }
  let implOut ← P.run (P.list (do let q ← P.prefix_; let pr ← P.nat; let l ← P.int; pure (q, pr, l))) impl
  let uniform := implOut.all fun (_, pr, l) => pr == pref && l == lt
  let nt := rs.any (fun p => rs.any fun q => Spec.C15.covers q p) ||
            (rs.any fun p => rs.count p ≥ 2 && !p.addr.is4 && !p.isSingleIP)
  pure { model := model, oracle := Spec.C15.holds rs (implOut.map (·.1)) && uniform, nontrivial := nt }

def wrerr (_c impl : List String) : Option Verdict :=
  pure { model := "err", oracle := impl == ["err"], nontrivial := false }

end Driver.Wild
