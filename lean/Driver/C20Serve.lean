import Corerad.Model.ServeRetry
import Corerad.Gen.Server
namespace Driver.C20Serve
open Corerad Corerad.Model.ServeRetry

def pOut : P (FnOut × Int) := do
  let t ← P.tok
  let d ← P.int
  match t with
  | "o" => pure (.opErr, d)
  | "c" => pure (.closed, d)
  | "x" => pure (.other, d)
  | "n" => pure (.nilRet, d)
  | _ => failure

def resTok : Res → String
  | .nil => "nil" | .err => "err" | .timeout => "timeout" | .panic => "panic"

/-- `srv delay cancelAt(-1 = never) n (kind dur)* | result retAt k callAt*` -/
def srv (c impl : List String) : Option Verdict := do
  let (delay, cAt, script) ← P.run (do
    let d ← P.int; let ca ← P.int; let s ← P.list pOut; pure (d, ca, s)) c
  let (res, retAt, calls) ← P.run (do
    let r ← P.tok; let a ← P.int; let cs ← P.list P.int; pure (r, a, cs)) impl
  let cancelAt := if cAt < 0 then none else some cAt
  let (mCalls, mRes, mAt) := serve Gen.Server.serveAttempts delay cancelAt script
  let model := s!"{resTok mRes} {mAt} {mCalls.length}" ++ String.join (mCalls.map fun t => s!" {t}")
  let implS := s!"{res} {retAt} {calls.length}" ++ String.join (calls.map fun t => s!" {t}")
  -- what the retry policy promises, judged on the implementation's own observations
  let bounded := calls.length ≤ Gen.Server.serveAttempts
  let noLate := match cancelAt with
    | some ca => calls.all fun t => decide (t < ca)
    | none => true
  let allOp := (script.take Gen.Server.serveAttempts).all fun p => p.1 == .opErr
  let gaveUp := cancelAt.isSome || !allOp || script.length < Gen.Server.serveAttempts ||
    (res == "timeout" && calls.length == Gen.Server.serveAttempts)
  let ok := bounded && noLate && gaveUp && implS == model
  pure { model := model, oracle := ok, nontrivial := script.any (fun p => p.1 == .opErr),
         note := if !bounded then "more listen attempts than the limit"
           else if !noLate then "a listen attempt was made after the cancellation"
           else if !gaveUp then "the loop did not give up after the limit of consecutive listener errors"
           else if implS != model then "attempt instants / result differ from the retry policy (at once, then one delay after each listener error; nil on shutdown or cancellation; the error otherwise)"
           else "",
         agreeOverride := some (implS == model) }

/-- `http ran | early ready status body stop` — the real debug HTTP task on a loopback port -/
def http (c impl : List String) : Option Verdict := do
  match c, impl with
  | ["0"], ["skipped"] => pure { model := "skipped", oracle := true, nontrivial := false }
  | ["1"], [early, ready, status, body, stop] =>
    let ok := early == "0" && ready == "1" && status == "200" && body == "verif-ok" && stop == "nil"
    pure { model := "0 1 200 verif-ok nil", oracle := ok, nontrivial := true,
           note := if early != "0" then "the HTTP task reported ready before it was run"
             else if ready != "1" then "the HTTP task never reported ready although it can listen"
             else if status != "200" || body != "verif-ok" then "a request to the debug listener was not answered by the handler"
             else if stop != "nil" then "the HTTP task did not stop cleanly and promptly when cancelled (or left its port busy)" else "" }
  | _, _ => none

end Driver.C20Serve
