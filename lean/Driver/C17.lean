import Corerad.Model.Observe
import Corerad.Spec.C17
import Driver.Config
namespace Driver.C17
open Corerad Corerad.Model Corerad.Model.Observe

/-! ### case side -/

def pLifecycle : P Lifecycle := do
  let t ← P.tok
  match t with
  | "N" => pure .never | "I" => pure .initialised | "R" => pure .reinitialising
  | _ => failure

/-- a sysctl read: `T`/`F` = value, `X` = the read failed -/
def pRead : P (Option Bool) := do
  let t ← P.tok
  match t with
  | "T" => pure (some true) | "F" => pure (some false) | "X" => pure none
  | _ => failure

def pIfaceLc : P (Interface × Lifecycle) := do
  let i ← Driver.Config.pInterface
  let lc ← pLifecycle
  pure (i, lc)

def mkEnvs (ifs : List (Interface × Lifecycle)) (sys : SysState) (reads : List (Option Bool × Option Bool)) :
    List (Interface × IfEnv) :=
  (ifs.zip reads).map fun ((i, lc), (a, f)) =>
    (i, { lifecycle := lc, sys := sys, autoconf := a, forwarding := f })

def nontrivialIfs (ifs : List (Interface × Lifecycle)) : Bool :=
  ifs.any fun (i, _) => i.advertise && i.plugins.any fun | .lla => false | _ => true

/-! ### samples -/

def familyOf : Nat → Option Family
  | 0 => some .advertising | 1 => some .monitoring | 2 => some .autoconfiguration | 3 => some .forwarding
  | 4 => some .misconfiguration | 5 => some .prefixAutonomous | 6 => some .prefixOnLink
  | 7 => some .prefixValid | 8 => some .prefixPreferred | 9 => some .routeLifetime
  | 10 => some .rdnssLifetime | 11 => some .dnsslLifetime
  | _ => none

def pSample : P Sample := do
  let f ← P.nat
  let i ← P.nat
  match familyOf f with
  | none => failure
  | some fam =>
    if f ≤ 3 then
      let v ← P.int; pure ⟨fam, .iface i, v⟩
    else if f == 4 then
      let v ← P.int; pure ⟨fam, .details i, v⟩
    else if f ≤ 9 then
      let a ← P.ip; let len ← P.nat; let v ← P.int; pure ⟨fam, .cidr i a len, v⟩
    else if f == 10 then
      let l ← P.list P.ip; let v ← P.int; pure ⟨fam, .servers i l, v⟩
    else
      let l ← P.list P.nat; let v ← P.int; pure ⟨fam, .domains i l, v⟩

def labelToks : Labels → String
  | .iface i => s!"{i}"
  | .details i => s!"{i}"
  | .cidr i a len => s!"{i} {ipToks a} {len}"
  | .servers i l => s!"{i} {l.length}{Driver.Config.ips l}"
  | .domains i l => s!"{i} {l.length}{Driver.Config.nats l}"

def sampleToks (s : Sample) : String := s!"{s.family.id} {labelToks s.labels} {s.value}"

def resultToks (r : Result (List Sample)) : String :=
  match r with
  | .panic => "panic"
  | .error => "err"
  | .ok ss => " ".intercalate ("ok" :: toString ss.length :: (canon ss).map sampleToks)

/-- `ok n sample…` | `err` | `panic`; a sample the harness could not map back shows as a token
    the parser rejects -/
def pScrapeResult : P (String × List Sample) := do
  let st ← P.tok
  match st with
  | "ok" => do let ss ← P.list pSample; pure (st, ss)
  | "err" | "panic" => pure (st, [])
  | _ => failure

/-- first sample of `a` (canonical order) that `b` lacks -/
def firstMissing (a b : List Sample) : Option Sample :=
  (canon a).find? fun s => !b.contains s

def explainSamples (envs : List (Interface × IfEnv)) (got : List Sample) : String :=
  match Spec.C17.wantSamples envs with
  | .mustErr => ""
  | .okOrErr want | .mustOk want =>
    match firstMissing want got with
    | some s => s!": sample [{sampleToks s}] is missing"
    | none =>
      match firstMissing got want with
      | some s => s!": sample [{sampleToks s}] does not describe the current RA"
      | none => ": multiplicities differ"

/-- pick the note to report: a failure outside a known class must not hide behind one -/
def pickNote (notes : List String) : String :=
  match notes.find? (fun n => !(n.splitOn "class=").length ≥ 2) with
  | some n => n
  | none => notes.headD ""

/-- `scr n (iface lc)… sys k ((autoconf fw)×n)×k | result×k` — k scrapes in a row -/
def scr (c impl : List String) : Option Verdict := do
  let (ifs, sys, rounds) ← P.run (do
    let ifs ← P.list pIfaceLc
    let sys ← Driver.Config.pSys
    let k ← P.nat
    let rounds ← P.listN (P.listN (do let a ← pRead; let f ← pRead; pure (a, f)) ifs.length) k
    pure (ifs, sys, rounds)) c
  let envss := rounds.map (mkEnvs ifs sys)
  let model := " ".intercalate (envss.map fun envs => resultToks (scrape Src.gen envs))
  let nt := nontrivialIfs ifs
  match P.run (P.listN pScrapeResult rounds.length) impl with
  | none =>
    pure { model := model, oracle := false, nontrivial := nt,
           note := "the implementation reports a series the harness cannot map back (unknown family, label or a value that is not a nanosecond multiple)" }
  | some obs =>
    let verdicts := (envss.zip obs).map fun (envs, (st, ss)) =>
      let (ok, note) := Spec.C17.holdsScrape envs st ss
      (ok, if ok then "" else note ++ (if st == "ok" then explainSamples envs ss else ""))
    let bad := (verdicts.zipIdx.filter fun ((ok, _), _) => !ok).map fun ((_, n), i) => s!"scrape {i + 1}: {n}"
    pure { model := model, oracle := bad.isEmpty, nontrivial := nt, note := pickNote bad }

/-! ### JSON -/

def pJList (p : P α) : P (List α) := P.list p

def pMacOpt : P (Option (Nat × Nat)) := do
  let t ← P.tok
  match t with
  | "N" => pure none
  | "M" => do let l ← P.nat; let v ← P.nat; pure (some (l, v))
  | _ => failure

def pCpOpt : P (Option (Nat × Nat)) := do
  let t ← P.tok
  match t with
  | "N" => pure none
  | "C" => do let u ← P.nat; let l ← P.nat; pure (some (u, l))
  | _ => failure

def pJOptions : P JOptions := do
  let dnssl ← P.list (do let lt ← P.int; let ns ← P.list P.nat; pure (lt, ns))
  let mtu ← P.int
  let prefixes ← P.list (do
    let a ← P.ip; let len ← P.nat; let ol ← P.bool; let au ← P.bool; let v ← P.int; let p ← P.int
    pure (⟨a, len, ol, au, v, p⟩ : JPrefix))
  let rdnss ← P.list (do let lt ← P.int; let s ← P.list P.ip; pure (lt, s))
  let routes ← P.list (do
    let a ← P.ip; let len ← P.nat; let pr ← P.nat; let lt ← P.int
    pure (⟨a, len, pr, lt⟩ : JRoute))
  let lla ← pMacOpt
  let cp ← pCpOpt
  let p64 ← P.list (do let p ← P.prefix_; let lt ← P.int; pure (p, lt))
  pure { dnssl := dnssl, mtu := mtu, prefixes := prefixes, rdnss := rdnss, routes := routes,
         lla := lla, captivePortal := cp, pref64 := p64 }

def pJIface : P JIface := do
  let name ← P.nat; let adv ← P.bool
  let t ← P.tok
  match t with
  | "N" => pure { name := name, advertise := adv, advertisement := none }
  | "A" => do
    let hop ← P.nat; let m ← P.bool; let o ← P.bool; let pref ← P.nat
    let rl ← P.int; let reach ← P.int; let retr ← P.int
    let opts ← pJOptions
    pure { name := name, advertise := adv,
           advertisement := some { hopLimit := hop, managed := m, other := o, preference := pref,
                                   routerLifetimeSeconds := rl, reachableMs := reach, retransmitMs := retr,
                                   options := opts } }
  | _ => failure

def jOptionsToks (o : JOptions) : String :=
  s!"{o.dnssl.length}" ++ String.join (o.dnssl.map fun (lt, ns) => s!" {lt} {ns.length}{Driver.Config.nats ns}") ++
  s!" {o.mtu}" ++
  s!" {o.prefixes.length}" ++ String.join (o.prefixes.map fun p =>
    s!" {ipToks p.addr} {p.len} {boolTok p.onLink} {boolTok p.autonomous} {p.validSeconds} {p.preferredSeconds}") ++
  s!" {o.rdnss.length}" ++ String.join (o.rdnss.map fun (lt, s) => s!" {lt} {s.length}{Driver.Config.ips s}") ++
  s!" {o.routes.length}" ++ String.join (o.routes.map fun r =>
    s!" {ipToks r.addr} {r.len} {r.preference} {r.lifetimeSeconds}") ++
  (match o.lla with | none => " N" | some (l, v) => s!" M {l} {v}") ++
  (match o.captivePortal with | none => " N" | some (u, l) => s!" C {u} {l}") ++
  s!" {o.pref64.length}" ++ String.join (o.pref64.map fun (p, lt) => s!" {prefixToks p} {lt}")

def jIfaceToks (j : JIface) : String :=
  s!"{j.name} {boolTok j.advertise} " ++
  match j.advertisement with
  | none => "N"
  | some a =>
    s!"A {a.hopLimit} {boolTok a.managed} {boolTok a.other} {a.preference} {a.routerLifetimeSeconds} " ++
    s!"{a.reachableMs} {a.retransmitMs} {jOptionsToks a.options}"

def apiToks (r : Result (List JIface)) : String :=
  match r with
  | .panic => "panic"
  | .error => "err"
  | .ok js => " ".intercalate ("ok" :: toString js.length :: js.map jIfaceToks)

def pApiResult : P (String × List JIface) := do
  let st ← P.tok
  match st with
  | "ok" => do let js ← P.list pJIface; pure (st, js)
  | "err" | "panic" => pure (st, [])
  | _ => failure

/-- `api n (iface lc)… sys (fw)×n | ok n iface… | err | panic` -/
def api (c impl : List String) : Option Verdict := do
  let (ifs, sys, reads) ← P.run (do
    let ifs ← P.list pIfaceLc
    let sys ← Driver.Config.pSys
    let reads ← P.listN pRead ifs.length
    pure (ifs, sys, reads)) c
  let envs := mkEnvs ifs sys (reads.map fun f => (some false, f))
  let model := apiToks (Observe.api Src.gen envs)
  let nt := nontrivialIfs ifs
  match P.run pApiResult impl with
  | none =>
    pure { model := model, oracle := false, nontrivial := nt,
           note := "the response body cannot be mapped back (not the documented JSON shape, unknown name/address, or an unexpected field value)" }
  | some (st, body) =>
    let (ok, note) := Spec.C17.holdsApi envs st body
    pure { model := model, oracle := ok, nontrivial := nt, note := note }

/-! ### gating -/

def paths : List Path := [.root, .interfaces, .metrics, .pprofIndex, .pprofCmdline, .unknown]

/-- `rt prometheus pprof | b×6` (served bits for `paths`) -/
def rt (c impl : List String) : Option Verdict := do
  let (prom, pprof) ← P.run (do let a ← P.bool; let b ← P.bool; pure (a, b)) c
  let obs ← P.run (P.listN P.bool paths.length) impl
  let model := " ".intercalate (paths.map fun p => boolTok (served Src.gen prom pprof p))
  let (ok, note) := Spec.C17.holdsRoutes prom pprof obs
  pure { model := model, oracle := ok, nontrivial := false, note := note }

/-- `rtd prometheus pprof | exit`: the real daemon (cmd/corerad main()) serving the debug listener was
    sent SIGTERM: it ends with exit status 0 -/
def rtd (_c impl : List String) : Option Verdict :=
  pure { model := "0", oracle := impl == ["0"], nontrivial := true,
         note := if impl == ["0"] then "" else "the daemon did not end cleanly on SIGTERM (exit status, or it had to be killed)" }

/-- `cgx | firstFailed secondOK`: a scrape with one unreadable and one slow interface fails as a whole
    and leaves nothing running; the next scrape is complete -/
def cgx (_c impl : List String) : Option Verdict :=
  pure { model := "1 1", oracle := impl == ["1", "1"], nontrivial := true,
         note := if impl == ["1", "1"] then "" else "a scrape with an unreadable interface did not fail as a whole, or the scrape after it was not complete" }

/-- `cgs goroutines gathers | bad`: overlapping Prometheus gathers must all be complete -/
def cgs (_c impl : List String) : Option Verdict :=
  pure { model := "0", oracle := impl == ["0"], nontrivial := true,
         note := if impl == ["0"] then "" else "overlapping scrapes: a gather failed or lacks samples that a gather on its own has, although every interface is readable (the collector is entered concurrently)" }

/-- `rp kind | scrapeDone prepareDone laterScrapeDone`: a scrape is inside a wildcard plugin's system
    dump when the interface is re-initialised (Prepare on the same plugin values): the scrape, the
    re-initialisation and a later scrape all complete — nothing blocks the daemon. -/
def rp (_c impl : List String) : Option Verdict := do
  let (a, b, c) ← P.run (do let a ← P.bool; let b ← P.bool; let c ← P.bool; pure (a, b, c)) impl
  pure { model := "1 1 1", oracle := a && b && c, nontrivial := true,
         note := if !a then "a scrape overlapping a re-initialisation of its interface never completes"
           else if !b then "the re-initialisation (Prepare) never completes while a scrape is under way"
           else if !c then "scrapes are blocked after a scrape overlapped a re-initialisation" else "" }

end Driver.C17
