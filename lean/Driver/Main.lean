/-
  vfdriver — line-protocol front end to the model and the property oracles.

  stdin: one case per line, `op args… | implementation output…`
  stdout: one line per case, `A O N | model output | note`
     A = 1 iff the model's output equals the implementation's (token-wise),
     O = 1 iff the property oracle accepts the implementation's output,
     N = 1 iff the case is non-trivial by the property's rule.
  A line that cannot be parsed yields `E | <reason>`.
-/
import Driver.C05
import Driver.C16
import Driver.Wild
import Driver.Config
import Driver.C19
import Driver.C12
import Driver.C18
import Driver.Sched
import Driver.C09
import Driver.C20
import Driver.C20Serve
import Driver.C08
import Driver.Dialer
import Driver.C10
import Driver.C10Q
import Driver.C04
import Driver.C17
import Driver.OSGlue
import Driver.Sysctl
import Driver.Netns

open Corerad

def handlers : List (String × (List String → List String → Option Verdict)) := [
  ("md", Driver.C05.md), ("mloop", Driver.C05.mloop), ("mstall", Driver.C05.mstall), ("mfw", Driver.C05.mfw),
  ("pl", Driver.C16.pl), ("rl", Driver.C16.rl),
  ("wp", Driver.Wild.wp), ("wperr", Driver.Wild.wperr),
  ("wd", Driver.Wild.wd), ("wderr", Driver.Wild.wderr), ("wdstatic", Driver.Wild.wdstatic),
  ("wr", Driver.Wild.wr), ("wrerr", Driver.Wild.wrerr),
  ("cfg", Driver.Config.cfg), ("fuzz", Driver.Config.fuzz), ("unk", Driver.Config.unk), ("fs", Driver.Config.fs),
  ("ra1", Driver.Config.ra1), ("ra3", Driver.Config.ra3), ("ra4", Driver.Config.ra4),
  ("ws", Driver.C19.ws), ("wsu", Driver.C19.wsu), ("wsc", Driver.C19.wsc),
  ("vr", Driver.C12.vr), ("cfgmut", Driver.C12.cfgmut), ("vburst", Driver.C12.vburst),
  ("mon", Driver.C18.mon),
  ("sch6", Driver.Sched.sch6), ("sch7", Driver.Sched.sch7),
  ("adv6", Driver.Sched.adv6), ("adv7", Driver.Sched.adv7), ("rein", Driver.Sched.rein), ("rein5", Driver.Sched.rein5), ("reino", Driver.Sched.reino), ("reinlla", Driver.Sched.reinlla), ("reinidx", Driver.Sched.reinidx), ("reinrs", Driver.Sched.reinrs), ("nsf", Driver.Sched.nsf), ("mwr", Driver.Sched.mwr), ("bfw", Driver.Sched.bfw), ("flap", Driver.Sched.flap), ("tfl", Driver.Sched.tfl), ("adv9", Driver.Sched.adv7), ("advF", Driver.Sched.advF),
  ("lst", Driver.C09.lst),
  ("bt", Driver.C20.bt), ("sv", Driver.C20.sv),
  ("shut", Driver.C08.shut), ("cw", Driver.C08.cw),
  ("d10", Driver.Dialer.d10), ("d11", Driver.Dialer.d11), ("sld", Driver.Dialer.sld), ("rd", Driver.Dialer.rd), ("rdm", Driver.Dialer.rdm), ("sc", Driver.Sysctl.sc), ("ns", Driver.Netns.ns), ("nsw", Driver.Netns.nsw), ("nsa", Driver.Netns.nsa), ("nsb", Driver.Netns.nsb), ("scc", Driver.Sysctl.scc),
  ("srv", Driver.C20Serve.srv), ("http", Driver.C20Serve.http), ("grp", Driver.C10.grp), ("grpq", Driver.C10Q.grpq),
  ("pth", Driver.C04.pth),
  ("scr", Driver.C17.scr), ("cgs", Driver.C17.cgs), ("api", Driver.C17.api), ("rt", Driver.C17.rt), ("rtd", Driver.C17.rtd), ("cgx", Driver.C17.cgx), ("rp", Driver.C17.rp),
  ("pr", Driver.OSGlue.pr), ("osc", Driver.OSGlue.osc),
  ("ci", Driver.OSGlue.ci), ("li", Driver.OSGlue.li), ("nsi", Driver.OSGlue.nsi),
  ("ab", Driver.OSGlue.ab), ("rb", Driver.OSGlue.rb)
]

def runLine (line : String) : String :=
  match line.splitOn " | " with
  | [c, i] =>
    let ct := splitToks c
    let it := splitToks i
    match ct with
    | op :: args =>
      match handlers.lookup op with
      | some h =>
        match h args it with
        | some v =>
          let agree := match v.agreeOverride with
            | some b => b
            | none => splitToks v.model == it
          s!"{boolTok agree} {boolTok v.oracle} {boolTok v.nontrivial} | {v.model} | {v.note}"
        | none =>
          -- an implementation that panics where the handler expects an observation: no property
          -- lets the daemon crash on an input it can be given (the handlers that model a panic of
          -- the pinned tree — recorded findings — parse the token themselves)
          if it == ["panic"] then "0 0 1 | ? | the implementation panicked on this input"
          else "E | unparsable case"
      | none => s!"E | unknown op {op}"
    | [] => "E | empty case"
  | _ => "E | missing separator"

partial def loop (h : IO.FS.Stream) (out : IO.FS.Stream) : IO Unit := do
  let line ← h.getLine
  if line.isEmpty then return ()
  let l := line.trimAsciiEnd.toString
  if !l.isEmpty then out.putStrLn (runLine l)
  loop h out

def main : IO Unit := do
  let stdin ← IO.getStdin
  let stdout ← IO.getStdout
  loop stdin stdout
  stdout.flush
