import Corerad.Model.Lifetime
import Corerad.Spec.C16
namespace Driver.C16
open Corerad Corerad.Model

def triples : List Int → Option (List (Int × Int × Int))
  | [] => some []
  | a :: b :: c :: r => do let rs ← triples r; pure ((a, b, c) :: rs)
  | _ => none

def pairs : List Int → Option (List (Int × Int))
  | [] => some []
  | a :: b :: r => do let rs ← pairs r; pure ((a, b) :: rs)
  | _ => none

/-- last clock reading handed out while the plugin was applied for reading `t` with `reads`
    calls of the stepping clock (`stepClock.now` in the harness): it never passes the next
    reading of the sequence. -/
def lastReading (t step reads : Int) (next : Option Int) : Int :=
  let v := if reads ≤ 1 then t else t + (reads - 1) * step
  match next with
  | some n => if v > n then n else v
  | none => v

def nexts : List Int → List (Option Int)
  | [] => []
  | [_] => [none]
  | _ :: b :: r => some b :: nexts (b :: r)

/-- `pl dep epoch V P step n t… | (v p reads)…` -/
def pl (c impl : List String) : Option Verdict := do
  let (dep, epoch, V, Pf, step, ts) ← P.run (do
    let d ← P.bool; let e ← P.int; let v ← P.int; let p ← P.int; let s ← P.int; let ts ← P.list P.int
    pure (d, e, v, p, s, ts)) c
  let out := ts.map fun t => prefixLifetimes dep epoch V Pf t
  let flat := out.flatMap fun (v, p) => [toString v, toString p]
  if impl.contains "apply-failed" then
    return { model := " ".intercalate flat, oracle := false, nontrivial := true,
             note := "Apply failed although the plugin was prepared (Prepare must install the clock)" }
  let implI ← impl.mapM String.toInt?
  let ip ← triples implI
  if ip.length != ts.length then none
  let obs := (ts.zip ip).map fun (t, (v, p, _)) => (t, v, p)
  let span := ((ts.zip (nexts ts)).zip ip).map fun ((t, nx), (v, p, r)) => (t, lastReading t step r nx, v, p)
  let point := span.all fun (lo, hi, _, _) => lo == hi
  let implFlat := ip.flatMap fun (v, p, _) => [toString v, toString p]
  let crosses := ts.any (fun t => t < epoch + V) && ts.any (fun t => t ≥ epoch + Pf)
  pure { model := " ".intercalate flat,
         oracle := Spec.C16.holdsPrefixSpan dep epoch V Pf span &&
                   (!point || Spec.C16.holdsPrefix dep epoch V Pf obs),
         nontrivial := dep && crosses,
         note := if point then "" else "clock read more than once per RA (moving clock)",
         agreeOverride := some (flat == implFlat) }

/-- `rl dep epoch L step n t… | (l reads)…` -/
def rl (c impl : List String) : Option Verdict := do
  let (dep, epoch, L, step, ts) ← P.run (do
    let d ← P.bool; let e ← P.int; let l ← P.int; let s ← P.int; let ts ← P.list P.int
    pure (d, e, l, s, ts)) c
  let out := ts.map fun t => routeLifetime dep epoch L t
  if impl.contains "apply-failed" then
    return { model := " ".intercalate (out.map toString), oracle := false, nontrivial := true,
             note := "Apply failed although the plugin was prepared (Prepare must install the clock)" }
  let implI ← impl.mapM String.toInt?
  let ip ← pairs implI
  if ip.length != ts.length then none
  let obs := (ts.zip ip).map fun (t, (l, _)) => (t, l)
  let span := ((ts.zip (nexts ts)).zip ip).map fun ((t, nx), (l, r)) => (t, lastReading t step r nx, l)
  let point := span.all fun (lo, hi, _) => lo == hi
  let crosses := ts.any (fun t => t < epoch + L) && ts.any (fun t => t ≥ epoch + L)
  pure { model := " ".intercalate (out.map toString),
         oracle := Spec.C16.holdsRouteSpan dep epoch L span &&
                   (!point || Spec.C16.holdsRoute dep epoch L obs),
         nontrivial := dep && crosses,
         note := if point then "" else "clock read more than once per RA (moving clock)",
         agreeOverride := some (out.map toString == ip.map fun (l, _) => toString l) }

end Driver.C16
