import Corerad.Model.Lifetime
import Corerad.Spec.C16
namespace Driver.C16
open Corerad Corerad.Model

def pairs : List Int → Option (List (Int × Int))
  | [] => some []
  | a :: b :: r => do let rs ← pairs r; pure ((a, b) :: rs)
  | _ => none

/-- `pl dep epoch V P n t… | v p v p …` -/
def pl (c impl : List String) : Option Verdict := do
  let (dep, epoch, V, Pf, ts) ← P.run (do
    let d ← P.bool; let e ← P.int; let v ← P.int; let p ← P.int; let ts ← P.list P.int
    pure (d, e, v, p, ts)) c
  let out := ts.map fun t => prefixLifetimes dep epoch V Pf t
  let flat := out.flatMap fun (v, p) => [toString v, toString p]
  let implI ← impl.mapM String.toInt?
  let ip ← pairs implI
  if ip.length != ts.length then none
  let obs := (ts.zip ip).map fun (t, (v, p)) => (t, v, p)
  let crosses := ts.any (fun t => t < epoch + V) && ts.any (fun t => t ≥ epoch + Pf)
  pure { model := " ".intercalate flat,
         oracle := Spec.C16.holdsPrefix dep epoch V Pf obs,
         nontrivial := dep && crosses }

/-- `rl dep epoch L n t… | l …` -/
def rl (c impl : List String) : Option Verdict := do
  let (dep, epoch, L, ts) ← P.run (do
    let d ← P.bool; let e ← P.int; let l ← P.int; let ts ← P.list P.int
    pure (d, e, l, ts)) c
  let out := ts.map fun t => routeLifetime dep epoch L t
  let implI ← impl.mapM String.toInt?
  if implI.length != ts.length then none
  let crosses := ts.any (fun t => t < epoch + L) && ts.any (fun t => t ≥ epoch + L)
  pure { model := " ".intercalate (out.map toString),
         oracle := Spec.C16.holdsRoute dep epoch L (ts.zip implI),
         nontrivial := dep && crosses }

end Driver.C16
