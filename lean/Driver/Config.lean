import Corerad.Model.Config
import Corerad.Spec.C01
import Corerad.Spec.C02
import Corerad.Spec.C03
import Corerad.Spec.C04
namespace Driver.Config
open Corerad Corerad.Model

/-! token parsers for the raw configuration view -/

def pDurStr : P DurStr := do
  let t ← P.tok
  match t with
  | "U" => pure .unset | "A" => pure .auto | "I" => pure .infinite | "E" => pure .empty
  | "X" => pure .bad
  | "L" => do let d ← P.int; pure (.lit d)
  | _ => failure

def pPfxStr : P PfxStr := do
  let t ← P.tok
  match t with
  | "E" => pure .empty | "X" => pure .bad
  | "P" => do let p ← P.prefix_; pure (.ok p)
  | _ => failure

def pOptBool : P (Option Bool) := do
  let t ← P.tok
  match t with
  | "U" => pure none | "T" => pure (some true) | "F" => pure (some false)
  | _ => failure

def pRawPrefix : P RawPrefix := do
  let s ← pPfxStr; let ol ← pOptBool; let au ← pOptBool; let v ← pDurStr; let p ← pDurStr; let d ← P.bool
  pure { pstr := s, onLink := ol, autonomous := au, valid := v, preferred := p, deprecated := d }

def pRawRoute : P RawRoute := do
  let s ← pPfxStr; let pr ← P.nat; let l ← pDurStr; let d ← P.bool
  pure { pstr := s, preference := pr, lifetime := l, deprecated := d }

def pAddrStr : P AddrStr := do
  let t ← P.tok
  match t with
  | "X" => pure .bad
  | "A" => do let a ← P.ip; pure (.ok a)
  | _ => failure

def pRawRDNSS : P RawRDNSS := do
  let l ← pDurStr; let s ← P.list pAddrStr
  pure { lifetime := l, servers := s }

def pRawDNSSL : P RawDNSSL := do
  let l ← pDurStr; let s ← P.list P.nat
  pure { lifetime := l, names := s }

def pRawPref64 : P RawPref64 := do
  let t ← P.tok
  match t with
  | "U" => pure .unset | "E" => pure .empty | "X" => pure (.str .bad)
  | "P" => do let p ← P.prefix_; pure (.str (.ok p))
  | _ => failure

def pCP : P CPStr := do
  let t ← P.tok
  match t with
  | "E" => pure .empty | "X" => pure .bad
  | "C" => do let u ← P.nat; let l ← P.nat; pure (.ok u l)
  | _ => failure

def pRawInterface : P RawInterface := do
  let name ← P.nat; let names ← P.list P.nat
  let mon ← P.bool; let adv ← P.bool; let verb ← P.bool
  let maxI ← pDurStr; let minI ← pDurStr
  let man ← P.bool; let oth ← P.bool
  let reach ← pDurStr; let retr ← pDurStr
  let hopT ← P.tok
  let hop : Option Int ← (match hopT with
    | "U" => pure none
    | "V" => do let n ← P.int; pure (some n)
    | _ => failure)
  let dl ← pDurStr
  let uni ← P.bool; let pref ← P.nat
  let prefixes ← P.list pRawPrefix
  let routes ← P.list pRawRoute
  let rdnss ← P.list pRawRDNSS
  let dnssl ← P.list pRawDNSSL
  let p64 ← P.list pRawPref64
  let mtu ← P.int
  let lla ← pOptBool
  let cp ← pCP
  pure { name := name, names := names, monitor := mon, advertise := adv, verbose := verb,
         maxInterval := maxI, minInterval := minI, managed := man, otherConfig := oth,
         reachable := reach, retransmit := retr, hopLimit := hop, defaultLifetime := dl,
         unicastOnly := uni, preference := pref, prefixes := prefixes, routes := routes,
         rdnss := rdnss, dnssl := dnssl, pref64 := p64, mtu := mtu, sourceLLA := lla,
         captivePortal := cp }

def pRawConfig : P RawConfig := do
  let dbg ← P.nat; let prom ← P.bool; let pprof ← P.bool
  let ifs ← P.list pRawInterface
  pure { interfaces := ifs, debugAddr := dbg, prometheus := prom, pprof := pprof }

/-! canonical output -/

def nats (l : List Nat) : String := String.join (l.map fun n => s!" {n}")
def ips (l : List IP) : String := String.join (l.map fun a => s!" {ipToks a}")

def pluginToks : Plugin → String
  | .pfx auto p ol au v pr dep => s!"0 {boolTok auto} {prefixToks p} {boolTok ol} {boolTok au} {v} {pr} {boolTok dep}"
  | .route auto p pref lt dep => s!"1 {boolTok auto} {prefixToks p} {pref} {lt} {boolTok dep}"
  | .rdnss auto lt servers => s!"2 {boolTok auto} {lt} {servers.length}{ips servers}"
  | .dnssl lt names => s!"3 {lt} {names.length}{nats names}"
  | .mtu m => s!"4 {m}"
  | .lla => "5"
  | .captivePortal u l => s!"6 {u} {l}"
  | .pref64 p lt => s!"7 {prefixToks p} {lt}"

def ifaceToks (i : Interface) : String :=
  s!"{i.name} {boolTok i.monitor} {boolTok i.advertise} {boolTok i.verbose} {i.minInterval} {i.maxInterval} " ++
  s!"{boolTok i.managed} {boolTok i.otherConfig} {i.reachable} {i.retransmit} {i.hopLimit} {i.defaultLifetime} " ++
  s!"{boolTok i.unicastOnly} {i.preference} {i.plugins.length}" ++ String.join (i.plugins.map fun p => " " ++ pluginToks p)

def configToks : Option Config → String
  | none => "rej"
  | some c => s!"ok {c.debugAddr} {boolTok c.prometheus} {boolTok c.pprof} {c.interfaces.length}" ++
      String.join (c.interfaces.map fun i => " " ++ ifaceToks i)

def optToks : Opt → String
  | .pi a len ol au v p => s!"0 {ipToks a} {len} {boolTok ol} {boolTok au} {v} {p}"
  | .ri a len pref lt => s!"1 {ipToks a} {len} {pref} {lt}"
  | .rdnss lt servers => s!"2 {lt} {servers.length}{ips servers}"
  | .dnssl lt names => s!"3 {lt} {names.length}{nats names}"
  | .mtu m => s!"4 {m}"
  | .lla len mac => s!"5 {len} {mac}"
  | .captivePortal u l => s!"6 {u} {l}"
  | .pref64 p lt => s!"7 {prefixToks p} {lt}"

def raToks (ra : RA) : String :=
  s!"{ra.hopLimit} {boolTok ra.managed} {boolTok ra.other} {ra.preference} {ra.routerLifetime} {ra.reachable} {ra.retransmit} {ra.options.length}" ++
  String.join (ra.options.map fun o => " " ++ optToks o)

/-! parsers for the implementation's output -/

def pOpt : P Opt := do
  let k ← P.nat
  match k with
  | 0 => do
    let a ← P.ip; let len ← P.nat; let ol ← P.bool; let au ← P.bool; let v ← P.int; let p ← P.int
    pure (.pi a len ol au v p)
  | 1 => do let a ← P.ip; let len ← P.nat; let pr ← P.nat; let l ← P.int; pure (.ri a len pr l)
  | 2 => do let l ← P.int; let s ← P.list P.ip; pure (.rdnss l s)
  | 3 => do let l ← P.int; let s ← P.list P.nat; pure (.dnssl l s)
  | 4 => do let m ← P.int; pure (.mtu m)
  | 5 => do let len ← P.nat; let mac ← P.nat; pure (.lla len mac)
  | 6 => do let u ← P.nat; let l ← P.nat; pure (.captivePortal u l)
  | 7 => do let p ← P.prefix_; let l ← P.int; pure (.pref64 p l)
  | _ => failure

def pRA : P RA := do
  let hop ← P.nat; let m ← P.bool; let o ← P.bool; let pref ← P.nat
  let rl ← P.int; let reach ← P.int; let retr ← P.int
  let opts ← P.list pOpt
  pure { hopLimit := hop, managed := m, other := o, preference := pref, routerLifetime := rl,
         reachable := reach, retransmit := retr, options := opts }

def pPlugin : P Plugin := do
  let k ← P.nat
  match k with
  | 0 => do
    let auto ← P.bool; let p ← P.prefix_; let ol ← P.bool; let au ← P.bool; let v ← P.int; let pr ← P.int; let d ← P.bool
    pure (.pfx auto p ol au v pr d)
  | 1 => do
    let auto ← P.bool; let p ← P.prefix_; let pref ← P.nat; let l ← P.int; let d ← P.bool
    pure (.route auto p pref l d)
  | 2 => do let auto ← P.bool; let l ← P.int; let s ← P.list P.ip; pure (.rdnss auto l s)
  | 3 => do let l ← P.int; let s ← P.list P.nat; pure (.dnssl l s)
  | 4 => do let m ← P.int; pure (.mtu m)
  | 5 => pure .lla
  | 6 => do let u ← P.nat; let l ← P.nat; pure (.captivePortal u l)
  | 7 => do let p ← P.prefix_; let l ← P.int; pure (.pref64 p l)
  | _ => failure

def pInterface : P Interface := do
  let name ← P.nat; let mon ← P.bool; let adv ← P.bool; let verb ← P.bool
  let mn ← P.int; let mx ← P.int; let man ← P.bool; let oth ← P.bool
  let reach ← P.int; let retr ← P.int; let hop ← P.nat; let lt ← P.int
  let uni ← P.bool; let pref ← P.nat
  let plugins ← P.list pPlugin
  pure { name := name, monitor := mon, advertise := adv, verbose := verb, minInterval := mn,
         maxInterval := mx, managed := man, otherConfig := oth, reachable := reach, retransmit := retr,
         hopLimit := hop, defaultLifetime := lt, unicastOnly := uni, preference := pref, plugins := plugins }

def pImplConfig : P (Option Config) := do
  let t ← P.tok
  match t with
  | "rej" => pure none
  | "ok" => do
    let dbg ← P.nat; let prom ← P.bool; let pprof ← P.bool
    let ifs ← P.list pInterface
    pure (some { interfaces := ifs, debugAddr := dbg, prometheus := prom, pprof := pprof })
  | _ => failure

/-- `cfg <raw config> | rej` or `| ok <parsed config>` (C02) -/
def cfg (c impl : List String) : Option Verdict := do
  let raw ← P.run pRawConfig c
  let res := parseConfig raw
  if impl == ["panic"] then
    pure { model := configToks res, oracle := false, nontrivial := true, note := "Parse panicked" }
  else
    let implRes ← P.run pImplConfig impl
    let (ok, note) := Spec.C02.holds raw implRes
    pure { model := configToks res, oracle := ok, nontrivial := !raw.interfaces.isEmpty, note := note }

/-- `fuzz | ok|rej|panic`: documents outside the key grammar; only "never panics" is judged -/
def fuzz (_c impl : List String) : Option Verdict :=
  pure { model := (if impl == ["ok"] then "ok" else "rej"), oracle := impl != ["panic"], nontrivial := false,
         note := if impl == ["panic"] then "Parse panicked on a malformed document" else "" }

/-- `unk level | ok/rej/panic`: an accepted document with one unknown key added must be rejected -/
def unk (_c impl : List String) : Option Verdict :=
  pure { model := "rej", oracle := impl == ["rej"], nontrivial := true,
         note := if impl == ["rej"] then "" else "a document with a key the reference does not know was accepted (or Parse panicked): \"no unknown keys\" is a documented constraint" }

/-- `fs d | uint32(d.Seconds())`: the model's exact float64 arithmetic against the real conversion -/
def fs (c impl : List String) : Option Verdict := do
  let d ← P.run P.int c
  let got ← P.run P.int impl
  let m := Spec.C03.floatSeconds d
  pure { model := toString m, oracle := got == m, nontrivial := Spec.C03.floatRoundsUp d,
         note := if got == m then "" else "uint32(d.Seconds()) differs from the model's float64 arithmetic (Spec.C03.floatSeconds): the class predicate of K-1 would be wrong" }

def pSysIP : P SysIP := do
  let p ← P.prefix_
  let dep ← P.bool; let mng ← P.bool; let stab ← P.bool; let tmp ← P.bool; let tent ← P.bool; let fv ← P.bool
  pure { addr := p, deprecated := dep, manageTemp := mng, stablePrivacy := stab, temporary := tmp,
         tentative := tent, validForever := fv }

def pSys : P SysState := do
  let t ← P.tok
  let addrs ← (match t with
    | "F" => pure none
    | "S" => do let l ← P.list pSysIP; pure (some l)
    | _ => failure)
  let t ← P.tok
  let routes ← (match t with
    | "F" => pure none
    | "S" => do let l ← P.list P.prefix_; pure (some l)
    | _ => failure)
  let t ← P.tok
  let mac ← (match t with
    | "N" => pure none
    | "M" => do let len ← P.nat; let v ← P.nat; pure (some (len, v))
    | _ => failure)
  let now ← P.int; let epoch ← P.int
  pure { addrs := addrs, routes := routes, mac := mac, now := now, epoch := epoch }

/-- outcome of building an RA from a raw stanza -/
inductive Built where
  | rej | err | ok (ra : RA) (mis : Bool)

def build (raw : RawInterface) (sys : SysState) (fw : Bool) : Built :=
  match parseInterface raw.name raw with
  | none => .rej
  | some ifi => match routerAdvertisement ifi sys fw with
    | none => .err
    | some (ra, mis) => .ok ra mis

/-- what the implementation reported for an `ra*` case -/
structure ImplRA where
  status : String                 -- rej | err | ok | panic | unstable | config-mutated
  ra : Option RA := none
  mis : Bool := false
  wire : String := ""             -- "" | marshal-err | parse-err | wire
  decoded : Option RA := none

def pImplRA : P ImplRA := do
  let st ← P.tok
  if st != "ok" then pure { status := st }
  else
    let ra ← pRA
    let mis ← P.bool
    let rest ← get
    match rest with
    | [] => pure { status := st, ra := some ra, mis := mis }
    | _ => do
      let w ← P.tok
      if w == "wire" then
        let d ← pRA
        pure { status := st, ra := some ra, mis := mis, wire := w, decoded := some d }
      else pure { status := st, ra := some ra, mis := mis, wire := w }

def modelRAString (raw : RawInterface) (sys : SysState) (fw : Bool) (withWire : Bool) : String :=
  match build raw sys fw with
  | .rej => "rej"
  | .err => "err"
  | .ok ra mis =>
    let base := s!"ok {raToks ra} {boolTok mis}"
    if !withWire then base
    else if Spec.C03.wireSafe ra then s!"{base} wire {raToks (Spec.C03.truncateRA ra)}"
    else s!"{base} marshal-err"

def pRACase : P (RawInterface × SysState × Bool) := do
  let raw ← pRawInterface; let sys ← pSys; let fw ← P.bool
  pure (raw, sys, fw)

/-- the system state as the source's `source_lla` plugin sees it (model) and as it should (oracles) -/
def sysSrc (sys : SysState) : SysState := normSys Gen.Plugin.llaRequiresEthernet sys
def sysDoc (sys : SysState) : SysState := normSys true sys

/-- `ra1 <raw stanza> <sys> <fw> | …` (C01) -/
def ra1 (c impl : List String) : Option Verdict := do
  let (raw, sys, fw) ← P.run pRACase c
  let i ← P.run pImplRA impl
  let (ok, note) := Spec.C01.holds raw (sysDoc sys) fw i.status i.ra
  let kinds := match i.ra with
    | some ra => (ra.options.map fun o => match o with
        | .pi .. => 0 | .ri .. => 1 | .rdnss .. => 2 | .dnssl .. => 3 | .mtu .. => 4 | .lla .. => 5
        | .captivePortal .. => 6 | .pref64 .. => 7).eraseDups.length
    | none => 0
  pure { model := modelRAString raw (sysSrc sys) fw false, oracle := ok, nontrivial := decide (kinds ≥ 2), note := note }

/-- `ra3 … | … wire <decoded RA>` (C03) -/
def ra3 (c impl : List String) : Option Verdict := do
  let (raw, sys, fw) ← P.run pRACase c
  let i ← P.run pImplRA impl
  -- ClockSane (DESIGN §5 C03): the clock never reads earlier than the daemon's own epoch (both come
  -- from the process's monotonic clock); states violating it are outside the property's quantifier
  let clockSane := decide (sys.epoch ≤ sys.now)
  let (ok, note) := if clockSane then Spec.C03.holds i.status i.ra i.wire i.decoded
    else (i.status != "panic" && i.status != "unstable" && i.status != "config-mutated", "")
  let nt := match i.ra with
    | some ra => ra.options.any fun o => match o with
        | .pi .. | .ri .. | .rdnss .. | .dnssl .. | .pref64 .. => true
        | _ => false
    | none => false
  let wireKnown := i.wire == "wire" || i.wire == "marshal-err" || i.wire == "" 
  pure { model := modelRAString raw (sysSrc sys) fw true, oracle := ok, nontrivial := nt && clockSane, note := note,
         agreeOverride := if clockSane then none else some (i.status != "ok" || wireKnown) }

/-- `ra4 … | …` (C04, single-generation form) -/
def ra4 (c impl : List String) : Option Verdict := do
  let (raw, sys, fw) ← P.run pRACase c
  let i ← P.run pImplRA impl
  let (ok, note) := Spec.C04.holds raw (sysDoc sys) fw i.status i.ra i.mis
  pure { model := modelRAString raw (sysSrc sys) fw false, oracle := ok,
         nontrivial := i.status == "ok", note := note }

end Driver.Config
