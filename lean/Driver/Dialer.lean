import Corerad.Spec.C11
import Corerad.Spec.C10Dialer
namespace Driver.Dialer
open Corerad Corerad.Model.Dialer

/-! token codes (shared with harness/system/zz_verif_test.go) -/

def dialOutOfNat : Nat → Option DialOut
  | 0 => some .ok | 1 => some .linkNotReady | 2 => some .syscall | 3 => some .permission
  | 4 => some .other | _ => none
def DialOut.code : DialOut → Nat
  | .ok => 0 | .linkNotReady => 1 | .syscall => 2 | .permission => 3 | .other => 4

def taskOutOfNat : Nat → Option TaskOut
  | 0 => some .nil | 1 => some .linkChange | 2 => some .syscall | 3 => some .permission
  | 4 => some .retries | 5 => some .other | 6 => some .cancelled | 7 => some .cancelledErr
  | _ => none
def TaskOut.code : TaskOut → Nat
  | .nil => 0 | .linkChange => 1 | .syscall => 2 | .permission => 3 | .retries => 4
  | .other => 5 | .cancelled => 6 | .cancelledErr => 7

def faultOfNat : Nat → Option Fault
  | 0 => some .none | 1 => some .permission | 2 => some .notExist | 3 => some .other | _ => none
def Fault.code : Fault → Nat
  | .none => 0 | .permission => 1 | .notExist => 2 | .other => 3

def pEnum (f : Nat → Option α) : P α := do
  let n ← P.nat
  match f n with
  | some x => pure x
  | none => failure

/-- `pre get set rst task` -/
def pAttempt : P Attempt := do
  let pre ← pEnum dialOutOfNat
  let get ← pEnum faultOfNat
  let set ← pEnum faultOfNat
  let rst ← pEnum faultOfNat
  let task ← pEnum taskOutOfNat
  pure { pre, get, set, rst, task }

def pRet : P Ret := do
  let c ← P.nat
  match c with
  | 0 => pure .nil
  | 1 => do let k ← P.nat; pure (.dial k)
  | 2 => do let k ← P.nat; pure (.task k)
  | 3 => pure .timeout
  | 4 => do let k ← P.nat; pure (.cleanup k)
  | _ => failure

/-- `w d | x | d k | dr k o | o k | g v r | s v r | fs k | fr k t | lv k | cl k | r ret` -/
def pEv : P Ev := do
  let t ← P.tok
  match t with
  | "w" => do let d ← P.int; pure (.wait d)
  | "x" => pure .ctxDone
  | "d" => do let k ← P.nat; pure (.dial k)
  | "dr" => do let k ← P.nat; let o ← pEnum dialOutOfNat; pure (.dialRet k o)
  | "o" => do let k ← P.nat; pure (.open k)
  | "g" => do let v ← P.bool; let r ← pEnum faultOfNat; pure (.getAutoconf v r)
  | "s" => do let v ← P.bool; let r ← pEnum faultOfNat; pure (.setAutoconf v r)
  | "fs" => do let k ← P.nat; pure (.fnStart k)
  | "fr" => do let k ← P.nat; let t ← pEnum taskOutOfNat; pure (.fnReturn k t)
  | "lv" => do let k ← P.nat; pure (.leave k)
  | "cl" => do let k ← P.nat; pure (.cleanup k)
  | "r" => do let e ← pRet; pure (.ret e)
  | _ => failure

partial def pEvs : P (List Ev) := fun s =>
  match s with
  | "fin" :: _ => some ([], s)
  | [] => some ([], [])
  | _ => match pEv s with
    | some (e, s') => match pEvs s' with
      | some (es, s'') => some (e :: es, s'')
      | none => none
    | none => none

/-- `events… fin v` -/
def pTrace : P (List Ev × Bool) := do
  let evs ← pEvs
  P.expect "fin"
  let v ← P.bool
  pure (evs, v)

def retToks : Ret → String
  | .nil => "r 0" | .dial k => s!"r 1 {k}" | .task k => s!"r 2 {k}" | .timeout => "r 3"
  | .cleanup k => s!"r 4 {k}"

def evToks : Ev → String
  | .wait d => s!"w {d}"
  | .ctxDone => "x"
  | .dial k => s!"d {k}"
  | .dialRet k o => s!"dr {k} {DialOut.code o}"
  | .open k => s!"o {k}"
  | .getAutoconf v r => s!"g {boolTok v} {Fault.code r}"
  | .setAutoconf v r => s!"s {boolTok v} {Fault.code r}"
  | .fnStart k => s!"fs {k}"
  | .fnReturn k t => s!"fr {k} {TaskOut.code t}"
  | .leave k => s!"lv {k}"
  | .cleanup k => s!"cl {k}"
  | .ret e => retToks e

/-- a zero-length wait cannot be observed (virtual time does not move): dropped on both sides -/
def observable : Ev → Bool
  | .wait d => d != 0
  | _ => true

def traceToks (o : Out) : String :=
  " ".intercalate ((o.evs.filter observable).map evToks) ++ s!" fin {boolTok o.ac}"

/-- the order of the calls of the `done` closure as the harness read it from the source:
    digits 1 = conn.LeaveGroup, 2 = conn.Close, 3 = restore -/
def doneCode : List String → Nat
  | [] => 0
  | c :: cs =>
    let d := if c == "conn.LeaveGroup" then 1 else if c == "conn.Close" then 2
             else if c == "restore" then 3 else 9
    d * 10 ^ cs.length + doneCode cs

structure Case where
  leak : Bool
  done : Nat
  cfg : Cfg
  script : List Attempt

/-- `leak done adv ac0 T n attempt*` (`T = -1`: no cancellation) -/
def pCase : P Case := do
  let leak ← P.bool
  let done ← P.nat
  let adv ← P.bool
  let ac0 ← P.bool
  let T ← P.int
  let script ← P.list pAttempt
  pure { leak, done, script, cfg := { adv, ac0, cancelAt := if T < 0 then none else some T.toNat } }

/-- does the harness' replica of `dial()` compose the calls as the extractor read them -/
def tied (c : Case) : Bool :=
  c.leak == Gen.Dialer.dialLeaksConnOnAutoconfError &&
  c.done == doneCode Gen.Dialer.doneCalls && c.done == 123

def tieNote : String :=
  "tie: the harness' replica of dial() (error path after dialNDP, order of the done closure) does not match the regenerated facts Gen.Dialer.dialLeaksConnOnAutoconfError / doneCalls"

def isFault : Ev → Bool
  | .getAutoconf _ r => r != .none
  | .setAutoconf _ r => r != .none
  | _ => false

def isFailure : Ev → Bool
  | .dialRet _ o => o != .ok
  | .fnReturn _ t => t != .nil
  | .ctxDone => true
  | _ => false

def isStart : Ev → Bool
  | .fnStart _ => true
  | _ => false

/-- C11: `d11 case | trace fin v` -/
def d11 (c impl : List String) : Option Verdict := do
  let cs ← P.run pCase c
  let m := dialRun cs.cfg cs.script
  let nt := m.evs.any isStart && (m.evs.any isFault || dialCalls m.evs ≥ 2)
  match P.run pTrace impl with
  | none =>
    pure { model := traceToks m, oracle := false, nontrivial := nt,
           note := "the implementation's trace cannot be parsed (panic or hang inside Dial?)" }
  | some (evs, fin) =>
    let ok := Spec.C11.holds cs.cfg.ac0 evs fin
    if !tied cs then
      pure { model := traceToks m, oracle := false, nontrivial := nt, note := tieNote }
    else
      pure { model := traceToks m, oracle := ok, nontrivial := nt,
             note := Spec.C11.why cs.cfg.ac0 evs fin }

/-- C10 (dialer part): `d10 case | trace fin v` -/
def d10 (c impl : List String) : Option Verdict := do
  let cs ← P.run pCase c
  let m := dialRun cs.cfg cs.script
  let nt := m.evs.any isFailure
  match P.run pTrace impl with
  | none =>
    pure { model := traceToks m, oracle := false, nontrivial := nt,
           note := "the implementation's trace cannot be parsed (panic or hang inside Dial?)" }
  | some (evs, _) =>
    pure { model := traceToks m, oracle := Spec.C10Dialer.holds evs, nontrivial := nt,
           note := Spec.C10Dialer.why evs }

/-- C11, opportunistic: `rd ran n | delta` — the real `dial()` on a real interface, `n` calls
    whose `SetIPv6Autoconf` fails; `delta` = open file descriptors after − before.
    `rd 0 0 | skip` when the environment does not permit it. -/
def rd (c impl : List String) : Option Verdict := do
  let (ran, n) ← P.run (do let r ← P.bool; let n ← P.nat; pure (r, n)) c
  if !ran then
    pure { model := "skip", oracle := true, nontrivial := false, note := "" }
  else
    let want : Nat := if Gen.Dialer.dialLeaksConnOnAutoconfError then n else 0
    let ok := impl == ["0"]
    pure { model := s!"{want}", oracle := ok, nontrivial := true,
           note := if ok then "" else
             "bracket (real socket): dial() returned an error after dialNDP succeeded and the file descriptor of the socket is still open" }

/-- C11, opportunistic: `rdm ran adv ac0 | (g<v> | s<v>)* D (s<v>)* fdDelta` — the `State` calls of
    the real `dial()` and of the connection's `done()` in either mode, against `dialFn`/`doneFn`
    of the model with nothing failing. -/
def rdm (c impl : List String) : Option Verdict := do
  let (ran, adv, ac0) ← P.run (do let r ← P.bool; let a ← P.bool; let b ← P.bool; pure (r, a, b)) c
  if !ran then
    pure { model := "skip", oracle := true, nontrivial := false, note := "" }
  else
    let a : Attempt := { pre := .ok, get := .none, set := .none, task := .nil, rst := .none }
    let dr := dialFn Gen.Dialer.dialLeaksConnOnAutoconfError adv 0 ac0 a
    let dn := doneFn 0 dr.restore .none dr.ac
    let stTok : Ev → Option String
      | .getAutoconf v _ => some s!"g{boolTok v}"
      | .setAutoconf v _ => some s!"s{boolTok v}"
      | _ => none
    let want := dr.evs.filterMap stTok ++ ["D"] ++ dn.evs.filterMap stTok ++ ["0"]
    let ok := impl == want && dn.ac == ac0
    pure { model := " ".intercalate want, oracle := ok, nontrivial := true,
           note := if ok then "" else
             "real dial()/done(): autoconfiguration must be read and disabled in Advertise mode only, restored to its previous value by done(), and the socket closed (no file descriptor left open)" }

/-- `sld adv lat hold | opened cleaned maxOpen acRestored status`: one connection is dialled (it takes
    `lat`), held for `hold`, and the task returns nil.  However long the dial takes: one connection
    opened, cleaned up once, never two open at a time, autoconf back to its value, `Dial` returns nil. -/
def sld (c impl : List String) : Option Verdict := do
  let (_adv, _lat, _hold) ← P.run (do let a ← P.bool; let l ← P.int; let h ← P.int; pure (a, l, h)) c
  let (o, cl, m, ac, st) ← P.run (do
    let o ← P.nat; let c ← P.nat; let m ← P.nat; let a ← P.bool; let s ← P.tok; pure (o, c, m, a, s)) impl
  let ok := o == 1 && cl == 1 && m == 1 && ac && st == "nil"
  pure { model := "1 1 1 1 nil", oracle := ok, nontrivial := true,
         note := if cl != o then "a connection that was opened was not cleaned up exactly once"
           else if m > 1 then "two connections were open at the same time"
           else if !ac then "IPv6 autoconfiguration was not put back to the value it had before"
           else if o != 1 then "more than one connection was opened although nothing failed"
           else if st != "nil" then s!"Dial reported {st}" else "" }

end Driver.Dialer
