import Corerad.Spec.C12
import Corerad.Spec.C03
import Driver.Config
namespace Driver.C12
open Corerad Corerad.Model

def pProblem : P Problem := do
  let f ← P.nat
  let t ← P.tok
  let det ← (match t with
    | "N" => pure none
    | "D" => do let a ← P.ip; let l ← P.nat; pure (some (a, l))
    | _ => failure)
  let fld : Field ← (match f with
    | 0 => pure .hopLimit | 1 => pure .managed | 2 => pure .other | 3 => pure .reachable | 4 => pure .retransmit
    | 5 => pure .mtu | 6 => pure .piPreferred | 7 => pure .piValid | 8 => pure .riLifetime | 9 => pure .rdnssCount
    | 10 => pure .rdnssLifetime | 11 => pure .rdnssServers | 12 => pure .dnsslCount | 13 => pure .dnsslLifetime
    | 14 => pure .dnsslNames | 15 => pure .captivePortal | _ => failure)
  pure { field := fld, details := det }

def problemToks (p : Problem) : String :=
  s!"{Spec.C12.fieldCode p.field} " ++ (match p.details with | none => "N" | some (a, l) => s!"D {ipToks a} {l}")

/-- sort key so that the canonical output does not depend on report order -/
def pkey (p : Problem) : Nat × Nat × Nat :=
  (Spec.C12.fieldCode p.field, match p.details with | none => (0, 0) | some (a, l) => (a.val + 1, l))

def lt3 (a b : Nat × Nat × Nat) : Bool :=
  a.1 < b.1 || (a.1 == b.1 && (a.2.1 < b.2.1 || (a.2.1 == b.2.1 && a.2.2 ≤ b.2.2)))

def canon (ps : List Problem) : String :=
  let sorted := ps.mergeSort (fun x y => lt3 (pkey x) (pkey y))
  s!"{sorted.length}" ++ String.join (sorted.map fun p => " " ++ problemToks p)

/-- `vr <own RA> <received RA> | hook n problem*` (problems sorted by the harness) -/
def vr (c impl : List String) : Option Verdict := do
  let (a, b) ← P.run (do let a ← Driver.Config.pRA; let b ← Driver.Config.pRA; pure (a, b)) c
  let (hook, reported) ← P.run (do let h ← P.bool; let ps ← P.list pProblem; pure (h, ps)) impl
  let ps := verifyRAs a b
  let shares := decide (a.hopLimit ≥ 0) &&
    ((firstMTU a.options).isSome && (firstMTU b.options).isSome ||
     (pickPI a.options).any (fun x => (pickPI b.options).any fun y => x.1 == y.1 && x.2.1 == y.2.1) ||
     (pickRI a.options).any (fun x => (pickRI b.options).any fun y => x.1 == y.1 && x.2.1 == y.2.1) ||
     (!(pickRDNSS a.options).isEmpty && !(pickRDNSS b.options).isEmpty) ||
     (!(pickDNSSL a.options).isEmpty && !(pickDNSSL b.options).isEmpty) ||
     (firstPortal a.options).isSome && (firstPortal b.options).isSome)
  -- "an RA equal to CoreRAD's own produces no report": when the received RA is the own RA (as it
  -- is, or as it reads after a wire round trip) nothing may be reported. The pairwise comparison
  -- of the source reports an own RA that repeats a prefix or route with different lifetimes
  -- against itself (finding F-21, the configuration class of F-14).
  let twin := b == a || b == Spec.C03.truncateRA a
  let selfInc := twin && !Spec.C12.coherent a && (!reported.isEmpty || hook)
  pure { model := s!"{boolTok (!ps.isEmpty)} {canon ps}",
         oracle := !selfInc && Spec.C12.holds a b reported hook,
         nontrivial := shares,
         note := if selfInc then
           "class=self-inconsistent-own-ra the received RA equals the own RA, which carries the same prefix (or route) twice with different lifetimes: each copy is reported against the other although the two RAs are identical"
         else "" }

/-- `cfgmut | b`: after a neighbour's RA has been handled, does the configuration still produce the RA
    it produced before (same system state)?  Handling a received RA never alters the configuration. -/
def cfgmut (_c impl : List String) : Option Verdict := do
  let b ← P.run P.bool impl
  pure { model := "0", oracle := !b, nontrivial := false,
         note := if b then "handling a received RA altered the configuration: the same system state no longer yields the same RA" else "" }

/-- `vburst n | hooks counted`: `n` inconsistent RAs (one differing field each) arrive in a burst while
    the first report is still being processed: every one of them is judged — `n` hook calls, `n`
    counter increments. -/
def vburst (c impl : List String) : Option Verdict := do
  let n ← P.run P.nat c
  let (h, k) ← P.run (do let a ← P.nat; let b ← P.nat; pure (a, b)) impl
  pure { model := s!"{n} {n}", oracle := h == n && k == n, nontrivial := decide (n ≥ 2),
         note := if h == n && k == n then "" else "a received RA was not judged (reports are shed under load), or judged more than once" }

end Driver.C12
