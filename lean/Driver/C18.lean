import Corerad.Model.Monitor
import Corerad.Spec.C18
namespace Driver.C18
open Corerad Corerad.Model.Monitor

/-- option: `3 addr len onlink auto pref valid` (Prefix Information; `len` is the length byte as
    delivered, 0..255; `addr` is 0 when the decoder left the zero `netip.Addr`, which it does
    exactly for `len > 128`) or `<type≠3>` (ignored) -/
def pOpt : P Opt := do
  let c ← P.nat
  if c == 3 then
    let a ← P.nat; let l ← P.nat; let ol ← P.bool; let au ← P.bool
    let pr ← P.int; let va ← P.int
    pure (.pi { addr := a, len := l, onLink := ol, autonomous := au, preferred := pr, valid := va })
  else pure (.other c)

/-- message: `host now type`, for type 134 followed by `managed other routerLifetime n opt…` -/
def pEvent : P Event := do
  let h ← P.nat; let now ← P.int; let ty ← P.nat
  if ty == raType then
    let m ← P.bool; let o ← P.bool; let rl ← P.int; let opts ← P.list pOpt
    pure { msg := .ra { managed := m, other := o, routerLifetime := rl, options := opts },
           host := h, now := now }
  else pure { msg := .other ty, host := h, now := now }

/-- observed sample: `metric host type addr len value`; a `prefix` label is `addr len` with
    `len ≤ 128`, or `0 256` for the literal `invalid Prefix` (`PLabel.ofToks`) -/
def pSample : P ((Nat × Nat × Nat × Nat × Nat) × Int) := do
  let m ← P.nat; let h ← P.nat; let t ← P.nat; let a ← P.nat; let l ← P.nat; let v ← P.int
  pure ((m, h, t, a, l), v)

def sampleToks (x : Series × Int) : String :=
  let (m, h, t, a, l) := x.1.fields
  s!"{m} {h} {t} {a} {l} {x.2}"

def render (obs : List (Series × Int)) : String :=
  " ".intercalate (toString obs.length :: obs.map sampleToks)

def explain (evs : List Event) (obs : List (Series × Int)) : String :=
  if !Spec.C18.uniqueKeys obs then "a label tuple is reported twice"
  else match obs.find? (fun (s, v) =>
      if Spec.C18.outOfScope s then !Spec.C18.sentMalformed evs (Spec.C18.seriesHost s)
      else !(Spec.C18.expected evs s == some v)) with
    | some (s, v) =>
      if Spec.C18.outOfScope s then
        s!"series [{sampleToks (s, v)}] (label 'invalid Prefix') exists although its router sent no Prefix Information option with a malformed length"
      else match Spec.C18.expected evs s with
      | some w => s!"series [{sampleToks (s, v)}] should read {w}"
      | none => s!"series [{sampleToks (s, v)}] should not exist"
    | none =>
      match (Spec.C18.touched evs).find? (fun s =>
          !Spec.C18.outOfScope s && !(Spec.C18.keys obs).contains s) with
      | some s => s!"series [{sampleToks (s, 0)}] (value elided) is missing"
      | none => ""

/-- `mon n msg… | k sample…` -/
def mon (c impl : List String) : Option Verdict := do
  let evs ← P.run (P.list pEvent) c
  let raw ← P.run (P.list pSample) impl
  let nontrivial := evs.any fun e =>
    match e.msg with
    | .ra ra => ra.routerLifetime != 0 || (pickPI ra.options).length > 0
    | .other _ => false
  let model := render (canonical (observe evs))
  match raw.mapM (fun (f, v) => (Series.ofFields f).map (·, v)) with
  | some obs =>
    let ok := Spec.C18.holds evs obs
    pure { model := model, oracle := ok, nontrivial := nontrivial,
           note := if ok then "" else explain evs obs }
  | none =>
    pure { model := model, oracle := false, nontrivial := nontrivial,
           note := "the implementation reports a series the harness cannot map back (unknown metric, interface, host, prefix or message label, or a non-integral value)" }

end Driver.C18
