import Corerad.Spec.C20
namespace Driver.C20
open Corerad Corerad.Model.Server

/-! ### BuildTasks: `bt n kind* debug watcher | m (a i | m i | h | w)*` (or `| panic`) -/

def pKind : P IfaceKind := do
  let t ← P.tok
  match t with
  | "a" => pure .adv
  | "m" => pure .mon
  | "n" => pure .neither
  | _ => failure

/-- a task with its observed wiring: `w1` the task's link-state channel is a subscription of the
    server's watcher, `w0` it has none, `wx` it has one that is not; `t1` the advertiser's
    terminate function follows the server's terminator -/
def pTask : P (TaskKind × List String) := do
  let t ← P.tok
  match t with
  | "a" => do let i ← P.nat; let w ← P.tok; let tm ← P.tok; pure (.advertiser i, [w, tm])
  | "m" => do let i ← P.nat; let w ← P.tok; pure (.monitor i, [w])
  | "h" => pure (.http, [])
  | "w" => pure (.watcher, [])
  | _ => failure

def wiring (watcher : Bool) : TaskKind → List String
  | .advertiser _ => [if watcher then "w1" else "w0", "t1"]
  | .monitor _ => [if watcher then "w1" else "w0"]
  | _ => []

def taskTok (watcher : Bool) (t : TaskKind) : String :=
  let base := match t with
    | .advertiser i => s!"a {i}"
    | .monitor i => s!"m {i}"
    | .http => "h"
    | .watcher => "w"
  " ".intercalate (base :: wiring watcher t)

def tasksToks (watcher : Bool) (l : List TaskKind) : String :=
  s!"{l.length}" ++ String.join (l.map fun t => " " ++ taskTok watcher t)

def bt (c impl : List String) : Option Verdict := do
  let (ifs, d, w) ← P.run (do let l ← P.list pKind; let d ← P.bool; let w ← P.bool; pure (l, d, w)) c
  let model := tasksToks w (buildTasks ifs d w)
  let nt := ifs.any (· == .neither) && ifs.any (· != .neither)
  match impl with
  | ["panic"] =>
    pure { model := model, oracle := false, nontrivial := nt, note := "BuildTasks panicked" }
  | _ =>
    match P.run (P.list pTask) impl with
    | none => pure { model := model, oracle := false, nontrivial := nt, note := "BuildTasks returned a task of an unknown kind" }
    | some got =>
      let kindsOk := Spec.C20.holdsTasks ifs d w (got.map (·.1))
      let wiredOk := got.all fun (t, fl) => fl == wiring w t
      pure { model := model, oracle := kindsOk && wiredOk, nontrivial := nt,
             note := if !kindsOk then
               s!"task list is not one task per advertising/monitoring interface in order, then http iff an address is set, then the watcher: want {tasksToks w (Spec.C20.wantTasks ifs d w)}"
             else if !wiredOk then
               "an interface task is not wired to the server's link watcher (its channel must be a subscription of the watcher iff there is one) or its terminate function is not the server's terminator"
             else "" }

/-! ### Serve:
  `sv n (exit exitAt onCancelErr slow readyAt)* sig sigAt gate
     | (rn | re k | rr) (x | c0 | c1)* (a0 | a1) tr len event*`
  events: `st k` `rd k` `fl k` `en k` `sg s` `ns` `oc k b` `rt k e` `ar` `sr e` (e = -1: nil) -/

def pSig : P (Option Sig) := do
  let n ← P.nat
  match n with
  | 0 => pure none
  | 1 => pure (some .hup)
  | 2 => pure (some .term)
  | 3 => pure (some .int)
  | _ => failure

def pTaskB : P TaskB := do
  let ex ← P.nat
  let at_ ← P.nat
  let oe ← P.bool
  let slow ← P.nat
  let r ← P.int
  pure { exit := ex, exitAt := at_, onCancelErr := oe, slow := slow,
         readyAt := if r < 0 then none else some r.toNat }

def pScenario : P (Scenario × Bool) := do
  let ts ← P.list pTaskB
  let s ← pSig
  let at_ ← P.nat
  let gate ← P.bool
  pure ({ tasks := ts, sig := s.map fun x => (x, at_) }, gate)

def pErrOpt : P (Option Nat) := do
  let i ← P.int
  pure (if i < 0 then none else some i.toNat)

def pEvent : P Event := do
  let t ← P.tok
  match t with
  | "st" => do let k ← P.nat; pure (.start k)
  | "rd" => do let k ← P.nat; pure (.ready k)
  | "fl" => do let k ← P.nat; pure (.fail k)
  | "en" => do let k ← P.nat; pure (.earlyNil k)
  | "sg" => do
    let s ← pSig
    match s with
    | some s => pure (.signal s)
    | none => failure
  | "ns" => pure .notifyStopping
  | "oc" => do let k ← P.nat; let b ← P.bool; pure (.observeCancel k b)
  | "rt" => do let k ← P.nat; let e ← P.bool; pure (.ret k e)
  | "ar" => pure .announceReady
  | "sr" => do let e ← pErrOpt; pure (.serveReturn e)
  | _ => failure

def sigTok : Sig → String
  | .hup => "1"
  | .term => "2"
  | .int => "3"

def eventTok : Event → String
  | .start k => s!"st {k}"
  | .ready k => s!"rd {k}"
  | .fail k => s!"fl {k}"
  | .earlyNil k => s!"en {k}"
  | .signal s => s!"sg {sigTok s}"
  | .notifyStopping => "ns"
  | .observeCancel k b => s!"oc {k} {boolTok b}"
  | .ret k e => s!"rt {k} {boolTok e}"
  | .announceReady => "ar"
  | .serveReturn none => "sr -1"
  | .serveReturn (some k) => s!"sr {k}"
  | .recvSig => "tau-recv"
  | .setTerm => "tau-set"
  | .cancel => "tau-cancel"
  | .sigReturn => "tau-sigret"

def outcomeToks (o : Outcome) : String :=
  (match o.ret with
   | none => "rr"
   | some none => "rn"
   | some (some k) => s!"re {k}") ++
  String.join (o.tasks.map fun t =>
    match t.saw with
    | none => " x"
    | some b => s!" c{boolTok b}") ++
  s!" a{boolTok o.readyAnnounced}"

/-- everything up to the `tr` marker, and the observed trace after it -/
def splitImpl : List String → List String → Option (List String × List String)
  | _, [] => none
  | acc, "tr" :: rest => some (acc.reverse, rest)
  | acc, t :: rest => splitImpl (t :: acc) rest

def sv (c impl : List String) : Option Verdict := do
  let (sc, _gate) ← P.run pScenario c
  let n := sc.tasks.length
  let pred := outcomeToks (outcome sc)
  let nt := n ≥ 2 && (sc.sig.isSome || sc.tasks.any (·.exit == 1))
  match impl with
  | "panic" :: _ =>
    pure { model := pred, oracle := false, nontrivial := nt, note := "Serve or a task panicked" }
  | _ =>
    let (_, trToks) ← splitImpl [] impl
    let obs ← P.run (P.list pEvent) trToks
    let acc :=
      if !obs.all Event.observable then "rejected@internal"
      else match rejectedAt [init n] 0 obs with
        | none => s!"{obs.length}" ++ String.join (obs.map fun e => " " ++ eventTok e)
        | some k => s!"rejected@{k}"
    let ok := Spec.C20.holds n obs
    let note :=
      if ok then "" else
      match Spec.C20.firstBad n [] obs with
      | some i =>
        (match obs[i]? with
         | some (.serveReturn _) => s!"event {i}: Serve returned before every task had returned, or did not return the first error recorded"
         | some (.observeCancel k b) => s!"event {i}: task {k} saw the cancellation with terminate() = {b}: without a cause, or before the terminator was set from the signal (true unless SIGHUP)"
         | some .announceReady => s!"event {i}: readiness announced before every task reported ready"
         | _ => s!"event {i} breaks its clause")
      | none => "a task failed or a signal was delivered but Serve did not return"
    pure { model := pred ++ " tr " ++ acc, oracle := ok, nontrivial := nt, note := note }

end Driver.C20
