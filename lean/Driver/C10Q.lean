import Corerad.Model.GroupQ
import Corerad.Gen.Advertise
import Corerad.Gen.Listener
namespace Driver.C10Q
open Corerad

/-! ### the request channel (Model/GroupQ.lean) -/

namespace Q
open Corerad.Model.GroupQ

def cbw := Gen.Listener.cancelBeforeWait
def guarded := Gen.Advertise.ipcSendsGuarded
def cap := Gen.Advertise.ipCCap

def saturate : Nat → St → St
  | 0, x => x
  | n+1, x =>
    match internal.findSome? (fun e => step cbw guarded cap x e) with
    | some y => saturate n y
    | none => x

def tryStep (x : St) (e : Ev) : St := (step cbw guarded cap x e).getD x

/-- a burst of `n` solicitations while the scheduler is stopping: each is read by the listener
    and its request buffered while there is room; the first that finds the channel full leaves
    the listener inside its send (no further message is read) -/
def burst : Nat → St → St
  | 0, x => x
  | n+1, x => burst n (tryStep (tryStep x .solicit) .lSend)

end Q

/-- `grpq unicastOnly sys tf lat n | outcome dt oldUse final delivered stale` -/
def grpq (c impl : List String) : Option Verdict := do
  let (uo, sys, _tf, lat, n) ← P.run (do
    let u ← P.bool; let s ← P.bool; let t ← P.int; let l ← P.int; let n ← P.nat; pure (u, s, t, l, n)) c
  let (outcome, dt, oldUse, final, _delivered, stale) ← P.run (do
    let o ← P.tok; let d ← P.int; let u ← P.nat; let f ← P.tok; let k ← P.nat; let st ← P.nat; pure (o, d, u, f, k, st)) impl
  let s0 := Corerad.Model.GroupQ.init uo
  let s1 := Q.tryStep s0 .writeErrInflight
  let s2 := Q.burst n s1
  let s3 := Q.saturate 64 (Q.tryStep s2 .inflightDone)
  let expected := if sys then "redial" else "error"
  let modelOutcome := if s3.ret then expected else "running"
  -- the failing transmission follows its solicitation (600 ms after the fault) within
  -- MAX_RA_DELAY_TIME, the transmission in flight started within MAX_RA_DELAY_TIME of the fault
  let bound : Int := 600000000 + 500000000 + lat + 10000000
  let ok := outcome == expected && decide (0 ≤ dt) && decide (dt ≤ bound) && oldUse == 0 && final == "nil" && stale == 0
  let note := if outcome == "running" then
      "half-alive: a transmission failed while another was in flight; the task neither returned nor re-dialled after the latter completed (a producer is blocked sending on the request channel)"
    else if outcome != expected then s!"the fault must lead to {expected}, observed {outcome}"
    else if oldUse != 0 then "the old connection was still used after the task was torn down"
    else if stale != 0 then s!"{stale} unicast RA(s) on the re-established connection answer solicitations received before the interface was re-initialised (they were due, if at all, within MAX_RA_DELAY_TIME on the previous connection)"
    else if final != "nil" then "the task did not stop cleanly afterwards"
    else if !decide (dt ≤ bound) then "teardown was not prompt" else ""
  pure { model := modelOutcome, oracle := ok, nontrivial := true, note := note,
         agreeOverride := some (outcome == modelOutcome) }

end Driver.C10Q
