import Corerad.Model.Delay
import Corerad.Spec.C05
namespace Driver.C05
open Corerad Corerad.Model

def joinInts (xs : List Int) : String := " ".intercalate (xs.map toString)

/-- `md i min max draw | d` -/
def md (c impl : List String) : Option Verdict := do
  let (i, min, max, draw) ← P.run (do
    let i ← P.nat; let mn ← P.int; let mx ← P.int; let d ← P.int; pure (i, mn, mx, d)) c
  let d := multicastDelay draw i min max
  let nt0 := decide (min < max) || (decide (i < 4) && decide (roundDur max second > 14 * second))
  -- "Choosing the wait never fails": a panic of the implementation is an oracle failure
  if impl == ["panic"] then
    return { model := toString d, oracle := false, nontrivial := nt0,
             note := "choosing the wait panicked (the property: choosing the wait never fails for any accepted min/max pair)" }
  let implD ← P.run P.int impl
  let nt := decide (min < max) || (decide (i < 4) && decide (roundDur max second > 14 * second))
  pure { model := toString d, oracle := Spec.C05.holds i min max implD, nontrivial := nt }

def waits (draws : List Int) (min max : Dur) : Nat → List Dur
  | i => match draws with
    | [] => []
    | d :: ds => multicastDelay d i min max :: waits ds min max (i+1)

/-- `mloop min max n draws… | waits…` -/
def mloop (c impl : List String) : Option Verdict := do
  let (min, max, draws) ← P.run (do
    let mn ← P.int; let mx ← P.int; let ds ← P.list P.int; pure (mn, mx, ds)) c
  let ws := waits draws min max 0
  let implW ← P.run (P.list P.int) impl
  pure { model := s!"{ws.length} {joinInts ws}".trimAsciiEnd.toString,
         oracle := Spec.C05.holdsSeq min max 0 implW && implW.length == draws.length,
         nontrivial := decide (min < max) && decide (draws.length ≥ 4) }

end Driver.C05
