import Corerad.Model.Delay
import Corerad.Spec.C05
namespace Driver.C05
open Corerad Corerad.Model

def joinInts (xs : List Int) : String := " ".intercalate (xs.map toString)

/-- `md i min max draw | d` -/
def md (c impl : List String) : Option Verdict := do
  let (i, min, max, draw) ← P.run (do
    let i ← P.nat; let mn ← P.int; let mx ← P.int; let d ← P.int; pure (i, mn, mx, d)) c
  let d := multicastDelay draw i min max
  let nt0 := decide (min < max) || (decide (i < 4) && decide (roundDur max second > 14 * second))
  -- "Choosing the wait never fails": a panic of the implementation is an oracle failure
  if impl == ["panic"] then
    return { model := toString d, oracle := false, nontrivial := nt0,
             note := "choosing the wait panicked (the property: choosing the wait never fails for any accepted min/max pair)" }
  let implD ← P.run P.int impl
  let nt := decide (min < max) || (decide (i < 4) && decide (roundDur max second > 14 * second))
  pure { model := toString d, oracle := Spec.C05.holds i min max implD, nontrivial := nt }

def waits (draws : List Int) (min max : Dur) : Nat → List Dur
  | i => match draws with
    | [] => []
    | d :: ds => multicastDelay d i min max :: waits ds min max (i+1)

/-- `mloop min max n draws… | waits…` -/
def mloop (c impl : List String) : Option Verdict := do
  let (min, max, draws) ← P.run (do
    let mn ← P.int; let mx ← P.int; let ds ← P.list P.int; pure (mn, mx, ds)) c
  let ws := waits draws min max 0
  let implW ← P.run (P.list P.int) impl
  pure { model := s!"{ws.length} {joinInts ws}".trimAsciiEnd.toString,
         oracle := Spec.C05.holdsSeq min max 0 implW && implW.length == draws.length,
         nontrivial := decide (min < max) && decide (draws.length ≥ 4) }

/-- `mstall idx stall min max n draws… | gaps…`: the consumer is busy for `stall` before it takes the
    request that ends wait number `idx`: that gap is `max wait stall`, every other gap is the wait the
    loop chose — in particular the waits after the stall are full waits again -/
def mstall (c impl : List String) : Option Verdict := do
  let (idx, stall, min, max, draws) ← P.run (do
    let i ← P.nat; let s ← P.int
    let mn ← P.int; let mx ← P.int; let ds ← P.list P.int; pure (i, s, mn, mx, ds)) c
  let ws := waits draws min max 0
  let want := ws.zipIdx.map fun (w, k) => if k == idx then (if w < stall then stall else w) else w
  let implW ← P.run (P.list P.int) impl
  -- the oracle: every gap except the stalled one is within the property's bounds
  let others := (implW.zipIdx.filter fun (_, k) => k != idx).map (·.1)
  let othersWant := (want.zipIdx.filter fun (_, k) => k != idx).map (·.1)
  pure { model := s!"{want.length} {joinInts want}".trimAsciiEnd.toString,
         oracle := implW.length == draws.length && others == othersWant &&
           (implW.zipIdx.all fun (g, k) => k != idx || decide (g ≥ (if min < stall then min else stall))),
         nontrivial := decide (draws.length ≥ 4),
         note := if others != othersWant then "a wait chosen after the consumer had been slow is not a full [Min, Max] wait (the loop tries to catch up)" else "" }

/-- `mfw ntog {at} nsol {at host} min max n draws… | n gaps…`: the loop inside a whole running advertiser
    whose forwarding state is toggled and which answers unicast solicitations meanwhile: neither is a
    (re)initialisation, so the gaps between the unsolicited multicast RAs are the waits of one run -/
def mfw (c impl : List String) : Option Verdict := do
  let (min, max, draws) ← P.run (do
    let _ ← P.list P.int
    let _ ← P.list (do let a ← P.int; let h ← P.nat; pure (a, h))
    let mn ← P.int; let mx ← P.int; let ds ← P.list P.int; pure (mn, mx, ds)) c
  let ws := waits draws min max 0
  let implW ← P.run (P.list P.int) impl
  pure { model := s!"{ws.length} {joinInts ws}".trimAsciiEnd.toString,
         oracle := Spec.C05.holdsSeq min max 0 implW && implW.length == draws.length,
         nontrivial := decide (min < max) && decide (draws.length ≥ 4),
         note := if implW.length != draws.length then "the advertiser stopped requesting unsolicited multicast RAs"
                 else if !(Spec.C05.holdsSeq min max 0 implW) then "a gap between consecutive unsolicited multicast RAs of one run is outside the property's bounds (initial cap only for the first three waits; [Min, Max] afterwards)" else "" }

end Driver.C05
