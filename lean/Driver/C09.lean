import Corerad.Spec.C09
namespace Driver.C09
open Corerad Corerad.Model

def pRead : P Read := do
  let t ← P.tok
  match t with
  | "M" => do let k ← P.nat; let hop ← P.nat; let h ← P.nat; pure (.msg k hop h)
  | "T" => pure .timeout
  | "E" => pure .err
  | _ => failure

def resultTok : ListenResult → String
  | .running => "running" | .retriesExhausted => "exhausted" | .readError => "readerr"

def outToks (o : ListenOut) : String :=
  s!"{resultTok o.result} {o.delivered.length}" ++ String.join (o.delivered.map fun (k, h) => s!" {k} {h}") ++
  s!" {o.invalid.length}" ++ String.join (o.invalid.map fun k => s!" {k}") ++
  s!" {o.waits.length}" ++ String.join (o.waits.map fun w => s!" {w}")

def pOut : P ListenOut := do
  let r ← P.tok
  let res : ListenResult ← (match r with
    | "running" => pure .running | "exhausted" => pure .retriesExhausted | "readerr" => pure .readError
    | _ => failure)
  let d ← P.list (do let k ← P.nat; let h ← P.nat; pure (k, h))
  let inv ← P.list P.nat
  let w ← P.list P.int
  pure { delivered := d, invalid := inv, waits := w, result := res }

/-- `lst mode n read* | result nd (kind host)* ni kind* nw wait*` — the real Listen over a script.
    The oracle (`Spec.C09.holds`) judges the implementation's observation on every script —
    timeouts and read errors included — from the script alone; the note names the clause that
    rejected it (`Spec.C09.failedClause`). -/
def lst (c impl : List String) : Option Verdict := do
  let (_mode, script) ← P.run (do let m ← P.nat; let s ← P.list pRead; pure (m, s)) c
  let m := listenSrc script
  if impl.head? == some "stuck" || impl.head? == some "cancel-error" then
    return { model := outToks m, oracle := false, nontrivial := true,
             note := "the listener neither kept reading nor returned (stuck), or failed on cancellation" }
  let o ← P.run pOut impl
  let nt := script.any (fun r => match r with | .msg _ hop _ => hop != 255 | _ => false) &&
            !(Spec.C09.validOf script).isEmpty
  pure { model := outToks m, oracle := Spec.C09.holds script o, nontrivial := nt,
         note := Spec.C09.failedClause script o }

end Driver.C09
