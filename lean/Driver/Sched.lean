import Corerad.Model.Scheduler
import Corerad.Model.Advertiser
import Corerad.Model.Delay
import Corerad.Spec.C06
import Corerad.Spec.C07
namespace Driver.Sched
open Corerad Corerad.Model

def insertSend (x : Send) : List Send → List Send
  | [] => [x]
  | y :: ys =>
    if x.t < y.t || (x.t == y.t && (x.mc && !y.mc || (x.mc == y.mc && x.host ≤ y.host))) then x :: y :: ys
    else y :: insertSend x ys

def sortSends (l : List Send) : List Send := l.foldr insertSend []

def sendToks (l : List Send) : String :=
  String.join (l.map fun s => s!" {s.t} {boolTok s.mc} {s.host}")

/-- Lost wake-up in mdlayher/schedgroup (K-2): `Schedule` signals the monitor goroutine with a
    non-blocking send; when the monitor is not waiting at that very moment the new timer is only
    armed at the monitor's next wake-up (the next `Schedule` call or the next timer that fires).
    `lateOk model impl wake`: per destination the same transmissions in the same order, each
    on time or late at one of the wake-up instants. -/
def lateOkDst (wake : List Time) : List Time → List Time → Bool
  | [], [] => true
  | t :: ts, t' :: ts' => (t' == t || (decide (t < t') && wake.contains t')) && lateOkDst wake ts ts'
  | _, _ => false

def lateOk (model impl : List Send) (wake : List Time) : Bool :=
  let dsts := (model ++ impl).map (fun s => (s.mc, s.host)) |>.eraseDups
  dsts.all fun d =>
    lateOkDst wake ((model.filter fun s => (s.mc, s.host) == d).map (·.t)) ((impl.filter fun s => (s.mc, s.host) == d).map (·.t))

/-- as `lateOk`, but either side may have lost trailing transmissions per destination (a
    scripted transmit failure ends the run at a point that depends on the call order) -/
def lateOkDstPrefix (wake : List Time) : List Time → List Time → Bool
  | [], _ => true
  | _, [] => true
  | t :: ts, t' :: ts' => (t' == t || (decide (t < t') && wake.contains t')) && lateOkDstPrefix wake ts ts'

def lateOkPrefix (model impl : List Send) (wake : List Time) : Bool :=
  let dsts := (model ++ impl).map (fun s => (s.mc, s.host)) |>.eraseDups
  dsts.all fun d =>
    lateOkDstPrefix wake ((model.filter fun s => (s.mc, s.host) == d).map (·.t)) ((impl.filter fun s => (s.mc, s.host) == d).map (·.t))

/-- the instants at which the scheduler calls `Schedule` / `Delay` (every unicast request; a multicast
    request unless it is dropped or coalesced into a pending transmission) -/
def schedCalls (minDelay : Dur) (unicastOnly : Bool) : SchedState → List (Time × Req) → List Time
  | _, [] => []
  | s, (t, r) :: rest =>
    let (s', o) := schedStep minDelay unicastOnly s t r 0
    match o with
    | some _ => t :: schedCalls minDelay unicastOnly s' rest
    | none => schedCalls minDelay unicastOnly s' rest

/-- K-2, second face: the monitor goroutine was not waiting when `Schedule` signalled it — possible
    only when the call coincides with another wake-up of the monitor (its start, a timer that fires or
    another call at the same virtual instant) — and nothing wakes it afterwards (no later call, no
    other timer): the task due at `t` is never started before the run is stopped. -/
def lostable (calls fires : List Time) (stop t : Time) : Bool :=
  calls.any fun e => decide (e ≤ t) &&
    (e == 0 || fires.contains e || decide ((calls.filter (· == e)).length ≥ 2)) &&
    !((calls ++ fires).any fun w => decide (e < w) && decide (w < stop) && w != t)

/-- as `lateOkDst`, and the last transmission to a destination may be missing when `lost` allows -/
def lateOrLostDst (wake : List Time) (lost : Time → Bool) : List Time → List Time → Bool
  | [], [] => true
  | [t], [] => lost t
  | t :: ts, t' :: ts' => (t' == t || (decide (t < t') && wake.contains t')) && lateOrLostDst wake lost ts ts'
  | _, _ => false

def lateOrLost (model impl : List Send) (wake calls : List Time) (stop : Time) : Bool :=
  let fires := model.map (·.t)
  let dsts := (model ++ impl).map (fun s => (s.mc, s.host)) |>.eraseDups
  dsts.all fun d =>
    lateOrLostDst wake (lostable calls fires stop)
      ((model.filter fun s => (s.mc, s.host) == d).map (·.t)) ((impl.filter fun s => (s.mc, s.host) == d).map (·.t))

def lostNote : String :=
  "class=schedgroup-lost-wakeup a scheduled transmission fired late, at the scheduler's next wake-up (lost wake-up in mdlayher/schedgroup.Schedule)"

structure SchCase where
  unicastOnly : Bool
  stop : Time
  evs : List (Time × Nat)
  draws : List Int

def pSchCase : P SchCase := do
  let uo ← P.bool; let stop ← P.int
  let evs ← P.list (do let t ← P.int; let h ← P.nat; pure (t, h))
  let draws ← P.list P.int
  -- requests at or after the stop instant are never handed to the scheduler
  pure { unicastOnly := uo, stop := stop, evs := evs.filter (fun e => decide (e.1 < stop)), draws := draws }

def toReq (e : Time × Nat) : Time × Req := (e.1, if e.2 == 0 then .mc else .uc e.2)

structure ImplSch where
  ok : Bool
  writes : List Send := []
  sentU : Nat := 0
  sentM : Nat := 0

def pImplSch : P ImplSch := do
  let st ← P.tok
  if st != "ok" then pure { ok := false }
  else
    let ws ← P.list (do let t ← P.int; let mc ← P.bool; let h ← P.nat; pure ({ t := t, mc := mc, host := h } : Send))
    let u ← P.nat; let m ← P.nat
    pure { ok := true, writes := ws, sentU := u, sentM := m }

def schModel (c : SchCase) : List Send :=
  sortSends ((schedule Gen.Advertise.minDelayBetweenRAs c.unicastOnly { next := 0 } (c.evs.map toReq) c.draws).filter (·.t < c.stop))

def schCommon (c : SchCase) : String :=
  let sends := schModel c
  s!"ok {sends.length}{sendToks sends} {(ucSends sends).length} {(mcSends sends).length}"

/-- `sch6 uo stop n (t host)* nd draws* | ok k (t mc host)* sentU sentM` — C06 on the scheduler -/
def sch6 (c impl : List String) : Option Verdict := do
  let cs ← P.run pSchCase c
  let i ← P.run pImplSch impl
  let triggers := (cs.evs.filter (·.2 == 0)).map (·.1)
  -- the scheduler starts right after the initial RA: instant 0 counts as a multicast transmission
  let ok := i.ok && (cs.unicastOnly && (mcSends i.writes).isEmpty ||
      !cs.unicastOnly && Spec.C06.holds cs.stop triggers (0 :: mcSends i.writes))
  let close := triggers.zip triggers.tail |>.any fun (a, b) => decide (b - a < 6 * second)
  let m := schModel cs
  let exact := i.ok && i.writes == m
  let calls := schedCalls Gen.Advertise.minDelayBetweenRAs cs.unicastOnly { next := 0 } (cs.evs.map toReq)
  let late := !exact && i.ok && lateOrLost m i.writes (cs.evs.map (·.1) ++ m.map (·.t)) calls cs.stop
  pure { model := schCommon cs, oracle := ok, nontrivial := close && !cs.unicastOnly,
         note := if late && !ok then lostNote else "",
         agreeOverride := if late then some true else none }

/-- same line, C07 oracle: unicast answers exactly once, unicast-only, counters -/
def sch7 (c impl : List String) : Option Verdict := do
  let cs ← P.run pSchCase c
  let i ← P.run pImplSch impl
  let rs := cs.evs.filter (·.2 != 0)
  let ok := i.ok && Spec.C07.unicastExactlyOnce cs.stop rs (ucSends i.writes) &&
    (!cs.unicastOnly || (mcSends i.writes).isEmpty) &&
    i.sentU == (ucSends i.writes).length && i.sentM == (mcSends i.writes).length
  let busy := rs.any fun r => cs.evs.any fun e => e != r && decide (r.1 ≤ e.1) && decide (e.1 < r.1 + 500 * ms)
  let m := schModel cs
  let exact := i.ok && i.writes == m
  let calls := schedCalls Gen.Advertise.minDelayBetweenRAs cs.unicastOnly { next := 0 } (cs.evs.map toReq)
  let late := !exact && i.ok && lateOrLost m i.writes (cs.evs.map (·.1) ++ m.map (·.t)) calls cs.stop
  pure { model := schCommon cs, oracle := ok, nontrivial := busy,
         note := if late && !ok then lostNote else "",
         agreeOverride := if late then some true else none }

end Driver.Sched

namespace Driver.Sched
open Corerad Corerad.Model

def pAdvCase : P AdvCase := do
  let mn ← P.int; let mx ← P.int; let uo ← P.bool; let stop ← P.int; let fw ← P.int
  let evs ← P.list (do
    let t ← P.int; let k ← P.nat; let h ← P.nat; let hop ← P.nat
    pure ({ t := t, kind := k, host := h, hop := hop } : AdvEvent))
  let md ← P.list P.int
  let ud ← P.list P.int
  -- messages at or after the stop instant are never delivered
  pure { min := mn, max := mx, unicastOnly := uo, stop := stop, failWrite := fw,
         evs := evs.filter (fun e => decide (e.t < stop)), mdraws := md, udraws := ud }

structure ImplAdv where
  status : String
  dead : Bool
  writes : List (Write × Int)     -- with the RA's router lifetime
  sentU : Nat
  sentM : Nat
  errT : Nat
  recv : List Nat
  invalid : List Nat

def pImplAdv : P ImplAdv := do
  let st ← P.tok; let dead ← P.bool
  let ws ← P.list (do
    let t ← P.int; let mc ← P.bool; let h ← P.nat; let f ← P.bool; let lt ← P.int
    pure (({ t := t, mc := mc, host := h, failed := f } : Write), lt))
  let u ← P.nat; let m ← P.nat; let e ← P.nat
  let recv ← P.listN P.nat 4
  let inv ← P.listN P.nat 4
  pure { status := st, dead := dead, writes := ws, sentU := u, sentM := m, errT := e, recv := recv, invalid := inv }

def advModelString (c : AdvCase) : String :=
  let ws := writes c
  let ft := failureTime c
  let status := if ft.isSome then "error" else "nil"
  let dead := match ft with
    | none => false
    | some tf => c.evs.any (·.t > tf)
  let evs := processed c
  let sentU := (ws.filter fun w => !w.mc && !w.failed).length
  let sentM := (ws.filter fun w => w.mc && !w.failed && !(w.t == 0 && !c.unicastOnly)).length
  -- the initial RA is sent by `send`, not `sendWorker`: neither counted nor (if it fails) an error sample
  let errT := (ws.filter fun w => w.failed && !(w.t == 0 && !c.unicastOnly)).length
  let recv := [0, 1, 2, 3].map fun k => countKind evs (fun e => e.hop == 255) k
  let inv := [0, 1, 2, 3].map fun k => countKind evs (fun e => e.hop != 255 || k ≥ 2) k
  s!"{status} {boolTok dead} {ws.length}" ++
    String.join (ws.map fun w => s!" {w.t} {boolTok w.mc} {w.host} {boolTok w.failed} 1800000000000") ++
    s!" {sentU} {sentM} {errT}" ++ String.join (recv.map fun n => s!" {n}") ++ String.join (inv.map fun n => s!" {n}")

/-- effective end of the run for the oracles: the stop instant or the failing transmission -/
def effStop (c : AdvCase) (i : ImplAdv) : Time :=
  match i.writes.find? (·.1.failed) with
  | some (w, _) => w.t
  | none => c.stop

/-- the run matches the model except for transmissions that fired late at a wake-up instant
    (no scripted failure involved; counters and status as predicted) -/
def advLate (c : AdvCase) (i : ImplAdv) : Bool :=
  let m := writes c
  let toSend := fun (w : Write) => ({ t := w.t, mc := w.mc, host := w.host } : Send)
  let implW := i.writes.map (·.1)
  let modelStatus := if (failureTime c).isSome then "error" else "nil"
  -- with a scripted failing transmission the n-th write (in call order) fails; lateness can change
  -- which transmission that is, so only the destinations/instants and the outcome are compared
  implW != m && i.status == modelStatus && (implW.filter (·.failed)).length == (m.filter (·.failed)).length &&
    (decide (c.failWrite < 0) && lateOrLost (m.map toSend) (implW.map toSend) ((allRequests c).map (·.1) ++ m.map (·.t))
        (schedCalls Gen.Advertise.minDelayBetweenRAs c.unicastOnly { next := 0 } (allRequests c)) c.stop ||
     decide (c.failWrite ≥ 0) && lateOkPrefix (m.map toSend) (implW.map toSend) ((allRequests c).map (·.1) ++ m.map (·.t) ++ implW.map (·.t)))

/-- `adv6 …` — C06 on a full advertiser run -/
def adv6 (c impl : List String) : Option Verdict := do
  let cs ← P.run pAdvCase c
  let i ← P.run pImplAdv impl
  let stop := effStop cs i
  let triggers := ((allRequests cs).filter fun r => r.2 == Req.mc).map (·.1)
  let mcW := (i.writes.filter fun w => w.1.mc && !w.1.failed).map (·.1.t)
  let ok := i.status != "hung" &&
    (if cs.unicastOnly then mcW.isEmpty else Spec.C06.holds stop (triggers.filter (· < stop)) mcW)
  let close := triggers.zip triggers.tail |>.any fun (a, b) => decide (b - a < 6 * second)
  let late := advLate cs i
  pure { model := advModelString cs, oracle := ok, nontrivial := close && !cs.unicastOnly,
         note := if late && !ok then lostNote else "",
         agreeOverride := if late then some true else none }

/-- `adv7 …` — C07 on a full advertiser run -/
def adv7 (c impl : List String) : Option Verdict := do
  let cs ← P.run pAdvCase c
  let i ← P.run pImplAdv impl
  let stop := effStop cs i
  let delivered := cs.evs.filter fun e => decide (e.t ≤ stop)
  let rs := (delivered.filter fun e => classify e == .solicit && e.host != 0).map fun e => (e.t, e.host)
  let ucW := (i.writes.filter fun w => !w.1.mc && !w.1.failed).map fun w => (w.1.t, w.1.host)
  let mcW := i.writes.filter fun w => w.1.mc
  let lifetimesOk := i.writes.all fun w => w.2 == 1800 * second
  let initial := if cs.unicastOnly then 0 else 1
  let recvWant := [0, 1, 2, 3].map fun k => countKind delivered (fun e => e.hop == 255) k
  let invWant := [0, 1, 2, 3].map fun k => countKind delivered (fun e => e.hop != 255 || k ≥ 2) k
  let failedNonInitial := (i.writes.filter fun w => w.1.failed && !(w.1.t == 0 && !cs.unicastOnly)).length
  let ok := i.status != "hung" &&
    Spec.C07.unicastExactlyOnce stop rs ucW &&
    (!cs.unicastOnly || mcW.isEmpty) && lifetimesOk &&
    i.sentU == ucW.length &&
    i.sentM + initial == (mcW.filter fun w => !w.1.failed).length + (if (mcW.any fun w => w.1.failed && w.1.t == 0) then 1 else 0) &&
    i.errT == failedNonInitial &&
    (i.dead || (i.recv == recvWant && i.invalid == invWant))
  let busy := rs.any fun r => cs.evs.any fun e => (e.t, e.host) != r && decide (r.1 ≤ e.t) && decide (e.t < r.1 + 500 * ms)
  let late := advLate cs i
  pure { model := advModelString cs, oracle := ok, nontrivial := busy,
         note := if late && !ok then lostNote else "",
         agreeOverride := if late then some true else none }

/-- `advF …` — C10 on a full advertiser run with a failing transmission: the C07 oracle, and the
    run must end as the failure demands (status `error`: Run returned the error, or — a transient
    system call error — the interface was torn down and re-dialled) -/
def advF (c impl : List String) : Option Verdict := do
  let v ← adv7 c impl
  let cs ← P.run pAdvCase c
  let i ← P.run pImplAdv impl
  let want := if (failureTime cs).isSome then "error" else "nil"
  let statusOk := i.status == want
  pure { v with oracle := v.oracle && statusOk, nontrivial := (failureTime cs).isSome,
                note := if !statusOk then s!"a transmission failed but the task neither ended with the error nor was re-established (status {i.status}, expected {want}): the task lingers half-alive" else v.note }

/-- `rein tf window | redialled n t…`: the multicast RAs on the connection of a re-initialised
    interface are those of a fresh start (the model run from its own instant 0, no events) -/
def rein (c impl : List String) : Option Verdict := do
  let (_tf, window) ← P.run (do let a ← P.int; let b ← P.int; pure (a, b)) c
  let (redialled, ts) ← P.run (do let r ← P.bool; let l ← P.list P.int; pure (r, l)) impl
  let fresh : AdvCase := { min := 200 * second, max := 600 * second, unicastOnly := false, stop := window,
                           failWrite := -1, evs := [], mdraws := List.replicate 8 0, udraws := [] }
  let want := ((dueSends fresh).filter (·.mc)).map (·.t)
  let model := s!"1 {want.length}" ++ String.join (want.map fun t => s!" {t}")
  let spaced := (ts.zip ts.tail).all fun (a, b) => decide (b - a ≥ Gen.Advertise.minDelayBetweenRAs)
  let ok := redialled && spaced && ts == want
  -- K-2 at start-up: the loop's first request is scheduled at the instant the scheduler's monitor
  -- goroutine starts; when that wake-up is lost the RA due MIN_DELAY_BETWEEN_RAS later is only
  -- transmitted at the monitor's next wake-up (the loop's next request), or not before the window ends
  let calls := want.filter (· != Gen.Advertise.minDelayBetweenRAs)
  let late := redialled && ts != want && lateOrLostDst want (lostable calls want window) want ts
  pure { model := model, oracle := ok, nontrivial := true,
         agreeOverride := if late then some true else none,
         note := if late then lostNote else if !redialled then "a link-state change did not re-establish the interface"
           else if !spaced then "multicast RAs of the re-initialised interface are less than MIN_DELAY_BETWEEN_RAS apart"
           else if ts != want then "the re-initialised interface does not advertise like a freshly initialised one (initial RA at once, the next MIN_DELAY_BETWEEN_RAS later)"
           else "" }

/-- `rein5 …` — the same scenario under C05: a link-state change is not a stop, so the re-established
    interface requests unsolicited multicast RAs again (as many transmissions in the window as a fresh
    start has; their exact instants are C06's concern, and a transmission that schedgroup fires late
    or not at all — K-2 — is not the loop's doing) -/
def rein5 (c impl : List String) : Option Verdict := do
  let v ← rein c impl
  let late := v.agreeOverride == some true
  pure { v with oracle := v.oracle || late, note := if late then "" else v.note }

/-- `reino tf window outage | redialled n t…`: as `rein`, after an outage during which every dial found
    the link not ready; the oracle of `rein5` (the instants of a fresh start, K-2 lateness aside) -/
def reino (c impl : List String) : Option Verdict := do
  let (tf, window, _outage) ← P.run (do let a ← P.int; let b ← P.int; let o ← P.int; pure (a, b, o)) c
  rein5 [toString tf, toString window] impl

/-- `reinlla tf nd (idx mac)* | nconn lla*`: the interface is re-established `nd - 1` times inside
    one Run (link-state changes); dial `k` finds the interface with index `idx k` and hardware
    address 02:00:00:00:00:`mac k` (`0`: none).  The first RA on every connection must carry the
    source link-layer address of the interface AS DIALLED FOR THAT CONNECTION (C01: the hardware
    address is system state, read at every (re)initialisation), and none when there is none. -/
def reinlla (c impl : List String) : Option Verdict := do
  let (_tf, dials) ← P.run (do
    let a ← P.int
    let l ← P.list (do let i ← P.nat; let m ← P.nat; pure (i, m))
    pure (a, l)) c
  let got ← P.run (P.list P.nat) impl
  let want := dials.map (·.2)
  let model := s!"{want.length}" ++ String.join (want.map fun m => s!" {m}")
  pure { model := model, oracle := got == want,
         nontrivial := decide (dials.length ≥ 2) && (dials.map (·.2)).eraseDups.length ≥ 2,
         note := if got.length != want.length then "the interface was not re-established once per link-state change"
           else if got != want then "an RA of a re-established interface carries a source link-layer address other than the interface's hardware address at that (re)initialisation (stale plugin state)"
           else "" }

/-- `reinidx tf nd (idx mac)* | nconn idx*`: the same runs; a plugin that binds its source of system
    state to the interface it is prepared for (as the `::/64`, `::/0` and `::` wildcards bind their
    rtnetlink dumps to `ifi.Index`) must have been prepared for the interface found at THAT
    (re)initialisation: the first RA on every connection shows the index of that dial -/
def reinidx (c impl : List String) : Option Verdict := do
  let (_tf, dials) ← P.run (do
    let a ← P.int
    let l ← P.list (do let i ← P.nat; let m ← P.nat; pure (i, m))
    pure (a, l)) c
  let got ← P.run (P.list P.nat) impl
  let want := dials.map (·.1)
  let model := s!"{want.length}" ++ String.join (want.map fun m => s!" {m}")
  pure { model := model, oracle := got == want,
         nontrivial := decide (dials.length ≥ 2) && (dials.map (·.1)).eraseDups.length ≥ 2,
         note := if got.length != want.length then "the interface was not re-established once per link-state change"
           else if got != want then "a plugin was not prepared for the interface found at a re-initialisation: its source of system state is still bound to the interface index of an earlier incarnation"
           else "" }

/-- `reinrs tf k | dials answeredFirst answeredLast`: a solicitation after `k` re-initialisations inside
    one Run is answered exactly once on the current connection, like one in the first incarnation (C07) -/
def reinrs (c impl : List String) : Option Verdict := do
  let (_tf, k) ← P.run (do let a ← P.int; let k ← P.nat; pure (a, k)) c
  let (dials, first, last) ← P.run (do let d ← P.nat; let f ← P.int; let l ← P.int; pure (d, f, l)) impl
  let ok := dials == k + 1 && first == 1 && last == 1
  pure { model := s!"{k + 1} 1 1", oracle := ok, nontrivial := true,
         note := if dials != k + 1 then "the interface was not re-established once per link-state change"
           else if first != 1 then "a valid solicitation in the first incarnation was not answered exactly once"
           else if last != 1 then "a valid solicitation after a re-initialisation was not answered exactly once (something of an earlier incarnation swallows or repeats the scheduled RAs of the new one)"
           else "" }

/-- `nsf kind | alive invalid answered`: a message of a type the advertiser ignores arrives while the
    interface's state cannot be read: counted invalid, ignored, the advertiser keeps serving (C09) -/
def nsf (c impl : List String) : Option Verdict := do
  let _kind ← P.run P.nat c
  let (alive, inv, ans) ← P.run (do let a ← P.bool; let i ← P.nat; let n ← P.nat; pure (a, i, n)) impl
  let ok := alive && inv == 1 && ans == 1
  pure { model := "1 1 1", oracle := ok, nontrivial := true,
         note := if !alive then "a message of a type the advertiser ignores ended the advertiser (it needs no RA to be built, so an unreadable interface state cannot matter to it)"
           else if inv != 1 then "the message was not counted invalid exactly once"
           else if ans != 1 then "a valid solicitation after the ignored message was not answered"
           else "" }

/-- `mwr lat at | answered`: a solicitation from `::` arrives while a scheduled multicast RA is inside
    its (slow) transmission: that RA left before the solicitation arrived, so another multicast RA must
    begin within MIN_DELAY_BETWEEN_RAS of it (C06's second clause; C07: the solicitation becomes a request) -/
def mwr (_c impl : List String) : Option Verdict :=
  pure { model := "1", oracle := impl == ["1"], nontrivial := true,
         note := if impl == ["1"] then "" else "a solicitation from the unspecified address that arrived while a multicast RA was being transmitted was not answered by a multicast RA begun within MIN_DELAY_BETWEEN_RAS of it" }

/-- `bfw lat | lifetime`: forwarding is switched off while one solicited RA is inside its transmission;
    the answer to a solicitation that arrives afterwards carries router lifetime 0 (C04) -/
def bfw (_c impl : List String) : Option Verdict :=
  pure { model := "0", oracle := impl == ["0"], nontrivial := true,
         note := if impl == ["0"] then "" else "an RA solicited after forwarding was switched off does not carry router lifetime 0 (it was not built from the state of its own moment), or was not sent" }

/-- `flap monitor tf k | dials oldUse served`: the link drops at `tf` and again during each of the
    next `k` dials (the notification is queued before the new incarnation watches the channel).
    Every link-state change tears the task down and the interface is re-established (C10):
    `k + 2` connections, the last one serving, the earlier ones no longer used. -/
def flap (c impl : List String) : Option Verdict := do
  let (_mon, _tf, k) ← P.run (do let m ← P.bool; let t ← P.int; let k ← P.nat; pure (m, t, k)) c
  let (dials, oldUse, served) ← P.run (do let d ← P.nat; let o ← P.nat; let s ← P.bool; pure (d, o, s)) impl
  let model := s!"{k + 2} 0 1"
  let ok := dials == k + 2 && oldUse == 0 && served
  pure { model := model, oracle := ok, nontrivial := decide (k ≥ 1),
         note := if dials < k + 2 then "a link-state change notified while the interface was being re-established did not tear the new incarnation down (the task keeps serving on a connection opened before the link changed)"
           else if dials > k + 2 then "more re-establishments than link-state changes"
           else if oldUse != 0 then "a connection of a torn-down incarnation is still read from"
           else if !served then "the re-established interface is not serving"
           else "" }

/-- `tfl n lat | outcome errors sentUnicast`: `n` answers in flight together, all failing: every
    failed transmission is counted once, none is counted as sent, the task ends with an error -/
def tfl (c impl : List String) : Option Verdict := do
  let (n, _lat) ← P.run (do let a ← P.nat; let b ← P.int; pure (a, b)) c
  let model := s!"error {n} 0"
  let got := " ".intercalate impl
  pure { model := model, oracle := got == model, nontrivial := decide (n ≥ 2),
         note := if got == model then "" else
           "transmissions failing while in flight together: the transmit-error counter must equal the number of failed transmissions, none may be counted as sent, and the task must end with the error" }

end Driver.Sched
