import Corerad.Spec.C08
import Driver.Sched
namespace Driver.C08
open Corerad Corerad.Model

structure Ev where
  kind : String      -- B E C R
  t : Time
  idx : Nat := 0
  mc : Bool := false
  host : Nat := 0
  lifetime : Int := 0
  same : Bool := true
  failed : Bool := false
deriving Repr, Inhabited, DecidableEq

/-- canonical order of events at one instant: completions of transmissions begun earlier,
    then the cancellation, then begins, then completions of zero-latency transmissions begun at
    this very instant, then `Run` returning.  `zero` marks an `E` whose `B` is at the same instant. -/
def rank (e : Ev) : Nat :=
  if e.kind == "E" then (if e.same then 0 else 3) else if e.kind == "C" then 1 else if e.kind == "B" then 2 else 4

def evLe (a b : Ev) : Bool :=
  a.t < b.t || (a.t == b.t && (rank a < rank b || (rank a == rank b && a.idx ≤ b.idx)))

/-- for `E` events reuse the `same` field: `true` iff the transmission began at an earlier instant -/
def markEnds (evs : List Ev) : List Ev :=
  evs.map fun e =>
    if e.kind == "E" then
      let bt := ((evs.find? fun b => b.kind == "B" && b.idx == e.idx).map (·.t)).getD e.t
      { e with same := decide (bt < e.t) }
    else e

def evToks (e : Ev) : String :=
  if e.kind == "B" then s!" B {e.t} {e.idx} {boolTok e.mc} {e.host} {e.lifetime} {boolTok e.same}"
  else if e.kind == "E" then s!" E {e.t} {e.idx} {boolTok e.failed}"
  else s!" {e.kind} {e.t}"

def pEv : P Ev := do
  let k ← P.tok
  let t ← P.int
  if k == "B" then
    let idx ← P.nat; let mc ← P.bool; let h ← P.nat; let lt ← P.int; let same ← P.bool
    pure { kind := k, t := t, idx := idx, mc := mc, host := h, lifetime := lt, same := same }
  else if k == "E" then
    let idx ← P.nat; let f ← P.bool
    pure { kind := k, t := t, idx := idx, failed := f }
  else pure { kind := k, t := t }

structure ShutCase where
  terminate : Bool
  tc : Time
  failIdx : Int
  /-- solicitations handed over at the stop instant itself: each may or may not be consumed by
      the scheduler before it sees the cancellation (its answer is never due before the stop) -/
  atStop : Nat
  lat : List Dur
  adv : AdvCase

def pCase : P ShutCase := do
  let term ← P.bool; let tc ← P.int; let fi ← P.int; let atStop ← P.nat
  -- forwarding switched off right before the stop: immaterial to the prediction (the final RA has
  -- lifetime 0 in any case, and is owed to the hosts that were told a non-zero lifetime before)
  let _fwOff ← P.bool
  let lat ← P.list P.int
  let adv ← Driver.Sched.pAdvCase
  pure { terminate := term, tc := tc, failIdx := fi, atStop := atStop, lat := lat, adv := adv }

def latOf (lat : List Dur) (n : Nat) : Dur := lat.getD n (lat.getLast?.getD 0)

/-- the predicted timeline of the run -/
def timeline (c : ShutCase) : List Ev :=
  let sends := dueSends c.adv                       -- begin < tc, time order, initial RA first
  let ws := sends.zipIdx.map fun (s, k) =>
    (k, s, s.t + latOf c.lat k, decide ((k : Int) = c.failIdx))
  let begins := ws.map fun (k, s, _, _) => ({ kind := "B", t := s.t, idx := k, mc := s.mc, host := s.host, lifetime := 1800 * second } : Ev)
  let ends := ws.map fun (k, _, e, f) => ({ kind := "E", t := e, idx := k, failed := f } : Ev)
  let lastEnd := (ws.map fun (_, _, e, _) => e).foldl max c.tc
  let t1 := if Gen.Advertise.shutdownAwaitsInflight then lastEnd else c.tc
  let n := ws.length
  let fin := if c.terminate then
      [({ kind := "B", t := t1, idx := n, mc := true, host := 0, lifetime := 0 } : Ev),
       { kind := "E", t := t1 + latOf c.lat n, idx := n, failed := decide ((n : Int) = c.failIdx) }]
    else []
  let ret := if c.terminate then t1 + latOf c.lat n else t1
  let cancelEv : Ev := { kind := "C", t := c.tc }
  let retEv : Ev := { kind := "R", t := ret }
  (markEnds (begins ++ ends ++ [cancelEv] ++ fin ++ [retEv])).mergeSort evLe

def toSh (finalIdx : Option Nat) (e : Ev) : ShEv :=
  if e.kind == "C" then .cancel else if e.kind == "R" then .runReturn
  else if e.kind == "B" then (if some e.idx == finalIdx then .finalBegin else .writeBegin)
  else (if some e.idx == finalIdx then .finalEnd else .writeEnd)

/-- `shut … | status n event*` -/
def shut (c impl : List String) : Option Verdict := do
  let cs ← P.run pCase c
  let (status, evs) ← P.run (do let s ← P.tok; let l ← P.list pEv; pure (s, l)) impl
  let model := timeline cs
  let modelStr := s!"nil {model.length}" ++ String.join (model.map evToks)
  -- the final RA is the transmission with router lifetime 0
  let finalIdx := (evs.find? fun e => e.kind == "B" && e.lifetime == 0).map (·.idx)
  let tr := evs.map (toSh finalIdx)
  let finals := evs.filter fun e => e.kind == "B" && e.lifetime == 0
  let finalOk := finals.all fun e => e.mc && e.same
  let othersOk := (evs.filter fun e => e.kind == "B" && e.lifetime != 0).all fun e => e.lifetime == 1800 * second
  let accepted := shAccepts true cs.terminate tr
  let tcObs := (evs.find? (·.kind == "C")).map (·.t) |>.getD 0
  let retObs := (evs.find? (·.kind == "R")).map (·.t) |>.getD 0
  -- prompt: Run returns no later than the stop instant plus the remaining time of the
  -- transmissions in flight plus the final RA's own transmission time
  let lastEnd := (evs.filter fun e => e.kind == "E" && some e.idx != finalIdx).foldl (fun m e => max m e.t) tcObs
  let finalDur := match finalIdx with
    | some k => ((evs.find? fun e => e.kind == "E" && e.idx == k).map (·.t)).getD 0 - ((evs.find? fun e => e.kind == "B" && e.idx == k).map (·.t)).getD 0
    | none => 0
  let prompt := decide (retObs ≤ lastEnd + finalDur)
  let ok := status == "nil" && Spec.C08.holds cs.terminate tr && accepted && finalOk && othersOk && prompt
  let note := if status != "nil" then s!"Run reported {status}"
    else if !Spec.C08.holds cs.terminate tr then "final RA not exactly-once / not last / something transmitted after Run returned"
    else if !accepted then "observed trace is not a trace of the shutdown transition system"
    else if !finalOk then "final RA differs from the normal RA in more than the router lifetime"
    else if !prompt then "Run did not return promptly"
    else ""
  let sortedImpl := (markEnds evs).mergeSort evLe
  let nt := model.any fun e => e.kind == "E" && decide (e.t > cs.tc) && e.idx < (dueSends cs.adv).length
  let exact := status == "nil" && sortedImpl == model
  -- K-2 (lost wake-up in mdlayher/schedgroup): a scheduled transmission may begin late, at one
  -- of the scheduler's later wake-up instants (or not at all when the stop comes first).  Such a
  -- run is one of the model's allowed outcomes iff, per destination, the observed begins are the
  -- predicted ones in order, each on time or late at a wake-up instant, every completion comes
  -- its scripted latency after its begin, and the oracle above holds.
  let implB := evs.filter fun e => e.kind == "B" && e.lifetime != 0
  let modelB := model.filter fun e => e.kind == "B" && e.lifetime != 0
  let wake := (allRequests cs.adv).map (·.1) ++ implB.map (·.t) ++ [cs.tc]
  let dsts := (modelB ++ implB).map (fun e => (e.mc, e.host)) |>.eraseDups
  let lateDst := fun (m i : List Time) =>
    decide (i.length ≤ m.length) && (m.zip i).all fun (t, t') => t' == t || (decide (t < t') && wake.contains t')
  let lateBegins := dsts.all fun d =>
    lateDst ((modelB.filter fun e => (e.mc, e.host) == d).map (·.t)) ((implB.filter fun e => (e.mc, e.host) == d).map (·.t))
  let endsOk := evs.all fun e =>
    e.kind != "E" || (match evs.find? (fun b => b.kind == "B" && b.idx == e.idx) with
      | some b => e.t == b.t + latOf cs.lat e.idx
      | none => false)
  let late := !exact && status == "nil" && ok && lateBegins && endsOk
  -- a transmission due at the very stop instant may or may not be started (the timer and the
  -- cancellation are concurrent): the prediction that includes it is equally allowed
  let cs2 : ShutCase := { cs with adv := { cs.adv with stop := cs.adv.stop + 1 } }
  let model2 := timeline cs2
  let tie := model2 != model
  let exact2 := tie && status == "nil" && sortedImpl == model2
  let modelB2 := model2.filter fun e => e.kind == "B" && e.lifetime != 0
  let lateBegins2 := ((modelB2 ++ implB).map (fun e => (e.mc, e.host)) |>.eraseDups).all fun d =>
    lateDst ((modelB2.filter fun e => (e.mc, e.host) == d).map (·.t)) ((implB.filter fun e => (e.mc, e.host) == d).map (·.t))
  let late2 := tie && !exact2 && status == "nil" && ok && lateBegins2 && endsOk
  pure { model := modelStr, oracle := ok, nontrivial := nt, note := note,
         agreeOverride := some (exact || late || exact2 || late2) }

/-- `cw terminate | status nFinal served`: the advertiser's link-state channel is already closed when
    it starts (the watcher has ended / the platform has none): it serves and stops as usual — exactly
    one zero-lifetime RA iff terminating, and `Run` returns nil. -/
def cw (c impl : List String) : Option Verdict := do
  let term ← P.run P.bool c
  let (status, nFinal, served) ← P.run (do let s ← P.tok; let n ← P.nat; let b ← P.bool; pure (s, n, b)) impl
  let want := if term then 1 else 0
  let model := s!"nil {want} 1"
  let ok := status == "nil" && nFinal == want && served
  pure { model := model, oracle := ok, nontrivial := true,
         note := if status != "nil" then s!"Run reported {status} although the only thing wrong with the interface is that its link watcher has ended"
           else if nFinal != want then "final RA not exactly once iff terminating" else if !served then "no initial RA" else "" }

end Driver.C08
