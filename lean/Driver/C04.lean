import Corerad.Model.Paths
namespace Driver.C04
open Corerad Corerad.Model.Paths

def pathOf (n : Nat) : Path :=
  match n with
  | 0 => .initial | 1 => .periodic | 2 => .solicited | 3 => .final | 4 => .verify | 5 => .scrape | _ => .api

def pOp : P Op := do
  let t ← P.tok
  if t == "F" then
    let i ← P.nat; let b ← P.bool; pure (.setFw i b)
  else if t == "G" then
    let i ← P.nat; let p ← P.nat; pure (.gen i (pathOf p))
  else failure

/-- what the harness can observe of a generation on a path, from the model's `Obs`, given the
    forwarding value at that moment and whether the advertiser had already been stopped -/
def render (fw : Bool) (stopped : Bool) (pn : Nat) (o : Obs) : Int × Int :=
  if stopped && pn != 5 && pn != 6 then (-2, -2)
  else if pn == 5 then (if fw then -11 else -10, if o.misconfig then 1 else 0)   -- scrape: forwarding gauge, misconfiguration gauge
  else if pn == 6 then (o.lifetime / second * second, -1)                         -- API: whole seconds, no misconfiguration
  else (o.lifetime, if o.misconfig then 1 else 0)

/-- a history step as the harness encodes it: flip, one-shot read failure, one-shot plugin failure,
    or generation -/
inductive HOp where
  | setFw (i : Nat) (b : Bool)
  | failNext (i : Nat)
  /-- the next `Apply` of the interface's (harness-defined) plugin fails, once -/
  | pfailNext (i : Nat)
  | gen (i : Nat) (pn : Nat)
  /-- a marker without effect on the prediction: a periodic generation of the interface is held in
      flight (inside a plugin) across the following operations -/
  | held (i : Nat)

/-- A scrape / an API request goes through the interfaces in configuration order; for each it reads
    the forwarding state and then builds the RA (which applies the plugins), and gives up at the first
    step that fails — consuming that one-shot failure only.  `some (ff, pf)` = it failed, with the
    failure flags that remain. -/
def viewFails (ff pf : Nat → Bool) : Option ((Nat → Bool) × (Nat → Bool)) :=
  if ff 0 then some (setAt ff 0 false, pf)
  else if pf 0 then some (ff, setAt pf 0 false)
  else if ff 1 then some (setAt ff 1 false, pf)
  else if pf 1 then some (ff, setAt pf 1 false)
  else none

/-- replay the history in the model.  `stopped`: advertisers ended by `final` or because an RA
    could not be built; `failing`: the next forwarding read of the interface fails — then no RA
    may be produced from a remembered value: the generation yields nothing (−3), and on a
    transmitting path the advertiser ends; `pfailing`: the next plugin `Apply` fails, with the same
    consequence (the forwarding read comes first: a pending read failure is hit before it) -/
def modelObs (cfg : Nat → Dur) : (Nat → Bool) → (Nat → Bool) → (Nat → Bool) → (Nat → Bool) → List HOp → List (Nat × Nat × Int × Int)
  | _, _, _, _, [] => []
  | fw, stopped, failing, pfailing, .setFw i b :: rest => modelObs cfg (setAt fw i b) stopped failing pfailing rest
  | fw, stopped, failing, pfailing, .failNext i :: rest => modelObs cfg fw stopped (setAt failing i true) pfailing rest
  | fw, stopped, failing, pfailing, .pfailNext i :: rest => modelObs cfg fw stopped failing (setAt pfailing i true) rest
  | fw, stopped, failing, pfailing, .held _ :: rest => modelObs cfg fw stopped failing pfailing rest
  | fw, stopped, failing, pfailing, .gen i pn :: rest =>
    let isView := pn == 5 || pn == 6
    if stopped i && !isView then (i, pn, -2, -2) :: modelObs cfg fw stopped failing pfailing rest
    else if isView then
      match viewFails failing pfailing with
      | some (ff, pf) => (i, pn, -3, -3) :: modelObs cfg fw stopped ff pf rest
      | none =>
        let o := generate cfg (fw i) i (pathOf pn)
        let (a, b) := render (fw i) false pn o
        (i, pn, a, b) :: modelObs cfg fw stopped failing pfailing rest
    else if failing i then
      (i, pn, -3, -3) :: modelObs cfg fw (setAt stopped i true) (setAt failing i false) pfailing rest
    else if pfailing i then
      (i, pn, -3, -3) :: modelObs cfg fw (setAt stopped i true) failing (setAt pfailing i false) rest
    else
      let o := generate cfg (fw i) i (pathOf pn)
      let (a, b) := render (fw i) false pn o
      let stopped' := if pn == 3 then setAt stopped i true else stopped
      (i, pn, a, b) :: modelObs cfg fw stopped' failing pfailing rest

/-- `pth lt0 lt1 n op* | k (iface path lifetime misconfig)*` -/
def pth (c impl : List String) : Option Verdict := do
  let (lt0, lt1, ops) ← P.run (do
    let a ← P.int; let b ← P.int
    let ops ← P.list (do
      let t ← P.tok
      if t == "F" then do let i ← P.nat; let b ← P.bool; pure (HOp.setFw i b)
      else if t == "X" then do let i ← P.nat; pure (HOp.failNext i)
      -- the next Apply of the interface's (harness-defined) plugin fails once
      else if t == "P" then do let i ← P.nat; pure (HOp.pfailNext i)
      else if t == "O" then do let i ← P.nat; pure (HOp.held i)
      else if t == "G" then do let i ← P.nat; let p ← P.nat; pure (HOp.gen i p)
      else failure)
    pure (a, b, ops)) c
  let observed ← P.run (P.list (do
    let i ← P.nat; let p ← P.nat; let lt ← P.int; let m ← P.int; pure (i, p, lt, m))) impl
  let cfg : Nat → Dur := fun i => if i == 0 then lt0 else lt1
  let want := modelObs cfg (fun _ => true) (fun _ => false) (fun _ => false) (fun _ => false) ops
  let toks := fun (l : List (Nat × Nat × Int × Int)) =>
    s!"{l.length}" ++ String.join (l.map fun (i, p, a, b) => s!" {i} {p} {a} {b}")
  let ok := observed == want
  let flips := ops.any fun o => match o with | .setFw _ _ => true | _ => false
  pure { model := toks want, oracle := ok, nontrivial := flips && want.length ≥ 2,
         note := if ok then "" else "an RA generated on some path does not reflect the forwarding state at that moment (lifetime / misconfiguration), or was built although the state could not be read" }

end Driver.C04
