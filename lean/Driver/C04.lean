import Corerad.Model.Paths
namespace Driver.C04
open Corerad Corerad.Model.Paths

def pathOf (n : Nat) : Path :=
  match n with
  | 0 => .initial | 1 => .periodic | 2 => .solicited | 3 => .final | 4 => .verify | 5 => .scrape | _ => .api

def pOp : P Op := do
  let t ← P.tok
  if t == "F" then
    let i ← P.nat; let b ← P.bool; pure (.setFw i b)
  else if t == "G" then
    let i ← P.nat; let p ← P.nat; pure (.gen i (pathOf p))
  else failure

/-- what the harness can observe of a generation on a path, from the model's `Obs`, given the
    forwarding value at that moment and whether the advertiser had already been stopped -/
def render (fw : Bool) (stopped : Bool) (pn : Nat) (o : Obs) : Int × Int :=
  if stopped && pn != 5 && pn != 6 then (-2, -2)
  else if pn == 5 then (if fw then -11 else -10, if o.misconfig then 1 else 0)   -- scrape: forwarding gauge, misconfiguration gauge
  else if pn == 6 then (o.lifetime / second * second, -1)                         -- API: whole seconds, no misconfiguration
  else (o.lifetime, if o.misconfig then 1 else 0)

/-- a history step as the harness encodes it: flip, one-shot read failure, or generation -/
inductive HOp where
  | setFw (i : Nat) (b : Bool)
  | failNext (i : Nat)
  | gen (i : Nat) (pn : Nat)
  /-- a marker without effect on the prediction: a periodic generation of the interface is held in
      flight (inside a plugin) across the following operations -/
  | held (i : Nat)

/-- replay the history in the model.  `stopped`: advertisers ended by `final` or because an RA
    could not be built; `failing`: the next forwarding read of the interface fails — then no RA
    may be produced from a remembered value: the generation yields nothing (−3), and on a
    transmitting path the advertiser ends -/
def modelObs (cfg : Nat → Dur) : (Nat → Bool) → (Nat → Bool) → (Nat → Bool) → List HOp → List (Nat × Nat × Int × Int)
  | _, _, _, [] => []
  | fw, stopped, failing, .setFw i b :: rest => modelObs cfg (setAt fw i b) stopped failing rest
  | fw, stopped, failing, .failNext i :: rest => modelObs cfg fw stopped (setAt failing i true) rest
  | fw, stopped, failing, .held _ :: rest => modelObs cfg fw stopped failing rest
  | fw, stopped, failing, .gen i pn :: rest =>
    let isView := pn == 5 || pn == 6
    if stopped i && !isView then (i, pn, -2, -2) :: modelObs cfg fw stopped failing rest
    else if isView && (failing 0 || failing 1) then
      -- a scrape / an API request reads the forwarding state of every interface in configuration
      -- order and gives up at the first read that fails (consuming that failure only)
      let j := if failing 0 then 0 else 1
      (i, pn, -3, -3) :: modelObs cfg fw stopped (setAt failing j false) rest
    else if failing i then
      (i, pn, -3, -3) :: modelObs cfg fw (setAt stopped i true) (setAt failing i false) rest
    else
      let o := generate cfg (fw i) i (pathOf pn)
      let (a, b) := render (fw i) false pn o
      let stopped' := if pn == 3 then setAt stopped i true else stopped
      (i, pn, a, b) :: modelObs cfg fw stopped' failing rest

/-- `pth lt0 lt1 n op* | k (iface path lifetime misconfig)*` -/
def pth (c impl : List String) : Option Verdict := do
  let (lt0, lt1, ops) ← P.run (do
    let a ← P.int; let b ← P.int
    let ops ← P.list (do
      let t ← P.tok
      if t == "F" then do let i ← P.nat; let b ← P.bool; pure (HOp.setFw i b)
      else if t == "X" then do let i ← P.nat; pure (HOp.failNext i)
      -- the next Apply of the interface's wildcard plugin fails once; generated only right before a
      -- generation on a transmitting path of that interface, where it has the effect of a failing
      -- forwarding read: nothing is generated and the advertiser ends
      else if t == "P" then do let i ← P.nat; pure (HOp.failNext i)
      else if t == "O" then do let i ← P.nat; pure (HOp.held i)
      else if t == "G" then do let i ← P.nat; let p ← P.nat; pure (HOp.gen i p)
      else failure)
    pure (a, b, ops)) c
  let observed ← P.run (P.list (do
    let i ← P.nat; let p ← P.nat; let lt ← P.int; let m ← P.int; pure (i, p, lt, m))) impl
  let cfg : Nat → Dur := fun i => if i == 0 then lt0 else lt1
  let want := modelObs cfg (fun _ => true) (fun _ => false) (fun _ => false) ops
  let toks := fun (l : List (Nat × Nat × Int × Int)) =>
    s!"{l.length}" ++ String.join (l.map fun (i, p, a, b) => s!" {i} {p} {a} {b}")
  let ok := observed == want
  let flips := ops.any fun o => match o with | .setFw _ _ => true | _ => false
  pure { model := toks want, oracle := ok, nontrivial := flips && want.length ≥ 2,
         note := if ok then "" else "an RA generated on some path does not reflect the forwarding state at that moment (lifetime / misconfiguration), or was built although the state could not be read" }

end Driver.C04
