import Corerad.Model.Paths
namespace Driver.C04
open Corerad Corerad.Model.Paths

def pathOf (n : Nat) : Path :=
  match n with
  | 0 => .initial | 1 => .periodic | 2 => .solicited | 3 => .final | 4 => .verify | 5 => .scrape | _ => .api

def pOp : P Op := do
  let t ← P.tok
  if t == "F" then
    let i ← P.nat; let b ← P.bool; pure (.setFw i b)
  else if t == "G" then
    let i ← P.nat; let p ← P.nat; pure (.gen i (pathOf p))
  else failure

/-- what the harness can observe of a generation on a path, from the model's `Obs`, given the
    forwarding value at that moment and whether the advertiser had already been stopped -/
def render (fw : Bool) (stopped : Bool) (pn : Nat) (o : Obs) : Int × Int :=
  if stopped && pn != 5 && pn != 6 then (-2, -2)
  else if pn == 5 then (if fw then -11 else -10, if o.misconfig then 1 else 0)   -- scrape: forwarding gauge, misconfiguration gauge
  else if pn == 6 then (o.lifetime / second * second, -1)                         -- API: whole seconds, no misconfiguration
  else (o.lifetime, if o.misconfig then 1 else 0)

/-- replay the history in the model, tracking which advertisers were stopped by `final` -/
def modelObs (cfg : Nat → Dur) : (Nat → Bool) → (Nat → Bool) → List (Op × Nat) → List (Nat × Nat × Int × Int)
  | _, _, [] => []
  | fw, stopped, (.setFw i b, _) :: rest => modelObs cfg (setAt fw i b) stopped rest
  | fw, stopped, (.gen i p, pn) :: rest =>
    let o := generate cfg (fw i) i p
    let (a, b) := render (fw i) (stopped i) pn o
    let stopped' := if pn == 3 then setAt stopped i true else stopped
    (i, pn, a, b) :: modelObs cfg fw stopped' rest

/-- `pth lt0 lt1 n op* | k (iface path lifetime misconfig)*` -/
def pth (c impl : List String) : Option Verdict := do
  let (lt0, lt1, rawOps) ← P.run (do
    let a ← P.int; let b ← P.int
    let ops ← P.list (do
      let t ← P.tok
      if t == "F" then do let i ← P.nat; let b ← P.bool; pure (Op.setFw i b, 0)
      else if t == "G" then do let i ← P.nat; let p ← P.nat; pure (Op.gen i (pathOf p), p)
      else failure)
    pure (a, b, ops)) c
  let observed ← P.run (P.list (do
    let i ← P.nat; let p ← P.nat; let lt ← P.int; let m ← P.int; pure (i, p, lt, m))) impl
  let cfg : Nat → Dur := fun i => if i == 0 then lt0 else lt1
  let want := modelObs cfg (fun _ => true) (fun _ => false) rawOps
  let toks := fun (l : List (Nat × Nat × Int × Int)) =>
    s!"{l.length}" ++ String.join (l.map fun (i, p, a, b) => s!" {i} {p} {a} {b}")
  let ok := observed == want
  let flips := rawOps.any fun (o, _) => match o with | .setFw _ _ => true | _ => false
  pure { model := toks want, oracle := ok, nontrivial := flips && want.length ≥ 2,
         note := if ok then "" else "an RA generated on some path does not reflect the forwarding state at that moment (lifetime / misconfiguration)" }

end Driver.C04
