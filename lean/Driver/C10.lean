import Corerad.Model.Group
namespace Driver.C10
open Corerad Corerad.Model.Group

/-- run internal steps until none is enabled -/
def saturate (cbw : Bool) : Nat → St → St
  | 0, x => x
  | n+1, x =>
    match internal.findSome? (fun e => step cbw x e) with
    | some y => saturate cbw n y
    | none => x

/-- environment event of the transition system for a fault kind -/
def faultEv (kind : Nat) : Ev :=
  match kind with
  | 0 | 1 | 2 | 7 | 10 => .readErr   -- read error, exhausted retries, handler error (10: a *fs.PathError): Listen returns an error
  | 3 | 4 => .writeErr
  | 5 => .linkChange
  | _ => .cancelParent

/-- does the failure recover by re-dialling (link change, non-permission system-call error)? -/
def recoverable (kind : Nat) : Bool := kind == 1 || kind == 4 || kind == 5 || kind == 8 || kind == 10

/-- kinds 8 and 9: the initial multicast RA of the first connection fails (system-call error /
    other error) — before the task's goroutines exist; the classification of the error is the same
    as for a later transmission. -/
def atInit (kind : Nat) : Bool := kind == 8 || kind == 9

def expectedOutcome (kind : Nat) : String :=
  if kind == 6 then "nil" else if recoverable kind then "redial" else "error"

/-- `grp monitor unicastOnly kind tf | outcome dt oldUse final` -/
def grp (c impl : List String) : Option Verdict := do
  let (mon, uo, kind, _tf) ← P.run (do
    let m ← P.bool; let u ← P.bool; let k ← P.nat; let t ← P.int; pure (m, u, k, t)) c
  let (outcome, dt, oldUse, final) ← P.run (do
    let o ← P.tok; let d ← P.int; let u ← P.nat; let f ← P.tok; pure (o, d, u, f)) impl
  -- the model: after the fault the group winds down completely (τ-closure reaches `ret`)
  let s0 := init mon uo
  let after := (step Gen.Listener.cancelBeforeWait s0 (faultEv kind)).map (saturate Gen.Listener.cancelBeforeWait 32)
  let modelReturns := atInit kind || match after with
    | some x => x.ret
    | none => false
  let modelOutcome := if modelReturns then expectedOutcome kind else "running"
  -- prompt: within 1 s of the fault (receive retries: 5 timeouts back off 0+50+…+200 ms first;
  -- a failing transmission happens up to MAX_RA_DELAY_TIME after the solicitation that caused it)
  let bound : Int := 1000000000
  let ok := outcome == expectedOutcome kind && decide (0 ≤ dt) && decide (dt ≤ bound) && oldUse == 0 && final == "nil"
  let note := if outcome == "running" then "half-alive: the task neither returned nor re-dialled after the fault"
    else if outcome != expectedOutcome kind then s!"the fault must lead to {expectedOutcome kind}, observed {outcome}"
    else if oldUse != 0 then "the old connection was still used after the task was torn down"
    else if final != "nil" then "the task did not stop cleanly afterwards"
    else if !decide (dt ≤ bound) then "teardown was not prompt" else ""
  pure { model := s!"{modelOutcome}", oracle := ok, nontrivial := kind != 6, note := note,
         agreeOverride := some (outcome == modelOutcome) }

end Driver.C10
